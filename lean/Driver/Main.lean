/-
  catdrv: reads scenarios on stdin (same protocol as harness/replay.c) and prints the model's
  trace lines. Imports nothing from Mathlib (links as a lean_exe).
-/
import CatVerif.Model.Api
import CatVerif.Model.Measure
open Cat

namespace Drv

def hexDigit (c : Char) : Nat :=
  if '0' ≤ c ∧ c ≤ '9' then c.toNat - '0'.toNat
  else if 'a' ≤ c ∧ c ≤ 'f' then c.toNat - 'a'.toNat + 10
  else if 'A' ≤ c ∧ c ≤ 'F' then c.toNat - 'A'.toNat + 10 else 0

partial def unhexL : List Char → List Nat
  | a :: b :: r => (hexDigit a * 16 + hexDigit b) :: unhexL r
  | _ => []

def unhex (s : String) : List Nat :=
  match s.toList with
  | 'x' :: r => unhexL r
  | l => unhexL l

def unhexOpt (s : String) : Option (List Nat) := if s == "-" then none else some (unhex s)

def hexChar (n : Nat) : Char := if n < 10 then Char.ofNat (48 + n) else Char.ofNat (87 + n)

def hexOf (bs : List Nat) : String :=
  String.ofList (bs.foldr (fun b acc => hexChar (b / 16 % 16) :: hexChar (b % 16) :: acc) [])

def toI (s : String) : Int := s.toInt?.getD 0
def toN (s : String) : Nat := s.toNat?.getD 0

structure CmdB where
  c : CmdD
  group : Int
  varsNull : Bool
  vars : Array VarD := #[]

structure Build where
  cap : Nat := 1
  bufSize : Nat := 0
  uns : Int := -1
  mutex : Bool := false
  slots : Array (List Nat) := #[]
  groups : Array (Option (List Nat) × Bool) := #[]
  cmds : Array CmdB := #[]

def varType (n : Nat) : VarType :=
  match n with | 0 => .intDec | 1 => .uintDec | 2 => .numHex | 3 => .bufHex | _ => .bufString
def accessOf (n : Nat) : Access := match n with | 0 => .rw | 1 => .ro | _ => .wo

def Build.finish (b : Build) : World :=
  let mk (cb : CmdB) : CmdD := { cb.c with vars := if cb.varsNull then none else some cb.vars.toList }
  let groups : List GroupD := (List.range b.groups.size).map fun g =>
    let (nm, dis) := b.groups[g]!
    { name := nm, disable := dis,
      cmds := (b.cmds.toList.filter (fun cb => cb.group == (g : Int))).map mk }
  let extras := (b.cmds.toList.filter (fun cb => cb.group < 0)).map mk
  let D : Desc := { groups := groups, extras := extras, bufSize := b.bufSize,
                    unsBuf := if b.uns < 0 then none else some b.uns.toNat,
                    cap := b.cap, hasMutex := b.mutex }
  { D := D, s := init D (List.replicate b.bufSize 165)
                 (List.replicate (if b.uns < 0 then 0 else b.uns.toNat) 90) b.slots.toList }

def parseAct (t : String) : Option Nested :=
  let body := (t.drop 2).toString
  let parts := body.splitOn ":"
  match t.toList.head? with
  | some 'e' => some (.edit (unhex body))
  | some 't' => match parts with
    | [c, ty] => some (.trigger (toN c) (toI ty))
    | _ => none
  | some 'x' => some (.holdExit (toI body))
  | some 'z' => some (.report (toN body))
  | some 'p' => match parts with
    | [sl, off, d] => some (.poke (toN sl) (toN off) (unhex d))
    | _ => none
  | _ => none

def parseAns (t : String) : HAnswer :=
  match t.splitOn "/" with
  | [] => ⟨0, []⟩
  | r :: acts => ⟨toI r, acts.filterMap parseAct⟩

structure Opts where
  lk : Int := 0
  ul : Int := 0
  hs : List HAnswer := []
  vs : List HAnswer := []

def parseOpts (toks : List String) : Opts :=
  toks.foldl (fun o t =>
    if t.startsWith "lk=" then { o with lk := toI (t.drop 3).toString }
    else if t.startsWith "ul=" then { o with ul := toI (t.drop 3).toString }
    else if t.startsWith "h=" then { o with hs := ((t.drop 2).toString.splitOn ",").map parseAns }
    else if t.startsWith "v=" then { o with vs := ((t.drop 2).toString.splitOn ",").map parseAns }
    else o) {}

def evStr : Ev → Option String
  | .lock r => some s!"L={r}"
  | .unlock r => some s!"U={r}"
  | .rd none => some "R:-"
  | .rd (some b) => some s!"R:{hexOf [b]}"
  | .wr f b acc part => some s!"W:{hexOf [b]}:{if acc then 1 else 0}:{match f with | .cmd => "c" | .uns => "u"}{part}"
  | .handler f k c data z len aux ret =>
    let ks := match k with | .write => "w" | .read => "r" | .run => "x" | .test => "t"
    let fs := match f with | .cmd => "c" | .uns => "u"
    some s!"H:{ks}:{c}:{fs}:{hexOf data}:z{if z then 1 else 0}:{len}:{aux}={ret}"
  | .varcb f c i w size ret => some s!"V:{c}:{i}:{if w then "w" else "r"}:{size}:{match f with | .cmd => "c" | .uns => "u"}={ret}"
  | .nestedTrig c t ret => some s!"N:t:{c}:{t}={ret}"
  | .nestedExit st ret => some s!"N:x:{st}={ret}"
  | _ => none

structure Run where
  w : World
  inq : List Nat := []
  opno : Nat := 0
  hq : List HAnswer := []     -- persistent answer scripts (hq / vq records)
  vq : List HAnswer := []

def optNat (o : Option Nat) : Int := match o with | some n => n | none => -1

def cksum (bs : List Nat) : Nat := bs.foldl (fun h b => (h * 131 + b) % 4294967291) 7

def traceLine (name : String) (before : World) (after : World) (ret : Int) : String :=
  let evs := String.intercalate ";" (after.s.log.filterMap evStr)
  let mem := String.join ((List.range after.s.mem.length).filterMap fun i =>
    let a := after.s.mem.getD i []
    if a != before.s.mem.getD i [] then some s!"{i}:{hexOf a};" else none)
  let s := after.s
  let D := after.D
  let busy := Gen.is_busy s.state.code s.ustate.code
  let hold := Gen.is_hold s.holdFlag
  let full : Int := if Gen.is_unsolicited_buffer_full s.rcount D.cap then Gen.CAT_STATUS_ERROR_BUFFER_FULL else 0
  let cb := cksum (St.region D s .cmd 0)
  let ub := cksum (St.region D s .uns 0)
  s!"{name} ret={ret} ev={evs} m={mem} q={busy},{hold},{full},{optNat s.cmd},{optNat s.ucmd} b={cb},{ub} st={s.state.code},{s.ustate.code},{s.rcount},{mu D s}"

/-- distribute the ordered callback answers of a `svc` line over the two machines -/
def mkSvcIn (w : World) (r wr : Bool) (inq : List Nat) (o0 : Opts) (hq vq : List HAnswer := []) : SvcIn :=
  let o : Opts := { o0 with hs := if o0.hs.isEmpty then hq else o0.hs, vs := if o0.vs.isEmpty then vq else o0.vs }
  let s := w.s
  let unsH := s.ustate == .readLoop || s.ustate == .testLoop
  let unsV := s.ustate == .formatReadArgs &&
    ((w.D.cmdD s.ucmd).varAt s.uindex).hasRead
  let dh : HAnswer := ⟨3, []⟩
  let dv : HAnswer := ⟨0, []⟩
  { rd := if r then inq.head? else none, wr := wr,
    hu := if unsH then o.hs.getD 0 dh else dh,
    hc := if unsH then o.hs.getD 1 dh else o.hs.getD 0 dh,
    vu := if unsV then o.vs.getD 0 dv else dv,
    vc := if unsV then o.vs.getD 1 dv else o.vs.getD 0 dv,
    lock := o.lk, unlock := o.ul }

def consumed (s : St) : Bool := s.log.any fun e => match e with | .rd (some _) => true | _ => false

def nHandler (s : St) : Nat := (s.log.filter fun e => match e with | .handler .. => true | _ => false).length
def nVarcb (s : St) : Nat := (s.log.filter fun e => match e with | .varcb .. => true | _ => false).length

/-- consume the persistent scripts according to the callbacks actually made -/
def Run.afterSvc (r : Run) (w' : World) (o : Opts) : Run :=
  { r with w := w', inq := if consumed w'.s then r.inq.drop 1 else r.inq,
           hq := if o.hs.isEmpty then r.hq.drop (nHandler w'.s) else r.hq,
           vq := if o.vs.isEmpty then r.vq.drop (nVarcb w'.s) else r.vq }

def doSvc (r : Run) (name : String) (rd wr : Bool) (o : Opts) : Run × String :=
  let i := mkSvcIn r.w rd wr r.inq o r.hq r.vq
  let (w', ret) := apply r.w (.service i)
  let fault := (if w'.s.oob && !r.w.s.oob then s!"\nFAULT oob at op {name}" else "") ++
               (if w'.s.ub && !r.w.s.ub then s!"\nFAULT ub at op {name}" else "")
  (r.afterSvc w' o, traceLine name r.w w' ret ++ fault)

def doOp (r : Run) (name : String) (op : Op) : Run × String :=
  let (w', ret) := apply r.w op
  let inq := if consumed w'.s then r.inq.drop 1 else r.inq
  let fault := (if w'.s.oob && !r.w.s.oob then s!"\nFAULT oob at op {name}" else "") ++
               (if w'.s.ub && !r.w.s.ub then s!"\nFAULT ub at op {name}" else "")
  ({ r with w := w', inq := inq }, traceLine name r.w w' ret ++ fault)

def lastRet (line : String) : Int :=
  match ((line.splitOn " ret=").getD 1 "").splitOn " " with
  | x :: _ => toI x
  | [] => 1

partial def drain (r : Run) (opno : Nat) (k max : Nat) (rd wr : Bool) (o : Opts) (acc : Array String) : Run × Array String :=
  if k ≥ max then (r, acc)
  else
    let (r, line) := doSvc r s!"{opno}.{k}" rd wr o
    let ret := r.w.s.log.length * 0 + (lastRet line)
    if ret == 0 then (r, acc.push line) else drain r opno (k + 1) max rd wr o (acc.push line)

structure Ctx where
  b : Build := {}
  run : Option Run := none

def step (c : Ctx) (line : String) : Ctx × Array String :=
  let toks := (line.trimAscii.toString.splitOn " ").filter (· ≠ "")
  match toks with
  | [] => (c, #[])
  | "scn" :: id :: rest =>
    let cap := (rest.filterMap fun t => if t.startsWith "cap=" then some (toN (t.drop 4).toString) else none).head?.getD 1
    ({ b := { cap := cap }, run := none }, #[s!"scn {id}"])
  | ["buf", sz, uns] => ({ c with b := { c.b with bufSize := toN sz, uns := toI uns } }, #[])
  | ["mutex", m] => ({ c with b := { c.b with mutex := m == "1" || m == "2" } }, #[])    -- 2: interface completed right after cat_init
  | ["slot", len, ini] =>
    let n := toN len
    let d := (unhexOpt ini).getD []
    let data := (d.take n) ++ List.replicate (n - d.length) 0
    ({ c with b := { c.b with slots := c.b.slots.push data } }, #[])
  | ["group", nm, dis] => ({ c with b := { c.b with groups := c.b.groups.push (unhexOpt nm, dis == "1") } }, #[])
  | ["cmd", nm, desc, hmask, vnull, flags, grp] =>
    let h := toN hmask
    let fl := toN flags
    let cd : CmdD := { name := unhex nm, desc := unhexOpt desc,
                       hasWrite := h % 2 == 1, hasRead := h / 2 % 2 == 1, hasRun := h / 4 % 2 == 1, hasTest := h / 8 % 2 == 1,
                       vars := none, needAll := fl % 2 == 1, onlyTest := fl / 2 % 2 == 1,
                       disable := fl / 4 % 2 == 1, implicitWrite := fl / 8 % 2 == 1 }
    ({ c with b := { c.b with cmds := c.b.cmds.push { c := cd, group := toI grp, varsNull := vnull == "1" } } }, #[])
  | ["var", cid, nm, ty, slot, size, acc, cb] =>
    let v : VarD := { name := unhexOpt nm, type := varType (toN ty), slot := toN slot, dataSize := toN size,
                      access := accessOf (toN acc), hasRead := toN cb % 2 == 1, hasWrite := toN cb / 2 % 2 == 1 }
    let cmds := c.b.cmds.modify (toN cid) fun cb => { cb with vars := cb.vars.push v }
    ({ c with b := { c.b with cmds := cmds } }, #[])
  | ["init"] => ({ c with run := some { w := c.b.finish } }, #[])
  | "expect" :: _ => (c, #[])
  | "broken" :: _ => (c, #[])
  | "note" :: _ => (c, #[])
  | op :: args =>
    match c.run with
    | none => (c, #[s!"ERR op before init: {op}"])
    | some r =>
      if op == "in" then
        ({ c with run := some { r with inq := r.inq ++ unhex (args.getD 0 "") } }, #[])
      else if op == "hq" then
        ({ c with run := some { r with hq := r.hq ++ ((args.getD 0 "").splitOn ",").map parseAns } }, #[])
      else if op == "vq" then
        ({ c with run := some { r with vq := r.vq ++ ((args.getD 0 "").splitOn ",").map parseAns } }, #[])
      else if op == "refval" then
        -- the value a refusing io->write returns: any value but 1 is a refusal, the model only knows "refused"
        (c, #[])
      else
        let r := { r with opno := r.opno + 1 }
        let name := toString r.opno
        let fin (x : Run × String) : Ctx × Array String := ({ c with run := some x.1 }, #[x.2])
        match op, args with
        | "svc", rd :: wr :: rest =>
          let o := parseOpts rest
          fin (doSvc r name (rd == "1") (wr.startsWith "1") o)
        | "drain", mx :: rd :: wr :: rest =>
          let o := parseOpts rest
          let (r, lines) := drain r r.opno 0 (toN mx) (rd == "1") (wr.startsWith "1") o #[]
          ({ c with run := some r }, lines)
        | "trig", cid :: ty :: rest => let o := parseOpts rest; fin (doOp r name (.trigger (toN cid) (toI ty) o.lk o.ul))
        | "trigr", cid :: rest => let o := parseOpts rest; fin (doOp r name (.trigger (toN cid) 1 o.lk o.ul))
        | "trigt", cid :: rest => let o := parseOpts rest; fin (doOp r name (.trigger (toN cid) 3 o.lk o.ul))
        | "hexit", st :: rest => let o := parseOpts rest; fin (doOp r name (.holdExit (toI st) o.lk o.ul))
        | "busy", rest => let o := parseOpts rest; fin (doOp r name (.isBusy o.lk o.ul))
        | "hold", rest => let o := parseOpts rest; fin (doOp r name (.isHold o.lk o.ul))
        | "full", rest => let o := parseOpts rest; fin (doOp r name (.isFull o.lk o.ul))
        | "buffered", [cid, ty] => fin (doOp r name (.buffered (toN cid) (toI ty)))
        | "flag", ["c", cid, "dis", v] => fin (doOp r name (.setCmdDisable (toN cid) (v == "1")))
        | "flag", ["c", cid, "ot", v] => fin (doOp r name (.setCmdOnlyTest (toN cid) (v == "1")))
        | "flag", ["g", g, v] => fin (doOp r name (.setGroupDisable (toN g) (v == "1")))
        | "poke", [sl, off, d] => fin (doOp r name (.poke (toN sl) (toN off) (unhex d)))
        | _, _ => (c, #[s!"ERR unknown record: {line}"])

partial def loop (h : IO.FS.Stream) (out : IO.FS.Stream) (c : Ctx) : IO Unit := do
  let line ← h.getLine
  if line.isEmpty then return ()
  let (c', outs) := step c line
  for o in outs do out.putStrLn o
  loop h out c'

end Drv

def main : IO Unit := do
  let stdin ← IO.getStdin
  let stdout ← IO.getStdout
  Drv.loop stdin stdout {}
