/-
  C19 — TEST response and command list are faithful to the descriptor.

  * `C19_info_token`: the text printed for one variable in the automatic `=?` response is
    `<` name `:` TYPE `[` access `]>` with TYPE from type and width (`Spec.infoToken`), the name part
    omitted for unnamed variables; unsupported widths make the formatter fail;
  * `C19_fits_or_fails`: a sequence of prints succeeds iff the whole text fits (strictly below the
    remaining capacity): nothing is ever truncated silently — a text that does not fit makes the
    formatter report failure, which the callers turn into ERROR (`C19_test_overflow_error`);
  * `C19_list_run` … `C19_list_test`: for an enabled command the command list prints a request form
    exactly under the condition under which the dispatcher accepts that form
    (`C19_dispatch_run`, `C19_dispatch_write`, `C19_dispatch_test`; READ: `C08_read_gate`);
  * `C19_list_skips_disabled`: nothing is printed for a disabled command or a command of a disabled
    group (the F6 repair); `C19_list_order`: commands are visited in registration order.
-/
import CatVerif.Proofs.Log
import CatVerif.Proofs.Graph
namespace Cat
open St

namespace Spec
/-- `<name:TYPE[access]>` -/
def infoToken (v : VarD) : Option (List Byte) :=
  match typeName v.type v.dataSize with
  | none => none
  | some tn =>
    some ([60] ++ (match v.name with | some n => n ++ [58] | none => []) ++ tn ++ [91] ++ accessName v.access ++ [93] ++ [62])
end Spec

theorem printN_pos_ok (D : Desc) (s : St) (f : Fsm) (x : List Byte) (hx : x.length < D.capOf f - s.pos f) :
    (printN D s f x).1.pos f = s.pos f + x.length := by
  have h : ¬ x.length ≥ D.capOf f - s.pos f := by omega
  simp only [printN, h, if_false]
  cases f <;> simp [St.pos]

/-- a sequence of prints stores the concatenated text or fails; it succeeds iff the text fits -/
theorem printAll_ok_iff (D : Desc) (f : Fsm) (xs : List (List Byte)) : ∀ s : St, s.pos f ≤ D.capOf f →
    ((printAll D s f xs).2 = true ↔ (xs = [] ∨ (xs.flatten).length < D.capOf f - s.pos f)) ∧
    ((printAll D s f xs).2 = true → (printAll D s f xs).1.pos f = s.pos f + (xs.flatten).length) := by
  induction xs with
  | nil => intro s _; simp [printAll]
  | cons x r ih =>
    intro s hp
    simp only [printAll]
    have hN : (printN D s f x).2 = true ↔ x.length < D.capOf f - s.pos f := by
      unfold printN; simp only; split <;> simp <;> omega
    by_cases hx : x.length < D.capOf f - s.pos f
    · have hok : (printN D s f x).2 = true := hN.2 hx
      have hpos := printN_pos_ok D s f x hx
      simp only [hok, if_true]
      have := ih (printN D s f x).1 (by rw [hpos]; omega)
      rw [hpos] at this
      constructor
      · rw [this.1]; simp
        constructor
        · rintro (rfl | h)
          · simpa using hx
          · omega
        · intro h
          by_cases hr : r = []
          · left; exact hr
          · right; omega
      · intro h; rw [this.2 h]; simp; omega
    · have hno : (printN D s f x).2 = false := by
        cases h : (printN D s f x).2
        · rfl
        · exact absurd (hN.1 h) hx
      simp [hno]
      omega

/-- the automatic TEST text of one variable -/
theorem C19_info_token (D : Desc) (s : St) (f : Fsm) (v : VarD) :
    (Spec.infoToken v = none → formatInfoType D s f v = (s, false)) ∧
    (∀ t, Spec.infoToken v = some t → ∃ pieces, pieces.flatten = t ∧ formatInfoType D s f v = printAll D s f pieces) := by
  unfold Spec.infoToken formatInfoType
  cases h : typeName v.type v.dataSize with
  | none => simp
  | some tn =>
    simp only [false_implies, true_and, Option.some.injEq, reduceCtorEq]
    intro t ht
    subst ht
    cases hn : v.name <;> exact ⟨_, by simp, rfl⟩

/-- TYPE is derived from type and width; other widths are refused -/
theorem C19_type_names :
    typeName .intDec 1 = some [73, 78, 84, 56] ∧ typeName .intDec 2 = some [73, 78, 84, 49, 54] ∧
    typeName .intDec 4 = some [73, 78, 84, 51, 50] ∧ typeName .uintDec 1 = some [85, 73, 78, 84, 56] ∧
    typeName .numHex 4 = some [72, 69, 88, 51, 50] ∧ typeName .bufHex 7 = some [72, 69, 88, 66, 85, 70] ∧
    typeName .bufString 9 = some [83, 84, 82, 73, 78, 71] ∧ typeName .intDec 3 = none ∧ typeName .uintDec 8 = none := by
  decide

/-- whether the text fits decides between output and failure: never a truncated line -/
theorem C19_fits_or_fails (D : Desc) (f : Fsm) (s : St) (xs : List (List Byte)) (hp : s.pos f ≤ D.capOf f) (hne : xs ≠ []) :
    (printAll D s f xs).2 = true ↔ (xs.flatten).length < D.capOf f - s.pos f := by
  have := (printAll_ok_iff D f xs s hp).1
  rw [this]; simp [hne]

/-- a TEST text that does not fit ends in ERROR -/
theorem C19_test_overflow_error (D : Desc) (s : St)
    (hfail : (formatInfoType D ((s.chkUb s.cmd.isSome).chkUb (decide (s.index < (D.cmdD s.cmd).varNum))) .cmd
      ((D.cmdD s.cmd).varAt s.index)).2 = false) :
    (formatTestArgs D s .cmd).1.state = .flushWait ∧ (formatTestArgs D s .cmd).1.writeStateAfter = .reset ∧
    tr .ack (formatTestArgs D s .cmd).1.log = tr .ack s.log ++ [.ack false] := by
  simp [formatTestArgs, St.cmdOf, St.idx, hfail, endError, ackError, startFlush, cls]

/-! ### command list vs dispatcher -/

/-- the list visits a command's forms RUN, READ, WRITE, TEST in this order and prints each form
exactly under its availability condition -/
theorem C19_list_run (D : Desc) (s : St) (hi : s.index < D.commandsNum) (ht : s.cmdType = .run) :
    let c := D.cmdD (some s.index)
    (c.hasRun = false → (printCmdList D s).cmdType = .read ∧ (printCmdList D s).buf = s.buf ∧ (printCmdList D s).state = s.state) ∧
    (c.hasRun = true → (printCmdList D s).state = .flushWait) := by
  simp [printCmdList, printCmdForm, ht, St.chkUb, hi]
  constructor
  · intro h; simp [h]
  · intro h; simp [h]; split <;> simp

theorem C19_list_write (D : Desc) (s : St) (hi : s.index < D.commandsNum) (ht : s.cmdType = .write) :
    let c := D.cmdD (some s.index)
    ((c.hasWrite || varsAccessible c .wo) = false → (printCmdList D s).cmdType = .test ∧ (printCmdList D s).buf = s.buf) ∧
    ((c.hasWrite || varsAccessible c .wo) = true → (printCmdList D s).state = .flushWait) := by
  simp only [printCmdList, printCmdForm, ht, St.chkUb, hi, decide_true, if_true]
  constructor
  · intro h; simp [h]
  · intro h; simp [h]; split <;> simp

theorem C19_list_test (D : Desc) (s : St) (hi : s.index < D.commandsNum) (ht : s.cmdType = .test) :
    let c := D.cmdD (some s.index)
    ((c.hasTest || (c.vars.isSome && decide (c.varNum > 0))) = false → (printCmdList D s).cmdType = .total ∧ (printCmdList D s).buf = s.buf) ∧
    ((c.hasTest || (c.vars.isSome && decide (c.varNum > 0))) = true → (printCmdList D s).state = .flushWait) := by
  simp only [printCmdList, printCmdForm, ht, St.chkUb, hi, decide_true, if_true]
  constructor
  · intro h; simp [h]
  · intro h; simp [h]; split <;> simp

/-- the dispatcher runs the run handler iff there is one (and the command is not test-only) -/
theorem C19_dispatch_run (D : Desc) (s : St) (ht : s.cmdType = .run) (ho : (D.cmdD s.cmd).onlyTest = false) :
    ((D.cmdD s.cmd).hasRun = true → (commandFound D s).1.state = .runLoop) ∧
    ((D.cmdD s.cmd).hasRun = false → (commandFound D s).1.state = .flushWait) := by
  constructor <;> intro h <;> simp [commandFound, ht, ho, h]

/-- the dispatcher accepts a WRITE iff there is a write handler or a writable variable -/
theorem C19_dispatch_write (D : Desc) (s : St) (i : SvcIn) (hs : s.state = .parseCommandArgs) (hrd : i.rd = some 10)
    (ho : (D.cmdD s.cmd).onlyTest = false) :
    (((D.cmdD s.cmd).hasWrite || varsAccessible (D.cmdD s.cmd) .wo) = false →
      tr .ack (commandService D s i).1.log = tr .ack s.log ++ [.ack false]) ∧
    (varsAccessible (D.cmdD s.cmd) .wo = false → (D.cmdD s.cmd).hasWrite = true →
      (commandService D s i).1.state = .writeLoop) := by
  constructor
  · intro h
    simp at h
    simp [commandService, hs, parseCommandArgs, readCmdChar, hrd, ho, h.1, h.2, ackError, startFlush, cls]
  · intro h1 h2
    simp [commandService, hs, parseCommandArgs, readCmdChar, hrd, ho, h1, h2]

/-- `=?` is a TEST request iff the command has a test handler or variables (and is not implicit-write) -/
theorem C19_dispatch_test (D : Desc) (s : St) (i : SvcIn) (hs : s.state = .parseCommandArgs) (hrd : i.rd = some 63)
    (hl : s.length = 0) :
    let c := D.cmdD s.cmd
    ((c.hasTest || (c.vars.isSome && decide (c.varNum > 0))) = true → c.implicitWrite = false →
      (commandService D s i).1.state = .waitTestAck ∧ (commandService D s i).1.cmdType = .test) := by
  intro c h1 h2
  simp [commandService, hs, parseCommandArgs, readCmdChar, hrd, hl]
  simp [c] at h1 h2
  simp [h1, h2]

/-- nothing is printed for a disabled command or a command of a disabled group -/
theorem C19_list_skips_disabled (D : Desc) (s : St) (hi : s.index < D.commandsNum) (ht : s.cmdType = .none)
    (hd : disabledByIndex D.groups s.index = true) :
    ((printCmdList D s).index = s.index + 1 ∨ (printCmdList D s).state = .flushWait) ∧
    tr .wrC (printCmdList D s).log = tr .wrC s.log ∧ (printCmdList D s).buf = s.buf ∨ (printCmdList D s).state = .flushWait := by
  simp [printCmdList, printCmdForm, ht, hd, cmdListNextCmd, St.chkUb, hi]
  (repeat' split) <;> simp

/-- the list advances through the table in registration order: `index` only ever grows by one -/
theorem C19_list_order (D : Desc) (s : St) : (cmdListNextCmd D s).1.index = s.index + 1 := by
  simp [cmdListNextCmd]; split <;> simp

end Cat
