/-
  C14 — HOLD suspends the command until released, then answers exactly once.

  Proved for the model of the current source, for every descriptor, every history of API
  operations from `cat_init` with arbitrary callback answers, under the one restriction of
  DESIGN.md 2.3 that handlers run for unsolicited events do not answer HOLD (`OpOk`):
  * `C14_flag_iff_hold`: `hold_state_flag` is set exactly when the command machine is in HOLD, hence
    `cat_is_hold` reports HOLD exactly during the suspension (`C14_is_hold`);
  * `C14_suspended`: while held and not released, a `cat_service` step of the command machine
    changes nothing at all: no input byte is read, no result code started, no output;
  * `C14_events_continue`: the unsolicited machine is never blocked by a held command;
  * `C14_release_once`: once a release is requested, the next step leaves HOLD, clears the flag and
    starts exactly one result code whose polarity is that of the latest request;
  * `C14_spurious` / `C14_spurious_api`: a release request outside a hold returns ERROR_NOT_HOLD and
    changes nothing; `C14_enter_clears`: entering HOLD discards any stale request.
-/
import CatVerif.Proofs.Hold
import CatVerif.Proofs.Log
namespace Cat
open St

/-- Along every history (event handlers not answering HOLD) the hold flag is set exactly when the
command machine sits in HOLD. -/
theorem C14_flag_iff_hold (D : Desc) (buf ubuf : List Byte) (mem : List (List Byte)) (ops : List Op)
    (hok : ∀ op ∈ ops, OpOk op) :
    let w := (runOps ⟨D, init D buf ubuf mem⟩ ops).1
    (w.s.holdFlag = true ↔ w.s.state = .hold) :=
  runOps_induct (fun w => HoldCpl w.s) (fun w op ho h => apply_holdCpl w op ho h) ops
    ⟨D, init D buf ubuf mem⟩ hok (by simp [HoldCpl, init])

/-- `cat_is_hold` (no mutex, or the mutex calls succeeding) answers HOLD iff the flag is set. -/
theorem C14_is_hold (D : Desc) (s : St) : (catIsHold D s 0 0).2 = (if s.holdFlag then Gen.CAT_STATUS_HOLD else Gen.CAT_STATUS_OK) := by
  unfold catIsHold withMutex isHoldBody Gen.is_hold
  cases h : s.holdFlag <;> simp <;> split <;> simp [h]

/-- While a command is held and no release has been requested, a step of the command machine is the
identity: nothing is read, nothing acknowledged, nothing written. -/
theorem C14_suspended (D : Desc) (s : St) (i : SvcIn) (hs : s.state = .hold) (hr : s.holdExitStatus = 0) :
    (commandService D s i).1 = s := by
  simp [commandService, hs, processHoldState, hr]

/-- The unsolicited machine is not blocked by a held command: waiting to write, it proceeds. -/
theorem C14_events_continue (D : Desc) (s : St) (i : SvcIn) (hs : s.state = .hold) (hu : s.ustate = .flushWait) :
    (unsolicitedEventsService D s i).1.ustate = .flushWrite := by
  simp [unsolicitedEventsService, hu, unsolicitedProcessIoWriteWait, hs]

/-- After a release request the next step of the command machine leaves HOLD, clears the flag, and
starts exactly one result code: OK if the latest request said OK (status > 0), ERROR otherwise;
no input byte is read in that step. -/
theorem C14_release_once (D : Desc) (s : St) (i : SvcIn) (hs : s.state = .hold) (hr : s.holdExitStatus ≠ 0) :
    let s' := (commandService D s i).1
    s'.holdFlag = false ∧ s'.state = .flushWait ∧ s'.writeStateAfter = .reset ∧
    tr .ack s'.log = tr .ack s.log ++ [.ack (decide (s.holdExitStatus > 0))] ∧
    tr .rd s'.log = tr .rd s.log := by
  simp only [commandService, hs, processHoldState]
  have : (s.holdExitStatus == 0) = false := by simpa using hr
  simp only [this]
  by_cases hneg : s.holdExitStatus < 0
  · have : ¬ s.holdExitStatus > 0 := by omega
    simp [hneg, this, ackError, startFlush, strncpyC, cls]
  · have : s.holdExitStatus > 0 := by omega
    simp [hneg, this, ackOk, startFlush, strncpyC, cls]

/-- A release request outside a hold reports ERROR_NOT_HOLD and has no effect whatsoever. -/
theorem C14_spurious (s : St) (st : Int) (h : s.holdFlag = false) : holdExit s st = (s, Gen.CAT_STATUS_ERROR_NOT_HOLD) := by
  simp [holdExit, h]

theorem C14_spurious_api (D : Desc) (s : St) (st : Int) (h : s.holdFlag = false) (hm : D.hasMutex = false) :
    catHoldExit D s st 0 0 = (s, Gen.CAT_STATUS_ERROR_NOT_HOLD) := by
  simp [catHoldExit, withMutex, hm, holdExit, h]

/-- Inside a hold the request is recorded (latest wins) and nothing else changes. -/
theorem C14_request_recorded (s : St) (st : Int) (h : s.holdFlag = true) :
    holdExit s st = ({ s with holdExitStatus := if st = 0 then 1 else -1 }, Gen.CAT_STATUS_OK) := by
  simp [holdExit, h, Gen.CAT_STATUS_OK]
  split <;> simp_all

/-- Entering HOLD discards any earlier request. -/
theorem C14_enter_clears (s : St) : (enableHoldState s).holdExitStatus = 0 ∧ (enableHoldState s).holdFlag = true ∧ (enableHoldState s).state = .hold := by
  simp [enableHoldState]

/-- all four handler kinds enter HOLD through the generated tables on code 4 -/
theorem C14_all_kinds_hold : Gen.process_write_loop 4 = [.enableHold] ∧ Gen.process_run_loop 4 = [.enableHold] ∧
    Gen.process_read_loop 4 .cmd = [.enableHold] ∧ Gen.process_test_loop 4 .cmd = [.enableHold] := by
  decide

/-- non-vacuity: a held state with a pending OK release satisfies the hypotheses of `C14_release_once` -/
example : let s : St := { (default : St) with state := .hold, holdFlag := true, holdExitStatus := 1 }
    s.state = .hold ∧ s.holdExitStatus ≠ 0 ∧ (s.holdFlag = true ↔ s.state = .hold) := by decide

end Cat
