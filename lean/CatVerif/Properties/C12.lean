/-
  C12 — Behaviour does not depend on how input and output readiness are scheduled.

  Proved (the per-call half of the property: "a refused read or write is retried later and changes
  nothing else"):
  * `C12_read_refused`: in each of the seven states that read input, a call in which `io->read`
    delivers nothing leaves the command machine's state untouched (only the refusal is logged);
    `C12_only_readers_read`: in all other states no read is attempted at all;
  * `C12_write_refused` / `C12_write_refused_uns`: a refused `io->write` leaves the writing machine's
    state untouched, so the same byte is offered again (`C12_retry_same_byte`);
  * `C12_writers`: only a machine in FLUSH_IO_WRITE offers bytes (from C11).
  * `C12_io_sites_generated` (translator item T6): the reading states of the model are exactly the
    states whose C function begins with `if (read_cmd_char(self) == 0) return CAT_STATUS_OK;`, and
    `io->write` is called from FLUSH_IO_WRITE of either machine only — regenerated from the call
    sites in `src/cat.c` on every run.
  * `C12_refused_call_is_noop`: a whole `cat_service` call in which every io attempt is refused (the
    command machine reads nothing or its write is refused; the unsolicited machine has nothing to
    do or its write is refused) leaves the world exactly as it was, apart from the log of that call;
  * `C12_schedule_stutter` (history level, `Proofs/Stutter.lean`): such a call can be inserted into or
    removed from ANY history at ANY point: every later operation returns the same result and logs
    the same events (reads, accepted and refused writes, handler and callback invocations with
    their arguments), and the final world is the same.  By induction this extends to any number of
    refused calls: two schedules that differ only in when refusals happen produce the same
    outputs, handler invocations and final state.
  * `C12_schedule_independent` (`Proofs/Sched.lean`): **the command machine under any schedule** —
    a schedule decides call by call whether the next input byte is offered and whether the output
    accepts; handler answers constant.  Every call is either a pure refusal (nothing changes but the
    refusal is logged) or exactly the call of the eager schedule (`C12_slot_step`: input readiness is
    irrelevant outside the reading states, output readiness outside FLUSH_IO_WRITE and at a
    terminator); hence the run reaches the state of an eager run of at most as many calls, leaves the
    same input unconsumed and produces the same events other than refusals — the same bytes consumed,
    the same bytes accepted by the output, the same handler and callback invocations with the same
    arguments.  `C12_alone`: with the unsolicited machine idle and its queue empty this is the whole
    of `cat_service`.
  NOT proved in Lean: schedules while the unsolicited machine has work to do (then the interleaving
  of the two machines' steps legitimately depends on the schedule, although each machine's own
  sequence does not) — sampled by the twin-run oracles (tools/families.py, meta_C12).
-/
import CatVerif.Proofs.Quiesce
import CatVerif.Proofs.Log
import CatVerif.Proofs.Stutter
import CatVerif.Proofs.DispatchIO
import CatVerif.Proofs.Sched
namespace Cat
open St

theorem C12_read_refused (D : Desc) (s : St) (i : SvcIn) (hr : Reading s.state) (hi : i.rd = none) :
    commandService D s i = (s.emit (.rd none), Gen.CAT_STATUS_OK) :=
  read_refused D s i hr hi

/-- outside the reading states the command machine attempts no read -/
theorem C12_only_readers_read (D : Desc) (s : St) (i : SvcIn) (hr : ¬ Reading s.state)
    (hv : ApiFree .rd i.vc.acts) (hh : ApiFree .rd i.hc.acts) :
    tr .rd (commandService D s i).1.log = tr .rd s.log := by
  have f1 := hv; have f2 := hh
  unfold Reading at hr
  unfold commandService
  split <;> rename_i hs <;> (try (simp [hs] at hr))
  · exact updateCommand_quiet _ D s
  · exact searchCommand_quiet _ D s
  · exact commandFound_quiet _ (by decide) (by decide) D s
  · exact commandNotFound_quiet _ (by decide) (by decide) D s
  · exact parseWriteArgs_quiet _ (by decide) (by decide) (by decide) (by decide) D s i f1
  · exact formatReadArgs_cmd_quiet _ (by decide) (by decide) (by decide) D s i f1
  · exact formatTestArgs_cmd_quiet _ (by decide) (by decide) D s
  · exact processWriteLoop_quiet _ (by decide) (by decide) (by decide) D s i f2
  · exact processReadLoop_cmd_quiet _ (by decide) (by decide) (by decide) D s i f2
  · exact processTestLoop_cmd_quiet _ (by decide) (by decide) (by decide) D s i f2
  · exact processRunLoop_quiet _ (by decide) (by decide) (by decide) D s i f2
  · exact processHoldState_quiet _ (by decide) (by decide) D s
  · exact processIoWriteWait_quiet _ s
  · exact processIoWrite_quiet _ (by decide) (by decide) D s i
  · simp [resetState, cls]; split <;> simp
  · simp
  · simp
  · simp
  · exact printCmdList_quiet _ (by decide) (by decide) D s

theorem C12_write_refused (D : Desc) (s : St) (i : SvcIn) (hs : s.state = .flushWrite) (hw : i.wr = false)
    (hb : (writeByte D s .cmd).1 ≠ 0) :
    commandService D s i =
      ((s.chk (writeByte D s .cmd).2).emit (.wr .cmd (writeByte D s .cmd).1 false (unitPart s.writeState s.writeSrc)),
       Gen.CAT_STATUS_BUSY) :=
  write_refused D s i hs hw hb

theorem C12_write_refused_uns (D : Desc) (s : St) (i : SvcIn) (hs : s.ustate = .flushWrite) (hw : i.wr = false)
    (hb : (writeByte D s .uns).1 ≠ 0) :
    unsolicitedEventsService D s i =
      ((s.chk (writeByte D s .uns).2).emit (.wr .uns (writeByte D s .uns).1 false (unitPart s.uwriteState s.uwriteSrc)),
       Gen.CAT_STATUS_BUSY) :=
  write_refused_uns D s i hs hw hb

/-- after a refused write the very same byte is the next one offered -/
theorem C12_retry_same_byte (D : Desc) (s : St) (i : SvcIn) (hs : s.state = .flushWrite) (hw : i.wr = false)
    (hb : (writeByte D s .cmd).1 ≠ 0) :
    (writeByte D (commandService D s i).1 .cmd).1 = (writeByte D s .cmd).1 ∧ (commandService D s i).1.state = .flushWrite := by
  rw [write_refused D s i hs hw hb]
  simp [writeByte, hs, St.getB]

theorem C12_writers (D : Desc) (s : St) (i : SvcIn) :
    (s.state ≠ .flushWrite → tr .wrC (commandService D s i).1.log = tr .wrC s.log) ∧
    (s.ustate ≠ .flushWrite → tr .wrU (unsolicitedEventsService D s i).1.log = tr .wrU s.log) :=
  ⟨commandService_no_write D s i, unsolicitedEventsService_no_write D s i⟩

/-- a call in which every io attempt is refused changes nothing but the log of that call -/
theorem C12_refused_call_is_noop (D : Desc) (s : St) (i : SvcIn) (hu : StutterU D s i) (hc : StutterC D s i) :
    ∃ l, (serviceBody D s i).1 = { s with log := l } :=
  serviceBody_stutter D s i hu hc

/-- **Refused calls do not matter, anywhere in any history**: inserting a `cat_service` call whose io
attempts are all refused after the operations `a` changes neither the results and events of the
operations before it, nor those of the operations `b` after it, nor the final world (the log of the
last call aside). -/
theorem C12_schedule_stutter (w : World) (a b : List Op) (i : SvcIn)
    (hu : StutterU (runOps w a).1.D (runOps w a).1.s i) (hc : StutterC (runOps w a).1.D (runOps w a).1.s i) :
    (runOps w (a ++ .service i :: b)).1.D = (runOps w (a ++ b)).1.D ∧
    SameButLog (runOps w (a ++ b)).1.s (runOps w (a ++ .service i :: b)).1.s ∧
    (runOps w (a ++ .service i :: b)).2.take a.length = (runOps w (a ++ b)).2.take a.length ∧
    (runOps w (a ++ .service i :: b)).2.drop (a.length + 1) = (runOps w (a ++ b)).2.drop a.length :=
  runOps_insert_stutter w a b i hu hc

/-- non-vacuity: in the initial state a call without input is such a call -/
example (D : Desc) : StutterU D (init D [] [] []) {} ∧ StutterC D (init D [] [] []) {} :=
  ⟨Or.inl ⟨rfl, rfl⟩, Or.inl ⟨by simp [Reading, init], rfl⟩⟩

/-- non-vacuity: a writing state with a refusing output -/
example : ∃ (s : St) (i : SvcIn), s.state = .flushWrite ∧ i.wr = false ∧ (writeByte default s .cmd).1 ≠ 0 :=
  ⟨{ (default : St) with state := .flushWrite, writeSrc := .nl 1 }, { wr := false }, rfl, rfl, by decide⟩

/-- one call under a schedule: a pure refusal, or the eager schedule's call -/
theorem C12_slot_step (D : Desc) (tmpl : SvcIn) (s : St) (q : List Byte) (sl : Slot) (hs0 : s.log = []) (hf : fetchOk D s sl = true) :
    ((∃ e, isRefusal e = true ∧ (commandService D s (slotIn tmpl q sl)).1 = { s with log := [e] }) ∧
      ¬ (Reading s.state ∧ (slotIn tmpl q sl).rd.isSome)) ∨
    (commandService D s (slotIn tmpl q sl) = commandService D s (slotIn tmpl q eager) ∧
      ((Reading s.state ∧ (slotIn tmpl q sl).rd.isSome) ↔ (Reading s.state ∧ (slotIn tmpl q eager).rd.isSome))) :=
  slot_step D tmpl s q sl hs0 hf

/-- **Schedule independence of the command machine.** -/
theorem C12_schedule_independent (D : Desc) (tmpl : SvcIn) (σ : List Slot) (s : St) (q : List Byte)
    (hin : (runS D tmpl s q σ).2.2.2 = true) :
    ∃ n, n ≤ σ.length ∧
      SameButLog (runS D tmpl s q (List.replicate n eager)).1 (runS D tmpl s q σ).1 ∧
      (runS D tmpl s q (List.replicate n eager)).2.1 = (runS D tmpl s q σ).2.1 ∧
      realEvents (runS D tmpl s q (List.replicate n eager)).2.2.1 = realEvents (runS D tmpl s q σ).2.2.1 :=
  runS_eager D tmpl σ s q hin

theorem C12_alone (D : Desc) (s : St) (i : SvcIn) (hu : s.ustate = .idle) (hc : s.rcount = 0) :
    (serviceBody D s i).1 = (commandService D s i).1 :=
  serviceBody_alone D s i hu hc

/-- non-vacuity: a schedule that withholds the input once and then offers it, run on `AT` LF -/
example : (runS default {} (init default [] [] []) [65, 84, 10]
    [⟨false, true⟩, ⟨true, false⟩, ⟨true, true⟩, ⟨false, false⟩, ⟨true, true⟩]).2.2.2 = true := by decide

end Cat
