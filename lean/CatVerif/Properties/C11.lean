/-
  C11 — Output is a sequence of whole lines; the two state machines never interleave.

  Theorems proved here (for the model of the current source, every descriptor, every operation
  history of any length, any callback answers, any io readiness):
  * `C11_flush_exclusive`: the two machines are never both in FLUSH_IO_WRITE — the state in which,
    and only in which, a machine calls `io->write`.
  * `C11_writer`, `C11_one_writer_per_call`: only a machine in that state offers bytes.
  Units of the command machine (`Proofs/Units.lean`; `remC D s` = the bytes still to be accepted
  for the unit in progress, `outC log` = the bytes accepted, `FlushInv` = the text is terminated
  inside the command region and the cursor has not passed its end):
  * `C11_unit_start`, `C11_unit_start_raw`: a unit, when started, consists of the line break in
    force, the text in the command region, the line break again (a command-list line: the text);
    `C11_code_unit`: for a result code that is line break, `OK`/`ERROR`, line break;
  * `C11_unit_step`: every write step moves an accepted byte from the head of the remainder to the
    output and nothing else — refused bytes are offered again, nothing is skipped, repeated or
    truncated — and the machine leaves FLUSH_IO_WRITE exactly when the remainder is empty;
  * `C11_unit_wait`: waiting for the other machine changes nothing;
  * `C11_unit_undisturbed`: a step of the unsolicited machine neither changes the remainder (it
    cannot store into the command region, C03) nor emits a byte of the command machine;
  * `C11_service_unit`: hence over a whole `cat_service` body, accepted bytes ++ remainder is
    invariant while the command machine is sending a unit.
  * `C11_command_units` (`Proofs/UnitsHist.lean`): **over any history from `cat_init`** everything the
    command machine has had accepted by `io->write`, followed by what remains of the unit in
    progress, is a concatenation of whole units — line break ++ text without NUL ++ line break, or
    the bare text of a command-list line; `C11_command_units_whole`: whenever the command machine is
    not in the middle of a unit, its accepted output is exactly a concatenation of whole units.
    Nothing lost, duplicated or truncated, no foreign byte in between (bytes of the unsolicited
    machine are a different event class: `C11_writer`).  The hypothesis `FlushInv` of the step
    theorems is discharged at every unit start by the text-termination invariants of the
    out-of-bounds proof (`OobF`, C03), so the descriptor hypotheses are those of
    `C03_no_out_of_bounds`.
  * `C11_unsolicited_units` (`Proofs/UnitsU.lean`): the same over any history for the unsolicited machine.
    Its closing line break is chosen only when the text has been sent, from the `cr_flag` in force at
    that moment (which the command machine may have changed meanwhile), so the statement has two
    cases: while a unit's closing line break is not yet chosen, accepted bytes ++ remainder =
    whole units ++ (opening line break ++ text of the current unit); otherwise accepted bytes ++
    remainder = whole units.  `C11_unsolicited_units_whole`: whenever the unsolicited machine is not
    inside a unit its accepted output is exactly a concatenation of whole units (each: line break,
    text without NUL, line break — the two line breaks of one unit may differ).
  * `C11_merged_units` (`Proofs/UnitsM.lean`): **the merged byte stream** — everything `io->write`
    has accepted from either machine, in the order of the calls, over any history — is a
    concatenation of whole units followed by the part already sent of the one unit in progress:
    `MInv`: if the command machine is sending, merged ++ its remainder = whole units; if the
    unsolicited machine is sending, the same with its remainder (two cases as above); if neither is
    sending, merged = whole units exactly (`C11_merged_units_whole`).  A unit waiting for the output
    in FLUSH_IO_WRITE_WAIT is not counted until it starts.  Units of the two machines never
    interleave: no byte of one machine lies between two bytes of a unit of the other.
-/
import CatVerif.Proofs.Inv
import CatVerif.Proofs.Log
import CatVerif.Proofs.Units
import CatVerif.Proofs.UnitsHist
import CatVerif.Proofs.UnitsU
import CatVerif.Proofs.UnitsM
namespace Cat
open St

/-- Along every history of API operations from `cat_init`, with arbitrary callback answers, the
command machine and the unsolicited machine are never simultaneously in FLUSH_IO_WRITE. -/
theorem C11_flush_exclusive (D : Desc) (buf ubuf : List Byte) (mem : List (List Byte)) (ops : List Op) :
    let w := (runOps ⟨D, init D buf ubuf mem⟩ ops).1
    ¬ (w.s.state = .flushWrite ∧ w.s.ustate = .flushWrite) := by
  exact runOps_induct' (fun w => FlushExcl w.s) (fun w op h => apply_flushExcl w op h) ops
    ⟨D, init D buf ubuf mem⟩ (by simp [FlushExcl, init])


/-- Only a machine in FLUSH_IO_WRITE offers bytes to `io->write`: a `cat_service` call appends
`wr` events of the command machine only if that machine is in FLUSH_IO_WRITE when its step
starts, and likewise for the unsolicited machine. -/
theorem C11_writer (D : Desc) (s : St) (i : SvcIn) :
    (s.ustate ≠ .flushWrite → tr .wrU (serviceBody D s i).1.log = tr .wrU s.log) ∧
    ((unsolicitedEventsService D s i).1.state ≠ .flushWrite → tr .wrC (serviceBody D s i).1.log = tr .wrC s.log) := by
  unfold serviceBody
  simp only
  constructor
  · intro h
    have a := unsolicitedEventsService_no_write D s i h
    have b := commandService_quiet .wrU (by decide) D (unsolicitedEventsService D s i).1 i (.of_ne (by decide) (by decide)) (.of_ne (by decide) (by decide))
    simp only [Quiet] at a b
    rw [b, a]
  · intro h
    have a := unsolicitedEventsService_quiet .wrC (by decide) D s i (.of_ne (by decide) (by decide)) (.of_ne (by decide) (by decide))
    have b := commandService_no_write D (unsolicitedEventsService D s i).1 i h
    simp only [Quiet] at a b
    rw [b, a]

/-- In one `cat_service` call at most one of the two machines writes output: given the
exclusion invariant (which holds in every reachable state, `C11_flush_exclusive`), either the
command machine's or the unsolicited machine's `wr` events are unchanged by the call. -/
theorem C11_one_writer_per_call (D : Desc) (s : St) (i : SvcIn)
    (h : ¬ (s.state = .flushWrite ∧ s.ustate = .flushWrite)) :
    tr .wrC (serviceBody D s i).1.log = tr .wrC s.log ∨ tr .wrU (serviceBody D s i).1.log = tr .wrU s.log := by
  have w := C11_writer D s i
  by_cases hu : s.ustate = .flushWrite
  · left
    apply w.2
    rw [uns_flush_keeps_state D s i (Or.inr hu)]
    intro hc; exact h ⟨hc, hu⟩
  · right; exact w.1 hu

/-- non-vacuity: a reachable state in which the unsolicited machine is writing while the command
machine waits for it -/
example : ∃ s : St, s.ustate = .flushWrite ∧ s.state = .flushWait ∧ ¬ (s.state = .flushWrite ∧ s.ustate = .flushWrite) :=
  ⟨{ (default : St) with ustate := .flushWrite, state := .flushWait }, rfl, rfl, by simp⟩

/-! ### units of the command machine -/

theorem C11_unit_start (D : Desc) (s : St) (a : After) :
    remC D (startFlush s .cmd a) = nlStr s ++ payloadC D s ++ nlStr s ∧
    ((payloadC D s).length < (region D s .cmd 0).length → FlushInv D (startFlush s .cmd a)) :=
  startFlush_unit D s a

theorem C11_unit_start_raw (D : Desc) (s : St) (a : After) :
    remC D (startFlushRaw s a) = payloadC D s ∧
    ((payloadC D s).length < (region D s .cmd 0).length → FlushInv D (startFlushRaw s a)) :=
  startFlushRaw_unit D s a

theorem C11_code_unit (D : Desc) (s : St) (h6 : 6 ≤ D.cmdCap) (hb : D.cmdCap ≤ s.buf.length) :
    remC D (ackOk D s) = nlStr s ++ [79, 75] ++ nlStr s ∧ FlushInv D (ackOk D s) ∧
    remC D (ackError D s) = nlStr s ++ [69, 82, 82, 79, 82] ++ nlStr s ∧ FlushInv D (ackError D s) :=
  ack_unit D s h6 hb

theorem C11_unit_step (D : Desc) (s : St) (i : SvcIn) (hs : s.state = .flushWrite) (hv : FlushInv D s) :
    let s' := (commandService D s i).1
    outC s'.log ++ remC D s' = outC s.log ++ remC D s ∧ s'.buf = s.buf ∧
    (s'.state = .flushWrite → FlushInv D s') ∧
    (s'.state ≠ .flushWrite → remC D s = [] ∧ s'.state = s.writeStateAfter.toC) := by
  unfold commandService; simp only [hs]
  exact processIoWrite_unit D s i hs hv

theorem C11_unit_wait (D : Desc) (s : St) (i : SvcIn) (hs : s.state = .flushWait) :
    let s' := (commandService D s i).1
    remC D s' = remC D s ∧ s'.log = s.log ∧ (FlushInv D s → FlushInv D s') ∧
    (s'.state = .flushWait ∨ s'.state = .flushWrite) := by
  unfold commandService; simp only [hs]
  exact processIoWriteWait_unit D s hs

theorem C11_unit_undisturbed (D : Desc) (s : St) (i : SvcIn) (hu : i.hu.ret ≠ 4) :
    remC D (unsolicitedEventsService D s i).1 = remC D s ∧
    (FlushInv D s → FlushInv D (unsolicitedEventsService D s i).1) ∧
    outC (unsolicitedEventsService D s i).1.log = outC s.log :=
  ⟨(unsolicitedEventsService_unitSame D s i hu).1.rem, (unsolicitedEventsService_unitSame D s i hu).1.inv,
   (unsolicitedEventsService_unitSame D s i hu).2⟩

theorem C11_service_unit (D : Desc) (s : St) (i : SvcIn) (hu : i.hu.ret ≠ 4)
    (hs : s.state = .flushWrite ∨ s.state = .flushWait) (hv : FlushInv D s) :
    outC (serviceBody D s i).1.log ++ remC D (serviceBody D s i).1 = outC s.log ++ remC D s :=
  serviceBody_unit D s i hu hs hv

/-- non-vacuity: a state in the middle of `\r\nOK\r\n` with `\r\nO` already accepted -/
example : ∃ (D : Desc) (s : St), s.state = .flushWrite ∧ FlushInv D s ∧ remC D s = [75, 13, 10] := by
  refine ⟨{ (default : Desc) with bufSize := 8, unsBuf := some 0 },
    { (default : St) with state := .flushWrite, writeState := 1, writeSrc := .main, position := 1, crFlag := true,
                          buf := [79, 75, 0, 0, 0, 0, 0, 0] }, rfl, ⟨by decide, by decide, Or.inr (Or.inl ⟨rfl, rfl⟩)⟩, by decide⟩

/-- the state `cat_init` leaves behind satisfies the invariants of the unit accounting -/
theorem C11_init_good (D : Desc) (buf ubuf : List Byte) (mem : List (List Byte))
    (hn : 0 < D.commandsNum) (hc : 0 < D.cap) (hd : DescOk D) (hb : D.cmdCap ≤ buf.length)
    (hm : ∀ id, ∀ v ∈ (D.cmdD id).vars.getD [], v.dataSize ≤ (mem.getD v.slot []).length) :
    GoodU ⟨D, init D buf ubuf mem⟩ := by
  refine ⟨⟨hn, ⟨hd, ?_, init_ringInv D buf ubuf mem hc, ?_⟩,
    ⟨⟨by simp [init], by simp [init], by simp [NeedsCmd, init], by simp [init], by simp [init]⟩,
     ⟨by simp [NeedsUCmd, init], by simp [init], by simp [init]⟩⟩, ⟨.other ?_, .other ?_ ?_, .other ?_⟩⟩, ?_⟩
  · intro id v hv; simpa [init, St.slotGet] using hm id v hv
  · simpa [BufOk, init] using hb
  · simp [init, St.ph, CState.ph]
  · simp [init]
  · simp [init]
  · simp [init, St.ph, UState.ph]
  · intro h; simp [init] at h

/-- **The command machine's output is a sequence of whole units**, over any history. -/
theorem C11_command_units (D : Desc) (buf ubuf : List Byte) (mem : List (List Byte)) (ops : List Op)
    (hok : ∀ op ∈ ops, OpOk op) (hn : 0 < D.commandsNum) (hc : 0 < D.cap) (hd : DescOk D) (hb : D.cmdCap ≤ buf.length)
    (hm : ∀ id, ∀ v ∈ (D.cmdD id).vars.getD [], v.dataSize ≤ (mem.getD v.slot []).length) :
    let r := runOps ⟨D, init D buf ubuf mem⟩ ops
    ∃ us : List (List Byte), (∀ u ∈ us, UnitShape u) ∧ outAllC r.2 ++ remC r.1.D r.1.s = us.flatten := by
  obtain ⟨us, h1, h2⟩ := runOps_units ops ⟨D, init D buf ubuf mem⟩ hok (C11_init_good D buf ubuf mem hn hc hd hb hm)
  refine ⟨us, h1, ?_⟩
  have : remC D (init D buf ubuf mem) = [] := by simp [remC, init]
  rw [h2, this]; simp

/-- whenever the command machine is not sending a unit, what it has emitted so far is exactly a
concatenation of whole units -/
theorem C11_command_units_whole (D : Desc) (buf ubuf : List Byte) (mem : List (List Byte)) (ops : List Op)
    (hok : ∀ op ∈ ops, OpOk op) (hn : 0 < D.commandsNum) (hc : 0 < D.cap) (hd : DescOk D) (hb : D.cmdCap ≤ buf.length)
    (hm : ∀ id, ∀ v ∈ (D.cmdD id).vars.getD [], v.dataSize ≤ (mem.getD v.slot []).length)
    (hq : ¬ ((runOps ⟨D, init D buf ubuf mem⟩ ops).1.s.state = .flushWait ∨ (runOps ⟨D, init D buf ubuf mem⟩ ops).1.s.state = .flushWrite)) :
    ∃ us : List (List Byte), (∀ u ∈ us, UnitShape u) ∧ outAllC (runOps ⟨D, init D buf ubuf mem⟩ ops).2 = us.flatten := by
  obtain ⟨us, h1, h2⟩ := C11_command_units D buf ubuf mem ops hok hn hc hd hb hm
  refine ⟨us, h1, ?_⟩
  have e : remC (runOps ⟨D, init D buf ubuf mem⟩ ops).1.D (runOps ⟨D, init D buf ubuf mem⟩ ops).1.s = [] := remC_idle _ _ hq
  have h3 : outAllC (runOps ⟨D, init D buf ubuf mem⟩ ops).2 ++ remC (runOps ⟨D, init D buf ubuf mem⟩ ops).1.D (runOps ⟨D, init D buf ubuf mem⟩ ops).1.s = us.flatten := h2
  rw [e] at h3
  simpa using h3

/-- **The unsolicited machine's output is a sequence of whole units**, over any history (the buffer
handed to the unsolicited machine really being as long as declared). -/
theorem C11_unsolicited_units (D : Desc) (buf ubuf : List Byte) (mem : List (List Byte)) (ops : List Op)
    (hok : ∀ op ∈ ops, OpOk op) (hn : 0 < D.commandsNum) (hc : 0 < D.cap) (hd : DescOk D) (hb : D.cmdCap ≤ buf.length)
    (hm : ∀ id, ∀ v ∈ (D.cmdD id).vars.getD [], v.dataSize ≤ (mem.getD v.slot []).length)
    (hbu : if D.unsBuf.isSome then D.unsCap ≤ ubuf.length else D.unsBase + D.unsCap ≤ buf.length) :
    TraceU (runOps ⟨D, init D buf ubuf mem⟩ ops).1.D (outAllU (runOps ⟨D, init D buf ubuf mem⟩ ops).2)
      (runOps ⟨D, init D buf ubuf mem⟩ ops).1.s := by
  have g := C11_init_good D buf ubuf mem hn hc hd hb hm
  have gu : GoodUU ⟨D, init D buf ubuf mem⟩ :=
    ⟨g.good, by simpa [BufOkU, init] using hbu, fun h => by simp [init] at h⟩
  have t0 : TraceU D [] (init D buf ubuf mem) :=
    ⟨fun o => by simp [OpenU, init] at o, fun _ => ⟨[], by simp, by simp [remU, init]⟩⟩
  simpa using runOps_unitsU ops ⟨D, init D buf ubuf mem⟩ [] hok gu t0

/-- whenever the unsolicited machine is not sending a unit, what it has emitted so far is exactly a
concatenation of whole units -/
theorem C11_unsolicited_units_whole (D : Desc) (buf ubuf : List Byte) (mem : List (List Byte)) (ops : List Op)
    (hok : ∀ op ∈ ops, OpOk op) (hn : 0 < D.commandsNum) (hc : 0 < D.cap) (hd : DescOk D) (hb : D.cmdCap ≤ buf.length)
    (hm : ∀ id, ∀ v ∈ (D.cmdD id).vars.getD [], v.dataSize ≤ (mem.getD v.slot []).length)
    (hbu : if D.unsBuf.isSome then D.unsCap ≤ ubuf.length else D.unsBase + D.unsCap ≤ buf.length)
    (hq : ¬ ((runOps ⟨D, init D buf ubuf mem⟩ ops).1.s.ustate = .flushWait ∨ (runOps ⟨D, init D buf ubuf mem⟩ ops).1.s.ustate = .flushWrite)) :
    ∃ us : List (List Byte), (∀ u ∈ us, UnitShape u) ∧ outAllU (runOps ⟨D, init D buf ubuf mem⟩ ops).2 = us.flatten := by
  have t := C11_unsolicited_units D buf ubuf mem ops hok hn hc hd hb hm hbu
  obtain ⟨us, h1, h2⟩ := t.closed (fun o => hq o.1)
  refine ⟨us, h1, ?_⟩
  have e : remU (runOps ⟨D, init D buf ubuf mem⟩ ops).1.D (runOps ⟨D, init D buf ubuf mem⟩ ops).1.s = [] := by
    simp [remU, hq]
  rw [e] at h2
  simpa using h2

/-- **The merged output of both machines is a sequence of whole units**, over any history: `MInv`
with everything accepted so far from either machine, in order. -/
theorem C11_merged_units (D : Desc) (buf ubuf : List Byte) (mem : List (List Byte)) (ops : List Op)
    (hok : ∀ op ∈ ops, OpOk op) (hn : 0 < D.commandsNum) (hc : 0 < D.cap) (hd : DescOk D) (hb : D.cmdCap ≤ buf.length)
    (hm : ∀ id, ∀ v ∈ (D.cmdD id).vars.getD [], v.dataSize ≤ (mem.getD v.slot []).length)
    (hbu : if D.unsBuf.isSome then D.unsCap ≤ ubuf.length else D.unsBase + D.unsCap ≤ buf.length) :
    MInv (runOps ⟨D, init D buf ubuf mem⟩ ops).1.D (outAllM (runOps ⟨D, init D buf ubuf mem⟩ ops).2)
      (runOps ⟨D, init D buf ubuf mem⟩ ops).1.s := by
  have g := C11_init_good D buf ubuf mem hn hc hd hb hm
  have gu : GoodUU ⟨D, init D buf ubuf mem⟩ :=
    ⟨g.good, by simpa [BufOkU, init] using hbu, fun h => by simp [init] at h⟩
  have t0 : TraceU D [] (init D buf ubuf mem) :=
    ⟨fun o => by simp [OpenU, init] at o, fun _ => ⟨[], by simp, by simp [remU, init]⟩⟩
  have gm : GoodM ⟨D, init D buf ubuf mem⟩ := ⟨g, gu, ⟨[], t0⟩, by simp [FlushExcl, init]⟩
  have m0 : MInv D [] (init D buf ubuf mem) :=
    ⟨fun h => by simp [init] at h, fun h => by simp [init] at h, fun _ _ => ⟨[], by simp, rfl⟩,
     fun h => by simp [init] at h, fun h => by simp [init] at h⟩
  simpa using runOps_merged ops ⟨D, init D buf ubuf mem⟩ [] hok gm m0

/-- whenever neither machine is sending, everything emitted so far — by both machines together, in
order — is exactly a concatenation of whole units -/
theorem C11_merged_units_whole (D : Desc) (buf ubuf : List Byte) (mem : List (List Byte)) (ops : List Op)
    (hok : ∀ op ∈ ops, OpOk op) (hn : 0 < D.commandsNum) (hc : 0 < D.cap) (hd : DescOk D) (hb : D.cmdCap ≤ buf.length)
    (hm : ∀ id, ∀ v ∈ (D.cmdD id).vars.getD [], v.dataSize ≤ (mem.getD v.slot []).length)
    (hbu : if D.unsBuf.isSome then D.unsCap ≤ ubuf.length else D.unsBase + D.unsCap ≤ buf.length)
    (hq : (runOps ⟨D, init D buf ubuf mem⟩ ops).1.s.state ≠ .flushWrite)
    (hqu : (runOps ⟨D, init D buf ubuf mem⟩ ops).1.s.ustate ≠ .flushWrite) :
    ∃ us : List (List Byte), (∀ u ∈ us, UnitShape u) ∧ outAllM (runOps ⟨D, init D buf ubuf mem⟩ ops).2 = us.flatten :=
  (C11_merged_units D buf ubuf mem ops hok hn hc hd hb hm hbu).idle hq hqu

/-- while the command machine is sending: merged output ++ the rest of its unit = whole units -/
theorem C11_merged_units_cmd (D : Desc) (buf ubuf : List Byte) (mem : List (List Byte)) (ops : List Op)
    (hok : ∀ op ∈ ops, OpOk op) (hn : 0 < D.commandsNum) (hc : 0 < D.cap) (hd : DescOk D) (hb : D.cmdCap ≤ buf.length)
    (hm : ∀ id, ∀ v ∈ (D.cmdD id).vars.getD [], v.dataSize ≤ (mem.getD v.slot []).length)
    (hbu : if D.unsBuf.isSome then D.unsCap ≤ ubuf.length else D.unsBase + D.unsCap ≤ buf.length)
    (hq : (runOps ⟨D, init D buf ubuf mem⟩ ops).1.s.state = .flushWrite) :
    ∃ us : List (List Byte), (∀ u ∈ us, UnitShape u) ∧
      outAllM (runOps ⟨D, init D buf ubuf mem⟩ ops).2 ++
        remC (runOps ⟨D, init D buf ubuf mem⟩ ops).1.D (runOps ⟨D, init D buf ubuf mem⟩ ops).1.s = us.flatten :=
  (C11_merged_units D buf ubuf mem ops hok hn hc hd hb hm hbu).cw hq

/-- non-vacuity: shapes of real units -/
example : UnitShape [13, 10, 79, 75, 13, 10] ∧ UnitShape [10, 43, 88, 61, 53, 10] ∧ UnitShape [10, 65, 84, 43, 88, 10] :=
  ⟨⟨[13, 10], [13, 10], [79, 75], Or.inr rfl, Or.inr rfl, by decide, Or.inl rfl⟩,
   ⟨[10], [10], [43, 88, 61, 53], Or.inl rfl, Or.inl rfl, by decide, Or.inl rfl⟩,
   ⟨[10], [10], [10, 65, 84, 43, 88, 10], Or.inl rfl, Or.inl rfl, by decide, Or.inr rfl⟩⟩

end Cat
