/-
  C11 — Output is a sequence of whole lines; the two state machines never interleave.

  Theorems proved here (for the model of the current source, every descriptor, every operation
  history of any length, any callback answers, any io readiness):
  * `C11_flush_exclusive`: the two machines are never both in FLUSH_IO_WRITE — the state in which,
    and only in which, a machine calls `io->write`.
  What is not proved in Lean (sampled by the correspondence check and the unit oracle): that the
  bytes of one unit spell newline/payload/newline in order without loss (DESIGN.md 8, C11).
-/
import CatVerif.Proofs.Inv
import CatVerif.Proofs.Log
namespace Cat

/-- Along every history of API operations from `cat_init`, with arbitrary callback answers, the
command machine and the unsolicited machine are never simultaneously in FLUSH_IO_WRITE. -/
theorem C11_flush_exclusive (D : Desc) (buf ubuf : List Byte) (mem : List (List Byte)) (ops : List Op) :
    let w := (runOps ⟨D, init D buf ubuf mem⟩ ops).1
    ¬ (w.s.state = .flushWrite ∧ w.s.ustate = .flushWrite) := by
  exact runOps_induct' (fun w => FlushExcl w.s) (fun w op h => apply_flushExcl w op h) ops
    ⟨D, init D buf ubuf mem⟩ (by simp [FlushExcl, init])


/-- Only a machine in FLUSH_IO_WRITE offers bytes to `io->write`: a `cat_service` call appends
`wr` events of the command machine only if that machine is in FLUSH_IO_WRITE when its step
starts, and likewise for the unsolicited machine. -/
theorem C11_writer (D : Desc) (s : St) (i : SvcIn) :
    (s.ustate ≠ .flushWrite → tr .wrU (serviceBody D s i).1.log = tr .wrU s.log) ∧
    ((unsolicitedEventsService D s i).1.state ≠ .flushWrite → tr .wrC (serviceBody D s i).1.log = tr .wrC s.log) := by
  unfold serviceBody
  simp only
  constructor
  · intro h
    have a := unsolicitedEventsService_no_write D s i h
    have b := commandService_quiet .wrU (by decide) D (unsolicitedEventsService D s i).1 i (.of_ne (by decide) (by decide)) (.of_ne (by decide) (by decide))
    simp only [Quiet] at a b
    rw [b, a]
  · intro h
    have a := unsolicitedEventsService_quiet .wrC (by decide) D s i (.of_ne (by decide) (by decide)) (.of_ne (by decide) (by decide))
    have b := commandService_no_write D (unsolicitedEventsService D s i).1 i h
    simp only [Quiet] at a b
    rw [b, a]

/-- In one `cat_service` call at most one of the two machines writes output: given the
exclusion invariant (which holds in every reachable state, `C11_flush_exclusive`), either the
command machine's or the unsolicited machine's `wr` events are unchanged by the call. -/
theorem C11_one_writer_per_call (D : Desc) (s : St) (i : SvcIn)
    (h : ¬ (s.state = .flushWrite ∧ s.ustate = .flushWrite)) :
    tr .wrC (serviceBody D s i).1.log = tr .wrC s.log ∨ tr .wrU (serviceBody D s i).1.log = tr .wrU s.log := by
  have w := C11_writer D s i
  by_cases hu : s.ustate = .flushWrite
  · left
    apply w.2
    rw [uns_flush_keeps_state D s i (Or.inr hu)]
    intro hc; exact h ⟨hc, hu⟩
  · right; exact w.1 hu

/-- non-vacuity: a reachable state in which the unsolicited machine is writing while the command
machine waits for it -/
example : ∃ s : St, s.ustate = .flushWrite ∧ s.state = .flushWait ∧ ¬ (s.state = .flushWrite ∧ s.ustate = .flushWrite) :=
  ⟨{ (default : St) with ustate := .flushWrite, state := .flushWait }, rfl, rfl, by simp⟩

end Cat
