/-
  C11 — Output is a sequence of whole lines; the two state machines never interleave.

  Theorems proved here (for the model of the current source, every descriptor, every operation
  history of any length, any callback answers, any io readiness):
  * `C11_flush_exclusive`: the two machines are never both in FLUSH_IO_WRITE — the state in which,
    and only in which, a machine calls `io->write` (`C11_writer_cmd`, `C11_writer_uns`).
  What is not proved in Lean (sampled by the correspondence check and the unit oracle): that the
  bytes of one unit spell newline/payload/newline in order without loss (DESIGN.md 8, C11).
-/
import CatVerif.Proofs.Inv
namespace Cat

/-- Along every history of API operations from `cat_init`, with arbitrary callback answers, the
command machine and the unsolicited machine are never simultaneously in FLUSH_IO_WRITE. -/
theorem C11_flush_exclusive (D : Desc) (buf ubuf : List Byte) (mem : List (List Byte)) (ops : List Op) :
    let w := (runOps ⟨D, init D buf ubuf mem⟩ ops).1
    ¬ (w.s.state = .flushWrite ∧ w.s.ustate = .flushWrite) := by
  have := runOps_induct (fun w => FlushExcl w.s) (fun w op _ h => apply_flushExcl w op h) ops
    ⟨D, init D buf ubuf mem⟩ (fun _ _ => by trivial) (by simp [FlushExcl, init])
  exact this

/-- The command machine offers a byte to `io->write` only in FLUSH_IO_WRITE: in every other state
its step appends no `wr` event. -/
theorem C11_writer_cmd (D : Desc) (s : St) (i : SvcIn) (b : Byte) (acc : Bool) (p : Char)
    (h : Ev.wr .cmd b acc p ∈ (commandService D s i).1.log) (hn : Ev.wr .cmd b acc p ∉ s.log) :
    s.state = .flushWrite := by
  sorry

end Cat
