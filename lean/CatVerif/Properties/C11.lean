/-
  C11 — Output is a sequence of whole lines; the two state machines never interleave.

  Theorems proved here (for the model of the current source, every descriptor, every operation
  history of any length, any callback answers, any io readiness):
  * `C11_flush_exclusive`: the two machines are never both in FLUSH_IO_WRITE — the state in which,
    and only in which, a machine calls `io->write`.
  What is not proved in Lean (sampled by the correspondence check and the unit oracle): that the
  bytes of one unit spell newline/payload/newline in order without loss (DESIGN.md 8, C11).
-/
import CatVerif.Proofs.Inv
namespace Cat

/-- Along every history of API operations from `cat_init`, with arbitrary callback answers, the
command machine and the unsolicited machine are never simultaneously in FLUSH_IO_WRITE. -/
theorem C11_flush_exclusive (D : Desc) (buf ubuf : List Byte) (mem : List (List Byte)) (ops : List Op) :
    let w := (runOps ⟨D, init D buf ubuf mem⟩ ops).1
    ¬ (w.s.state = .flushWrite ∧ w.s.ustate = .flushWrite) := by
  exact runOps_induct' (fun w => FlushExcl w.s) (fun w op h => apply_flushExcl w op h) ops
    ⟨D, init D buf ubuf mem⟩ (by simp [FlushExcl, init])

end Cat
