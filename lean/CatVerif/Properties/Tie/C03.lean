/-
  C03 — the tie to the source: the model functions this property's theorems are about are the ones regenerated from
  `src/cat.c` / `cat.h` on every run (translator items of DESIGN.md 0.4), and the counters kept as natural numbers are `size_t`.
  Kept apart from `Properties/C03.lean` so that a changed source function breaks the obligations of exactly the properties
  that rest on it.
-/
import CatVerif.Properties.C03
import CatVerif.Proofs.Steps.Leaves
namespace Cat
open St


/-- the printing primitive — refuse unless the text and its terminator fit behind the cursor, copy, advance, terminate —
is the transliteration of `print_nstring_to_buf` with `get_left_buffer_space_by_fsm`, `get_current_buffer_by_fsm` and
`move_position_by_fsm` (translator item T22; the first line of the generated text is the model's ghost check that the
`size_t` subtraction does not wrap) -/
theorem C03_print_generated (D : Desc) (s : St) (f : Fsm) (x : List Byte) : printN D s f x = Gen.print_nstring_to_buf D s f x :=
  printN_generated D s f x

/-- the counters this property's theorems keep as unbounded natural numbers (`var_num`, `buf_size`, `cmd_group_num`, `unsolicited_buf_size`, `cmd_num`, `commands_num`, `index`, `length`, `partial_cntr`, `position`, `write_size`, `index`, `position`, `unsolicited_cmd_buffer_head`, `unsolicited_cmd_buffer_items_count`, `unsolicited_cmd_buffer_tail`, `data_size`) are declared
`size_t` in `cat.h` — 64 bits on the target, so they cannot wrap on any buffer, table or line that exists; the widths
are read from the struct declarations on every run (translator item T21) -/
theorem C03_counters_unbounded :
    Gen.width_cmd_var_num = 64 ∧
    Gen.width_desc_buf_size = 64 ∧
    Gen.width_desc_cmd_group_num = 64 ∧
    Gen.width_desc_unsolicited_buf_size = 64 ∧
    Gen.width_group_cmd_num = 64 ∧
    Gen.width_obj_commands_num = 64 ∧
    Gen.width_obj_index = 64 ∧
    Gen.width_obj_length = 64 ∧
    Gen.width_obj_partial_cntr = 64 ∧
    Gen.width_obj_position = 64 ∧
    Gen.width_obj_write_size = 64 ∧
    Gen.width_uns_index = 64 ∧
    Gen.width_uns_position = 64 ∧
    Gen.width_uns_unsolicited_cmd_buffer_head = 64 ∧
    Gen.width_uns_unsolicited_cmd_buffer_items_count = 64 ∧
    Gen.width_uns_unsolicited_cmd_buffer_tail = 64 ∧
    Gen.width_var_data_size = 64 := by decide

end Cat
