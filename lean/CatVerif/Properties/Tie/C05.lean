/-
  C05 — the tie to the source: the model functions this property's theorems are about are the ones regenerated from
  `src/cat.c` / `cat.h` on every run (translator items of DESIGN.md 0.4), and the counters kept as natural numbers are `size_t`.
  Kept apart from `Properties/C05.lean` so that a changed source function breaks the obligations of exactly the properties
  that rest on it.
-/
import CatVerif.Properties.C05
import CatVerif.Proofs.Steps.ParseArgs
namespace Cat
open St

/-- the dispatch of an argument to the hex-buffer and string decoders is recognised in `parse_write_args` of the
source on every run (translator item T18) -/
theorem C05_dispatch_generated (D : Desc) (s : St) (i : SvcIn) : parseWriteArgs D s i = Gen.parse_write_args D s i :=
  parseWriteArgs_generated D s i

/-- the counters this property's theorems keep as unbounded natural numbers (`var_num`, `index`, `length`, `position`, `write_size`, `data_size`) are declared
`size_t` in `cat.h` — 64 bits on the target, so they cannot wrap on any buffer, table or line that exists; the widths
are read from the struct declarations on every run (translator item T21) -/
theorem C05_counters_unbounded :
    Gen.width_cmd_var_num = 64 ∧
    Gen.width_obj_index = 64 ∧
    Gen.width_obj_length = 64 ∧
    Gen.width_obj_position = 64 ∧
    Gen.width_obj_write_size = 64 ∧
    Gen.width_var_data_size = 64 := by decide

end Cat
