/-
  C15 — the tie to the source: the model functions this property's theorems are about are the ones regenerated from
  `src/cat.c` / `cat.h` on every run (translator items of DESIGN.md 0.4), and the counters kept as natural numbers are `size_t`.
  Kept apart from `Properties/C15.lean` so that a changed source function breaks the obligations of exactly the properties
  that rest on it.
-/
import CatVerif.Properties.C15
import CatVerif.Proofs.Steps.ReadChar
namespace Cat
open St


/-- every reading state reports OK exactly when its guarded read got nothing; the read itself (`read_cmd_char`: "nothing"
means `io->read` returned 0, and nothing else) is the function re-recognised in the source on every run (translator item T14) -/
theorem C15_read_generated : readCmdChar = Gen.read_cmd_char := readCmdChar_generated

/-- the counters this property's theorems keep as unbounded natural numbers (`unsolicited_cmd_buffer_items_count`) are declared
`size_t` in `cat.h` — 64 bits on the target, so they cannot wrap on any buffer, table or line that exists; the widths
are read from the struct declarations on every run (translator item T21) -/
theorem C15_counters_unbounded :
    Gen.width_uns_unsolicited_cmd_buffer_items_count = 64 := by decide

end Cat
