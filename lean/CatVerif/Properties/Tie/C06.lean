/-
  C06 — the tie to the source: the model functions this property's theorems are about are the ones regenerated from
  `src/cat.c` / `cat.h` on every run (translator items of DESIGN.md 0.4), and the counters kept as natural numbers are `size_t`.
  Kept apart from `Properties/C06.lean` so that a changed source function breaks the obligations of exactly the properties
  that rest on it.
-/
import CatVerif.Properties.C06
import CatVerif.Proofs.Steps.Collect
import CatVerif.Proofs.Steps.Loops
namespace Cat
open St

/-- argument collection — every byte after `=` is stored unchanged and NUL-terminated while it and
its terminator fit, a line that does not fit goes to the ERROR state, `?` as the very first byte
asks for TEST, LF hands the text to the parsers or to the write handler — is, in the model, the text
regenerated from `parse_command_args` of the source (translator item T11); the model's ghost check
"a command is selected" sits between the read and the generated body -/
theorem C06_collection_generated (D : Desc) (s : St) (i : SvcIn) :
    parseCommandArgs D s i =
      (let r := readCmdChar s i
       if !r.2 then (r.1, Gen.CAT_STATUS_OK)
       else (Gen.parse_command_args_body D (r.1.chkUb r.1.cmd.isSome), Gen.CAT_STATUS_BUSY)) :=
  parseCommandArgs_generated D s i

/-- what each handler of the command machine and of the unsolicited machine is called with — the write handler with the
command buffer, `length` and `index`; the run handler with the command alone; read and test handlers with their own
machine's buffer, position and capacity — is re-recognised in the call expressions of `process_write_loop`,
`process_run_loop`, `call_cmd_read_by_fsm` and `call_cmd_test_by_fsm` on every run (translator item T19) -/
theorem C06_handler_calls_generated (D : Desc) (s : St) (f : Fsm) (i : SvcIn) :
    processWriteLoop D s i = Gen.process_write_loop_fn D s i ∧ processRunLoop D s i = Gen.process_run_loop_fn D s i ∧
    processReadLoop D s f i = Gen.process_read_loop_fn D s f i ∧ processTestLoop D s f i = Gen.process_test_loop_fn D s f i :=
  ⟨rfl, rfl, rfl, rfl⟩

/-- the counters this property's theorems keep as unbounded natural numbers (`buf_size`, `unsolicited_buf_size`, `length`, `position`) are declared
`size_t` in `cat.h` — 64 bits on the target, so they cannot wrap on any buffer, table or line that exists; the widths
are read from the struct declarations on every run (translator item T21) -/
theorem C06_counters_unbounded :
    Gen.width_desc_buf_size = 64 ∧
    Gen.width_desc_unsolicited_buf_size = 64 ∧
    Gen.width_obj_length = 64 ∧
    Gen.width_obj_position = 64 := by decide

end Cat
