/-
  C02 — the tie to the source: the model functions this property's theorems are about are the ones regenerated from
  `src/cat.c` / `cat.h` on every run (translator items of DESIGN.md 0.4), and the counters kept as natural numbers are `size_t`.
  Kept apart from `Properties/C02.lean` so that a changed source function breaks the obligations of exactly the properties
  that rest on it.
-/
import CatVerif.Properties.C02
import CatVerif.Proofs.Readers.Name
import CatVerif.Proofs.Readers.Ack
import CatVerif.Proofs.Steps.Found
import CatVerif.Proofs.Steps.Resolve
import CatVerif.Proofs.Steps.Lanes
import CatVerif.Proofs.Setters.Prepare
import CatVerif.Proofs.Steps.Leaves
namespace Cat
open St

/-- what follows the name decides the request type: the model's `parseCommand` (and the two
acknowledge states) are the text regenerated from the source's character switches (T8) -/
theorem C02_suffix_generated (D : Desc) :
    parseCommand = Gen.parse_command ∧ waitReadAcknowledge = Gen.wait_read_acknowledge D ∧
    waitTestAcknowledge = Gen.wait_test_acknowledge :=
  ⟨parseCommand_generated, waitReadAcknowledge_generated D, waitTestAcknowledge_generated⟩

/-- the dispatch on the request type is the text regenerated from `command_found` /
`command_not_found` (translator item T9); the model's ghost check "a command is selected" aside -/
theorem C02_dispatch_generated (D : Desc) (s : St) :
    commandFound D s = Gen.command_found D (s.chkUb s.cmd.isSome) ∧ commandNotFound D s = Gen.command_not_found D s :=
  ⟨commandFound_generated D s, commandNotFound_generated D s⟩

/-- the two loops of name resolution — one step of the sweep that updates every entry's match state
for a typed character, one step of the search for the selected entry — are, in the model, the
text regenerated from `update_command` and `search_command` of the source (translator item T11:
locals, lane accessor calls, else-if chains, the pre-increment inside a condition, early returns);
the model's ghost check "the cursor is inside the table" aside.  `C02_sweep` and `C02_search` are
theorems about exactly these functions. -/
theorem C02_loops_generated (D : Desc) (s : St) :
    updateCommand D s = Gen.update_command D (s.chkUb (decide (s.index < D.commandsNum))) ∧
    searchCommand D s = Gen.search_command D (s.chkUb (decide (s.index < D.commandsNum))) :=
  ⟨updateCommand_generated D s, searchCommand_generated D s⟩

/-- the 2-bit lane arithmetic — which byte holds entry `i` (`i >> 2`), how its match state is
extracted (`>> ((i % 4) << 1)`, `& 3`) and how a new one is merged in (`&= ~(3 << k)`, `|= (v & 3)
<< k`) — is, in the model (`laneGet`, `laneSet`, index `i / 4`), the natural-number reading of the
shifts and masks regenerated from `get_cmd_state` / `set_cmd_state` of the source (translator item
T15), for every stored byte, every position and every state value -/
theorem C02_lane_bits_generated (b i v : Nat) (hb : b < 256) :
    laneGet b i = Gen.get_cmd_state_bits b i ∧ laneSet b i v = Gen.set_cmd_state_bits b i v ∧
    i / 4 = Gen.get_cmd_state_index i ∧ i / 4 = Gen.set_cmd_state_index i :=
  ⟨laneGet_generated b i hb, laneSet_generated b i v hb, (lane_index_generated i).1, (lane_index_generated i).2⟩

/-- the start of name resolution — every entry's lane preset to PARTIAL_MATCH, cursors and request type cleared
(`prepare_parse_command`), the search cursor (`prepare_search_command`) — is translated from the source on every run
(translator item T7) -/
theorem C02_prepare_generated (D : Desc) (s : St) :
    prepareParseCommand D s = Gen.prepare_parse_command D s ∧ prepareSearchCommand s = Gen.prepare_search_command D s :=
  ⟨prepareParseCommand_generated D s, prepareSearchCommand_generated D s⟩


/-- the walk over the command groups — which entry a table index names, and whether that entry or its group is disabled —
is the transliteration of `get_command_by_index` / `is_command_disable`, emitted while their bodies have the recorded form
(translator item T22) -/
theorem C02_walk_generated (D : Desc) (i : Nat) :
    cmdByIndex D.groups i = Gen.get_command_by_index D i ∧ disabledByIndex D.groups i = Gen.is_command_disable D i :=
  ⟨cmdByIndex_generated D i, disabledByIndex_generated D i⟩

/-- the counters this property's theorems keep as unbounded natural numbers (`cmd_group_num`, `cmd_num`, `commands_num`, `index`, `length`, `partial_cntr`) are declared
`size_t` in `cat.h` — 64 bits on the target, so they cannot wrap on any buffer, table or line that exists; the widths
are read from the struct declarations on every run (translator item T21) -/
theorem C02_counters_unbounded :
    Gen.width_desc_cmd_group_num = 64 ∧
    Gen.width_group_cmd_num = 64 ∧
    Gen.width_obj_commands_num = 64 ∧
    Gen.width_obj_index = 64 ∧
    Gen.width_obj_length = 64 ∧
    Gen.width_obj_partial_cntr = 64 := by decide

end Cat
