/-
  C01 — the tie to the source: the model functions this property's theorems are about are the ones regenerated from
  `src/cat.c` / `cat.h` on every run (translator items of DESIGN.md 0.4), and the counters kept as natural numbers are `size_t`.
  Kept apart from `Properties/C01.lean` so that a changed source function breaks the obligations of exactly the properties
  that rest on it.
-/
import CatVerif.Properties.C01
import CatVerif.Proofs.Readers.Frame
import CatVerif.Proofs.Readers.Name
import CatVerif.Proofs.Steps.ReadChar
import CatVerif.Proofs.Setters.Reset
namespace Cat
open St

/-- where a line begins, where it is given up and where its LF is taken: the six reading states'
functions are the text regenerated from the source's character switches (translator item T8) -/
theorem C01_framing_generated (D : Desc) :
    errorState = Gen.error_state ∧ processIdleState = Gen.process_idle_state D ∧ parsePrefix = Gen.parse_prefix ∧
    parseCommand = Gen.parse_command :=
  ⟨errorState_generated, processIdleState_generated D, parsePrefix_generated, parseCommand_generated⟩

/-- the one place a byte is taken from the input (`read_cmd_char`: at most one byte per call, case-folded outside the
argument text) is the function re-recognised in the source on every run (translator item T14) -/
theorem C01_read_generated : readCmdChar = Gen.read_cmd_char := readCmdChar_generated

/-- the return to IDLE after an answer (`reset_state`: IDLE and `cr_flag` cleared, unless a command is held) is the
function translated from the source on every run (translator item T7) -/
theorem C01_reset_generated (D : Desc) (s : St) : resetState s = Gen.reset_state D s := resetState_generated D s

/-- the counters this property's theorems keep as unbounded natural numbers (`length`) are declared
`size_t` in `cat.h` — 64 bits on the target, so they cannot wrap on any buffer, table or line that exists; the widths
are read from the struct declarations on every run (translator item T21) -/
theorem C01_counters_unbounded :
    Gen.width_obj_length = 64 := by decide

end Cat
