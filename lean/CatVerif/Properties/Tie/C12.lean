/-
  C12 — the tie to the source: the model functions this property's theorems are about are the ones regenerated from
  `src/cat.c` / `cat.h` on every run (translator items of DESIGN.md 0.4), and the counters kept as natural numbers are `size_t`.
  Kept apart from `Properties/C12.lean` so that a changed source function breaks the obligations of exactly the properties
  that rest on it.
-/
import CatVerif.Properties.C12
import CatVerif.Proofs.Steps.ReadChar
import CatVerif.Proofs.Steps.Output
namespace Cat
open St

/-- the io call sites of the source are where the model reads and writes (T6) -/
theorem C12_io_sites_generated :
    (∀ st, Reading st ↔ st ∈ Gen.readingStates) ∧ Gen.writingStates = [.flushWrite] ∧ Gen.uwritingStates = [.flushWrite] :=
  ⟨reading_generated, writing_generated.1, writing_generated.2⟩

/-- `read_cmd_char` — the only place where input is taken: a refused read returns at once and changes
nothing; an accepted byte is stored and, outside argument collection, case-folded — is, in the model,
the function whose statements are re-recognised in the source on every run (translator item T14) -/
theorem C12_read_generated : readCmdChar = Gen.read_cmd_char := readCmdChar_generated

/-- the two output steps (offer the byte, advance only when it was accepted) are the functions re-recognised in
`process_io_write` / `unsolicited_process_io_write` on every run (translator item T10) -/
theorem C12_write_generated : processIoWrite = Gen.process_io_write ∧ unsolicitedProcessIoWrite = Gen.unsolicited_process_io_write :=
  ⟨processIoWrite_generated, unsolicitedProcessIoWrite_generated⟩

end Cat
