/-
  C19 — the tie to the source: the model functions this property's theorems are about are the ones regenerated from
  `src/cat.c` / `cat.h` on every run (translator items of DESIGN.md 0.4), and the counters kept as natural numbers are `size_t`.
  Kept apart from `Properties/C19.lean` so that a changed source function breaks the obligations of exactly the properties
  that rest on it.
-/
import CatVerif.Properties.C19
import CatVerif.Proofs.Steps.ByFsm
import CatVerif.Proofs.Steps.Format
import CatVerif.Proofs.Steps.CmdList
import CatVerif.Proofs.Steps.Leaves
namespace Cat
open St

/-- how an automatic READ / TEST response is started — cursor reset, `NAME=` printed, then the variable
list if there is one (READ: if a variable is readable), otherwise the handler or, for TEST, the
description and the end of the line; ERROR if a text does not fit or nothing can answer — is, in the
model, the text regenerated from `start_processing_format_read_args` / `..._test_args`,
`end_processing_with_ok` / `..._error` and `reset_position` of the source (translator item T12: `switch
(fsm)` as a match on the machine; the model's ghost NULL check of the command pointer is part of the template) -/
theorem C19_format_start_generated (D : Desc) (s : St) (f : Fsm) :
    startFormatRead D s f = Gen.start_processing_format_read_args D s f ∧
    startFormatTest D s f = Gen.start_processing_format_test_args D s f ∧
    endOk D s f = Gen.end_processing_with_ok D s f ∧ endError D s f = Gen.end_processing_with_error D s f ∧
    s.setPos f 0 = Gen.reset_position D s f :=
  ⟨startFormatRead_generated D s f, startFormatTest_generated D s f, endOk_generated D s f, endError_generated D s f,
   setPos_generated D s f⟩

/-- starting the command list (translator item T14) -/
theorem C19_list_start_generated (D : Desc) (s : St) : startPrintCmdList D s = Gen.start_print_cmd_list D s :=
  startPrintCmdList_generated D s

/-- how an automatic TEST response ends (line break and description if there is one; then the test
handler if there is one, else the line is sent and answered OK) and how the variable list advances
(next variable, a comma if it fits, ERROR if it does not) are the text regenerated from
`print_response_test` and `next_format_var_by_fsm` of the source (translator item T16; for the second
one the model omits the NULL check of the command pointer, which its callers have made) -/
theorem C19_format_steps_generated (D : Desc) (s : St) (f : Fsm) :
    printResponseTest D s f = Gen.print_response_test D s f ∧
    ((s.cmdOf f).isSome = true → nextFormatVar D s f = Gen.next_format_var_by_fsm D s f) :=
  ⟨printResponseTest_generated D s f, nextFormatVar_generated D s f⟩

/-- one step of the automatic TEST response is the function whose statements are re-recognised in
`format_test_args` of the source on every run (translator item T17) -/
theorem C19_format_test_step_generated (D : Desc) (s : St) (f : Fsm) :
    formatTestArgs D s f = Gen.format_test_args D s f :=
  formatTestArgs_generated D s f

/-- the command-list printer — which entry is looked at, that disabled entries are skipped, the order RUN, READ, WRITE,
TEST of the forms, the availability condition of each form, the text `AT` ++ name ++ suffix between line breaks (the
opening one only before the first line), the failure when a line does not fit, the move to the next entry and the
final OK — is the function translated statement by statement from `print_cmd_list`, `print_current_cmd_full_name`
and `cmd_list_next_cmd` of the source on every run (translator item T20) -/
theorem C19_list_printer_generated (D : Desc) (s : St) (x : List Byte) :
    printCmdList D s = Gen.print_cmd_list D s ∧ printCurrentCmdFullName D s x = Gen.print_current_cmd_full_name D s x ∧
    cmdListNextCmd D s = Gen.cmd_list_next_cmd D s :=
  ⟨printCmdList_generated D s, printCurrentCmdFullName_generated D s x, cmdListNextCmd_generated D s⟩


/-- fits-or-fails of every piece of a TEST response and of every command-list line goes through the printing primitive,
the transliteration of `print_nstring_to_buf` (translator item T22) -/
theorem C19_print_generated (D : Desc) (s : St) (f : Fsm) (x : List Byte) : printN D s f x = Gen.print_nstring_to_buf D s f x :=
  printN_generated D s f x

/-- the counters this property's theorems keep as unbounded natural numbers (`var_num`, `cmd_group_num`, `cmd_num`, `commands_num`, `index`, `position`, `index`, `position`) are declared
`size_t` in `cat.h` — 64 bits on the target, so they cannot wrap on any buffer, table or line that exists; the widths
are read from the struct declarations on every run (translator item T21) -/
theorem C19_counters_unbounded :
    Gen.width_cmd_var_num = 64 ∧
    Gen.width_desc_cmd_group_num = 64 ∧
    Gen.width_group_cmd_num = 64 ∧
    Gen.width_obj_commands_num = 64 ∧
    Gen.width_obj_index = 64 ∧
    Gen.width_obj_position = 64 ∧
    Gen.width_uns_index = 64 ∧
    Gen.width_uns_position = 64 := by decide

end Cat
