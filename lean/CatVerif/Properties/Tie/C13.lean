/-
  C13 — the tie to the source: the model functions this property's theorems are about are the ones regenerated from
  `src/cat.c` / `cat.h` on every run (translator items of DESIGN.md 0.4), and the counters kept as natural numbers are `size_t`.
  Kept apart from `Properties/C13.lean` so that a changed source function breaks the obligations of exactly the properties
  that rest on it.
-/
import CatVerif.Properties.C13
import CatVerif.Proofs.Steps.Ring
namespace Cat
open St

/-- the ring operations — refuse when full, store at the tail, advance with wrap-around, count; take
from the head, advance with wrap-around, count down; hand the popped event to the READ or TEST
formatter — are, in the model, the functions whose statement shapes are re-recognised in
`push_unsolicited_cmd`, `pop_unsolicited_cmd` and `check_unsolicited_buffers` of the source on every
run (translator item T13: any other statement there is reported as a broken tie) -/
theorem C13_ring_generated (D : Desc) (s : St) (c : Nat) (t : CmdType) :
    pushUnsolicited D s c t = Gen.push_unsolicited_cmd D s c t ∧
    checkUnsolicitedBuffers D s = Gen.check_unsolicited_buffers D s :=
  ⟨pushUnsolicited_generated D s c t, checkUnsolicitedBuffers_generated D s⟩

/-- the counters this property's theorems keep as unbounded natural numbers (`index`, `position`, `unsolicited_cmd_buffer_head`, `unsolicited_cmd_buffer_items_count`, `unsolicited_cmd_buffer_tail`) are declared
`size_t` in `cat.h` — 64 bits on the target, so they cannot wrap on any buffer, table or line that exists; the widths
are read from the struct declarations on every run (translator item T21) -/
theorem C13_counters_unbounded :
    Gen.width_uns_index = 64 ∧
    Gen.width_uns_position = 64 ∧
    Gen.width_uns_unsolicited_cmd_buffer_head = 64 ∧
    Gen.width_uns_unsolicited_cmd_buffer_items_count = 64 ∧
    Gen.width_uns_unsolicited_cmd_buffer_tail = 64 := by decide

end Cat
