/-
  C18 — the tie to the source (see Properties/Tie/C01.lean).
-/
import CatVerif.Properties.C18
namespace Cat
open St

/-- the counters this property's theorems keep as unbounded natural numbers (`unsolicited_cmd_buffer_items_count`) are declared
`size_t` in `cat.h` — 64 bits on the target, so they cannot wrap on any buffer, table or line that exists; the widths
are read from the struct declarations on every run (translator item T21) -/
theorem C18_counters_unbounded :
    Gen.width_uns_unsolicited_cmd_buffer_items_count = 64 := by decide

end Cat
