/-
  C11 — the tie to the source: the model functions this property's theorems are about are the ones regenerated from
  `src/cat.c` / `cat.h` on every run (translator items of DESIGN.md 0.4), and the counters kept as natural numbers are `size_t`.
  Kept apart from `Properties/C11.lean` so that a changed source function breaks the obligations of exactly the properties
  that rest on it.
-/
import CatVerif.Properties.C11
import CatVerif.Proofs.Steps.Wait
import CatVerif.Proofs.Steps.Output
import CatVerif.Proofs.Setters.Flush
namespace Cat
open St

/-- output arbitration — a machine leaves FLUSH_IO_WRITE_WAIT only while the other one is not in
FLUSH_IO_WRITE — is, in the model, the text regenerated from `process_io_write_wait` and
`unsolicited_process_io_write_wait` of the source (translator item T9) -/
theorem C11_arbitration_generated (D : Desc) (s : St) :
    processIoWriteWait s = Gen.process_io_write_wait D s ∧
    unsolicitedProcessIoWriteWait s = Gen.unsolicited_process_io_write_wait D s :=
  ⟨processIoWriteWait_generated D s, unsolicitedProcessIoWriteWait_generated D s⟩

/-- the output steps — fetch `write_buf[position]`; at the terminator go from the opening line
break to the text, from the text to the closing line break (chosen then), from there to the
state the unit continues in; otherwise offer the byte and advance only if `io->write` took it —
are, in the model, the text regenerated from `process_io_write` and `unsolicited_process_io_write`
of the source (translator item T10; the model's ghost check and events marked in the generated text) -/
theorem C11_output_steps_generated :
    processIoWrite = Gen.process_io_write ∧ unsolicitedProcessIoWrite = Gen.unsolicited_process_io_write :=
  ⟨processIoWrite_generated, unsolicitedProcessIoWrite_generated⟩

/-- how a unit is started — the output cursor at 0, the opening line break as first source, the phase, the state to
continue in, FLUSH_IO_WRITE_WAIT as next state; for a command-list line no opening break — is translated from
`start_flush_io_buffer`, `unsolicited_start_flush_io_buffer` and `start_flush_io_buffer_raw` on every run (translator
item T7; `flushStart` is the model's ghost event) -/
theorem C11_unit_start_generated (D : Desc) (s : St) (a : After) :
    startFlush s .cmd a = (Gen.start_flush_io_buffer D s a).emit (.flushStart .cmd false) ∧
    startFlush s .uns a = (Gen.unsolicited_start_flush_io_buffer D s a).emit (.flushStart .uns false) ∧
    startFlushRaw s a = (Gen.start_flush_io_buffer_raw D s a).emit (.flushStart .cmd true) :=
  ⟨rfl, rfl, rfl⟩

/-- the counters this property's theorems keep as unbounded natural numbers (`buf_size`, `unsolicited_buf_size`, `position`, `position`) are declared
`size_t` in `cat.h` — 64 bits on the target, so they cannot wrap on any buffer, table or line that exists; the widths
are read from the struct declarations on every run (translator item T21) -/
theorem C11_counters_unbounded :
    Gen.width_desc_buf_size = 64 ∧
    Gen.width_desc_unsolicited_buf_size = 64 ∧
    Gen.width_obj_position = 64 ∧
    Gen.width_uns_position = 64 := by decide

end Cat
