/-
  C08 — the tie to the source: the model functions this property's theorems are about are the ones regenerated from
  `src/cat.c` / `cat.h` on every run (translator items of DESIGN.md 0.4), and the counters kept as natural numbers are `size_t`.
  Kept apart from `Properties/C08.lean` so that a changed source function breaks the obligations of exactly the properties
  that rest on it.
-/
import CatVerif.Properties.C08
import CatVerif.Proofs.Steps.Format
import CatVerif.Proofs.Steps.ParseArgs
import CatVerif.Proofs.Steps.Leaves
namespace Cat
open St

/-- the step that hands an argument to a variable (`parse_write_args`) and the step that formats a variable for a READ
response (`format_read_args`) — the two places where the access mode of a variable is honoured — are the functions
re-recognised in the source on every run (translator items T17, T18) -/
theorem C08_access_steps_generated (D : Desc) (s : St) (f : Fsm) (i : SvcIn) :
    parseWriteArgs D s i = Gen.parse_write_args D s i ∧ formatReadArgs D s f i = Gen.format_read_args D s f i :=
  ⟨parseWriteArgs_generated D s i, formatReadArgs_generated D s f i⟩

/-- "some variable of the command may be read / written" is the transliteration of `is_variables_access_possible`
(translator item T22) -/
theorem C08_access_test_generated (c : CmdD) (a : Access) : varsAccessible c a = Gen.is_variables_access_possible c a := rfl

/-- the counters this property's theorems keep as unbounded natural numbers (`var_num`, `index`, `data_size`) are declared
`size_t` in `cat.h` — 64 bits on the target, so they cannot wrap on any buffer, table or line that exists; the widths
are read from the struct declarations on every run (translator item T21) -/
theorem C08_counters_unbounded :
    Gen.width_cmd_var_num = 64 ∧
    Gen.width_obj_index = 64 ∧
    Gen.width_var_data_size = 64 := by decide

end Cat
