/-
  C14 — the tie to the source: the model functions this property's theorems are about are the ones regenerated from
  `src/cat.c` / `cat.h` on every run (translator items of DESIGN.md 0.4), and the counters kept as natural numbers are `size_t`.
  Kept apart from `Properties/C14.lean` so that a changed source function breaks the obligations of exactly the properties
  that rest on it.
-/
import CatVerif.Properties.C14
import CatVerif.Proofs.Setters.Reset
import CatVerif.Proofs.Setters.HoldSet
import CatVerif.Proofs.Steps.Hold
import CatVerif.Proofs.Steps.Loops
namespace Cat
open St

/-- entering the hold: the model's `enableHoldState` is the assignment list of `enable_hold_state`
in the source (translator item T7), and leaving a line through `reset_state` likewise -/
theorem C14_hold_setters_generated (D : Desc) (s : St) :
    enableHoldState s = Gen.enable_hold_state D s ∧ resetState s = Gen.reset_state D s :=
  ⟨enableHoldState_generated D s, resetState_generated D s⟩

/-- the release from HOLD is the text regenerated from `process_hold_state` (translator item T9) -/
theorem C14_release_generated (D : Desc) (s : St) : processHoldState D s = Gen.process_hold_state D s :=
  processHoldState_generated D s

/-- `hold_exit` (refused outside a hold; otherwise records OK or ERROR) is the function whose
statements are re-recognised in the source on every run (translator item T14) -/
theorem C14_hold_exit_generated : holdExit = Gen.hold_exit := holdExit_generated

/-- the four handler loops — where a HOLD answer puts the machine on hold and a HOLD_EXIT answer releases it — have the
shape re-recognised in the source on every run (translator item T19; their return-code tables are T3) -/
theorem C14_loops_generated (D : Desc) (s : St) (f : Fsm) (i : SvcIn) :
    processWriteLoop D s i = Gen.process_write_loop_fn D s i ∧ processRunLoop D s i = Gen.process_run_loop_fn D s i ∧
    processReadLoop D s f i = Gen.process_read_loop_fn D s f i ∧ processTestLoop D s f i = Gen.process_test_loop_fn D s f i :=
  ⟨rfl, rfl, rfl, rfl⟩

end Cat
