/-
  C10 — the tie to the source: the model functions this property's theorems are about are the ones regenerated from
  `src/cat.c` / `cat.h` on every run (translator items of DESIGN.md 0.4), and the counters kept as natural numbers are `size_t`.
  Kept apart from `Properties/C10.lean` so that a changed source function breaks the obligations of exactly the properties
  that rest on it.
-/
import CatVerif.Properties.C10
import CatVerif.Proofs.Steps.Loops
import CatVerif.Proofs.Steps.ByFsm
namespace Cat
open St

/-- the four handler loops are: call the handler, perform the calls the generated return-code table lists for its
answer, return BUSY — the shape re-recognised in the source on every run (translator item T19; the tables are T3) -/
theorem C10_loops_generated (D : Desc) (s : St) (f : Fsm) (i : SvcIn) :
    processWriteLoop D s i = Gen.process_write_loop_fn D s i ∧ processRunLoop D s i = Gen.process_run_loop_fn D s i ∧
    processReadLoop D s f i = Gen.process_read_loop_fn D s f i ∧ processTestLoop D s f i = Gen.process_test_loop_fn D s f i :=
  ⟨rfl, rfl, rfl, rfl⟩

/-- what the table entries do — finish with OK or ERROR, restart the automatic text — is translated from
`end_processing_with_ok`, `end_processing_with_error`, `start_processing_format_read_args` and
`start_processing_format_test_args` of the source on every run (translator item T12) -/
theorem C10_calls_generated (D : Desc) (s : St) (f : Fsm) :
    endOk D s f = Gen.end_processing_with_ok D s f ∧ endError D s f = Gen.end_processing_with_error D s f ∧
    startFormatRead D s f = Gen.start_processing_format_read_args D s f ∧
    startFormatTest D s f = Gen.start_processing_format_test_args D s f :=
  ⟨endOk_generated D s f, endError_generated D s f, startFormatRead_generated D s f, startFormatTest_generated D s f⟩

/-- the counters this property's theorems keep as unbounded natural numbers (`position`, `position`) are declared
`size_t` in `cat.h` — 64 bits on the target, so they cannot wrap on any buffer, table or line that exists; the widths
are read from the struct declarations on every run (translator item T21) -/
theorem C10_counters_unbounded :
    Gen.width_obj_position = 64 ∧
    Gen.width_uns_position = 64 := by decide

end Cat
