/-
  C20 — the tie to the source: the model functions this property's theorems are about are the ones regenerated from
  `src/cat.c` / `cat.h` on every run (translator items of DESIGN.md 0.4), and the counters kept as natural numbers are `size_t`.
  Kept apart from `Properties/C20.lean` so that a changed source function breaks the obligations of exactly the properties
  that rest on it.
-/
import CatVerif.Properties.C20
import CatVerif.Proofs.Setters.Reset
import CatVerif.Proofs.Setters.Prepare
import CatVerif.Proofs.Setters.Flush
import CatVerif.Proofs.Setters.HoldSet
import CatVerif.Proofs.Readers.Frame
import CatVerif.Proofs.Readers.Name
import CatVerif.Proofs.Readers.Ack
import CatVerif.Proofs.Steps.Leaves
namespace Cat
open St

/-- the model's per-line (re)initialisers are the assignment lists of the source (T7) -/
theorem C20_setters_generated (D : Desc) (s : St) (a : After) :
    resetState s = Gen.reset_state D s ∧
    prepareParseCommand D s = Gen.prepare_parse_command D s ∧
    prepareSearchCommand s = Gen.prepare_search_command D s ∧
    startFlush s .cmd a = (Gen.start_flush_io_buffer D s a).emit (.flushStart .cmd false) ∧
    startFlushRaw s a = (Gen.start_flush_io_buffer_raw D s a).emit (.flushStart .cmd true) ∧
    startFlush s .uns a = (Gen.unsolicited_start_flush_io_buffer D s a).emit (.flushStart .uns false) ∧
    unsolicitedResetState s = Gen.unsolicited_reset_state D s ∧
    enableHoldState s = Gen.enable_hold_state D s :=
  ⟨resetState_generated D s, prepareParseCommand_generated D s, prepareSearchCommand_generated D s,
   startFlush_cmd_generated D s a, startFlushRaw_generated D s a, startFlush_uns_generated D s a,
   unsolicitedResetState_generated D s, enableHoldState_generated D s⟩

/-- line framing — which byte leads where in the six reading-and-dispatching states, where CR is
recorded, which bytes IDLE ignores — is, in the model, the text regenerated from the `switch
(self->current_char)` statements of the source (translator item T8) -/
theorem C20_framing_generated (D : Desc) :
    errorState = Gen.error_state ∧ processIdleState = Gen.process_idle_state D ∧ parsePrefix = Gen.parse_prefix ∧
    parseCommand = Gen.parse_command ∧ waitReadAcknowledge = Gen.wait_read_acknowledge D ∧
    waitTestAcknowledge = Gen.wait_test_acknowledge :=
  ⟨errorState_generated, processIdleState_generated D, parsePrefix_generated, parseCommand_generated,
   waitReadAcknowledge_generated D, waitTestAcknowledge_generated⟩

/-- the line break of every response is chosen from `cr_flag` alone: the offset into the literal "\\r\\n" is the
transliteration of `get_new_line_chars` (translator item T22) -/
theorem C20_newline_generated (s : St) : nlOff s = Gen.get_new_line_chars s := nlOff_generated s

/-- the counters this property's theorems keep as unbounded natural numbers (`length`) are declared
`size_t` in `cat.h` — 64 bits on the target, so they cannot wrap on any buffer, table or line that exists; the widths
are read from the struct declarations on every run (translator item T21) -/
theorem C20_counters_unbounded :
    Gen.width_obj_length = 64 := by decide

end Cat
