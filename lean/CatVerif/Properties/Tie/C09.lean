/-
  C09 — the tie to the source: the model functions this property's theorems are about are the ones regenerated from
  `src/cat.c` / `cat.h` on every run (translator items of DESIGN.md 0.4), and the counters kept as natural numbers are `size_t`.
  Kept apart from `Properties/C09.lean` so that a changed source function breaks the obligations of exactly the properties
  that rest on it.
-/
import CatVerif.Properties.C09
import CatVerif.Proofs.Steps.Found
import CatVerif.Proofs.Steps.Resolve
import CatVerif.Proofs.Steps.Leaves
namespace Cat
open St

/-- the functions that keep disabled entries out of the match state (`update_command`), never select them
(`search_command`) and refuse test-only and handler-less requests (`command_found`) are the ones translated from the
source on every run (translator items T9, T11) -/
theorem C09_gates_generated (D : Desc) (s : St) :
    updateCommand D s = Gen.update_command D (s.chkUb (decide (s.index < D.commandsNum))) ∧
    searchCommand D s = Gen.search_command D (s.chkUb (decide (s.index < D.commandsNum))) ∧
    commandFound D s = Gen.command_found D (s.chkUb s.cmd.isSome) :=
  ⟨updateCommand_generated D s, searchCommand_generated D s, commandFound_generated D s⟩


/-- the walk over the command groups — which entry a table index names, and whether that entry or its group is disabled —
is the transliteration of `get_command_by_index` / `is_command_disable`, emitted while their bodies have the recorded form
(translator item T22) -/
theorem C09_walk_generated (D : Desc) (i : Nat) :
    cmdByIndex D.groups i = Gen.get_command_by_index D i ∧ disabledByIndex D.groups i = Gen.is_command_disable D i :=
  ⟨cmdByIndex_generated D i, disabledByIndex_generated D i⟩

/-- the counters this property's theorems keep as unbounded natural numbers (`cmd_group_num`, `cmd_num`, `commands_num`, `index`, `partial_cntr`) are declared
`size_t` in `cat.h` — 64 bits on the target, so they cannot wrap on any buffer, table or line that exists; the widths
are read from the struct declarations on every run (translator item T21) -/
theorem C09_counters_unbounded :
    Gen.width_desc_cmd_group_num = 64 ∧
    Gen.width_group_cmd_num = 64 ∧
    Gen.width_obj_commands_num = 64 ∧
    Gen.width_obj_index = 64 ∧
    Gen.width_obj_partial_cntr = 64 := by decide

end Cat
