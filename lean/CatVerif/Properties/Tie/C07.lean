/-
  C07 — the tie to the source: the model functions this property's theorems are about are the ones regenerated from
  `src/cat.c` / `cat.h` on every run (translator items of DESIGN.md 0.4), and the counters kept as natural numbers are `size_t`.
  Kept apart from `Properties/C07.lean` so that a changed source function breaks the obligations of exactly the properties
  that rest on it.
-/
import CatVerif.Properties.C07
import CatVerif.Proofs.Steps.Format
namespace Cat
open St

/-- one step of the automatic READ response — the variable's read callback, the formatter chosen by the
variable's type, the advance to the next variable, then the read handler or the line is sent — is the
function whose statements are re-recognised in `format_read_args` of the source on every run
(translator item T17) -/
theorem C07_format_step_generated (D : Desc) (s : St) (f : Fsm) (i : SvcIn) :
    formatReadArgs D s f i = Gen.format_read_args D s f i :=
  formatReadArgs_generated D s f i

/-- the counters this property's theorems keep as unbounded natural numbers (`var_num`, `index`, `length`, `position`, `write_size`, `index`, `position`, `data_size`) are declared
`size_t` in `cat.h` — 64 bits on the target, so they cannot wrap on any buffer, table or line that exists; the widths
are read from the struct declarations on every run (translator item T21) -/
theorem C07_counters_unbounded :
    Gen.width_cmd_var_num = 64 ∧
    Gen.width_obj_index = 64 ∧
    Gen.width_obj_length = 64 ∧
    Gen.width_obj_position = 64 ∧
    Gen.width_obj_write_size = 64 ∧
    Gen.width_uns_index = 64 ∧
    Gen.width_uns_position = 64 ∧
    Gen.width_var_data_size = 64 := by decide

end Cat
