/-
  C18 — cat_is_busy / cat_is_hold never report idle while work is in flight.

  Proved (with `is_busy` / `is_hold` regenerated from the source, translator item T2):
  * `C18_busy_ok_iff_idle`: `cat_is_busy` answers OK exactly when BOTH machines are idle (this is
    what the F5 repair established); in particular not while either machine is waiting to write or
    writing a unit, nor in any parsing or processing state (`C18_not_idle_busy`);
  * `C18_quiescent_ok`: once `cat_service` reported OK and the command machine is in IDLE (no
    partial line pending), `cat_is_busy` does answer OK;
  * `C18_is_hold_iff`: along every history, `cat_is_hold` answers HOLD iff a command is suspended.
  The link from "both machines idle" to the wording of the property ("no command line partially
  received or still being processed, no unit partially emitted") is the state/line coupling
  (DESIGN.md Appendix B.1): IDLE is left at the first non-CR byte of a line and re-entered only by
  `reset_state` after the line's result code was flushed; a unit is in progress only in the
  flush states.  That coupling is checked on the implementation by the C18 oracle at every call.
-/
import CatVerif.Properties.C14
import CatVerif.Properties.C15
namespace Cat
open St

theorem C18_busy_ok_iff_idle (D : Desc) (s : St) (hm : D.hasMutex = false) :
    (catIsBusy D s 0 0).2 = Gen.CAT_STATUS_OK ↔ (s.state = .idle ∧ s.ustate = .idle) := by
  have e : (catIsBusy D s 0 0).2 = Gen.is_busy s.state.code s.ustate.code := by
    simp [catIsBusy, withMutex, hm, isBusyBody]
  rw [e]
  generalize s.state = a
  generalize s.ustate = b
  cases a <;> cases b <;> decide

theorem C18_not_idle_busy (s : St) (h : s.state ≠ .idle ∨ s.ustate ≠ .idle) :
    Gen.is_busy s.state.code s.ustate.code = Gen.CAT_STATUS_BUSY := by
  revert h
  generalize s.state = a
  generalize s.ustate = b
  cases a <;> cases b <;> decide

/-- after `cat_service` reported OK with no partial line pending, `cat_is_busy` reports OK -/
theorem C18_quiescent_ok (D : Desc) (s : St) (i : SvcIn) (h : (serviceBody D s i).2 = Gen.CAT_STATUS_OK)
    (hidle : (serviceBody D s i).1.state = .idle) :
    Gen.is_busy (serviceBody D s i).1.state.code (serviceBody D s i).1.ustate.code = Gen.CAT_STATUS_OK := by
  have q := serviceBody_ok_quiescent D s i h
  rw [hidle, q.1]; decide

theorem C18_is_hold_iff (D : Desc) (buf ubuf : List Byte) (mem : List (List Byte)) (ops : List Op)
    (hok : ∀ op ∈ ops, OpOk op) :
    let w := (runOps ⟨D, init D buf ubuf mem⟩ ops).1
    ((catIsHold w.D w.s 0 0).2 = Gen.CAT_STATUS_HOLD ↔ w.s.state = .hold) := by
  intro w
  have h := C14_flag_iff_hold D buf ubuf mem ops hok
  rw [C14_is_hold]
  constructor
  · intro e
    cases hf : w.s.holdFlag
    · simp [hf] at e; exact absurd e (by decide)
    · exact h.1 hf
  · intro e
    have hf : w.s.holdFlag = true := h.2 e
    simp [hf]

end Cat
