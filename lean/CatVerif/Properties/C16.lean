/-
  C16 — Mutex discipline: balanced, non-nested, nothing touched without the lock.

  Every locking API function of the model is `withMutex D s lock unlock body` (the lock / body /
  unlock shape of the C functions is re-extracted from the source on every run by the
  translator, item T5).  Proved here, for every state, descriptor and callback answers:
  * `C16_lock_failure`: if `lock()` fails the call returns ERROR_MUTEX_LOCK and the state is the
    state before the call with the single event `lock` logged — nothing else happened;
  * `C16_unlock_last`: otherwise the body runs on the state after `lock`, the last logged event is
    `unlock`, and the result is ERROR_MUTEX_UNLOCK iff `unlock()` failed, else the body's result;
  * `C16_service_once` (and the same for the other five functions): the lock is taken exactly once
    and released exactly once per call, nothing in between, unless a callback itself calls the
    locking API (the library never takes it twice);
  * `C16_no_mutex`: without a mutex interface no lock/unlock event is ever logged.
  The body's own events lie between the two (the body receives the state with `lock` already
  logged and only appends; `unlock` is appended to the body's result).
-/
import CatVerif.Proofs.Log
namespace Cat
open St

/-- the six locking API functions are lock / body / unlock -/
theorem C16_shape (D : Desc) (s : St) (i : SvcIn) (c : Nat) (t st lk ul : Int) :
    service D s i = withMutex D s i.lock i.unlock (fun s => serviceBody D s i) ∧
    catIsBusy D s lk ul = withMutex D s lk ul isBusyBody ∧
    catIsHold D s lk ul = withMutex D s lk ul isHoldBody ∧
    (catIsFull D s lk ul).1 = (withMutex D s lk ul (isFullBody D)).1 ∧
    catTrigger D s c t lk ul = withMutex D s lk ul (fun s => pushUnsolicited D s c (cmdTypeOfInt t)) ∧
    catHoldExit D s st lk ul = withMutex D s lk ul (fun s => holdExit s st) :=
  ⟨rfl, rfl, rfl, rfl, rfl, rfl⟩

/-- If locking fails the call has done nothing at all: the state is the old state with the one
event `lock` logged, the result is ERROR_MUTEX_LOCK. -/
theorem C16_lock_failure (D : Desc) (s : St) (lk ul : Int) (body : St → St × Int)
    (hm : D.hasMutex = true) (hl : lk ≠ 0) :
    withMutex D s lk ul body = (s.emit (.lock lk), Gen.CAT_STATUS_ERROR_MUTEX_LOCK) := by
  simp [withMutex, hm, hl]

/-- If locking succeeds the body runs on the state in which `lock` has been logged, `unlock` is the
last event of the call, and the result is ERROR_MUTEX_UNLOCK iff unlocking failed. -/
theorem C16_unlock_last (D : Desc) (s : St) (ul : Int) (body : St → St × Int) (hm : D.hasMutex = true) :
    (withMutex D s 0 ul body).1 = (body (s.emit (.lock 0))).1.emit (.unlock ul) ∧
    (withMutex D s 0 ul body).2 = (if ul ≠ 0 then Gen.CAT_STATUS_ERROR_MUTEX_UNLOCK else (body (s.emit (.lock 0))).2) := by
  simp [withMutex, hm]; split <;> simp_all

/-- no callback answer of this call makes API calls of its own -/
def NoNestedApi (i : SvcIn) : Prop :=
  noApi i.hu.acts = true ∧ noApi i.hc.acts = true ∧ noApi i.vu.acts = true ∧ noApi i.vc.acts = true

theorem serviceBody_mutex_quiet (D : Desc) (s : St) (i : SvcIn) (h : NoNestedApi i) :
    tr .mutex (serviceBody D s i).1.log = tr .mutex s.log := by
  unfold serviceBody
  simp only
  have a := unsolicitedEventsService_quiet .mutex (by decide) D s i (Or.inr h.2.2.1) (Or.inr h.1)
  have b := commandService_quiet .mutex (by decide) D (unsolicitedEventsService D s i).1 i (Or.inr h.2.2.2) (Or.inr h.2.1)
  simp only [Quiet] at a b
  rw [b, a]

/-- `cat_service` takes the lock exactly once and releases it exactly once, with no lock or unlock
in between, whenever its callbacks do not call the locking API themselves. -/
theorem C16_service_once (D : Desc) (s : St) (i : SvcIn) (hm : D.hasMutex = true) (hl : i.lock = 0)
    (h : NoNestedApi i) :
    tr .mutex (service D s i).1.log = tr .mutex s.log ++ [.lock 0, .unlock i.unlock] := by
  unfold service
  rw [hl, (C16_unlock_last D s i.unlock _ hm).1]
  simp [serviceBody_mutex_quiet D _ i h, cls]

/-- the five small locking functions: exactly one lock and one unlock -/
theorem C16_small_once (D : Desc) (s : St) (ul : Int) (body : St → St × Int) (hm : D.hasMutex = true)
    (hb : ∀ a, (body a).1.log = a.log) :
    tr .mutex (withMutex D s 0 ul body).1.log = tr .mutex s.log ++ [.lock 0, .unlock ul] := by
  rw [(C16_unlock_last D s ul body hm).1]
  simp [hb, cls]

theorem C16_queries_once (D : Desc) (s : St) (c : Nat) (t st ul : Int) (hm : D.hasMutex = true) :
    tr .mutex (catIsBusy D s 0 ul).1.log = tr .mutex s.log ++ [.lock 0, .unlock ul] ∧
    tr .mutex (catIsHold D s 0 ul).1.log = tr .mutex s.log ++ [.lock 0, .unlock ul] ∧
    tr .mutex (catIsFull D s 0 ul).1.log = tr .mutex s.log ++ [.lock 0, .unlock ul] ∧
    tr .mutex (catTrigger D s c t 0 ul).1.log = tr .mutex s.log ++ [.lock 0, .unlock ul] ∧
    tr .mutex (catHoldExit D s st 0 ul).1.log = tr .mutex s.log ++ [.lock 0, .unlock ul] := by
  refine ⟨C16_small_once D s ul _ hm (fun a => rfl), C16_small_once D s ul _ hm (fun a => rfl), ?_,
    C16_small_once D s ul _ hm (fun a => by simp), C16_small_once D s ul _ hm (fun a => by simp)⟩
  simp only [catIsFull]
  exact C16_small_once D s ul _ hm (fun a => rfl)

/-- Without a mutex interface nothing is ever locked. -/
theorem C16_no_mutex (D : Desc) (s : St) (i : SvcIn) (hm : D.hasMutex = false) (h : NoNestedApi i) :
    tr .mutex (service D s i).1.log = tr .mutex s.log := by
  unfold service withMutex
  simp [hm, serviceBody_mutex_quiet D s i h]

/-- A failed unlock is reported and does not disturb the parser: the state after the call is the
body's result with `unlock` logged, exactly as when unlocking succeeds. -/
theorem C16_unlock_failure_harmless (D : Desc) (s : St) (ul ul' : Int) (body : St → St × Int) (hm : D.hasMutex = true) :
    ({ (withMutex D s 0 ul body).1 with log := [] } : St) = { (withMutex D s 0 ul' body).1 with log := [] } := by
  simp [withMutex, hm]; (repeat' split) <;> simp [St.emit]

/-- non-vacuity: a call on a descriptor with a mutex whose lock fails -/
example : (withMutex { (default : Desc) with hasMutex := true } default 1 0 isBusyBody).2 = Gen.CAT_STATUS_ERROR_MUTEX_LOCK := by
  decide

end Cat
