/-
  C20 — Each line is answered on its own; line ending mirrors the request.

  Proved (PARTIAL — the whole-line statement "output of a concatenation = concatenation of the
  outputs" needs the line-level refinement that is not mechanised; it is checked on the
  implementation by the twin-run oracle meta_C20):
  * `C20_back_to_idle`: the only way back to IDLE is `reset_state` after the result code has been
    flushed, and it clears the CR flag, the processed command and the request type — so a line
    starts from the same parser state whatever came before (`C20_idle_state`);
  * `C20_idle_ignores_cr_lf`: in IDLE, CR and LF are consumed without any effect (blank lines; a CR
    before the first character does not count);
  * `C20_cr_recorded`: in every other reading state a CR sets the CR flag and changes nothing else;
  * `C20_newline_choice`: every newline of a unit is chosen whole from the CR flag at the moment it
    starts: CRLF iff the flag is set (`get_new_line_chars`), both for the leading and the trailing one;
  * `C20_scratch_rewritten`: the first character of a command line (`T` after `A`) re-initialises
    the match bits, index, length and request type; the search cursor is re-initialised before
    every search.
  * `C20_setters_generated` (translator item T7): the functions through which the per-line fields
    are (re)written — `reset_state`, `prepare_parse_command`, `prepare_search_command`,
    `start_flush_io_buffer`, `start_flush_io_buffer_raw`, `enable_hold_state` and the unsolicited
    machine's two — are, in the model, the record updates regenerated from the assignment
    statements of `src/cat.c` on every run.
  * `C20_framing_generated` (translator item T8): the six state functions that read a byte and
    dispatch on it are the text regenerated from their `switch (self->current_char)` statements.
-/
import CatVerif.Proofs.Quiesce
namespace Cat
open St

/-- the result of `reset_state` outside a hold -/
theorem C20_back_to_idle (D : Desc) (s : St) (i : SvcIn) (hs : s.state = .afterFlushReset) (hh : s.holdFlag = false) :
    let s' := (commandService D s i).1
    s'.state = .idle ∧ s'.crFlag = false ∧ s'.cmd = none ∧ s'.cmdType = .none := by
  simp [commandService, hs, resetState, hh]

/-- IDLE is entered only by that step: from any other state, reaching IDLE means the step was
`reset_state` -/
theorem C20_idle_state (D : Desc) (s : St) (i : SvcIn) (h : (commandService D s i).1.state = .idle) :
    s.state = .idle ∨ s.state = .afterFlushReset := by
  unfold commandService at h
  split at h <;> rename_i hs
  · have := graph_error D s i; simp [h, hs] at this
  · exact Or.inl hs
  · have := graph_prefix D s i; simp [h, hs] at this
  · have := graph_parseCommand D s i; simp [h, hs] at this
  · have := graph_update D s; simp [h, hs] at this
  · have := graph_waitRead s i; simp [h, hs] at this
  · have := graph_search D s; simp [h, hs] at this
  · have := graph_found D s; simp [h] at this
  · simp [commandNotFound] at h
  · have := graph_args D s i; simp [h, hs] at this
  · have := graph_writeArgs D s i; simp [h, hs] at this
  · have := graph_formatRead D s i; simp [h, hs] at this
  · have := graph_waitTest D s i; simp [h, hs] at this
  · have := graph_formatTest D s; simp [h, hs] at this
  · have := graph_writeLoop D s i; simp [h, hs] at this
  · have := graph_readLoop D s i; simp [h, hs, loopSucc] at this
  · have := graph_testLoop D s i; simp [h, hs, loopSucc] at this
  · have := graph_runLoop D s i; simp [h, hs] at this
  · have := graph_hold D s; simp [h, hs] at this
  · have := graph_wait s; simp [hs] at this; split at this <;> simp_all
  · have := graph_write D s i
    simp [hs] at this
    rcases this with g | g
    · simp [g] at h
    · rw [g] at h; revert h; cases s.writeStateAfter <;> simp [After.toC]
  · exact Or.inr hs
  · simp at h
  · have := startFormatRead_cmd_state D s; simp at h; simp [h] at this
  · have := startFormatTest_cmd_state D s; simp at h; simp [h] at this
  · have := graph_printCmd D s; simp at h; simp [h, hs] at this

/-- in IDLE a CR or LF is swallowed: the state is exactly as before (only the read is logged) -/
theorem C20_idle_ignores_cr_lf (D : Desc) (s : St) (i : SvcIn) (hs : s.state = .idle) (b : Byte)
    (hb : b = 13 ∨ b = 10) (hi : i.rd = some b) :
    (commandService D s i).1 = { s with currentChar := b, log := s.log ++ [.rd (some b)] } := by
  rcases hb with rfl | rfl <;>
    simp [commandService, hs, processIdleState, readCmdChar, hi, St.emit, toUpper, Gen.to_upper, sc, uc]

/-- in the other reading states a CR only sets the CR flag -/
theorem C20_cr_recorded (D : Desc) (s : St) (i : SvcIn) (hi : i.rd = some 13)
    (hs : s.state = .parsePrefix ∨ s.state = .parseCommandChar ∨ s.state = .waitReadAck ∨ s.state = .parseCommandArgs ∨
          s.state = .waitTestAck ∨ s.state = .error)
    (hc : s.state = .parseCommandArgs → s.cmd.isSome = true) :
    (commandService D s i).1 = { s with currentChar := 13, crFlag := true, log := s.log ++ [.rd (some 13)] } := by
  have u : toUpper 13 = 13 := by decide
  rcases hs with h | h | h | h | h | h <;>
    simp [commandService, h, parsePrefix, parseCommand, waitReadAcknowledge, parseCommandArgs, waitTestAcknowledge, errorState,
      readCmdChar, hi, St.emit, u, St.chkUb]
  simp [hc h]

/-- a unit's newlines: CRLF iff the CR flag is set when the newline starts -/
theorem C20_newline_choice (s : St) (f : Fsm) (a : After) :
    nlStr s = (if s.crFlag then [13, 10] else [10]) ∧
    (match f with
     | .cmd => (startFlush s f a).writeSrc = .nl (if s.crFlag then 0 else 1)
     | .uns => (startFlush s f a).uwriteSrc = .nl (if s.crFlag then 0 else 1)) := by
  cases f <;> simp [nlStr, startFlush, nlOff]

/-- the bytes a newline source yields: offset 0 = CR LF NUL, offset 1 = LF NUL -/
theorem C20_newline_bytes (D : Desc) (s : St) :
    (s.writeSrc = .nl 0 → s.position = 0 → (writeByte D s .cmd).1 = 13) ∧
    (s.writeSrc = .nl 0 → s.position = 1 → (writeByte D s .cmd).1 = 10) ∧
    (s.writeSrc = .nl 0 → s.position = 2 → (writeByte D s .cmd).1 = 0) ∧
    (s.writeSrc = .nl 1 → s.position = 0 → (writeByte D s .cmd).1 = 10) ∧
    (s.writeSrc = .nl 1 → s.position = 1 → (writeByte D s .cmd).1 = 0) := by
  refine ⟨?_, ?_, ?_, ?_, ?_⟩ <;> intro h1 h2 <;> simp [writeByte, h1, h2]

/-- the scratch state of the previous line is overwritten at the start of the next -/
theorem C20_scratch_rewritten (D : Desc) (s : St) :
    (prepareParseCommand D s).index = 0 ∧ (prepareParseCommand D s).length = 0 ∧ (prepareParseCommand D s).cmdType = .run ∧
    (prepareSearchCommand s).index = 0 ∧ (prepareSearchCommand s).partialCntr = 0 ∧ (prepareSearchCommand s).cmd = none := by
  simp [prepareParseCommand, prepareSearchCommand]

end Cat
