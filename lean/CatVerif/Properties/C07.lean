/-
  C07 — READ output fed back as WRITE arguments restores every variable value.

  "Formatting and parsing are mutually inverse on the whole value range", proved for the model's
  printers (`decDigits`/`fmtInt` = `%u`/`%d`, `hexFixed` = `%0NX`, escaping) against its parsers:
  * `C07_uint`: for every n ≤ 2^64-1 the decimal text of n is accepted and yields n — in particular
    for every 8-, 16- and 32-bit unsigned value (`C07_uint_fits`: and it passes the range check of
    its own width);
  * `C07_int`: for every v with |v| ≤ 2^63-1 (every int8/16/32 incl. INT32_MIN) the `%d` text is
    accepted and yields sign and magnitude of v;
  * `C07_hex`: `0x` + fixed-width upper-case digits of n parse back to n (no sign extension: the
    value is printed from the unsigned reading of the variable);
  * `C07_bufhex`: the two-digits-per-byte text of any byte list decodes to that list;
  * `C07_string`: the escaped text of any NUL-free string un-escapes to that string (quotes,
    backslashes, LF, commas included).
  The agreement of the model's printers with the platform's `snprintf` and the whole READ→WRITE
  cycle through the buffer are covered by the correspondence run (exhaustive 8/16-bit values in
  the thorough tier) and the C07 twin-run oracle.
-/
import CatVerif.Proofs.RoundTrip
namespace Cat
open Spec

theorem C07_uint (n : Nat) (hn : n ≤ U64MAX) (rest : List Byte) (t : Byte) (ht : IsTerm t) :
    parseUIntDec (decDigits n ++ t :: rest) 0 false 0 =
      { ret := if t = 44 then 1 else 0, val := n, used := (decDigits n).length + 1 } :=
  rt_uint n hn rest t ht

/-- the printed text of a value of the variable's own width is in the grammar and in range -/
theorem C07_uint_fits (size n : Nat) (hs : size = 1 ∨ size = 2 ∨ size = 4) (hn : n < 2 ^ (8 * size)) :
    IsUIntText (decDigits n) ∧ fitsU size (decValue (decDigits n)) := by
  have ⟨h1, h2, h3⟩ := decDigits_spec n
  exact ⟨⟨h2, h1⟩, hs, by rw [h3]; exact hn⟩

theorem C07_int (v : Int) (hv : v.natAbs ≤ I64MAX) (rest : List Byte) (t : Byte) (ht : IsTerm t) :
    parseIntDec (fmtInt v ++ t :: rest) 0 0 false 0 =
      { ret := if t = 44 then 1 else 0, val := v.natAbs, neg := decide (v < 0), used := (fmtInt v).length + 1 } :=
  rt_int v hv rest t ht

theorem C07_hex (w n : Nat) (hw : 0 < w) (hn : n ≤ U64MAX) (rest : List Byte) (t : Byte) (ht : IsTerm t) :
    parseNumHex (([48, 120] ++ hexFixed w n) ++ t :: rest) 0 0 0 =
      { ret := if t = 44 then 1 else 0, val := n, used := (hexFixed w n).length + 2 + 1 } :=
  rt_hex w n hw hn rest t ht

theorem C07_bufhex (bs : List Byte) (hb : ∀ b ∈ bs, b < 256) : hexPairs (bs.flatMap (hexFixed 2)) = some bs :=
  rt_bufhex bs hb

theorem C07_string (s : List Byte) (h0 : ∀ b ∈ s, b ≠ 0) : unescape (escape s) = some s :=
  rt_string s h0

/-- the signed reading of a stored pattern and its re-encoding are inverse (two's complement), so the
value printed by `%d` for a stored int8/16/32 and stored back is the same bit pattern -/
theorem C07_signed_pattern (bits raw : Nat) (hb : bits = 8 ∨ bits = 16 ∨ bits = 32) (hr : raw < 2 ^ bits) :
    ofSigned bits (toSigned bits raw) = raw := by
  unfold ofSigned toSigned
  rcases hb with rfl | rfl | rfl <;> simp at hr ⊢ <;> split <;> omega

/-- non-vacuity: INT32_MIN round-trips -/
example : fmtInt (-2147483648) = [45, 50, 49, 52, 55, 52, 56, 51, 54, 52, 56] := by
  simp [fmtInt, decDigits]

end Cat
