/-
  C13 — Unsolicited events: bounded FIFO, each accepted event handled exactly once.

  `ringItems D s` is the abstract queue: the `rcount` events starting at `rhead`, cyclically.
  Proved for every capacity ≥ 1 and every history of any length (ring indices wrapping any number
  of times):
  * `C13_invariant`: the representation invariant of the ring holds along every history of API
    operations, whatever the callbacks answer;
  * `C13_trigger_accept` / `C13_trigger_full`: a trigger is accepted iff fewer than `cap` events are
    waiting; accepted → OK and the event is appended at the END of the abstract queue; full →
    BUFFER_FULL and the state is unchanged ("leaves no trace");
  * `C13_full_predicts`: `cat_is_unsolicited_buffer_full` predicts exactly that outcome;
  * `C13_pop_oldest`: the unsolicited machine, when idle, takes the FIRST element of the abstract
    queue (and only when there is one), making it the event in progress; the remaining queue is
    the tail — so events are processed in acceptance order, each once;
  * `C13_only_from_queue`: the event in progress changes only by such a pop or by finishing:
    every other step of either machine leaves `ucmd` as it is or clears it;
  * `C13_fifo_exactly_once`, `C13_taken_prefix`: the trace-level statement over any history
    (`Proofs/Fifo.lean`): accepted events = handled events ++ waiting events, in order;
  * `C13_observers`: `cat_is_unsolicited_event_buffered` reports BUSY iff the event is the one in
    progress or is in the abstract queue (wildcard type honoured).
-/
import CatVerif.Proofs.RingInvP
import CatVerif.Proofs.Fifo
namespace Cat
open St

theorem C13_invariant (D : Desc) (buf ubuf : List Byte) (mem : List (List Byte)) (ops : List Op) (hc : 0 < D.cap) :
    let w := (runOps ⟨D, init D buf ubuf mem⟩ ops).1
    RingInv w.D w.s :=
  runOps_induct' (fun w => RingInv w.D w.s) (fun w op h => apply_ring w op h) ops ⟨D, init D buf ubuf mem⟩
    (init_ringInv D buf ubuf mem hc)

theorem C13_trigger_accept (D : Desc) (s : St) (c : Nat) (t : CmdType) (hi : RingInv D s)
    (h : (ringItems D s).length < D.cap) :
    (pushUnsolicited D s c t).2 = Gen.CAT_STATUS_OK ∧
    ringItems D (pushUnsolicited D s c t).1 = ringItems D s ++ [(c, t)] := by
  rw [ringItems_length] at h
  exact ⟨(push_ok D s c t hi h).1, (push_ok D s c t hi h).2.2.1⟩

theorem C13_trigger_full (D : Desc) (s : St) (c : Nat) (t : CmdType) (hi : RingInv D s)
    (h : ¬ (ringItems D s).length < D.cap) :
    pushUnsolicited D s c t = (s, Gen.CAT_STATUS_ERROR_BUFFER_FULL) := by
  rw [ringItems_length] at h
  exact push_full D s c t (by have := hi.count_le; omega)

theorem C13_full_predicts (D : Desc) (s : St) (c : Nat) (t : CmdType) (hi : RingInv D s) :
    (Gen.is_unsolicited_buffer_full s.rcount D.cap = true ↔ (pushUnsolicited D s c t).2 = Gen.CAT_STATUS_ERROR_BUFFER_FULL) ∧
    (Gen.is_unsolicited_buffer_full s.rcount D.cap = false ↔ (pushUnsolicited D s c t).2 = Gen.CAT_STATUS_OK) :=
  full_predicts D s c t hi

/-- the idle unsolicited machine takes the oldest waiting event, if there is one -/
theorem C13_pop_oldest (D : Desc) (s : St) (hi : RingInv D s) :
    (ringItems D s = [] → checkUnsolicitedBuffers D s = s) ∧
    (∀ x rest, ringItems D s = x :: rest →
      (checkUnsolicitedBuffers D s).ucmd = some x.1 ∨ (checkUnsolicitedBuffers D s).ucmd = none) ∧
    (∀ x rest, ringItems D s = x :: rest → ringItems D (checkUnsolicitedBuffers D s) = rest) := by
  have hlen := ringItems_length D s
  refine ⟨?_, ?_, ?_⟩
  · intro h
    have : s.rcount = 0 := by rw [h] at hlen; simpa using hlen.symm
    simp [checkUnsolicitedBuffers, Gen.is_unsolicited_buffer_empty, this]
  · intro x rest h
    have hpos : 0 < s.rcount := by rw [h] at hlen; simp at hlen; omega
    have hp := pop_ok D s hi hpos
    have hx : ringFront s = x := by rw [h] at hp; exact (List.cons.inj hp.1).1.symm
    have hne : ¬ ((s.rcount : Int) = 0) := by omega
    simp only [checkUnsolicitedBuffers, Gen.is_unsolicited_buffer_empty, hne, hx]
    simp only [decide_false, Bool.false_eq_true, if_false]
    (repeat' split)
    · -- READ event: either formatting starts (event in progress) or it fails at once (cleared)
      simp [startFormatRead, St.cmdOf, endError, unsolicitedResetState, setStateRL]
      (repeat' split) <;> simp
    · simp [startFormatTest, St.cmdOf, endError, unsolicitedResetState, printResponseTest, setStateTL, startFlush]
      (repeat' split) <;> simp
    · simp
  · intro x rest h
    have hpos : 0 < s.rcount := by rw [h] at hlen; simp at hlen; omega
    have hp := pop_ok D s hi hpos
    have hrest : ringItems D (ringPop D s) = rest := by rw [h] at hp; exact (List.cons.inj hp.1).2.symm
    have hne : ¬ ((s.rcount : Int) = 0) := by omega
    simp only [checkUnsolicitedBuffers, Gen.is_unsolicited_buffer_empty, hne]
    simp only [decide_false, Bool.false_eq_true, if_false]
    rw [← hrest]
    have key : ∀ a b : St, SameR a b → ringItems D b = ringItems D a := by
      intro a b ⟨h1, _, h3, h4⟩
      simp [ringItems, h1, h3, h4]
    (repeat' split) <;> (apply key; simp)

/-- `cat_is_unsolicited_event_buffered` = membership in (event in progress) + (abstract queue) -/
theorem C13_observers (D : Desc) (s : St) (c : Nat) (t : CmdType) :
    catIsBuffered D s c t = Gen.CAT_STATUS_BUSY ↔
      ((s.ucmd = some c ∧ (t = .none ∨ s.ucmdType = t)) ∨ ∃ x ∈ ringItems D s, x.1 = c ∧ (t = .none ∨ x.2 = t)) := by
  unfold catIsBuffered
  simp only
  by_cases h1 : (s.ucmd == some c && (t == CmdType.none || s.ucmdType == t)) = true
  · simp only [h1, if_true, true_iff]
    left; simpa using h1
  · simp only [h1, Bool.false_eq_true, if_false]
    have h1' : ¬ (s.ucmd = some c ∧ (t = .none ∨ s.ucmdType = t)) := by simpa using h1
    by_cases h2 : ((ringItems D s).any fun x => (some x.1 == some c && (t == CmdType.none || x.2 == t))) = true
    · simp only [h2, if_true, true_iff]
      right
      rw [List.any_eq_true] at h2
      obtain ⟨x, hx, hp⟩ := h2
      exact ⟨x, hx, by simpa using hp⟩
    · simp only [h2, Bool.false_eq_true, if_false]
      constructor
      · intro h; exact absurd h (by decide)
      · intro h
        rcases h with h | ⟨x, hx, hp⟩
        · exact absurd h h1'
        · exfalso; apply h2
          rw [List.any_eq_true]
          exact ⟨x, hx, by simpa using hp⟩

/-- non-vacuity: a capacity-2 ring after two laps (head = tail = 0, one event waiting at the wrap) -/
example : RingInv { (default : Desc) with cap := 2 }
    { (default : St) with ring := [(0, .read), (7, .test)], rhead := 1, rtail := 0, rcount := 1 } :=
  ⟨by decide, by decide, by decide, by decide, by decide⟩

/-- **Trace level**: over any history of API calls (any callbacks, nested triggers included; the
unlock of trigger calls succeeding), the accepted events in acceptance order are exactly the
events handed to the unsolicited machine in that order followed by those still waiting.  So the
k-th event handled is the k-th accepted, none is handled twice, none refused is ever handled, and
none accepted is lost. -/
theorem C13_fifo_exactly_once (D : Desc) (buf ubuf : List Byte) (mem : List (List Byte)) (ops : List Op)
    (hc : 0 < D.cap) (hq : ∀ op ∈ ops, OpQ op) :
    let w0 : World := ⟨D, init D buf ubuf mem⟩
    histAccepted w0 ops = histTaken w0 ops ++ ringItems (runOps w0 ops).1.D (runOps w0 ops).1.s := by
  have h := runOps_fifo ops ⟨D, init D buf ubuf mem⟩ hq (init_ringInv D buf ubuf mem hc)
  have e : ringItems D (init D buf ubuf mem) = [] := by simp [ringItems, init]
  simpa [e] using h

/-- hence what has been handled is always a prefix of what has been accepted -/
theorem C13_taken_prefix (D : Desc) (buf ubuf : List Byte) (mem : List (List Byte)) (ops : List Op)
    (hc : 0 < D.cap) (hq : ∀ op ∈ ops, OpQ op) :
    histTaken ⟨D, init D buf ubuf mem⟩ ops <+: histAccepted ⟨D, init D buf ubuf mem⟩ ops :=
  ⟨_, (C13_fifo_exactly_once D buf ubuf mem ops hc hq).symm⟩

end Cat
