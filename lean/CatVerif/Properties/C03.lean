/-
  C03 — No out-of-bounds access or undefined behaviour for any input or descriptor.   PARTIAL.

  What the model can carry.  Every access the C code makes to the working buffer(s) or to a
  variable goes, in the model, through a checked accessor (`setB`/`getB`/`writeB`, `slotWrite`,
  `St.chk`, `St.chkUb`) which raises the ghost flag `oob` (outside the object) or `ub` (undefined
  operation) instead of performing it; the correspondence check compares these flags with what
  ASan/UBSan report for the compiled code on the same input, with buffers and variables
  allocated at exactly their declared sizes.  Proved here, for all inputs and descriptors:
  * `C03_geometry`: the two halves of a shared buffer are disjoint and inside the buffer;
  * `C03_store_confined`: a store faults exactly when its index is outside the acting machine's
    region, and then stores nothing;
  * `C03_cmd_machine_confined` / `C03_uns_machine_confined`: one whole step of the command machine
    leaves every byte outside the command region unchanged (the separate unsolicited buffer
    too); one whole step of the unsolicited machine leaves the command region unchanged —
    for every state, input byte, handler answer (HOLD included) and nested API call;
    `C03_service_confined`: hence `cat_service` as a whole changes the command region only through
    the command machine and the rest only through the unsolicited machine;
  * `C03_print_no_fault`: the three print primitives (the only writers of response text) never
    fault while the cursor is inside the region, keep it there, and refuse instead of
    truncating silently (C19_fits_or_fails);
  * `C03_ack_no_fault`: copying the result code is bounded by the command capacity;
  * `C03_args_no_fault`: collecting an argument byte never faults (C06_args_byte /
    C06_args_overflow decide stored-or-rejected);
  * `C03_var_store_exact`: a variable store of `n` bytes at `off` with `off + n ≤ size` changes
    exactly those bytes of exactly that variable and faults never; the decoders never present an
    index ≥ data_size (C05_never_beyond_hex, C05_never_beyond_string, C05_store_bound), the numeric
    stores write `data_size` bytes at 0 (C04).
  * `C03_no_undefined_operation` (`Proofs/NoUb.lean`, `Proofs/NoUbHist.lean`): along EVERY history of
    API calls from `cat_init` (any input, handler answers, nested API calls, flag changes; event
    handlers not answering HOLD) the `ub` flag stays false: the table cursor never leaves the table
    (`update_command`, `search_command`, command list), a command is selected wherever
    `self->cmd` / the event's command is dereferenced, the variable cursors stay inside the
    variable lists, and no print is attempted with the cursor beyond the capacity — for both
    machines.  The invariants behind it are `UbInv` / `UbInvU` (`C03_index_discipline`).
  * `C03_no_out_of_bounds` (`Proofs/NoOob.lean`, `Proofs/LenMem.lean`, `Proofs/NoOobHist.lean`): along EVERY
    history of API calls from `cat_init` the `oob` flag stays false too — every store into a working
    buffer lands inside the acting machine's region, the argument parsers stop at the NUL that ends
    the argument text, the output cursor never passes the NUL that ends a response (nor the
    "\r\n" literal), every variable access stays inside `data_size` bytes of storage that is at
    least that long, the match-state lanes of all commands lie inside the command region and the
    ring indices inside the ring.  Hypotheses, each of them a real precondition of the C code
    (the real code was run at the excluded points, DESIGN.md 2.3): `DescOk` — the lanes of all
    commands fit the command region (the `assert` of `cat_init`, read for the command half), the
    command region holds `ERROR` and its terminator (6 bytes), no hex-buffer variable has
    `data_size = 0`; `MemOk` — each variable's storage really is `data_size` bytes long; the working
    buffer really is `buf_size` long; the ring capacity is positive; event handlers do not answer
    HOLD.  The invariants behind it: `OobF` (where each machine's text ends, by phase), `OobA` (the
    argument text), `RingInv`, `UbInv`/`UbInvU`, slot lengths (`LenE`).
  What remains outside Lean: nothing here is about the compiled code's actual accesses — that the
  C code performs the accesses the model performs (and no others) is what the
  sanitizer-instrumented correspondence run samples.  Hence PARTIAL.
-/
import CatVerif.Proofs.NoFault
import CatVerif.Proofs.NoUbHist
import CatVerif.Proofs.NoOobHist
import CatVerif.Properties.C06
namespace Cat
open St

theorem C03_geometry (D : Desc) (h : D.unsBuf.isSome = false) :
    D.unsBase = D.cmdCap ∧ D.cmdCap + D.unsCap ≤ D.bufSize := by
  refine ⟨unsBase_eq_cmdCap D h, ?_⟩
  simp only [Desc.cmdCap, Desc.unsCap, Gen.get_atcmd_buf_size, Gen.get_unsolicited_buf_size, h]
  simp
  omega

theorem C03_store_confined (D : Desc) (s : St) (f : Fsm) (i : Nat) (v : Byte) :
    (i < D.capOf f → SameFault s (setB D s f i v)) ∧
    (¬ i < D.capOf f → (setB D s f i v).oob = true ∧ (setB D s f i v).buf = s.buf ∧ (setB D s f i v).ubuf = s.ubuf) :=
  setB_fault D s f i v

theorem C03_cmd_machine_confined (D : Desc) (s : St) (i : SvcIn) :
    (commandService D s i).1.ubuf = s.ubuf ∧
    (commandService D s i).1.buf.drop D.cmdCap = s.buf.drop D.cmdCap ∧
    (commandService D s i).1.buf.length = s.buf.length :=
  commandService_keepsUR D s i

theorem C03_uns_machine_confined (D : Desc) (s : St) (i : SvcIn) :
    (unsolicitedEventsService D s i).1.buf.take D.cmdCap = s.buf.take D.cmdCap ∧
    (unsolicitedEventsService D s i).1.buf.length = s.buf.length ∧
    (unsolicitedEventsService D s i).1.ubuf.length = s.ubuf.length :=
  unsolicitedEventsService_keepsCR D s i

/-- `cat_service`'s body: the command region after the call is what the command machine made of
it, everything else is what the unsolicited machine made of it -/
theorem C03_service_confined (D : Desc) (s : St) (i : SvcIn) :
    let u := (unsolicitedEventsService D s i).1
    (serviceBody D s i).1.buf.drop D.cmdCap = u.buf.drop D.cmdCap ∧ (serviceBody D s i).1.ubuf = u.ubuf ∧
    u.buf.take D.cmdCap = s.buf.take D.cmdCap ∧ (serviceBody D s i).1.buf.length = s.buf.length := by
  have a := unsolicitedEventsService_keepsCR D s i
  have b := commandService_keepsUR D (unsolicitedEventsService D s i).1 i
  unfold serviceBody
  exact ⟨b.2.1, b.1, a.1, b.2.2.trans a.2.1⟩

theorem C03_print_no_fault (D : Desc) (s : St) (f : Fsm) (hp : s.pos f ≤ D.capOf f) :
    (∀ x, SameFault s (printN D s f x).1 ∧ (printN D s f x).1.pos f ≤ D.capOf f) ∧
    (∀ x, SameFault s (printFmt D s f x).1 ∧ (printFmt D s f x).1.pos f ≤ D.capOf f) ∧
    (∀ xs, SameFault s (printAll D s f xs).1 ∧ (printAll D s f xs).1.pos f ≤ D.capOf f) :=
  ⟨fun x => printN_nofault D s f x hp, fun x => printFmt_nofault D s f x hp, fun xs => printAll_nofault D f xs s hp⟩

theorem C03_ack_no_fault (D : Desc) (s : St) :
    SameFault s (ackOk D s) ∧ SameFault s (ackError D s) := by
  have h : ∀ str : List Byte, SameFault s (strncpyC D s str) := by
    intro str
    unfold strncpyC
    exact writeB_nofault D .cmd _ s 0 (by
      simp only [List.length_append, List.length_take, List.length_replicate, Desc.capOf]; omega)
  constructor
  · have := h [79, 75]; simp_all [ackOk, startFlush, St.emit]
  · have := h [69, 82, 82, 79, 82]; simp_all [ackError, startFlush, St.emit]

theorem C03_args_no_fault (D : Desc) (s : St) (i : SvcIn) (b : Byte)
    (hs : s.state = .parseCommandArgs) (hr : i.rd = some b) (h10 : b ≠ 10) (h13 : b ≠ 13)
    (hq : isTestMark D s b = false) (hc : s.cmd.isSome) :
    SameFault s (commandService D s i).1 := by
  obtain ⟨t, t1, t2, t3, t4, t5, t6, t7, t8, t9, e⟩ := parseCommandArgs_got D s i b hs hr
  have t9' := t9 hc
  rw [e]
  simp only [h10, h13, hq, beq_iff_eq, if_false, Bool.false_eq_true]
  split
  · simp [t8, t9']
  · rename_i hge
    have h1 : t.length < D.capOf .cmd := by show t.length < D.cmdCap; omega
    have a := (setB_fault D t .cmd t.length b).1 h1
    split
    · rename_i hlt
      have h2 : t.length + 1 < D.capOf .cmd := hlt
      have c := (setB_fault D ({ setB D t .cmd t.length b with length := t.length + 1 }) .cmd (t.length + 1) 0).1 h2
      simp_all
    · simp_all


theorem C03_var_store_exact (slot : Nat) (bs : List Byte) (s : St) (off : Nat)
    (h : off + bs.length ≤ (s.slotGet slot).length) :
    (slotWrite s slot off bs).slotGet slot = (s.slotGet slot).take off ++ bs ++ (s.slotGet slot).drop (off + bs.length) ∧
    (slotWrite s slot off bs).oob = s.oob ∧ (slotWrite s slot off bs).ub = s.ub ∧
    (∀ k, k ≠ slot → (slotWrite s slot off bs).slotGet k = s.slotGet k) ∧
    (slotWrite s slot off bs).mem.length = s.mem.length :=
  slotWrite_spec slot bs s off h

/-- the state `cat_init` leaves behind satisfies both index disciplines -/
theorem C03_init_discipline (D : Desc) (buf ubuf : List Byte) (mem : List (List Byte)) : UbAll D (init D buf ubuf mem) :=
  ⟨⟨by simp [init], by simp [init], by simp [NeedsCmd, init], by simp [init], by simp [init]⟩,
   ⟨by simp [NeedsUCmd, init], by simp [init], by simp [init]⟩⟩

/-- **No undefined operation along any history.** -/
theorem C03_no_undefined_operation (D : Desc) (buf ubuf : List Byte) (mem : List (List Byte)) (ops : List Op)
    (hok : ∀ op ∈ ops, OpOk op) (hn : 0 < D.commandsNum) :
    (runOps ⟨D, init D buf ubuf mem⟩ ops).1.s.ub = false := by
  have := (runOps_noUb ops ⟨D, init D buf ubuf mem⟩ hok hn (C03_init_discipline D buf ubuf mem)).1
  rw [this]; rfl

/-- the index disciplines hold in every reachable state -/
theorem C03_index_discipline (D : Desc) (buf ubuf : List Byte) (mem : List (List Byte)) (ops : List Op)
    (hok : ∀ op ∈ ops, OpOk op) (hn : 0 < D.commandsNum) :
    UbAll (runOps ⟨D, init D buf ubuf mem⟩ ops).1.D (runOps ⟨D, init D buf ubuf mem⟩ ops).1.s :=
  (runOps_noUb ops ⟨D, init D buf ubuf mem⟩ hok hn (C03_init_discipline D buf ubuf mem)).2

/-- the state `cat_init` leaves behind satisfies every invariant of the out-of-bounds proof -/
theorem C03_init_good (D : Desc) (buf ubuf : List Byte) (mem : List (List Byte))
    (hn : 0 < D.commandsNum) (hc : 0 < D.cap) (hd : DescOk D) (hb : D.cmdCap ≤ buf.length)
    (hm : ∀ id, ∀ v ∈ (D.cmdD id).vars.getD [], v.dataSize ≤ (mem.getD v.slot []).length) :
    Good ⟨D, init D buf ubuf mem⟩ := by
  refine ⟨hn, ⟨hd, ?_, init_ringInv D buf ubuf mem hc, ?_⟩, C03_init_discipline D buf ubuf mem, ⟨.other ?_, .other ?_ ?_, .other ?_⟩⟩
  · intro id v hv; simpa [init, St.slotGet] using hm id v hv
  · simpa [BufOk, init] using hb
  · simp [init, St.ph, CState.ph]
  · simp [init]
  · simp [init]
  · simp [init, St.ph, UState.ph]

/-- **No out-of-bounds access along any history**: whatever bytes arrive, whatever the handlers and
variable callbacks answer (event handlers not answering HOLD), whatever API calls are made from
inside callbacks or between service calls, and however the flags and variable contents are changed
in between, the model never touches a byte outside the region, variable, literal or ring it is
working on. -/
theorem C03_no_out_of_bounds (D : Desc) (buf ubuf : List Byte) (mem : List (List Byte)) (ops : List Op)
    (hok : ∀ op ∈ ops, OpOk op) (hn : 0 < D.commandsNum) (hc : 0 < D.cap) (hd : DescOk D) (hb : D.cmdCap ≤ buf.length)
    (hm : ∀ id, ∀ v ∈ (D.cmdD id).vars.getD [], v.dataSize ≤ (mem.getD v.slot []).length) :
    (runOps ⟨D, init D buf ubuf mem⟩ ops).1.s.oob = false := by
  have := (runOps_noOob ops ⟨D, init D buf ubuf mem⟩ hok (C03_init_good D buf ubuf mem hn hc hd hb hm)).1
  rw [this]; rfl

/-- the invariants of the out-of-bounds proof hold in every reachable state: in particular every
response text and the argument text end in a NUL inside their region (`OobF`, `OobA`) -/
theorem C03_text_terminated (D : Desc) (buf ubuf : List Byte) (mem : List (List Byte)) (ops : List Op)
    (hok : ∀ op ∈ ops, OpOk op) (hn : 0 < D.commandsNum) (hc : 0 < D.cap) (hd : DescOk D) (hb : D.cmdCap ≤ buf.length)
    (hm : ∀ id, ∀ v ∈ (D.cmdD id).vars.getD [], v.dataSize ≤ (mem.getD v.slot []).length) :
    Good (runOps ⟨D, init D buf ubuf mem⟩ ops).1 :=
  (runOps_noOob ops ⟨D, init D buf ubuf mem⟩ hok (C03_init_good D buf ubuf mem hn hc hd hb hm)).2

/-- the hypotheses are satisfiable: one command with an 8-bit and a hex-buffer variable, a shared
16-byte working buffer (8 + 8), ring capacity 1 -/
def exCmd : CmdD :=
  ⟨[43, 88], none, true, true, false, false,
   some [⟨none, .intDec, 0, 1, .rw, false, false⟩, ⟨none, .bufHex, 1, 2, .rw, false, false⟩], false, false, false, false⟩

def exDesc : Desc := ⟨[⟨none, [exCmd], false⟩], [], 16, none, 1, false⟩

theorem exDesc_cmdD : ∀ id, (exDesc.cmdD id).vars.getD [] = [] ∨ id = some 0 := by
  intro id
  cases id with
  | none => left; rfl
  | some k =>
    cases k with
    | zero => right; rfl
    | succ n =>
      left
      simp [Desc.cmdD, Desc.cmd?, exDesc, Desc.commandsNum]
      rfl

example : Good ⟨exDesc, init exDesc (List.replicate 16 0) [] [[0], [0, 0]]⟩ := by
  refine C03_init_good exDesc _ _ _ (by decide) (by decide) ⟨by decide, by decide, ?_⟩ (by decide) ?_
  · intro id v hv
    rcases exDesc_cmdD id with h | h
    · rw [h] at hv; simp at hv
    · subst h
      simp [Desc.cmdD, Desc.cmd?, exDesc, exCmd, Desc.commandsNum, cmdByIndex] at hv
      rcases hv with hv | hv <;> subst hv <;> simp [VarOk]
  · intro id v hv
    rcases exDesc_cmdD id with h | h
    · rw [h] at hv; simp at hv
    · subst h
      simp [Desc.cmdD, Desc.cmd?, exDesc, exCmd, Desc.commandsNum, cmdByIndex] at hv
      rcases hv with hv | hv <;> subst hv <;> simp

end Cat
