/-
  C06 — Handlers see exactly the sent arguments; over-long lines are rejected, not cut.

  `ArgsInv D s args`: the command buffer holds exactly the bytes `args` in its first `s.length`
  positions, a NUL behind them, all inside the command region (`Proofs/Args.lean`).
  * `C06_args_start`: entering argument collection (`=` or implicit write) establishes `ArgsInv … []`;
  * `C06_args_byte`: every further byte other than LF / CR (and other than the `?` that makes a TEST
    request) is appended unchanged — no case folding, any byte value — as long as it and its
    terminator fit; `C06_args_overflow`: otherwise the line goes to the ERROR state: nothing is
    dropped silently;
  * `C06_args_cr`: CR bytes are skipped;
  * `C06_args_lf`: LF ends collection without touching text or length: the line is handed to the
    variable parser or the write handler, or refused with ERROR;
  * `C06_parse_keeps_args`: parsing variables changes neither the text nor its length;
  * `C06_write_handler`: the write handler receives exactly `args`, NUL-terminated, its length,
    and the number of variables parsed (`s.index`);
  * `C06_error_state_inert`: in the ERROR state (where an over-long line ends up) no handler and no
    variable callback runs and no variable is stored, until the line's LF is answered with ERROR;
  * `C06_read_handler`, `C06_test_handler` (both machines): the handler receives the C string at
    the start of its own region, `position` as length and the capacity of that region;
    `C06_print_terminates`: a successful print leaves `position` on a NUL inside the region.
-/
import CatVerif.Proofs.Args
import CatVerif.Properties.C02
import CatVerif.Proofs.Text
import CatVerif.Proofs.TextF
namespace Cat
open St

theorem C06_args_start (D : Desc) (s : St) (i : SvcIn) (hs : s.state = .commandFound) (ht : s.cmdType = .write)
    (h0 : 0 < D.cmdCap) (hc : D.cmdCap ≤ s.buf.length) :
    ArgsInv D (commandService D s i).1 [] ∧ (commandService D s i).1.state = .parseCommandArgs ∧
    (commandService D s i).1.cmd = s.cmd := by
  unfold commandService commandFound ArgsInv
  have : 0 < D.capOf .cmd := h0
  simp only [hs]
  have ht' : (s.chkUb s.cmd.isSome).cmdType = .write := by simp [ht]
  simp only [ht']
  simp [setB, this]
  exact ArgsOk.empty h0 hc

/-- the `?` that turns a WRITE into a TEST request (`C02_suffix_test`) -/
def isTestMark (D : Desc) (s : St) (b : Byte) : Bool :=
  s.length == 0 && b == 63 && ((D.cmdD s.cmd).hasTest || ((D.cmdD s.cmd).vars.isSome && (D.cmdD s.cmd).varNum > 0))
    && (D.cmdD s.cmd).implicitWrite == false

/-- the byte read during argument collection is taken as it is -/
theorem readArgs_eq (s : St) (i : SvcIn) (b : Byte) (hs : s.state = .parseCommandArgs) (hr : i.rd = some b) :
    readCmdChar s i = ({ s.emit (.rd (some b)) with currentChar := b }, true) := by
  unfold readCmdChar; simp [hr, St.emit, hs]

/-- `parse_command_args` after the byte has been read, in terms of a state `t` that agrees with
`s` on everything the function looks at -/
theorem parseCommandArgs_got (D : Desc) (s : St) (i : SvcIn) (b : Byte) (hs : s.state = .parseCommandArgs) (hr : i.rd = some b) :
    ∃ t : St, t.buf = s.buf ∧ t.length = s.length ∧ t.cmd = s.cmd ∧ t.cmdType = s.cmdType ∧ t.state = s.state ∧
      t.currentChar = b ∧ t.index = s.index ∧ t.oob = s.oob ∧ (s.cmd.isSome → t.ub = s.ub) ∧
      (commandService D s i).1 =
        (if b == 10 then
          if (D.cmdD t.cmd).onlyTest then ackError D t
          else if varsAccessible (D.cmdD t.cmd) .wo then
            if strlenOf (region D t .cmd 0) != t.length then ackError D t
            else { t with state := .parseWriteArgs, position := 0, index := 0 }
          else if !(D.cmdD t.cmd).hasWrite then ackError D t
          else { t with index := 0, state := .writeLoop }
        else if b == 13 then { t with crFlag := true }
        else if isTestMark D s b then { t with cmdType := .test, state := .waitTestAck }
        else if t.length ≥ D.cmdCap then { t with state := .error }
        else
          let t1 := { setB D t .cmd t.length b with length := t.length + 1 }
          if t1.length < D.cmdCap then setB D t1 .cmd t1.length 0 else { t1 with state := .error }) := by
  refine ⟨({ s.emit (.rd (some b)) with currentChar := b } : St).chkUb s.cmd.isSome, by simp [St.emit], by simp [St.emit],
    by simp [St.emit], by simp [St.emit], by simp [St.emit], by simp [St.emit], by simp [St.emit],
    (by simp [St.emit, St.chkUb]; split <;> rfl), (by intro h; simp [St.emit, St.chkUb, h]), ?_⟩
  unfold commandService
  simp only [hs]
  unfold parseCommandArgs
  rw [readArgs_eq s i b hs hr]
  simp [isTestMark, St.emit]

theorem C06_args_byte (D : Desc) (s : St) (i : SvcIn) (args : List Byte) (b : Byte)
    (hs : s.state = .parseCommandArgs) (hr : i.rd = some b) (h10 : b ≠ 10) (h13 : b ≠ 13)
    (hq : isTestMark D s b = false) (hinv : ArgsInv D s args) (hroom : s.length + 1 < D.cmdCap) :
    let s' := (commandService D s i).1
    ArgsInv D s' (args ++ [b]) ∧ s'.state = .parseCommandArgs ∧ s'.cmd = s.cmd ∧ s'.cmdType = s.cmdType := by
  obtain ⟨t, t1, t2, t3, t4, t5, t6, t7, _, _, e⟩ := parseCommandArgs_got D s i b hs hr
  have h1 : s.length < D.capOf .cmd := by show s.length < D.cmdCap; omega
  have h2 : s.length + 1 < D.capOf .cmd := hroom
  have hge : ¬ D.cmdCap ≤ s.length := by omega
  simp only [e, ArgsInv]
  simp [h10, h13, hq, hge, hroom, setB, h1, h2, t1, t2, t3, t4, t5, hs]
  exact ArgsOk.push hinv b hroom

theorem C06_args_overflow (D : Desc) (s : St) (i : SvcIn) (b : Byte)
    (hs : s.state = .parseCommandArgs) (hr : i.rd = some b) (h10 : b ≠ 10) (h13 : b ≠ 13)
    (hq : isTestMark D s b = false) (hroom : ¬ s.length + 1 < D.cmdCap) :
    (commandService D s i).1.state = .error := by
  obtain ⟨t, t1, t2, t3, t4, t5, t6, t7, _, _, e⟩ := parseCommandArgs_got D s i b hs hr
  simp only [e]
  simp [h10, h13, hq, t2, hroom]
  split <;> rfl

theorem C06_args_cr (D : Desc) (s : St) (i : SvcIn) (args : List Byte)
    (hs : s.state = .parseCommandArgs) (hr : i.rd = some 13) (hinv : ArgsInv D s args) :
    ArgsInv D (commandService D s i).1 args ∧ (commandService D s i).1.state = .parseCommandArgs ∧
    (commandService D s i).1.cmd = s.cmd := by
  obtain ⟨t, t1, t2, t3, t4, t5, t6, t7, _, _, e⟩ := parseCommandArgs_got D s i 13 hs hr
  simp only [e, ArgsInv]
  simp [t1, t2, t3, t5, hs]
  exact hinv

theorem C06_args_lf (D : Desc) (s : St) (i : SvcIn) (args : List Byte)
    (hs : s.state = .parseCommandArgs) (hr : i.rd = some 10) (hinv : ArgsInv D s args) :
    let s' := (commandService D s i).1
    (∃ t, s' = ackError D t) ∨
    (ArgsInv D s' args ∧ s'.cmd = s.cmd ∧ s'.index = 0 ∧ (s'.state = .parseWriteArgs ∨ s'.state = .writeLoop)) := by
  obtain ⟨t, t1, t2, t3, t4, t5, t6, t7, _, _, e⟩ := parseCommandArgs_got D s i 10 hs hr
  have hi : ArgsInv D t args := by unfold ArgsInv; rw [t1, t2]; exact hinv
  simp only [e]
  simp only [beq_self_eq_true, if_true]
  (repeat' split)
  · exact Or.inl ⟨_, rfl⟩
  · exact Or.inl ⟨_, rfl⟩
  · exact Or.inr ⟨hi, t3, rfl, Or.inl rfl⟩
  · exact Or.inl ⟨_, rfl⟩
  · exact Or.inr ⟨hi, t3, rfl, Or.inr rfl⟩

/-- one call of `parse_write_args` either answers the line or leaves the argument text, its length
and the selected command as they are; the variable counter grows by one -/
theorem C06_parse_keeps_args (D : Desc) (s : St) (i : SvcIn) (args : List Byte)
    (hs : s.state = .parseWriteArgs) (hinv : ArgsInv D s args) :
    let s' := (commandService D s i).1
    (∃ t, s' = ackError D t ∨ s' = ackOk D t) ∨
    (ArgsInv D s' args ∧ s'.cmd = s.cmd ∧ s'.index = s.index + 1 ∧ (s'.state = .parseWriteArgs ∨ s'.state = .writeLoop)) := by
  unfold commandService
  simp only [hs]
  unfold parseWriteArgs
  simp only
  generalize hs0 : (s.chkUb s.cmd.isSome).chkUb (decide ((s.chkUb s.cmd.isSome).index < (D.cmdD (s.chkUb s.cmd.isSome).cmd).varNum)) = s0
  have e0 : s0.buf = s.buf ∧ s0.length = s.length ∧ s0.cmd = s.cmd ∧ s0.index = s.index ∧ s0.state = s.state := by
    subst hs0; simp
  generalize hv : (D.cmdD (s.chkUb s.cmd.isSome).cmd).varAt s0.index = v
  have p := parseVarValue_buf D s0 v
  have ps : (parseVarValue D s0 v).1.state = s0.state := by
    have := parseVarValue_U D s0 v; unfold parseVarValue; simp only; (repeat' split) <;> simp_all
  generalize hp : parseVarValue D s0 v = r at p ps
  obtain ⟨s1, stat, ok⟩ := r
  simp only at p ps
  cases ok
  · exact Or.inl ⟨s1, Or.inl rfl⟩
  · simp only [Bool.not_true, Bool.false_eq_true, if_false]
    have q := varWriteCb_buf D s1 v i
    have qs : (varWriteCb D s1 v i).1.state = s1.state := by
      unfold varWriteCb; split
      · have := (applyNested_frame D .cmd false i.vc.acts (s1.emit (.varcb .cmd (s1.cmd.getD 0) s1.index true s1.writeSize i.vc.ret)))
        simp_all
      · rfl
    generalize hq : varWriteCb D s1 v i = r2 at q qs
    obtain ⟨s2, fail⟩ := r2
    simp only at q qs
    cases fail
    · simp only [Bool.false_eq_true, if_false]
      have hi : ArgsInv D s2 args := by
        unfold ArgsInv; rw [q.1, q.2.1, p.1, p.2.1, e0.1, e0.2.1]; exact hinv
      have hc : s2.cmd = s.cmd := by rw [q.2.2.1, p.2.2.1, e0.2.2.1]
      have hx : s2.index = s.index := by rw [q.2.2.2, p.2.2.2, e0.2.2.2.1]
      have hst : s2.state = .parseWriteArgs := by rw [qs, ps, e0.2.2.2.2, hs]
      (repeat' split)
      · exact Or.inr ⟨hi, hc, by simp [hx], Or.inl hst⟩
      · exact Or.inl ⟨_, Or.inl rfl⟩
      · exact Or.inl ⟨_, Or.inl rfl⟩
      · exact Or.inl ⟨_, Or.inr rfl⟩
      · exact Or.inr ⟨hi, hc, by simp [hx], Or.inr rfl⟩
    · exact Or.inl ⟨s2, Or.inl rfl⟩

/-- **The write handler receives exactly the collected bytes**: the text `args`, NUL-terminated
(`z = true`), its exact length, and the number of variables parsed -/
theorem C06_write_handler (D : Desc) (s : St) (i : SvcIn) (args : List Byte)
    (hs : s.state = .writeLoop) (hinv : ArgsInv D s args) :
    tr .cbC (commandService D s i).1.log =
      tr .cbC s.log ++ [.handler .cmd .write (s.cmd.getD 0) args true args.length s.index i.hc.ret] := by
  rw [C02_write_invokes D s i hs, hinv.handler_view.1, hinv.handler_view.2, ← hinv.len]

/-- the ERROR state is inert: whatever arrives, no handler or variable callback runs and no
variable is stored; the state is left only through the line's LF, which is answered with ERROR -/
theorem C06_error_state_inert (D : Desc) (s : St) (i : SvcIn) (hs : s.state = .error) :
    let s' := (commandService D s i).1
    tr .cbC s'.log = tr .cbC s.log ∧ tr .mem s'.log = tr .mem s.log ∧ s'.mem = s.mem ∧
    (s'.state = .error ∨ (∃ b, i.rd = some b ∧ toUpper b = 10 ∧ ∃ t, s' = ackError D t)) := by
  refine ⟨C02_no_handler_elsewhere D s i (by simp [hs]) (by simp [hs]) (by simp [hs]) (by simp [hs]) (by simp [hs]) (by simp [hs]), ?_, ?_, ?_⟩
  · unfold commandService; simp only [hs]
    exact errorState_quiet _ (by decide) (by decide) (by decide) D s i
  · unfold commandService; simp only [hs]
    cases hr : i.rd with
    | none => simp [errorState, readCmdChar, hr, St.emit]
    | some b => simp [errorState, readCmdChar, hr, St.emit, hs]; (repeat' split) <;> simp [ackError, startFlush, St.emit]
  · unfold commandService; simp only [hs]
    cases hr : i.rd with
    | none => simp [errorState, readCmdChar, hr, St.emit, hs]
    | some b =>
      simp [errorState, readCmdChar, hr, St.emit, hs]
      by_cases h10 : toUpper b = 10
      · right
        simp only [h10, if_true]
        exact ⟨trivial, _, rfl⟩
      · left; simp [h10]; split <;> simp

/-! ### read and test handlers -/

/-- the read handler of the command machine: the C string at the start of the command region,
`position` as its length, and the capacity of the command region -/
theorem C06_read_handler (D : Desc) (s : St) (i : SvcIn) (hs : s.state = .readLoop) :
    tr .cbC (commandService D s i).1.log =
      tr .cbC s.log ++ [.handler .cmd .read (s.cmd.getD 0) (cstr D s .cmd).1 (cstr D s .cmd).2 s.position D.cmdCap i.hc.ret] :=
  C02_read_invokes D s i hs

theorem C06_test_handler (D : Desc) (s : St) (i : SvcIn) (hs : s.state = .testLoop) :
    tr .cbC (commandService D s i).1.log =
      tr .cbC s.log ++ [.handler .cmd .test (s.cmd.getD 0) (cstr D s .cmd).1 (cstr D s .cmd).2 s.position D.cmdCap i.hc.ret] :=
  C02_test_invokes D s i hs

/-- the same for the unsolicited machine: its own region, its own position, its own capacity —
never the command half -/
theorem C06_read_handler_uns (D : Desc) (s : St) (i : SvcIn) (hs : s.ustate = .readLoop) :
    tr .cbU (unsolicitedEventsService D s i).1.log =
      tr .cbU s.log ++ [.handler .uns .read (s.ucmd.getD 0) (cstr D s .uns).1 (cstr D s .uns).2 s.uposition D.unsCap i.hu.ret] := by
  unfold unsolicitedEventsService processReadLoop
  simp only [hs]
  rw [doCalls_uns_quiet .cbU (by decide) D _ _ (readTable_uns_q _), applyNested_quiet .cbU (by decide) (by decide)]
  simp [St.emit, cls, St.cmdOf, St.pos, Desc.capOf, cstr, region]

theorem C06_test_handler_uns (D : Desc) (s : St) (i : SvcIn) (hs : s.ustate = .testLoop) :
    tr .cbU (unsolicitedEventsService D s i).1.log =
      tr .cbU s.log ++ [.handler .uns .test (s.ucmd.getD 0) (cstr D s .uns).1 (cstr D s .uns).2 s.uposition D.unsCap i.hu.ret] := by
  unfold unsolicitedEventsService processTestLoop
  simp only [hs]
  rw [doCalls_uns_quiet .cbU (by decide) D _ _ (testTable_uns_q _), applyNested_quiet .cbU (by decide) (by decide)]
  simp [St.emit, cls, St.cmdOf, St.pos, Desc.capOf, cstr, region]

/-- a successful print leaves `position` inside the region (so the terminator it stores is too) -/
theorem C06_print_terminates (D : Desc) (s : St) (f : Fsm) (x : List Byte) (h : (printN D s f x).2 = true) :
    (printN D s f x).1.pos f = s.pos f + x.length ∧ (printN D s f x).1.pos f < D.capOf f := by
  unfold printN at h ⊢
  simp only at h ⊢
  split at h
  · cases h
  · rename_i hlt
    rw [if_neg hlt]
    cases f <;> simp [St.pos, setB, St.setPos] at hlt ⊢ <;> (repeat' split) <;> simp_all <;> omega

/-! ### the premises are satisfiable -/

example : ArgsOk 4 [65, 0, 9, 9] 1 [65] := ⟨rfl, rfl, rfl, by decide, by decide⟩
example : ArgsOk 4 (([65, 0, 9, 9] : List Byte).set 1 66 |>.set 2 0) 2 ([65] ++ [66]) :=
  ArgsOk.push (cap := 4) (buf := [65, 0, 9, 9]) (n := 1) (args := [65]) ⟨rfl, rfl, rfl, by decide, by decide⟩ 66 (by decide)

/-- **exact text, first round, handler-only READ** (partial: commands whose variables are formatted first go through
`format_read_args`, where only "the cursor stands on a NUL inside the region" is proved): when READ of a command without
readable variables is started, the next call of the command machine invokes its read handler with exactly the command's
name followed by `=` as NUL-terminated text, `data_size` = its length, `max_data_size` = the capacity of the command region -/
theorem C06_first_read_text_partial (D : Desc) (s : St) (i : SvcIn) (hb : D.cmdCap ≤ s.buf.length) (hc : s.cmd.isSome = true)
    (hv : varsAccessible (D.cmdD s.cmd) .ro = false) (hr : (D.cmdD s.cmd).hasRead = true)
    (hfit : (D.cmdD s.cmd).name.length + 1 < D.cmdCap) (hn : ∀ b ∈ (D.cmdD s.cmd).name, b ≠ 0) :
    tr .cbC (commandService D (startFormatRead D s .cmd) i).1.log =
      tr .cbC (startFormatRead D s .cmd).log ++
        [.handler .cmd .read (s.cmd.getD 0) ((D.cmdD s.cmd).name ++ [61]) true ((D.cmdD s.cmd).name.length + 1) D.cmdCap i.hc.ret] := by
  obtain ⟨hst, htx, hcm, hbl⟩ := startFormatRead_text D s hb hc hv hr hfit
  have hnn : ∀ b ∈ (D.cmdD s.cmd).name ++ [61], b ≠ 0 := by
    intro b hb'
    rcases List.mem_append.1 hb' with h | h
    · exact hn b h
    · simp at h; subst h; decide
  have e := htx.cstr_eq hbl hnn
  rw [C06_read_handler D _ i hst, e.1, e.2, hcm]
  simp

/-- the printing primitive appends (both the text and its terminator), so the text under the cursor grows by exactly the
printed bytes -/
theorem C06_print_appends {D : Desc} {s : St} {t : List Byte} (x : List Byte) (hb : D.cmdCap ≤ s.buf.length) (h : PreC D s t)
    (ok : (printN D s .cmd x).2 = true) : TxtC D (printN D s .cmd x).1 (t ++ x) := (printN_txt x hb h ok).1

/-- the premises of `C06_first_read_text_partial` are satisfiable: a command `+R` with a read handler and no variables, a
16-byte shared buffer (command half 8 bytes), the command selected -/
def exReadCmd : CmdD := ⟨[43, 82], none, false, true, false, false, none, false, false, false, false⟩
def exReadDesc : Desc := ⟨[⟨none, [exReadCmd], false⟩], [], 16, none, 1, false⟩
example : exReadDesc.cmdCap ≤ (List.replicate 16 (165 : Byte)).length ∧
    varsAccessible (exReadDesc.cmdD (some 0)) .ro = false ∧ (exReadDesc.cmdD (some 0)).hasRead = true ∧
    (exReadDesc.cmdD (some 0)).name.length + 1 < exReadDesc.cmdCap ∧ (∀ b ∈ (exReadDesc.cmdD (some 0)).name, b ≠ 0) ∧
    (cstr exReadDesc (startFormatRead exReadDesc { ({} : St) with cmd := some 0, buf := List.replicate 16 165 } .cmd) .cmd)
      = ([43, 82, 61], true) := by decide

/-- **exact text, first round, TEST of a command without variables** (partial in the same sense): when TEST of a command with a
test handler and no variables is started, the next call invokes the test handler with exactly name ++ `=` (++ line break ++
description, when the command has one) as NUL-terminated text, its length and the capacity -/
theorem C06_first_test_text_partial (D : Desc) (s : St) (i : SvcIn) (hb : D.cmdCap ≤ s.buf.length) (hc : s.cmd.isSome = true)
    (hv : ((D.cmdD s.cmd).vars.isSome && decide ((D.cmdD s.cmd).varNum > 0)) = false) (ht : (D.cmdD s.cmd).hasTest = true)
    (hfit : (testText (D.cmdD s.cmd) (nlStr s)).length < D.cmdCap)
    (hn : ∀ b ∈ testText (D.cmdD s.cmd) (nlStr s), b ≠ 0) :
    tr .cbC (commandService D (startFormatTest D s .cmd) i).1.log =
      tr .cbC (startFormatTest D s .cmd).log ++
        [.handler .cmd .test (s.cmd.getD 0) (testText (D.cmdD s.cmd) (nlStr s)) true (testText (D.cmdD s.cmd) (nlStr s)).length
          D.cmdCap i.hc.ret] := by
  obtain ⟨hst, htx, hcm, hbl⟩ := startFormatTest_text D s hb hc hv ht hfit
  have e := htx.cstr_eq hbl hn
  rw [C06_test_handler D _ i hst, e.1, e.2, hcm]

/-- **exact text, first round, unsolicited READ event of a handler-only command** (partial in the same sense as
`C06_first_read_text_partial`): the read handler of the event's command is invoked with exactly name ++ `=` as NUL-terminated
text in the unsolicited machine's own region — its own buffer or its half of the shared one —, `data_size` = its length,
`max_data_size` = that region's capacity -/
theorem C06_first_read_text_uns_partial (D : Desc) (s : St) (i : SvcIn) (hb : BufLen D s .uns) (hc : s.ucmd.isSome = true)
    (hv : varsAccessible (D.cmdD s.ucmd) .ro = false) (hr : (D.cmdD s.ucmd).hasRead = true)
    (hfit : (D.cmdD s.ucmd).name.length + 1 < D.unsCap) (hn : ∀ b ∈ (D.cmdD s.ucmd).name, b ≠ 0) :
    tr .cbU (unsolicitedEventsService D (startFormatRead D s .uns) i).1.log =
      tr .cbU (startFormatRead D s .uns).log ++
        [.handler .uns .read (s.ucmd.getD 0) ((D.cmdD s.ucmd).name ++ [61]) true ((D.cmdD s.ucmd).name.length + 1) D.unsCap i.hu.ret] := by
  obtain ⟨htx, hcm, hbl, hst⟩ := startFormatRead_textF D s .uns hb hc hv hr hfit
  have hnn : ∀ b ∈ (D.cmdD s.ucmd).name ++ [61], b ≠ 0 := by
    intro b hb'
    rcases List.mem_append.1 hb' with h | h
    · exact hn b h
    · simp at h; subst h; decide
  have e := htx.cstr_eq hbl hnn
  simp only [St.cmdOf, St.pos] at e hcm
  rw [C06_read_handler_uns D _ i hst, e.1, e.2, hcm]
  simp

/-- **exact text, first round, unsolicited TEST event of a command without variables**: the test handler gets exactly
name ++ `=` (++ line break ++ description) in the unsolicited machine's own region, its length and that region's capacity -/
theorem C06_first_test_text_uns_partial (D : Desc) (s : St) (i : SvcIn) (hb : BufLen D s .uns) (hc : s.ucmd.isSome = true)
    (hv : ((D.cmdD s.ucmd).vars.isSome && decide ((D.cmdD s.ucmd).varNum > 0)) = false) (ht : (D.cmdD s.ucmd).hasTest = true)
    (hfit : (testText (D.cmdD s.ucmd) (nlStr s)).length < D.unsCap)
    (hn : ∀ b ∈ testText (D.cmdD s.ucmd) (nlStr s), b ≠ 0) :
    tr .cbU (unsolicitedEventsService D (startFormatTest D s .uns) i).1.log =
      tr .cbU (startFormatTest D s .uns).log ++
        [.handler .uns .test (s.ucmd.getD 0) (testText (D.cmdD s.ucmd) (nlStr s)) true (testText (D.cmdD s.ucmd) (nlStr s)).length
          D.unsCap i.hu.ret] := by
  obtain ⟨htx, hcm, hbl, hst⟩ := startFormatTest_textF D s .uns hb hc hv ht hfit
  have e := htx.cstr_eq hbl hn
  simp only [St.cmdOf, St.pos] at e hcm
  rw [C06_test_handler_uns D _ i hst, e.1, e.2, hcm]

end Cat
