/-
  C02 — The invoked handler is the one selected by name resolution and suffix.

  The statement is decomposed along the parser's phases; every theorem is about the model
  functions that the correspondence check ties to `src/cat.c`, and holds for every table
  (any number of commands and groups, any names, duplicates, enable flags), every typed name and
  every buffer content.

  * alphabet and case folding (`C02_case_fold`, `C02_alphabet`, `C02_read_folds`): all 256 bytes;
  * the 2-bit lanes (`C02_lane_write`): writing one command's match state changes that command's
    and no other's, for every pair of table positions and every stored byte;
  * `C02_init`: after `AT` every enabled entry is a candidate, every disabled one is not;
  * `C02_name_char`: a name character is folded, counted and hands over to the sweep;
    `C02_bad_char`: any other byte (except the suffix characters) sends the line to ERROR;
  * `C02_sweep`: one whole sweep of `update_command` turns "the table reflects `typed`" into "the
    table reflects `typed ++ [ch]`" (`Spec.lane`/`Spec.matchName`: 2 iff the folded name equals
    the typed name, 1 iff the typed name is a proper prefix; `C02_match_full`, `C02_match_partial`);
  * `C02_search`: the search loop ends in COMMAND_FOUND with the entry `Spec.resolve` selects and
    otherwise gives up (→ ERROR); `C02_selected`/`C02_rejected`/`C02_selected_unique` say what
    `Spec.resolve` selects: the first full match in registration order, else the only partial
    match; nothing when there is none or more than one;
  * request type from the suffix alone: `C02_suffix_none`, `C02_suffix_read`, `C02_suffix_write`,
    `C02_suffix_test`, `C02_implicit_write`; the search never changes it (`C02_search`);
  * `C02_dispatch`: COMMAND_FOUND leads to the loop of that type only; `C02_run_invokes`,
    `C02_read_invokes`, `C02_write_invokes`, `C02_test_invokes`: a loop step invokes exactly one
    handler, of its own type, of the selected command; `C02_no_handler_elsewhere`: no other state
    of the command machine invokes a command handler.
  * the phases composed (`Proofs/ResolveLine.lean`; `feed` drives the command machine from an input
    queue, one `cat_service` call at a time, a byte being taken exactly in the reading states):
    `C02_at_prefix` (IDLE, `AT` in either case → every enabled entry a candidate, type RUN),
    `C02_name_phase` (any name, any table: after ≤ |name|·(commandsNum+1) calls the table reflects
    the case-folded name — or the prefix at which an implicit-write command cut it short),
    `C02_line_resolves` (name + LF: after ≤ (|name|+1)·(commandsNum+1) calls the parser is in
    COMMAND_FOUND with exactly the entry `Spec.resolve` selects, type RUN, or has given up; or an
    implicit-write command took the prefix and the request is WRITE), `C02_request_resolves` (the
    same for all three request forms that start a search: LF — RUN, `?` LF — READ, `=` — WRITE with
    the argument text left in the queue), `C02_found_run_invokes`
    (from there the next two calls invoke the run handler of that entry and no other, or answer
    ERROR when it has none).
-/
import CatVerif.Proofs.Resolve
import CatVerif.Proofs.Log
import CatVerif.Proofs.ResolveLine
namespace Cat
open St

/-! ### alphabet -/

/-- `to_upper` folds exactly a–z -/
theorem C02_case_fold : ∀ b, b < 256 → toUpper b = (if 97 ≤ b ∧ b ≤ 122 then b - 32 else b) := toUpper_spec

/-- the name alphabet (after folding) is exactly A–Z 0–9 + # $ @ _ % & -/
theorem C02_alphabet : ∀ b, b < 256 →
    isNameChar b = decide ((65 ≤ b ∧ b ≤ 90) ∨ (48 ≤ b ∧ b ≤ 57) ∨ b = 43 ∨ b = 35 ∨ b = 36 ∨ b = 64 ∨ b = 95 ∨ b = 37 ∨ b = 38) :=
  isNameChar_spec

/-- outside argument collection every byte read is folded -/
theorem C02_read_folds (s : St) (i : SvcIn) (b : Byte) (h : i.rd = some b) (hs : s.state ≠ .parseCommandArgs) :
    (readCmdChar s i).1.currentChar = toUpper b ∧ (readCmdChar s i).2 = true := by
  unfold readCmdChar; simp [h, St.emit, hs]

/-! ### lanes -/

theorem C02_lane_write (D : Desc) (s : St) (i j v : Nat) (hv : v < 4) (hi : i / 4 < D.cmdCap) (hl : i / 4 < s.buf.length)
    (hj : disabledByIndex D.groups j = false) :
    laneOf D (setCmdState D s i v) j = if i = j then v else laneOf D s j :=
  laneOf_setCmdState' D s i j v hv hi hl hj

/-! ### the table while the name is typed -/

theorem C02_init (D : Desc) (s : St) (hcap : D.commandsNum ≤ 4 * D.cmdCap) (hbuf : D.cmdCap ≤ s.buf.length) :
    Lanes D (prepareParseCommand D s) [] ∧ (prepareParseCommand D s).length = 0 ∧
    (prepareParseCommand D s).cmdType = .run ∧ (prepareParseCommand D s).index = 0 :=
  ⟨prepareParseCommand_lanes D s hcap hbuf, by simp [prepareParseCommand]⟩

/-- a name character: folded, counted, and the sweep starts; the table is not touched -/
theorem C02_name_char (D : Desc) (s : St) (i : SvcIn) (b : Byte) (hs : s.state = .parseCommandChar)
    (hr : i.rd = some b) (hn : isNameChar (toUpper b) = true)
    (h1 : toUpper b ≠ 10) (h2 : toUpper b ≠ 13) (h3 : toUpper b ≠ 63) (h4 : toUpper b ≠ 61) :
    let s' := (commandService D s i).1
    s'.state = .updateCommandState ∧ s'.length = s.length + 1 ∧ s'.currentChar = toUpper b ∧
    s'.buf = s.buf ∧ s'.index = s.index ∧ s'.cmdType = s.cmdType := by
  unfold commandService parseCommand readCmdChar
  simp [hs, hr, St.emit, h1, h2, h3, h4, hn]

/-- a byte that is neither a name character nor one of LF CR ? = ends the name with ERROR state -/
theorem C02_bad_char (D : Desc) (s : St) (i : SvcIn) (b : Byte) (hs : s.state = .parseCommandChar)
    (hr : i.rd = some b) (hn : isNameChar (toUpper b) = false)
    (h1 : toUpper b ≠ 10) (h2 : toUpper b ≠ 13) (h3 : toUpper b ≠ 63) (h4 : toUpper b ≠ 61) :
    (commandService D s i).1.state = .error := by
  unfold commandService parseCommand readCmdChar
  simp [hs, hr, St.emit, h1, h2, h3, h4, hn]

theorem C02_sweep_step (D : Desc) (s : St) (i : SvcIn) (hs : s.state = .updateCommandState) :
    (commandService D s i).1 = (updateCommand D s).1 := by
  unfold commandService; simp [hs]

/-- one whole sweep (`commandsNum` service steps in UPDATE_COMMAND_STATE) -/
theorem C02_sweep (D : Desc) (typed : List Byte) (ch : Byte) (s : St)
    (hcap : D.commandsNum ≤ 4 * D.cmdCap) (hbuf : D.cmdCap ≤ s.buf.length) (hnum : 0 < D.commandsNum)
    (hlen : s.length = typed.length + 1) (hch : s.currentChar = ch) (hi0 : s.index = 0)
    (h : Lanes D s typed) :
    let s' := updateIter D D.commandsNum s
    Lanes D s' (typed ++ [ch]) ∧ s'.index = 0 ∧ s'.length = s.length ∧
    ((s'.state = .parseCommandChar ∧ s'.cmdType = (updateIter D (D.commandsNum - 1) s).cmdType) ∨
     (s'.state = .searchCommand ∧ s'.cmdType = .write ∧ s'.partialCntr = 0 ∧ s'.cmd = none)) :=
  sweep_total D typed ch s hcap hbuf hnum hlen hch hi0 h

theorem C02_match_full (name typed : List Byte) : Spec.matchName name typed = 2 ↔ name.map toUpper = typed :=
  matchName_two name typed
theorem C02_match_partial (name typed : List Byte) :
    Spec.matchName name typed = 1 ↔ typed.length < name.length ∧ (name.map toUpper).take typed.length = typed :=
  matchName_one name typed

/-! ### the search -/

theorem C02_search_step (D : Desc) (s : St) (i : SvcIn) (hs : s.state = .searchCommand) :
    (commandService D s i).1 = (searchCommand D s).1 := by
  unfold commandService; simp [hs]

theorem C02_search (D : Desc) (typed : List Byte) (s : St) (hnum : 0 < D.commandsNum)
    (hst : s.state = .searchCommand) (hi0 : s.index = 0) (hc0 : s.partialCntr = 0) (hcmd : s.cmd = none)
    (h : Lanes D s typed) :
    let s' := searchIter D D.commandsNum s
    s'.cmdType = s.cmdType ∧ s'.buf = s.buf ∧
    (∀ j, Spec.resolve (Spec.lane D typed) D.commandsNum = some j → s'.state = .commandFound ∧ s'.cmd = some j) ∧
    (Spec.resolve (Spec.lane D typed) D.commandsNum = none → NotFound s') :=
  search_total D typed s hnum hst hi0 hc0 hcmd h

theorem C02_selected (L : Nat → Nat) (n j : Nat) (h : Spec.resolve L n = some j) : Spec.Selected L n j :=
  Spec.resolve_some L n j h
theorem C02_rejected (L : Nat → Nat) (n : Nat) (h : Spec.resolve L n = none) : Spec.Rejected L n :=
  Spec.resolve_none L n h
theorem C02_selected_unique (L : Nat → Nat) (n j j' : Nat) (h : Spec.Selected L n j) (h' : Spec.Selected L n j') : j = j' :=
  Spec.selected_unique L n j j' h h'

/-- giving up is answered with ERROR: COMMAND_NOT_FOUND acknowledges with ERROR at once … -/
theorem C02_not_found_error (D : Desc) (s : St) (i : SvcIn) (hs : s.state = .commandNotFound) :
    (commandService D s i).1 = ackError D s := by
  unfold commandService commandNotFound; simp [hs]

/-! ### the request type is fixed by the suffix alone -/

/-- no suffix: LF right after the name starts the search with the type set at `AT` (RUN) -/
theorem C02_suffix_none (D : Desc) (s : St) (i : SvcIn) (hs : s.state = .parseCommandChar)
    (hr : i.rd = some 10) (hl : s.length ≠ 0) :
    let s' := (commandService D s i).1
    s'.state = .searchCommand ∧ s'.cmdType = s.cmdType ∧ s'.index = 0 ∧ s'.partialCntr = 0 ∧
    s'.cmd = none ∧ s'.buf = s.buf := by
  have t10 : toUpper 10 = 10 := by decide
  have t61 : toUpper 61 = 61 := by decide
  unfold commandService parseCommand readCmdChar
  simp [hs, hr, St.emit, t10, t61, hl, prepareSearchCommand]

/-- `?` makes it a READ request, which only LF (after optional CRs) may follow -/
theorem C02_suffix_read (D : Desc) (s : St) (i : SvcIn) (hs : s.state = .parseCommandChar)
    (hr : i.rd = some 63) (hl : s.length ≠ 0) :
    let s' := (commandService D s i).1
    s'.state = .waitReadAck ∧ s'.cmdType = .read ∧ s'.buf = s.buf := by
  have t63 : toUpper 63 = 63 := by decide
  unfold commandService parseCommand readCmdChar
  simp [hs, hr, St.emit, t63, hl]

theorem C02_suffix_read_ack (D : Desc) (s : St) (i : SvcIn) (b : Byte) (hs : s.state = .waitReadAck) (hr : i.rd = some b) :
    let s' := (commandService D s i).1
    s'.cmdType = s.cmdType ∧ s'.buf = s.buf ∧
    (toUpper b = 10 → s'.state = .searchCommand ∧ s'.index = 0 ∧ s'.partialCntr = 0 ∧ s'.cmd = none) ∧
    (toUpper b ≠ 10 → toUpper b ≠ 13 → s'.state = .error) := by
  unfold commandService waitReadAcknowledge readCmdChar
  simp only [hs, hr]
  simp [St.emit, prepareSearchCommand]
  (repeat' split) <;> simp_all

/-- `=` makes it a WRITE request and starts the search -/
theorem C02_suffix_write (D : Desc) (s : St) (i : SvcIn) (hs : s.state = .parseCommandChar)
    (hr : i.rd = some 61) (hl : s.length ≠ 0) :
    let s' := (commandService D s i).1
    s'.state = .searchCommand ∧ s'.cmdType = .write ∧ s'.index = 0 ∧ s'.partialCntr = 0 ∧
    s'.cmd = none ∧ s'.buf = s.buf := by
  have t10 : toUpper 10 = 10 := by decide
  have t61 : toUpper 61 = 61 := by decide
  unfold commandService parseCommand readCmdChar
  simp [hs, hr, St.emit, t10, t61, hl, prepareSearchCommand]

/-- `=?`: a `?` as the very first argument byte of a command that can answer TEST (a test handler
or variables) and is not implicit-write makes it a TEST request -/
theorem C02_suffix_test (D : Desc) (s : St) (i : SvcIn) (hs : s.state = .parseCommandArgs)
    (hr : i.rd = some 63) (hl : s.length = 0)
    (hcan : ((D.cmdD s.cmd).hasTest || ((D.cmdD s.cmd).vars.isSome && (D.cmdD s.cmd).varNum > 0)) = true)
    (himp : (D.cmdD s.cmd).implicitWrite = false) :
    let s' := (commandService D s i).1
    s'.state = .waitTestAck ∧ s'.cmdType = .test ∧ s'.cmd = s.cmd := by
  unfold commandService parseCommandArgs readCmdChar
  simp at hcan
  rcases hcan with hcan | hcan <;> simp [hs, hr, St.emit, hl, himp, hcan]

/-- implicit WRITE: decided by the sweep, as soon as the typed name equals an implicit-write name
(`C02_sweep`, second alternative); arguments then start right after the name. -/
theorem C02_implicit_write (D : Desc) (s : St) (h : s.index + 1 = D.commandsNum) :
    ((updateCommand D s).1.state = .parseCommandChar ∧ (updateCommand D s).1.cmdType = s.cmdType) ∨
    ((updateCommand D s).1.state = .searchCommand ∧ (updateCommand D s).1.cmdType = .write ∧
     (updateCommand D s).1.partialCntr = 0 ∧ (updateCommand D s).1.cmd = none) :=
  (updateCommand_last D s h).2

/-! ### dispatch on the request type -/

theorem C02_dispatch (D : Desc) (s : St) (i : SvcIn) (hs : s.state = .commandFound) :
    let s' := (commandService D s i).1
    (s.cmdType = .run → s' = ackError D (s.chkUb s.cmd.isSome) ∨ (s'.state = .runLoop ∧ s'.cmd = s.cmd)) ∧
    (s.cmdType = .read → s' = ackError D (s.chkUb s.cmd.isSome) ∨ s' = startFormatRead D (s.chkUb s.cmd.isSome) .cmd) ∧
    (s.cmdType = .write → s'.state = .parseCommandArgs ∧ s'.cmd = s.cmd ∧ s'.cmdType = .write ∧ s'.length = 0) ∧
    (s.cmdType = .test ∨ s.cmdType = .none → s' = ackError D (s.chkUb s.cmd.isSome)) := by
  unfold commandService commandFound
  simp only [hs]
  refine ⟨?_, ?_, ?_, ?_⟩
  · intro h
    have : (s.chkUb s.cmd.isSome).cmdType = .run := by simp [h]
    simp only [this]; (repeat' split) <;> first | (left; rfl) | (right; exact ⟨rfl, by simp⟩)
  · intro h
    have : (s.chkUb s.cmd.isSome).cmdType = .read := by simp [h]
    simp only [this]; (repeat' split) <;> first | (left; rfl) | (right; rfl)
  · intro h; simp [h, setB]; split <;> simp
  · intro h; rcases h with h | h <;> simp [h]

/-- a RUN step invokes the run handler of the selected command, and no other handler -/
theorem C02_run_invokes (D : Desc) (s : St) (i : SvcIn) (hs : s.state = .runLoop) :
    tr .cbC (commandService D s i).1.log =
      tr .cbC s.log ++ [.handler .cmd .run (s.cmd.getD 0) [] true 0 0 i.hc.ret] := by
  unfold commandService processRunLoop
  simp only [hs]
  rw [doCalls_cmd_quiet .cbC (by decide) (by decide), applyNested_quiet .cbC (by decide) (by decide)]
  simp [St.emit, cls]

theorem C02_write_invokes (D : Desc) (s : St) (i : SvcIn) (hs : s.state = .writeLoop) :
    tr .cbC (commandService D s i).1.log =
      tr .cbC s.log ++ [.handler .cmd .write (s.cmd.getD 0) ((region D s .cmd 0).take s.length)
        (getB D s .cmd s.length == 0 && s.length < D.cmdCap) s.length s.index i.hc.ret] := by
  unfold commandService processWriteLoop
  simp only [hs]
  rw [doCalls_cmd_quiet .cbC (by decide) (by decide), applyNested_quiet .cbC (by decide) (by decide)]
  simp [St.emit, cls, region, getB]

theorem C02_read_invokes (D : Desc) (s : St) (i : SvcIn) (hs : s.state = .readLoop) :
    tr .cbC (commandService D s i).1.log =
      tr .cbC s.log ++ [.handler .cmd .read (s.cmd.getD 0) (cstr D s .cmd).1 (cstr D s .cmd).2 s.position D.cmdCap i.hc.ret] := by
  unfold commandService processReadLoop
  simp only [hs]
  rw [doCalls_cmd_quiet .cbC (by decide) (by decide), applyNested_quiet .cbC (by decide) (by decide)]
  simp [St.emit, cls, St.cmdOf, St.pos, Desc.capOf, cstr, region]

theorem C02_test_invokes (D : Desc) (s : St) (i : SvcIn) (hs : s.state = .testLoop) :
    tr .cbC (commandService D s i).1.log =
      tr .cbC s.log ++ [.handler .cmd .test (s.cmd.getD 0) (cstr D s .cmd).1 (cstr D s .cmd).2 s.position D.cmdCap i.hc.ret] := by
  unfold commandService processTestLoop
  simp only [hs]
  rw [doCalls_cmd_quiet .cbC (by decide) (by decide), applyNested_quiet .cbC (by decide) (by decide)]
  simp [St.emit, cls, St.cmdOf, St.pos, Desc.capOf, cstr, region]

/-- no other state of the command machine invokes a command handler (variable callbacks are made
by PARSE_WRITE_ARGS and FORMAT_READ_ARGS only, for the selected command's variables) -/
theorem C02_no_handler_elsewhere (D : Desc) (s : St) (i : SvcIn)
    (h1 : s.state ≠ .runLoop) (h2 : s.state ≠ .readLoop) (h3 : s.state ≠ .writeLoop) (h4 : s.state ≠ .testLoop)
    (h5 : s.state ≠ .parseWriteArgs) (h6 : s.state ≠ .formatReadArgs) :
    tr .cbC (commandService D s i).1.log = tr .cbC s.log := by
  unfold commandService
  split <;> try contradiction
  · exact errorState_quiet _ (by decide) (by decide) (by decide) D s i
  · exact processIdleState_quiet _ (by decide) s i
  · exact parsePrefix_quiet _ (by decide) (by decide) (by decide) D s i
  · exact parseCommand_quiet _ (by decide) (by decide) (by decide) D s i
  · exact updateCommand_quiet _ D s
  · exact waitReadAcknowledge_quiet _ (by decide) s i
  · exact searchCommand_quiet _ D s
  · exact commandFound_quiet _ (by decide) (by decide) D s
  · exact commandNotFound_quiet _ (by decide) (by decide) D s
  · exact parseCommandArgs_quiet _ (by decide) (by decide) (by decide) D s i
  · exact waitTestAcknowledge_quiet _ (by decide) (by decide) (by decide) D s i
  · exact formatTestArgs_cmd_quiet _ (by decide) (by decide) D s
  · exact processHoldState_quiet _ (by decide) (by decide) D s
  · exact processIoWriteWait_quiet _ s
  · exact processIoWrite_quiet _ (by decide) (by decide) D s i
  · simp [resetState, cls]; split <;> simp
  · simp
  · simp
  · simp
  · exact printCmdList_quiet _ (by decide) (by decide) D s

/-! ### the premises are satisfiable (non-vacuity) -/

/-- a table with `TEST`, `TE`, a disabled `T2` and `+X`: typing `TE` selects entry 1 (exact) although
entry 0 is a longer candidate; typing `T` is ambiguous; typing `+` selects the only candidate -/
example :
    let names : List (List Byte) := [[84, 69, 83, 84], [84, 69], [43, 88]]
    let L := fun typed j => Spec.matchName (names.getD j []) typed
    Spec.resolve (L [84, 69]) 3 = some 1 ∧ Spec.resolve (L [84]) 3 = none ∧
    Spec.resolve (L [43]) 3 = some 2 ∧ Spec.resolve (L [90]) 3 = none := by decide

/-! ### the phases composed -/

theorem C02_at_prefix (D : Desc) (tmpl : SvcIn) (s : St) (a t : Byte) (rest : List Byte)
    (hs : s.state = .idle) (ha : toUpper a = 65) (ht : toUpper t = 84)
    (hcap : D.commandsNum ≤ 4 * D.cmdCap) (hbuf : D.cmdCap ≤ s.buf.length) :
    let s' := (feed D tmpl 2 s (a :: t :: rest)).1
    (feed D tmpl 2 s (a :: t :: rest)).2 = rest ∧ s'.state = .parseCommandChar ∧ Lanes D s' [] ∧
    s'.length = 0 ∧ s'.index = 0 ∧ s'.cmdType = .run ∧ s'.buf.length = s.buf.length :=
  feed_at D tmpl s a t rest hs ha ht hcap hbuf

theorem C02_name_phase (D : Desc) (tmpl : SvcIn) (s0 : St)
    (hcap : D.commandsNum ≤ 4 * D.cmdCap) (hbuf : D.cmdCap ≤ s0.buf.length) (hnum : 0 < D.commandsNum)
    (hst : s0.state = .parseCommandChar) (hl0 : Lanes D s0 []) (hlen : s0.length = 0) (hidx : s0.index = 0)
    (hct : s0.cmdType = .run) (cs : List Byte) (hall : ∀ b ∈ cs, NameCh b) (rest : List Byte) :
    ∃ (n : Nat) (p q : List Byte) (s' : St), n ≤ cs.length * (D.commandsNum + 1) ∧ cs = p ++ q ∧
      feed D tmpl n s0 (cs ++ rest) = (s', q ++ rest) ∧ NameAt D s0 s' p ∧
      ((q = [] ∧ s'.state = .parseCommandChar ∧ s'.cmdType = .run) ∨
       (p ≠ [] ∧ s'.state = .searchCommand ∧ s'.cmdType = .write ∧ s'.partialCntr = 0 ∧ s'.cmd = none)) :=
  feed_name D tmpl s0 hcap hbuf hnum hst hl0 hlen hidx hct cs hall rest

/-- **Name resolution, end to end**: a name followed by LF, fed one call at a time from the state
after `AT`, ends in COMMAND_FOUND with the entry `Spec.resolve` selects for the case-folded name
(`C02_selected`: the first full match, else the only partial match) as a RUN request, or gives up
when there is none; unless an implicit-write command equals a prefix `p` of the name — then the
same holds for `p` as a WRITE request and the rest of the line is its argument text. -/
theorem C02_line_resolves (D : Desc) (tmpl : SvcIn) (s0 : St)
    (hcap : D.commandsNum ≤ 4 * D.cmdCap) (hbuf : D.cmdCap ≤ s0.buf.length) (hnum : 0 < D.commandsNum)
    (hst : s0.state = .parseCommandChar) (hl0 : Lanes D s0 []) (hlen : s0.length = 0) (hidx : s0.index = 0)
    (hct : s0.cmdType = .run)
    (cs : List Byte) (hne : cs ≠ []) (hall : ∀ b ∈ cs, NameCh b) (rest : List Byte) :
    ∃ (n : Nat) (p q : List Byte) (s' : St), n ≤ (cs.length + 1) * (D.commandsNum + 1) ∧ cs = p ++ q ∧ p ≠ [] ∧
      ((q = [] ∧ feed D tmpl n s0 (cs ++ 10 :: rest) = (s', rest) ∧ s'.cmdType = .run) ∨
       (feed D tmpl n s0 (cs ++ 10 :: rest) = (s', q ++ 10 :: rest) ∧ s'.cmdType = .write)) ∧
      (∀ j, Spec.resolve (Spec.lane D (p.map toUpper)) D.commandsNum = some j →
          s'.state = .commandFound ∧ s'.cmd = some j) ∧
      (Spec.resolve (Spec.lane D (p.map toUpper)) D.commandsNum = none → NotFound s') :=
  feed_line D tmpl s0 hcap hbuf hnum hst hl0 hlen hidx hct cs hne hall rest

/-- **Name resolution, end to end, for the three request forms that start a search**: name + LF
(RUN), name + `?` + LF (READ), name + `=` (WRITE, the argument text follows). -/
theorem C02_request_resolves (D : Desc) (tmpl : SvcIn) (s0 : St)
    (hcap : D.commandsNum ≤ 4 * D.cmdCap) (hbuf : D.cmdCap ≤ s0.buf.length) (hnum : 0 < D.commandsNum)
    (hst : s0.state = .parseCommandChar) (hl0 : Lanes D s0 []) (hlen : s0.length = 0) (hidx : s0.index = 0)
    (hct : s0.cmdType = .run)
    (cs : List Byte) (hne : cs ≠ []) (hall : ∀ b ∈ cs, NameCh b) (sfx : List Byte) (typ : CmdType) (hsfx : Suffix sfx typ)
    (rest : List Byte) :
    ∃ (n : Nat) (p q : List Byte) (s' : St), n ≤ (cs.length + 1) * (D.commandsNum + 1) + 1 ∧ cs = p ++ q ∧ p ≠ [] ∧
      ((q = [] ∧ feed D tmpl n s0 (cs ++ (sfx ++ rest)) = (s', rest) ∧ s'.cmdType = typ) ∨
       (feed D tmpl n s0 (cs ++ (sfx ++ rest)) = (s', q ++ (sfx ++ rest)) ∧ s'.cmdType = .write)) ∧
      (∀ j, Spec.resolve (Spec.lane D (p.map toUpper)) D.commandsNum = some j →
          s'.state = .commandFound ∧ s'.cmd = some j) ∧
      (Spec.resolve (Spec.lane D (p.map toUpper)) D.commandsNum = none → NotFound s') :=
  feed_request D tmpl s0 hcap hbuf hnum hst hl0 hlen hidx hct cs hne hall sfx typ hsfx rest

/-- non-vacuity: the three suffixes -/
example : Suffix [10] .run ∧ Suffix [63, 10] .read ∧ Suffix [61] .write :=
  ⟨Or.inl ⟨rfl, rfl⟩, Or.inr (Or.inl ⟨rfl, rfl⟩), Or.inr (Or.inr ⟨rfl, rfl⟩)⟩

/-- from COMMAND_FOUND as a RUN request for entry `j`: the next call answers ERROR (entry `j` has no
run handler) or enters the run loop, whose first call invokes the run handler of `j` and nothing else -/
theorem C02_found_run_invokes (D : Desc) (s : St) (i i' : SvcIn) (j : Nat) (hs : s.state = .commandFound)
    (ht : s.cmdType = .run) (hj : s.cmd = some j) :
    let s1 := (commandService D s i).1
    s1 = ackError D (s.chkUb s.cmd.isSome) ∨
    (s1.state = .runLoop ∧
      tr .cbC (commandService D s1 i').1.log = tr .cbC s1.log ++ [.handler .cmd .run j [] true 0 0 i'.hc.ret]) := by
  have h := (C02_dispatch D s i hs).1 ht
  rcases h with h | ⟨h1, h2⟩
  · left; exact h
  · right
    refine ⟨h1, ?_⟩
    have := C02_run_invokes D _ i' h1
    rw [h2, hj] at this
    exact this

/-- **A whole line from IDLE**: `AT`, a name, LF. -/
theorem C02_from_idle (D : Desc) (tmpl : SvcIn) (s : St) (a t : Byte)
    (hs : s.state = .idle) (ha : toUpper a = 65) (ht : toUpper t = 84)
    (hcap : D.commandsNum ≤ 4 * D.cmdCap) (hbuf : D.cmdCap ≤ s.buf.length) (hnum : 0 < D.commandsNum)
    (cs : List Byte) (hne : cs ≠ []) (hall : ∀ b ∈ cs, NameCh b) (rest : List Byte) :
    ∃ (n : Nat) (p q : List Byte) (s' : St), n ≤ 2 + (cs.length + 1) * (D.commandsNum + 1) ∧ cs = p ++ q ∧ p ≠ [] ∧
      ((q = [] ∧ feed D tmpl n s (a :: t :: (cs ++ 10 :: rest)) = (s', rest) ∧ s'.cmdType = .run) ∨
       (feed D tmpl n s (a :: t :: (cs ++ 10 :: rest)) = (s', q ++ 10 :: rest) ∧ s'.cmdType = .write)) ∧
      (∀ j, Spec.resolve (Spec.lane D (p.map toUpper)) D.commandsNum = some j →
          s'.state = .commandFound ∧ s'.cmd = some j) ∧
      (Spec.resolve (Spec.lane D (p.map toUpper)) D.commandsNum = none → NotFound s') := by
  have ⟨a0, a1, a2, a3, a4, a5, a6⟩ := feed_at D tmpl s a t (cs ++ 10 :: rest) hs ha ht hcap hbuf
  generalize hf : feed D tmpl 2 s (a :: t :: (cs ++ 10 :: rest)) = r at a0 a1 a2 a3 a4 a5 a6
  obtain ⟨s0, bs0⟩ := r
  simp only at a0 a1 a2 a3 a4 a5 a6
  subst a0
  obtain ⟨n, p, q, s', hn, hpq, hp, hcase, hres, hnone⟩ :=
    feed_line D tmpl s0 hcap (by rw [a6]; exact hbuf) hnum a1 a2 a3 a4 a5 cs hne hall rest
  refine ⟨2 + n, p, q, s', by omega, hpq, hp, ?_, hres, hnone⟩
  rw [feed_add, hf]
  exact hcase

/-- non-vacuity: the initial state is IDLE with a command buffer of the declared size -/
example (D : Desc) (m : List (List Byte)) : (init D (List.replicate D.cmdCap 0) [] m).state = .idle ∧
    D.cmdCap ≤ (init D (List.replicate D.cmdCap 0) [] m).buf.length := by simp [init]

/-- non-vacuity: `A`..`Z`, digits and `+` are name characters -/
example : NameCh 65 ∧ NameCh 122 ∧ NameCh 43 ∧ NameCh 48 := by unfold NameCh; decide

/-- **the `=?` form, composed**: once a name followed by `=` has resolved to entry `j` as a WRITE request
(`C02_request_resolves`), the bytes `?` and LF make three calls — one to enter argument collection, one that reads the `?`
as the very first argument byte and turns the request into TEST (possible because entry `j` has a test handler or
variables and is not an implicit-write command), one that reads the LF — after which the TEST response of entry `j` is
started and nothing of the line is left in the input -/
theorem C02_test_form (D : Desc) (tmpl : SvcIn) (s : St) (j : Nat) (rest : List Byte)
    (hs : s.state = .commandFound) (ht : s.cmdType = .write) (hj : s.cmd = some j)
    (hcan : ((D.cmdD (some j)).hasTest || ((D.cmdD (some j)).vars.isSome && (D.cmdD (some j)).varNum > 0)) = true)
    (himp : (D.cmdD (some j)).implicitWrite = false) :
    ∃ s2 : St, s2.cmd = some j ∧ s2.cmdType = .test ∧ s2.currentChar = 10 ∧
      feed D tmpl 3 s (63 :: 10 :: rest) = (startFormatTest D s2 .cmd, rest) := by
  have d := (C02_dispatch D s { tmpl with rd := some 63 } hs).2.2.1 ht
  generalize hs1 : (commandService D s { tmpl with rd := some 63 }).1 = s1 at d
  obtain ⟨d1, d2, d3, d4⟩ := d
  have t := C02_suffix_test D s1 { tmpl with rd := some 63 } d1 rfl d4 (by rw [d2, hj]; exact hcan) (by rw [d2, hj]; exact himp)
  generalize hs2 : (commandService D s1 { tmpl with rd := some 63 }).1 = s2 at t
  obtain ⟨t1, t2, t3⟩ := t
  refine ⟨{ s2 with currentChar := 10, state := .waitTestAck, log := s2.log ++ [.rd (some 10)] }, ?_, ?_, rfl, ?_⟩
  · simp [t3, d2, hj]
  · simp [t2]
  · have r0 : ¬ Reading s.state := by rw [hs]; decide
    have r1 : Reading s1.state := by rw [d1]; decide
    have r2 : Reading s2.state := by rw [t1]; decide
    simp only [feed, r0, r1, r2, if_true, if_false, List.head?_cons, List.tail_cons, hs1, hs2]
    congr 1
    unfold commandService waitTestAcknowledge readCmdChar
    have e10 : toUpper 10 = 10 := by decide
    simp [t1, St.emit, e10]


end Cat
