/-
  C09 — Disabled, test-only or handler-less commands are never executed.

  The enable flags live in the descriptor (`Desc`), which the `setCmdDisable` / `setCmdOnlyTest` /
  `setGroupDisable` operations replace between calls; every theorem below holds for the flags in
  force when the step is taken, hence for every history of flag changes.
  * `C09_invisible`: for a disabled command, or one in a disabled group, `get_cmd_state` answers
    NOT_MATCH whatever the match bits say — this is the only way the parser looks at a table entry;
  * `C09_update_skips`: the per-character update step leaves such an entry completely alone (it can
    never become a full match, never raise the implicit-write flag);
  * `C09_search_skips`: the search step neither selects it nor counts it as a partial match, so it
    cannot make another abbreviation ambiguous; `C09_selected_enabled`: whatever command the search
    step newly selects is enabled;
  * `C09_only_test_run`, `C09_only_test_read`, `C09_only_test_write`: a test-only command answers RUN, READ
    and WRITE with ERROR, invoking nothing;
  * `C09_no_run_handler`: RUN on a command without run handler is answered with ERROR (READ/WRITE
    without handler or accessible variable: `C08_read_gate`, `C08_write_gate`).
-/
import CatVerif.Proofs.Log
namespace Cat
open St

theorem C09_invisible (D : Desc) (s : St) (k : Nat) (h : disabledByIndex D.groups k = true) :
    getCmdState D s k = (s, 0) := by
  simp [getCmdState, h]

theorem C09_update_skips (D : Desc) (s : St) (h : disabledByIndex D.groups s.index = true) :
    (updateCommand D s).1.buf = s.buf ∧
    ((updateCommand D s).1.implicitWriteFlag = true → s.implicitWriteFlag = true) := by
  unfold updateCommand updateLane updateAdvance
  simp only [chkUb_ctl]
  rw [C09_invisible D _ _ h]
  simp [prepareSearchCommand]
  (repeat' split) <;> simp_all

/-- at a disabled entry the search step changes neither the selected command nor the partial count -/
theorem C09_search_skips (D : Desc) (s : St) (h : disabledByIndex D.groups s.index = true) :
    (searchCommand D s).1.cmd = s.cmd ∧ (searchCommand D s).1.partialCntr = s.partialCntr := by
  unfold searchCommand
  simp only [chkUb_ctl]
  rw [C09_invisible D _ _ h]
  simp [notFoundOrError]
  (repeat' split) <;> simp

/-- a command newly selected by the search step is an enabled one -/
theorem C09_selected_enabled (D : Desc) (s : St) (k : Nat)
    (h : (searchCommand D s).1.cmd = some k) (hn : s.cmd ≠ some k) :
    disabledByIndex D.groups k = false := by
  cases hd : disabledByIndex D.groups s.index
  · -- the entry under the cursor is enabled: if selected, it is that entry
    unfold searchCommand at h
    simp only [chkUb_ctl, getCmdState, hd] at h
    simp [notFoundOrError] at h
    have : k = s.index ∨ s.cmd = some k := by
      revert h
      (repeat' split) <;> simp_all <;> omega
    rcases this with rfl | h'
    · exact hd
    · exact absurd h' hn
  · have := (C09_search_skips D s hd).1
    rw [this] at h; exact absurd h hn

theorem C09_only_test_run (D : Desc) (s : St) (ht : s.cmdType = .run) (ho : (D.cmdD s.cmd).onlyTest = true) :
    (commandFound D s).1.state = .flushWait ∧ tr .ack (commandFound D s).1.log = tr .ack s.log ++ [.ack false] ∧
    tr .cbC (commandFound D s).1.log = tr .cbC s.log := by
  simp [commandFound, ht, ho, ackError, startFlush, cls]

theorem C09_only_test_read (D : Desc) (s : St) (ht : s.cmdType = .read) (ho : (D.cmdD s.cmd).onlyTest = true) :
    (commandFound D s).1.state = .flushWait ∧ tr .ack (commandFound D s).1.log = tr .ack s.log ++ [.ack false] ∧
    tr .cbC (commandFound D s).1.log = tr .cbC s.log := by
  simp [commandFound, ht, ho, ackError, startFlush, cls]

theorem C09_only_test_write (D : Desc) (s : St) (i : SvcIn) (hs : s.state = .parseCommandArgs)
    (hrd : i.rd = some 10) (ho : (D.cmdD s.cmd).onlyTest = true) :
    (commandService D s i).1.state = .flushWait ∧
    tr .ack (commandService D s i).1.log = tr .ack s.log ++ [.ack false] ∧
    tr .cbC (commandService D s i).1.log = tr .cbC s.log ∧ (commandService D s i).1.mem = s.mem := by
  simp [commandService, hs, parseCommandArgs, readCmdChar, hrd, ho, ackError, startFlush, cls]

theorem C09_no_run_handler (D : Desc) (s : St) (ht : s.cmdType = .run) (hr : (D.cmdD s.cmd).hasRun = false) :
    (commandFound D s).1.state = .flushWait ∧ tr .ack (commandFound D s).1.log = tr .ack s.log ++ [.ack false] ∧
    tr .cbC (commandFound D s).1.log = tr .cbC s.log := by
  simp [commandFound, ht, hr, ackError, startFlush, cls]

/-- non-vacuity: a one-command table whose command is disabled -/
example : disabledByIndex [{ name := none, cmds := [{ (default : CmdD) with disable := true }], disable := false }] 0 = true := by
  decide

end Cat
