/-
  C15 — cat_service reports OK only when quiescent and always gets there.

  Proved (model of the current source; the status merge at the end of `cat_service` and the
  helper predicates are regenerated from the source, translator item T2):
  * `C15_ok_quiescent`: if the call reports OK then afterwards the unsolicited machine is idle, its
    queue is empty and the command machine is in a state that only waits for input;
  * `C15_repeat`: from such a state an immediately repeated call with no deliverable input byte
    reports OK again, writes nothing, invokes no callback, and leaves the state unchanged (the only
    logged event is the refused read);
  * `C15_ok_stable`: the two together, for `cat_service` itself (mutex calls succeeding).
  NOT proved in Lean (PARTIAL): the liveness half — "once the input is exhausted and the output
  accepts bytes, a number of calls bounded by a linear function of table size and line length
  reaches that state".  It is sampled by the correspondence runs (every scenario ends with a
  drain whose length is checked against a linear bound) — see DESIGN.md.
-/
import CatVerif.Proofs.Quiesce
namespace Cat
open St

theorem C15_ok_quiescent (D : Desc) (s : St) (i : SvcIn) (h : (serviceBody D s i).2 = Gen.CAT_STATUS_OK) :
    let s' := (serviceBody D s i).1
    s'.ustate = .idle ∧ s'.rcount = 0 ∧ Reading s'.state :=
  serviceBody_ok_quiescent D s i h

theorem C15_repeat (D : Desc) (s : St) (i : SvcIn)
    (h : s.ustate = .idle ∧ s.rcount = 0 ∧ Reading s.state) (hi : i.rd = none) :
    serviceBody D s i = (s.emit (.rd none), Gen.CAT_STATUS_OK) :=
  serviceBody_quiescent_repeat D s i h hi

/-- `cat_service` (no mutex configured): OK now implies OK again on a repeated call without a new
input byte, with no other effect than the refused read. -/
theorem C15_ok_stable (D : Desc) (s : St) (i i' : SvcIn) (hm : D.hasMutex = false)
    (h : (service D s i).2 = Gen.CAT_STATUS_OK) (hi : i'.rd = none) :
    service D (service D s i).1 i' = ((service D s i).1.emit (.rd none), Gen.CAT_STATUS_OK) := by
  simp only [service, withMutex, hm] at *
  exact serviceBody_quiescent_repeat D _ i' (serviceBody_ok_quiescent D s i h) hi

/-- the same with a mutex whose calls succeed: the repeated call logs lock, the refused read, unlock -/
theorem C15_ok_stable_mutex (D : Desc) (s : St) (i i' : SvcIn) (hm : D.hasMutex = true)
    (hl : i.lock = 0) (hu : i.unlock = 0) (hl' : i'.lock = 0) (hu' : i'.unlock = 0)
    (h : (service D s i).2 = Gen.CAT_STATUS_OK) (hi : i'.rd = none) :
    (service D (service D s i).1 i').2 = Gen.CAT_STATUS_OK ∧
    (service D (service D s i).1 i').1 = ((((service D s i).1.emit (.lock 0)).emit (.rd none)).emit (.unlock 0)) := by
  have e : ∀ (x : St) (j : SvcIn), j.lock = 0 → j.unlock = 0 →
      service D x j = ((serviceBody D (x.emit (.lock 0)) j).1.emit (.unlock 0), (serviceBody D (x.emit (.lock 0)) j).2) := by
    intro x j a b
    simp [service, withMutex, hm, a, b]
  rw [e s i hl hu] at h ⊢
  rw [e _ i' hl' hu']
  simp only at h ⊢
  have q := serviceBody_ok_quiescent D (s.emit (.lock 0)) i h
  have q' : Quiescent ((((serviceBody D (s.emit (Ev.lock 0)) i).1.emit (Ev.unlock 0))).emit (.lock 0)) := by
    simpa [Quiescent] using q
  rw [serviceBody_quiescent_repeat D _ i' q' hi]
  simp

/-- non-vacuity: the initial state of a parser is quiescent -/
example (D : Desc) : Quiescent (init D [] [] []) := by simp [Quiescent, init, Reading]

end Cat
