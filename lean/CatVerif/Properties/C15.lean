/-
  C15 — cat_service reports OK only when quiescent and always gets there.

  Proved (model of the current source; the status merge at the end of `cat_service` and the
  helper predicates are regenerated from the source, translator item T2):
  * `C15_ok_quiescent`: if the call reports OK then afterwards the unsolicited machine is idle, its
    queue is empty and the command machine is in a state that only waits for input;
  * `C15_repeat`: from such a state an immediately repeated call with no deliverable input byte
    reports OK again, writes nothing, invokes no callback, and leaves the state unchanged (the only
    logged event is the refused read);
  * `C15_ok_stable`: the two together, for `cat_service` itself (mutex calls succeeding).
  * `C15_liveness` (`Proofs/Live.lean`): the liveness half.  A measure `mu D s` — an explicit expression
    in the table size, the buffer capacities, the total number of variables and the number of
    queued events (`C15_bound`) — is decreased by every call of `cat_service` that does not report
    OK, provided no input byte arrives, the output accepts every byte, the mutex calls succeed, the
    handlers give final answers (not NEXT, DATA_NEXT or HOLD) without API calls of their own, and
    no command is held.  Hence among any `mu D s + 1` consecutive such calls one reports OK (and then
    the state is quiescent, `C15_ok_quiescent`): no livelock, no event left behind.  The state
    hypotheses (`Live`) hold in every state reached from `cat_init` in which no command is held
    (`C15_reachable_live`); the descriptor hypotheses are those of C03.
  Outside Lean: handlers that keep answering NEXT / DATA_NEXT, or keep triggering events, never let
  the library come to rest — by design; the drain runs of the correspondence check use
  terminating scripts and compare the number of calls with the model's.
-/
import CatVerif.Proofs.Quiesce
import CatVerif.Proofs.Live
import CatVerif.Properties.C03
namespace Cat
open St

theorem C15_ok_quiescent (D : Desc) (s : St) (i : SvcIn) (h : (serviceBody D s i).2 = Gen.CAT_STATUS_OK) :
    let s' := (serviceBody D s i).1
    s'.ustate = .idle ∧ s'.rcount = 0 ∧ Reading s'.state :=
  serviceBody_ok_quiescent D s i h

theorem C15_repeat (D : Desc) (s : St) (i : SvcIn)
    (h : s.ustate = .idle ∧ s.rcount = 0 ∧ Reading s.state) (hi : i.rd = none) :
    serviceBody D s i = (s.emit (.rd none), Gen.CAT_STATUS_OK) :=
  serviceBody_quiescent_repeat D s i h hi

/-- `cat_service` (no mutex configured): OK now implies OK again on a repeated call without a new
input byte, with no other effect than the refused read. -/
theorem C15_ok_stable (D : Desc) (s : St) (i i' : SvcIn) (hm : D.hasMutex = false)
    (h : (service D s i).2 = Gen.CAT_STATUS_OK) (hi : i'.rd = none) :
    service D (service D s i).1 i' = ((service D s i).1.emit (.rd none), Gen.CAT_STATUS_OK) := by
  simp only [service, withMutex, hm] at *
  exact serviceBody_quiescent_repeat D _ i' (serviceBody_ok_quiescent D s i h) hi

/-- the same with a mutex whose calls succeed: the repeated call logs lock, the refused read, unlock -/
theorem C15_ok_stable_mutex (D : Desc) (s : St) (i i' : SvcIn) (hm : D.hasMutex = true)
    (hl : i.lock = 0) (hu : i.unlock = 0) (hl' : i'.lock = 0) (hu' : i'.unlock = 0)
    (h : (service D s i).2 = Gen.CAT_STATUS_OK) (hi : i'.rd = none) :
    (service D (service D s i).1 i').2 = Gen.CAT_STATUS_OK ∧
    (service D (service D s i).1 i').1 = ((((service D s i).1.emit (.lock 0)).emit (.rd none)).emit (.unlock 0)) := by
  have e : ∀ (x : St) (j : SvcIn), j.lock = 0 → j.unlock = 0 →
      service D x j = ((serviceBody D (x.emit (.lock 0)) j).1.emit (.unlock 0), (serviceBody D (x.emit (.lock 0)) j).2) := by
    intro x j a b
    simp [service, withMutex, hm, a, b]
  rw [e s i hl hu] at h ⊢
  rw [e _ i' hl' hu']
  simp only at h ⊢
  have q := serviceBody_ok_quiescent D (s.emit (.lock 0)) i h
  have q' : Quiescent ((((serviceBody D (s.emit (Ev.lock 0)) i).1.emit (Ev.unlock 0))).emit (.lock 0)) := by
    simpa [Quiescent] using q
  rw [serviceBody_quiescent_repeat D _ i' q' hi]
  simp

/-! ### liveness -/

/-- **`cat_service` always gets there.**  From a state in which no command is held (`Live`), in any run
of calls during which no input byte arrives, the output accepts every byte, the mutex calls succeed
and the handlers give final answers, one of the first `mu D s + 1` calls reports OK. -/
theorem C15_liveness (D : Desc) (s : St) (is : List SvcIn) (hl : Live D s) (ht : ∀ i ∈ is, TermIn i)
    (hlen : mu D s < is.length) :
    ∃ k, k ≤ mu D s ∧ (runSvc D s is).2[k]? = some Gen.CAT_STATUS_OK :=
  runSvc_live D is s ht hl hlen

/-- one call: OK, or strictly less left to do; the invariants are kept -/
theorem C15_progress (D : Desc) (s : St) (i : SvcIn) (t : TermIn i) (l : Live D s) :
    Live D (service D s i).1 ∧ ((service D s i).2 = Gen.CAT_STATUS_OK ∨ mu D (service D s i).1 < mu D s) :=
  service_live D s i t l

/-- the number of calls is bounded by a constant of the descriptor (linear in the number of
variables and in the product of table size and command-buffer capacity — the command list prints
every command on a line of its own) plus a constant per queued event -/
theorem C15_bound (D : Desc) (s : St) : mu D s ≤ D.MUC + s.rcount * D.EV + FL D.unsCap + D.EV :=
  mu_le D s

/-- `runSvc` is what a history of `cat_service` calls computes -/
theorem C15_runSvc_eq (D : Desc) : ∀ (is : List SvcIn) (s : St),
    (runOps ⟨D, s⟩ (is.map .service)).2.map (·.1) = (runSvc D s is).2 ∧
    (runOps ⟨D, s⟩ (is.map .service)).1 = ⟨D, (runSvc D s is).1⟩ := by
  intro is
  induction is with
  | nil => intro s; simp [runOps, runSvc]
  | cons i r ih =>
    intro s
    simp only [List.map_cons, runOps, runSvc, apply]
    have := ih (service D { s with log := [] } i).1
    exact ⟨by simp [this.1], this.2⟩

/-- the hypotheses on the state hold in every state reached from `cat_init` in which no command is
held (descriptor hypotheses as for `C03_no_out_of_bounds`) -/
theorem C15_reachable_live (D : Desc) (buf ubuf : List Byte) (mem : List (List Byte)) (ops : List Op)
    (hok : ∀ op ∈ ops, OpOk op) (hn : 0 < D.commandsNum) (hc : 0 < D.cap) (hd : DescOk D) (hb : D.cmdCap ≤ buf.length)
    (hm : ∀ id, ∀ v ∈ (D.cmdD id).vars.getD [], v.dataSize ≤ (mem.getD v.slot []).length)
    (hh : (runOps ⟨D, init D buf ubuf mem⟩ ops).1.s.state ≠ .hold) :
    Live (runOps ⟨D, init D buf ubuf mem⟩ ops).1.D (runOps ⟨D, init D buf ubuf mem⟩ ops).1.s := by
  have g0 : Good ⟨D, init D buf ubuf mem⟩ := by
    refine ⟨hn, ⟨hd, ?_, init_ringInv D buf ubuf mem hc, ?_⟩,
      ⟨⟨by simp [init], by simp [init], by simp [NeedsCmd, init], by simp [init], by simp [init]⟩,
       ⟨by simp [NeedsUCmd, init], by simp [init], by simp [init]⟩⟩, ⟨.other ?_, .other ?_ ?_, .other ?_⟩⟩
    · intro id v hv; simpa [init, St.slotGet] using hm id v hv
    · simpa [BufOk, init] using hb
    · simp [init, St.ph, CState.ph]
    · simp [init]
    · simp [init]
    · simp [init, St.ph, UState.ph]
  have g := (runOps_noOob ops ⟨D, init D buf ubuf mem⟩ hok g0).2
  have hc' := runOps_induct (fun w => HoldCpl w.s) (fun w op ho h => apply_holdCpl w op ho h) ops ⟨D, init D buf ubuf mem⟩ hok
    (by simp [HoldCpl, init])
  exact ⟨g.num, g.wf, g.ub, g.oob, hc', hh⟩

/-- non-vacuity: the hypotheses of the liveness theorem are met by a concrete parser and by the
default environment of a call (no input, accepting output, handlers answering OK) -/
example : Live exDesc (init exDesc (List.replicate 16 0) [] [[0], [0, 0]]) ∧ TermIn ({} : SvcIn) := by
  constructor
  · have g : Good ⟨exDesc, init exDesc (List.replicate 16 0) [] [[0], [0, 0]]⟩ := by
      refine C03_init_good exDesc _ _ _ (by decide) (by decide) ⟨by decide, by decide, ?_⟩ (by decide) ?_
      · intro id v hv
        rcases exDesc_cmdD id with h | h
        · rw [h] at hv; simp at hv
        · subst h
          simp [Desc.cmdD, Desc.cmd?, exDesc, exCmd, Desc.commandsNum, cmdByIndex] at hv
          rcases hv with hv | hv <;> subst hv <;> simp [VarOk]
      · intro id v hv
        rcases exDesc_cmdD id with h | h
        · rw [h] at hv; simp at hv
        · subst h
          simp [Desc.cmdD, Desc.cmd?, exDesc, exCmd, Desc.commandsNum, cmdByIndex] at hv
          rcases hv with hv | hv <;> subst hv <;> simp
    exact ⟨g.num, g.wf, g.ub, g.oob, by simp [HoldCpl, init], by simp [init]⟩
  · exact ⟨rfl, rfl, rfl, rfl, ⟨by decide, by decide, by decide⟩, ⟨by decide, by decide, by decide⟩, rfl, rfl, rfl, rfl⟩

/-- non-vacuity: the initial state of a parser is quiescent -/
example (D : Desc) : Quiescent (init D [] [] []) := by simp [Quiescent, init, Reading]

end Cat
