/-
  C10 — Handler return codes drive the response exactly as documented.

  The four return-code switches are REGENERATED from /repo/src/cat.c on every run
  (`Gen.process_write_loop` … `Gen.process_test_loop`, translator item T3).  Proved here, for
  every integer return code (the nine enumerators and every out-of-range value) and both machines:
  * `C10_write_table` … `C10_test_table`: the generated tables ARE the documented table `respSpec`;
  * `C10_finish`, `C10_data_ok`, `C10_data_again`, `C10_again`, `C10_cmdlist`: what each outcome does
    in the step that interprets the code: which result code is started (exactly one, or none),
    whether a data unit is started and which state follows its flush (OK, or re-format + handler
    again), and that DATA units are started from the handler's current buffer;
  * `C10_after_flush`: the states that follow a flushed data unit do what their names say;
  * `C10_events_no_code`: the unsolicited machine never starts a result code, whatever the codes;
  * `C10_varcb_abort`: a non-zero variable callback ends the request with ERROR (silently for an
    event) in that very step, before any command handler can run.
  The multi-step composition ("for every SEQUENCE of codes the response consists of exactly …")
  is induction over these single steps along the transition graph; that induction is not
  mechanised (PARTIAL) and is covered by the C10 oracle over exhaustive code sequences.
-/
import CatVerif.Spec.Resp
import CatVerif.Proofs.Log
import CatVerif.Proofs.Graph
namespace Cat
open St Spec

theorem C10_write_table (ret : Int) : Gen.process_write_loop ret = callsOf .write (respSpec .write .cmd ret) := by
  unfold Gen.process_write_loop respSpec callsOf
  (repeat' split) <;> simp_all

theorem C10_run_table (ret : Int) : Gen.process_run_loop ret = callsOf .run (respSpec .run .cmd ret) := by
  unfold Gen.process_run_loop respSpec callsOf
  (repeat' split) <;> simp_all

theorem C10_read_table (ret : Int) (f : Fsm) : Gen.process_read_loop ret f = callsOf .read (respSpec .read f ret) := by
  unfold Gen.process_read_loop respSpec callsOf
  cases f <;> (repeat' split) <;> simp_all

theorem C10_test_table (ret : Int) (f : Fsm) : Gen.process_test_loop ret f = callsOf .test (respSpec .test f ret) := by
  unfold Gen.process_test_loop respSpec callsOf
  cases f <;> (repeat' split) <;> simp_all

/-- finishing: exactly one result code of the right polarity is started for a command … -/
theorem C10_finish (D : Desc) (s : St) (ok : Bool) :
    let s' := doCall D .cmd s (if ok then .endOk else .endError)
    s'.state = .flushWait ∧ s'.writeStateAfter = .reset ∧ tr .ack s'.log = tr .ack s.log ++ [.ack ok] := by
  cases ok <;> simp [doCall, endOk, endError, ackOk, ackError, startFlush, cls]

/-- … and none for an event: it simply ends -/
theorem C10_finish_event (D : Desc) (s : St) (ok : Bool) :
    let s' := doCall D .uns s (if ok then .endOk else .endError)
    s'.ustate = .idle ∧ s'.ucmd = none ∧ s'.log = s.log := by
  cases ok <;> simp [doCall, endOk, endError, unsolicitedResetState]

/-- DATA_OK: the current buffer is flushed as one unit, after which OK follows (no code started yet) -/
theorem C10_data_ok (D : Desc) (s : St) :
    (doCall D .cmd s (.startFlush .ok)).state = .flushWait ∧ (doCall D .cmd s (.startFlush .ok)).writeStateAfter = .ok ∧
    (doCall D .cmd s (.startFlush .ok)).buf = s.buf ∧ tr .ack (doCall D .cmd s (.startFlush .ok)).log = tr .ack s.log ∧
    (doCall D .uns s (.startFlush .ok)).ustate = .flushWait ∧ (doCall D .uns s (.startFlush .ok)).uwriteStateAfter = .ok := by
  simp [doCall, startFlush, cls]

/-- DATA_NEXT: the current buffer is flushed as one unit, after which the response is re-formatted -/
theorem C10_data_again (D : Desc) (s : St) (a : After) (ha : a = .fmtRead ∨ a = .fmtTest) :
    (doCall D .cmd s (.startFlush a)).state = .flushWait ∧ (doCall D .cmd s (.startFlush a)).writeStateAfter = a ∧
    (doCall D .cmd s (.startFlush a)).buf = s.buf ∧ tr .ack (doCall D .cmd s (.startFlush a)).log = tr .ack s.log := by
  rcases ha with rfl | rfl <;> simp [doCall, startFlush, cls]

/-- NEXT: re-format at once, nothing is emitted and no code started -/
theorem C10_again (D : Desc) (s : St) :
    doCall D .cmd s .startFormatRead = startFormatRead D s .cmd ∧ doCall D .cmd s .startFormatTest = startFormatTest D s .cmd ∧
    tr .wrC (startFormatRead D s .cmd).log = tr .wrC s.log := by
  refine ⟨rfl, rfl, ?_⟩
  have := startFormatRead_cmd_quiet .wrC (by decide) (by decide) D s
  simpa using this

/-- what follows a flushed data unit: OK, or a fresh format (which leads back to the handler) -/
theorem C10_after_flush (D : Desc) (s : St) (i : SvcIn) :
    (s.state = .afterFlushOk → (commandService D s i).1 = ackOk D s) ∧
    (s.state = .afterFlushFormatRead → (commandService D s i).1 = startFormatRead D s .cmd) ∧
    (s.state = .afterFlushFormatTest → (commandService D s i).1 = startFormatTest D s .cmd) ∧
    (s.ustate = .afterFlushOk → (unsolicitedEventsService D s i).1 = unsolicitedResetState s) ∧
    (s.ustate = .afterFlushFormatRead → (unsolicitedEventsService D s i).1 = startFormatRead D s .uns) := by
  refine ⟨?_, ?_, ?_, ?_, ?_⟩ <;> intro h <;> simp [commandService, unsolicitedEventsService, h, endOk]

/-- PRINT_CMD_LIST_OK: the command list is started (or, with an empty table, OK at once) -/
theorem C10_cmdlist (D : Desc) (s : St) :
    (D.commandsNum ≠ 0 → (doCall D .cmd s .startPrintCmdList).state = .printCmd ∧ (doCall D .cmd s .startPrintCmdList).index = 0) ∧
    (D.commandsNum = 0 → doCall D .cmd s .startPrintCmdList = ackOk D s) := by
  constructor <;> intro h <;> simp [doCall, startPrintCmdList, h]

/-- the unsolicited machine never starts a result code -/
theorem C10_events_no_code (D : Desc) (s : St) (i : SvcIn) :
    tr .ack (unsolicitedEventsService D s i).1.log = tr .ack s.log := by
  have := unsolicitedEventsService_quiet .ack (by decide) D s i (.of_ne (by decide) (by decide)) (.of_ne (by decide) (by decide))
  simpa using this

/-- a failing variable read callback ends a READ with ERROR at once: the only callback event of that
step is the variable callback itself — no command handler runs -/
theorem C10_varcb_abort_read (D : Desc) (s : St) (i : SvcIn) (hs : s.state = .formatReadArgs)
    (hcb : ((D.cmdD s.cmd).varAt s.index).hasRead = true) (hret : i.vc.ret ≠ 0) :
    (commandService D s i).1.state = .flushWait ∧ (commandService D s i).1.writeStateAfter = .reset ∧
    tr .ack (commandService D s i).1.log = tr .ack s.log ++ [.ack false] ∧
    tr .cbC (commandService D s i).1.log = tr .cbC s.log ++ [.varcb .cmd (s.cmd.getD 0) s.index false 0 i.vc.ret] := by
  have e : (commandService D s i).1 =
      ackError D (applyNested D .cmd false (((s.chkUb s.cmd.isSome).chkUb (decide (s.index < (D.cmdD s.cmd).varNum))).emit
        (.varcb .cmd (s.cmd.getD 0) s.index false 0 i.vc.ret)) i.vc.acts) := by
    simp [commandService, hs, formatReadArgs, varReadCb, St.cmdOf, St.idx, hcb, hret, endError]
  rw [e]
  have q1 := applyNested_quiet .ack (by decide) (by decide) D .cmd false i.vc.acts
    (((s.chkUb s.cmd.isSome).chkUb (decide (s.index < (D.cmdD s.cmd).varNum))).emit (.varcb .cmd (s.cmd.getD 0) s.index false 0 i.vc.ret))
  have q2 := applyNested_quiet .cbC (by decide) (by decide) D .cmd false i.vc.acts
    (((s.chkUb s.cmd.isSome).chkUb (decide (s.index < (D.cmdD s.cmd).varNum))).emit (.varcb .cmd (s.cmd.getD 0) s.index false 0 i.vc.ret))
  simp only [Quiet] at q1 q2
  refine ⟨by simp, by simp, ?_, ?_⟩
  · simp [ackError, startFlush, cls, q1]
  · simp [ackError, startFlush, cls, q2]

/-- the same for a WRITE: a failing variable write callback ends the command with ERROR before the
write handler (the step goes to the acknowledgement, never to WRITE_LOOP) -/
theorem C10_varcb_abort_write (D : Desc) (s : St) (v : VarD) (i : SvcIn) (hcb : v.hasWrite = true) (hret : i.vc.ret ≠ 0) :
    (varWriteCb D s v i).2 = true := by
  simp [varWriteCb, hcb, hret]

/-- an event whose variable callback fails ends silently -/
theorem C10_varcb_abort_event (D : Desc) (s : St) (i : SvcIn) (hs : s.ustate = .formatReadArgs)
    (hcb : ((D.cmdD s.ucmd).varAt s.uindex).hasRead = true) (hret : i.vu.ret ≠ 0) :
    (unsolicitedEventsService D s i).1.ustate = .idle ∧ (unsolicitedEventsService D s i).1.ucmd = none := by
  simp [unsolicitedEventsService, hs, formatReadArgs, varReadCb, St.cmdOf, St.idx, hcb, hret, endError, unsolicitedResetState]

/-- non-vacuity: DATA_NEXT from a read handler of the command machine -/
example : respSpec .read .cmd 1 = .dataThenAgain ∧ Gen.process_read_loop 1 .cmd = [.startFlush .fmtRead] := by decide

end Cat
