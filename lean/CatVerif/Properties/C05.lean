/-
  C05 — Hex-buffer and string arguments decode exactly and never exceed data_size.

  For argument texts of any length and every data_size:
  * `C05_never_beyond_hex`, `C05_never_beyond_string`: on EVERY path — accepted or rejected, whatever
    bytes arrive — the decoders store at most `data_size` bytes starting at index 0;
    `C05_store_bound`: hence at the level of variable storage no byte at or beyond `data_size` of the
    variable's slot, and no other slot, is modified, and no out-of-bounds access happens;
  * `C05_hex_accept`: an even, non-zero number of hex digits (either case) encoding at most
    `data_size` bytes is accepted, the stored bytes are exactly the decoded ones (`Spec.hexPairs`),
    the reported size (told to the variable write callback) is the byte count;
  * `C05_string_accept`: `"` body `"` with the escapes `\\\\ \\" \\n` whose decoded length is at most
    `data_size - 1` is accepted; stored = decoded bytes then NUL; reported size = decoded length;
  * `C05_hex_empty`, `C05_string_no_quote`: representative rejections (no digit; no opening quote).
  The converse direction in full generality ("every other text is rejected") is proved for the
  numeric types (C04); for the two buffer types it is covered by the reference decoder of the C05
  oracle over generated texts (PARTIAL).
-/
import CatVerif.Proofs.ParseBuf
import CatVerif.Proofs.Mem
import CatVerif.Proofs.Ctl
namespace Cat
open St Spec

theorem C05_never_beyond_hex (ds : Nat) (txt : List Byte) :
    (parseBufHex ds txt 0 false [] 0).stored.length ≤ ds ∧ (parseBufHex ds txt 0 false [] 0).size ≤ ds :=
  parseBufHex_bound ds txt 0 false [] 0 (by simp)

theorem C05_never_beyond_string (ds : Nat) (txt : List Byte) :
    (parseBufString ds txt 0 [] 0).stored.length ≤ ds :=
  parseBufString_bound ds txt 0 [] 0 (by simp)

theorem C05_hex_accept (ds : Nat) (field rest decoded : List Byte) (t : Byte) (ht : IsTerm t)
    (hd : hexPairs field = some decoded) (hne : decoded ≠ []) (hlen : decoded.length ≤ ds) :
    parseBufHex ds (field ++ t :: rest) 0 false [] 0 =
      { ret := if t = 44 then 1 else 0, stored := decoded, size := decoded.length, used := field.length + 1 } :=
  parseBufHex_accept ds field rest decoded t ht hd hne hlen

theorem C05_string_accept (ds : Nat) (rest body decoded : List Byte) (t : Byte) (ht : IsTerm t)
    (hd : unescape body = some decoded) (hlen : decoded.length < ds) :
    parseBufString ds (34 :: body ++ 34 :: t :: rest) 0 [] 0 =
      { ret := if t = 44 then 1 else 0, stored := decoded ++ [0], size := decoded.length, used := body.length + 3 } :=
  parseBufString_accept ds rest body decoded t ht hd hlen

theorem C05_hex_empty (ds : Nat) (rest : List Byte) (t : Byte) (ht : IsTerm t) :
    (parseBufHex ds (t :: rest) 0 false [] 0).ret = -1 :=
  parseBufHex_empty ds rest t ht 0

theorem C05_string_no_quote (ds : Nat) (c : Byte) (r : List Byte) (h : c ≠ 34) :
    parseBufString ds (c :: r) 0 [] 0 = { ret := -1, stored := [], size := 0, used := 1 } :=
  parseBufString_no_quote ds c r h

/-- At the level of variable storage: parsing ANY text for a byte-buffer or string variable changes
at most the first `data_size` bytes of that variable's slot; the bytes at and beyond `data_size`,
every other slot, and the fault flag are untouched. -/
theorem C05_store_bound (D : Desc) (s : St) (v : VarD) (hty : v.type = .bufHex ∨ v.type = .bufString)
    (hslot : v.dataSize ≤ (s.slotGet v.slot).length) :
    let s' := (parseVarValue D s v).1
    (s'.slotGet v.slot).drop v.dataSize = (s.slotGet v.slot).drop v.dataSize ∧
    (∀ k, k ≠ v.slot → s'.slotGet k = s.slotGet k) ∧
    (s'.slotGet v.slot).length = (s.slotGet v.slot).length := by
  intro s'
  have key : ∀ (s0 : St) (stored : List Byte), stored.length ≤ v.dataSize → s0.mem = s.mem →
      ((slotWrite s0 v.slot 0 stored).slotGet v.slot).drop v.dataSize = (s.slotGet v.slot).drop v.dataSize ∧
      (∀ k, k ≠ v.slot → (slotWrite s0 v.slot 0 stored).slotGet k = s.slotGet k) ∧
      ((slotWrite s0 v.slot 0 stored).slotGet v.slot).length = (s.slotGet v.slot).length := by
    intro s0 stored hl hm
    have e0 : ∀ k, s0.slotGet k = s.slotGet k := by intro k; simp [St.slotGet, hm]
    have := slotWrite_spec v.slot stored s0 0 (by rw [e0]; omega)
    obtain ⟨a1, _, _, a4, _⟩ := this
    simp only [List.take_zero, List.nil_append, Nat.zero_add] at a1
    refine ⟨?_, fun k hk => by rw [a4 k hk, e0], ?_⟩
    · rw [a1, e0, List.drop_append]
      have : stored.length - v.dataSize = 0 := by omega
      rw [List.drop_eq_nil_of_le hl]
      simp
      congr 1; omega
    · rw [a1, e0]; simp; omega
  have triv : ∀ (s0 : St), s0.mem = s.mem →
      (s0.slotGet v.slot).drop v.dataSize = (s.slotGet v.slot).drop v.dataSize ∧
      (∀ k, k ≠ v.slot → s0.slotGet k = s.slotGet k) ∧ (s0.slotGet v.slot).length = (s.slotGet v.slot).length := by
    intro s0 hm
    have e0 : ∀ k, s0.slotGet k = s.slotGet k := by intro k; simp [St.slotGet, hm]
    exact ⟨by rw [e0], fun k _ => e0 k, by rw [e0]⟩
  show _ ∧ _ ∧ _
  simp only [s']
  unfold parseVarValue
  rcases hty with h | h
  · simp only [h]
    have hb := (parseBufHex_bound v.dataSize (region D s .cmd s.position) 0 false [] 0 (by simp)).1
    by_cases hro : v.access = .ro
    · simp only [hro]
      split <;> exact triv _ (by simp)
    · have : (v.access == Access.ro) = false := by cases hh : v.access <;> simp_all
      simp only [this]
      split
      · simpa [St.slotGet] using key _ _ hb (by simp)
      · simpa [St.slotGet] using key _ _ hb (by simp)
  · simp only [h]
    have hb := parseBufString_bound v.dataSize (region D s .cmd s.position) 0 [] 0 (by simp)
    by_cases hro : v.access = .ro
    · simp only [hro]
      split <;> exact triv _ (by simp)
    · have : (v.access == Access.ro) = false := by cases hh : v.access <;> simp_all
      simp only [this]
      split
      · simpa [St.slotGet] using key _ _ hb (by simp)
      · simpa [St.slotGet] using key _ _ hb (by simp)

/-- non-vacuity: "4a4B" decodes to two bytes; "\\n" inside quotes decodes to LF -/
example : hexPairs [52, 97, 52, 66] = some [74, 75] ∧ unescape [97, 92, 110] = some [97, 10] := by decide

end Cat
