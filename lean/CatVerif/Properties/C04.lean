/-
  C04 — Numeric arguments are stored iff well-formed and in range, with exact value.

  All theorems are for argument texts of ANY length (induction over the digit list), every
  variable width, every byte value.  `field` is the text of one argument (no NUL, no comma),
  followed in the buffer by its terminator (`,` or NUL) and arbitrary further bytes.
  * `C04_uint_parser`, `C04_int_parser`, `C04_hex_parser`: each parser accepts exactly its grammar
    with a magnitude that fits 64 bits and returns exactly the mathematical value; anything else
    (empty field, sign only, stray byte, value beyond 64 bits — the F2 defect) is rejected;
  * `C04_uint_range`, `C04_int_range`: range validation is exactly `fits`; unsupported widths reject;
  * `C04_uint_write`, `C04_hex_write`: parser + validation + store for a writable variable:
    stored iff grammar ∧ fits, stored bytes = little-endian encoding of the mathematical value,
    rest of the slot and all other slots untouched, text consumed exactly; otherwise variable
    storage is unchanged (the variable keeps its previous value) and the step reports failure —
    which `parse_write_args` turns into ERROR without reaching the write handler (`C04_reject_error`).
  Not proved here: the NUL check of the F3 repair is a line-level fact (correspondence + oracle).
-/
import CatVerif.Proofs.WriteNum
import CatVerif.Proofs.Log
namespace Cat
open St Spec

theorem C04_uint_parser (field rest : List Byte) (t : Byte) (ht : IsTerm t) (hb : ∀ b ∈ field, b < 256 ∧ ¬ IsTerm b) :
    (IsUIntText field ∧ decValue field ≤ U64MAX →
      parseUIntDec (field ++ t :: rest) 0 false 0 =
        { ret := if t = 44 then 1 else 0, val := decValue field, used := field.length + 1 }) ∧
    (¬ (IsUIntText field ∧ decValue field ≤ U64MAX) → (parseUIntDec (field ++ t :: rest) 0 false 0).ret = -1) :=
  parseUIntDec_spec field rest t ht hb

theorem C04_int_parser (field rest : List Byte) (t : Byte) (ht : IsTerm t) (hb : ∀ b ∈ field, b < 256 ∧ ¬ IsTerm b) :
    (IsIntText field ∧ decValue (intMag field) ≤ I64MAX →
      parseIntDec (field ++ t :: rest) 0 0 false 0 =
        { ret := if t = 44 then 1 else 0, val := decValue (intMag field), neg := intNeg field, used := field.length + 1 }) ∧
    (¬ (IsIntText field ∧ decValue (intMag field) ≤ I64MAX) → (parseIntDec (field ++ t :: rest) 0 0 false 0).ret = -1) :=
  parseIntDec_spec field rest t ht hb

theorem C04_hex_parser (field rest : List Byte) (t : Byte) (ht : IsTerm t) (hb : ∀ b ∈ field, b < 256 ∧ ¬ IsTerm b) :
    (IsHexText field ∧ hexValue (hexBody field) ≤ U64MAX →
      parseNumHex (field ++ t :: rest) 0 0 0 =
        { ret := if t = 44 then 1 else 0, val := hexValue (hexBody field), used := field.length + 1 }) ∧
    (¬ (IsHexText field ∧ hexValue (hexBody field) ≤ U64MAX) → (parseNumHex (field ++ t :: rest) 0 0 0).ret = -1) :=
  parseNumHex_spec field rest t ht hb

theorem C04_uint_range (s : St) (v : VarD) (val : Nat) (hacc : v.access ≠ .ro)
    (hslot : v.dataSize ≤ (s.slotGet v.slot).length) :
    (fitsU v.dataSize val →
      (validateUIntRange s v val).2 = true ∧
      (validateUIntRange s v val).1.slotGet v.slot = leBytes v.dataSize val ++ (s.slotGet v.slot).drop v.dataSize ∧
      (validateUIntRange s v val).1.writeSize = v.dataSize ∧ (validateUIntRange s v val).1.oob = s.oob ∧
      (∀ k, k ≠ v.slot → (validateUIntRange s v val).1.slotGet k = s.slotGet k)) ∧
    (¬ fitsU v.dataSize val → validateUIntRange s v val = (s, false)) :=
  validateUIntRange_spec s v val hacc hslot

theorem C04_int_range (s : St) (v : VarD) (neg : Bool) (mag : Nat) (hacc : v.access ≠ .ro)
    (hslot : v.dataSize ≤ (s.slotGet v.slot).length) :
    let val : Int := if neg then -(mag : Int) else mag
    (fitsI v.dataSize val →
      (validateIntRange s v neg mag).2 = true ∧
      (validateIntRange s v neg mag).1.slotGet v.slot =
        leBytes v.dataSize (ofSigned (8 * v.dataSize) val) ++ (s.slotGet v.slot).drop v.dataSize ∧
      (validateIntRange s v neg mag).1.writeSize = v.dataSize ∧ (validateIntRange s v neg mag).1.oob = s.oob ∧
      (∀ k, k ≠ v.slot → (validateIntRange s v neg mag).1.slotGet k = s.slotGet k)) ∧
    (¬ fitsI v.dataSize val → validateIntRange s v neg mag = (s, false)) :=
  validateIntRange_spec s v neg mag hacc hslot

theorem C04_uint_write (D : Desc) (s : St) (v : VarD) (field rest : List Byte) (t : Byte)
    (hty : v.type = .uintDec) (hacc : v.access ≠ .ro) (hslot : v.dataSize ≤ (s.slotGet v.slot).length)
    (htxt : region D s .cmd s.position = field ++ t :: rest) (ht : IsTerm t)
    (hb : ∀ b ∈ field, b < 256 ∧ ¬ IsTerm b) :
    (IsUIntText field ∧ fitsU v.dataSize (decValue field) →
      (parseVarValue D s v).2.2 = true ∧ (parseVarValue D s v).2.1 = (if t = 44 then 1 else 0) ∧
      (parseVarValue D s v).1.slotGet v.slot = leBytes v.dataSize (decValue field) ++ (s.slotGet v.slot).drop v.dataSize ∧
      (∀ k, k ≠ v.slot → (parseVarValue D s v).1.slotGet k = s.slotGet k) ∧
      (parseVarValue D s v).1.position = s.position + field.length + 1 ∧
      (parseVarValue D s v).1.writeSize = v.dataSize ∧ (parseVarValue D s v).1.oob = s.oob) ∧
    (¬ (IsUIntText field ∧ fitsU v.dataSize (decValue field)) →
      (parseVarValue D s v).2.2 = false ∧ (parseVarValue D s v).1.mem = s.mem) :=
  parseVarValue_uint D s v field rest t hty hacc hslot htxt ht hb

theorem C04_hex_write (D : Desc) (s : St) (v : VarD) (field rest : List Byte) (t : Byte)
    (hty : v.type = .numHex) (hacc : v.access ≠ .ro) (hslot : v.dataSize ≤ (s.slotGet v.slot).length)
    (htxt : region D s .cmd s.position = field ++ t :: rest) (ht : IsTerm t)
    (hb : ∀ b ∈ field, b < 256 ∧ ¬ IsTerm b) :
    (IsHexText field ∧ fitsU v.dataSize (hexValue (hexBody field)) →
      (parseVarValue D s v).2.2 = true ∧ (parseVarValue D s v).2.1 = (if t = 44 then 1 else 0) ∧
      (parseVarValue D s v).1.slotGet v.slot = leBytes v.dataSize (hexValue (hexBody field)) ++ (s.slotGet v.slot).drop v.dataSize ∧
      (∀ k, k ≠ v.slot → (parseVarValue D s v).1.slotGet k = s.slotGet k) ∧
      (parseVarValue D s v).1.position = s.position + field.length + 1 ∧
      (parseVarValue D s v).1.writeSize = v.dataSize ∧ (parseVarValue D s v).1.oob = s.oob) ∧
    (¬ (IsHexText field ∧ fitsU v.dataSize (hexValue (hexBody field))) →
      (parseVarValue D s v).2.2 = false ∧ (parseVarValue D s v).1.mem = s.mem) :=
  parseVarValue_hex D s v field rest t hty hacc hslot htxt ht hb

/-- a rejected argument ends the command with ERROR: no variable callback, no write handler, the
machine goes straight to acknowledging ERROR -/
theorem C04_reject_error (D : Desc) (s : St) (i : SvcIn)
    (h : (parseVarValue D ((s.chkUb s.cmd.isSome).chkUb (decide (s.index < (D.cmdD s.cmd).varNum))) ((D.cmdD s.cmd).varAt s.index)).2.2 = false) :
    (parseWriteArgs D s i).1.state = .flushWait ∧ (parseWriteArgs D s i).1.writeStateAfter = .reset ∧
    tr .cbC (parseWriteArgs D s i).1.log = tr .cbC s.log := by
  unfold parseWriteArgs
  simp only [chkUb_ctl, h]
  simp [ackError, startFlush, cls]

/-- non-vacuity: "255" fits a one-byte unsigned variable and "256" does not -/
example : IsUIntText [50, 53, 53] ∧ fitsU 1 (decValue [50, 53, 53]) ∧ ¬ fitsU 1 (decValue [50, 53, 54]) := by
  refine ⟨⟨by simp, by decide⟩, ⟨Or.inl rfl, by decide⟩, ?_⟩
  intro ⟨_, h⟩; revert h; decide

end Cat
