/-
  C17 — With a real mutex, triggers from other threads are race-free and not lost.   (PARTIAL)

  What is proved is the LOGIC of the claim, over an abstract semantics of threads (Proofs/Lock.lean):
  every locking API call is `acquire; body; release` on one non-recursive lock (C16: the bodies are
  the only code that touches the parser object, and they run entirely between lock and unlock —
  shape re-extracted from the source on every run), a body is an arbitrary finite sequence of
  non-atomic accesses to the shared object, the scheduler is arbitrary.  Then:
  * `C17_mutual_exclusion`: at most one thread is ever inside a body — so no two accesses to the
    parser object are concurrent: no data race;
  * `C17_linearizable`: the object is always in the state produced by running the completed calls
    one at a time in lock-acquisition order (plus the executed prefix of the call in progress);
  * `C17_exactly_once`: therefore every invariant of the single-threaded API holds whenever no call
    is in progress — instantiated with the event-queue invariant and FIFO refinement of C13 and the
    output exclusion of C11: accepted triggers are queued exactly once in order, rejected ones
    leave no trace, whatever the interleaving.
  NOT covered by any theorem (runtime, outside Lean): the C memory model, that the user's mutex
  callbacks really implement a lock, and the OS scheduler.  That part is validated by the
  ThreadSanitizer stress run harness/threads.c (see DESIGN.md) — a sample, not a proof.
-/
import CatVerif.Proofs.Lock
import CatVerif.Proofs.RingInvP
namespace Cat
open Lock

theorem C17_mutual_exclusion {σ ω : Type} (sem : ω → Body σ) (s0 : σ) (progs : List (List ω)) (sched : List Nat) :
    Excl (run sem (start s0 progs) sched) :=
  mutual_exclusion sem _ sched (start_ok sem s0 progs).1

theorem C17_linearizable {σ ω : Type} (sem : ω → Body σ) (s0 : σ) (progs : List (List ω)) (sched : List Nat) :
    Lin sem s0 (run sem (start s0 progs) sched) :=
  linearizable sem s0 _ sched (start_ok sem s0 progs).1 (start_ok sem s0 progs).2

/-- the body of an API operation on the parser as executed under the lock.  (Any decomposition of
the body into individual accesses has the same net effect, which is all the theorems use.) -/
def apiBody (op : Op) : Body World := [fun w => (apply w op).1]

/-- Whatever the threads call and however they are scheduled, whenever no call is in progress the
event queue satisfies its invariant — so it is the FIFO of C13: accepted events are queued exactly
once, in acceptance order, rejected ones leave no trace — and the two machines are not both
writing (C11). -/
theorem C17_exactly_once (D : Desc) (buf ubuf : List Byte) (mem : List (List Byte)) (hc : 0 < D.cap)
    (progs : List (List Op)) (sched : List Nat)
    (hq : ∀ t ∈ (run apiBody (start (⟨D, init D buf ubuf mem⟩ : World) progs) sched).threads, t.cur.isNone) :
    let w := (run apiBody (start (⟨D, init D buf ubuf mem⟩ : World) progs) sched).sh
    RingInv w.D w.s ∧ FlushExcl w.s := by
  exact sequential_invariant_transfers apiBody (fun w : World => RingInv w.D w.s ∧ FlushExcl w.s)
    (⟨D, init D buf ubuf mem⟩ : World) progs sched
    ⟨init_ringInv D buf ubuf mem hc, by simp [FlushExcl, init]⟩
    (fun o w h => by
      simp only [apiBody, runBody, List.foldl_cons, List.foldl_nil]
      exact ⟨apply_ring w o h.1, apply_flushExcl w o h.2⟩)
    hq

/-- and the state is exactly that of SOME sequential history of the same calls: the completed
calls in acquisition order -/
theorem C17_sequential_history (D : Desc) (buf ubuf : List Byte) (mem : List (List Byte))
    (progs : List (List Op)) (sched : List Nat)
    (hq : ∀ t ∈ (run apiBody (start (⟨D, init D buf ubuf mem⟩ : World) progs) sched).threads, t.cur.isNone) :
    let c := run apiBody (start (⟨D, init D buf ubuf mem⟩ : World) progs) sched
    c.sh = (runOps ⟨D, init D buf ubuf mem⟩ c.done).1 := by
  intro c
  have := C17_linearizable apiBody (⟨D, init D buf ubuf mem⟩ : World) progs sched
  obtain ⟨h1, h2, _⟩ := this
  rw [h1, h2 hq]
  simp only [runBody, List.foldl_nil]
  have gen : ∀ (d : List Op) (w : World), d.foldl (fun s o => runBody (apiBody o) s) w = (runOps w d).1 := by
    intro d
    induction d with
    | nil => intro w; rfl
    | cons o r ih => intro w; simp only [List.foldl_cons, runOps]; rw [← ih]; rfl
  exact gen _ _

end Cat
