/-
  C01 — Exactly one final result code per command line, in order.

  Vocabulary (`Proofs/Line.lean`, `Proofs/Acct.lean`, `Proofs/LineHist.lean`):
  `answered s` = result codes (`ack_ok` / `ack_error`) started in the current call's log;
  `owes s` = 1 while the current line has not been given its code (everywhere except IDLE and while
  the code itself is being sent); `begins s s'` = 1 when the step takes the machine out of IDLE;
  `PostLF st` = states that lie behind the line's LF; `LineCpl s` = in those states the last consumed
  byte *is* that LF (plus the request-type bookkeeping that makes this inductive);
  `HoldCpl s` = hold flag ⇔ HOLD state; `OpOk` = event handlers do not answer HOLD (DESIGN 2.3).

  * `C01_one_code_per_line` (history level, any interleaving of API calls, any input, any table):
    codes started + code still owed = lines begun + code owed at the start.  With `C01_owes_le_one`
    lines are answered strictly one at a time, hence in order;
  * `C01_step`: the same balance for one step of the command machine, and `LineCpl` is preserved;
  * `C01_line_begins`: a line begins exactly with the first byte other than CR / LF read in IDLE;
    CR and LF in IDLE are skipped without any code (blank lines receive none);
  * `C01_code_behind_lf`: whenever a result code is being sent, the last consumed byte is the line's
    LF — no exit of the parser acknowledges a line before its LF (the F1 defect did);
  * `C01_no_read_behind_lf`: behind the LF (and during the table sweep and search) no input byte
    is consumed; `C01_idle_only_after_code`: the machine returns to IDLE only from
    AFTER_FLUSH_RESET, which `C01_code_complete` shows is entered only when the last byte of the
    code's unit has been taken by the application's `write`.
  * `C01_all_answered_at_rest` (`Proofs/MidLine.lean`): over any history from `cat_init`, whenever the
    command machine rests in a state that waits for input and the last byte it consumed was an LF
    — in particular whenever `cat_service` reports OK after an input that ends with a line break —
    it is in IDLE and the number of result codes started equals the number of lines begun: every
    line has been answered, exactly once, its code completely sent (`C01_idle_only_after_code`).
    The invariant behind it: between the first byte of a line and its LF the last consumed byte is
    not the LF (`MidLine`).
  Liveness: `C15_liveness` shows that this state of rest is reached within `mu D s + 1` calls once
  the input is exhausted, the output accepts and the handlers answer finally; together: every
  complete line gets its one result code.
-/
import CatVerif.Proofs.LineHist
import CatVerif.Proofs.MidLine
import CatVerif.Proofs.Rest
import CatVerif.Properties.C15
namespace Cat
open St

theorem C01_one_code_per_line (ops : List Op) (w : World) (hok : ∀ op ∈ ops, OpOk op) (h : LineInv w.s) :
    LineInv (runOps w ops).1.s ∧
    acksIn (runOps w ops).2 + owes (runOps w ops).1.s = owes w.s + linesBegun w ops :=
  runOps_line ops w hok h

theorem C01_owes_le_one (s : St) : owes s ≤ 1 := owes_le_one s

/-- the state `cat_init` leaves behind satisfies the invariant and owes nothing -/
theorem C01_init : LineInv ({} : St) ∧ owes ({} : St) = 0 := by
  refine ⟨⟨by simp [HoldCpl], ⟨by simp [PostLF], by simp, by simp, by simp⟩⟩, by simp [owes]⟩

theorem C01_step (D : Desc) (s : St) (i : SvcIn) (hc : HoldCpl s) (hl : LineCpl s) :
    LineCpl (commandService D s i).1 ∧
    bal (commandService D s i).1 = bal s + begins s (commandService D s i).1 :=
  ⟨commandService_lineCpl D s i hl, commandService_bal D s i hc⟩

/-- IDLE: CR and LF are skipped (no code, still IDLE); any other byte begins a line -/
theorem C01_line_begins (D : Desc) (s : St) (i : SvcIn) (hs : s.state = .idle) :
    let s' := (commandService D s i).1
    tr .ack s'.log = tr .ack s.log ∧
    (i.rd = none → s'.state = .idle) ∧
    (∀ b, i.rd = some b → (toUpper b = 10 ∨ toUpper b = 13) → s'.state = .idle) ∧
    (∀ b, i.rd = some b → toUpper b ≠ 10 → toUpper b ≠ 13 → (s'.state = .parsePrefix ∨ s'.state = .error)) := by
  unfold commandService
  simp only [hs]
  refine ⟨processIdleState_quiet .ack (by decide) s i, ?_, ?_, ?_⟩
  · intro hr; simp [processIdleState, readCmdChar, hr, St.emit, hs]
  · intro b hr hb
    simp [processIdleState, readCmdChar, hr, St.emit, hs]
    rcases hb with hb | hb <;> simp [hb, hs]
  · intro b hr h10 h13
    simp [processIdleState, readCmdChar, hr, St.emit, hs, h10, h13]
    split <;> simp

/-- while a result code is being sent, the last consumed byte is the line's LF -/
theorem C01_code_behind_lf (s : St) (hl : LineCpl s)
    (h : s.state = .afterFlushReset ∨ ((s.state = .flushWait ∨ s.state = .flushWrite) ∧ s.writeStateAfter = .reset)) :
    s.currentChar = 10 := by
  apply hl.post
  rcases h with h | ⟨h | h, _⟩ <;> simp [PostLF, h]

/-- a step that starts a result code ends in FLUSH_IO_WRITE_WAIT with AFTER_FLUSH_RESET pending,
so (by `C01_code_behind_lf`) the LF of the line was the last byte consumed -/
theorem C01_code_started (D : Desc) (s : St) (i : SvcIn) (hc : HoldCpl s)
    (h : answered (commandService D s i).1 > answered s) :
    answered (commandService D s i).1 = answered s + 1 ∧ owes s = 1 ∧ owes (commandService D s i).1 = 0 := by
  have b := commandService_bal D s i hc
  have l1 := owes_le_one s
  have hb : begins s (commandService D s i).1 = 0 := by
    by_cases hs : s.state = .idle
    · have q : answered (commandService D s i).1 = answered s := by
        unfold answered commandService; simp only [hs]
        rw [processIdleState_quiet .ack (by decide) s i]
      omega
    · simp [begins, hs]
  simp only [bal] at b
  omega

/-- behind the LF, and during the table sweep and the search, no input byte is consumed — the
`read` callback is not even called -/
theorem C01_no_read_behind_lf (D : Desc) (s : St) (i : SvcIn)
    (h : PostLF s.state ∨ s.state = .updateCommandState ∨ s.state = .searchCommand ∨ s.state = .commandFound) :
    tr .rd (commandService D s i).1.log = tr .rd s.log := by
  have af : ∀ acts, ApiFree .rd acts := fun _ => .of_ne (by decide) (by decide)
  unfold commandService
  split <;> rename_i hs <;> simp [PostLF, hs] at h
  · exact updateCommand_quiet _ D s
  · exact searchCommand_quiet _ D s
  · exact commandFound_quiet _ (by decide) (by decide) D s
  · exact commandNotFound_quiet _ (by decide) (by decide) D s
  · exact parseWriteArgs_quiet _ (by decide) (by decide) (by decide) (by decide) D s i (af _)
  · exact formatReadArgs_cmd_quiet _ (by decide) (by decide) (by decide) D s i (af _)
  · exact formatTestArgs_cmd_quiet _ (by decide) (by decide) D s
  · exact processWriteLoop_quiet _ (by decide) (by decide) (by decide) D s i (af _)
  · exact processReadLoop_cmd_quiet _ (by decide) (by decide) (by decide) D s i (af _)
  · exact processTestLoop_cmd_quiet _ (by decide) (by decide) (by decide) D s i (af _)
  · exact processRunLoop_quiet _ (by decide) (by decide) (by decide) D s i (af _)
  · exact processHoldState_quiet _ (by decide) (by decide) D s
  · exact processIoWriteWait_quiet _ s
  · exact processIoWrite_quiet _ (by decide) (by decide) D s i
  · simp [resetState, cls]; split <;> simp
  · simp
  · simp
  · simp
  · exact printCmdList_quiet _ (by decide) (by decide) D s

/-- the machine comes back to IDLE only from AFTER_FLUSH_RESET, i.e. behind a complete result code -/
theorem C01_idle_only_after_code (D : Desc) (s : St) (i : SvcIn) (h : (commandService D s i).1.state = .idle) :
    s.state = .idle ∨ s.state = .afterFlushReset := by
  by_cases h0 : s.state = .idle
  · exact Or.inl h0
  · by_cases h1 : s.state = .afterFlushReset
    · exact Or.inr h1
    · exfalso
      revert h
      unfold commandService
      split <;> rename_i hs
      · have g := graph_error D s i; rw [hs] at g; simp at g; rcases g with g | g <;> simp [g]
      · exact absurd hs h0
      · have g := graph_prefix D s i; rw [hs] at g; simp at g; rcases g with g | g | g | g <;> simp [g]
      · have g := graph_parseCommand D s i; rw [hs] at g; simp at g; rcases g with g | g | g | g | g | g <;> simp [g]
      · have g := graph_update D s; rw [hs] at g; simp at g; rcases g with g | g | g <;> simp [g]
      · have g := graph_waitRead s i; rw [hs] at g; simp at g; rcases g with g | g | g <;> simp [g]
      · have g := graph_search D s; rw [hs] at g; simp at g; rcases g with g | g | g | g <;> simp [g]
      · have g := graph_found D s; simp at g; rcases g with g | g | g | g | g <;> simp [g]
      · simp [commandNotFound]
      · have g := graph_args D s i; rw [hs] at g; simp at g; rcases g with g | g | g | g | g | g <;> simp [g]
      · have g := graph_writeArgs D s i; rw [hs] at g; simp at g; rcases g with g | g | g <;> simp [g]
      · have g := graph_formatRead D s i; rw [hs] at g; simp at g; rcases g with g | g | g <;> simp [g]
      · have g := graph_waitTest D s i; rw [hs] at g; simp at g; rcases g with g | g | g | g | g <;> simp [g]
      · have g := graph_formatTest D s; rw [hs] at g; simp at g; rcases g with g | g | g <;> simp [g]
      · have g := graph_writeLoop D s i; rw [hs] at g; simp at g; rcases g with g | g | g <;> simp [g]
      · rcases graph_readLoop D s i with g | g
        · simp [g, hs]
        · simp [loopSucc] at g; rcases g with g | g | g | g | g | g | g <;> simp [g]
      · rcases graph_testLoop D s i with g | g
        · simp [g, hs]
        · simp [loopSucc] at g; rcases g with g | g | g | g | g | g | g <;> simp [g]
      · have g := graph_runLoop D s i; rw [hs] at g; simp at g; rcases g with g | g | g | g <;> simp [g]
      · have g := graph_hold D s; rw [hs] at g; simp at g; rcases g with g | g <;> simp [g]
      · rw [graph_wait]; split <;> simp [hs]
      · have g := graph_write D s i; rw [hs] at g; simp at g
        rcases g with g | g
        · simp [g]
        · rw [g]; cases s.writeStateAfter <;> simp [After.toC]
      · exact absurd hs h1
      · simp
      · have g := startFormatRead_cmd_state D s; simp at g; rcases g with g | g | g <;> simp [g]
      · have g := startFormatTest_cmd_state D s; simp at g; rcases g with g | g | g <;> simp [g]
      · have g := graph_printCmd D s; rw [hs] at g; simp at g; rcases g with g | g <;> simp [g]

/-- FLUSH_IO_WRITE is left only when the closing line break of the unit has been sent completely
(`writeState = 2` and the terminator of that line break reached): a result code is always
emitted in full before AFTER_FLUSH_RESET, hence before IDLE and the next read -/
theorem C01_code_complete (D : Desc) (s : St) (i : SvcIn) (hs : s.state = .flushWrite)
    (h : (commandService D s i).1.state ≠ .flushWrite) :
    (writeByte D s .cmd).1 = 0 ∧ s.writeState = 2 ∧ (commandService D s i).1.state = s.writeStateAfter.toC := by
  revert h
  unfold commandService
  simp only [hs]
  unfold processIoWrite
  generalize writeByte D s .cmd = wb
  obtain ⟨ch, inb⟩ := wb
  simp only
  (repeat' split) <;> simp_all [St.emit]

/-- **Every complete line has been answered when the parser comes to rest.**  Over any history from
the initial state: if the command machine is in a state waiting for input and the last byte it
consumed was an LF, then it is in IDLE, nothing is owed, and the result codes started equal the
lines begun. -/
theorem C01_all_answered_at_rest (D : Desc) (ops : List Op) (hok : ∀ op ∈ ops, OpOk op)
    (hr : Reading (runOps ⟨D, ({} : St)⟩ ops).1.s.state) (hc : (runOps ⟨D, ({} : St)⟩ ops).1.s.currentChar = 10) :
    (runOps ⟨D, ({} : St)⟩ ops).1.s.state = .idle ∧
    acksIn (runOps ⟨D, ({} : St)⟩ ops).2 = linesBegun ⟨D, ({} : St)⟩ ops := by
  have li := C01_init
  have m0 : MidLine ({} : St) := MidLine.of_not (by simp [MidSet])
  have m := runOps_mid ops ⟨D, ({} : St)⟩ hok li.1 m0
  have acc := C01_one_code_per_line ops ⟨D, ({} : St)⟩ hok li.1
  have hid := idle_of_rest m hr hc
  refine ⟨hid, ?_⟩
  have o1 : owes (runOps ⟨D, ({} : St)⟩ ops).1.s = 0 := by simp [owes, hid]
  have := acc.2
  rw [o1, li.2] at this
  omega

/-- non-vacuity: the initial state is such a state of rest only trivially (nothing consumed yet: the
last-byte field is 0); after a blank line `\n` it is one with the LF as last byte -/
example (D : Desc) : Reading (runOps ⟨D, ({} : St)⟩ [.service { rd := some 10 }]).1.s.state ∧
    (runOps ⟨D, ({} : St)⟩ [.service { rd := some 10 }]).1.s.currentChar = 10 := by
  simp [runOps, apply, service, withMutex, serviceBody, unsolicitedEventsService, checkUnsolicitedBuffers,
    Gen.is_unsolicited_buffer_empty, commandService, processIdleState, readCmdChar, St.emit, Reading]
  cases D.hasMutex <;> simp [St.emit, toUpper, sc, uc, Gen.to_upper]

/-- the state `cat_init` leaves behind, for any descriptor and buffers -/
theorem C01_init_world (D : Desc) (buf ubuf : List Byte) (mem : List (List Byte)) :
    LineInv (init D buf ubuf mem) ∧ MidLine (init D buf ubuf mem) ∧ owes (init D buf ubuf mem) = 0 := by
  refine ⟨⟨by simp [HoldCpl, init], ⟨by simp [PostLF, init], by simp [init], by simp [init], by simp [init]⟩⟩,
    MidLine.of_not (by simp [MidSet, init]), by simp [owes, init]⟩

/-- **Every line is answered, exactly once** (C01 and the liveness of C15 composed).  Over any
history from `cat_init` (descriptor hypotheses as for `C03_no_out_of_bounds`) whose last consumed
byte is the LF of a line and which does not end in a hold: any further run of more than `mu` calls
of `cat_service` without input, with an accepting output and handlers that answer finally ends in
IDLE with both machines at rest, and over the whole history the number of result codes started
equals the number of lines begun.  (`mu` is bounded by `C15_bound`.) -/
theorem C01_every_line_answered (D : Desc) (buf ubuf : List Byte) (mem : List (List Byte)) (ops : List Op)
    (hok : ∀ op ∈ ops, OpOk op) (hn : 0 < D.commandsNum) (hc : 0 < D.cap) (hd : DescOk D) (hb : D.cmdCap ≤ buf.length)
    (hm : ∀ id, ∀ v ∈ (D.cmdD id).vars.getD [], v.dataSize ≤ (mem.getD v.slot []).length)
    (hh : (runOps ⟨D, init D buf ubuf mem⟩ ops).1.s.state ≠ .hold)
    (hlf : (runOps ⟨D, init D buf ubuf mem⟩ ops).1.s.currentChar = 10)
    (is : List SvcIn) (ht : ∀ i ∈ is, TermIn i)
    (hlen : mu (runOps ⟨D, init D buf ubuf mem⟩ ops).1.D (runOps ⟨D, init D buf ubuf mem⟩ ops).1.s < is.length) :
    let r := runOps ⟨D, init D buf ubuf mem⟩ (ops ++ is.map .service)
    r.1.s.state = .idle ∧ r.1.s.ustate = .idle ∧ r.1.s.rcount = 0 ∧
    acksIn r.2 = linesBegun ⟨D, init D buf ubuf mem⟩ (ops ++ is.map .service) := by
  have i0 := C01_init_world D buf ubuf mem
  exact lines_answered ⟨D, init D buf ubuf mem⟩ ops hok i0.1 i0.2.1 i0.2.2
    (C15_reachable_live D buf ubuf mem ops hok hn hc hd hb hm hh) hlf is ht hlen

/-- non-vacuity: after `AT` LF has been consumed the hypotheses on the end of the history hold -/
example : (runOps ⟨exDesc, init exDesc (List.replicate 16 0) [] [[0]]⟩
      [.service { rd := some 65 }, .service { rd := some 84 }, .service { rd := some 10 }]).1.s.currentChar = 10 ∧
    (runOps ⟨exDesc, init exDesc (List.replicate 16 0) [] [[0]]⟩
      [.service { rd := some 65 }, .service { rd := some 84 }, .service { rd := some 10 }]).1.s.state ≠ .hold := by
  decide

end Cat
