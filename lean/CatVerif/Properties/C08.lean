/-
  C08 — Read-only variables are never modified and write-only ones never disclosed.

  * `C08_ro_never_stored`: whatever the argument text (accepted, malformed, over range), parsing an
    argument for a read-only variable leaves variable storage byte-for-byte unchanged;
    `C08_only_parse_stores`: and the only other writer of variable storage in the whole library is
    this parse step (every other function has the frame property `mem` unchanged — Frame/Ctl lemmas);
  * `C08_wo_int`, `C08_wo_uint`, `C08_wo_hex`, `C08_wo_bufhex`, `C08_wo_string`: the text printed for
    a write-only variable is a constant (zero / zeros / empty string): it does not depend on the
    stored bytes at all;
  * `C08_read_gate`, `C08_write_gate`: a READ with nothing readable and no read handler, and a WRITE
    with nothing writable and no write handler, are answered with ERROR.
-/
import CatVerif.Proofs.WriteNum
import CatVerif.Proofs.Log
namespace Cat
open St Spec

/-- Parsing any text whatsoever for a read-only variable stores nothing. -/
theorem C08_ro_never_stored (D : Desc) (s : St) (v : VarD) (h : v.access = .ro) :
    (parseVarValue D s v).1.mem = s.mem := by
  unfold parseVarValue
  cases v.type <;> simp [h, validateIntRange, validateUIntRange] <;> (repeat' split) <;> simp

/-- no `memWrite` event either: the ghost log of stores is unchanged -/
theorem C08_ro_no_store_event (D : Desc) (s : St) (v : VarD) (h : v.access = .ro) :
    tr .mem (parseVarValue D s v).1.log = tr .mem s.log := by
  unfold parseVarValue
  cases v.type <;> simp [h, validateIntRange, validateUIntRange] <;> (repeat' split) <;> simp

/-- Outside the argument parser nothing stores into variables: e.g. the whole READ/TEST formatting
path and the acknowledgement path leave storage alone. -/
theorem C08_only_parse_stores (D : Desc) (s : St) (f : Fsm) (v : VarD) :
    (formatVar D s f v).1.mem = s.mem ∧ (formatInfoType D s f v).1.mem = s.mem ∧
    (ackOk D s).mem = s.mem ∧ (ackError D s).mem = s.mem ∧ (startFormatRead D s f).mem = s.mem := by
  refine ⟨by unfold formatVar; split <;> simp, by simp, by simp [ackOk, startFlush], by simp [ackError, startFlush], ?_⟩
  cases f <;> (simp [startFormatRead, endError, ackError, startFlush, setStateRL, unsolicitedResetState]; crunch)

theorem C08_wo_int (D : Desc) (s : St) (f : Fsm) (v : VarD) (h : v.access = .wo)
    (hs : v.dataSize = 1 ∨ v.dataSize = 2 ∨ v.dataSize = 4) :
    formatIntDecimal D s f v = printFmt D (loadUInt s v).1 f [48] := by
  unfold formatIntDecimal
  rcases hs with e | e | e <;> simp [e, h, fmtInt, decDigits]

theorem C08_wo_uint (D : Desc) (s : St) (f : Fsm) (v : VarD) (h : v.access = .wo)
    (hs : v.dataSize = 1 ∨ v.dataSize = 2 ∨ v.dataSize = 4) :
    formatUIntDecimal D s f v = printFmt D (loadUInt s v).1 f [48] := by
  unfold formatUIntDecimal
  rcases hs with e | e | e <;> simp [e, h, decDigits]

theorem C08_wo_hex (D : Desc) (s : St) (f : Fsm) (v : VarD) (h : v.access = .wo)
    (hs : v.dataSize = 1 ∨ v.dataSize = 2 ∨ v.dataSize = 4) :
    formatNumHexadecimal D s f v = printFmt D (loadUInt s v).1 f ([48, 120] ++ hexFixed (2 * v.dataSize) 0) := by
  unfold formatNumHexadecimal
  rcases hs with e | e | e <;> simp [e, h]

/-- a write-only byte buffer is printed as zeros, whatever it holds -/
theorem printHexBytes_wo (D : Desc) (f : Fsm) : ∀ (bs cs : List Byte) (s : St), bs.length = cs.length →
    printHexBytes D f true s bs = printHexBytes D f true s cs := by
  intro bs
  induction bs with
  | nil => intro cs s h; cases cs <;> simp_all
  | cons b r ih =>
    intro cs s h
    cases cs with
    | nil => simp at h
    | cons c t =>
      simp only [printHexBytes, if_true]
      split
      · exact ih t _ (by simpa using h)
      · rfl

theorem C08_wo_bufhex (D : Desc) (s : St) (f : Fsm) (v : VarD) (h : v.access = .wo) :
    formatBufferHexadecimal D s f v =
      printHexBytes D f true (s.chk (decide (v.dataSize ≤ (s.slotGet v.slot).length))) (List.replicate v.dataSize 0) := by
  unfold formatBufferHexadecimal
  simp only [h]
  apply printHexBytes_wo
  simp; omega

theorem C08_wo_string (D : Desc) (s : St) (f : Fsm) (v : VarD) (h : v.access = .wo) :
    formatBufferString D s f v = printAll D (s.chk true) f [[34], [34]] := by
  unfold formatBufferString
  simp [h, escapeStr, strlenOf]

/-- READ is refused when the command offers nothing readable and has no read handler (the name
itself fitting the buffer) -/
theorem C08_read_gate (D : Desc) (s : St) (hc : s.cmd.isSome)
    (hfit : (printAll D (s.setPos .cmd 0) .cmd [(D.cmdD s.cmd).name, [61]]).2 = true)
    (hv : varsAccessible (D.cmdD s.cmd) .ro = false) (hr : (D.cmdD s.cmd).hasRead = false) :
    (startFormatRead D s .cmd).state = .flushWait ∧ (startFormatRead D s .cmd).writeStateAfter = .reset ∧
    tr .ack (startFormatRead D s .cmd).log = tr .ack s.log ++ [.ack false] := by
  unfold startFormatRead
  simp only [St.cmdOf, setPos_frame, hc, St.chkUb, if_true] at *
  simp [hfit, hv, hr, endError, ackError, startFlush, cls]

/-- WRITE is refused when the command offers nothing writable and has no write handler -/
theorem C08_write_gate (D : Desc) (s : St) (i : SvcIn) (hs : s.state = .parseCommandArgs)
    (hrd : i.rd = some 10) (hot : (D.cmdD s.cmd).onlyTest = false)
    (hv : varsAccessible (D.cmdD s.cmd) .wo = false) (hw : (D.cmdD s.cmd).hasWrite = false) :
    (commandService D s i).1.state = .flushWait ∧ (commandService D s i).1.writeStateAfter = .reset ∧
    tr .ack (commandService D s i).1.log = tr .ack s.log ++ [.ack false] ∧
    (commandService D s i).1.mem = s.mem := by
  simp [commandService, hs, parseCommandArgs, readCmdChar, hrd, hot, hv, hw, ackError, startFlush, cls]

end Cat
