/-
  Specification of numeric argument texts (C04): grammars and mathematical values, unbounded.
-/
import CatVerif.Model.Pure
namespace Cat.Spec

def isDigit (b : Byte) : Bool := decide (48 ≤ b ∧ b ≤ 57)
def isHexDigit (b : Byte) : Bool := decide ((48 ≤ b ∧ b ≤ 57) ∨ (65 ≤ b ∧ b ≤ 70) ∨ (97 ≤ b ∧ b ≤ 102))

/-- value of a digit string continuing from an accumulated value -/
def decFrom (v : Nat) (ds : List Byte) : Nat := ds.foldl (fun a b => a * 10 + (b - 48)) v
/-- the mathematical value of a decimal digit string (any length) -/
def decValue (ds : List Byte) : Nat := decFrom 0 ds

def hexDigitValue (b : Byte) : Nat := if b ≤ 57 then b - 48 else if b ≤ 70 then b - 55 else b - 87
def hexFrom (v : Nat) (ds : List Byte) : Nat := ds.foldl (fun a b => a * 16 + hexDigitValue b) v
def hexValue (ds : List Byte) : Nat := hexFrom 0 ds

/-- unsigned decimal: one or more digits -/
def IsUIntText (t : List Byte) : Prop := t ≠ [] ∧ ∀ b ∈ t, isDigit b = true
/-- signed decimal: optional sign, then one or more digits -/
def IsIntText : List Byte → Prop
  | 43 :: ds => IsUIntText ds
  | 45 :: ds => IsUIntText ds
  | ds => IsUIntText ds
/-- hexadecimal: `0x` or `0X`, then one or more hex digits in either case -/
def IsHexText (t : List Byte) : Prop :=
  ∃ x ds, t = 48 :: x :: ds ∧ (x = 120 ∨ x = 88) ∧ ds ≠ [] ∧ ∀ b ∈ ds, isHexDigit b = true

/-- the value fits an unsigned variable of `size` bytes (1, 2 or 4) -/
def fitsU (size v : Nat) : Prop := (size = 1 ∨ size = 2 ∨ size = 4) ∧ v < 2 ^ (8 * size)
/-- the value fits a signed variable of `size` bytes -/
def fitsI (size : Nat) (v : Int) : Prop :=
  (size = 1 ∨ size = 2 ∨ size = 4) ∧ -(2 ^ (8 * size - 1) : Int) ≤ v ∧ v < 2 ^ (8 * size - 1)

/-- a field ends at a NUL or a comma -/
def IsTerm (b : Byte) : Prop := b = 0 ∨ b = 44

end Cat.Spec
