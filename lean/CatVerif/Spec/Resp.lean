/-
  The documented meaning of handler return codes (C10, cat.h, DESIGN.md Appendix G), written as a
  table from (handler kind, machine, code) to what must happen next.
-/
import CatVerif.Model.Types
namespace Cat.Spec

inductive Next
  | finishOk            -- no more data: result code OK (events: the event simply ends)
  | finishError         -- result code ERROR (events: the event simply ends)
  | dataThenOk          -- emit the current response buffer once, then OK
  | dataThenAgain       -- emit the current buffer once, re-format, invoke the handler again
  | again               -- re-format without emitting (read/test) / invoke again (write/run)
  | hold                -- suspend the command
  | cmdListThenOk       -- print the command list, then OK
  | releaseThen (ok : Bool)   -- request release of a held command with that status, then finish likewise
  deriving DecidableEq, Repr

/-- the table of cat.h for a handler of kind `k` run by machine `f` returning `ret` -/
def respSpec (k : HKind) (f : Fsm) (ret : Int) : Next :=
  match k with
  | .write =>
    if ret = 3 ∨ ret = 0 then .finishOk else if ret = 1 ∨ ret = 2 then .again else if ret = 4 then .hold else .finishError
  | .run =>
    if ret = 3 ∨ ret = 0 then .finishOk else if ret = 1 ∨ ret = 2 then .again else if ret = 4 then .hold
    else if ret = 7 then .cmdListThenOk else .finishError
  | .read =>
    if ret = 3 then .finishOk else if ret = 0 then .dataThenOk else if ret = 1 then .dataThenAgain
    else if ret = 2 then .again else if ret = 4 then .hold else if ret = 5 then .releaseThen true
    else if ret = 6 then .releaseThen false else .finishError
  | .test =>
    if ret = 3 then .finishOk else if ret = 0 then .dataThenOk else if ret = 1 then .dataThenAgain
    else if ret = 2 then .again else if ret = 4 then .hold else if ret = 5 then .releaseThen true
    else if ret = 6 then .releaseThen false
    else if ret = 7 then (match f with | .cmd => .cmdListThenOk | .uns => .finishOk)
    else .finishError

/-- the helper calls of cat.c that implement each outcome, per handler kind -/
def callsOf (k : HKind) : Next → List Call
  | .finishOk => (match k with | .write | .run => [.ackOk] | _ => [.endOk])
  | .finishError => (match k with | .write | .run => [.ackError] | _ => [.endError])
  | .dataThenOk => [.startFlush .ok]
  | .dataThenAgain => (match k with | .read => [.startFlush .fmtRead] | _ => [.startFlush .fmtTest])
  | .again => (match k with | .read => [.startFormatRead] | .test => [.startFormatTest] | _ => [])
  | .hold => [.enableHold]
  | .cmdListThenOk => [.startPrintCmdList]
  | .releaseThen ok => [.holdExit ok, if ok then .endOk else .endError]

end Cat.Spec
