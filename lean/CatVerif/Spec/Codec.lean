/-
  Specification of byte-buffer and string argument texts (C05, C07).
-/
import CatVerif.Spec.Num
namespace Cat.Spec

/-- decode pairs of hex digits (either case), `hi` being a pending high nibble; `none` for an odd
count or a non-digit -/
def hexPairsAux : Option Nat → List Byte → Option (List Byte)
  | none, [] => some []
  | some _, [] => none
  | none, a :: r => if isHexDigit a then hexPairsAux (some (hexDigitValue a)) r else none
  | some h, b :: r => if isHexDigit b then (hexPairsAux none r).map ((h * 16 + hexDigitValue b) :: ·) else none

/-- the bytes encoded by a string of hex digit pairs -/
def hexPairs (t : List Byte) : Option (List Byte) := hexPairsAux none t

/-- decode the body of a quoted string; `esc` = a backslash has just been read.  The escapes are
`\\\\`, `\\"` and `\\n`; a bare quote or a NUL cannot occur inside the body -/
def unescapeAux : Bool → List Byte → Option (List Byte)
  | false, [] => some []
  | true, [] => none
  | false, c :: r =>
    if c = 92 then unescapeAux true r
    else if c = 34 ∨ c = 0 then none
    else (unescapeAux false r).map (c :: ·)
  | true, c :: r =>
    if c = 92 then (unescapeAux false r).map (92 :: ·)
    else if c = 34 then (unescapeAux false r).map (34 :: ·)
    else if c = 110 then (unescapeAux false r).map (10 :: ·)
    else none

def unescape (body : List Byte) : Option (List Byte) := unescapeAux false body

/-- the text printed for a string value (up to its first NUL) -/
def escape : List Byte → List Byte
  | [] => []
  | c :: r =>
    if c = 0 then []
    else if c = 92 then 92 :: 92 :: escape r
    else if c = 34 then 92 :: 34 :: escape r
    else if c = 10 then 92 :: 110 :: escape r
    else c :: escape r

end Cat.Spec
