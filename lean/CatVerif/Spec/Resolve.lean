/-
  Specification of name resolution (C02), independent of the parser: given the match state of
  every table entry (0 none, 1 proper prefix, 2 equal), which entry is selected.
-/
namespace Cat.Spec

/-- the scan: first full match wins at once; otherwise count the partial matches -/
def resolveFrom (L : Nat → Nat) : (fuel k cnt : Nat) → (last : Option Nat) → Option Nat
  | 0, _, cnt, last => if cnt = 1 then last else none
  | f + 1, k, cnt, last =>
    if L k = 2 then some k
    else if L k = 1 then resolveFrom L f (k + 1) (cnt + 1) (some k)
    else resolveFrom L f (k + 1) cnt last

/-- the entry selected among the first `n` -/
def resolve (L : Nat → Nat) (n : Nat) : Option Nat := resolveFrom L n 0 0 none

/-- `j` is the right answer: the first full match, or — there being no full match — the only
partial match -/
def Selected (L : Nat → Nat) (n j : Nat) : Prop :=
  j < n ∧ ((L j = 2 ∧ ∀ i, i < j → L i ≠ 2) ∨
           (L j = 1 ∧ (∀ i, i < n → L i ≠ 2) ∧ ∀ i, i < n → i ≠ j → L i ≠ 1))

/-- nothing may be selected: no full match, and no or several partial matches -/
def Rejected (L : Nat → Nat) (n : Nat) : Prop :=
  (∀ i, i < n → L i ≠ 2) ∧
  ((∀ i, i < n → L i ≠ 1) ∨ ∃ p q, p < n ∧ q < n ∧ p ≠ q ∧ L p = 1 ∧ L q = 1)

/-- what the scan knows after `k` entries -/
structure Acc (L : Nat → Nat) (k cnt : Nat) (last : Option Nat) : Prop where
  nofull : ∀ i, i < k → L i ≠ 2
  c0 : cnt = 0 → last = none ∧ ∀ i, i < k → L i ≠ 1
  c1 : cnt = 1 → ∃ p, last = some p ∧ p < k ∧ L p = 1 ∧ ∀ i, i < k → i ≠ p → L i ≠ 1
  c2 : cnt ≥ 2 → ∃ p q, p < k ∧ q < k ∧ p ≠ q ∧ L p = 1 ∧ L q = 1

theorem Acc.init (L : Nat → Nat) : Acc L 0 0 none :=
  ⟨by intro i h; omega, by intro _; exact ⟨rfl, by intro i h; omega⟩, by intro h; omega, by intro h; omega⟩

theorem Acc.skip (L : Nat → Nat) (k cnt : Nat) (last : Option Nat) (a : Acc L k cnt last)
    (h2 : L k ≠ 2) (h1 : L k ≠ 1) : Acc L (k + 1) cnt last := by
  refine ⟨?_, ?_, ?_, ?_⟩
  · intro i hi; by_cases e : i = k; · subst e; exact h2
    · exact a.nofull i (by omega)
  · intro hc; refine ⟨(a.c0 hc).1, ?_⟩
    intro i hi; by_cases e : i = k; · subst e; exact h1
    · exact (a.c0 hc).2 i (by omega)
  · intro hc
    obtain ⟨p, hp1, hp2, hp3, hp4⟩ := a.c1 hc
    refine ⟨p, hp1, by omega, hp3, ?_⟩
    intro i hi hne; by_cases e : i = k; · subst e; exact h1
    · exact hp4 i (by omega) hne
  · intro hc
    obtain ⟨p, q, h⟩ := a.c2 hc
    exact ⟨p, q, by omega, by omega, h.2.2⟩

theorem Acc.partial (L : Nat → Nat) (k cnt : Nat) (last : Option Nat) (a : Acc L k cnt last)
    (h1 : L k = 1) : Acc L (k + 1) (cnt + 1) (some k) := by
  have h2 : L k ≠ 2 := by omega
  refine ⟨?_, ?_, ?_, ?_⟩
  · intro i hi; by_cases e : i = k; · subst e; exact h2
    · exact a.nofull i (by omega)
  · intro hc; omega
  · intro hc
    have hc0 : cnt = 0 := by omega
    refine ⟨k, rfl, by omega, h1, ?_⟩
    intro i hi hne
    exact (a.c0 hc0).2 i (by omega)
  · intro hc
    by_cases hc1 : cnt = 1
    · obtain ⟨p, _, hp2, hp3, _⟩ := a.c1 hc1
      exact ⟨p, k, by omega, by omega, by omega, hp3, h1⟩
    · obtain ⟨p, q, h⟩ := a.c2 (by omega)
      exact ⟨p, q, by omega, by omega, h.2.2⟩

/-- **The scan is correct**: what it returns is the selected entry, and it returns nothing exactly
when nothing may be selected. -/
theorem resolveFrom_spec (L : Nat → Nat) : ∀ (f k cnt : Nat) (last : Option Nat), Acc L k cnt last →
    (∀ j, resolveFrom L f k cnt last = some j → Selected L (k + f) j) ∧
    (resolveFrom L f k cnt last = none → Rejected L (k + f)) := by
  intro f
  induction f with
  | zero =>
    intro k cnt last a
    simp only [resolveFrom, Nat.add_zero]
    by_cases hc : cnt = 1
    · obtain ⟨p, hp1, hp2, hp3, hp4⟩ := a.c1 hc
      rw [if_pos hc, hp1]
      refine ⟨?_, by intro h; cases h⟩
      intro j hj
      cases hj
      exact ⟨hp2, Or.inr ⟨hp3, a.nofull, hp4⟩⟩
    · rw [if_neg hc]
      refine ⟨(by intro j h; cases h), ?_⟩
      intro _
      refine ⟨a.nofull, ?_⟩
      by_cases hc0 : cnt = 0
      · exact Or.inl (a.c0 hc0).2
      · exact Or.inr (a.c2 (by omega))
  | succ f ih =>
    intro k cnt last a
    have e : k + (f + 1) = (k + 1) + f := by omega
    simp only [resolveFrom]
    by_cases h2 : L k = 2
    · rw [if_pos h2]
      refine ⟨?_, by intro h; cases h⟩
      intro j hj
      cases hj
      exact ⟨by omega, Or.inl ⟨h2, a.nofull⟩⟩
    · rw [if_neg h2]
      by_cases h1 : L k = 1
      · rw [if_pos h1]
        rw [e]; exact ih (k + 1) (cnt + 1) (some k) (a.partial L k cnt last h1)
      · rw [if_neg h1]
        rw [e]; exact ih (k + 1) cnt last (a.skip L k cnt last h2 h1)

theorem resolve_some (L : Nat → Nat) (n j : Nat) (h : resolve L n = some j) : Selected L n j := by
  have := (resolveFrom_spec L n 0 0 none (Acc.init L)).1 j h
  simpa using this

theorem resolve_none (L : Nat → Nat) (n : Nat) (h : resolve L n = none) : Rejected L n := by
  have := (resolveFrom_spec L n 0 0 none (Acc.init L)).2 h
  simpa using this

/-- the two verdicts exclude one another, so `resolve` is determined by them -/
theorem selected_not_rejected (L : Nat → Nat) (n j : Nat) (hs : Selected L n j) (hr : Rejected L n) : False := by
  obtain ⟨hj, h | h⟩ := hs
  · exact hr.1 j hj h.1
  · rcases hr.2 with h0 | ⟨p, q, hp, hq, hne, lp, lq⟩
    · exact h0 j hj h.1
    · by_cases e : p = j
      · exact h.2.2 q hq (by omega) lq
      · exact h.2.2 p hp e lp

theorem selected_unique (L : Nat → Nat) (n j j' : Nat) (h : Selected L n j) (h' : Selected L n j') : j = j' := by
  obtain ⟨hj, a | a⟩ := h <;> obtain ⟨hj', b | b⟩ := h'
  · by_cases e : j < j'
    · exact absurd a.1 (b.2 j e)
    · by_cases e' : j' < j
      · exact absurd b.1 (a.2 j' e')
      · omega
  · exact absurd a.1 (b.2.1 j hj)
  · exact absurd b.1 (a.2.1 j' hj')
  · by_cases e : j = j'
    · exact e
    · exact absurd a.1 (b.2.2 j hj e)

end Cat.Spec
