/-
  The phases of name resolution composed: from the state right after `AT`, feeding the bytes of a
  command name one `cat_service` call at a time ends — after an explicitly bounded number of
  calls — in COMMAND_FOUND with the entry `Spec.resolve` selects for the typed name (or gives up),
  with the request type fixed by what follows the name.

  `feed` is the command machine driven by an eager input queue: each call is offered the head of
  the queue, and the byte is removed exactly when the machine was in a reading state (the only
  states in which it calls `io->read`, `C12_only_readers_read`).  The other components of the
  call's inputs (`tmpl`: write readiness, handler answers) are arbitrary.
-/
import CatVerif.Proofs.Resolve
import CatVerif.Proofs.Quiesce
import CatVerif.Proofs.Region
namespace Cat
open St

/-- the command machine fed from an input queue, `n` calls -/
def feed (D : Desc) (tmpl : SvcIn) : Nat → St → List Byte → St × List Byte
  | 0, s, bs => (s, bs)
  | n + 1, s, bs =>
    feed D tmpl n (commandService D s { tmpl with rd := bs.head? }).1 (if Reading s.state then bs.tail else bs)

theorem feed_add (D : Desc) (tmpl : SvcIn) (m n : Nat) : ∀ (s : St) (bs : List Byte),
    feed D tmpl (m + n) s bs = feed D tmpl n (feed D tmpl m s bs).1 (feed D tmpl m s bs).2 := by
  induction m with
  | zero => intro s bs; simp [feed]
  | succ m ih =>
    intro s bs
    rw [show m + 1 + n = (m + n) + 1 by omega]
    simp only [feed]
    exact ih _ _

/-! ### the sweep, as calls -/

theorem updateCommand_inner_ct (D : Desc) (s : St) (h : s.index + 1 < D.commandsNum) :
    (updateCommand D s).1.cmdType = s.cmdType := by
  have ⟨a, _, _, d, e⟩ := updateLane_fields D (s.chkUb (decide (s.index < D.commandsNum)))
  simp only [chkUb_ctl] at a d e
  unfold updateCommand updateAdvance
  simp only [a, d]
  have : ¬ s.index + 1 ≥ D.commandsNum := by omega
  simp [this, e]

theorem updateIter_ct (D : Desc) (typed : List Byte) (ch : Byte) (s : St)
    (hcap : D.commandsNum ≤ 4 * D.cmdCap) (hbuf : D.cmdCap ≤ s.buf.length)
    (hlen : s.length = typed.length + 1) (hch : s.currentChar = ch) (hi0 : s.index = 0)
    (h : Lanes D s typed) : ∀ n, n < D.commandsNum → (updateIter D n s).cmdType = s.cmdType := by
  intro n
  induction n with
  | zero => intro _; rfl
  | succ n ih =>
    intro hn
    have ⟨a, _, _, _, _, _⟩ := updateIter_partial D typed ch s hcap hbuf hlen hch hi0 h n (by omega)
    simp only [updateIter]
    rw [updateCommand_inner_ct D _ (by omega), ih (by omega)]

/-- `sweep_total` with the buffer length and the request type carried along -/
theorem sweep_total' (D : Desc) (typed : List Byte) (ch : Byte) (s : St)
    (hcap : D.commandsNum ≤ 4 * D.cmdCap) (hbuf : D.cmdCap ≤ s.buf.length) (hnum : 0 < D.commandsNum)
    (hlen : s.length = typed.length + 1) (hch : s.currentChar = ch) (hi0 : s.index = 0)
    (h : Lanes D s typed) :
    let s' := updateIter D D.commandsNum s
    Lanes D s' (typed ++ [ch]) ∧ s'.index = 0 ∧ s'.length = s.length ∧ s'.buf.length = s.buf.length ∧
    ((s'.state = .parseCommandChar ∧ s'.cmdType = s.cmdType) ∨
     (s'.state = .searchCommand ∧ s'.cmdType = .write ∧ s'.partialCntr = 0 ∧ s'.cmd = none)) := by
  obtain ⟨m, hm⟩ : ∃ m, D.commandsNum = m + 1 := ⟨D.commandsNum - 1, by omega⟩
  have ⟨a, b, c, d, e, _⟩ := updateIter_partial D typed ch s hcap hbuf hlen hch hi0 h m (by omega)
  have hct := updateIter_ct D typed ch s hcap hbuf hlen hch hi0 h m (by omega)
  have hs := updateCommand_sweep D (updateIter D m s) typed ch hcap (by omega) (by omega) (by omega) (by rw [d, hch]) (by rw [a]; exact b)
  have ⟨t1, t2, t3, t4⟩ := sweep_total D typed ch s hcap hbuf hnum hlen hch hi0 h
  refine ⟨t1, t2, t3, ?_, ?_⟩
  · simp only [hm, updateIter]; rw [hs.2.2.2, e]
  · rcases t4 with t4 | t4
    · left; refine ⟨t4.1, ?_⟩
      rw [t4.2, hm, Nat.add_sub_cancel, hct]
    · right; exact t4

/-- `n ≤ commandsNum` calls in UPDATE_COMMAND_STATE are `n` steps of the sweep; no input is taken -/
theorem feed_sweep (D : Desc) (tmpl : SvcIn) (typed : List Byte) (ch : Byte) (s : St) (bs : List Byte)
    (hst : s.state = .updateCommandState)
    (hcap : D.commandsNum ≤ 4 * D.cmdCap) (hbuf : D.cmdCap ≤ s.buf.length)
    (hlen : s.length = typed.length + 1) (hch : s.currentChar = ch) (hi0 : s.index = 0)
    (h : Lanes D s typed) : ∀ n, n ≤ D.commandsNum → feed D tmpl n s bs = (updateIter D n s, bs) := by
  intro n
  induction n with
  | zero => intro _; rfl
  | succ n ih =>
    intro hn
    have ⟨_, _, _, _, _, f⟩ := updateIter_partial D typed ch s hcap hbuf hlen hch hi0 h n (by omega)
    rw [feed_add, ih (by omega)]
    have hs : (updateIter D n s).state = .updateCommandState := by rw [f, hst]
    simp only [feed, updateIter]
    have hr : ¬ Reading (updateIter D n s).state := by rw [hs]; unfold Reading; simp
    rw [if_neg hr]
    unfold commandService
    simp [hs]

/-! ### the search, as calls -/

theorem feed_search (D : Desc) (tmpl : SvcIn) : ∀ (f : Nat) (s : St) (bs : List Byte),
    s.state = .searchCommand → ∃ m, m ≤ f ∧ feed D tmpl m s bs = (searchIter D f s, bs) := by
  intro f
  induction f with
  | zero => intro s bs _; exact ⟨0, Nat.le_refl _, rfl⟩
  | succ f ih =>
    intro s bs hst
    have hr : ¬ Reading s.state := by rw [hst]; unfold Reading; simp
    have h1 : feed D tmpl 1 s bs = ((searchCommand D s).1, bs) := by
      simp only [feed, if_neg hr]
      unfold commandService
      simp [hst]
    simp only [searchIter, hst, if_true]
    by_cases hs1 : (searchCommand D s).1.state = .searchCommand
    · obtain ⟨m, hm, e⟩ := ih (searchCommand D s).1 bs hs1
      refine ⟨1 + m, by omega, ?_⟩
      rw [feed_add, h1]
      exact e
    · refine ⟨1, by omega, ?_⟩
      rw [h1, searchIter_stop D f _ hs1]

/-! ### the name -/

theorem snoc_ind {α : Type} {P : List α → Prop} (hnil : P []) (hsnoc : ∀ l a, P l → P (l ++ [a])) : ∀ l, P l := by
  have : ∀ l : List α, P l.reverse := by
    intro l
    induction l with
    | nil => exact hnil
    | cons a l ih => rw [List.reverse_cons]; exact hsnoc _ _ ih
  intro l
  have h := this l.reverse
  rwa [List.reverse_reverse] at h

/-- a byte the parser accepts as part of a command name -/
def NameCh (b : Byte) : Prop :=
  isNameChar (toUpper b) = true ∧ toUpper b ≠ 10 ∧ toUpper b ≠ 13 ∧ toUpper b ≠ 63 ∧ toUpper b ≠ 61

theorem feed_name_char (D : Desc) (tmpl : SvcIn) (s : St) (b : Byte) (rest : List Byte)
    (hs : s.state = .parseCommandChar) (hn : NameCh b) :
    let s' := (feed D tmpl 1 s (b :: rest)).1
    (feed D tmpl 1 s (b :: rest)).2 = rest ∧
    s'.state = .updateCommandState ∧ s'.length = s.length + 1 ∧ s'.currentChar = toUpper b ∧
    s'.buf = s.buf ∧ s'.index = s.index ∧ s'.cmdType = s.cmdType := by
  have hr : Reading s.state := by rw [hs]; unfold Reading; simp
  obtain ⟨h0, h1, h2, h3, h4⟩ := hn
  simp only [feed, if_pos hr, List.head?_cons, List.tail_cons]
  refine ⟨trivial, ?_⟩
  unfold commandService parseCommand readCmdChar
  simp [hs, St.emit, h0, h1, h2, h3, h4]

/-- where the name phase stands after the bytes `p` have been taken from the queue -/
structure NameAt (D : Desc) (s0 s' : St) (p : List Byte) : Prop where
  lanes : Lanes D s' (p.map toUpper)
  index : s'.index = 0
  length : s'.length = p.length
  buflen : s'.buf.length = s0.buf.length

/-- **The name phase.**  Feeding name characters `cs` (followed by anything, `rest`) from the state
after `AT`: after at most `|cs| * (commandsNum + 1)` calls a prefix `p` of `cs` has been taken and
the match-state table reflects exactly `p` (case-folded); either all of `cs` was taken and the
parser waits for the next character with the request type still RUN, or (`p` non-empty) an
implicit-write command was matched in full by `p` and the search has started as a WRITE request,
the remaining characters being left in the queue as its argument text. -/
theorem feed_name (D : Desc) (tmpl : SvcIn) (s0 : St)
    (hcap : D.commandsNum ≤ 4 * D.cmdCap) (hbuf : D.cmdCap ≤ s0.buf.length) (hnum : 0 < D.commandsNum)
    (hst : s0.state = .parseCommandChar) (hl0 : Lanes D s0 []) (hlen : s0.length = 0) (hidx : s0.index = 0)
    (hct : s0.cmdType = .run) :
    ∀ (cs : List Byte), (∀ b ∈ cs, NameCh b) → ∀ (rest : List Byte),
    ∃ (n : Nat) (p q : List Byte) (s' : St), n ≤ cs.length * (D.commandsNum + 1) ∧ cs = p ++ q ∧
      feed D tmpl n s0 (cs ++ rest) = (s', q ++ rest) ∧ NameAt D s0 s' p ∧
      ((q = [] ∧ s'.state = .parseCommandChar ∧ s'.cmdType = .run) ∨
       (p ≠ [] ∧ s'.state = .searchCommand ∧ s'.cmdType = .write ∧ s'.partialCntr = 0 ∧ s'.cmd = none)) := by
  intro cs
  induction cs using snoc_ind with
  | hnil =>
    intro _ rest
    exact ⟨0, [], [], s0, by omega, rfl, rfl, ⟨hl0, hidx, hlen, rfl⟩, Or.inl ⟨rfl, hst, hct⟩⟩
  | hsnoc cs c ih =>
    intro hall rest
    obtain ⟨n, p, q, s1, hn, hpq, hf, hat, hcase⟩ := ih (fun b hb => hall b (by simp [hb])) (c :: rest)
    have hc : NameCh c := hall c (by simp)
    have hqr : cs ++ [c] ++ rest = cs ++ c :: rest := by simp
    rcases hcase with ⟨hq, hs1, hct1⟩ | hB
    · -- all of cs taken: read c, then sweep
      subst hq
      simp only [List.append_nil] at hpq
      subst hpq
      have ⟨r0, r1, r2, r3, r4, r5, r6⟩ := feed_name_char D tmpl s1 c rest hs1 hc
      generalize hs2 : (feed D tmpl 1 s1 (c :: rest)).1 = s2 at r1 r2 r3 r4 r5 r6
      have hl2 : Lanes D s2 (cs.map toUpper) := by
        intro j hj; rw [laneOf_congr D s2 s1 j r4]; exact hat.lanes j hj
      have hb2 : D.cmdCap ≤ s2.buf.length := by rw [r4, hat.buflen]; exact hbuf
      have hlen2 : s2.length = (cs.map toUpper).length + 1 := by rw [r2, hat.length, List.length_map]
      have hi2 : s2.index = 0 := by rw [r5, hat.index]
      have hsw := feed_sweep D tmpl (cs.map toUpper) (toUpper c) s2 rest r1 hcap hb2 hlen2 r3 hi2 hl2
        D.commandsNum (Nat.le_refl _)
      have ⟨t1, t2, t3, t4, t5⟩ := sweep_total' D (cs.map toUpper) (toUpper c) s2 hcap hb2 hnum hlen2 r3 hi2 hl2
      refine ⟨n + (1 + D.commandsNum), cs ++ [c], [], updateIter D D.commandsNum s2, ?_, by simp, ?_, ?_, ?_⟩
      · simp only [List.length_append, List.length_cons, List.length_nil, Nat.zero_add]
        rw [Nat.add_mul]
        generalize cs.length * (D.commandsNum + 1) = X at hn ⊢
        omega
      · rw [feed_add, hqr, hf]
        simp only [List.nil_append]
        rw [feed_add]
        have : feed D tmpl 1 s1 (c :: rest) = (s2, rest) := Prod.ext hs2 r0
        rw [this]
        exact hsw
      · refine ⟨?_, t2, ?_, ?_⟩
        · simpa using t1
        · rw [t3, hlen2]; simp
        · rw [t4, r4, hat.buflen]
      · rcases t5 with t5 | t5
        · left; exact ⟨rfl, t5.1, by rw [t5.2, r6, hct1]⟩
        · right; exact ⟨by simp, t5⟩
    · -- an implicit-write command was matched earlier: c stays in the queue
      refine ⟨n, p, q ++ [c], s1, ?_, by rw [hpq]; simp, ?_, hat, Or.inr hB⟩
      · simp only [List.length_append, List.length_cons, List.length_nil, Nat.zero_add]
        rw [Nat.add_mul]
        generalize cs.length * (D.commandsNum + 1) = X at hn ⊢
        omega
      · rw [hqr, hf]; simp

/-! ### a whole RUN line -/

/-- **From `AT` to COMMAND_FOUND.**  Feeding a non-empty name `cs` and then LF from the state
after `AT`: after at most `(|cs| + 1) * (commandsNum + 1)` calls the parser has taken a prefix
`p` of the name and stands — if the table has an entry `j` that `Spec.resolve` selects for the
case-folded `p` — in COMMAND_FOUND with `cmd = j`, and otherwise has given up (→ ERROR).  Either
`p` is the whole name, LF has been taken too and the request is RUN; or an implicit-write command
was matched in full by `p`, the request is WRITE and the rest of the line is still in the queue. -/
theorem feed_line (D : Desc) (tmpl : SvcIn) (s0 : St)
    (hcap : D.commandsNum ≤ 4 * D.cmdCap) (hbuf : D.cmdCap ≤ s0.buf.length) (hnum : 0 < D.commandsNum)
    (hst : s0.state = .parseCommandChar) (hl0 : Lanes D s0 []) (hlen : s0.length = 0) (hidx : s0.index = 0)
    (hct : s0.cmdType = .run)
    (cs : List Byte) (hne : cs ≠ []) (hall : ∀ b ∈ cs, NameCh b) (rest : List Byte) :
    ∃ (n : Nat) (p q : List Byte) (s' : St), n ≤ (cs.length + 1) * (D.commandsNum + 1) ∧ cs = p ++ q ∧ p ≠ [] ∧
      ((q = [] ∧ feed D tmpl n s0 (cs ++ 10 :: rest) = (s', rest) ∧ s'.cmdType = .run) ∨
       (feed D tmpl n s0 (cs ++ 10 :: rest) = (s', q ++ 10 :: rest) ∧ s'.cmdType = .write)) ∧
      (∀ j, Spec.resolve (Spec.lane D (p.map toUpper)) D.commandsNum = some j →
          s'.state = .commandFound ∧ s'.cmd = some j) ∧
      (Spec.resolve (Spec.lane D (p.map toUpper)) D.commandsNum = none → NotFound s') := by
  obtain ⟨n, p, q, s1, hn, hpq, hf, hat, hcase⟩ :=
    feed_name D tmpl s0 hcap hbuf hnum hst hl0 hlen hidx hct cs hall (10 :: rest)
  have hmul : (cs.length + 1) * (D.commandsNum + 1) = cs.length * (D.commandsNum + 1) + (D.commandsNum + 1) := by
    rw [Nat.add_mul]; omega
  rcases hcase with ⟨hq, hs1, hct1⟩ | ⟨hp, hs1, hct1, hpc, hcmd⟩
  · -- LF after the whole name
    subst hq
    simp only [List.append_nil] at hpq
    subst hpq
    have hr : Reading s1.state := by rw [hs1]; unfold Reading; simp
    have hl1 : s1.length ≠ 0 := by
      rw [hat.length]; cases cs with
      | nil => exact absurd rfl hne
      | cons _ _ => simp
    have t10 : toUpper 10 = 10 := by decide
    have t61 : toUpper 61 = 61 := by decide
    have hstep : feed D tmpl 1 s1 (10 :: rest) =
        ({ prepareSearchCommand (s1.emit (.rd (some 10))) with state := .searchCommand, currentChar := 10 }, rest) := by
      simp only [feed, if_pos hr, List.head?_cons, List.tail_cons]
      unfold commandService parseCommand readCmdChar
      simp [hs1, St.emit, t10, hl1, prepareSearchCommand]
    generalize hs2 : ({ prepareSearchCommand (s1.emit (.rd (some 10))) with state := .searchCommand, currentChar := 10 } : St) = s2 at hstep
    have e2 : s2.state = .searchCommand ∧ s2.index = 0 ∧ s2.partialCntr = 0 ∧ s2.cmd = none ∧ s2.buf = s1.buf ∧
        s2.cmdType = s1.cmdType := by subst hs2; simp [prepareSearchCommand, St.emit]
    have hl2 : Lanes D s2 (cs.map toUpper) := by
      intro j hj; rw [laneOf_congr D s2 s1 j e2.2.2.2.2.1]; exact hat.lanes j hj
    obtain ⟨m, hm, hfs⟩ := feed_search D tmpl D.commandsNum s2 rest e2.1
    have ⟨u1, u2, u3, u4⟩ := search_total D (cs.map toUpper) s2 hnum e2.1 e2.2.1 e2.2.2.1 e2.2.2.2.1 hl2
    refine ⟨n + (1 + m), cs, [], searchIter D D.commandsNum s2, by omega, by simp, hne, ?_, u3, u4⟩
    left
    refine ⟨rfl, ?_, by rw [u1, e2.2.2.2.2.2, hct1]⟩
    rw [feed_add, hf]
    simp only [List.nil_append]
    rw [feed_add, hstep]
    exact hfs
  · -- implicit write: the search runs on the prefix, nothing more is taken
    obtain ⟨m, hm, hfs⟩ := feed_search D tmpl D.commandsNum s1 (q ++ 10 :: rest) hs1
    have ⟨u1, u2, u3, u4⟩ := search_total D (p.map toUpper) s1 hnum hs1 hat.index hpc hcmd hat.lanes
    refine ⟨n + m, p, q, searchIter D D.commandsNum s1, by omega, hpq, hp, ?_, u3, u4⟩
    right
    refine ⟨?_, by rw [u1, hct1]⟩
    rw [feed_add, hf]
    exact hfs

/-! ### all three request forms that start a search -/

/-- what may follow the name, and the request type it selects: LF — RUN; `?` LF — READ; `=` — WRITE
(the argument text follows; `=?` becomes TEST later, in PARSE_COMMAND_ARGS: `C02_suffix_test`) -/
def Suffix (sfx : List Byte) (typ : CmdType) : Prop :=
  (sfx = [10] ∧ typ = .run) ∨ (sfx = [63, 10] ∧ typ = .read) ∨ (sfx = [61] ∧ typ = .write)

/-- after a non-empty name, each suffix starts the search with its request type; the table is untouched -/
theorem feed_suffix (D : Desc) (tmpl : SvcIn) (s1 : St) (sfx : List Byte) (typ : CmdType) (rest : List Byte)
    (hs1 : s1.state = .parseCommandChar) (hl1 : s1.length ≠ 0) (hct1 : s1.cmdType = .run) (h : Suffix sfx typ) :
    ∃ (k : Nat) (s2 : St), k ≤ 2 ∧ feed D tmpl k s1 (sfx ++ rest) = (s2, rest) ∧
      s2.state = .searchCommand ∧ s2.index = 0 ∧ s2.partialCntr = 0 ∧ s2.cmd = none ∧ s2.buf = s1.buf ∧ s2.cmdType = typ := by
  have hr : Reading s1.state := by rw [hs1]; unfold Reading; simp
  have t10 : toUpper 10 = 10 := by decide
  have t61 : toUpper 61 = 61 := by decide
  have t63 : toUpper 63 = 63 := by decide
  rcases h with ⟨rfl, rfl⟩ | ⟨rfl, rfl⟩ | ⟨rfl, rfl⟩
  · refine ⟨1, (commandService D s1 { tmpl with rd := some 10 }).1, by omega, ?_, ?_⟩
    · simp only [feed, if_pos hr, List.cons_append, List.nil_append, List.head?_cons, List.tail_cons]
    · unfold commandService parseCommand readCmdChar
      simp [hs1, St.emit, t10, hl1, prepareSearchCommand, hct1]
  · -- `?` then LF
    have h1 : feed D tmpl 1 s1 (63 :: 10 :: rest) = ((commandService D s1 { tmpl with rd := some 63 }).1, 10 :: rest) := by
      simp only [feed, if_pos hr, List.head?_cons, List.tail_cons]
    generalize hs2 : (commandService D s1 { tmpl with rd := some 63 }).1 = sa at h1
    have ea : sa.state = .waitReadAck ∧ sa.cmdType = .read ∧ sa.buf = s1.buf := by
      rw [← hs2]
      unfold commandService parseCommand readCmdChar
      simp [hs1, St.emit, t63, hl1]
    have hra : Reading sa.state := by rw [ea.1]; unfold Reading; simp
    refine ⟨2, (commandService D sa { tmpl with rd := some 10 }).1, by omega, ?_, ?_⟩
    · rw [show (2 : Nat) = 1 + 1 from rfl, feed_add]
      simp only [List.cons_append, List.nil_append]
      rw [h1]
      simp only [feed, if_pos hra, List.head?_cons, List.tail_cons]
    · have := ea
      unfold commandService waitReadAcknowledge readCmdChar
      simp [ea.1, St.emit, t10, prepareSearchCommand, ea.2.1, ea.2.2]
  · refine ⟨1, (commandService D s1 { tmpl with rd := some 61 }).1, by omega, ?_, ?_⟩
    · simp only [feed, if_pos hr, List.cons_append, List.nil_append, List.head?_cons, List.tail_cons]
    · unfold commandService parseCommand readCmdChar
      simp [hs1, St.emit, t10, t61, hl1, prepareSearchCommand]

/-- **From `AT` to COMMAND_FOUND, for RUN, READ and WRITE requests.** -/
theorem feed_request (D : Desc) (tmpl : SvcIn) (s0 : St)
    (hcap : D.commandsNum ≤ 4 * D.cmdCap) (hbuf : D.cmdCap ≤ s0.buf.length) (hnum : 0 < D.commandsNum)
    (hst : s0.state = .parseCommandChar) (hl0 : Lanes D s0 []) (hlen : s0.length = 0) (hidx : s0.index = 0)
    (hct : s0.cmdType = .run)
    (cs : List Byte) (hne : cs ≠ []) (hall : ∀ b ∈ cs, NameCh b) (sfx : List Byte) (typ : CmdType) (hsfx : Suffix sfx typ)
    (rest : List Byte) :
    ∃ (n : Nat) (p q : List Byte) (s' : St), n ≤ (cs.length + 1) * (D.commandsNum + 1) + 1 ∧ cs = p ++ q ∧ p ≠ [] ∧
      ((q = [] ∧ feed D tmpl n s0 (cs ++ (sfx ++ rest)) = (s', rest) ∧ s'.cmdType = typ) ∨
       (feed D tmpl n s0 (cs ++ (sfx ++ rest)) = (s', q ++ (sfx ++ rest)) ∧ s'.cmdType = .write)) ∧
      (∀ j, Spec.resolve (Spec.lane D (p.map toUpper)) D.commandsNum = some j →
          s'.state = .commandFound ∧ s'.cmd = some j) ∧
      (Spec.resolve (Spec.lane D (p.map toUpper)) D.commandsNum = none → NotFound s') := by
  obtain ⟨n, p, q, s1, hn, hpq, hf, hat, hcase⟩ :=
    feed_name D tmpl s0 hcap hbuf hnum hst hl0 hlen hidx hct cs hall (sfx ++ rest)
  have hmul : (cs.length + 1) * (D.commandsNum + 1) = cs.length * (D.commandsNum + 1) + (D.commandsNum + 1) := by
    rw [Nat.add_mul]; omega
  rcases hcase with ⟨hq, hs1, hct1⟩ | ⟨hp, hs1, hct1, hpc, hcmd⟩
  · subst hq
    simp only [List.append_nil] at hpq
    subst hpq
    have hl1 : s1.length ≠ 0 := by
      rw [hat.length]; cases cs with
      | nil => exact absurd rfl hne
      | cons _ _ => simp
    obtain ⟨k, s2, hk, hfk, e1, e2, e3, e4, e5, e6⟩ := feed_suffix D tmpl s1 sfx typ rest hs1 hl1 hct1 hsfx
    have hl2 : Lanes D s2 (cs.map toUpper) := by
      intro j hj; rw [laneOf_congr D s2 s1 j e5]; exact hat.lanes j hj
    obtain ⟨m, hm, hfs⟩ := feed_search D tmpl D.commandsNum s2 rest e1
    have ⟨u1, u2, u3, u4⟩ := search_total D (cs.map toUpper) s2 hnum e1 e2 e3 e4 hl2
    refine ⟨n + (k + m), cs, [], searchIter D D.commandsNum s2, by omega, by simp, hne, ?_, u3, u4⟩
    left
    refine ⟨rfl, ?_, by rw [u1, e6]⟩
    rw [feed_add, hf]
    simp only [List.nil_append]
    rw [feed_add, hfk]
    exact hfs
  · obtain ⟨m, hm, hfs⟩ := feed_search D tmpl D.commandsNum s1 (q ++ (sfx ++ rest)) hs1
    have ⟨u1, u2, u3, u4⟩ := search_total D (p.map toUpper) s1 hnum hs1 hat.index hpc hcmd hat.lanes
    refine ⟨n + m, p, q, searchIter D D.commandsNum s1, by omega, hpq, hp, ?_, u3, u4⟩
    right
    refine ⟨?_, by rw [u1, hct1]⟩
    rw [feed_add, hf]
    exact hfs

/-! ### the `AT` prefix -/

/-- From IDLE, `A`/`a` then `T`/`t` lead to the state from which `feed_name`/`feed_line` start: every
enabled entry is a candidate, nothing typed yet, request type RUN. -/
theorem feed_at (D : Desc) (tmpl : SvcIn) (s : St) (a t : Byte) (rest : List Byte)
    (hs : s.state = .idle) (ha : toUpper a = 65) (ht : toUpper t = 84)
    (hcap : D.commandsNum ≤ 4 * D.cmdCap) (hbuf : D.cmdCap ≤ s.buf.length) :
    let s' := (feed D tmpl 2 s (a :: t :: rest)).1
    (feed D tmpl 2 s (a :: t :: rest)).2 = rest ∧ s'.state = .parseCommandChar ∧ Lanes D s' [] ∧
    s'.length = 0 ∧ s'.index = 0 ∧ s'.cmdType = .run ∧ s'.buf.length = s.buf.length := by
  have hr : Reading s.state := by rw [hs]; unfold Reading; simp
  have h1 : feed D tmpl 1 s (a :: t :: rest) =
      ({ s.emit (.rd (some a)) with currentChar := 65, state := .parsePrefix }, t :: rest) := by
    simp only [feed, if_pos hr, List.head?_cons, List.tail_cons]
    unfold commandService processIdleState readCmdChar
    simp [hs, St.emit, ha]
  generalize hs1 : ({ s.emit (.rd (some a)) with currentChar := 65, state := .parsePrefix } : St) = s1 at h1
  have e1 : s1.state = .parsePrefix ∧ s1.buf = s.buf := by subst hs1; simp [St.emit]
  have hr1 : Reading s1.state := by rw [e1.1]; unfold Reading; simp
  have h2 : feed D tmpl 1 s1 (t :: rest) =
      ({ prepareParseCommand D ({ s1.emit (.rd (some t)) with currentChar := 84 }) with state := .parseCommandChar }, rest) := by
    simp only [feed, if_pos hr1, List.head?_cons, List.tail_cons]
    unfold commandService parsePrefix readCmdChar
    simp [e1.1, St.emit, ht]
  rw [show (2 : Nat) = 1 + 1 from rfl, feed_add, h1]
  simp only []
  rw [h2]
  simp only []
  generalize hs2 : ({ s1.emit (.rd (some t)) with currentChar := 84 } : St) = s2
  have e2 : s2.buf = s.buf := by subst hs2; simp [St.emit, e1.2]
  have hl := prepareParseCommand_lanes D s2 hcap (by rw [e2]; exact hbuf)
  refine ⟨trivial, trivial, ?_, by simp [prepareParseCommand], by simp [prepareParseCommand],
    by simp [prepareParseCommand], ?_⟩
  · intro j hj
    exact (laneOf_congr D ({ prepareParseCommand D s2 with state := .parseCommandChar }) (prepareParseCommand D s2) j rfl).trans (hl j hj)
  · simp only [prepareParseCommand]
    rw [(writeB_cmd_UR D _ s2 0).2.2, e2]

end Cat
