/-
  Translator item T9: small step functions regenerated from `src/cat.c` (`Gen/Steps.lean`): the two
  output-arbitration steps (`process_io_write_wait`, `unsolicited_process_io_write_wait`: a machine
  starts writing only while the other one is not — the exclusion of C11), the release from HOLD
  (`process_hold_state`, C14), and the dispatch on the request type (`command_found`,
  `command_not_found`, C02/C09).  The model's functions are proved equal to them; the model's
  ghost check "a command is selected where it is dereferenced" appears explicitly.
-/
import CatVerif.Gen.Steps
namespace Cat

theorem processIoWriteWait_generated (D : Desc) (s : St) : processIoWriteWait s = Gen.process_io_write_wait D s := by
  unfold processIoWriteWait Gen.process_io_write_wait; rfl

theorem unsolicitedProcessIoWriteWait_generated (D : Desc) (s : St) :
    unsolicitedProcessIoWriteWait s = Gen.unsolicited_process_io_write_wait D s := by
  unfold unsolicitedProcessIoWriteWait Gen.unsolicited_process_io_write_wait; rfl

theorem processHoldState_generated (D : Desc) (s : St) : processHoldState D s = Gen.process_hold_state D s := by
  unfold processHoldState Gen.process_hold_state
  split <;> simp_all

theorem commandNotFound_generated (D : Desc) (s : St) : commandNotFound D s = Gen.command_not_found D s := by
  simp only [commandNotFound, Gen.command_not_found]

theorem commandFound_generated (D : Desc) (s : St) :
    commandFound D s = Gen.command_found D (s.chkUb s.cmd.isSome) := by
  unfold commandFound Gen.command_found
  simp only
  generalize s.chkUb s.cmd.isSome = s0
  cases h : s0.cmdType <;> simp only [h] <;> (repeat' split) <;> first | rfl | simp_all

/-- T10: the output step of the command machine -/
theorem processIoWrite_generated : processIoWrite = Gen.process_io_write := by
  funext D s i
  unfold processIoWrite Gen.process_io_write
  simp only
  generalize s.chk (writeByte D s .cmd).2 = s0
  split
  · (repeat' split) <;> rfl
  · split <;> rfl

/-- T10: the output step of the unsolicited machine -/
theorem unsolicitedProcessIoWrite_generated : unsolicitedProcessIoWrite = Gen.unsolicited_process_io_write := by
  funext D s i
  unfold unsolicitedProcessIoWrite Gen.unsolicited_process_io_write
  simp only
  generalize s.chk (writeByte D s .uns).2 = s0
  split
  · (repeat' split) <;> rfl
  · split <;> rfl

end Cat
