/-
  Translator item T9: small step functions regenerated from `src/cat.c` (`Gen/Steps.lean`): the two
  output-arbitration steps (`process_io_write_wait`, `unsolicited_process_io_write_wait`: a machine
  starts writing only while the other one is not — the exclusion of C11), the release from HOLD
  (`process_hold_state`, C14), and the dispatch on the request type (`command_found`,
  `command_not_found`, C02/C09).  The model's functions are proved equal to them; the model's
  ghost check "a command is selected where it is dereferenced" appears explicitly.
-/
import CatVerif.Gen.Steps
import CatVerif.Proofs.NoOob
import CatVerif.Proofs.Line
namespace Cat
open St

theorem processIoWriteWait_generated (D : Desc) (s : St) : processIoWriteWait s = Gen.process_io_write_wait D s := by
  unfold processIoWriteWait Gen.process_io_write_wait; rfl

theorem unsolicitedProcessIoWriteWait_generated (D : Desc) (s : St) :
    unsolicitedProcessIoWriteWait s = Gen.unsolicited_process_io_write_wait D s := by
  unfold unsolicitedProcessIoWriteWait Gen.unsolicited_process_io_write_wait; rfl

theorem processHoldState_generated (D : Desc) (s : St) : processHoldState D s = Gen.process_hold_state D s := by
  unfold processHoldState Gen.process_hold_state
  split <;> simp_all

theorem commandNotFound_generated (D : Desc) (s : St) : commandNotFound D s = Gen.command_not_found D s := by
  simp only [commandNotFound, Gen.command_not_found]

theorem commandFound_generated (D : Desc) (s : St) :
    commandFound D s = Gen.command_found D (s.chkUb s.cmd.isSome) := by
  unfold commandFound Gen.command_found
  simp only
  generalize s.chkUb s.cmd.isSome = s0
  cases h : s0.cmdType <;> simp only [h] <;> (repeat' split) <;> first | rfl | simp_all

/-- T10: the output step of the command machine -/
theorem processIoWrite_generated : processIoWrite = Gen.process_io_write := by
  funext D s i
  unfold processIoWrite Gen.process_io_write
  simp only
  generalize s.chk (writeByte D s .cmd).2 = s0
  split
  · (repeat' split) <;> rfl
  · split <;> rfl

/-- T10: the output step of the unsolicited machine -/
theorem unsolicitedProcessIoWrite_generated : unsolicitedProcessIoWrite = Gen.unsolicited_process_io_write := by
  funext D s i
  unfold unsolicitedProcessIoWrite Gen.unsolicited_process_io_write
  simp only
  generalize s.chk (writeByte D s .uns).2 = s0
  split
  · (repeat' split) <;> rfl
  · split <;> rfl

/-! ### T11: the sweep and the search -/

/-- the advance at the end of `update_command`, as the generated text has it -/
theorem adv_eq (D : Desc) (x : St) :
    updateAdvance D x =
      (let s : St := { x with index := x.index + 1 }
       let s : St := (if decide (s.index ≥ D.commandsNum) then (let s : St := { s with index := 0 }
          (let s : St := (if !s.implicitWriteFlag then (let s : St := { s with state := .parseCommandChar }
            s)
            else (let s : St := { s with cmdType := .write }
            (let s : St := prepareSearchCommand s
            (let s : St := { s with state := .searchCommand }
            (let s : St := { s with implicitWriteFlag := false }
            s)))))
          s))
          else s)
       s) := by
  unfold updateAdvance
  simp only [prepareSearchCommand]
  by_cases h : x.index + 1 ≥ D.commandsNum
  · cases hf : x.implicitWriteFlag <;> simp [h]
  · simp [h]

theorem updateCommand_generated (D : Desc) (s : St) :
    updateCommand D s = Gen.update_command D (s.chkUb (decide (s.index < D.commandsNum))) := by
  unfold updateCommand
  generalize s.chkUb (decide (s.index < D.commandsNum)) = s0
  unfold Gen.update_command updateLane
  conv => lhs; simp only []
  generalize hr : getCmdState D s0 s0.index = r
  obtain ⟨s1, st⟩ := r
  generalize hc : (cmdByIndex D.groups s0.index).getD default = c
  by_cases h0 : st = 0
  · subst h0
    simp only [bne_self_eq_false, Bool.false_eq_true, if_false, ne_eq, not_true_eq_false, decide_false, adv_eq]
  · have e1 : (st != 0) = true := by simpa using h0
    have d1 : decide (st ≠ 0) = true := by simpa using h0
    by_cases h1 : s1.length > c.name.length
    · simp only [e1, d1, if_true, h1, decide_true, adv_eq]
    · by_cases h2 : toUpper (c.name.getD (s1.length - 1) 0) = s1.currentChar
      · have e2 : (toUpper (c.name.getD (s1.length - 1) 0) != s1.currentChar) = false := by simpa using h2
        have d2 : decide (toUpper (c.name.getD (s1.length - 1) 0) ≠ s1.currentChar) = false := by simpa using h2
        by_cases h3 : s1.length = c.name.length
        · have e3 : (s1.length == c.name.length) = true := by simpa using h3
          have d3 : decide (s1.length = c.name.length) = true := by simpa using h3
          cases hi : c.implicitWrite <;>
            simp only [e1, d1, if_true, h1, if_false, decide_false, Bool.false_eq_true, e2, d2, e3, d3, hi, adv_eq]
        · have e3 : (s1.length == c.name.length) = false := by simpa using h3
          have d3 : decide (s1.length = c.name.length) = false := by simpa using h3
          simp only [e1, d1, if_true, h1, if_false, decide_false, Bool.false_eq_true, e2, d2, e3, d3, adv_eq]
      · have e2 : (toUpper (c.name.getD (s1.length - 1) 0) != s1.currentChar) = true := by simpa using h2
        have d2 : decide (toUpper (c.name.getD (s1.length - 1) 0) ≠ s1.currentChar) = true := by simpa using h2
        simp only [e1, d1, if_true, h1, if_false, decide_false, Bool.false_eq_true, e2, d2, adv_eq]
theorem searchCommand_generated (D : Desc) (s : St) :
    searchCommand D s = Gen.search_command D (s.chkUb (decide (s.index < D.commandsNum))) := by
  unfold searchCommand
  generalize s.chkUb (decide (s.index < D.commandsNum)) = s0
  unfold Gen.search_command
  conv => lhs; simp only []
  generalize hr : getCmdState D s0 s0.index = r
  obtain ⟨s1, st⟩ := r
  by_cases h1 : st = 1
  · subst h1
    by_cases hc : s1.cmd.isSome = true
    · by_cases hi : s1.index + 1 = D.commandsNum
      · simp [hc, hi, notFoundOrError]
      · simp [hc, hi, notFoundOrError]
    · simp [hc, notFoundOrError]
  · by_cases h2 : st = 2
    · subst h2; simp
    · by_cases h0 : st = 0
      · subst h0; simp [notFoundOrError]
      · simp [h0, h1, h2, notFoundOrError]
/-! ### T11: argument collection -/

theorem setB_argsLen (D : Desc) (s : St) (f : Fsm) (i : Nat) (v : Byte) : (setB D s f i v).length = s.length := by
  unfold St.setB; (repeat' split) <;> rfl

theorem parseCommandArgs_generated (D : Desc) (s : St) (i : SvcIn) :
    parseCommandArgs D s i =
      (let r := readCmdChar s i
       if !r.2 then (r.1, Gen.CAT_STATUS_OK)
       else (Gen.parse_command_args_body D (r.1.chkUb r.1.cmd.isSome), Gen.CAT_STATUS_BUSY)) := by
  unfold parseCommandArgs Gen.parse_command_args_body
  simp only
  generalize readCmdChar s i = r
  obtain ⟨s0, got⟩ := r
  cases got
  · rfl
  · simp only [Bool.not_true, Bool.false_eq_true, if_false]
    generalize s0.chkUb s0.cmd.isSome = s1
    congr 1
    by_cases h10 : s1.currentChar = 10
    · simp only [h10, beq_self_eq_true, if_true]
      (repeat' split) <;> simp_all
    · by_cases h13 : s1.currentChar = 13
      · simp [h13]
      · have e10 : (s1.currentChar == 10) = false := by simpa using h10
        have e13 : (s1.currentChar == 13) = false := by simpa using h13
        simp only [e10, e13, Bool.false_eq_true, if_false, setB_argsLen]
        (repeat' split) <;> simp_all <;> omega

/-! ### T12: helpers parameterised by the machine -/

theorem endOk_generated (D : Desc) (s : St) (f : Fsm) : endOk D s f = Gen.end_processing_with_ok D s f := by
  cases f <;> simp only [endOk, Gen.end_processing_with_ok]

theorem endError_generated (D : Desc) (s : St) (f : Fsm) : endError D s f = Gen.end_processing_with_error D s f := by
  cases f <;> simp only [endError, Gen.end_processing_with_error]

theorem setPos_generated (D : Desc) (s : St) (f : Fsm) : s.setPos f 0 = Gen.reset_position D s f := by
  cases f <;> rfl

theorem startFormatRead_generated (D : Desc) (s : St) (f : Fsm) :
    startFormatRead D s f = Gen.start_processing_format_read_args D s f := by
  unfold startFormatRead Gen.start_processing_format_read_args
  simp only []
  generalize (s.setPos f 0).chkUb ((s.setPos f 0).cmdOf f).isSome = s1
  generalize D.cmdD (s1.cmdOf f) = c
  rcases hr1 : printN D s1 f c.name with ⟨s2, ok1⟩
  cases ok1
  · simp [printAll, hr1]
  · rcases hr2 : printN D s2 f [61] with ⟨s3, ok2⟩
    have hpa : printAll D s1 f [c.name, [61]] = (s3, ok2) := by
      cases ok2 <;> simp [printAll, hr1, hr2]
    cases ok2
    · simp [hpa]
    · simp only [hpa, Bool.not_true, Bool.false_eq_true, if_false, setStateRL]
      cases f <;> simp <;> (repeat' split) <;> simp_all

theorem startFormatTest_generated (D : Desc) (s : St) (f : Fsm) :
    startFormatTest D s f = Gen.start_processing_format_test_args D s f := by
  unfold startFormatTest Gen.start_processing_format_test_args
  simp only []
  generalize (s.setPos f 0).chkUb ((s.setPos f 0).cmdOf f).isSome = s1
  generalize D.cmdD (s1.cmdOf f) = c
  rcases hr1 : printN D s1 f c.name with ⟨s2, ok1⟩
  cases ok1
  · simp [printAll, hr1]
  · rcases hr2 : printN D s2 f [61] with ⟨s3, ok2⟩
    have hpa : printAll D s1 f [c.name, [61]] = (s3, ok2) := by
      cases ok2 <;> simp [printAll, hr1, hr2]
    cases ok2
    · simp [hpa]
    · simp only [hpa, Bool.not_true, Bool.false_eq_true, if_false]
      rcases hr3 : printResponseTest D s3 f with ⟨s4, ok3⟩
      cases f <;> cases ok3 <;> simp <;> (repeat' split) <;> simp_all

/-! ### T13: the ring of unsolicited events -/

theorem pushUnsolicited_generated (D : Desc) (s : St) (c : Nat) (t : CmdType) :
    pushUnsolicited D s c t = Gen.push_unsolicited_cmd D s c t := by
  unfold pushUnsolicited Gen.push_unsolicited_cmd
  split
  · rfl
  · simp only []
    generalize s.chk (decide (s.rtail < D.cap)) = s1
    by_cases h : s1.rtail + 1 ≥ D.cap <;> simp [h]

theorem checkUnsolicitedBuffers_generated (D : Desc) (s : St) :
    checkUnsolicitedBuffers D s = Gen.check_unsolicited_buffers D s := by
  unfold checkUnsolicitedBuffers Gen.check_unsolicited_buffers Gen.pop_unsolicited_cmd ringPop ringFront
  by_cases he : Gen.is_unsolicited_buffer_empty s.rcount = true
  · simp [he, Gen.CAT_STATUS_ERROR_BUFFER_EMPTY, Gen.CAT_STATUS_OK]
  · simp only [he, Bool.false_eq_true, if_false]
    cases hc : decide (s.rhead < D.cap) <;> simp only [St.chk, Bool.false_eq_true, if_false, if_true] <;>
      (generalize hi : s.ring.getD s.rhead (0, CmdType.none) = item
       obtain ⟨ic, it⟩ := item
       by_cases h : s.rhead + 1 ≥ D.cap <;> cases it <;> simp [h, Gen.CAT_STATUS_OK])

/-! ### T14 -/

theorem readCmdChar_generated : readCmdChar = Gen.read_cmd_char := by
  funext s i
  unfold readCmdChar Gen.read_cmd_char
  cases i.rd with
  | none => rfl
  | some b =>
    simp only [St.emit]
    by_cases h : s.state = .parseCommandArgs <;> simp [h]

theorem holdExit_generated : holdExit = Gen.hold_exit := by
  funext s st; unfold holdExit Gen.hold_exit; rfl

theorem startPrintCmdList_generated (D : Desc) (s : St) : startPrintCmdList D s = Gen.start_print_cmd_list D s := by
  unfold startPrintCmdList Gen.start_print_cmd_list
  by_cases h : D.commandsNum = 0 <;> simp [h]

/-! ### T15: the 2-bit lanes -/

theorem lane_index_generated (i : Nat) : i / 4 = Gen.get_cmd_state_index i ∧ i / 4 = Gen.set_cmd_state_index i := by
  unfold Gen.get_cmd_state_index Gen.set_cmd_state_index
  simp [Nat.shiftRight_eq_div_pow]

theorem laneGet_tab : ∀ b : Nat, b < 256 → ∀ r : Nat, r < 4 → b / 4 ^ r % 4 = ((b >>> (r <<< 1)) % 256 &&& 3) % 256 := by
  decide +kernel

theorem laneGet_generated (b i : Nat) (hb : b < 256) : laneGet b i = Gen.get_cmd_state_bits b i := by
  unfold laneGet Gen.get_cmd_state_bits
  exact laneGet_tab b hb (i % 4) (Nat.mod_lt _ (by decide))

theorem laneSet_tab : ∀ b : Nat, b < 256 → ∀ r : Nat, r < 4 → ∀ v : Nat, v < 4 →
    (b - (b / 4 ^ r % 4) * 4 ^ r + v * 4 ^ r) % 256 =
      ((b &&& (255 - (3 <<< ((r <<< 1) % 256)))) % 256 ||| (v <<< ((r <<< 1) % 256))) % 256 := by
  decide +kernel

theorem laneSet_generated (b i v : Nat) (hb : b < 256) : laneSet b i v = Gen.set_cmd_state_bits b i v := by
  unfold laneSet Gen.set_cmd_state_bits
  have hv : v &&& 3 = v % 4 := by
    have := Nat.and_two_pow_sub_one_eq_mod v 2
    simpa using this
  rw [hv]
  exact laneSet_tab b hb (i % 4) (Nat.mod_lt _ (by decide)) (v % 4) (Nat.mod_lt _ (by decide))

/-! ### T16 -/

theorem printResponseTest_generated (D : Desc) (s : St) (f : Fsm) :
    printResponseTest D s f = Gen.print_response_test D s f := by
  unfold printResponseTest Gen.print_response_test
  simp only []
  generalize s.chkUb (s.cmdOf f).isSome = s1
  generalize D.cmdD (s1.cmdOf f) = c
  cases hd : c.desc with
  | none => cases f <;> simp [setStateTL] <;> (repeat' split) <;> simp_all
  | some d =>
    simp only [Option.isSome_some, if_true, Option.getD_some]
    rcases hr1 : printN D s1 f (nlStr s1) with ⟨s2, ok1⟩
    cases ok1
    · simp [printAll, hr1]
    · rcases hr2 : printN D s2 f d with ⟨s3, ok2⟩
      have hpa : printAll D s1 f [nlStr s1, d] = (s3, ok2) := by
        cases ok2 <;> simp [printAll, hr1, hr2]
      cases ok2
      · simp [hpa]
      · cases f <;> simp [hpa, setStateTL] <;> (repeat' split) <;> simp_all

theorem nextFormatVar_generated (D : Desc) (s : St) (f : Fsm) (h : (s.cmdOf f).isSome = true) :
    nextFormatVar D s f = Gen.next_format_var_by_fsm D s f := by
  unfold nextFormatVar Gen.next_format_var_by_fsm
  simp only [St.chkUb, h, if_true]
  cases f
  · simp only [St.setIdx, St.idx, St.pos, St.setPos, Desc.capOf, St.cmdOf]
    by_cases h1 : s.index + 1 < (D.cmdD s.cmd).varNum
    · by_cases h2 : s.position ≥ D.cmdCap <;> simp [h1, h2]
    · simp [h1]
  · simp only [St.setIdx, St.idx, St.pos, St.setPos, Desc.capOf, St.cmdOf]
    by_cases h1 : s.uindex + 1 < (D.cmdD s.ucmd).varNum
    · by_cases h2 : s.uposition ≥ D.unsCap <;> simp [h1, h2]
    · simp [h1]

/-! ### T17 -/

theorem chkUb_cmdOf (s : St) (c : Bool) (f : Fsm) : (s.chkUb c).cmdOf f = s.cmdOf f := by cases c <;> cases f <;> rfl
theorem chkUb_idx (s : St) (c : Bool) (f : Fsm) : (s.chkUb c).idx f = s.idx f := by cases c <;> cases f <;> rfl

theorem varReadCb_cmdOf (D : Desc) (s : St) (f : Fsm) (v : VarD) (i : SvcIn) : (varReadCb D s f v i).1.cmdOf f = s.cmdOf f := by
  have h := (varReadCb_calm D s f v i).1
  cases f
  · exact h.c.2.2.2.2.1
  · exact h.u.2.2.1

theorem nextFormatVar_cmdOf (D : Desc) (s : St) (f : Fsm) (h : (nextFormatVar D s f).2 = false) :
    (nextFormatVar D s f).1.cmdOf f = s.cmdOf f := by
  unfold nextFormatVar at h ⊢
  cases f <;> simp only [St.cmdOf] at h ⊢ <;> (repeat' split) <;> simp_all [St.setIdx]

theorem formatTestArgs_generated (D : Desc) (s : St) (f : Fsm) : formatTestArgs D s f = Gen.format_test_args D s f := by
  unfold formatTestArgs Gen.format_test_args
  simp only [chkUb_cmdOf, chkUb_idx]

theorem formatReadArgs_generated (D : Desc) (s : St) (f : Fsm) (i : SvcIn) : formatReadArgs D s f i = Gen.format_read_args D s f i := by
  unfold formatReadArgs Gen.format_read_args
  simp only [chkUb_cmdOf, chkUb_idx]
  generalize hs1 : (s.chkUb (s.cmdOf f).isSome).chkUb (decide (s.idx f < (D.cmdD (s.cmdOf f)).varNum)) = s1
  have e1 : s1.cmdOf f = s.cmdOf f := by rw [← hs1, chkUb_cmdOf, chkUb_cmdOf]
  rcases hcb : varReadCb D s1 f ((D.cmdD (s.cmdOf f)).varAt (s.idx f)) i with ⟨s2, cb⟩
  have e2 : s2.cmdOf f = s.cmdOf f := by
    have := varReadCb_cmdOf D s1 f ((D.cmdD (s.cmdOf f)).varAt (s.idx f)) i
    rw [hcb] at this; rw [this, e1]
  cases cb
  · simp only [Bool.false_eq_true, if_false]
    rcases hfv : formatVar D s2 f ((D.cmdD (s.cmdOf f)).varAt (s.idx f)) with ⟨s3, ok⟩
    have e3 : s3.cmdOf f = s.cmdOf f := by
      have := (formatVar_calmish D s2 f ((D.cmdD (s.cmdOf f)).varAt (s.idx f))).2.2.1
      rw [hfv] at this; rw [this, e2]
    cases ok
    · simp
    · simp only [Bool.not_true, Bool.false_eq_true, if_false]
      rcases hn : nextFormatVar D s3 f with ⟨s4, more⟩
      cases more
      · have e4 : s4.cmdOf f = s.cmdOf f := by
          have := nextFormatVar_cmdOf D s3 f (by rw [hn])
          rw [hn] at this; rw [this, e3]
        simp only [Bool.false_eq_true, if_false, e4]
        cases f <;> simp [setStateRL] <;> (repeat' split) <;> simp_all
      · simp
  · simp

/-! ### T18 -/

theorem chkUb_cmd (s : St) (c : Bool) : (s.chkUb c).cmd = s.cmd := by cases c <;> rfl
theorem chkUb_index (s : St) (c : Bool) : (s.chkUb c).index = s.index := by cases c <;> rfl

theorem parseVarValue_cmd (D : Desc) (s : St) (v : VarD) : (parseVarValue D s v).1.cmd = s.cmd := by
  unfold parseVarValue
  simp only [validateIntRange, validateUIntRange, storeInt]
  (repeat' split) <;> simp [St.chk] <;> (repeat' split) <;> simp

theorem parseWriteArgs_generated (D : Desc) (s : St) (i : SvcIn) : parseWriteArgs D s i = Gen.parse_write_args D s i := by
  unfold parseWriteArgs Gen.parse_write_args
  simp only [chkUb_cmd, chkUb_index]
  generalize hs1 : (s.chkUb s.cmd.isSome).chkUb (decide (s.index < (D.cmdD s.cmd).varNum)) = s1
  rcases hp : parseVarValue D s1 ((D.cmdD s.cmd).varAt s.index) with ⟨s2, stat, ok⟩
  cases ok
  · simp
  · simp only [Bool.not_true, Bool.false_eq_true, if_false]
    rcases hc : varWriteCb D s2 ((D.cmdD s.cmd).varAt s.index) i with ⟨s3, cb⟩
    cases cb
    · simp only [Bool.false_eq_true, if_false]
      have e1 : s1.cmd = s.cmd := by rw [← hs1, chkUb_cmd, chkUb_cmd]
      have e2 : s2.cmd = s.cmd := by
        have := parseVarValue_cmd D s1 ((D.cmdD s.cmd).varAt s.index)
        rw [hp] at this; rw [this, e1]
      have e3 : s3.cmd = s.cmd := by
        have := (varWriteCb_calm D s2 ((D.cmdD s.cmd).varAt s.index) i).1.c.2.2.2.2.1
        rw [hc] at this; rw [this, e2]
      simp only [e3]
      (repeat' split) <;> simp_all
    · simp

/-! ### T19: the handler loops around the return-code tables -/

theorem processWriteLoop_generated (D : Desc) (s : St) (i : SvcIn) :
    processWriteLoop D s i = Gen.process_write_loop_fn D s i := rfl

theorem processRunLoop_generated (D : Desc) (s : St) (i : SvcIn) :
    processRunLoop D s i = Gen.process_run_loop_fn D s i := rfl

theorem processReadLoop_generated (D : Desc) (s : St) (f : Fsm) (i : SvcIn) :
    processReadLoop D s f i = Gen.process_read_loop_fn D s f i := rfl

theorem processTestLoop_generated (D : Desc) (s : St) (f : Fsm) (i : SvcIn) :
    processTestLoop D s f i = Gen.process_test_loop_fn D s f i := rfl

/-! ### T20: the command list -/

theorem printN_keep (D : Desc) (s : St) (f : Fsm) (x : List Byte) :
    (printN D s f x).1.cmd = s.cmd ∧ (printN D s f x).1.crFlag = s.crFlag ∧ (printN D s f x).1.length = s.length := by
  have h := printN_frame D s f x
  simp only [SameCtlNP, SameC', SameU', SameH, SameR] at h
  exact ⟨h.1.1.2.2.2.2.1, h.1.1.2.2.2.2.2.2.2.2.1, h.1.1.2.2.1⟩

theorem printN_keep' (D : Desc) (s s' : St) (f : Fsm) (x : List Byte) (ok : Bool) (h : printN D s f x = (s', ok)) :
    s'.cmd = s.cmd ∧ nlStr s' = nlStr s ∧ s'.length = s.length := by
  have k := printN_keep D s f x
  rw [h] at k
  simp only at k
  exact ⟨k.1, by simp only [nlStr, k.2.1], k.2.2⟩

theorem cmdListNextCmd_generated (D : Desc) (s : St) : cmdListNextCmd D s = Gen.cmd_list_next_cmd D s := by
  unfold cmdListNextCmd Gen.cmd_list_next_cmd
  by_cases h : s.index + 1 ≥ D.commandsNum <;> simp [h]

theorem printCurrentCmdFullName_generated (D : Desc) (s : St) (x : List Byte) :
    printCurrentCmdFullName D s x = Gen.print_current_cmd_full_name D s x := by
  have tail : ∀ s0 : St, printAll D s0 .cmd [[65, 84], (D.cmdD s0.cmd).name, x, nlStr s0] =
      (let (s, t1) := printN D s0 .cmd [65, 84];
        if !t1 then (s, false)
        else (let (s, t1) := printN D s .cmd (D.cmdD s.cmd).name;
          if !t1 then (s, false)
          else (let (s, t1) := printN D s .cmd x;
            if !t1 then (s, false)
            else (let (s, t1) := printN D s .cmd (nlStr s);
              if !t1 then (s, false)
              else (s, true))))) := by
    intro s0
    simp only [printAll]
    rcases h1 : printN D s0 .cmd [65, 84] with ⟨s1, o1⟩
    have k1 := printN_keep' D s0 s1 .cmd _ o1 h1
    cases o1
    · simp
    · simp only [if_true, Bool.not_true, Bool.false_eq_true, if_false, k1.1]
      rcases h2 : printN D s1 .cmd (D.cmdD s0.cmd).name with ⟨s2, o2⟩
      have k2 := printN_keep' D s1 s2 .cmd _ o2 h2
      cases o2
      · simp
      · simp only [if_true, Bool.not_true, Bool.false_eq_true, if_false]
        rcases h3 : printN D s2 .cmd x with ⟨s3, o3⟩
        have k3 := printN_keep' D s2 s3 .cmd _ o3 h3
        cases o3
        · simp
        · simp only [if_true, Bool.not_true, Bool.false_eq_true, if_false, k3.2.1, k2.2.1, k1.2.1]
          rcases h4 : printN D s3 .cmd (nlStr s0) with ⟨s4, o4⟩
          cases o4 <;> simp
  unfold printCurrentCmdFullName Gen.print_current_cmd_full_name
  by_cases hl : s.length = 0
  · simp only [hl, beq_self_eq_true, if_true, decide_true]
    rcases h0 : printN D s .cmd (nlStr s) with ⟨s1, o1⟩
    have k0 := printN_keep' D s s1 .cmd _ o1 h0
    cases o1
    · simp
    · simp only [if_true, Bool.not_true, Bool.false_eq_true, if_false]
      have t := tail { s1 with length := 1 }
      simp only [nlStr] at t k0 ⊢
      simp only [k0.1, k0.2.1] at t ⊢
      exact t
  · have hl' : (s.length == 0) = false := by simp [hl]
    simp only [hl', hl, decide_false, Bool.false_eq_true, if_false, Bool.not_true]
    exact tail s

theorem printCmdList_generated (D : Desc) (s : St) : printCmdList D s = Gen.print_cmd_list D s := by
  unfold printCmdList Gen.print_cmd_list
  extract_lets +onlyGivenNames s0 s1 c frm
  clear_value s1
  have form : ∀ (av : Bool) (x : List Byte) (nx : CmdType), printCmdForm D s1 av x nx =
      (if av then (let s : St := { s1 with position := 0 };
          (let (s, t1) := printCurrentCmdFullName D s x;
          if !t1 then ackError D s
          else { startFlushRaw s .printCmd with cmdType := nx }))
        else { s1 with cmdType := nx }) := by
    intro av x nx
    unfold printCmdForm
    cases av
    · simp
    · simp only [if_true]
  cases hct : s1.cmdType <;> simp only [frm, c]
  case none =>
    by_cases hd : disabledByIndex D.groups s1.index = true
    · simp only [hd, if_true]
      rcases hn : cmdListNextCmd D s1 with ⟨s2, more⟩
      cases more <;> simp
    · simp [hd]
  case total =>
    rcases hn : cmdListNextCmd D s1 with ⟨s2, more⟩
    cases more <;> simp
  all_goals (rw [form]; simp only [hct])


end Cat
