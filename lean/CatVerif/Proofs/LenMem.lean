/-
  Slot lengths of the variable storage never change (C03): stores go through `slotWrite`, which
  replaces bytes in place, and application pokes replace a range by a range of the same length.
  Generated from the frame lemmas of `Proofs/Region.lean` (same proof scripts, other predicate).
-/
import CatVerif.Proofs.Region
namespace Cat
open St

/-- the lengths of all storage blocks are unchanged -/
@[simp] abbrev LenE (s s' : St) : Prop := s'.mem.map List.length = s.mem.map List.length

theorem map_length_set_self (m : List (List Nat)) (slot : Nat) (x : List Nat) (h : x.length = (m.getD slot []).length) :
    (m.set slot x).map List.length = m.map List.length := by
  rw [List.map_set]
  apply List.ext_getElem?
  intro k
  rw [List.getElem?_set]
  split
  · rename_i e
    subst e
    split
    · rename_i hk
      simp only [List.length_map] at hk
      simp [List.getD, List.getElem?_eq_getElem hk] at h
      simp [List.getElem?_eq_getElem hk, h]
    · rename_i hk
      simp only [List.length_map] at hk
      simp [List.getElem?_eq_none (Nat.le_of_not_lt hk)]
  · rfl

@[simp] theorem slotWrite_len (slot : Nat) (bs : List Byte) : ∀ (s : St) (off : Nat), LenE s (slotWrite s slot off bs) := by
  induction bs with
  | nil => intro s off; simp [slotWrite]
  | cons b r ih =>
    intro s off
    simp only [slotWrite]
    split
    · have h := ih (({ s with mem := s.mem.set slot ((s.slotGet slot).set off b) } : St).emit (.memWrite slot off)) (off + 1)
      simp only [LenE] at h ⊢
      rw [h]
      simp only [St.emit]
      exact map_length_set_self s.mem slot _ (by simp [St.slotGet])
    · have h := ih ({ s with oob := true }) (off + 1)
      simpa using h

theorem poke_lenE (s : St) (slot off : Nat) (bs : List Byte) (h : off + bs.length ≤ (s.slotGet slot).length) :
    LenE s { s with mem := s.mem.set slot ((s.slotGet slot).take off ++ bs ++ (s.slotGet slot).drop (off + bs.length)) } := by
  simp only [LenE]
  exact map_length_set_self s.mem slot _ (by simp [St.slotGet] at h ⊢; omega)

@[simp] theorem setB_len (D : Desc) (s : St) (f : Fsm) (i v : Nat) : LenE s (setB D s f i v) := by simp [(setB_ctl D s f i v).2.1]
@[simp] theorem writeB_len (D : Desc) (f : Fsm) (bs : List Byte) (s : St) (i : Nat) : LenE s (writeB D s f i bs) := by
  simp [(writeB_ctl D f bs s i).2.1]

@[simp] theorem storeInt_len (s : St) (v : VarD) (val : Nat) : LenE s (storeInt s v val) := by
  unfold storeInt
  have := slotWrite_len v.slot (leBytes v.dataSize val) (s.chk (decide (v.dataSize ≤ (s.slotGet v.slot).length))) 0
  simp only [LenE] at this ⊢
  rw [this]; simp
@[simp] theorem validateIntRange_len (s : St) (v : VarD) (neg : Bool) (mag : Nat) : LenE s (validateIntRange s v neg mag).1 := by
  unfold validateIntRange; simp only; (repeat' split) <;> simp
@[simp] theorem validateUIntRange_len (s : St) (v : VarD) (val : Nat) : LenE s (validateUIntRange s v val).1 := by
  unfold validateUIntRange; simp only; (repeat' split) <;> simp

@[simp] theorem setStateRL_len (s : St) (f : Fsm) : LenE s (setStateRL s f) := by cases f <;> simp [setStateRL]
@[simp] theorem setStateTL_len (s : St) (f : Fsm) : LenE s (setStateTL s f) := by cases f <;> simp [setStateTL]
@[simp] theorem setIdx_len (s : St) (f : Fsm) (n : Nat) : LenE s (s.setIdx f n) := by cases f <;> simp [St.setIdx]
@[simp] theorem startFlush_len (s : St) (f : Fsm) (a : After) : LenE s (startFlush s f a) := by cases f <;> simp [startFlush]
@[simp] theorem unsolicitedResetState_len (s : St) : LenE s (unsolicitedResetState s) := by simp [unsolicitedResetState]
@[simp] theorem unsolicitedProcessIoWriteWait_len (s : St) : LenE s (unsolicitedProcessIoWriteWait s).1 := by
  simp [unsolicitedProcessIoWriteWait]; crunch

/-! ### printing and formatting -/

@[simp] theorem printN_len (D : Desc) (s : St) (str : List Byte) :
    LenE s (printN D s .cmd str).1 ∧ LenE s (printN D s .uns str).1 := by
  unfold printN
  simp only
  constructor <;> split <;> simp [St.setPos]

@[simp] theorem printFmt_len (D : Desc) (s : St) (txt : List Byte) :
    LenE s (printFmt D s .cmd txt).1 ∧ LenE s (printFmt D s .uns txt).1 := by
  unfold printFmt
  simp only
  constructor <;> (repeat' split) <;> simp

@[simp] theorem printAll_len (D : Desc) (xs : List (List Byte)) : ∀ s : St,
    LenE s (printAll D s .cmd xs).1 ∧ LenE s (printAll D s .uns xs).1 := by
  induction xs with
  | nil => intro s; simp [printAll]
  | cons x r ih =>
    intro s
    simp only [printAll]
    constructor <;> split <;> simp_all

@[simp] theorem printHexBytes_len (D : Desc) (wo : Bool) (bs : List Byte) : ∀ s : St,
    LenE s (printHexBytes D .cmd wo s bs).1 ∧ LenE s (printHexBytes D .uns wo s bs).1 := by
  induction bs with
  | nil => intro s; simp [printHexBytes]
  | cons b r ih =>
    intro s
    simp only [printHexBytes]
    generalize hexFixed 2 (if wo = true then 0 else b) = txt
    have h1 := printFmt_len D s txt
    constructor
    · split
      · have h2 := (ih (printFmt D s .cmd txt).1).1; simp_all
      · exact h1.1
    · split
      · have h2 := (ih (printFmt D s .uns txt).1).2; simp_all
      · exact h1.2

@[simp] theorem formatIntDecimal_len (D : Desc) (s : St) (v : VarD) :
    LenE s (formatIntDecimal D s .cmd v).1 ∧ LenE s (formatIntDecimal D s .uns v).1 := by
  unfold formatIntDecimal; constructor <;> split <;> simp

@[simp] theorem formatUIntDecimal_len (D : Desc) (s : St) (v : VarD) :
    LenE s (formatUIntDecimal D s .cmd v).1 ∧ LenE s (formatUIntDecimal D s .uns v).1 := by
  unfold formatUIntDecimal; constructor <;> split <;> simp

@[simp] theorem formatNumHexadecimal_len (D : Desc) (s : St) (v : VarD) :
    LenE s (formatNumHexadecimal D s .cmd v).1 ∧ LenE s (formatNumHexadecimal D s .uns v).1 := by
  unfold formatNumHexadecimal; constructor <;> split <;> simp

@[simp] theorem formatBufferHexadecimal_len (D : Desc) (s : St) (v : VarD) :
    LenE s (formatBufferHexadecimal D s .cmd v).1 ∧ LenE s (formatBufferHexadecimal D s .uns v).1 := by
  unfold formatBufferHexadecimal; simp

@[simp] theorem formatBufferString_len (D : Desc) (s : St) (v : VarD) :
    LenE s (formatBufferString D s .cmd v).1 ∧ LenE s (formatBufferString D s .uns v).1 := by
  unfold formatBufferString; simp

@[simp] theorem formatInfoType_len (D : Desc) (s : St) (v : VarD) :
    LenE s (formatInfoType D s .cmd v).1 ∧ LenE s (formatInfoType D s .uns v).1 := by
  unfold formatInfoType; constructor <;> split <;> simp

/-! ### the command machine (generated from the frame lemmas of `Proofs/Step.lean`) -/

@[simp] theorem setCmdState_LE (D : Desc) (s : St) (i v : Nat) : LenE s (setCmdState D s i v) := by
  unfold setCmdState; simp

@[simp] theorem strncpyC_LE (D : Desc) (s : St) (str : List Byte) : LenE s (strncpyC D s str) := by
  unfold strncpyC; simp

/-! ### nested calls keep the other machine's position -/

@[simp] theorem applyNested_len (D : Desc) (f : Fsm) (canEdit : Bool) (acts : List Nested) : ∀ s : St,
    LenE s (applyNested D f canEdit s acts) := by
  induction acts with
  | nil => intro s; simp [applyNested]
  | cons a r ih =>
    intro s
    cases a with
    | trigger c t =>
      simp only [applyNested, withMutex]
      split <;> (simp only [LenE] at ih ⊢; rw [ih]; simp)
    | holdExit st =>
      simp only [applyNested, withMutex]
      split <;> (simp only [LenE] at ih ⊢; rw [ih]; simp [holdExit]; split <;> simp)
    | poke slot off bs =>
      simp only [applyNested]
      split
      · rename_i h
        have p := poke_lenE s slot off bs h
        simp only [LenE] at ih p ⊢
        rw [ih, p]
      · exact ih s
    | edit bs =>
      simp only [applyNested]
      split
      · simp only [LenE] at ih ⊢; rw [ih]; simp
      · exact ih s
    | report n =>
      simp only [applyNested]
      split
      · simp only [LenE] at ih ⊢; rw [ih]; simp
      · exact ih s

/-! ### level 1 -/


@[simp] theorem ackError_LE (D : Desc) (s : St) : LenE s (ackError D s) := by simp [ackError, startFlush]
@[simp] theorem ackOk_LE (D : Desc) (s : St) : LenE s (ackOk D s) := by simp [ackOk, startFlush]
@[simp] theorem startFlush_cmd_LE (s : St) (a : After) : LenE s (startFlush s .cmd a) := by simp [startFlush]
@[simp] theorem startFlushRaw_LE (s : St) (a : After) : LenE s (startFlushRaw s a) := by simp [startFlushRaw]
@[simp] theorem endError_cmd_LE (D : Desc) (s : St) : LenE s (endError D s .cmd) := by simp [endError]
@[simp] theorem endOk_cmd_LE (D : Desc) (s : St) : LenE s (endOk D s .cmd) := by simp [endOk]
@[simp] theorem resetState_LE (s : St) : LenE s (resetState s) := by unfold resetState; crunch
@[simp] theorem enableHoldState_LE (s : St) : LenE s (enableHoldState s) := by simp [enableHoldState]
@[simp] theorem prepareParseCommand_LE (D : Desc) (s : St) : LenE s (prepareParseCommand D s) := by simp [prepareParseCommand]
@[simp] theorem prepareSearchCommand_LE (s : St) : LenE s (prepareSearchCommand s) := by simp [prepareSearchCommand]
@[simp] theorem notFoundOrError_LE (s : St) : LenE s (notFoundOrError s) := by simp [notFoundOrError]
@[simp] theorem setStateRL_cmd_LE (s : St) : LenE s (setStateRL s .cmd) := by simp [setStateRL]
@[simp] theorem setStateTL_cmd_LE (s : St) : LenE s (setStateTL s .cmd) := by simp [setStateTL]

/-! ### level 2 -/

@[simp] theorem printResponseTest_cmd_LE (D : Desc) (s : St) : LenE s (printResponseTest D s .cmd).1 := by
  simp [printResponseTest]; crunch
@[simp] theorem nextFormatVar_cmd_LE (D : Desc) (s : St) : LenE s (nextFormatVar D s .cmd).1 := by
  simp [nextFormatVar, St.setIdx, St.idx, St.pos]; crunch
@[simp] theorem cmdListNextCmd_LE (D : Desc) (s : St) : LenE s (cmdListNextCmd D s).1 := by
  simp [cmdListNextCmd]; crunch
@[simp] theorem printCurrentCmdFullName_LE (D : Desc) (s : St) (x : List Byte) : LenE s (printCurrentCmdFullName D s x).1 := by
  simp [printCurrentCmdFullName]; crunch
@[simp] theorem startPrintCmdList_LE (D : Desc) (s : St) : LenE s (startPrintCmdList D s) := by
  simp [startPrintCmdList]; crunch
@[simp] theorem parseVarValue_LE (D : Desc) (s : St) (v : VarD) : LenE s (parseVarValue D s v).1 := by
  unfold parseVarValue; crunch
@[simp] theorem varWriteCb_LE (D : Desc) (s : St) (v : VarD) (i : SvcIn) : LenE s (varWriteCb D s v i).1 := by
  unfold varWriteCb; crunch
@[simp] theorem varReadCb_cmd_LE (D : Desc) (s : St) (v : VarD) (i : SvcIn) : LenE s (varReadCb D s .cmd v i).1 := by
  unfold varReadCb; crunch
@[simp] theorem formatVar_cmd_LE (D : Desc) (s : St) (v : VarD) : LenE s (formatVar D s .cmd v).1 := by
  unfold formatVar; crunch

/-! ### level 3 -/

@[simp] theorem startFormatTest_cmd_LE (D : Desc) (s : St) : LenE s (startFormatTest D s .cmd) := by
  simp [startFormatTest, St.cmdOf]; crunch
@[simp] theorem startFormatRead_cmd_LE (D : Desc) (s : St) : LenE s (startFormatRead D s .cmd) := by
  simp [startFormatRead, St.cmdOf]; crunch

@[simp] theorem doCall_cmd_LE (D : Desc) (s : St) (c : Call) : LenE s (doCall D .cmd s c) := by
  cases c <;> simp [doCall]
@[simp] theorem doCalls_cmd_LE (D : Desc) (cs : List Call) : ∀ s : St, LenE s (doCalls D .cmd s cs) := by
  induction cs with
  | nil => intro s; simp [doCalls]
  | cons c r ih =>
    intro s
    have h1 := doCall_cmd_LE D s c
    have h2 := ih (doCall D .cmd s c)
    simp only [doCalls]
    simp_all

/-! ### level 4: the functions dispatched by `cat_service` -/

@[simp] theorem errorState_LE (D : Desc) (s : St) (i : SvcIn) : LenE s (errorState D s i).1 := by
  simp [errorState]; crunch
@[simp] theorem processIdleState_LE (s : St) (i : SvcIn) : LenE s (processIdleState s i).1 := by
  simp [processIdleState]; crunch
@[simp] theorem parsePrefix_LE (D : Desc) (s : St) (i : SvcIn) : LenE s (parsePrefix D s i).1 := by
  simp [parsePrefix]; crunch
@[simp] theorem parseCommand_LE (D : Desc) (s : St) (i : SvcIn) : LenE s (parseCommand D s i).1 := by
  simp [parseCommand]; crunch
@[simp] theorem updateCommand_LE (D : Desc) (s : St) : LenE s (updateCommand D s).1 := by
  simp [updateCommand, updateAdvance, updateLane]; crunch
@[simp] theorem waitReadAcknowledge_LE (s : St) (i : SvcIn) : LenE s (waitReadAcknowledge s i).1 := by
  simp [waitReadAcknowledge]; crunch
@[simp] theorem waitTestAcknowledge_LE (D : Desc) (s : St) (i : SvcIn) : LenE s (waitTestAcknowledge D s i).1 := by
  simp [waitTestAcknowledge]; crunch
@[simp] theorem searchCommand_LE (D : Desc) (s : St) : LenE s (searchCommand D s).1 := by
  simp [searchCommand]; crunch
@[simp] theorem commandFound_LE (D : Desc) (s : St) : LenE s (commandFound D s).1 := by
  simp [commandFound]; crunch
@[simp] theorem commandNotFound_LE (D : Desc) (s : St) : LenE s (commandNotFound D s).1 := by
  simp [commandNotFound]
@[simp] theorem parseCommandArgs_LE (D : Desc) (s : St) (i : SvcIn) : LenE s (parseCommandArgs D s i).1 := by
  simp [parseCommandArgs]; crunch
@[simp] theorem parseWriteArgs_LE (D : Desc) (s : St) (i : SvcIn) : LenE s (parseWriteArgs D s i).1 := by
  simp [parseWriteArgs]; crunch
@[simp] theorem formatReadArgs_cmd_LE (D : Desc) (s : St) (i : SvcIn) : LenE s (formatReadArgs D s .cmd i).1 := by
  simp [formatReadArgs, St.cmdOf, St.idx]; crunch
@[simp] theorem formatTestArgs_cmd_LE (D : Desc) (s : St) : LenE s (formatTestArgs D s .cmd).1 := by
  simp [formatTestArgs, St.cmdOf, St.idx]; crunch
@[simp] theorem processWriteLoop_LE (D : Desc) (s : St) (i : SvcIn) : LenE s (processWriteLoop D s i).1 := by
  simp [processWriteLoop]
@[simp] theorem processRunLoop_LE (D : Desc) (s : St) (i : SvcIn) : LenE s (processRunLoop D s i).1 := by
  simp [processRunLoop]
@[simp] theorem processReadLoop_cmd_LE (D : Desc) (s : St) (i : SvcIn) : LenE s (processReadLoop D s .cmd i).1 := by
  simp [processReadLoop, St.cmdOf, St.pos]
@[simp] theorem processTestLoop_cmd_LE (D : Desc) (s : St) (i : SvcIn) : LenE s (processTestLoop D s .cmd i).1 := by
  simp [processTestLoop, St.cmdOf, St.pos]
@[simp] theorem processHoldState_LE (D : Desc) (s : St) : LenE s (processHoldState D s).1 := by
  simp [processHoldState]; crunch
@[simp] theorem processIoWriteWait_LE (s : St) : LenE s (processIoWriteWait s).1 := by
  simp [processIoWriteWait]; crunch
@[simp] theorem processIoWrite_LE (D : Desc) (s : St) (i : SvcIn) : LenE s (processIoWrite D s i).1 := by
  simp [processIoWrite]; crunch
@[simp] theorem printCmdList_LE (D : Desc) (s : St) : LenE s (printCmdList D s) := by
  simp [printCmdList, printCmdForm]; crunch

/-- **The command machine never touches anything outside the command region.** -/
theorem commandService_lenE (D : Desc) (s : St) (i : SvcIn) : LenE s (commandService D s i).1 := by
  unfold commandService
  split <;> simp

/-! ### the unsolicited machine -/

@[simp] theorem endError_uns_LEu (D : Desc) (s : St) : LenE s (endError D s .uns) := by simp [endError]
@[simp] theorem endOk_uns_LEu (D : Desc) (s : St) : LenE s (endOk D s .uns) := by simp [endOk]
@[simp] theorem printResponseTest_uns_LEu (D : Desc) (s : St) : LenE s (printResponseTest D s .uns).1 := by
  simp [printResponseTest]; crunch
@[simp] theorem nextFormatVar_uns_LEu (D : Desc) (s : St) : LenE s (nextFormatVar D s .uns).1 := by
  simp [nextFormatVar, St.setIdx, St.idx, St.pos]; crunch
@[simp] theorem startFormatTest_uns_LEu (D : Desc) (s : St) : LenE s (startFormatTest D s .uns) := by
  simp [startFormatTest, St.cmdOf]; crunch
@[simp] theorem startFormatRead_uns_LEu (D : Desc) (s : St) : LenE s (startFormatRead D s .uns) := by
  simp [startFormatRead, St.cmdOf]; crunch
@[simp] theorem varReadCb_uns_LEu (D : Desc) (s : St) (v : VarD) (i : SvcIn) : LenE s (varReadCb D s .uns v i).1 := by
  unfold varReadCb; crunch
@[simp] theorem formatVar_uns_LEu (D : Desc) (s : St) (v : VarD) : LenE s (formatVar D s .uns v).1 := by
  unfold formatVar; crunch

theorem doCall_uns_LEu (D : Desc) (s : St) (c : Call) (h : UnsCallQ c) : LenE s (doCall D .uns s c) := by
  cases c <;> simp [UnsCallQ] at h <;> simp [doCall, holdExit] <;> crunch

theorem doCalls_uns_LEu (D : Desc) (cs : List Call) : ∀ s : St, (∀ c ∈ cs, UnsCallQ c) → LenE s (doCalls D .uns s cs) := by
  induction cs with
  | nil => intro s _; simp [doCalls]
  | cons c r ih =>
    intro s h
    have h1 := doCall_uns_LEu D s c (h c (by simp))
    have h2 := ih (doCall D .uns s c) (fun c' hc' => h c' (by simp [hc']))
    simp only [doCalls]
    simp_all

theorem processReadLoop_uns_LEu (D : Desc) (s : St) (i : SvcIn) : LenE s (processReadLoop D s .uns i).1 := by
  simp only [processReadLoop]
  generalize hx : applyNested D Fsm.uns true _ _ = x
  have hxs : LenE s x := by subst hx; simp
  have := doCalls_uns_LEu D (Gen.process_read_loop i.hu.ret .uns) x (readTable_uns_q _)
  simp_all

theorem processTestLoop_uns_LEu (D : Desc) (s : St) (i : SvcIn) : LenE s (processTestLoop D s .uns i).1 := by
  simp only [processTestLoop]
  generalize hx : applyNested D Fsm.uns true _ _ = x
  have hxs : LenE s x := by subst hx; simp
  have := doCalls_uns_LEu D (Gen.process_test_loop i.hu.ret .uns) x (testTable_uns_q _)
  simp_all

@[simp] theorem formatReadArgs_uns_LEu (D : Desc) (s : St) (i : SvcIn) : LenE s (formatReadArgs D s .uns i).1 := by
  simp [formatReadArgs, St.cmdOf, St.idx]; crunch
@[simp] theorem formatTestArgs_uns_LEu (D : Desc) (s : St) : LenE s (formatTestArgs D s .uns).1 := by
  simp [formatTestArgs, St.cmdOf, St.idx]; crunch
@[simp] theorem checkUnsolicitedBuffers_LEu (D : Desc) (s : St) : LenE s (checkUnsolicitedBuffers D s) := by
  simp [checkUnsolicitedBuffers, ringPop]; crunch
@[simp] theorem unsolicitedProcessIoWrite_LEu (D : Desc) (s : St) (i : SvcIn) : LenE s (unsolicitedProcessIoWrite D s i).1 := by
  simp [unsolicitedProcessIoWrite]; crunch

/-- **The unsolicited machine never stores into the command region** (whatever its handlers
answer, HOLD included). -/
theorem unsolicitedEventsService_lenEu (D : Desc) (s : St) (i : SvcIn) :
    LenE s (unsolicitedEventsService D s i).1 := by
  unfold unsolicitedEventsService
  split <;> (try simp)
  · exact processReadLoop_uns_LEu D s i
  · exact processTestLoop_uns_LEu D s i

end Cat
