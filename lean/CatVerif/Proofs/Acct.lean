/-
  Accounting of result codes (C01): `answered s` counts the result codes started in the log,
  `owes s` is 1 while the current line has not been given its result code.  Every step of the
  command machine keeps `answered + owes` constant, except that beginning a line adds 1.
-/
import CatVerif.Proofs.Line
namespace Cat
open St

def isAck : Ev → Bool
  | .ack _ => true
  | _ => false

@[simp] theorem isAck_ack (b : Bool) : isAck (.ack b) = true := rfl
@[simp] theorem filter_isAck_one (b : Bool) : (List.filter isAck [Ev.ack b]).length = 1 := by cases b <;> rfl

/-- result codes started so far (in this log) -/
def answered (s : St) : Nat := ((tr .ack s.log).filter isAck).length

/-- 1 while the machine owes the current line its result code: everywhere except in IDLE and
while the result code itself is being sent -/
def owes (s : St) : Nat :=
  if s.state = .idle ∨ s.state = .afterFlushReset ∨
     ((s.state = .flushWait ∨ s.state = .flushWrite) ∧ s.writeStateAfter = .reset) then 0 else 1

def bal (s : St) : Nat := answered s + owes s

@[simp] theorem ackError_acct (D : Desc) (s : St) :
    tr .ack (ackError D s).log = tr .ack s.log ++ [.ack false] ∧ (ackError D s).state = .flushWait ∧
    (ackError D s).writeStateAfter = .reset := by
  simp [ackError, startFlush, cls, St.emit]
@[simp] theorem ackOk_acct (D : Desc) (s : St) :
    tr .ack (ackOk D s).log = tr .ack s.log ++ [.ack true] ∧ (ackOk D s).state = .flushWait ∧
    (ackOk D s).writeStateAfter = .reset := by
  simp [ackOk, startFlush, cls, St.emit]
@[simp] theorem endError_cmd_eq (D : Desc) (s : St) : endError D s .cmd = ackError D s := rfl
@[simp] theorem endOk_cmd_eq (D : Desc) (s : St) : endOk D s .cmd = ackOk D s := rfl

macro "acct" : tactic =>
  `(tactic| (simp only [bal, answered, owes] at * <;> (try simp [isAck]) <;> (try ((repeat' split) <;> simp_all [isAck]))))

/-! ### level 2 -/

theorem printResponseTest_bal (D : Desc) (s : St) (h : owes s = 1) : bal (printResponseTest D s .cmd).1 = bal s := by
  simp [printResponseTest, setStateTL]; acct
theorem nextFormatVar_bal (D : Desc) (s : St) (h : owes s = 1) : bal (nextFormatVar D s .cmd).1 = bal s := by
  simp [nextFormatVar, St.idx, St.pos, St.setIdx]; acct
theorem startFormatTest_bal (D : Desc) (s : St) (h : owes s = 1) : bal (startFormatTest D s .cmd) = bal s := by
  simp [startFormatTest, St.cmdOf, printResponseTest, setStateTL]; acct
theorem startFormatRead_bal (D : Desc) (s : St) (h : owes s = 1) : bal (startFormatRead D s .cmd) = bal s := by
  simp [startFormatRead, St.cmdOf, setStateRL]; acct
theorem startPrintCmdList_bal (D : Desc) (s : St) (h : owes s = 1) : bal (startPrintCmdList D s) = bal s := by
  simp [startPrintCmdList]; acct

/-! ### level 3: handler loops -/

theorem doCall_bal (D : Desc) (s : St) (c : Call) (h : owes s = 1) (hc : c ≠ .startFlush .reset) :
    bal (doCall D .cmd s c) = bal s := by
  cases c with
  | ackOk => simp [doCall]; acct
  | ackError => simp [doCall]; acct
  | enableHold => simp [doCall, enableHoldState]; acct
  | startPrintCmdList => exact startPrintCmdList_bal D s h
  | endOk => simp [doCall]; acct
  | endError => simp [doCall]; acct
  | startFlush a => cases a <;> simp [doCall, startFlush, St.emit] <;> acct
  | startFormatRead => exact startFormatRead_bal D s h
  | startFormatTest => exact startFormatTest_bal D s h
  | holdExit ok => simp [doCall, holdExit]; acct

/-- the calls of one table arm keep the balance -/
structure ArmOk (D : Desc) (s : St) (l : List Call) : Prop where
  eq : bal (doCalls D .cmd s l) = bal s

/-- a handler's return code leads to at most one result code, and then as the last call -/
theorem tables_bal (D : Desc) (s : St) (ret : Int) (h : owes s = 1) :
    ArmOk D s (Gen.process_write_loop ret) ∧ ArmOk D s (Gen.process_run_loop ret) ∧
    ArmOk D s (Gen.process_read_loop ret .cmd) ∧ ArmOk D s (Gen.process_test_loop ret .cmd) := by
  have hx : ∀ ok, owes (doCall D .cmd s (.holdExit ok)) = 1 ∧ bal (doCall D .cmd s (.holdExit ok)) = bal s := by
    intro ok; constructor <;> (simp [doCall, holdExit]; acct)
  have h1 : ∀ c, c ≠ .startFlush .reset → ArmOk D s [c] := by
    intro c hc; constructor; simp only [doCalls]; exact doCall_bal D s c h hc
  have h2 : ∀ ok c, c ≠ .startFlush .reset → ArmOk D s [.holdExit ok, c] := by
    intro ok c hc; constructor; simp only [doCalls]; rw [doCall_bal D _ _ (hx ok).1 hc]; exact (hx ok).2
  have h0 : ArmOk D s [] := ⟨by simp only [doCalls]⟩
  refine ⟨?_, ?_, ?_, ?_⟩
  · unfold Gen.process_write_loop
    (repeat' split) <;> first | exact h0 | exact h1 _ (by decide)
  · unfold Gen.process_run_loop
    (repeat' split) <;> first | exact h0 | exact h1 _ (by decide)
  · unfold Gen.process_read_loop
    (repeat' split) <;> first | exact h0 | exact h2 _ _ (by decide) | exact h1 _ (by decide)
  · unfold Gen.process_test_loop
    (repeat' split) <;> first | exact h0 | exact h2 _ _ (by decide) | exact h1 _ (by decide)

/-! ### level 4: one step of the command machine -/

theorem owes_of_state (s : St) (h1 : s.state ≠ .idle) (h2 : s.state ≠ .afterFlushReset) (h3 : s.state ≠ .flushWait)
    (h4 : s.state ≠ .flushWrite) : owes s = 1 := by
  simp [owes, h1, h2, h3, h4]

@[simp] theorem readCmdChar_acct (s : St) (i : SvcIn) :
    tr .ack (readCmdChar s i).1.log = tr .ack s.log ∧ (readCmdChar s i).1.state = s.state ∧
    (readCmdChar s i).1.writeStateAfter = s.writeStateAfter := by
  unfold readCmdChar; split <;> simp [St.emit, cls]

theorem errorState_bal (D : Desc) (s : St) (i : SvcIn) (hs : s.state = .error) : bal (errorState D s i).1 = bal s := by
  simp only [errorState]
  generalize hr : readCmdChar s i = r
  have a := readCmdChar_acct s i
  rw [hr] at a
  obtain ⟨t, got⟩ := r
  simp only at a ⊢
  (repeat' split) <;> acct

macro "rdbal" s:term "," i:term : tactic =>
  `(tactic| (generalize hr : readCmdChar $s $i = r
             have a := readCmdChar_acct $s $i
             rw [hr] at a
             obtain ⟨t, got⟩ := r
             simp only at a ⊢
             (repeat' split) <;> acct))

/-- beginning a line: the first byte other than CR/LF read in IDLE -/
theorem processIdleState_bal (s : St) (i : SvcIn) (hs : s.state = .idle) :
    bal (processIdleState s i).1 = bal s + (if (processIdleState s i).1.state = .idle then 0 else 1) := by
  simp only [processIdleState]
  rdbal s, i

theorem parsePrefix_bal (D : Desc) (s : St) (i : SvcIn) (hs : s.state = .parsePrefix) : bal (parsePrefix D s i).1 = bal s := by
  simp only [parsePrefix, prepareParseCommand]
  rdbal s, i

theorem parseCommand_bal (D : Desc) (s : St) (i : SvcIn) (hs : s.state = .parseCommandChar) : bal (parseCommand D s i).1 = bal s := by
  simp only [parseCommand, prepareSearchCommand]
  rdbal s, i

theorem updateCommand_bal (D : Desc) (s : St) (hs : s.state = .updateCommandState) : bal (updateCommand D s).1 = bal s := by
  have ⟨_, _, _, d, _⟩ := updateLane_fields D (s.chkUb (decide (s.index < D.commandsNum)))
  have q := updateCommand_quiet .ack D s
  have g := graph_update D s
  simp only [bal, answered, owes]
  rw [q]
  rw [hs] at g
  simp at g
  rcases g with g | g | g <;> simp [g, hs]

theorem waitReadAcknowledge_bal (s : St) (i : SvcIn) (hs : s.state = .waitReadAck) : bal (waitReadAcknowledge s i).1 = bal s := by
  simp only [waitReadAcknowledge, prepareSearchCommand]
  rdbal s, i

theorem searchCommand_bal (D : Desc) (s : St) (hs : s.state = .searchCommand) : bal (searchCommand D s).1 = bal s := by
  have q := searchCommand_quiet .ack D s
  have g := graph_search D s
  simp only [bal, answered, owes]
  rw [q]
  rw [hs] at g
  simp at g
  rcases g with g | g | g | g <;> simp [g, hs]

theorem commandFound_bal (D : Desc) (s : St) (hs : s.state = .commandFound) : bal (commandFound D s).1 = bal s := by
  have h1 : owes (s.chkUb s.cmd.isSome) = 1 := by simp [owes, hs]
  have hb : bal (s.chkUb s.cmd.isSome) = bal s := by simp [bal, answered, owes]
  simp only [commandFound]
  split
  · (repeat' split) <;> acct
  · (repeat' split)
    · acct
    · rw [startFormatRead_bal D _ h1, hb]
  · simp [setB]; acct
  · acct

/-- a helper that neither starts a result code nor moves the machine -/
@[simp] abbrev Neutral (s s' : St) : Prop :=
  tr .ack s'.log = tr .ack s.log ∧ s'.state = s.state ∧ s'.writeStateAfter = s.writeStateAfter

theorem neutral_bal (s s' : St) (h : Neutral s s') : bal s' = bal s ∧ owes s' = owes s := by
  simp only [bal, answered, owes, h.1, h.2.1, h.2.2, and_self]

@[simp] theorem applyNested_neutral (D : Desc) (f : Fsm) (e : Bool) (acts : List Nested) (s : St) :
    Neutral s (applyNested D f e s acts) := by
  have a := applyNested_frame D f e acts s
  have b := applyNested_quiet .ack (by decide) (by decide) D f e acts s
  simp_all
@[simp] theorem parseVarValue_neutral (D : Desc) (s : St) (v : VarD) : Neutral s (parseVarValue D s v).1 := by
  have b := parseVarValue_quiet .ack (by decide) D s v
  refine ⟨b, ?_, ?_⟩ <;> (unfold parseVarValue; crunch)
@[simp] theorem varWriteCb_neutral (D : Desc) (s : St) (v : VarD) (i : SvcIn) : Neutral s (varWriteCb D s v i).1 := by
  unfold varWriteCb; split <;> simp [St.emit, cls]
@[simp] theorem varReadCb_neutral (D : Desc) (s : St) (v : VarD) (i : SvcIn) : Neutral s (varReadCb D s .cmd v i).1 := by
  simp only [varReadCb]; split <;> simp [St.emit, cls]
@[simp] theorem formatVar_neutral (D : Desc) (s : St) (v : VarD) : Neutral s (formatVar D s .cmd v).1 := by
  have b := formatVar_quiet .ack D s .cmd v
  refine ⟨b, (formatVar_state D s .cmd v).1, ?_⟩
  unfold formatVar; crunch

@[simp] theorem formatInfoType_neutral (D : Desc) (s : St) (v : VarD) : Neutral s (formatInfoType D s .cmd v).1 := by
  unfold formatInfoType; crunch
@[simp] theorem printCurrentCmdFullName_neutral (D : Desc) (s : St) (x : List Byte) : Neutral s (printCurrentCmdFullName D s x).1 := by
  have b := printCurrentCmdFullName_quiet .ack D s x
  refine ⟨b, ?_, ?_⟩ <;> (simp [printCurrentCmdFullName]; crunch)

theorem commandNotFound_bal (D : Desc) (s : St) (hs : s.state = .commandNotFound) : bal (commandNotFound D s).1 = bal s := by
  simp only [commandNotFound]; acct

theorem parseCommandArgs_bal (D : Desc) (s : St) (i : SvcIn) (hs : s.state = .parseCommandArgs) :
    bal (parseCommandArgs D s i).1 = bal s := by
  simp only [parseCommandArgs]
  generalize hr : readCmdChar s i = r
  have a := readCmdChar_acct s i
  rw [hr] at a
  obtain ⟨t, got⟩ := r
  simp only at a ⊢
  (repeat' split) <;> simp [setB] <;> acct

theorem parseWriteArgs_bal (D : Desc) (s : St) (i : SvcIn) (hs : s.state = .parseWriteArgs) :
    bal (parseWriteArgs D s i).1 = bal s := by
  simp only [parseWriteArgs]
  generalize hs0 : (s.chkUb s.cmd.isSome).chkUb (decide ((s.chkUb s.cmd.isSome).index < (D.cmdD (s.chkUb s.cmd.isSome).cmd).varNum)) = s0
  have e0 : Neutral s s0 := by subst hs0; simp
  generalize (D.cmdD (s.chkUb s.cmd.isSome).cmd).varAt s0.index = v
  have p := parseVarValue_neutral D s0 v
  generalize parseVarValue D s0 v = r at p
  obtain ⟨s1, stat, ok⟩ := r
  have q := varWriteCb_neutral D s1 v i
  generalize varWriteCb D s1 v i = r2 at q
  obtain ⟨s2, fail⟩ := r2
  simp only [Neutral] at e0 p q
  simp only
  (repeat' split) <;> acct

theorem nextFormatVar_nomore (D : Desc) (s : St) (h : (nextFormatVar D s .cmd).2 = false) :
    Neutral s (nextFormatVar D s .cmd).1 := by
  revert h
  simp [nextFormatVar, St.idx, St.pos, St.setIdx]; crunch

theorem formatReadArgs_bal (D : Desc) (s : St) (i : SvcIn) (hs : s.state = .formatReadArgs) :
    bal (formatReadArgs D s .cmd i).1 = bal s := by
  simp only [formatReadArgs]
  generalize hs0 : (s.chkUb (s.cmdOf .cmd).isSome).chkUb _ = s0
  have e0 : Neutral s s0 := by subst hs0; simp
  generalize (D.cmdD ((s.chkUb (s.cmdOf .cmd).isSome).cmdOf .cmd)).varAt (s0.idx .cmd) = v
  have p := varReadCb_neutral D s0 v i
  generalize varReadCb D s0 .cmd v i = r at p
  obtain ⟨s1, fail⟩ := r
  have q := formatVar_neutral D s1 v
  generalize formatVar D s1 .cmd v = r2 at q
  obtain ⟨s2, ok⟩ := r2
  simp only [Neutral] at e0 p q
  have o2 : owes s2 = 1 := by simp [owes, q.2.1, p.2.1, e0.2.1, hs]
  have b2 : bal s2 = bal s := by simp only [bal, answered, owes, q.1, q.2.1, q.2.2, p.1, p.2.1, p.2.2, e0.1, e0.2.1, e0.2.2]
  have n := nextFormatVar_bal D s2 o2
  have nn := nextFormatVar_nomore D s2
  generalize nextFormatVar D s2 .cmd = r3 at n nn
  obtain ⟨s3, more⟩ := r3
  simp only at n nn ⊢
  (repeat' split)
  · acct
  · acct
  · rw [n, b2]
  · have := nn (by simp_all); simp only [setStateRL]; acct
  · have := nn (by simp_all); simp only [startFlush, St.emit]; acct

theorem waitTestAcknowledge_bal (D : Desc) (s : St) (i : SvcIn) (hs : s.state = .waitTestAck) :
    bal (waitTestAcknowledge D s i).1 = bal s := by
  simp only [waitTestAcknowledge]
  generalize hr : readCmdChar s i = r
  have a := readCmdChar_acct s i
  rw [hr] at a
  obtain ⟨t, got⟩ := r
  simp only at a ⊢
  have ot : owes t = 1 := by simp [owes, a.2.1, hs]
  have bt : bal t = bal s := by simp only [bal, answered, owes, a.1, a.2.1, a.2.2]
  (repeat' split)
  · acct
  · rw [startFormatTest_bal D t ot, bt]
  · acct
  · acct

theorem printResponseTest_fail (D : Desc) (s : St) (h : (printResponseTest D s .cmd).2 = false) :
    Neutral s (printResponseTest D s .cmd).1 := by
  revert h
  simp [printResponseTest, setStateTL]; crunch

theorem formatTestArgs_bal (D : Desc) (s : St) (hs : s.state = .formatTestArgs) :
    bal (formatTestArgs D s .cmd).1 = bal s := by
  simp only [formatTestArgs]
  generalize hs0 : (s.chkUb (s.cmdOf .cmd).isSome).chkUb _ = s0
  have e0 : Neutral s s0 := by subst hs0; simp
  generalize (D.cmdD ((s.chkUb (s.cmdOf .cmd).isSome).cmdOf .cmd)).varAt (s0.idx .cmd) = v
  have p := formatInfoType_neutral D s0 v
  generalize formatInfoType D s0 .cmd v = r at p
  obtain ⟨s1, ok⟩ := r
  simp only [Neutral] at e0 p
  have o1 : owes s1 = 1 := by simp [owes, p.2.1, e0.2.1, hs]
  have b1 : bal s1 = bal s := by simp only [bal, answered, owes, p.1, p.2.1, p.2.2, e0.1, e0.2.1, e0.2.2]
  have n := nextFormatVar_bal D s1 o1
  have nn := nextFormatVar_nomore D s1
  generalize nextFormatVar D s1 .cmd = r3 at n nn
  obtain ⟨s3, more⟩ := r3
  simp only at n nn ⊢
  (repeat' split)
  · acct
  · rw [n, b1]
  · have k := nn (by simp_all)
    simp only [Neutral] at k
    have o3 : owes s3 = 1 := by simp [owes, k.2.1, p.2.1, e0.2.1, hs]
    rename_i hok
    rw [printResponseTest_bal D s3 o3, n, b1]
  · have k := nn (by simp_all)
    simp only [Neutral] at k
    have o3 : owes s3 = 1 := by simp [owes, k.2.1, p.2.1, e0.2.1, hs]
    rename_i hok
    have f := printResponseTest_fail D s3 (by simpa using hok)
    simp only [Neutral] at f
    acct

theorem loops_bal (D : Desc) (s : St) (i : SvcIn) :
    (s.state = .writeLoop → bal (processWriteLoop D s i).1 = bal s) ∧
    (s.state = .runLoop → bal (processRunLoop D s i).1 = bal s) ∧
    (s.state = .readLoop → bal (processReadLoop D s .cmd i).1 = bal s) ∧
    (s.state = .testLoop → bal (processTestLoop D s .cmd i).1 = bal s) := by
  refine ⟨?_, ?_, ?_, ?_⟩ <;> intro hs
  · simp only [processWriteLoop]
    generalize hx : applyNested D .cmd false _ _ = x
    have nx : Neutral s x := by subst hx; simp [St.emit, cls]
    simp only [Neutral] at nx
    have ox : owes x = 1 := by simp [owes, nx.2.1, hs]
    rw [((tables_bal D x i.hc.ret ox).1).eq]
    simp only [bal, answered, owes, nx.1, nx.2.1, nx.2.2]
  · simp only [processRunLoop]
    generalize hx : applyNested D .cmd false _ _ = x
    have nx : Neutral s x := by subst hx; simp [St.emit, cls]
    simp only [Neutral] at nx
    have ox : owes x = 1 := by simp [owes, nx.2.1, hs]
    rw [((tables_bal D x i.hc.ret ox).2.1).eq]
    simp only [bal, answered, owes, nx.1, nx.2.1, nx.2.2]
  · simp only [processReadLoop]
    generalize hx : applyNested D .cmd true _ _ = x
    have nx : Neutral s x := by subst hx; simp [St.emit, cls]
    simp only [Neutral] at nx
    have ox : owes x = 1 := by simp [owes, nx.2.1, hs]
    rw [((tables_bal D x i.hc.ret ox).2.2.1).eq]
    simp only [bal, answered, owes, nx.1, nx.2.1, nx.2.2]
  · simp only [processTestLoop]
    generalize hx : applyNested D .cmd true _ _ = x
    have nx : Neutral s x := by subst hx; simp [St.emit, cls]
    simp only [Neutral] at nx
    have ox : owes x = 1 := by simp [owes, nx.2.1, hs]
    rw [((tables_bal D x i.hc.ret ox).2.2.2).eq]
    simp only [bal, answered, owes, nx.1, nx.2.1, nx.2.2]

theorem processHoldState_bal (D : Desc) (s : St) (hs : s.state = .hold) : bal (processHoldState D s).1 = bal s := by
  simp only [processHoldState]; (repeat' split) <;> acct

theorem processIoWriteWait_bal (s : St) (hs : s.state = .flushWait) : bal (processIoWriteWait s).1 = bal s := by
  simp only [processIoWriteWait]; (repeat' split) <;> acct

theorem processIoWrite_bal (D : Desc) (s : St) (i : SvcIn) (hs : s.state = .flushWrite) : bal (processIoWrite D s i).1 = bal s := by
  simp only [processIoWrite]
  generalize writeByte D s .cmd = wb
  obtain ⟨ch, inb⟩ := wb
  simp only
  (repeat' split) <;> simp [St.emit] <;> acct <;> (cases hw : s.writeStateAfter <;> simp_all [After.toC])

theorem cmdListNextCmd_spec (D : Desc) (s : St) :
    tr .ack (cmdListNextCmd D s).1.log = tr .ack s.log ∧ (cmdListNextCmd D s).1.writeStateAfter = s.writeStateAfter ∧
    ((cmdListNextCmd D s).2 = true → (cmdListNextCmd D s).1.state = .printCmd) ∧
    ((cmdListNextCmd D s).2 = false → (cmdListNextCmd D s).1.state = s.state) := by
  simp [cmdListNextCmd]; crunch

theorem printCmdForm_bal (D : Desc) (s t : St) (hs : s.state = .printCmd) (nt : Neutral s t)
    (avail : Bool) (x : List Byte) (next : CmdType) : bal (printCmdForm D t avail x next) = bal s := by
  simp only [printCmdForm]
  have p := printCurrentCmdFullName_neutral D { t with position := 0 } x
  generalize printCurrentCmdFullName D { t with position := 0 } x = r at p
  obtain ⟨u, ok⟩ := r
  simp only [Neutral] at nt p
  simp only [startFlushRaw, St.emit]
  (repeat' split) <;> acct

theorem printCmdList_bal (D : Desc) (s : St) (hs : s.state = .printCmd) : bal (printCmdList D s) = bal s := by
  have nx := cmdListNextCmd_spec D ({ s.chkUb (decide (s.index < D.commandsNum)) with cmd := some (s.chkUb (decide (s.index < D.commandsNum))).index })
  simp only [printCmdList]
  generalize cmdListNextCmd D _ = r at nx
  obtain ⟨s1, more⟩ := r
  simp only at nx
  split
  · simp only [chkUb_ctl] at nx ⊢
    (repeat' split) <;> acct
  · exact printCmdForm_bal D s _ hs (by simp) _ _ _
  · exact printCmdForm_bal D s _ hs (by simp) _ _ _
  · exact printCmdForm_bal D s _ hs (by simp) _ _ _
  · exact printCmdForm_bal D s _ hs (by simp) _ _ _
  · simp only [chkUb_ctl] at nx ⊢
    (repeat' split) <;> acct

/-- a line begins: the machine leaves IDLE -/
def begins (s s' : St) : Nat := if s.state = .idle ∧ s'.state ≠ .idle then 1 else 0

/-- **Every step of the command machine keeps `answered + owes` constant, except that beginning
a line adds one.**  Needs the hold coupling: a result code is never started while the hold flag
is up, so `reset_state` behind it returns to IDLE. -/
theorem commandService_bal (D : Desc) (s : St) (i : SvcIn) (hc : HoldCpl s) :
    bal (commandService D s i).1 = bal s + begins s (commandService D s i).1 := by
  unfold commandService begins
  split <;> rename_i hs <;> simp only [hs, reduceCtorEq, false_and, if_false, Nat.add_zero]
  · exact errorState_bal D s i hs
  · rw [processIdleState_bal s i hs]; simp
  · exact parsePrefix_bal D s i hs
  · exact parseCommand_bal D s i hs
  · exact updateCommand_bal D s hs
  · exact waitReadAcknowledge_bal s i hs
  · exact searchCommand_bal D s hs
  · exact commandFound_bal D s hs
  · exact commandNotFound_bal D s hs
  · exact parseCommandArgs_bal D s i hs
  · exact parseWriteArgs_bal D s i hs
  · exact formatReadArgs_bal D s i hs
  · exact waitTestAcknowledge_bal D s i hs
  · exact formatTestArgs_bal D s hs
  · exact (loops_bal D s i).1 hs
  · exact (loops_bal D s i).2.2.1 hs
  · exact (loops_bal D s i).2.2.2 hs
  · exact (loops_bal D s i).2.1 hs
  · exact processHoldState_bal D s hs
  · exact processIoWriteWait_bal s hs
  · exact processIoWrite_bal D s i hs
  · have hf : s.holdFlag = false := by
      cases hh : s.holdFlag
      · rfl
      · have := hc.1 hh; rw [hs] at this; cases this
    simp [resetState, hf, St.emit, cls]; acct
  · acct
  · exact startFormatRead_bal D s (by simp [owes, hs])
  · exact startFormatTest_bal D s (by simp [owes, hs])
  · exact printCmdList_bal D s hs

end Cat
