/-
  Translator item T8: `parse_command` (name characters, the suffix characters, the line end inside a name): C01, C02, C20.
  (`Gen/Readers/Name.lean`, regenerated from `src/cat.c` on every run; the model's functions are proved equal to the generated ones).
-/
import CatVerif.Gen.Readers.Name
namespace Cat

theorem parseCommand_generated : parseCommand = Gen.parse_command := by
  funext D s i; unfold parseCommand Gen.parse_command; rfl

end Cat
