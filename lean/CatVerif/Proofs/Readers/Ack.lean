/-
  Translator item T8: `wait_read_acknowledge`, `wait_test_acknowledge` (the line end after `?` and `=?`): C02, C20.
  (`Gen/Readers/Ack.lean`, regenerated from `src/cat.c` on every run; the model's functions are proved equal to the generated ones).
-/
import CatVerif.Gen.Readers.Ack
namespace Cat

theorem waitReadAcknowledge_generated (D : Desc) : waitReadAcknowledge = Gen.wait_read_acknowledge D := by
  funext s i; unfold waitReadAcknowledge Gen.wait_read_acknowledge; rfl

theorem waitTestAcknowledge_generated : waitTestAcknowledge = Gen.wait_test_acknowledge := by
  funext D s i; unfold waitTestAcknowledge Gen.wait_test_acknowledge; rfl

end Cat
