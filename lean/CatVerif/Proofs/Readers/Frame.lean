/-
  Translator item T8: the line-framing state functions `error_state`, `process_idle_state`, `parse_prefix`: C01, C20.
  (`Gen/Readers/Frame.lean`, regenerated from `src/cat.c` on every run; the model's functions are proved equal to the generated ones).
-/
import CatVerif.Gen.Readers.Frame
namespace Cat

theorem errorState_generated : errorState = Gen.error_state := by
  funext D s i; unfold errorState Gen.error_state; rfl

theorem processIdleState_generated (D : Desc) : processIdleState = Gen.process_idle_state D := by
  funext s i; unfold processIdleState Gen.process_idle_state; rfl

theorem parsePrefix_generated : parsePrefix = Gen.parse_prefix := by
  funext D s i; unfold parsePrefix Gen.parse_prefix; rfl

end Cat
