/-
  The merged output stream (C11): everything `io->write` has accepted from EITHER machine, in the
  order of the calls, is a concatenation of whole units, followed by the part already sent of the
  one unit in progress (if any).  Units of the two machines never interleave.

  The per-machine accounting (`UnitsHist.lean`, `UnitsU.lean`) is parametric in the accumulated
  output, so it can be instantiated with the merged stream whenever the other machine is silent;
  that it is silent is the exclusion invariant (`FlushExcl`): only a machine in FLUSH_IO_WRITE
  writes, and never both are.  A unit waiting in FLUSH_IO_WRITE_WAIT is not counted until it starts.
-/
import CatVerif.Proofs.UnitsU
import CatVerif.Proofs.Inv
namespace Cat
open St

/-- bytes of either machine accepted by `write`, in log order -/
def outM (l : List Ev) : List Byte :=
  l.filterMap (fun e => match e with
    | .wr _ b true _ => some b
    | _ => none)

@[simp] theorem outM_append (a b : List Ev) : outM (a ++ b) = outM a ++ outM b := by simp [outM]

theorem outM_noU : ∀ l : List Ev, tr .wrU l = [] → outM l = outC l := by
  intro l
  induction l with
  | nil => intro _; rfl
  | cons x t ih =>
    intro h
    rw [tr_cons] at h
    have h2 : tr .wrU t = [] := (List.append_eq_nil_iff.1 h).2
    have h1 := (List.append_eq_nil_iff.1 h).1
    have e : x :: t = [x] ++ t := rfl
    rw [e, outM_append, outC_append, ih h2]
    congr 1
    cases x <;> simp [outM, outC]
    rename_i f b a p
    cases f
    · cases a <;> simp
    · simp [cls] at h1

theorem outM_noC : ∀ l : List Ev, tr .wrC l = [] → outM l = outU l := by
  intro l
  induction l with
  | nil => intro _; rfl
  | cons x t ih =>
    intro h
    rw [tr_cons] at h
    have h2 : tr .wrC t = [] := (List.append_eq_nil_iff.1 h).2
    have h1 := (List.append_eq_nil_iff.1 h).1
    have e : x :: t = [x] ++ t := rfl
    rw [e, outM_append, outU_append, ih h2]
    congr 1
    cases x <;> simp [outM, outU]
    rename_i f b a p
    cases f
    · simp [cls] at h1
    · cases a <;> simp

theorem outC_nil_of_tr (l : List Ev) (h : tr .wrC l = []) : outC l = [] := by rw [outC_tr, h]; rfl
theorem outU_nil_of_tr (l : List Ev) (h : tr .wrU l = []) : outU l = [] := by rw [outU_tr, h]; rfl

/-! ### what one `cat_service` body does to the two flush states -/

/-- a unit of the unsolicited machine that waits for the output: its opening line break and text
(the closing line break is chosen later), or a bare text -/
def PendU (D : Desc) (s : St) : Prop :=
  s.ustate = .flushWait →
    (OpenU s ∧ ∃ a, IsNl a ∧ remU D s = a ++ payloadU D s) ∨ (¬ OpenU s ∧ UnitShape (remU D s))

/-- a unit of the command machine that waits for the output is whole -/
def PendC (D : Desc) (s : St) : Prop := s.state = .flushWait → UnitShape (remC D s)

theorem UnitSameU.pend {D : Desc} {s s' : St} (h : UnitSameU D s s') (p : PendU D s) : PendU D s' := by
  have k := h.keep
  intro hw
  have := p (by rw [← h.1]; exact hw)
  rw [k.1, k.2.1]
  rcases this with ⟨o, x⟩ | ⟨o, x⟩
  · exact Or.inl ⟨k.2.2.1.2 o, x⟩
  · exact Or.inr ⟨fun y => o (k.2.2.1.1 y), x⟩

structure BodyFacts (D : Desc) (s s' : St) : Prop where
  f1 : s.state ≠ .flushWrite → tr .wrC s'.log = tr .wrC s.log
  f2 : s.ustate ≠ .flushWrite → tr .wrU s'.log = tr .wrU s.log
  f3 : s'.state = .flushWrite → s.state = .flushWrite ∨ (s.state = .flushWait ∧ s'.ustate ≠ .flushWrite)
  f4 : s'.ustate = .flushWrite → s.ustate = .flushWrite ∨ (s.ustate = .flushWait ∧ s.state ≠ .flushWrite)
  f5 : s.state = .flushWrite → s'.state ≠ .flushWait
  f6 : s.ustate = .flushWrite → s'.ustate ≠ .flushWait
  f7 : s.state = .flushWait → remC D s' = remC D s ∧ (s'.state = .flushWait ∨ s'.state = .flushWrite)
  f8 : s.ustate = .flushWait → remU D s' = remU D s ∧ payloadU D s' = payloadU D s ∧ (OpenU s' ↔ OpenU s) ∧
        (s'.ustate = .flushWait ∨ s'.ustate = .flushWrite)
  f9 : ¬ (s.state = .flushWait ∨ s.state = .flushWrite) → s'.state = .flushWait → UnitShape (remC D s')
  f10 : ¬ (s.ustate = .flushWait ∨ s.ustate = .flushWrite) → PendU D s'

theorem serviceBody_facts {D : Desc} (s : St) (i : SvcIn) (hu : i.hu.ret ≠ 4) (hn : 0 < D.commandsNum)
    (w : Wf D s) (ub : UbAll D s) (o : OobAll D s) (hb : BufOkU D s) (fo : FlushOk D s) (fou : FlushOkU D s) :
    BodyFacts D s (serviceBody D s i).1 := by
  have so := serviceBody_oob s i hu hn w ub o
  have uoob := unsolicitedEventsService_oob s i w ub.2 o.u
  have kr := unsolicitedEventsService_keepsCR D s i
  have hb1 : BufOkU D (unsolicitedEventsService D s i).1 := hb.frame kr.2.1 kr.2.2
  obtain ⟨us, uo⟩ := unsolicitedEventsService_unitSame D s i hu
  have qC := unsolicitedEventsService_quiet .wrC (by decide) D s i (.of_ne (by decide) (by decide)) (.of_ne (by decide) (by decide))
  have nwU := unsolicitedEventsService_no_write D s i
  have fwU := uns_flushWrite D s i
  -- the unsolicited step from a flush state
  have uwrite : s.ustate = .flushWrite → (unsolicitedEventsService D s i).1.ustate ≠ .flushWait := by
    intro hfw
    have e : unsolicitedEventsService D s i = unsolicitedProcessIoWrite D s i := by simp [unsolicitedEventsService, hfw]
    rw [e]
    obtain ⟨extra, _, _, _, _, hleave⟩ := uWrite_acct D s i hfw hb (fou (Or.inr hfw))
    intro h
    by_cases hst : (unsolicitedProcessIoWrite D s i).1.ustate = .flushWrite
    · rw [hst] at h; exact absurd h (by decide)
    · exact (hleave hst).2.1 h
  have uwait : s.ustate = .flushWait →
      remU D (unsolicitedEventsService D s i).1 = remU D s ∧ payloadU D (unsolicitedEventsService D s i).1 = payloadU D s ∧
      (OpenU (unsolicitedEventsService D s i).1 ↔ OpenU s) ∧
      ((unsolicitedEventsService D s i).1.ustate = .flushWait ∨ (unsolicitedEventsService D s i).1.ustate = .flushWrite) := by
    intro hwt
    have e : unsolicitedEventsService D s i = unsolicitedProcessIoWriteWait s := by simp [unsolicitedEventsService, hwt]
    rw [e]
    unfold unsolicitedProcessIoWriteWait
    split
    · exact ⟨by simp [remU, hwt, payloadU, region], by simp [payloadU, region], by simp [OpenU, hwt], Or.inr rfl⟩
    · exact ⟨rfl, rfl, Iff.rfl, Or.inl hwt⟩
  have uentry : ¬ (s.ustate = .flushWait ∨ s.ustate = .flushWrite) → PendU D (unsolicitedEventsService D s i).1 := by
    intro hnf hw'
    have en := entryU_unit hb1 uoob.2 hw'
    rcases en.2 with ⟨h0, off, hle, hr⟩ | ⟨h2, hr⟩
    · exact Or.inl ⟨⟨Or.inl hw', by omega⟩, nlBytes off, nlBytes_isNl off hle, hr⟩
    · refine Or.inr ⟨fun op => by have := op.2; omega, ?_⟩
      rw [hr]
      exact ⟨[10], [10], _, Or.inl rfl, Or.inl rfl, takeWhile_ne _, Or.inr rfl⟩
  unfold serviceBody at so ⊢
  simp only at so ⊢
  generalize (unsolicitedEventsService D s i).1 = u at *
  -- the command step
  have ku := commandService_keepsU D u i
  have kur := commandService_keepsUR D u i
  have qU := commandService_quiet .wrU (by decide) D u i (.of_ne (by decide) (by decide)) (.of_ne (by decide) (by decide))
  simp only [KeepsU, SameU', Quiet] at ku qU qC
  have same : UnitSameU D u (commandService D u i).1 :=
    ⟨ku.1.1, ku.1.2.2.2.2.2.1, ku.1.2.2.2.2.1, ku.2, regionU_of_frames kur.1 kur.2.1⟩
  have sk := same.keep
  have nwC := commandService_no_write D u i
  simp only [Quiet] at nwC nwU
  have fwC := cmd_flushWrite D u i
  have cwait : u.state = .flushWait → remC D (commandService D u i).1 = remC D u ∧
      ((commandService D u i).1.state = .flushWait ∨ (commandService D u i).1.state = .flushWrite) := by
    intro hs'
    have := processIoWriteWait_unit D u hs'
    unfold commandService
    simp only [hs']
    exact ⟨this.1, this.2.2.2⟩
  have cwrite : u.state = .flushWrite → FlushInv D u → (commandService D u i).1.state ≠ .flushWait := by
    intro hs' hv' h
    have pw := processIoWrite_unit D u i hs' hv'
    unfold commandService at h
    simp only [hs'] at h
    have := pw.2.2.2 (by rw [h]; decide)
    rw [this.2] at h
    cases hx : u.writeStateAfter <;> simp [hx, After.toC] at h
  refine ⟨?_, ?_, ?_, ?_, ?_, ?_, ?_, ?_, ?_, ?_⟩
  · intro h; rw [nwC (by rw [us.1]; exact h), qC]
  · intro h; rw [qU, nwU h]
  · intro h
    rcases fwC h with g | ⟨g1, g2⟩
    · left; rw [← us.1]; exact g
    · right; exact ⟨by rw [← us.1]; exact g1, by rw [same.1]; exact g2⟩
  · intro h
    rw [same.1] at h
    exact fwU h
  · intro h
    have hs' : u.state = .flushWrite := by rw [us.1]; exact h
    exact cwrite hs' (us.inv (fo (Or.inr h)))
  · intro h; rw [same.1]; exact uwrite h
  · intro h
    have := cwait (by rw [us.1]; exact h)
    exact ⟨by rw [this.1, us.rem], this.2⟩
  · intro h
    have := uwait h
    exact ⟨by rw [sk.1, this.1], by rw [sk.2.1, this.2.1], sk.2.2.1.trans this.2.2.1, by rw [same.1]; exact this.2.2.2⟩
  · intro hnf hw
    exact (entry_unit so.2.1.buf so.2.2.c hw).2
  · intro hnf
    exact same.pend (uentry hnf)

/-! ### the merged accounting -/

/-- `acc ++` what remains of the command machine's unit is a sequence of whole units -/
def TraceC (D : Desc) (acc : List Byte) (s : St) : Prop :=
  ∃ us : List (List Byte), (∀ u ∈ us, UnitShape u) ∧ acc ++ remC D s = us.flatten

/-- the invariant of the merged stream: `acc` = everything accepted so far from either machine -/
structure MInv (D : Desc) (acc : List Byte) (s : St) : Prop where
  cw : s.state = .flushWrite → TraceC D acc s
  uw : s.ustate = .flushWrite → TraceU D acc s
  idle : s.state ≠ .flushWrite → s.ustate ≠ .flushWrite →
    ∃ us : List (List Byte), (∀ u ∈ us, UnitShape u) ∧ acc = us.flatten
  pc : PendC D s
  pu : PendU D s

theorem units_snoc {us : List (List Byte)} {u : List Byte} (h : ∀ x ∈ us, UnitShape x) (hu : UnitShape u) :
    ∀ x ∈ us ++ [u], UnitShape x := by
  intro x hx
  rcases List.mem_append.1 hx with g | g
  · exact h x g
  · simp only [List.mem_singleton] at g; rw [g]; exact hu

theorem units_append {us vs : List (List Byte)} (h : ∀ x ∈ us, UnitShape x) (h' : ∀ x ∈ vs, UnitShape x) :
    ∀ x ∈ us ++ vs, UnitShape x := by
  intro x hx
  rcases List.mem_append.1 hx with g | g
  · exact h x g
  · exact h' x g

/-- **One `cat_service` body keeps the merged accounting.** -/
theorem serviceBody_merged {D : Desc} (s : St) (i : SvcIn) (acc : List Byte) (hu : i.hu.ret ≠ 4) (hn : 0 < D.commandsNum)
    (w : Wf D s) (ub : UbAll D s) (o : OobAll D s) (hb : BufOkU D s) (fo : FlushOk D s) (fou : FlushOkU D s)
    (ex : FlushExcl s) (hlc : tr .wrC s.log = []) (hlu : tr .wrU s.log = [])
    (m : MInv D acc s) :
    MInv D (acc ++ outM (serviceBody D s i).1.log) (serviceBody D s i).1 := by
  have bf := serviceBody_facts s i hu hn w ub o hb fo fou
  have su := serviceBody_units s i hu hn w ub o fo
  have ex' := serviceBody_flushExcl D s i ex
  have oc0 : outC s.log = [] := outC_nil_of_tr _ hlc
  have ou0 : outU s.log = [] := outU_nil_of_tr _ hlu
  have suu := fun t => (serviceBody_unitsU s i acc hu hn w ub o hb fou (by rw [ou0, List.append_nil]; exact t)).1
  generalize (serviceBody D s i).1 = s' at *
  -- pending units afterwards
  have pc' : s.state ≠ .flushWrite → PendC D s' := by
    intro hnw hw
    by_cases hwt : s.state = .flushWait
    · rw [(bf.f7 hwt).1]; exact m.pc hwt
    · exact bf.f9 (fun h => by rcases h with h | h; exact hwt h; exact hnw h) hw
  have pu' : s.ustate ≠ .flushWrite → PendU D s' := by
    intro hnw
    by_cases hwt : s.ustate = .flushWait
    · intro hw
      have k := bf.f8 hwt
      rw [k.1, k.2.1]
      rcases m.pu hwt with ⟨op, x⟩ | ⟨op, x⟩
      · exact Or.inl ⟨k.2.2.1.2 op, x⟩
      · exact Or.inr ⟨fun y => op (k.2.2.1.1 y), x⟩
    · exact bf.f10 (fun h => by rcases h with h | h; exact hwt h; exact hnw h)
  by_cases hU : s.ustate = .flushWrite
  · -- the unsolicited machine is sending
    have hC : s.state ≠ .flushWrite := fun h => ex ⟨h, hU⟩
    have e : outM s'.log = outU s'.log := outM_noC _ (by rw [bf.f1 hC, hlc])
    rw [e]
    have T' := suu (m.uw hU)
    have nwait := bf.f6 hU
    have closed : s'.ustate ≠ .flushWrite → ∃ us : List (List Byte), (∀ u ∈ us, UnitShape u) ∧ acc ++ outU s'.log = us.flatten := by
      intro h
      have nf : ¬ (s'.ustate = .flushWait ∨ s'.ustate = .flushWrite) := fun g => by rcases g with g | g; exact nwait g; exact h g
      obtain ⟨us, hs, he⟩ := T'.closed (fun op => nf op.1)
      have r : remU D s' = [] := by simp [remU, nf]
      rw [r, List.append_nil] at he
      exact ⟨us, hs, he⟩
    refine ⟨?_, fun _ => T', fun _ h => closed h, pc' hC, fun h => absurd h nwait⟩
    intro h
    rcases bf.f3 h with g | ⟨g1, g2⟩
    · exact absurd g hC
    · obtain ⟨us, hs, he⟩ := closed g2
      exact ⟨us ++ [remC D s], units_snoc hs (m.pc g1), by rw [(bf.f7 g1).1, he]; simp⟩
  · by_cases hC : s.state = .flushWrite
    · -- the command machine is sending
      have e : outM s'.log = outC s'.log := outM_noU _ (by rw [bf.f2 hU, hlu])
      rw [e]
      obtain ⟨new, hnew, hacc, _⟩ := su
      rw [oc0, List.nil_append] at hacc
      obtain ⟨us, hs, he⟩ := m.cw hC
      have TC : TraceC D (acc ++ outC s'.log) s' :=
        ⟨us ++ new, units_append hs hnew, by rw [List.append_assoc, hacc, ← List.append_assoc, he]; simp⟩
      have nwait := bf.f5 hC
      refine ⟨fun _ => TC, ?_, ?_, fun h => absurd h nwait, pu' hU⟩
      · intro h
        rcases bf.f4 h with g | ⟨_, g2⟩
        · exact absurd g hU
        · exact absurd hC g2
      · intro h _
        obtain ⟨vs, hv, hve⟩ := TC
        have r : remC D s' = [] := remC_idle D s' (fun g => by rcases g with g | g; exact nwait g; exact h g)
        rw [r, List.append_nil] at hve
        exact ⟨vs, hv, hve⟩
    · -- nobody is sending
      have e : outM s'.log = [] := by
        rw [outM_noU _ (by rw [bf.f2 hU, hlu])]
        exact outC_nil_of_tr _ (by rw [bf.f1 hC, hlc])
      rw [e, List.append_nil]
      obtain ⟨us, hs, he⟩ := m.idle hC hU
      refine ⟨?_, ?_, fun _ _ => ⟨us, hs, he⟩, pc' hC, pu' hU⟩
      · intro h
        rcases bf.f3 h with g | ⟨g1, _⟩
        · exact absurd g hC
        · exact ⟨us ++ [remC D s], units_snoc hs (m.pc g1), by rw [(bf.f7 g1).1, he]; simp⟩
      · intro h
        rcases bf.f4 h with g | ⟨g1, _⟩
        · exact absurd g hU
        · have k := bf.f8 g1
          refine ⟨fun op => ?_, fun nop => ?_⟩
          · rcases m.pu g1 with ⟨_, a, ha, hr⟩ | ⟨nop, _⟩
            · exact ⟨us, a, hs, ha, by rw [k.1, k.2.1, hr, he]; simp⟩
            · exact absurd (k.2.2.1.1 op) nop
          · rcases m.pu g1 with ⟨op, _⟩ | ⟨_, hsh⟩
            · exact absurd (k.2.2.1.2 op) nop
            · exact ⟨us ++ [remU D s], units_snoc hs hsh, by rw [k.1, he]; simp⟩

/-! ### one API call, a history -/

theorem MInv.same {D : Desc} {s s' : St} {acc : List Byte} (hc : UnitSame D s s') (hu : UnitSameU D s s')
    (m : MInv D acc s) : MInv D acc s' := by
  refine ⟨fun h => ?_, fun h => hu.trace (m.uw (by rw [← hu.1]; exact h)),
    fun h1 h2 => m.idle (by rw [← hc.1]; exact h1) (by rw [← hu.1]; exact h2), fun h => ?_, hu.pend m.pu⟩
  · obtain ⟨us, hs, he⟩ := m.cw (by rw [← hc.1]; exact h)
    exact ⟨us, hs, by rw [hc.rem]; exact he⟩
  · rw [hc.rem]; exact m.pc (by rw [← hc.1]; exact h)

theorem Still.unitC {D : Desc} {s s' : St} (h : Still s s') : UnitSame D s s' :=
  ⟨h.1.c.2.2.2.2.2.2.2.1, h.1.c.2.2.2.2.2.2.2.2.2.2.1, h.1.c.2.2.2.2.2.2.2.2.2.1, h.1.p.1, h.1.c.2.2.2.2.2.2.2.2.1, by rw [h.1.b.1]⟩

theorem Still.minv {D : Desc} {s s' : St} {acc : List Byte} (h : Still s s') (m : MInv D acc s) : MInv D acc s' :=
  m.same h.unitC h.unitU

theorem DescEq.minv {D D' : Desc} (de : DescEq D D') {s : St} {acc : List Byte} (m : MInv D acc s) : MInv D' acc s := by
  have hu : D'.unsCap = D.unsCap := de.capOf .uns
  have hb : D'.unsBase = D.unsBase := by simp [Desc.unsBase, de.bufSize]
  have e : region D' s .uns 0 = region D s .uns 0 := by simp [region, hu, hb, de.unsBuf]
  have p : payloadU D' s = payloadU D s := by simp [payloadU, e]
  have r : remU D' s = remU D s := by simp [remU, p]
  have c := (de.unit s).1
  refine ⟨fun h => ?_, fun h => (de.unitU s acc).1 (m.uw h), m.idle, fun h => by rw [c]; exact m.pc h, fun h => ?_⟩
  · obtain ⟨us, hs, he⟩ := m.cw h
    exact ⟨us, hs, by rw [c]; exact he⟩
  · rw [r, p]; exact m.pu h

/-- everything the merged accounting needs of a reachable world -/
structure GoodM (w : World) : Prop where
  gu : GoodU w
  guu : GoodUU w
  tu : ∃ a, TraceU w.D a w.s
  ex : FlushExcl w.s

theorem apply_goodM (w : World) (op : Op) (hop : OpOk op) (g : GoodM w) : GoodM (apply w op).1 := by
  obtain ⟨a, t⟩ := g.tu
  obtain ⟨_, _, _, u⟩ := apply_units w op hop g.gu
  have uu := apply_unitsU w op a hop g.guu t
  exact ⟨u, uu.2, ⟨_, uu.1⟩, apply_flushExcl w op g.ex⟩

theorem outM_emit_lock (a : St) (r : Int) : outM (a.emit (.lock r)).log = outM a.log ∧ outM (a.emit (.unlock r)).log = outM a.log := by
  have e1 : outM [Ev.lock r] = [] := rfl
  have e2 : outM [Ev.unlock r] = [] := rfl
  constructor
  · rw [emit_log, outM_append, e1, List.append_nil]
  · rw [emit_log, outM_append, e2, List.append_nil]

theorem apply_merged (w : World) (op : Op) (acc : List Byte) (hop : OpOk op) (g : GoodM w) (m : MInv w.D acc w.s) :
    MInv (apply w op).1.D (acc ++ outM (apply w op).1.s.log) (apply w op).1.s := by
  have clr : Still w.s ({ w.s with log := [] } : St) := ⟨⟨by simp, by simp, by simp, by simp⟩, rfl, rfl⟩
  have m0 : MInv w.D acc ({ w.s with log := [] } : St) := clr.minv m
  have still : ∀ s' : St, (apply w op).1.D = w.D → (apply w op).1.s = s' → Still ({ w.s with log := [] } : St) s' → outM s'.log = [] →
      MInv (apply w op).1.D (acc ++ outM (apply w op).1.s.log) (apply w op).1.s := by
    intro s' hD hs hst ho
    rw [hD, hs, ho, List.append_nil]
    exact hst.minv m0
  have noOut : ∀ (D : Desc) (s : St) (lk ul : Int) (body : St → St × Int), outM s.log = [] → (∀ a, outM a.log = [] → outM (body a).1.log = []) →
      outM (withMutex D s lk ul body).1.log = [] := by
    intro D s lk ul body h0 hb
    unfold withMutex
    split
    · split
      · rw [(outM_emit_lock s lk).1]; exact h0
      · have := hb (s.emit (.lock lk)) (by rw [(outM_emit_lock s lk).1]; exact h0)
        simp only
        split <;> (rw [(outM_emit_lock _ ul).2]; exact this)
    · exact hb _ h0
  cases op with
  | service i =>
    have good := g.gu.good
    have k0 := clr.keep (good.wf.ring.congr (by simp)) good.wf good.oob
    have ub0 : UbAll w.D ({ w.s with log := [] } : St) :=
      (show UbSame w.s { w.s with log := [] } from ⟨rfl, rfl, rfl, rfl, rfl, rfl, rfl, rfl, rfl, rfl, rfl⟩).inv good.ub.1 good.ub.2
    have b0 : BufOkU w.D ({ w.s with log := [] } : St) := g.guu.buf.frame rfl rfl
    have f0 : FlushOkU w.D ({ w.s with log := [] } : St) := (clr.unitU (D := w.D)).keep.2.2.2 g.guu.fo
    have c0 : FlushOk w.D ({ w.s with log := [] } : St) := (clr.unit (D := w.D)).2 g.gu.fo
    have x0 : FlushExcl ({ w.s with log := [] } : St) := by simpa [FlushExcl] using g.ex
    have em : ∀ (a : St) (r : Int),
        (Wf w.D a ∧ UbAll w.D a ∧ OobAll w.D a ∧ BufOkU w.D a ∧ FlushOk w.D a ∧ FlushOkU w.D a ∧ FlushExcl a ∧
          tr .wrC a.log = [] ∧ tr .wrU a.log = [] ∧ MInv w.D acc a) →
        (Wf w.D (a.emit (.lock r)) ∧ UbAll w.D (a.emit (.lock r)) ∧ OobAll w.D (a.emit (.lock r)) ∧ BufOkU w.D (a.emit (.lock r)) ∧
          FlushOk w.D (a.emit (.lock r)) ∧ FlushOkU w.D (a.emit (.lock r)) ∧ FlushExcl (a.emit (.lock r)) ∧
          tr .wrC (a.emit (.lock r)).log = [] ∧ tr .wrU (a.emit (.lock r)).log = [] ∧ MInv w.D acc (a.emit (.lock r))) := by
      intro a r h
      have st := Still.emit a (.lock r)
      have k := st.keep (h.1.ring.congr (by simp)) h.1 h.2.2.1
      have u := st.unitU (D := w.D)
      exact ⟨k.1, (UbSame.emit a _).inv h.2.1.1 h.2.1.2, k.2, h.2.2.2.1.frame rfl rfl, (st.unit (D := w.D)).2 h.2.2.2.2.1,
        u.keep.2.2.2 h.2.2.2.2.2.1, by simpa [FlushExcl] using h.2.2.2.2.2.2.1,
        by simp [emit_log, cls, h.2.2.2.2.2.2.2.1], by simp [emit_log, cls, h.2.2.2.2.2.2.2.2.1], st.minv h.2.2.2.2.2.2.2.2.2⟩
    have body : ∀ a : St,
        (Wf w.D a ∧ UbAll w.D a ∧ OobAll w.D a ∧ BufOkU w.D a ∧ FlushOk w.D a ∧ FlushOkU w.D a ∧ FlushExcl a ∧
          tr .wrC a.log = [] ∧ tr .wrU a.log = [] ∧ MInv w.D acc a) →
        MInv w.D (acc ++ outM (serviceBody w.D a i).1.log) (serviceBody w.D a i).1 := by
      intro a h
      exact serviceBody_merged a i acc hop good.num h.1 h.2.1 h.2.2.1 h.2.2.2.1 h.2.2.2.2.1 h.2.2.2.2.2.1 h.2.2.2.2.2.2.1
        h.2.2.2.2.2.2.2.1 h.2.2.2.2.2.2.2.2.1 h.2.2.2.2.2.2.2.2.2
    have un : ∀ (a : St) (r : Int), MInv w.D (acc ++ outM a.log) a → MInv w.D (acc ++ outM (a.emit (.unlock r)).log) (a.emit (.unlock r)) := by
      intro a r h
      rw [(outM_emit_lock a r).2]
      exact (Still.emit a _).minv h
    have start := (⟨k0.1, ub0, k0.2, b0, c0, f0, x0, rfl, rfl, m0⟩ :
      Wf w.D ({ w.s with log := [] } : St) ∧ UbAll w.D ({ w.s with log := [] } : St) ∧ OobAll w.D ({ w.s with log := [] } : St) ∧
      BufOkU w.D ({ w.s with log := [] } : St) ∧ FlushOk w.D ({ w.s with log := [] } : St) ∧ FlushOkU w.D ({ w.s with log := [] } : St) ∧
      FlushExcl ({ w.s with log := [] } : St) ∧ tr .wrC ({ w.s with log := [] } : St).log = [] ∧
      tr .wrU ({ w.s with log := [] } : St).log = [] ∧ MInv w.D acc ({ w.s with log := [] } : St))
    show MInv w.D (acc ++ outM (service w.D ({ w.s with log := [] } : St) i).1.log) (service w.D ({ w.s with log := [] } : St) i).1
    unfold service withMutex
    split
    · split
      · have h := (em _ i.lock start).2.2.2.2.2.2.2.2.2
        rw [(outM_emit_lock _ i.lock).1]
        simpa [outM] using h
      · simp only
        have h1 := body _ (em _ i.lock start)
        split <;> exact un _ _ h1
    · exact body _ start
  | isBusy lk ul =>
    have st := withMutex_still w.D ({ w.s with log := [] } : St) lk ul isBusyBody (fun a ha => ⟨.refl a, ha⟩) (g.gu.good.wf.ring.congr (by simp))
    exact still _ rfl rfl st.1 (noOut _ _ _ _ _ rfl (fun a h => h))
  | isHold lk ul =>
    have st := withMutex_still w.D ({ w.s with log := [] } : St) lk ul isHoldBody (fun a ha => ⟨.refl a, ha⟩) (g.gu.good.wf.ring.congr (by simp))
    exact still _ rfl rfl st.1 (noOut _ _ _ _ _ rfl (fun a h => h))
  | isFull lk ul =>
    have st := withMutex_still w.D ({ w.s with log := [] } : St) lk ul (isFullBody w.D) (fun a ha => ⟨.refl a, ha⟩) (g.gu.good.wf.ring.congr (by simp))
    exact still _ rfl rfl st.1 (noOut _ _ _ _ _ rfl (fun a h => h))
  | trigger c t' lk ul =>
    have st := withMutex_still w.D ({ w.s with log := [] } : St) lk ul (fun s => pushUnsolicited w.D s c (cmdTypeOfInt t'))
      (fun a ha => by
        have f := pushUnsolicited_frame w.D a c (cmdTypeOfInt t')
        exact ⟨⟨⟨f.1, f.2.1, f.2.2.2.1, f.2.2.2.2.2.1⟩, by simp [f.2.2.2.2.1], pushUnsolicited_oob w.D a c _ ha⟩, pushUnsolicited_ring w.D a c _ ha⟩)
      (g.gu.good.wf.ring.congr (by simp))
    exact still _ rfl rfl st.1 (noOut w.D ({ w.s with log := [] } : St) lk ul (fun s => pushUnsolicited w.D s c (cmdTypeOfInt t')) rfl (fun a h => by
      have f := pushUnsolicited_frame w.D a c (cmdTypeOfInt t'); rw [f.2.2.2.2.2.2]; exact h))
  | holdExit st lk ul =>
    have stl := withMutex_still w.D ({ w.s with log := [] } : St) lk ul (fun s => holdExit s st)
      (fun a ha => ⟨⟨holdExit_calm a st, by simp, holdExit_oob a st⟩, ha.congr (by simp)⟩) (g.gu.good.wf.ring.congr (by simp))
    exact still _ rfl rfl stl.1 (noOut w.D ({ w.s with log := [] } : St) lk ul (fun s => holdExit s st) rfl (fun a h => by
      have f := holdExit_frame a st; rw [f.2.2.2.2.2.2.2]; exact h))
  | buffered c t => exact still _ rfl rfl (.refl _) rfl
  | setCmdDisable c v =>
    have de := modifyCmd_eq w.D c (fun x => { x with disable := v }) (fun _ => rfl)
    have := de.minv m0
    simpa [apply, outM] using this
  | setCmdOnlyTest c v =>
    have de := modifyCmd_eq w.D c (fun x => { x with onlyTest := v }) (fun _ => rfl)
    have := de.minv m0
    simpa [apply, outM] using this
  | setGroupDisable gi v =>
    have de := groupDisable_eq w.D gi v
    have := de.minv m0
    simpa [apply, outM] using this
  | poke slot off bs =>
    have st : Still ({ w.s with log := [] } : St) (apply w (.poke slot off bs)).1.s := by
      simp only [apply]
      split
      · rename_i h
        exact ⟨⟨by simp, by simp, by simp, by simp⟩, poke_lenE _ slot off bs h, rfl⟩
      · exact .refl _
    exact still _ rfl rfl st (by simp only [apply]; split <;> rfl)

/-- all bytes accepted by `io->write` during a history, from either machine, in order -/
def outAllM (tr : List (Int × List Ev)) : List Byte := (tr.map (fun x => outM x.2)).flatten

/-- **The merged output is a sequence of whole units**, over any history. -/
theorem runOps_merged : ∀ (ops : List Op) (w : World) (acc : List Byte), (∀ op ∈ ops, OpOk op) → GoodM w → MInv w.D acc w.s →
    MInv (runOps w ops).1.D (acc ++ outAllM (runOps w ops).2) (runOps w ops).1.s := by
  intro ops
  induction ops with
  | nil => intro w acc _ _ t; simpa [runOps, outAllM] using t
  | cons op r ih =>
    intro w acc hok g t
    have a := apply_merged w op acc (hok op (by simp)) g t
    have b := ih (apply w op).1 (acc ++ outM (apply w op).1.s.log) (fun o ho => hok o (by simp [ho]))
      (apply_goodM w op (hok op (by simp)) g) a
    simp only [runOps, outAllM, List.map_cons, List.flatten_cons] at b ⊢
    simpa [outAllM, List.append_assoc] using b

end Cat
