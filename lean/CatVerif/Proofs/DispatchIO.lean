/-
  Translator item T6: the states in which the model's command machine takes input (`Reading`) are
  exactly the states whose C function starts with the guarded call
  `if (read_cmd_char(self) == 0) return CAT_STATUS_OK;` (no other function calls `read_cmd_char`,
  none calls `io->read` directly), and the only state of either machine whose C function calls
  `io->write` is FLUSH_IO_WRITE — the premises of the stutter theorems of C12 and of the writer
  theorems of C11.  The lists are regenerated from the call sites in `src/cat.c` on every run
  (`Gen/Dispatch.lean`), so giving another state's function a read or a write breaks these.
-/
import CatVerif.Gen.Dispatch
import CatVerif.Proofs.Quiesce
namespace Cat

/-- the model reads input in exactly the states whose C function calls `read_cmd_char` -/
theorem reading_generated (st : CState) : Reading st ↔ st ∈ Gen.readingStates := by
  cases st <;> simp [Reading, Gen.readingStates]

/-- `io->write` is called from FLUSH_IO_WRITE of either machine and from nowhere else -/
theorem writing_generated : Gen.writingStates = [.flushWrite] ∧ Gen.uwritingStates = [.flushWrite] := ⟨rfl, rfl⟩

end Cat
