/-
  `Proofs/Text.lean` for either machine: the region is read through `getB`, so the same statements hold for the unsolicited
  machine in its own buffer or in its half of a shared one (`BufLen`: the backing store is as long as declared).
  `printN_txtF`: the printing primitive appends; `TxtF.cstr_eq`: a NUL-free text under the cursor is the handler's C string and
  `position` its `strlen`; `startFormatRead_textF`: the first text of a READ answered through the read handler alone — for an
  unsolicited READ event as well.
-/
import CatVerif.Proofs.Text
import CatVerif.Proofs.UnitsU
namespace Cat
open St

/-- the backing store of machine `f`'s region is as long as declared -/
def BufLen (D : Desc) (s : St) : Fsm → Prop
  | .cmd => D.cmdCap ≤ s.buf.length
  | .uns => BufOkU D s

theorem getB_setB_eq (D : Desc) (s : St) (f : Fsm) (i v : Nat) (hi : i < D.capOf f) (hb : BufLen D s f) :
    getB D (setB D s f i v) f i = v := by
  cases f
  · simp only [BufLen] at hb
    have hi' : i < D.cmdCap := hi
    simp only [setB, getB, hi, if_true, List.getD]
    rw [List.getElem?_set_self (by omega)]; rfl
  · simp only [BufLen, BufOkU] at hb
    have hi' : i < D.unsCap := hi
    simp only [setB, getB, hi, if_true]
    cases hu : D.unsBuf.isSome
    · simp only [hu, Bool.false_eq_true, if_false] at hb ⊢
      simp only [List.getD]
      rw [List.getElem?_set_self (by omega)]; rfl
    · simp only [hu, if_true] at hb ⊢
      simp only [List.getD]
      rw [List.getElem?_set_self (by omega)]; rfl

theorem BufLen.setB {D : Desc} {s : St} {f : Fsm} (h : BufLen D s f) (i v : Nat) : BufLen D (setB D s f i v) f := by
  cases f
  · simp only [BufLen] at h ⊢
    unfold Cat.St.setB; split <;> simp [h]
  · simp only [BufLen, BufOkU] at h ⊢
    by_cases hi : i < D.capOf .uns
    · cases hu : D.unsBuf.isSome <;> simp only [Cat.St.setB, hi, hu, if_true, Bool.false_eq_true, if_false, List.length_set] at h ⊢ <;> exact h
    · simp only [Cat.St.setB, hi, if_false]; exact h

theorem getB_writeB_in (D : Desc) (f : Fsm) : ∀ (bs : List Byte) (s : St) (i0 : Nat), i0 + bs.length ≤ D.capOf f → BufLen D s f →
    ∀ k, k < bs.length → getB D (writeB D s f i0 bs) f (i0 + k) = bs.getD k 0 := by
  intro bs
  induction bs with
  | nil => intro s i0 _ _ k hk; simp at hk
  | cons b r ih =>
    intro s i0 hc hb k hk
    simp only [List.length_cons] at hc hk
    simp only [writeB]
    cases k with
    | zero =>
      rw [Nat.add_zero, getB_writeB_out D f r _ _ _ (Or.inl (by omega))]
      simpa using getB_setB_eq D s f i0 b (by omega) hb
    | succ k =>
      have := ih (St.setB D s f i0 b) (i0 + 1) (by omega) (hb.setB i0 b) k (by omega)
      rw [show i0 + (k + 1) = i0 + 1 + k by omega]
      simpa using this

theorem BufLen.writeB {D : Desc} {f : Fsm} : ∀ (bs : List Byte) (s : St) (i : Nat), BufLen D s f → BufLen D (writeB D s f i bs) f := by
  intro bs
  induction bs with
  | nil => intro s i h; exact h
  | cons b r ih => intro s i h; simp only [Cat.St.writeB]; exact ih _ _ (h.setB i b)


theorem BufLen.congr {D : Desc} {s s' : St} {f : Fsm} (h : BufLen D s f) (hb : s'.buf = s.buf ∧ s'.ubuf = s.ubuf) : BufLen D s' f := by
  cases f
  · simp only [BufLen] at h ⊢; rw [hb.1]; exact h
  · simp only [BufLen, BufOkU] at h ⊢; rw [hb.1, hb.2]; exact h

/-- the region of machine `f` starts with the text `t` and the cursor stands behind it -/
def PreF (D : Desc) (s : St) (f : Fsm) (t : List Byte) : Prop :=
  s.pos f = t.length ∧ t.length ≤ D.capOf f ∧ (∀ i, i < t.length → getB D s f i = t.getD i 0)

/-- the region of machine `f` starts with the text `t`, NUL-terminated, and the cursor stands on that NUL -/
def TxtF (D : Desc) (s : St) (f : Fsm) (t : List Byte) : Prop :=
  s.pos f = t.length ∧ t.length < D.capOf f ∧ (∀ i, i < t.length → getB D s f i = t.getD i 0) ∧ getB D s f t.length = 0

theorem TxtF.pre {D : Desc} {s : St} {f : Fsm} {t : List Byte} (h : TxtF D s f t) : PreF D s f t := ⟨h.1, Nat.le_of_lt h.2.1, h.2.2.1⟩

/-- **the printing primitive appends, for either machine** -/
theorem printN_txtF {D : Desc} {s : St} {f : Fsm} {t : List Byte} (x : List Byte) (hb : BufLen D s f) (h : PreF D s f t)
    (ok : (printN D s f x).2 = true) :
    TxtF D (printN D s f x).1 f (t ++ x) ∧ BufLen D (printN D s f x).1 f := by
  obtain ⟨hp, hc, hpre⟩ := h
  unfold printN at ok ⊢
  have hle : s.pos f ≤ D.capOf f := by omega
  simp only [hle, decide_true, St.chkUb, if_true] at ok ⊢
  by_cases hfit : x.length ≥ D.capOf f - s.pos f
  · simp [hfit] at ok
  · simp only [hfit, if_false] at ok ⊢
    have hlt : s.pos f + x.length < D.capOf f := by omega
    generalize hs1 : writeB D s f (s.pos f) x = s1
    have b1 : BufLen D s1 f := by rw [← hs1]; exact BufLen.writeB x s _ hb
    have sb : SameBuf s1 (s1.setPos f (s.pos f + x.length)) := (setPos_frame s1 f _).2.2.1
    have b2 : BufLen D (s1.setPos f (s.pos f + x.length)) f := b1.congr sb
    have g2 : ∀ n, getB D (s1.setPos f (s.pos f + x.length)) f n = getB D s1 f n := fun n => getB_congr D f n sb
    refine ⟨⟨?_, ?_, ?_, ?_⟩, b2.setB _ _⟩
    · rw [setB_pos, setPos_pos, hp, List.length_append]
    · simp only [List.length_append]; omega
    · intro i hi
      simp only [List.length_append] at hi
      rw [getB_setB_ne D _ f _ 0 i (by omega), g2, ← hs1]
      by_cases h1 : i < t.length
      · rw [getB_writeB_out D f x s _ i (Or.inl (by omega)), hpre i h1]
        simp [List.getD, List.getElem?_append_left h1]
      · have := getB_writeB_in D f x s (s.pos f) (by omega) hb (i - t.length) (by omega)
        rw [show s.pos f + (i - t.length) = i by omega] at this
        rw [this]
        simp [List.getD, List.getElem?_append_right (show t.length ≤ i by omega)]
    · rw [List.length_append, ← hp]
      exact getB_setB_zero D _ f _ hlt


theorem region_length {D : Desc} {s : St} {f : Fsm} (hb : BufLen D s f) : (region D s f 0).length = D.capOf f := by
  cases f
  · simp only [BufLen] at hb
    simp [region, Desc.capOf]; omega
  · exact region_uns_length hb

theorem getB_region {D : Desc} {s : St} {f : Fsm} (hb : BufLen D s f) (p : Nat) (hp : p < D.capOf f) :
    getB D s f p = (region D s f 0).getD p 0 := by
  cases f
  · have hp' : p < D.cmdCap := hp
    simp [region, getB, List.getD, hp']
  · exact getB_uns_region hb p hp

theorem list_split_nul (l t : List Byte) (hl : t.length < l.length) (hpre : ∀ i, i < t.length → l.getD i 0 = t.getD i 0)
    (hz : l.getD t.length 0 = 0) : l = t ++ 0 :: l.drop (t.length + 1) := by
  apply List.ext_getElem?
  intro i
  by_cases h1 : i < t.length
  · have := hpre i h1
    simp only [List.getD] at this
    rw [List.getElem?_append_left h1]
    rw [List.getElem?_eq_getElem (show i < l.length by omega), List.getElem?_eq_getElem h1] at *
    simpa using this
  · by_cases h2 : i = t.length
    · subst h2
      rw [List.getElem?_append_right (Nat.le_refl _)]
      simp only [Nat.sub_self, List.getElem?_cons_zero]
      simp only [List.getD, List.getElem?_eq_getElem hl, Option.getD_some] at hz
      rw [List.getElem?_eq_getElem hl, hz]
    · rw [List.getElem?_append_right (by omega)]
      have : i - t.length = (i - t.length - 1) + 1 := by omega
      rw [this, List.getElem?_cons_succ, List.getElem?_drop]
      congr 1; omega

/-- a NUL-free text under the cursor is the handler's C string, and the position its `strlen`, for either machine -/
theorem TxtF.cstr_eq {D : Desc} {s : St} {f : Fsm} {t : List Byte} (hb : BufLen D s f) (h : TxtF D s f t) (hn : ∀ b ∈ t, b ≠ 0) :
    cstr D s f = (t, true) ∧ s.pos f = t.length := by
  obtain ⟨hp, hc, hpre, hz⟩ := h
  have hl := region_length hb
  have hreg := list_split_nul (region D s f 0) t (by rw [hl]; exact hc)
    (fun i hi => by rw [← getB_region hb i (by omega)]; exact hpre i hi)
    (by rw [← getB_region hb _ hc]; exact hz)
  unfold cstr
  simp only []
  rw [hreg, strlenOf_append_nul t _ hn]
  refine ⟨?_, hp⟩
  simp


theorem printN_ok_iffF (D : Desc) (s : St) (f : Fsm) (x : List Byte) (hp : s.pos f ≤ D.capOf f) :
    (printN D s f x).2 = decide (x.length < D.capOf f - s.pos f) := by
  unfold printN
  simp only [hp, decide_true, St.chkUb, if_true]
  by_cases h : x.length ≥ D.capOf f - s.pos f
  · simp [h]
  · simp [h]; omega

theorem printAll_txtF {D : Desc} {f : Fsm} : ∀ (xs : List (List Byte)) (s : St) (t : List Byte), BufLen D s f → PreF D s f t →
    (printAll D s f xs).2 = true → xs ≠ [] →
    TxtF D (printAll D s f xs).1 f (t ++ xs.flatten) ∧ BufLen D (printAll D s f xs).1 f := by
  intro xs
  induction xs with
  | nil => intro s t _ _ _ h; exact absurd rfl h
  | cons x r ih =>
    intro s t hb hp ok _
    simp only [printAll] at ok ⊢
    rcases hr : printN D s f x with ⟨s1, o1⟩
    rw [hr] at ok
    cases o1
    · simp at ok
    · simp only [if_true] at ok ⊢
      have p1 := printN_txtF x hb hp (by rw [hr])
      rw [hr] at p1
      cases r with
      | nil => simpa [printAll] using p1
      | cons y r' =>
        have := ih s1 (t ++ x) p1.2 p1.1.pre ok (by simp)
        simpa [List.append_assoc] using this

theorem printAll_fitsF {D : Desc} {f : Fsm} : ∀ (xs : List (List Byte)) (s : St) (t : List Byte), BufLen D s f → PreF D s f t →
    t.length + xs.flatten.length < D.capOf f → (printAll D s f xs).2 = true := by
  intro xs
  induction xs with
  | nil => intro s t _ _ _; rfl
  | cons x r ih =>
    intro s t hb hp hfit
    simp only [List.flatten_cons, List.length_append] at hfit
    have ok1 : (printN D s f x).2 = true := by
      rw [printN_ok_iffF D s f x (by rw [hp.1]; exact hp.2.1), hp.1]; simp; omega
    have t1 := printN_txtF x hb hp ok1
    simp only [printAll]
    rcases hr : printN D s f x with ⟨s1, o1⟩
    rw [hr] at ok1 t1
    simp only at ok1 t1
    subst ok1
    simp only [if_true]
    exact ih s1 (t ++ x) t1.2 t1.1.pre (by simp only [List.length_append]; omega)

theorem printAll_keepF (D : Desc) (f : Fsm) : ∀ (xs : List (List Byte)) (s : St),
    (printAll D s f xs).1.cmdOf f = s.cmdOf f ∧ (printAll D s f xs).1.crFlag = s.crFlag := by
  intro xs
  induction xs with
  | nil => intro s; exact ⟨rfl, rfl⟩
  | cons x r ih =>
    intro s
    simp only [printAll]
    have k := printN_frame D s f x
    simp only [SameCtlNP, SameC', SameU', SameH, SameR] at k
    have kc : (printN D s f x).1.cmdOf f = s.cmdOf f := by
      cases f
      · exact k.1.1.2.2.2.2.1
      · exact k.1.2.1.2.2.1
    rcases hr : printN D s f x with ⟨s1, o1⟩
    rw [hr] at k kc
    cases o1
    · exact ⟨kc, k.1.1.2.2.2.2.2.2.2.2.1⟩
    · simp only [if_true]
      have := ih s1
      exact ⟨this.1.trans kc, this.2.trans k.1.1.2.2.2.2.2.2.2.2.1⟩

/-- READ through the read handler alone, either machine: the text the handler is first called with -/
theorem startFormatRead_textF (D : Desc) (s : St) (f : Fsm) (hb : BufLen D s f) (hc : (s.cmdOf f).isSome = true)
    (hv : varsAccessible (D.cmdD (s.cmdOf f)) .ro = false) (hr : (D.cmdD (s.cmdOf f)).hasRead = true)
    (hfit : (D.cmdD (s.cmdOf f)).name.length + 1 < D.capOf f) :
    TxtF D (startFormatRead D s f) f ((D.cmdD (s.cmdOf f)).name ++ [61]) ∧
    (startFormatRead D s f).cmdOf f = s.cmdOf f ∧ BufLen D (startFormatRead D s f) f ∧
    (match f with | .cmd => (startFormatRead D s f).state = .readLoop | .uns => (startFormatRead D s f).ustate = .readLoop) := by
  unfold startFormatRead
  generalize hs0 : s.setPos f 0 = s0
  have fr := setPos_frame s f 0
  have hb0 : BufLen D s0 f := by rw [← hs0]; exact hb.congr fr.2.2.1
  have hc0 : s0.cmdOf f = s.cmdOf f := by
    rw [← hs0]; cases f <;> simp [St.setPos, St.cmdOf]
  have hp0 : PreF D s0 f [] := ⟨by rw [← hs0]; exact setPos_pos s f 0, Nat.zero_le _, fun i hi => by simp at hi⟩
  have hc0' : (s0.cmdOf f).isSome = true := by rw [hc0]; exact hc
  obtain ⟨c, hcd⟩ : ∃ c, D.cmdD (s.cmdOf f) = c := ⟨_, rfl⟩
  rw [hcd] at hv hr hfit
  simp only [St.chkUb, hc0, hc, if_true, hcd]
  have ok1 : (printAll D s0 f [c.name, [61]]).2 = true := printAll_fitsF _ s0 [] hb0 hp0 (by simp; omega)
  have t1 := printAll_txtF [c.name, [61]] s0 [] hb0 hp0 ok1 (by simp)
  have k1 := printAll_keepF D f [c.name, [61]] s0
  rcases hr1 : printAll D s0 f [c.name, [61]] with ⟨s1, o1⟩
  rw [hr1] at ok1 t1 k1
  simp only at ok1 t1 k1
  subst ok1
  simp only [Bool.not_true, Bool.false_eq_true, if_false, hv, hr]
  have tx : TxtF D s1 f (c.name ++ [61]) := by simpa using t1.1
  cases f
  · refine ⟨?_, ?_, ?_, rfl⟩
    · simpa [TxtF, setStateRL, St.pos, getB] using tx
    · have := k1.1.trans hc0; simpa [setStateRL, St.cmdOf] using this
    · simpa [BufLen, setStateRL] using t1.2
  · refine ⟨?_, ?_, ?_, rfl⟩
    · simpa [TxtF, setStateRL, St.pos, getB] using tx
    · have := k1.1.trans hc0; simpa [setStateRL, St.cmdOf] using this
    · simpa [BufLen, BufOkU, setStateRL] using t1.2

theorem printResponseTest_eqF (D : Desc) (s : St) (f : Fsm) (hc : (s.cmdOf f).isSome = true) :
    printResponseTest D s f =
      (let r := match (D.cmdD (s.cmdOf f)).desc with
         | some d => printAll D s f [nlStr s, d]
         | none => (s, true)
       if !r.2 then (r.1, false)
       else if (D.cmdD (s.cmdOf f)).hasTest then (setStateTL r.1 f, true)
       else (startFlush r.1 f .ok, true)) := by
  unfold printResponseTest
  simp only [St.chkUb, hc, if_true]
  cases (D.cmdD (s.cmdOf f)).desc <;> rfl

/-- TEST of a command without variables, either machine: the text the test handler is first called with -/
theorem startFormatTest_textF (D : Desc) (s : St) (f : Fsm) (hb : BufLen D s f) (hc : (s.cmdOf f).isSome = true)
    (hv : ((D.cmdD (s.cmdOf f)).vars.isSome && decide ((D.cmdD (s.cmdOf f)).varNum > 0)) = false)
    (ht : (D.cmdD (s.cmdOf f)).hasTest = true)
    (hfit : (testText (D.cmdD (s.cmdOf f)) (nlStr s)).length < D.capOf f) :
    TxtF D (startFormatTest D s f) f (testText (D.cmdD (s.cmdOf f)) (nlStr s)) ∧
    (startFormatTest D s f).cmdOf f = s.cmdOf f ∧ BufLen D (startFormatTest D s f) f ∧
    (match f with | .cmd => (startFormatTest D s f).state = .testLoop | .uns => (startFormatTest D s f).ustate = .testLoop) := by
  unfold startFormatTest
  generalize hs0 : s.setPos f 0 = s0
  have fr := setPos_frame s f 0
  have hb0 : BufLen D s0 f := by rw [← hs0]; exact hb.congr fr.2.2.1
  have hc0 : s0.cmdOf f = s.cmdOf f := by
    rw [← hs0]; cases f <;> simp [St.setPos, St.cmdOf]
  have hcr0 : s0.crFlag = s.crFlag := by rw [← hs0]; cases f <;> simp [St.setPos]
  have hp0 : PreF D s0 f [] := ⟨by rw [← hs0]; exact setPos_pos s f 0, Nat.zero_le _, fun i hi => by simp at hi⟩
  obtain ⟨c, hcd⟩ : ∃ c, D.cmdD (s.cmdOf f) = c := ⟨_, rfl⟩
  rw [hcd] at hv ht hfit
  simp only [St.chkUb, hc0, hc, if_true, hcd]
  have hlen : (c.name ++ [61]).length ≤ (testText c (nlStr s)).length := by
    unfold testText; simp only [List.length_append]; omega
  have ok1 : (printAll D s0 f [c.name, [61]]).2 = true := printAll_fitsF _ s0 [] hb0 hp0 (by simp at hlen ⊢; omega)
  have t1 := printAll_txtF [c.name, [61]] s0 [] hb0 hp0 ok1 (by simp)
  have k1 := printAll_keepF D f [c.name, [61]] s0
  rcases hr1 : printAll D s0 f [c.name, [61]] with ⟨s1, o1⟩
  rw [hr1] at ok1 t1 k1
  simp only at ok1 t1 k1
  subst ok1
  simp only [Bool.not_true, Bool.false_eq_true, if_false, hv]
  have hc1 : (s1.cmdOf f).isSome = true := by rw [k1.1, hc0]; exact hc
  have hcd1 : D.cmdD (s1.cmdOf f) = c := by rw [k1.1, hc0]; exact hcd
  rw [printResponseTest_eqF D s1 f hc1]
  simp only [hcd1]
  have hnl : nlStr s1 = nlStr s := by simp only [nlStr, k1.2, hcr0]
  -- the state after the description (or without one)
  have key : ∃ s2, (match c.desc with | some d => printAll D s1 f [nlStr s1, d] | none => (s1, true)) = (s2, true) ∧
      TxtF D s2 f (testText c (nlStr s)) ∧ s2.cmdOf f = s.cmdOf f ∧ BufLen D s2 f := by
    cases hd : c.desc with
    | none =>
      refine ⟨s1, rfl, ?_, k1.1.trans hc0, t1.2⟩
      have := t1.1
      simpa [testText, hd] using this
    | some d =>
      have hfit2 : (testText c (nlStr s)).length = (c.name ++ [61]).length + ([nlStr s1, d] : List (List Byte)).flatten.length := by
        simp [testText, hd, hnl]; omega
      have ok2 : (printAll D s1 f [nlStr s1, d]).2 = true :=
        printAll_fitsF _ s1 _ t1.2 (by simpa using t1.1.pre) (by rw [← hfit2]; exact hfit)
      have t2 := printAll_txtF [nlStr s1, d] s1 _ t1.2 (by simpa using t1.1.pre) ok2 (by simp)
      have k2 := printAll_keepF D f [nlStr s1, d] s1
      rcases hr2 : printAll D s1 f [nlStr s1, d] with ⟨s2, o2⟩
      rw [hr2] at ok2 t2 k2
      simp only at ok2 t2 k2
      subst ok2
      refine ⟨s2, hr2, ?_, k2.1.trans (k1.1.trans hc0), t2.2⟩
      have := t2.1
      simpa [testText, hd, hnl, List.append_assoc] using this
  obtain ⟨s2, e2, tx, hcm, hbl⟩ := key
  simp only [e2, Bool.not_true, Bool.false_eq_true, if_false, ht, if_true]
  cases f
  · refine ⟨?_, ?_, ?_, rfl⟩
    · simpa [TxtF, setStateTL, St.pos, getB] using tx
    · simpa [setStateTL, St.cmdOf] using hcm
    · simpa [BufLen, setStateTL] using hbl
  · refine ⟨?_, ?_, ?_, rfl⟩
    · simpa [TxtF, setStateTL, St.pos, getB] using tx
    · simpa [setStateTL, St.cmdOf] using hcm
    · simpa [BufLen, BufOkU, setStateTL] using hbl


end Cat
