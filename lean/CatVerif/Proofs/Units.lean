/-
  Output units of the command machine (C11): once a unit is started, the bytes the application
  accepts are exactly line break, payload, line break (or the raw payload of a command-list line),
  in order, none lost or repeated, whatever the write callback refuses in between.
-/
import CatVerif.Proofs.Region
import CatVerif.Proofs.Line
import CatVerif.Proofs.Resolve
namespace Cat
open St

/-- the text in the command region: up to the first NUL -/
def payloadC (D : Desc) (s : St) : List Byte := (region D s .cmd 0).takeWhile (· ≠ 0)

/-- the line break selected by an offset into "\r\n" -/
def nlBytes (off : Nat) : List Byte := ([13, 10] : List Byte).drop off

/-- bytes the command machine still has to get accepted for the unit in progress -/
def remC (D : Desc) (s : St) : List Byte :=
  if s.state = .flushWait ∨ s.state = .flushWrite then
    match s.writeState, s.writeSrc with
    | 0, .nl off => (nlBytes off).drop s.position ++ payloadC D s ++ nlStr s
    | 1, .main => (payloadC D s).drop s.position ++ nlStr s
    | 2, .nl off => (nlBytes off).drop s.position
    | 2, .main => (payloadC D s).drop s.position
    | _, _ => []
  else []

/-- bytes of the command machine accepted by `write` in a log -/
def outC (l : List Ev) : List Byte :=
  l.filterMap (fun e => match e with
    | .wr .cmd b true _ => some b
    | _ => none)

@[simp] theorem outC_append (a b : List Ev) : outC (a ++ b) = outC a ++ outC b := by simp [outC]

/-- the text is terminated inside the command region, and while the payload is being sent the
cursor has not passed its end -/
structure FlushInv (D : Desc) (s : St) : Prop where
  term : (payloadC D s).length < (region D s .cmd 0).length
  cursor : s.writeSrc = .main → s.position ≤ (payloadC D s).length
  phase : (s.writeState = 0 ∧ ∃ off, s.writeSrc = .nl off) ∨ (s.writeState = 1 ∧ s.writeSrc = .main) ∨ s.writeState = 2

theorem nlBytes_get (off p : Nat) :
    ([13, 10, 0] : List Byte).getD (off + p) 0 = ((nlBytes off).drop p).headD 0 ∧
    (([13, 10, 0] : List Byte).getD (off + p) 0 = 0 → (nlBytes off).drop p = []) ∧
    (([13, 10, 0] : List Byte).getD (off + p) 0 ≠ 0 →
      (nlBytes off).drop p = ([13, 10, 0] : List Byte).getD (off + p) 0 :: (nlBytes off).drop (p + 1)) := by
  unfold nlBytes
  have : off + p = 0 ∨ off + p = 1 ∨ off + p ≥ 2 := by omega
  rcases this with h | h | h
  · have h1 : off = 0 := by omega
    have h2 : p = 0 := by omega
    subst h1 h2; simp [List.getD]
  · have : (off = 0 ∧ p = 1) ∨ (off = 1 ∧ p = 0) := by omega
    rcases this with ⟨h1, h2⟩ | ⟨h1, h2⟩ <;> subst h1 h2 <;> simp [List.getD]
  · have e : ([13, 10, 0] : List Byte).getD (off + p) 0 = 0 := by
      by_cases h3 : off + p = 2
      · rw [h3]; rfl
      · simp [List.getD, List.getElem?_eq_none (show ([13, 10, 0] : List Byte).length ≤ off + p by simp; omega)]
    have d : (([13, 10] : List Byte).drop off).drop p = [] := by
      rw [List.drop_drop]; exact List.drop_eq_nil_of_le (by simp; omega)
    simp [d]; simpa [List.getD] using e

theorem takeWhile_get (r : List Byte) : ∀ p, p ≤ (r.takeWhile (· ≠ 0)).length → (r.takeWhile (· ≠ 0)).length < r.length →
    (r.getD p 0 = 0 → (r.takeWhile (· ≠ 0)).drop p = []) ∧
    (r.getD p 0 ≠ 0 → (r.takeWhile (· ≠ 0)).drop p = r.getD p 0 :: (r.takeWhile (· ≠ 0)).drop (p + 1) ∧
        p + 1 ≤ (r.takeWhile (· ≠ 0)).length) := by
  induction r with
  | nil => intro p _ h; simp at h
  | cons a t ih =>
    intro p hp hlt
    by_cases ha : a = 0
    · subst ha
      simp only [List.takeWhile_cons, ne_eq, not_true_eq_false, decide_false, Bool.false_eq_true, if_false, List.length_nil] at hp ⊢
      have : p = 0 := by omega
      subst this
      simp [List.getD]
    · have tw : (a :: t).takeWhile (· ≠ 0) = a :: t.takeWhile (· ≠ 0) := by simp [List.takeWhile_cons, ha]
      rw [tw] at hp hlt ⊢
      cases p with
      | zero => simp [List.getD, ha]
      | succ q =>
        simp only [List.length_cons] at hp hlt
        have := ih q (by omega) (by omega)
        simpa [List.getD] using this

/-- the byte under the cursor of the payload -/
theorem payload_get (D : Desc) (s : St) (p : Nat) (hp : p ≤ (payloadC D s).length)
    (ht : (payloadC D s).length < (region D s .cmd 0).length) :
    (getB D s .cmd p = 0 → (payloadC D s).drop p = []) ∧
    (getB D s .cmd p ≠ 0 → (payloadC D s).drop p = getB D s .cmd p :: (payloadC D s).drop (p + 1) ∧
        p + 1 ≤ (payloadC D s).length) := by
  have hg : getB D s .cmd p = (region D s .cmd 0).getD p 0 := by
    have hlt : p < (region D s .cmd 0).length := by omega
    simp only [region, List.drop_zero, List.length_take] at hlt
    simp [getB, region, List.getD, List.getElem?_take, show p < D.cmdCap by omega]
  rw [hg]
  exact takeWhile_get _ p hp ht

theorem payloadC_congr (D : Desc) (s s' : St) (h : s'.buf.take D.cmdCap = s.buf.take D.cmdCap) :
    payloadC D s' = payloadC D s ∧ (region D s' .cmd 0).length = (region D s .cmd 0).length := by
  have := congrArg List.length h
  simp [payloadC, region, h]

theorem nlStr_eq (s : St) : nlStr s = nlBytes (nlOff s) := by
  unfold nlStr nlBytes nlOff; split <;> rfl

/-- **One write step of the command machine**: what has been accepted so far followed by what
remains of the unit does not change — an accepted byte moves from the head of the remainder to
the output, a refused byte and a phase change move nothing — and the unit's bookkeeping stays
consistent until the unit is complete. -/
theorem processIoWrite_unit (D : Desc) (s : St) (i : SvcIn) (hs : s.state = .flushWrite) (hv : FlushInv D s) :
    outC (processIoWrite D s i).1.log ++ remC D (processIoWrite D s i).1 = outC s.log ++ remC D s ∧
    (processIoWrite D s i).1.buf = s.buf ∧
    ((processIoWrite D s i).1.state = .flushWrite → FlushInv D (processIoWrite D s i).1) ∧
    ((processIoWrite D s i).1.state ≠ .flushWrite → remC D s = [] ∧ (processIoWrite D s i).1.state = s.writeStateAfter.toC) := by
  have pc : ∀ c : Bool, payloadC D (s.chk c) = payloadC D s ∧ (region D (s.chk c) .cmd 0).length = (region D s .cmd 0).length :=
    fun c => payloadC_congr D s _ (by simp)
  rcases hv.phase with ⟨h0, off, hsrc⟩ | ⟨h1, hsrc⟩ | h2
  · -- leading line break
    have g := nlBytes_get off s.position
    simp only [processIoWrite, writeByte, hsrc]
    generalize hch : ([13, 10, 0] : List Byte).getD (off + s.position) 0 = ch at g
    by_cases hz : ch = 0
    · subst hz
      simp only [beq_self_eq_true, if_true, chk_ctl, h0]
      refine ⟨?_, by simp, ?_, ?_⟩
      · simp [remC, hs, h0, hsrc, g.2.1 rfl, payloadC, region, nlStr]
      · intro _
        exact ⟨by simpa [payloadC, region] using hv.term, by intro _; simp, Or.inr (Or.inl ⟨rfl, rfl⟩)⟩
      · intro h; simp [hs] at h
    · have hb : (ch == 0) = false := by simpa using hz
      simp only [hb, Bool.false_eq_true, if_false]
      cases hw : i.wr
      · simp only [Bool.not_false, if_true]
        refine ⟨?_, by simp [St.emit], ?_, ?_⟩
        · simp [remC, hs, h0, hsrc, St.emit, outC, payloadC, region, nlStr]
        · intro _
          exact ⟨by simpa [payloadC, region, St.emit] using hv.term, by intro h; simp [St.emit, hsrc] at h,
            Or.inl ⟨by simp [St.emit, h0], off, by simp [St.emit, hsrc]⟩⟩
        · intro h; simp [St.emit, hs] at h
      · simp only [Bool.not_true, Bool.false_eq_true, if_false]
        refine ⟨?_, by simp [St.emit], ?_, ?_⟩
        · simp [remC, hs, h0, hsrc, St.emit, outC, payloadC, region, (g.2.2 hz), nlStr]
        · intro _
          exact ⟨by simpa [payloadC, region, St.emit] using hv.term, by intro h; simp [St.emit, hsrc] at h,
            Or.inl ⟨by simp [St.emit, h0], off, by simp [St.emit, hsrc]⟩⟩
        · intro h; simp [St.emit, hs] at h
  · -- payload
    have g := payload_get D s s.position (hv.cursor hsrc) hv.term
    simp only [processIoWrite, writeByte, hsrc]
    generalize hch : getB D s .cmd s.position = ch at g
    by_cases hz : ch = 0
    · subst hz
      simp only [beq_self_eq_true, if_true, chk_ctl, h1]
      refine ⟨?_, by simp, ?_, ?_⟩
      · simp [remC, hs, h1, hsrc, g.1 rfl, nlStr_eq, nlOff]
      · intro _
        exact ⟨by simpa [payloadC, region] using hv.term, by intro h; simp at h, Or.inr (Or.inr rfl)⟩
      · intro h; simp [hs] at h
    · have hb : (ch == 0) = false := by simpa using hz
      simp only [hb, Bool.false_eq_true, if_false]
      cases hw : i.wr
      · simp only [Bool.not_false, if_true]
        refine ⟨?_, by simp [St.emit], ?_, ?_⟩
        · simp [remC, hs, h1, hsrc, St.emit, outC, payloadC, region, nlStr]
        · intro _
          exact ⟨by simpa [payloadC, region, St.emit] using hv.term,
            by intro _; simpa [payloadC, region, St.emit] using hv.cursor hsrc,
            Or.inr (Or.inl ⟨by simp [St.emit, h1], by simp [St.emit, hsrc]⟩)⟩
        · intro h; simp [St.emit, hs] at h
      · simp only [Bool.not_true, Bool.false_eq_true, if_false]
        have g2 := g.2 hz
        refine ⟨?_, by simp [St.emit], ?_, ?_⟩
        · simp [payloadC, region] at g2
          simp [remC, hs, h1, hsrc, St.emit, outC, payloadC, region, nlStr]
          rw [g2.1]; rfl
        · intro _
          exact ⟨by simpa [payloadC, region, St.emit] using hv.term,
            by intro _; simpa [payloadC, region, St.emit] using g2.2,
            Or.inr (Or.inl ⟨by simp [St.emit, h1], by simp [St.emit, hsrc]⟩)⟩
        · intro h; simp [St.emit, hs] at h
  · -- closing line break, or the raw payload of a command-list line
    have notflush : ∀ a : After, a.toC ≠ .flushWait ∧ a.toC ≠ .flushWrite := by intro a; cases a <;> simp [After.toC]
    cases hsrc : s.writeSrc with
    | nl off =>
      have g := nlBytes_get off s.position
      simp only [processIoWrite, writeByte, hsrc]
      generalize hch : ([13, 10, 0] : List Byte).getD (off + s.position) 0 = ch at g
      by_cases hz : ch = 0
      · subst hz
        simp only [beq_self_eq_true, if_true, chk_ctl, h2]
        refine ⟨?_, by simp [St.emit], ?_, ?_⟩
        · simp [remC, hs, h2, hsrc, g.2.1 rfl, St.emit, outC, (notflush s.writeStateAfter).1, (notflush s.writeStateAfter).2]
        · intro h; simp [St.emit] at h; exact absurd h (notflush _).2
        · intro _; exact ⟨by simp [remC, hs, h2, hsrc, g.2.1 rfl], by simp [St.emit]⟩
      · have hb : (ch == 0) = false := by simpa using hz
        simp only [hb, Bool.false_eq_true, if_false]
        cases hw : i.wr
        · simp only [Bool.not_false, if_true]
          refine ⟨?_, by simp [St.emit], ?_, ?_⟩
          · simp [remC, hs, h2, hsrc, St.emit, outC]
          · intro _
            exact ⟨by simpa [payloadC, region, St.emit] using hv.term, by intro h; simp [St.emit, hsrc] at h,
              Or.inr (Or.inr (by simp [St.emit, h2]))⟩
          · intro h; simp [St.emit, hs] at h
        · simp only [Bool.not_true, Bool.false_eq_true, if_false]
          refine ⟨?_, by simp [St.emit], ?_, ?_⟩
          · simp [remC, hs, h2, hsrc, St.emit, outC, (g.2.2 hz)]
          · intro _
            exact ⟨by simpa [payloadC, region, St.emit] using hv.term, by intro h; simp [St.emit, hsrc] at h,
              Or.inr (Or.inr (by simp [St.emit, h2]))⟩
          · intro h; simp [St.emit, hs] at h
    | main =>
      have g := payload_get D s s.position (hv.cursor hsrc) hv.term
      simp only [processIoWrite, writeByte, hsrc]
      generalize hch : getB D s .cmd s.position = ch at g
      by_cases hz : ch = 0
      · subst hz
        simp only [beq_self_eq_true, if_true, chk_ctl, h2]
        refine ⟨?_, by simp [St.emit], ?_, ?_⟩
        · simp [remC, hs, h2, hsrc, g.1 rfl, St.emit, outC, (notflush s.writeStateAfter).1, (notflush s.writeStateAfter).2]
        · intro h; simp [St.emit] at h; exact absurd h (notflush _).2
        · intro _; exact ⟨by simp [remC, hs, h2, hsrc, g.1 rfl], by simp [St.emit]⟩
      · have hb : (ch == 0) = false := by simpa using hz
        simp only [hb, Bool.false_eq_true, if_false]
        cases hw : i.wr
        · simp only [Bool.not_false, if_true]
          refine ⟨?_, by simp [St.emit], ?_, ?_⟩
          · simp [remC, hs, h2, hsrc, St.emit, outC, payloadC, region]
          · intro _
            exact ⟨by simpa [payloadC, region, St.emit] using hv.term,
              by intro _; simpa [payloadC, region, St.emit] using hv.cursor hsrc,
              Or.inr (Or.inr (by simp [St.emit, h2]))⟩
          · intro h; simp [St.emit, hs] at h
        · simp only [Bool.not_true, Bool.false_eq_true, if_false]
          have g2 := g.2 hz
          refine ⟨?_, by simp [St.emit], ?_, ?_⟩
          · simp [payloadC, region] at g2
            simp [remC, hs, h2, hsrc, St.emit, outC, payloadC, region]
            rw [g2.1]
          · intro _
            exact ⟨by simpa [payloadC, region, St.emit] using hv.term,
              by intro _; simpa [payloadC, region, St.emit] using g2.2,
              Or.inr (Or.inr (by simp [St.emit, h2]))⟩
          · intro h; simp [St.emit, hs] at h

/-- the fields a unit in progress depends on -/
def UnitSame (D : Desc) (s s' : St) : Prop :=
  s'.state = s.state ∧ s'.writeState = s.writeState ∧ s'.writeSrc = s.writeSrc ∧ s'.position = s.position ∧
  s'.crFlag = s.crFlag ∧ s'.buf.take D.cmdCap = s.buf.take D.cmdCap

theorem UnitSame.rem {D : Desc} {s s' : St} (h : UnitSame D s s') : remC D s' = remC D s := by
  obtain ⟨a, b, c, d, e, f⟩ := h
  have p := (payloadC_congr D s s' f).1
  simp only [remC, a, b, c, d, p, nlStr, e]

theorem UnitSame.inv {D : Desc} {s s' : St} (h : UnitSame D s s') (hv : FlushInv D s) : FlushInv D s' := by
  obtain ⟨a, b, c, d, e, f⟩ := h
  have p := payloadC_congr D s s' f
  exact ⟨by rw [p.1, p.2]; exact hv.term, by rw [c, d, p.1]; exact hv.cursor, by rw [b, c]; exact hv.phase⟩

/-- waiting for the other machine to finish its unit changes nothing -/
theorem processIoWriteWait_unit (D : Desc) (s : St) (hs : s.state = .flushWait) :
    remC D (processIoWriteWait s).1 = remC D s ∧ (processIoWriteWait s).1.log = s.log ∧
    (FlushInv D s → FlushInv D (processIoWriteWait s).1) ∧
    ((processIoWriteWait s).1.state = .flushWait ∨ (processIoWriteWait s).1.state = .flushWrite) := by
  unfold processIoWriteWait
  split
  · refine ⟨?_, rfl, ?_, Or.inr rfl⟩
    · simp [remC, hs, payloadC, region, nlStr]
    · intro hv; exact ⟨by simpa [payloadC, region] using hv.term, by simpa [payloadC, region] using hv.cursor, hv.phase⟩
  · exact ⟨rfl, rfl, id, Or.inl hs⟩

/-- a unit with line breaks starts: it consists of the line break in force, the text in the
command region, and the line break again -/
theorem startFlush_unit (D : Desc) (s : St) (a : After) :
    remC D (startFlush s .cmd a) = nlStr s ++ payloadC D s ++ nlStr s ∧
    ((payloadC D s).length < (region D s .cmd 0).length → FlushInv D (startFlush s .cmd a)) := by
  constructor
  · simp [remC, startFlush, St.emit, payloadC, region, nlStr_eq, nlOff, nlBytes]
  · intro h
    exact ⟨by simpa [startFlush, St.emit, payloadC, region] using h, by simp [startFlush, St.emit],
      Or.inl ⟨by simp [startFlush, St.emit], nlOff s, by simp [startFlush, St.emit]⟩⟩

/-- a command-list line is sent as it stands in the buffer -/
theorem startFlushRaw_unit (D : Desc) (s : St) (a : After) :
    remC D (startFlushRaw s a) = payloadC D s ∧
    ((payloadC D s).length < (region D s .cmd 0).length → FlushInv D (startFlushRaw s a)) := by
  constructor
  · simp [remC, startFlushRaw, St.emit, payloadC, region]
  · intro h
    exact ⟨by simpa [startFlushRaw, St.emit, payloadC, region] using h, by simp [startFlushRaw, St.emit],
      Or.inr (Or.inr (by simp [startFlushRaw, St.emit]))⟩

/-- the unsolicited machine (whose handlers do not answer HOLD) does not disturb a unit of the
command machine: it cannot store into the command region (C03) nor touch the cursor -/
theorem unsolicitedEventsService_unitSame (D : Desc) (s : St) (i : SvcIn) (hu : i.hu.ret ≠ 4) :
    UnitSame D s (unsolicitedEventsService D s i).1 ∧ outC (unsolicitedEventsService D s i).1.log = outC s.log := by
  have k := unsolicitedEventsService_keepsC D s i hu
  have r := unsolicitedEventsService_keepsCR D s i
  simp only [KeepsCH, SameC'] at k
  refine ⟨⟨k.1.2.2.2.2.2.2.2.1, k.1.2.2.2.2.2.2.2.2.2.2.1, k.1.2.2.2.2.2.2.2.2.2.1, k.2.1, k.1.2.2.2.2.2.2.2.2.1, r.1⟩, ?_⟩
  have q := unsolicitedEventsService_quiet .wrC (by decide) D s i (.of_ne (by decide) (by decide)) (.of_ne (by decide) (by decide))
  have e : ∀ l : List Ev, outC l = outC (tr .wrC l) := by
    intro l
    induction l with
    | nil => rfl
    | cons x t ih =>
      have : x :: t = [x] ++ t := rfl
      rw [this, outC_append, tr_append, outC_append, ih]
      congr 1
      cases x <;> simp [outC, tr, cls] <;> (rename_i f _ _ _; cases f <;> simp [cls])
  rw [e, q, ← e]

/-- **One `cat_service` body while the command machine is sending a unit**: accepted bytes plus
remainder are unchanged, whatever the unsolicited machine does in the same call. -/
theorem serviceBody_unit (D : Desc) (s : St) (i : SvcIn) (hu : i.hu.ret ≠ 4)
    (hs : s.state = .flushWrite ∨ s.state = .flushWait) (hv : FlushInv D s) :
    outC (serviceBody D s i).1.log ++ remC D (serviceBody D s i).1 = outC s.log ++ remC D s := by
  obtain ⟨us, uo⟩ := unsolicitedEventsService_unitSame D s i hu
  unfold serviceBody
  simp only
  generalize unsolicitedEventsService D s i = r at us uo
  obtain ⟨u, ur⟩ := r
  simp only at us uo ⊢
  rw [← uo, ← us.rem]
  have hv' := us.inv hv
  unfold commandService
  rcases hs with hs | hs
  · have hs' : u.state = .flushWrite := by rw [us.1, hs]
    simp only [hs']
    exact (processIoWrite_unit D u i hs' hv').1
  · have hs' : u.state = .flushWait := by rw [us.1, hs]
    simp only [hs']
    have w := processIoWriteWait_unit D u hs'
    rw [w.1, w.2.1]

/-! ### the text of a result code -/

theorem writeB_whole (D : Desc) (s : St) (bs : List Byte) (hl : bs.length = D.cmdCap) (hb : D.cmdCap ≤ s.buf.length) :
    (writeB D s .cmd 0 bs).buf.take D.cmdCap = bs := by
  have hlen : (writeB D s .cmd 0 bs).buf.length = s.buf.length := (writeB_cmd_UR D bs s 0).2.2
  apply List.ext_getElem?
  intro j
  by_cases hj : j < D.cmdCap
  · have g := writeB_cmd_getD D bs 0 s (by omega) hb j
    rw [if_pos (by omega)] at g
    simp only [List.getD, Nat.sub_zero] at g
    rw [List.getElem?_take, if_pos hj]
    have h1 : j < (writeB D s .cmd 0 bs).buf.length := by omega
    have h2 : j < bs.length := by omega
    rw [List.getElem?_eq_getElem h1] at g ⊢
    rw [List.getElem?_eq_getElem h2] at g ⊢
    simpa using g
  · rw [List.getElem?_take, if_neg hj, List.getElem?_eq_none (by omega)]

theorem takeWhile_text (str : List Byte) (k : Nat) (hz : ∀ b ∈ str, b ≠ 0) (hk : 0 < k) :
    (str ++ List.replicate k 0).takeWhile (· ≠ 0) = str := by
  induction str with
  | nil => cases k with
    | zero => omega
    | succ m => simp [List.replicate_succ]
  | cons a t ih =>
    have ha : a ≠ 0 := hz a (by simp)
    have := ih (fun b hb => hz b (by simp [hb]))
    simp only [List.cons_append, List.takeWhile_cons, ne_eq, ha, not_false_eq_true, decide_true, if_true, this]

/-- after `strncpy` of a NUL-free text shorter than the command region, the text in the region is
that text, terminated inside the region -/
theorem strncpyC_payload (D : Desc) (s : St) (str : List Byte) (hz : ∀ b ∈ str, b ≠ 0)
    (hl : str.length < D.cmdCap) (hb : D.cmdCap ≤ s.buf.length) :
    payloadC D (strncpyC D s str) = str ∧
    (payloadC D (strncpyC D s str)).length < (region D (strncpyC D s str) .cmd 0).length := by
  have e : (strncpyC D s str).buf.take D.cmdCap = str ++ List.replicate (D.cmdCap - str.length) 0 := by
    unfold strncpyC
    have : str.take D.cmdCap = str := List.take_of_length_le (by omega)
    simp only [this]
    exact writeB_whole D s _ (by simp; omega) hb
  have p : payloadC D (strncpyC D s str) = str := by
    simp only [payloadC, region, List.drop_zero, e]
    exact takeWhile_text str _ hz (by omega)
  refine ⟨p, ?_⟩
  rw [p]
  simp only [region, List.drop_zero, e, List.length_append, List.length_replicate]
  omega

/-- **The unit of a result code** is line break, `OK` / `ERROR`, line break — nothing else is ever
sent for it (given room for the text: command capacity ≥ 6) -/
theorem ack_unit (D : Desc) (s : St) (h6 : 6 ≤ D.cmdCap) (hb : D.cmdCap ≤ s.buf.length) :
    remC D (ackOk D s) = nlStr s ++ [79, 75] ++ nlStr s ∧ FlushInv D (ackOk D s) ∧
    remC D (ackError D s) = nlStr s ++ [69, 82, 82, 79, 82] ++ nlStr s ∧ FlushInv D (ackError D s) := by
  have ok := strncpyC_payload D s [79, 75] (by decide) (by simp; omega) hb
  have er := strncpyC_payload D s [69, 82, 82, 79, 82] (by decide) (by simp; omega) hb
  have em : ∀ (t : St) (e : Ev), payloadC D (t.emit e) = payloadC D t ∧ (region D (t.emit e) .cmd 0) = region D t .cmd 0 ∧ nlStr (t.emit e) = nlStr t := by
    intro t e; exact ⟨by simp [payloadC, region, St.emit], by simp [region, St.emit], rfl⟩
  have nl : ∀ str, nlStr (strncpyC D s str) = nlStr s := by
    intro str; have := strncpyC_ctl D s str; simp_all [nlStr]
  refine ⟨?_, ?_, ?_, ?_⟩
  · unfold ackOk
    rw [(startFlush_unit D _ .reset).1, (em _ _).1, (em _ _).2.2, ok.1, nl]
  · unfold ackOk
    exact (startFlush_unit D _ .reset).2 (by rw [(em _ _).1, (em _ _).2.1]; exact ok.2)
  · unfold ackError
    rw [(startFlush_unit D _ .reset).1, (em _ _).1, (em _ _).2.2, er.1, nl]
  · unfold ackError
    exact (startFlush_unit D _ .reset).2 (by rw [(em _ _).1, (em _ _).2.1]; exact er.2)

end Cat
