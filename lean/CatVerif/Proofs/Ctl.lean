/-
  Control-flow facts about the mid-level functions of the model.
-/
import CatVerif.Proofs.Frame
namespace Cat
open St

@[simp] theorem pushUnsolicited_frame (D : Desc) (s : St) (c : Nat) (t : CmdType) :
    SameC' s (pushUnsolicited D s c t).1 ∧ SameU' s (pushUnsolicited D s c t).1 ∧ SameH s (pushUnsolicited D s c t).1
    ∧ SamePos s (pushUnsolicited D s c t).1 ∧ SameMem s (pushUnsolicited D s c t).1 ∧ SameBuf s (pushUnsolicited D s c t).1
    ∧ SameLog s (pushUnsolicited D s c t).1 := by
  unfold pushUnsolicited
  split <;> simp

@[simp] theorem holdExit_frame (s : St) (st : Int) :
    SameC' s (holdExit s st).1 ∧ SameU' s (holdExit s st).1 ∧ SameR s (holdExit s st).1 ∧ (holdExit s st).1.holdFlag = s.holdFlag
    ∧ SamePos s (holdExit s st).1 ∧ SameMem s (holdExit s st).1 ∧ SameBuf s (holdExit s st).1 ∧ SameLog s (holdExit s st).1 := by
  unfold holdExit
  split <;> simp

/-- nested API calls and handler edits never change the state of either machine, the hold flag,
or which command is being processed -/
@[simp] theorem applyNested_frame (D : Desc) (f : Fsm) (canEdit : Bool) (acts : List Nested) : ∀ s : St,
    SameC' s (applyNested D f canEdit s acts) ∧ SameU' s (applyNested D f canEdit s acts)
    ∧ (applyNested D f canEdit s acts).holdFlag = s.holdFlag := by
  induction acts with
  | nil => intro s; simp [applyNested]
  | cons a r ih =>
    intro s
    cases a with
    | trigger c t =>
      simp only [applyNested, withMutex]
      split
      · have := ih (((pushUnsolicited D (s.emit (.lock 0)) c (cmdTypeOfInt t)).1.emit (.unlock 0)).emit
            (.nestedTrig c t (pushUnsolicited D (s.emit (.lock 0)) c (cmdTypeOfInt t)).2))
        simp_all
      · have := ih ((pushUnsolicited D s c (cmdTypeOfInt t)).1.emit (.nestedTrig c t (pushUnsolicited D s c (cmdTypeOfInt t)).2))
        simp_all
    | holdExit st =>
      simp only [applyNested, withMutex]
      split
      · have := ih (((holdExit (s.emit (.lock 0)) st).1.emit (.unlock 0)).emit (.nestedExit st (holdExit (s.emit (.lock 0)) st).2))
        simp_all
      · have := ih ((holdExit s st).1.emit (.nestedExit st (holdExit s st).2))
        simp_all
    | poke slot off bs =>
      simp only [applyNested]
      split
      · have := ih { s with mem := s.mem.set slot ((s.slotGet slot).take off ++ bs ++ (s.slotGet slot).drop (off + bs.length)) }
        simp_all
      · exact ih s
    | edit bs =>
      simp only [applyNested]
      split
      · have := ih ((writeB D s f 0 (bs ++ [0])).setPos f bs.length)
        simp_all
      · exact ih s

end Cat
