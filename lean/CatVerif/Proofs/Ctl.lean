/-
  Control-flow facts about the mid-level functions of the model.
-/
import CatVerif.Proofs.Frame
namespace Cat
open St

@[simp] theorem pushUnsolicited_frame (D : Desc) (s : St) (c : Nat) (t : CmdType) :
    SameC' s (pushUnsolicited D s c t).1 ∧ SameU' s (pushUnsolicited D s c t).1 ∧ SameH s (pushUnsolicited D s c t).1
    ∧ SamePos s (pushUnsolicited D s c t).1 ∧ SameMem s (pushUnsolicited D s c t).1 ∧ SameBuf s (pushUnsolicited D s c t).1
    ∧ SameLog s (pushUnsolicited D s c t).1 := by
  unfold pushUnsolicited
  split <;> simp

@[simp] theorem holdExit_frame (s : St) (st : Int) :
    SameC' s (holdExit s st).1 ∧ SameU' s (holdExit s st).1 ∧ SameR s (holdExit s st).1 ∧ (holdExit s st).1.holdFlag = s.holdFlag
    ∧ SamePos s (holdExit s st).1 ∧ SameMem s (holdExit s st).1 ∧ SameBuf s (holdExit s st).1 ∧ SameLog s (holdExit s st).1 := by
  unfold holdExit
  split <;> simp

/-- nested API calls and handler edits never change the state of either machine, the hold flag,
or which command is being processed -/
@[simp] theorem applyNested_frame (D : Desc) (f : Fsm) (canEdit : Bool) (acts : List Nested) : ∀ s : St,
    SameC' s (applyNested D f canEdit s acts) ∧ SameU' s (applyNested D f canEdit s acts)
    ∧ (applyNested D f canEdit s acts).holdFlag = s.holdFlag := by
  induction acts with
  | nil => intro s; simp [applyNested]
  | cons a r ih =>
    intro s
    cases a with
    | trigger c t =>
      simp only [applyNested, withMutex]
      split
      · have := ih (((pushUnsolicited D (s.emit (.lock 0)) c (cmdTypeOfInt t)).1.emit (.unlock 0)).emit
            (.nestedTrig c t (pushUnsolicited D (s.emit (.lock 0)) c (cmdTypeOfInt t)).2))
        simp_all
      · have := ih ((pushUnsolicited D s c (cmdTypeOfInt t)).1.emit (.nestedTrig c t (pushUnsolicited D s c (cmdTypeOfInt t)).2))
        simp_all
    | holdExit st =>
      simp only [applyNested, withMutex]
      split
      · have := ih (((holdExit (s.emit (.lock 0)) st).1.emit (.unlock 0)).emit (.nestedExit st (holdExit (s.emit (.lock 0)) st).2))
        simp_all
      · have := ih ((holdExit s st).1.emit (.nestedExit st (holdExit s st).2))
        simp_all
    | poke slot off bs =>
      simp only [applyNested]
      split
      · have := ih { s with mem := s.mem.set slot ((s.slotGet slot).take off ++ bs ++ (s.slotGet slot).drop (off + bs.length)) }
        simp_all
      · exact ih s
    | edit bs =>
      simp only [applyNested]
      split
      · have := ih ((writeB D s f 0 (bs ++ [0])).setPos f bs.length)
        simp_all
      · exact ih s
    | report n =>
      simp only [applyNested]
      split
      · have := ih (s.setPos f n)
        simp_all
      · exact ih s


/-! ### helpers that leave all control fields alone (or move only a position) -/

@[simp] theorem getCmdState_frame (D : Desc) (s : St) (i : Nat) :
    SameCtl s (getCmdState D s i).1 ∧ SameMem s (getCmdState D s i).1 ∧ SameBuf s (getCmdState D s i).1
    ∧ SameLog s (getCmdState D s i).1 := by
  unfold getCmdState; split <;> simp

@[simp] theorem setCmdState_frame (D : Desc) (s : St) (i v : Nat) :
    SameCtl s (setCmdState D s i v) ∧ SameMem s (setCmdState D s i v) ∧ SameLog s (setCmdState D s i v) := by
  unfold setCmdState; simp

/-- all control fields except `writeSize` -/
@[simp] abbrev SameCtlWS (s s' : St) : Prop :=
  s'.index = s.index ∧ s'.partialCntr = s.partialCntr ∧ s'.length = s.length ∧
  s'.cmd = s.cmd ∧ s'.cmdType = s.cmdType ∧
  s'.currentChar = s.currentChar ∧ s'.state = s.state ∧ s'.crFlag = s.crFlag ∧
  s'.writeSrc = s.writeSrc ∧ s'.writeState = s.writeState ∧
  s'.writeStateAfter = s.writeStateAfter ∧ s'.implicitWriteFlag = s.implicitWriteFlag ∧
  SameU' s s' ∧ SameH s s' ∧ SameR s s' ∧ SamePos s s'

@[simp] theorem storeInt_frame (s : St) (v : VarD) (val : Nat) :
    SameCtlWS s (storeInt s v val) ∧ SameBuf s (storeInt s v val) := by
  unfold storeInt; simp

@[simp] theorem validateIntRange_frame (s : St) (v : VarD) (neg : Bool) (mag : Nat) :
    SameCtlWS s (validateIntRange s v neg mag).1 ∧ SameBuf s (validateIntRange s v neg mag).1 := by
  unfold validateIntRange
  simp only
  (repeat' split) <;> simp

@[simp] theorem validateUIntRange_frame (s : St) (v : VarD) (val : Nat) :
    SameCtlWS s (validateUIntRange s v val).1 ∧ SameBuf s (validateUIntRange s v val).1 := by
  unfold validateUIntRange
  simp only
  (repeat' split) <;> simp

@[simp] theorem loadUInt_frame (s : St) (v : VarD) :
    SameCtl s (loadUInt s v).1 ∧ SameMem s (loadUInt s v).1 ∧ SameBuf s (loadUInt s v).1 ∧ SameLog s (loadUInt s v).1 := by
  unfold loadUInt; simp

@[simp] theorem formatIntDecimal_frame (D : Desc) (s : St) (f : Fsm) (v : VarD) :
    SameCtlNP s (formatIntDecimal D s f v).1 ∧ SameMem s (formatIntDecimal D s f v).1 ∧ SameLog s (formatIntDecimal D s f v).1 := by
  unfold formatIntDecimal; split <;> simp
@[simp] theorem formatIntDecimal_pos_other (D : Desc) (s : St) (v : VarD) :
    (formatIntDecimal D s .cmd v).1.uposition = s.uposition ∧ (formatIntDecimal D s .uns v).1.position = s.position := by
  unfold formatIntDecimal; constructor <;> split <;> simp

@[simp] theorem formatUIntDecimal_frame (D : Desc) (s : St) (f : Fsm) (v : VarD) :
    SameCtlNP s (formatUIntDecimal D s f v).1 ∧ SameMem s (formatUIntDecimal D s f v).1 ∧ SameLog s (formatUIntDecimal D s f v).1 := by
  unfold formatUIntDecimal; split <;> simp
@[simp] theorem formatUIntDecimal_pos_other (D : Desc) (s : St) (v : VarD) :
    (formatUIntDecimal D s .cmd v).1.uposition = s.uposition ∧ (formatUIntDecimal D s .uns v).1.position = s.position := by
  unfold formatUIntDecimal; constructor <;> split <;> simp

@[simp] theorem formatNumHexadecimal_frame (D : Desc) (s : St) (f : Fsm) (v : VarD) :
    SameCtlNP s (formatNumHexadecimal D s f v).1 ∧ SameMem s (formatNumHexadecimal D s f v).1 ∧ SameLog s (formatNumHexadecimal D s f v).1 := by
  unfold formatNumHexadecimal; split <;> simp
@[simp] theorem formatNumHexadecimal_pos_other (D : Desc) (s : St) (v : VarD) :
    (formatNumHexadecimal D s .cmd v).1.uposition = s.uposition ∧ (formatNumHexadecimal D s .uns v).1.position = s.position := by
  unfold formatNumHexadecimal; constructor <;> split <;> simp

@[simp] theorem formatBufferHexadecimal_frame (D : Desc) (s : St) (f : Fsm) (v : VarD) :
    SameCtlNP s (formatBufferHexadecimal D s f v).1 ∧ SameMem s (formatBufferHexadecimal D s f v).1 ∧ SameLog s (formatBufferHexadecimal D s f v).1 := by
  unfold formatBufferHexadecimal; simp
@[simp] theorem formatBufferHexadecimal_pos_other (D : Desc) (s : St) (v : VarD) :
    (formatBufferHexadecimal D s .cmd v).1.uposition = s.uposition ∧ (formatBufferHexadecimal D s .uns v).1.position = s.position := by
  unfold formatBufferHexadecimal; simp

@[simp] theorem formatBufferString_frame (D : Desc) (s : St) (f : Fsm) (v : VarD) :
    SameCtlNP s (formatBufferString D s f v).1 ∧ SameMem s (formatBufferString D s f v).1 ∧ SameLog s (formatBufferString D s f v).1 := by
  unfold formatBufferString; simp
@[simp] theorem formatBufferString_pos_other (D : Desc) (s : St) (v : VarD) :
    (formatBufferString D s .cmd v).1.uposition = s.uposition ∧ (formatBufferString D s .uns v).1.position = s.position := by
  unfold formatBufferString; simp

@[simp] theorem formatInfoType_frame (D : Desc) (s : St) (f : Fsm) (v : VarD) :
    SameCtlNP s (formatInfoType D s f v).1 ∧ SameMem s (formatInfoType D s f v).1 ∧ SameLog s (formatInfoType D s f v).1 := by
  unfold formatInfoType; split <;> simp
@[simp] theorem formatInfoType_pos_other (D : Desc) (s : St) (v : VarD) :
    (formatInfoType D s .cmd v).1.uposition = s.uposition ∧ (formatInfoType D s .uns v).1.position = s.position := by
  unfold formatInfoType; constructor <;> split <;> simp

end Cat
