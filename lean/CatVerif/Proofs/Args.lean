/-
  Argument collection (C06): what `parse_command_args` accumulates in the command buffer.
-/
import CatVerif.Proofs.Mem
import CatVerif.Proofs.Ctl
namespace Cat
open St

/-- a buffer holding exactly `args` in its first `n` bytes, NUL-terminated, inside a region of
`cap` bytes -/
structure ArgsOk (cap : Nat) (buf : List Byte) (n : Nat) (args : List Byte) : Prop where
  len : n = args.length
  txt : buf.take n = args
  nul : buf.getD n 0 = 0
  fit : n < cap
  cap : cap ≤ buf.length

/-- the command buffer holds exactly `args` -/
def ArgsInv (D : Desc) (s : St) (args : List Byte) : Prop := ArgsOk D.cmdCap s.buf s.length args

/-- what the write handler is given in such a state (`process_write_loop`) -/
theorem ArgsInv.handler_view {D : Desc} {s : St} {args : List Byte} (h : ArgsInv D s args) :
    (region D s .cmd 0).take s.length = args ∧
    (getB D s .cmd s.length == 0 && decide (s.length < D.cmdCap)) = true := by
  have := h.fit
  refine ⟨?_, ?_⟩
  · simp only [region, List.drop_zero, List.take_take]
    rw [Nat.min_eq_left (by omega)]; exact h.txt
  · have := h.nul
    simp only [getB, this, h.fit]; simp

/-- storing one more byte and its terminator -/
theorem ArgsOk.push {cap : Nat} {buf : List Byte} {n : Nat} {args : List Byte} (h : ArgsOk cap buf n args) (b : Byte)
    (hroom : n + 1 < cap) : ArgsOk cap ((buf.set n b).set (n + 1) 0) (n + 1) (args ++ [b]) := by
  have hc := h.cap
  refine ⟨by simp [h.len], ?_, ?_, hroom, by simpa using hc⟩
  · rw [List.take_set_of_le (by omega), take_set_succ _ _ _ (by omega), h.txt]
  · simp [List.getD, show n + 1 < buf.length by omega]

/-- the empty argument text -/
theorem ArgsOk.empty {cap : Nat} {buf : List Byte} (h0 : 0 < cap) (hc : cap ≤ buf.length) :
    ArgsOk cap (buf.set 0 0) 0 [] :=
  ⟨rfl, by simp, by simp [List.getD, show 0 < buf.length by omega], h0, by simpa using hc⟩

/-! ### parsing the variables leaves the text alone -/

theorem applyNested_noedit_buf (D : Desc) (f : Fsm) (acts : List Nested) : ∀ s : St,
    (applyNested D f false s acts).buf = s.buf ∧ (applyNested D f false s acts).ubuf = s.ubuf ∧
    (applyNested D f false s acts).length = s.length ∧ (applyNested D f false s acts).cmd = s.cmd ∧
    (applyNested D f false s acts).index = s.index := by
  induction acts with
  | nil => intro s; simp [applyNested]
  | cons a r ih =>
    intro s
    cases a <;> simp only [applyNested, withMutex] <;> (repeat' split) <;> simp_all

theorem parseVarValue_buf (D : Desc) (s : St) (v : VarD) :
    (parseVarValue D s v).1.buf = s.buf ∧ (parseVarValue D s v).1.length = s.length ∧
    (parseVarValue D s v).1.cmd = s.cmd ∧ (parseVarValue D s v).1.index = s.index := by
  unfold parseVarValue
  simp only
  (repeat' split) <;> simp_all

theorem varWriteCb_buf (D : Desc) (s : St) (v : VarD) (i : SvcIn) :
    (varWriteCb D s v i).1.buf = s.buf ∧ (varWriteCb D s v i).1.length = s.length ∧
    (varWriteCb D s v i).1.cmd = s.cmd ∧ (varWriteCb D s v i).1.index = s.index := by
  unfold varWriteCb
  split
  · have := applyNested_noedit_buf D .cmd i.vc.acts (s.emit (.varcb .cmd (s.cmd.getD 0) s.index true s.writeSize i.vc.ret))
    exact ⟨by rw [this.1]; rfl, by rw [this.2.2.1]; rfl, by rw [this.2.2.2.1]; rfl, by rw [this.2.2.2.2]; rfl⟩
  · simp

end Cat
