/-
  Output units of the unsolicited machine (C11).  The closing line break of an unsolicited unit is
  chosen when the text has been sent, from the `cr_flag` in force at that moment — which the
  command machine may have changed meanwhile — so the accounting keeps the closing line break out
  of the remainder until it is chosen.
-/
import CatVerif.Proofs.UnitsHist
namespace Cat
open St

/-- the text in the unsolicited region: up to the first NUL -/
def payloadU (D : Desc) (s : St) : List Byte := (region D s .uns 0).takeWhile (· ≠ 0)

/-- bytes the unsolicited machine still has to get accepted for the unit in progress, not counting
a closing line break that has not been chosen yet -/
def remU (D : Desc) (s : St) : List Byte :=
  if s.ustate = .flushWait ∨ s.ustate = .flushWrite then
    match s.uwriteState, s.uwriteSrc with
    | 0, .nl off => (nlBytes off).drop s.uposition ++ payloadU D s
    | 1, .main => (payloadU D s).drop s.uposition
    | 2, .nl off => (nlBytes off).drop s.uposition
    | 2, .main => (payloadU D s).drop s.uposition
    | _, _ => []
  else []

/-- bytes of the unsolicited machine accepted by `write` in a log -/
def outU (l : List Ev) : List Byte :=
  l.filterMap (fun e => match e with
    | .wr .uns b true _ => some b
    | _ => none)

@[simp] theorem outU_append (a b : List Ev) : outU (a ++ b) = outU a ++ outU b := by simp [outU]

structure FlushInvU (D : Desc) (s : St) : Prop where
  term : (payloadU D s).length < (region D s .uns 0).length
  cursor : s.uwriteSrc = .main → s.uposition ≤ (payloadU D s).length
  phase : (s.uwriteState = 0 ∧ ∃ off, s.uwriteSrc = .nl off) ∨ (s.uwriteState = 1 ∧ s.uwriteSrc = .main) ∨ s.uwriteState = 2

/-- the unsolicited region really is as long as declared -/
def BufOkU (D : Desc) (s : St) : Prop :=
  if D.unsBuf.isSome then D.unsCap ≤ s.ubuf.length else D.unsBase + D.unsCap ≤ s.buf.length

theorem region_uns_length {D : Desc} {s : St} (hb : BufOkU D s) : (region D s .uns 0).length = D.unsCap := by
  unfold BufOkU at hb
  unfold region
  split at hb <;> rename_i h
  · simp [h]; omega
  · simp [h]; omega

theorem getB_uns_region {D : Desc} {s : St} (hb : BufOkU D s) (p : Nat) (hp : p < D.unsCap) :
    getB D s .uns p = (region D s .uns 0).getD p 0 := by
  unfold BufOkU at hb
  unfold region getB
  split at hb <;> rename_i h
  · simp [h, List.getD, List.getElem?_take, hp]
  · simp [h, List.getD, List.getElem?_take, hp]

/-- the byte under the cursor of the payload -/
theorem payloadU_get {D : Desc} {s : St} (hb : BufOkU D s) (p : Nat) (hp : p ≤ (payloadU D s).length)
    (ht : (payloadU D s).length < (region D s .uns 0).length) :
    (getB D s .uns p = 0 → (payloadU D s).drop p = []) ∧
    (getB D s .uns p ≠ 0 → (payloadU D s).drop p = getB D s .uns p :: (payloadU D s).drop (p + 1) ∧
        p + 1 ≤ (payloadU D s).length) := by
  have hl := region_uns_length hb
  rw [getB_uns_region hb p (by omega)]
  exact takeWhile_get _ p hp ht

theorem notflushU (a : After) : a.toU ≠ .flushWait ∧ a.toU ≠ .flushWrite := by cases a <;> simp [After.toU]

/-- **One write step of the unsolicited machine**: an accepted byte moves from the head of the
remainder to the output; when the text has been sent the closing line break (`extra`) is chosen
from the `cr_flag` in force and joins the remainder; nothing else happens. -/
theorem uWrite_acct (D : Desc) (s : St) (i : SvcIn) (hs : s.ustate = .flushWrite) (hb : BufOkU D s) (hv : FlushInvU D s) :
    ∃ extra : List Byte,
      ((extra = [] ∧ ((unsolicitedProcessIoWrite D s i).1.uwriteState < 2 ↔ s.uwriteState < 2)) ∨
       (extra = nlStr s ∧ s.uwriteState = 1 ∧ (unsolicitedProcessIoWrite D s i).1.uwriteState = 2)) ∧
      outU (unsolicitedProcessIoWrite D s i).1.log ++ remU D (unsolicitedProcessIoWrite D s i).1 = outU s.log ++ remU D s ++ extra ∧
      SameBuf s (unsolicitedProcessIoWrite D s i).1 ∧
      ((unsolicitedProcessIoWrite D s i).1.ustate = .flushWrite → FlushInvU D (unsolicitedProcessIoWrite D s i).1) ∧
      ((unsolicitedProcessIoWrite D s i).1.ustate ≠ .flushWrite →
        remU D (unsolicitedProcessIoWrite D s i).1 = [] ∧ (unsolicitedProcessIoWrite D s i).1.ustate ≠ .flushWait ∧ s.uwriteState = 2) := by
  have reg : ∀ t : St, SameBuf s t → payloadU D t = payloadU D s ∧ region D t .uns 0 = region D s .uns 0 := by
    intro t h; simp [payloadU, region, h.1, h.2]
  have inv : ∀ t : St, SameBuf s t → t.uwriteSrc = s.uwriteSrc → t.uwriteState = s.uwriteState → t.uposition = s.uposition → FlushInvU D t := by
    intro t h a b c
    have r := reg t h
    exact ⟨by rw [r.1, r.2]; exact hv.term, by rw [a, c, r.1]; exact hv.cursor, by rw [a, b]; exact hv.phase⟩
  have inv2 : ∀ t : St, SameBuf s t → t.uwriteSrc = s.uwriteSrc → t.uwriteState = s.uwriteState →
      (s.uwriteSrc = .main → t.uposition ≤ (payloadU D s).length) → FlushInvU D t := by
    intro t h a b c
    have r := reg t h
    exact ⟨by rw [r.1, r.2]; exact hv.term, by rw [a, r.1]; exact c, by rw [a, b]; exact hv.phase⟩
  unfold unsolicitedProcessIoWrite writeByte
  simp only
  rcases hv.phase with ⟨h0, off, hsrc⟩ | ⟨h1, hsrc⟩ | h2
  · -- opening line break
    have g := nlBytes_get off s.uposition
    simp only [hsrc]
    generalize ([13, 10, 0] : List Byte).getD (off + s.uposition) 0 = ch at g
    by_cases hz : ch = 0
    · subst hz
      simp only [beq_self_eq_true, if_true, chk_ctl, h0]
      refine ⟨[], Or.inl ⟨rfl, by simp [h0]⟩, ?_, by simp, ?_, ?_⟩
      · simp [remU, hs, h0, hsrc, g.2.1 rfl, payloadU, region]
      · intro _
        exact ⟨by simpa [payloadU, region] using hv.term, by intro _; simp, Or.inr (Or.inl ⟨rfl, rfl⟩)⟩
      · intro h; simp [hs] at h
    · have hbz : (ch == 0) = false := by simpa using hz
      simp only [hbz, Bool.false_eq_true, if_false]
      cases hw : i.wr
      · simp only [Bool.not_false, if_true]
        refine ⟨[], Or.inl ⟨rfl, by simp [St.emit]⟩, ?_, by simp [St.emit], ?_, ?_⟩
        · simp [remU, hs, h0, hsrc, St.emit, outU, payloadU, region]
        · intro _; exact inv _ (by simp [St.emit]) (by simp [St.emit]) (by simp [St.emit]) (by simp [St.emit])
        · intro h; simp [St.emit, hs] at h
      · simp only [Bool.not_true, Bool.false_eq_true, if_false]
        refine ⟨[], Or.inl ⟨rfl, by simp [St.emit]⟩, ?_, by simp [St.emit], ?_, ?_⟩
        · simp [remU, hs, h0, hsrc, St.emit, outU, payloadU, region, (g.2.2 hz)]
        · intro _
          exact inv2 _ (by simp [St.emit]) (by simp [St.emit]) (by simp [St.emit]) (by intro h; rw [hsrc] at h; exact WSrc.noConfusion h)
        · intro h; simp [St.emit, hs] at h
  · -- payload
    have g := payloadU_get hb s.uposition (hv.cursor hsrc) hv.term
    simp only [hsrc]
    generalize getB D s .uns s.uposition = ch at g
    by_cases hz : ch = 0
    · subst hz
      simp only [beq_self_eq_true, if_true, chk_ctl, h1, show ((1 : Nat) == 0) = false by decide, Bool.false_eq_true, if_false]
      refine ⟨nlStr s, Or.inr ⟨rfl, by simp, by simp⟩, ?_, by simp, ?_, ?_⟩
      · simp [remU, hs, h1, hsrc, g.1 rfl, nlStr_eq, nlOff]
      · intro _
        exact ⟨by simpa [payloadU, region] using hv.term, by intro h; simp at h, Or.inr (Or.inr rfl)⟩
      · intro h; simp [hs] at h
    · have hbz : (ch == 0) = false := by simpa using hz
      simp only [hbz, Bool.false_eq_true, if_false]
      cases hw : i.wr
      · simp only [Bool.not_false, if_true]
        refine ⟨[], Or.inl ⟨rfl, by simp [St.emit]⟩, ?_, by simp [St.emit], ?_, ?_⟩
        · simp [remU, hs, h1, hsrc, St.emit, outU, payloadU, region]
        · intro _; exact inv _ (by simp [St.emit]) (by simp [St.emit]) (by simp [St.emit]) (by simp [St.emit])
        · intro h; simp [St.emit, hs] at h
      · simp only [Bool.not_true, Bool.false_eq_true, if_false]
        have g2 := g.2 hz
        refine ⟨[], Or.inl ⟨rfl, by simp [St.emit]⟩, ?_, by simp [St.emit], ?_, ?_⟩
        · simp [payloadU, region] at g2
          simp [remU, hs, h1, hsrc, St.emit, outU, payloadU, region]
          rw [g2.1]
        · intro _
          exact inv2 _ (by simp [St.emit]) (by simp [St.emit]) (by simp [St.emit]) (by intro _; simpa [St.emit] using g2.2)
        · intro h; simp [St.emit, hs] at h
  · -- closing line break (or a raw text)
    cases hsrc : s.uwriteSrc with
    | nl off =>
      have g := nlBytes_get off s.uposition
      simp only
      generalize ([13, 10, 0] : List Byte).getD (off + s.uposition) 0 = ch at g
      by_cases hz : ch = 0
      · subst hz
        simp only [beq_self_eq_true, if_true, chk_ctl, h2, show ((2 : Nat) == 0) = false by decide, show ((2 : Nat) == 1) = false by decide,
          Bool.false_eq_true, if_false]
        refine ⟨[], Or.inl ⟨rfl, by simp [St.emit, h2]⟩, ?_, by simp [St.emit], ?_, ?_⟩
        · simp [remU, hs, h2, hsrc, g.2.1 rfl, St.emit, outU, (notflushU s.uwriteStateAfter).1, (notflushU s.uwriteStateAfter).2]
        · intro h; simp [St.emit] at h; exact absurd h (notflushU _).2
        · intro _
          exact ⟨by simp [remU, St.emit, (notflushU s.uwriteStateAfter).1, (notflushU s.uwriteStateAfter).2],
            by simpa [St.emit] using (notflushU s.uwriteStateAfter).1, trivial⟩
      · have hbz : (ch == 0) = false := by simpa using hz
        simp only [hbz, Bool.false_eq_true, if_false]
        cases hw : i.wr
        · simp only [Bool.not_false, if_true]
          refine ⟨[], Or.inl ⟨rfl, by simp [St.emit]⟩, ?_, by simp [St.emit], ?_, ?_⟩
          · simp [remU, hs, h2, hsrc, St.emit, outU]
          · intro _; exact inv _ (by simp [St.emit]) (by simp [St.emit]) (by simp [St.emit]) (by simp [St.emit])
          · intro h; simp [St.emit, hs] at h
        · simp only [Bool.not_true, Bool.false_eq_true, if_false]
          refine ⟨[], Or.inl ⟨rfl, by simp [St.emit]⟩, ?_, by simp [St.emit], ?_, ?_⟩
          · simp [remU, hs, h2, hsrc, St.emit, outU, (g.2.2 hz)]
          · intro _
            exact inv2 _ (by simp [St.emit]) (by simp [St.emit]) (by simp [St.emit]) (by intro h; rw [hsrc] at h; exact WSrc.noConfusion h)
          · intro h; simp [St.emit, hs] at h
    | main =>
      have g := payloadU_get hb s.uposition (hv.cursor hsrc) hv.term
      simp only
      generalize getB D s .uns s.uposition = ch at g
      by_cases hz : ch = 0
      · subst hz
        simp only [beq_self_eq_true, if_true, chk_ctl, h2, show ((2 : Nat) == 0) = false by decide, show ((2 : Nat) == 1) = false by decide,
          Bool.false_eq_true, if_false]
        refine ⟨[], Or.inl ⟨rfl, by simp [St.emit, h2]⟩, ?_, by simp [St.emit], ?_, ?_⟩
        · simp [remU, hs, h2, hsrc, g.1 rfl, St.emit, outU, (notflushU s.uwriteStateAfter).1, (notflushU s.uwriteStateAfter).2]
        · intro h; simp [St.emit] at h; exact absurd h (notflushU _).2
        · intro _
          exact ⟨by simp [remU, St.emit, (notflushU s.uwriteStateAfter).1, (notflushU s.uwriteStateAfter).2],
            by simpa [St.emit] using (notflushU s.uwriteStateAfter).1, trivial⟩
      · have hbz : (ch == 0) = false := by simpa using hz
        simp only [hbz, Bool.false_eq_true, if_false]
        cases hw : i.wr
        · simp only [Bool.not_false, if_true]
          refine ⟨[], Or.inl ⟨rfl, by simp [St.emit]⟩, ?_, by simp [St.emit], ?_, ?_⟩
          · simp [remU, hs, h2, hsrc, St.emit, outU, payloadU, region]
          · intro _; exact inv _ (by simp [St.emit]) (by simp [St.emit]) (by simp [St.emit]) (by simp [St.emit])
          · intro h; simp [St.emit, hs] at h
        · simp only [Bool.not_true, Bool.false_eq_true, if_false]
          have g2 := g.2 hz
          refine ⟨[], Or.inl ⟨rfl, by simp [St.emit]⟩, ?_, by simp [St.emit], ?_, ?_⟩
          · simp [payloadU, region] at g2
            simp [remU, hs, h2, hsrc, St.emit, outU, payloadU, region]
            rw [g2.1]
          · intro _
            exact inv2 _ (by simp [St.emit]) (by simp [St.emit]) (by simp [St.emit]) (by intro _; simpa [St.emit] using g2.2)
          · intro h; simp [St.emit, hs] at h

/-! ### whole histories -/

theorem hasNul_regionU {D : Desc} {s : St} (hb : BufOkU D s) (h : HasNul D s .uns 0) : 0 ∈ region D s .uns 0 := by
  obtain ⟨n, _, h2, h3⟩ := h
  have hl := region_uns_length hb
  have hn : n < D.unsCap := h2
  rw [getB_uns_region hb n hn] at h3
  rw [List.mem_iff_getElem]
  refine ⟨n, by omega, ?_⟩
  have : n < (region D s .uns 0).length := by omega
  simpa [List.getD, List.getElem?_eq_getElem this] using h3

/-- a unit of the unsolicited machine that has just been started -/
theorem entryU_unit {D : Desc} {s : St} (hb : BufOkU D s) (o : OobF D s .uns) (hw : s.ustate = .flushWait) :
    FlushInvU D s ∧
    ((s.uwriteState = 0 ∧ ∃ off, off ≤ 1 ∧ remU D s = nlBytes off ++ payloadU D s) ∨
     (s.uwriteState = 2 ∧ remU D s = payloadU D s)) := by
  have e := o.wait hw
  have hph : s.ph .uns = .flush := by simp [St.ph, hw, UState.ph]
  have hpos : s.uposition = 0 := e.pos
  rcases e.src with ⟨h0, off, hle, hsrc⟩ | ⟨h2, hsrc⟩
  · simp only [St.wst, St.wsrc] at h0 hsrc
    have hn := o.first hph h0
    refine ⟨⟨takeWhile_lt_of_mem _ (hasNul_regionU hb hn), fun h => by rw [hsrc] at h; exact WSrc.noConfusion h, Or.inl ⟨h0, off, hsrc⟩⟩,
      Or.inl ⟨h0, off, hle, by simp [remU, hw, h0, hsrc, hpos]⟩⟩
  · simp only [St.wst, St.wsrc] at h2 hsrc
    have hn := o.main hph hsrc
    simp only [St.pos] at hn
    rw [hpos] at hn
    refine ⟨⟨takeWhile_lt_of_mem _ (hasNul_regionU hb hn), fun _ => by rw [hpos]; exact Nat.zero_le _, Or.inr (Or.inr h2)⟩,
      Or.inr ⟨h2, by simp [remU, hw, h2, hsrc, hpos]⟩⟩

theorem outU_tr (l : List Ev) : outU l = outU (tr .wrU l) := by
  induction l with
  | nil => rfl
  | cons x t ih =>
    have : x :: t = [x] ++ t := rfl
    rw [this, outU_append, tr_append, outU_append, ih]
    congr 1
    cases x <;> simp [outU, tr, cls] <;> (rename_i f _ _ _; cases f <;> simp [cls])

/-- a unit is in progress and its closing line break has not been chosen -/
def OpenU (s : St) : Prop := (s.ustate = .flushWait ∨ s.ustate = .flushWrite) ∧ s.uwriteState < 2

/-- the accounting invariant: `acc` = everything accepted so far -/
structure TraceU (D : Desc) (acc : List Byte) (s : St) : Prop where
  opened : OpenU s → ∃ (us : List (List Byte)) (a : List Byte), (∀ u ∈ us, UnitShape u) ∧ IsNl a ∧
    acc ++ remU D s = us.flatten ++ a ++ payloadU D s
  closed : ¬ OpenU s → ∃ us : List (List Byte), (∀ u ∈ us, UnitShape u) ∧ acc ++ remU D s = us.flatten

def FlushOkU (D : Desc) (s : St) : Prop := (s.ustate = .flushWait ∨ s.ustate = .flushWrite) → FlushInvU D s

/-- the fields a unit of the unsolicited machine depends on -/
def UnitSameU (D : Desc) (s s' : St) : Prop :=
  s'.ustate = s.ustate ∧ s'.uwriteState = s.uwriteState ∧ s'.uwriteSrc = s.uwriteSrc ∧ s'.uposition = s.uposition ∧
  region D s' .uns 0 = region D s .uns 0

theorem UnitSameU.keep {D : Desc} {s s' : St} (h : UnitSameU D s s') :
    remU D s' = remU D s ∧ payloadU D s' = payloadU D s ∧ (OpenU s' ↔ OpenU s) ∧ (FlushOkU D s → FlushOkU D s') := by
  obtain ⟨a, b, c, d, e⟩ := h
  have p : payloadU D s' = payloadU D s := by simp [payloadU, e]
  refine ⟨by simp only [remU, a, b, c, d, p], p, by simp only [OpenU, a, b], fun fo hf => ?_⟩
  have hv := fo (by rw [← a]; exact hf)
  exact ⟨by rw [p, e]; exact hv.term, by rw [c, d, p]; exact hv.cursor, by rw [b, c]; exact hv.phase⟩

theorem UnitSameU.trace {D : Desc} {s s' : St} {acc : List Byte} (h : UnitSameU D s s') (t : TraceU D acc s) : TraceU D acc s' := by
  have k := h.keep
  exact ⟨fun o => by rw [k.1, k.2.1]; exact t.opened (k.2.2.1.1 o), fun o => by rw [k.1]; exact t.closed (fun x => o (k.2.2.1.2 x))⟩

theorem regionU_of_frames {D : Desc} {s s' : St} (h1 : s'.ubuf = s.ubuf) (h2 : s'.buf.drop D.cmdCap = s.buf.drop D.cmdCap) :
    region D s' .uns 0 = region D s .uns 0 := by
  unfold region
  cases hu : D.unsBuf.isSome
  · simp only [Bool.false_eq_true, if_false, unsBase_eq_cmdCap D hu, h2]
  · simp [h1]

/-- **One step of the unsolicited machine** keeps the accounting. -/
theorem unsStep_trace {D : Desc} (s : St) (i : SvcIn) (acc : List Byte) (hb : BufOkU D s) (fo : FlushOkU D s)
    (o' : OobF D (unsolicitedEventsService D s i).1 .uns)
    (t : TraceU D (acc ++ outU s.log) s) :
    TraceU D (acc ++ outU (unsolicitedEventsService D s i).1.log) (unsolicitedEventsService D s i).1 ∧
    FlushOkU D (unsolicitedEventsService D s i).1 := by
  have kr := unsolicitedEventsService_keepsCR D s i
  have hb' : BufOkU D (unsolicitedEventsService D s i).1 := by
    unfold BufOkU at *; rw [kr.2.2, kr.2.1]; exact hb
  by_cases hfw : s.ustate = .flushWrite
  · -- a write step
    have e : unsolicitedEventsService D s i = unsolicitedProcessIoWrite D s i := by simp [unsolicitedEventsService, hfw]
    rw [e] at o' ⊢
    obtain ⟨extra, hx, hacc, hbuf, hinv, hleave⟩ := uWrite_acct D s i hfw hb (fo (Or.inr hfw))
    have pl : payloadU D (unsolicitedProcessIoWrite D s i).1 = payloadU D s := by simp [payloadU, region, hbuf.1, hbuf.2]
    have hacc' : (acc ++ outU (unsolicitedProcessIoWrite D s i).1.log) ++ remU D (unsolicitedProcessIoWrite D s i).1 =
        (acc ++ outU s.log) ++ remU D s ++ extra := by simp only [List.append_assoc]; rw [hacc]; simp
    refine ⟨⟨fun op => ?_, fun nop => ?_⟩, fun hf => ?_⟩
    · -- still open afterwards: it was open before and nothing was chosen
      rcases hx with ⟨hx0, hiff⟩ | ⟨_, _, h2⟩
      · have hop : OpenU s := ⟨Or.inr hfw, hiff.1 op.2⟩
        obtain ⟨us, a, hs, ha, he⟩ := t.opened hop
        exact ⟨us, a, hs, ha, by rw [hacc', hx0, List.append_nil, he, pl]⟩
      · have := op.2; omega
    · rcases hx with ⟨hx0, hiff⟩ | ⟨hx1, h1, h2⟩
      · by_cases hop : OpenU s
        · -- open before, not open now although the phase did not change: the machine left the flush
          exfalso
          by_cases hst : (unsolicitedProcessIoWrite D s i).1.ustate = .flushWrite
          · exact nop ⟨Or.inr hst, hiff.2 hop.2⟩
          · have := (hleave hst).2.2; have := hop.2; omega
        · obtain ⟨us, hs, he⟩ := t.closed hop
          exact ⟨us, hs, by rw [hacc', hx0, List.append_nil, he]⟩
      · have hop : OpenU s := ⟨Or.inr hfw, by omega⟩
        obtain ⟨us, a, hs, ha, he⟩ := t.opened hop
        refine ⟨us ++ [a ++ payloadU D s ++ nlStr s], ?_, ?_⟩
        · intro u hu
          rcases List.mem_append.1 hu with h | h
          · exact hs u h
          · simp only [List.mem_singleton] at h
            rw [h]
            exact ⟨a, nlStr s, payloadU D s, ha, nlStr_isNl s, takeWhile_ne _, Or.inl rfl⟩
        · rw [hacc', hx1, he]; simp
    · rcases hf with hf | hf
      · exact absurd hf (by
          intro h
          by_cases hst : (unsolicitedProcessIoWrite D s i).1.ustate = .flushWrite
          · rw [hst] at h; exact absurd h (by decide)
          · exact (hleave hst).2.1 h)
      · exact hinv hf
  · by_cases hwt : s.ustate = .flushWait
    · -- waiting
      have e : unsolicitedEventsService D s i = unsolicitedProcessIoWriteWait s := by simp [unsolicitedEventsService, hwt]
      rw [e]
      have us : UnitSameU D s (unsolicitedProcessIoWriteWait s).1 ∨
          ((unsolicitedProcessIoWriteWait s).1 = { s with ustate := .flushWrite }) := by
        unfold unsolicitedProcessIoWriteWait; split
        · exact Or.inr rfl
        · exact Or.inl ⟨rfl, rfl, rfl, rfl, rfl⟩
      have hl : (unsolicitedProcessIoWriteWait s).1.log = s.log := by unfold unsolicitedProcessIoWriteWait; split <;> rfl
      rw [hl]
      rcases us with us | us
      · exact ⟨us.trace t, us.keep.2.2.2 fo⟩
      · rw [us]
        have r1 : remU D ({ s with ustate := .flushWrite } : St) = remU D s := by simp [remU, hwt, payloadU, region]
        have p1 : payloadU D ({ s with ustate := .flushWrite } : St) = payloadU D s := by simp [payloadU, region]
        have o1 : OpenU ({ s with ustate := .flushWrite } : St) ↔ OpenU s := by simp [OpenU, hwt]
        have hv := fo (Or.inl hwt)
        exact ⟨⟨fun op => by rw [r1, p1]; exact t.opened (o1.1 op), fun nop => by rw [r1]; exact t.closed (fun x => nop (o1.2 x))⟩,
          fun _ => ⟨by simpa [payloadU, region] using hv.term, by simpa [payloadU, region] using hv.cursor, hv.phase⟩⟩
    · -- no unit in progress: at most one starts
      have hnf : ¬ (s.ustate = .flushWait ∨ s.ustate = .flushWrite) := fun h => by rcases h with h | h; exact hwt h; exact hfw h
      have r0 : remU D s = [] := by simp [remU, hnf]
      have nop : ¬ OpenU s := fun h => hnf h.1
      obtain ⟨us, hs, he⟩ := t.closed nop
      rw [r0, List.append_nil] at he
      have nw := unsolicitedEventsService_no_write D s i hfw
      simp only [Quiet] at nw
      have ol : outU (unsolicitedEventsService D s i).1.log = outU s.log := by rw [outU_tr, nw, ← outU_tr]
      rw [ol]
      have nfw : (unsolicitedEventsService D s i).1.ustate ≠ .flushWrite := by
        intro h
        rcases uns_flushWrite D s i h with g | g
        · exact hfw g
        · exact hwt g.1
      by_cases hw' : (unsolicitedEventsService D s i).1.ustate = .flushWait
      · have en := entryU_unit hb' o' hw'
        refine ⟨⟨fun op => ?_, fun nop' => ?_⟩, fun _ => en.1⟩
        · rcases en.2 with ⟨_, off, hle, hr⟩ | ⟨h2, _⟩
          · exact ⟨us, nlBytes off, hs, nlBytes_isNl off hle, by rw [hr, he]; simp⟩
          · have := op.2; omega
        · rcases en.2 with ⟨h0, _, _, _⟩ | ⟨_, hr⟩
          · exact absurd ⟨Or.inl hw', by omega⟩ nop'
          · refine ⟨us ++ [payloadU D (unsolicitedEventsService D s i).1], ?_, by rw [hr, he]; simp⟩
            intro u hu
            rcases List.mem_append.1 hu with h | h
            · exact hs u h
            · simp only [List.mem_singleton] at h
              rw [h]
              exact ⟨[10], [10], _, Or.inl rfl, Or.inl rfl, takeWhile_ne _, Or.inr rfl⟩
      · have hnf' : ¬ ((unsolicitedEventsService D s i).1.ustate = .flushWait ∨ (unsolicitedEventsService D s i).1.ustate = .flushWrite) :=
          fun h => by rcases h with h | h; exact hw' h; exact nfw h
        have r1 : remU D (unsolicitedEventsService D s i).1 = [] := by simp [remU, hnf']
        exact ⟨⟨fun op => absurd op.1 hnf', fun _ => ⟨us, hs, by rw [r1, he]; simp⟩⟩, fun h => absurd h hnf'⟩

theorem BufOkU.frame {D : Desc} {s s' : St} (h : BufOkU D s) (h1 : s'.buf.length = s.buf.length) (h2 : s'.ubuf.length = s.ubuf.length) :
    BufOkU D s' := by unfold BufOkU at *; rw [h1, h2]; exact h

/-- **One `cat_service` body** keeps the accounting of the unsolicited machine's units. -/
theorem serviceBody_unitsU {D : Desc} (s : St) (i : SvcIn) (acc : List Byte) (hu : i.hu.ret ≠ 4) (hn : 0 < D.commandsNum)
    (w : Wf D s) (ub : UbAll D s) (o : OobAll D s) (hb : BufOkU D s) (fo : FlushOkU D s)
    (t : TraceU D (acc ++ outU s.log) s) :
    TraceU D (acc ++ outU (serviceBody D s i).1.log) (serviceBody D s i).1 ∧
    BufOkU D (serviceBody D s i).1 ∧ FlushOkU D (serviceBody D s i).1 := by
  have us := unsolicitedEventsService_oob s i w ub.2 o.u
  have st := unsStep_trace s i acc hb fo us.2 t
  have kr := unsolicitedEventsService_keepsCR D s i
  have hb1 : BufOkU D (unsolicitedEventsService D s i).1 := hb.frame kr.2.1 kr.2.2
  unfold serviceBody
  simp only
  generalize (unsolicitedEventsService D s i).1 = s1 at st hb1
  have ku := commandService_keepsU D s1 i
  have kur := commandService_keepsUR D s1 i
  have q := commandService_quiet .wrU (by decide) D s1 i (.of_ne (by decide) (by decide)) (.of_ne (by decide) (by decide))
  simp only [KeepsU, SameU', Quiet] at ku q
  have same : UnitSameU D s1 (commandService D s1 i).1 :=
    ⟨ku.1.1, ku.1.2.2.2.2.2.1, ku.1.2.2.2.2.1, ku.2, regionU_of_frames kur.1 kur.2.1⟩
  have ol : outU (commandService D s1 i).1.log = outU s1.log := by rw [outU_tr, q, ← outU_tr]
  rw [ol]
  exact ⟨same.trace st.1, hb1.frame kur.2.2 (by rw [kur.1]), same.keep.2.2.2 st.2⟩

structure GoodUU (w : World) : Prop where
  good : Good w
  buf : BufOkU w.D w.s
  fo : FlushOkU w.D w.s

theorem Still.unitU {D : Desc} {s s' : St} (h : Still s s') : UnitSameU D s s' :=
  ⟨h.1.u.1, h.1.u.2.2.2.2.2.1, h.1.u.2.2.2.2.1, h.1.p.2, by simp [region, h.1.b.1, h.1.b.2]⟩

theorem outU_emit_lock (a : St) (r : Int) : outU (a.emit (.lock r)).log = outU a.log ∧ outU (a.emit (.unlock r)).log = outU a.log := by
  have e1 : outU [Ev.lock r] = [] := rfl
  have e2 : outU [Ev.unlock r] = [] := rfl
  constructor
  · rw [emit_log, outU_append, e1, List.append_nil]
  · rw [emit_log, outU_append, e2, List.append_nil]

theorem DescEq.unitU {D D' : Desc} (de : DescEq D D') (s : St) (acc : List Byte) :
    (TraceU D acc s → TraceU D' acc s) ∧ (BufOkU D s → BufOkU D' s) ∧ (FlushOkU D s → FlushOkU D' s) := by
  have hu : D'.unsCap = D.unsCap := de.capOf .uns
  have hb : D'.unsBase = D.unsBase := by simp [Desc.unsBase, de.bufSize]
  have e : region D' s .uns 0 = region D s .uns 0 := by simp [region, hu, hb, de.unsBuf]
  have p : payloadU D' s = payloadU D s := by simp [payloadU, e]
  have r : remU D' s = remU D s := by simp [remU, p]
  refine ⟨fun t => ⟨fun o => by rw [r, p]; exact t.opened o, fun o => by rw [r]; exact t.closed o⟩, ?_, ?_⟩
  · intro h; unfold BufOkU at *; rw [de.unsBuf, hu, hb]; exact h
  · intro fo hf
    have h := fo hf
    exact ⟨by rw [p, e]; exact h.term, by rw [p]; exact h.cursor, h.phase⟩

theorem apply_unitsU (w : World) (op : Op) (acc : List Byte) (hop : OpOk op) (g : GoodUU w) (t : TraceU w.D acc w.s) :
    TraceU (apply w op).1.D (acc ++ outU (apply w op).1.s.log) (apply w op).1.s ∧ GoodUU (apply w op).1 := by
  have ag := apply_good w op hop g.good
  have clr : Still w.s ({ w.s with log := [] } : St) := ⟨⟨by simp, by simp, by simp, by simp⟩, rfl, rfl⟩
  have t0 : TraceU w.D (acc ++ outU ({ w.s with log := [] } : St).log) ({ w.s with log := [] } : St) := by
    have : outU ({ w.s with log := [] } : St).log = [] := rfl
    rw [this, List.append_nil]; exact (clr.unitU (D := w.D)).trace t
  have b0 : BufOkU w.D ({ w.s with log := [] } : St) := g.buf.frame rfl rfl
  have f0 : FlushOkU w.D ({ w.s with log := [] } : St) := (clr.unitU (D := w.D)).keep.2.2.2 g.fo
  have still : ∀ s' : St, (apply w op).1.D = w.D → (apply w op).1.s = s' → Still ({ w.s with log := [] } : St) s' → outU s'.log = [] →
      TraceU (apply w op).1.D (acc ++ outU (apply w op).1.s.log) (apply w op).1.s ∧ GoodUU (apply w op).1 := by
    intro s' hD hs hst ho
    have u := hst.unitU (D := w.D)
    rw [hD, hs, ho, List.append_nil]
    have t1 : TraceU w.D acc ({ w.s with log := [] } : St) := (clr.unitU (D := w.D)).trace t
    refine ⟨u.trace t1, ⟨ag.2, ?_, ?_⟩⟩
    · rw [hD, hs]; exact b0.frame (by rw [hst.1.b.1]) (by rw [hst.1.b.2])
    · rw [hD, hs]; exact u.keep.2.2.2 f0
  have noOut : ∀ (D : Desc) (s : St) (lk ul : Int) (body : St → St × Int), outU s.log = [] → (∀ a, outU a.log = [] → outU (body a).1.log = []) →
      outU (withMutex D s lk ul body).1.log = [] := by
    intro D s lk ul body h0 hb
    unfold withMutex
    split
    · split
      · rw [(outU_emit_lock s lk).1]; exact h0
      · have := hb (s.emit (.lock lk)) (by rw [(outU_emit_lock s lk).1]; exact h0)
        simp only
        split <;> (rw [(outU_emit_lock _ ul).2]; exact this)
    · exact hb _ h0
  cases op with
  | service i =>
    have k0 := clr.keep (g.good.wf.ring.congr (by simp)) g.good.wf g.good.oob
    have ub0 : UbAll w.D ({ w.s with log := [] } : St) :=
      (show UbSame w.s { w.s with log := [] } from ⟨rfl, rfl, rfl, rfl, rfl, rfl, rfl, rfl, rfl, rfl, rfl⟩).inv g.good.ub.1 g.good.ub.2
    have em : ∀ (a : St) (e : Ev), (∀ f b acc p, e ≠ .wr f b acc p) →
        (Wf w.D a ∧ UbAll w.D a ∧ OobAll w.D a ∧ BufOkU w.D a ∧ FlushOkU w.D a ∧ TraceU w.D (acc ++ outU a.log) a) →
        (Wf w.D (a.emit e) ∧ UbAll w.D (a.emit e) ∧ OobAll w.D (a.emit e) ∧ BufOkU w.D (a.emit e) ∧ FlushOkU w.D (a.emit e) ∧
          TraceU w.D (acc ++ outU (a.emit e).log) (a.emit e)) := by
      intro a e he h
      have st := Still.emit a e
      have k := st.keep (h.1.ring.congr (by simp)) h.1 h.2.2.1
      have u := st.unitU (D := w.D)
      have oe : outU (a.emit e).log = outU a.log := by
        simp only [emit_log, outU_append]
        cases e <;> simp [outU] <;> exact absurd rfl (he _ _ _ _)
      exact ⟨k.1, (UbSame.emit a e).inv h.2.1.1 h.2.1.2, k.2, h.2.2.2.1.frame rfl rfl, u.keep.2.2.2 h.2.2.2.2.1, by rw [oe]; exact u.trace h.2.2.2.2.2⟩
    have body : ∀ a : St, (Wf w.D a ∧ UbAll w.D a ∧ OobAll w.D a ∧ BufOkU w.D a ∧ FlushOkU w.D a ∧ TraceU w.D (acc ++ outU a.log) a) →
        (Wf w.D (serviceBody w.D a i).1 ∧ UbAll w.D (serviceBody w.D a i).1 ∧ OobAll w.D (serviceBody w.D a i).1 ∧
          BufOkU w.D (serviceBody w.D a i).1 ∧ FlushOkU w.D (serviceBody w.D a i).1 ∧
          TraceU w.D (acc ++ outU (serviceBody w.D a i).1.log) (serviceBody w.D a i).1) := by
      intro a h
      have so := serviceBody_oob a i hop g.good.num h.1 h.2.1 h.2.2.1
      have su := serviceBody_unitsU a i acc hop g.good.num h.1 h.2.1 h.2.2.1 h.2.2.2.1 h.2.2.2.2.1 h.2.2.2.2.2
      exact ⟨so.2.1, (serviceBody_noUb w.D a i hop g.good.num h.2.1).2, so.2.2, su.2.1, su.2.2, su.1⟩
    have start := (⟨k0.1, ub0, k0.2, b0, f0, t0⟩ :
      Wf w.D ({ w.s with log := [] } : St) ∧ UbAll w.D ({ w.s with log := [] } : St) ∧ OobAll w.D ({ w.s with log := [] } : St) ∧
      BufOkU w.D ({ w.s with log := [] } : St) ∧ FlushOkU w.D ({ w.s with log := [] } : St) ∧
      TraceU w.D (acc ++ outU ({ w.s with log := [] } : St).log) ({ w.s with log := [] } : St))
    have fin : (Wf w.D (service w.D ({ w.s with log := [] } : St) i).1 ∧ UbAll w.D (service w.D ({ w.s with log := [] } : St) i).1 ∧
        OobAll w.D (service w.D ({ w.s with log := [] } : St) i).1 ∧ BufOkU w.D (service w.D ({ w.s with log := [] } : St) i).1 ∧
        FlushOkU w.D (service w.D ({ w.s with log := [] } : St) i).1 ∧
        TraceU w.D (acc ++ outU (service w.D ({ w.s with log := [] } : St) i).1.log) (service w.D ({ w.s with log := [] } : St) i).1) := by
      unfold service withMutex
      split
      · split
        · exact em _ _ (by intros; simp) start
        · simp only
          have h1 := body _ (em _ (.lock i.lock) (by intros; simp) start)
          split <;> exact em _ _ (by intros; simp) h1
      · exact body _ start
    exact ⟨fin.2.2.2.2.2, ⟨ag.2, fin.2.2.2.1, fin.2.2.2.2.1⟩⟩
  | isBusy lk ul =>
    have st := withMutex_still w.D ({ w.s with log := [] } : St) lk ul isBusyBody (fun a ha => ⟨.refl a, ha⟩) (g.good.wf.ring.congr (by simp))
    exact still _ rfl rfl st.1 (noOut _ _ _ _ _ rfl (fun a h => h))
  | isHold lk ul =>
    have st := withMutex_still w.D ({ w.s with log := [] } : St) lk ul isHoldBody (fun a ha => ⟨.refl a, ha⟩) (g.good.wf.ring.congr (by simp))
    exact still _ rfl rfl st.1 (noOut _ _ _ _ _ rfl (fun a h => h))
  | isFull lk ul =>
    have st := withMutex_still w.D ({ w.s with log := [] } : St) lk ul (isFullBody w.D) (fun a ha => ⟨.refl a, ha⟩) (g.good.wf.ring.congr (by simp))
    exact still _ rfl rfl st.1 (noOut _ _ _ _ _ rfl (fun a h => h))
  | trigger c t' lk ul =>
    have st := withMutex_still w.D ({ w.s with log := [] } : St) lk ul (fun s => pushUnsolicited w.D s c (cmdTypeOfInt t'))
      (fun a ha => by
        have f := pushUnsolicited_frame w.D a c (cmdTypeOfInt t')
        exact ⟨⟨⟨f.1, f.2.1, f.2.2.2.1, f.2.2.2.2.2.1⟩, by simp [f.2.2.2.2.1], pushUnsolicited_oob w.D a c _ ha⟩, pushUnsolicited_ring w.D a c _ ha⟩)
      (g.good.wf.ring.congr (by simp))
    exact still _ rfl rfl st.1 (noOut w.D ({ w.s with log := [] } : St) lk ul (fun s => pushUnsolicited w.D s c (cmdTypeOfInt t')) rfl (fun a h => by
      have f := pushUnsolicited_frame w.D a c (cmdTypeOfInt t'); rw [f.2.2.2.2.2.2]; exact h))
  | holdExit st lk ul =>
    have stl := withMutex_still w.D ({ w.s with log := [] } : St) lk ul (fun s => holdExit s st)
      (fun a ha => ⟨⟨holdExit_calm a st, by simp, holdExit_oob a st⟩, ha.congr (by simp)⟩) (g.good.wf.ring.congr (by simp))
    exact still _ rfl rfl stl.1 (noOut w.D ({ w.s with log := [] } : St) lk ul (fun s => holdExit s st) rfl (fun a h => by
      have f := holdExit_frame a st; rw [f.2.2.2.2.2.2.2]; exact h))
  | buffered c t' => exact still _ rfl rfl (.refl _) rfl
  | setCmdDisable c v =>
    have de := modifyCmd_eq w.D c (fun x => { x with disable := v }) (fun _ => rfl)
    have u := de.unitU ({ w.s with log := [] } : St) (acc ++ outU ({ w.s with log := [] } : St).log)
    exact ⟨u.1 t0, ⟨ag.2, u.2.1 b0, u.2.2 f0⟩⟩
  | setCmdOnlyTest c v =>
    have de := modifyCmd_eq w.D c (fun x => { x with onlyTest := v }) (fun _ => rfl)
    have u := de.unitU ({ w.s with log := [] } : St) (acc ++ outU ({ w.s with log := [] } : St).log)
    exact ⟨u.1 t0, ⟨ag.2, u.2.1 b0, u.2.2 f0⟩⟩
  | setGroupDisable gi v =>
    have de := groupDisable_eq w.D gi v
    have u := de.unitU ({ w.s with log := [] } : St) (acc ++ outU ({ w.s with log := [] } : St).log)
    exact ⟨u.1 t0, ⟨ag.2, u.2.1 b0, u.2.2 f0⟩⟩
  | poke slot off bs =>
    have st : Still ({ w.s with log := [] } : St) (apply w (.poke slot off bs)).1.s := by
      simp only [apply]
      split
      · rename_i h
        exact ⟨⟨by simp, by simp, by simp, by simp⟩, poke_lenE _ slot off bs h, rfl⟩
      · exact .refl _
    exact still _ rfl rfl st (by simp only [apply]; split <;> rfl)

/-- all bytes of the unsolicited machine accepted by `io->write` during a history -/
def outAllU (tr : List (Int × List Ev)) : List Byte := (tr.map (fun x => outU x.2)).flatten

/-- **The unsolicited machine's output is a sequence of whole units**, over any history. -/
theorem runOps_unitsU : ∀ (ops : List Op) (w : World) (acc : List Byte), (∀ op ∈ ops, OpOk op) → GoodUU w → TraceU w.D acc w.s →
    TraceU (runOps w ops).1.D (acc ++ outAllU (runOps w ops).2) (runOps w ops).1.s := by
  intro ops
  induction ops with
  | nil => intro w acc _ _ t; simpa [runOps, outAllU] using t
  | cons op r ih =>
    intro w acc hok g t
    have a := apply_unitsU w op acc (hok op (by simp)) g t
    have b := ih (apply w op).1 (acc ++ outU (apply w op).1.s.log) (fun o ho => hok o (by simp [ho])) a.2 a.1
    simp only [runOps, outAllU, List.map_cons, List.flatten_cons] at b ⊢
    simpa [outAllU, List.append_assoc] using b

end Cat
