/-
  No access outside the object it belongs to (C03): the `oob` flag stays false.  The ghost flag is
  raised by every checked accessor of the model (`setB`, `slotWrite`, `St.chk`) at exactly the places
  where the C code would touch memory outside the working buffer region of the acting machine, a
  variable's `data_size` bytes, the "\r\n" literal or the event ring.  This file proves the
  step-level facts: text termination (`NulAt`, `HasNul`), the print layer, the parsers' read
  cursor, the output cursor, the match-state lanes.
-/
import CatVerif.Proofs.NoUbHist
import CatVerif.Proofs.ParseBuf
import CatVerif.Proofs.RingInvP
namespace Cat
open St

/-! ### reading back what was stored -/

/-- a NUL at or behind `p` inside the region of machine `f` -/
def HasNul (D : Desc) (s : St) (f : Fsm) (p : Nat) : Prop := ∃ n, p ≤ n ∧ n < D.capOf f ∧ getB D s f n = 0

/-- the cursor of machine `f` is inside its region, at a NUL -/
def NulAt (D : Desc) (s : St) (f : Fsm) : Prop := s.pos f < D.capOf f ∧ getB D s f (s.pos f) = 0

theorem NulAt.hasNul {D : Desc} {s : St} {f : Fsm} (h : NulAt D s f) : HasNul D s f 0 :=
  ⟨s.pos f, Nat.zero_le _, h.1, h.2⟩

theorem getB_congr (D : Desc) {s s' : St} (f : Fsm) (n : Nat) (h : SameBuf s s') : getB D s' f n = getB D s f n := by
  unfold getB; cases f <;> simp [h.1, h.2]

theorem HasNul.congr {D : Desc} {s s' : St} {f : Fsm} {p : Nat} (h : SameBuf s s') (hn : HasNul D s f p) : HasNul D s' f p := by
  obtain ⟨n, a, b, c⟩ := hn
  exact ⟨n, a, b, by rw [getB_congr D f n h]; exact c⟩

theorem getB_setB_ne (D : Desc) (s : St) (f : Fsm) (i v j : Nat) (h : j ≠ i) :
    getB D (setB D s f i v) f j = getB D s f j := by
  have h' : i ≠ j := Ne.symm h
  cases f
  · simp only [setB, getB]
    by_cases hc : i < D.capOf .cmd
    · simp [hc, List.getD, h']
    · simp [hc]
  · simp only [setB, getB]
    by_cases hc : i < D.capOf .uns
    · cases hu : D.unsBuf.isSome <;> simp [hc, List.getD, h']
    · simp [hc]

theorem set_get_zero (l : List Nat) (i : Nat) : (l.set i 0)[i]?.getD 0 = 0 := by
  by_cases h : i < l.length
  · simp [h]
  · simp [List.getElem?_eq_none (show (l.set i 0).length ≤ i by simp; omega)]

theorem getB_setB_zero (D : Desc) (s : St) (f : Fsm) (i : Nat) (h : i < D.capOf f) :
    getB D (setB D s f i 0) f i = 0 := by
  cases f
  · simp only [setB, getB, h, if_true, List.getD]
    exact set_get_zero _ _
  · simp only [setB, getB, h, if_true]
    cases hu : D.unsBuf.isSome
    · simp only [List.getD]; simp; exact set_get_zero _ _
    · simp only [List.getD]; simp; exact set_get_zero _ _

theorem getB_writeB_out (D : Desc) (f : Fsm) (bs : List Byte) : ∀ (s : St) (i j : Nat), (j < i ∨ i + bs.length ≤ j) →
    getB D (writeB D s f i bs) f j = getB D s f j := by
  induction bs with
  | nil => intro s i j _; rfl
  | cons b r ih =>
    intro s i j h
    simp only [writeB]
    rw [ih _ _ _ (by simp only [List.length_cons] at h; omega)]
    exact getB_setB_ne D s f i b j (by simp only [List.length_cons] at h; omega)

/-- a zero byte of the written text reads back as zero (whether or not the backing store is long enough) -/
theorem getB_writeB_zero (D : Desc) (f : Fsm) (bs : List Byte) : ∀ (s : St) (i k : Nat), bs[k]? = some 0 → i + bs.length ≤ D.capOf f →
    getB D (writeB D s f i bs) f (i + k) = 0 := by
  induction bs with
  | nil => intro s i k h; simp at h
  | cons b r ih =>
    intro s i k h hc
    simp only [writeB]
    cases k with
    | zero =>
      simp at h
      subst h
      rw [getB_writeB_out D f r _ _ _ (Or.inl (by omega))]
      exact getB_setB_zero D s f i (by simp at hc; omega)
    | succ k =>
      have := ih (setB D s f i b) (i + 1) k (by simpa using h) (by simp at hc; omega)
      rw [show i + (k + 1) = i + 1 + k by omega]
      exact this
/-! ### the print layer leaves the cursor at a NUL inside the region -/

theorem writeB_pos (D : Desc) (f : Fsm) (bs : List Byte) : ∀ (i : Nat) (t : St), (writeB D t f i bs).pos f = t.pos f := by
  induction bs with
  | nil => intro i t; rfl
  | cons b r ih => intro i t; simp only [writeB]; rw [ih, setB_pos]

theorem printN_nul (D : Desc) (s : St) (f : Fsm) (x : List Byte) (hp : s.pos f ≤ D.capOf f)
    (ok : (printN D s f x).2 = true) : NulAt D (printN D s f x).1 f := by
  unfold printN at ok ⊢
  simp only [hp, decide_true, St.chkUb, if_true] at ok ⊢
  split
  · rename_i h; simp [h] at ok
  · rename_i h
    have hlt : s.pos f + x.length < D.capOf f := by omega
    constructor
    · rw [setB_pos]; simpa using hlt
    · rw [setB_pos]; simp only [setPos_pos]; exact getB_setB_zero D _ f _ hlt

theorem printFmt_nul (D : Desc) (s : St) (f : Fsm) (x : List Byte) (hp : s.pos f ≤ D.capOf f)
    (ok : (printFmt D s f x).2 = true) : NulAt D (printFmt D s f x).1 f := by
  unfold printFmt at ok ⊢
  simp only [hp, decide_true, St.chkUb, if_true] at ok ⊢
  split
  · rename_i h; simp [h] at ok
  · rename_i hl
    have hl' : D.capOf f - s.pos f ≠ 0 := by simpa using hl
    split
    · rename_i h; simp [hl, h] at ok
    · rename_i h
      have hx : x.length < D.capOf f - s.pos f := by omega
      have ht : x.take (D.capOf f - s.pos f - 1) = x := List.take_of_length_le (by omega)
      rw [ht]
      constructor
      · simp only [setPos_pos]; omega
      · simp only [setPos_pos]
        rw [getB_congr D f _ (setPos_frame _ f _).2.2.1]
        exact getB_writeB_zero D f (x ++ [0]) s (s.pos f) x.length (by simp) (by simp; omega)

theorem printAll_nul (D : Desc) (f : Fsm) (xs : List (List Byte)) : ∀ s : St, s.pos f ≤ D.capOf f →
    (NulAt D s f ∨ xs ≠ []) → (printAll D s f xs).2 = true → NulAt D (printAll D s f xs).1 f := by
  induction xs with
  | nil => intro s _ h _; simpa [printAll] using h
  | cons x r ih =>
    intro s hp _ ok
    simp only [printAll] at ok ⊢
    split
    · rename_i hk
      rw [if_pos hk] at ok
      exact ih _ (printN_nofault D s f x hp).2 (Or.inl (printN_nul D s f x hp hk)) ok
    · rename_i hk
      rw [if_neg hk] at ok
      simp at ok

theorem printHexBytes_nul (D : Desc) (f : Fsm) (wo : Bool) (bs : List Byte) : ∀ s : St, s.pos f ≤ D.capOf f →
    (NulAt D s f ∨ bs ≠ []) → (printHexBytes D f wo s bs).2 = true → NulAt D (printHexBytes D f wo s bs).1 f := by
  induction bs with
  | nil => intro s _ h _; simpa [printHexBytes] using h
  | cons b r ih =>
    intro s hp _ ok
    simp only [printHexBytes] at ok ⊢
    generalize hexFixed 2 (if wo = true then 0 else b) = txt at ok ⊢
    split
    · rename_i hk
      rw [if_pos hk] at ok
      exact ih _ (printFmt_nofault D s f txt hp).2 (Or.inl (printFmt_nul D s f txt hp hk)) ok
    · rename_i hk
      rw [if_neg hk] at ok
      simp at ok

/-- a hex-buffer variable of size 0 prints nothing (the response then lacks its terminator) -/
def VarOk (v : VarD) : Prop := v.type = .bufHex → 0 < v.dataSize

theorem chk_nulAt (D : Desc) (s : St) (f : Fsm) (c : Bool) : NulAt D (s.chk c) f ↔ NulAt D s f := by
  unfold NulAt
  have e1 : (s.chk c).pos f = s.pos f := by unfold St.chk; split <;> cases f <;> rfl
  rw [e1, getB_congr D f _ (chk_ctl s c).2.2.1]

theorem formatVar_nul (D : Desc) (s : St) (f : Fsm) (v : VarD) (hp : s.pos f ≤ D.capOf f) (hv : VarOk v)
    (ok : (formatVar D s f v).2 = true) : NulAt D (formatVar D s f v).1 f := by
  have cp : ∀ c, (s.chk c).pos f ≤ D.capOf f := fun c => (chk_posUb D f s c hp).2
  unfold formatVar at ok ⊢
  split at ok
  · unfold formatIntDecimal at ok ⊢
    split at ok
    · rename_i h; rw [if_pos h]; exact printFmt_nul D _ f _ (loadUInt_posUb D f s v hp).2 ok
    · simp at ok
  · unfold formatUIntDecimal at ok ⊢
    split at ok
    · rename_i h; rw [if_pos h]; exact printFmt_nul D _ f _ (loadUInt_posUb D f s v hp).2 ok
    · simp at ok
  · unfold formatNumHexadecimal at ok ⊢
    split at ok
    · rename_i h; rw [if_pos h]; exact printFmt_nul D _ f _ (loadUInt_posUb D f s v hp).2 ok
    · simp at ok
  · rename_i ht
    unfold formatBufferHexadecimal at ok ⊢
    refine printHexBytes_nul D f _ _ _ (cp _) (Or.inr ?_) ok
    have := hv ht
    intro e
    have := congrArg List.length e
    simp only [List.length_append, List.length_take, List.length_replicate, List.length_nil, Nat.min_def] at this
    split at this <;> omega
  · unfold formatBufferString at ok ⊢
    exact printAll_nul D f _ _ (cp _) (Or.inr (by simp)) ok

theorem formatInfoType_nul (D : Desc) (s : St) (f : Fsm) (v : VarD) (hp : s.pos f ≤ D.capOf f)
    (ok : (formatInfoType D s f v).2 = true) : NulAt D (formatInfoType D s f v).1 f := by
  unfold formatInfoType at ok ⊢
  split at ok
  · simp at ok
  · exact printAll_nul D f _ s hp (Or.inr (by simp)) ok

/-! ### the parsers' read cursor: a NUL in the text stops every parser inside the text -/

theorem isDecChar_zero : isDecChar 0 = false := by decide

theorem drop_sub_succ (ch : Byte) (r : List Byte) (u n : Nat) (h : n + 1 ≤ u) : (ch :: r).drop (u - n) = r.drop (u - (n + 1)) := by
  rw [show u - n = (u - (n + 1)) + 1 by omega]; rfl

/-- what the argument parsers guarantee when the text holds a NUL: they never run off the text,
and when they stop at a comma the NUL is still ahead -/
structure StopsIn (txt : List Byte) (n used : Nat) (ret : Int) (off : Bool) : Prop where
  off : off = false
  ge : n < used
  more : 0 < ret → 0 ∈ txt.drop (used - n)

theorem StopsIn.here (ch : Byte) (r : List Byte) (n : Nat) (ret : Int) (h : 0 < ret → 0 ∈ r) : StopsIn (ch :: r) n (n + 1) ret false :=
  ⟨rfl, by omega, fun e => by rw [show n + 1 - n = 1 by omega]; exact h e⟩

theorem StopsIn.step {ch : Byte} {r : List Byte} {n used : Nat} {ret : Int} {off : Bool} (h : StopsIn r (n + 1) used ret off) :
    StopsIn (ch :: r) n used ret off :=
  ⟨h.off, by have := h.ge; omega, fun e => by rw [drop_sub_succ ch r used n (Nat.le_of_lt h.ge)]; exact h.more e⟩

theorem mem_tail_of_ne {ch : Byte} {r : List Byte} (h : 0 ∈ ch :: r) (hc : ch ≠ 0) : 0 ∈ r := by
  simp only [List.mem_cons] at h
  rcases h with h | h
  · exact absurd h.symm hc
  · exact h

theorem parseUIntDec_stops : ∀ (txt : List Byte) (val : Nat) (ok : Bool) (n : Nat), 0 ∈ txt →
    StopsIn txt n (parseUIntDec txt val ok n).used (parseUIntDec txt val ok n).ret (parseUIntDec txt val ok n).off := by
  intro txt
  induction txt with
  | nil => intro _ _ _ h; simp at h
  | cons ch r ih =>
    intro val ok n h
    by_cases hc : ch = 0
    · subst hc
      simp only [parseUIntDec, isDecChar_zero]
      split <;> exact StopsIn.here _ _ _ _ (by simp_all)
    · have hr := mem_tail_of_ne h hc
      simp only [parseUIntDec]
      split
      · exact StopsIn.here _ _ _ _ (fun _ => hr)
      · split
        · split
          · exact StopsIn.here _ _ _ _ (fun _ => hr)
          · exact (ih _ _ _ hr).step
        · exact StopsIn.here _ _ _ _ (fun _ => hr)

theorem parseIntDec_stops : ∀ (txt : List Byte) (val sign : Nat) (ok : Bool) (n : Nat), 0 ∈ txt →
    StopsIn txt n (parseIntDec txt val sign ok n).used (parseIntDec txt val sign ok n).ret (parseIntDec txt val sign ok n).off := by
  intro txt
  induction txt with
  | nil => intro _ _ _ _ h; simp at h
  | cons ch r ih =>
    intro val sign ok n h
    by_cases hc : ch = 0
    · subst hc
      simp only [parseIntDec, isDecChar_zero]
      (repeat' split) <;> first | exact StopsIn.here _ _ _ _ (by simp_all) | simp_all
    · have hr := mem_tail_of_ne h hc
      simp only [parseIntDec]
      (repeat' split) <;> first | exact StopsIn.here _ _ _ _ (fun _ => hr) | exact (ih _ _ _ _ hr).step

theorem parseNumHex_stops : ∀ (txt : List Byte) (val st n : Nat), 0 ∈ txt →
    StopsIn txt n (parseNumHex txt val st n).used (parseNumHex txt val st n).ret (parseNumHex txt val st n).off := by
  intro txt
  induction txt with
  | nil => intro _ _ _ h; simp at h
  | cons ch r ih =>
    intro val st n h
    by_cases hc : ch = 0
    · subst hc
      simp only [parseNumHex, toUpper_zero, isHexChar_zero]
      (repeat' split) <;> first | exact StopsIn.here _ _ _ _ (by simp_all) | simp_all
    · have hr := mem_tail_of_ne h hc
      simp only [parseNumHex]
      (repeat' split) <;> first | exact StopsIn.here _ _ _ _ (fun _ => hr) | exact (ih _ _ _ hr).step

theorem parseBufHex_stops (ds : Nat) : ∀ (txt : List Byte) (byte : Nat) (st : Bool) (acc : List Byte) (n : Nat), 0 ∈ txt →
    StopsIn txt n (parseBufHex ds txt byte st acc n).used (parseBufHex ds txt byte st acc n).ret (parseBufHex ds txt byte st acc n).off := by
  intro txt
  induction txt with
  | nil => intro _ _ _ _ h; simp at h
  | cons ch r ih =>
    intro byte st acc n h
    by_cases hc : ch = 0
    · subst hc
      simp only [parseBufHex, toUpper_zero, isHexChar_zero]
      (repeat' split) <;> first | exact StopsIn.here _ _ _ _ (by simp_all) | simp_all
    · have hr := mem_tail_of_ne h hc
      simp only [parseBufHex]
      (repeat' split) <;> first | exact StopsIn.here _ _ _ _ (fun _ => hr) | exact (ih _ _ _ _ hr).step

theorem parseBufString_stops (ds : Nat) : ∀ (txt : List Byte) (st : Nat) (acc : List Byte) (n : Nat), 0 ∈ txt →
    StopsIn txt n (parseBufString ds txt st acc n).used (parseBufString ds txt st acc n).ret (parseBufString ds txt st acc n).off := by
  intro txt
  induction txt with
  | nil => intro _ _ _ h; simp at h
  | cons ch r ih =>
    intro st acc n h
    by_cases hc : ch = 0
    · subst hc
      simp only [parseBufString]
      (repeat' split) <;> first | exact StopsIn.here _ _ _ _ (by simp_all) | simp_all
    · have hr := mem_tail_of_ne h hc
      simp only [parseBufString]
      (repeat' split) <;> first | exact StopsIn.here _ _ _ _ (fun _ => hr) | exact (ih _ _ _ hr).step

/-! ### the invariant: where each machine's text ends, by phase -/

inductive Ph | flush | loop | other
  deriving DecidableEq, Repr

def CState.ph : CState → Ph
  | .flushWait | .flushWrite => .flush
  | .readLoop | .testLoop => .loop
  | _ => .other

def UState.ph : UState → Ph
  | .flushWait | .flushWrite => .flush
  | .readLoop | .testLoop => .loop
  | _ => .other

namespace St
def ph (s : St) : Fsm → Ph
  | .cmd => s.state.ph
  | .uns => s.ustate.ph
def wsrc (s : St) : Fsm → WSrc
  | .cmd => s.writeSrc
  | .uns => s.uwriteSrc
def wst (s : St) : Fsm → Nat
  | .cmd => s.writeState
  | .uns => s.uwriteState
/-- machine `f` has a unit ready and waits for the output -/
def waiting (s : St) : Fsm → Prop
  | .cmd => s.state = .flushWait
  | .uns => s.ustate = .flushWait
end St

/-- how a unit starts: cursor at 0, either at the opening line break of a framed unit or at the
text of a raw one (a command-list line) -/
structure Entry (s : St) (f : Fsm) : Prop where
  pos : s.pos f = 0
  src : (s.wst f = 0 ∧ ∃ off, off ≤ 1 ∧ s.wsrc f = .nl off) ∨ (s.wst f = 2 ∧ s.wsrc f = .main)

theorem waiting_ph {s : St} {f : Fsm} (h : s.waiting f) : s.ph f = .flush := by
  cases f
  · simp only [St.waiting] at h; simp [St.ph, h, CState.ph]
  · simp only [St.waiting] at h; simp [St.ph, h, UState.ph]

/-- output and handler-visible text of machine `f` end inside its region:
* while a unit is being flushed from the region the cursor has a NUL ahead of it, inside the region;
* while a line break is being flushed the cursor stays inside the literal "\r\n";
* before the payload is reached the region holds a NUL;
* while a read/test handler loop is active the region holds a NUL (the handler may report any size through `data_size`). -/
structure OobF (D : Desc) (s : St) (f : Fsm) : Prop where
  main : s.ph f = .flush → s.wsrc f = .main → HasNul D s f (s.pos f)
  nl : s.ph f = .flush → ∀ off, s.wsrc f = .nl off → off + s.pos f ≤ 2
  first : s.ph f = .flush → s.wst f = 0 → HasNul D s f 0
  loop : s.ph f = .loop → HasNul D s f 0
  wait : s.waiting f → Entry s f
  wsle : s.ph f = .flush → s.wst f ≤ 2

/-- the argument text of the command machine ends inside the command region -/
structure OobA (D : Desc) (s : St) : Prop where
  args : s.state = .parseCommandArgs → s.length < D.cmdCap ∧ getB D s .cmd s.length = 0
  wargs : s.state = .parseWriteArgs → HasNul D s .cmd s.position

theorem OobF.other {D : Desc} {s : St} {f : Fsm} (h : s.ph f = .other) : OobF D s f :=
  ⟨by simp [h], by simp [h], by simp [h], by simp [h], fun w => by have := waiting_ph w; simp [h] at this, by simp [h]⟩

theorem OobF.ofLoop {D : Desc} {s : St} {f : Fsm} (h : s.ph f = .loop) (hn : HasNul D s f 0) : OobF D s f :=
  ⟨by simp [h], by simp [h], by simp [h], fun _ => hn, fun w => by have := waiting_ph w; simp [h] at this, by simp [h]⟩

/-- what the descriptor must provide (DESIGN.md 2.3): the match-state lanes of all commands fit
the command region (the `assert` of `cat_init`, for the command half), the result code `ERROR`
and its terminator fit, and no hex-buffer variable is empty -/
structure DescOk (D : Desc) : Prop where
  lanes : D.commandsNum ≤ 4 * D.cmdCap
  ack : 6 ≤ D.cmdCap
  vars : ∀ id, ∀ v ∈ (D.cmdD id).vars.getD [], VarOk v

/-- every variable's storage is at least `data_size` bytes long -/
def MemOk (D : Desc) (s : St) : Prop := ∀ id, ∀ v ∈ (D.cmdD id).vars.getD [], v.dataSize ≤ (s.slotGet v.slot).length

theorem varAt_mem (c : CmdD) (i : Nat) (h : i < c.varNum) : c.varAt i ∈ c.vars.getD [] := by
  unfold CmdD.varAt CmdD.varNum at *
  rw [List.getElem?_eq_getElem h]
  exact List.getElem_mem h

/-- `oob` unchanged, and machine `f`'s text-termination invariant holds afterwards -/
def OobStep (D : Desc) (f : Fsm) (s s' : St) : Prop := s'.oob = s.oob ∧ OobF D s' f

theorem OobStep.of_eq {D : Desc} {f : Fsm} {s t u : St} (h : t.oob = s.oob) (h2 : OobStep D f t u) : OobStep D f s u :=
  ⟨h2.1.trans h, h2.2⟩

/-! ### leaves -/

theorem startFlush_oobF (D : Desc) (s : St) (f : Fsm) (a : After) (h : HasNul D s f 0) : OobStep D f s (startFlush s f a) := by
  have hb : HasNul D (startFlush s f a) f 0 := h.congr (startFlush_buf s f a)
  cases f
  · refine ⟨rfl, ⟨?_, ?_, ?_, ?_, ?_, ?_⟩⟩
    · intro _ h2; simp [startFlush, St.wsrc, St.emit] at h2
    · intro _ off h2; simp [startFlush, St.wsrc, St.emit, nlOff] at h2; simp [startFlush, St.pos, St.emit]; subst h2; split <;> omega
    · intro _ _; exact hb
    · intro h2; simp [startFlush, St.ph, CState.ph, St.emit] at h2
    · intro _; exact ⟨by simp [startFlush, St.pos, St.emit], Or.inl ⟨by simp [startFlush, St.wst, St.emit], nlOff s, by unfold nlOff; split <;> omega, by simp [startFlush, St.wsrc, St.emit]⟩⟩
    · intro _; simp [startFlush, St.wst, St.emit]
  · refine ⟨rfl, ⟨?_, ?_, ?_, ?_, ?_, ?_⟩⟩
    · intro _ h2; simp [startFlush, St.wsrc, St.emit] at h2
    · intro _ off h2; simp [startFlush, St.wsrc, St.emit, nlOff] at h2; simp [startFlush, St.pos, St.emit]; subst h2; split <;> omega
    · intro _ _; exact hb
    · intro h2; simp [startFlush, St.ph, UState.ph, St.emit] at h2
    · intro _; exact ⟨by simp [startFlush, St.pos, St.emit], Or.inl ⟨by simp [startFlush, St.wst, St.emit], nlOff s, by unfold nlOff; split <;> omega, by simp [startFlush, St.wsrc, St.emit]⟩⟩
    · intro _; simp [startFlush, St.wst, St.emit]

theorem strncpyC_nul (D : Desc) (s : St) (str : List Byte) (h : str.length < D.cmdCap) :
    getB D (strncpyC D s str) .cmd str.length = 0 := by
  unfold strncpyC
  have e : (str.take D.cmdCap ++ List.replicate (D.cmdCap - str.length) 0)[str.length]? = some 0 := by
    rw [List.take_of_length_le (by omega), List.getElem?_append_right (Nat.le_refl _), Nat.sub_self]
    cases hk : D.cmdCap - str.length with
    | zero => omega
    | succ k => rfl
  have := getB_writeB_zero D .cmd (str.take D.cmdCap ++ List.replicate (D.cmdCap - str.length) 0) s 0 str.length e
    (by simp [Desc.capOf]; omega)
  simpa using this

theorem ack_sameFault (D : Desc) (s : St) :
    SameFault s (ackOk D s) ∧ SameFault s (ackError D s) := by
  have h : ∀ str : List Byte, SameFault s (strncpyC D s str) := by
    intro str
    unfold strncpyC
    exact writeB_nofault D .cmd _ s 0 (by
      simp only [List.length_append, List.length_take, List.length_replicate, Desc.capOf]; omega)
  constructor
  · have := h [79, 75]; simp_all [ackOk, startFlush, St.emit]
  · have := h [69, 82, 82, 79, 82]; simp_all [ackError, startFlush, St.emit]

theorem ackError_oobStep {D : Desc} (hd : DescOk D) (s : St) : OobStep D .cmd s (ackError D s) := by
  have hn : HasNul D ((strncpyC D s [69, 82, 82, 79, 82]).emit (.ack false)) .cmd 0 :=
    ⟨5, by omega, by have := hd.ack; simp [Desc.capOf]; omega,
      by rw [getB_congr D .cmd 5 (emit_ctl _ _).2.2]; exact strncpyC_nul D s [69, 82, 82, 79, 82] (by have := hd.ack; simp; omega)⟩
  have := startFlush_oobF D _ .cmd .reset hn
  exact ⟨(ack_sameFault D s).2.1, this.2⟩

theorem ackOk_oobStep {D : Desc} (hd : DescOk D) (s : St) : OobStep D .cmd s (ackOk D s) := by
  have hn : HasNul D ((strncpyC D s [79, 75]).emit (.ack true)) .cmd 0 :=
    ⟨2, by omega, by have := hd.ack; simp [Desc.capOf]; omega,
      by rw [getB_congr D .cmd 2 (emit_ctl _ _).2.2]; exact strncpyC_nul D s [79, 75] (by have := hd.ack; simp; omega)⟩
  have := startFlush_oobF D _ .cmd .reset hn
  exact ⟨(ack_sameFault D s).1.1, this.2⟩

theorem endError_oobStep {D : Desc} (hd : DescOk D) (s : St) (f : Fsm) : OobStep D f s (endError D s f) := by
  cases f
  · exact ackError_oobStep hd s
  · exact ⟨rfl, .other (by simp [endError, unsolicitedResetState, St.ph, UState.ph])⟩

theorem endOk_oobStep {D : Desc} (hd : DescOk D) (s : St) (f : Fsm) : OobStep D f s (endOk D s f) := by
  cases f
  · exact ackOk_oobStep hd s
  · exact ⟨rfl, .other (by simp [endOk, unsolicitedResetState, St.ph, UState.ph])⟩

/-! ### callbacks and their nested API calls -/

theorem pushUnsolicited_oob (D : Desc) (s : St) (c : Nat) (t : CmdType) (hi : RingInv D s) : (pushUnsolicited D s c t).1.oob = s.oob := by
  by_cases h : s.rcount = D.cap
  · rw [push_full D s c t h]
  · exact (push_ok D s c t hi (by have := hi.count_le; omega)).2.2.2

theorem holdExit_oob (s : St) (st : Int) : (holdExit s st).1.oob = s.oob := by unfold holdExit; split <;> rfl

theorem applyNested_oob (D : Desc) (f : Fsm) (e : Bool) (acts : List Nested) : ∀ s : St, RingInv D s →
    (applyNested D f e s acts).oob = s.oob := by
  induction acts with
  | nil => intro s _; rfl
  | cons a r ih =>
    intro s hi
    cases a with
    | trigger c t =>
      simp only [applyNested, withMutex]
      split
      · have h1 : RingInv D (s.emit (.lock 0)) := hi.congr (by simp)
        have h2 := pushUnsolicited_ring D (s.emit (.lock 0)) c (cmdTypeOfInt t) h1
        rw [ih _ (h2.congr (by simp))]
        simp only [emit_faults]
        exact pushUnsolicited_oob D _ c _ h1
      · have h2 := pushUnsolicited_ring D s c (cmdTypeOfInt t) hi
        rw [ih _ (h2.congr (by simp))]
        simp only [emit_faults]
        exact pushUnsolicited_oob D _ c _ hi
    | holdExit st =>
      simp only [applyNested, withMutex]
      split <;> (rw [ih _ (hi.congr (by simp))]; simp [holdExit_oob])
    | poke slot off bs =>
      simp only [applyNested]
      split <;> (rw [ih _ (hi.congr (by simp))])
    | edit bs =>
      simp only [applyNested]
      split
      · rename_i hc
        simp only [Bool.and_eq_true, decide_eq_true_eq] at hc
        rw [ih _ (hi.congr (by simp))]
        simp only [setPos_frame]
        exact (writeB_nofault D f (bs ++ [0]) s 0 (by simp; omega)).1
      · exact ih _ hi
    | report n =>
      simp only [applyNested]
      split
      · rw [ih _ (hi.congr (by simp))]
        simp only [setPos_frame]
      · exact ih _ hi

theorem varReadCb_oob (D : Desc) (s : St) (f : Fsm) (v : VarD) (i : SvcIn) (hi : RingInv D s) : (varReadCb D s f v i).1.oob = s.oob := by
  unfold varReadCb
  simp only
  split
  · rw [applyNested_oob D f false _ _ (hi.congr (by simp))]; rfl
  · rfl

theorem varWriteCb_oob (D : Desc) (s : St) (v : VarD) (i : SvcIn) (hi : RingInv D s) : (varWriteCb D s v i).1.oob = s.oob := by
  unfold varWriteCb
  split
  · rw [applyNested_oob D .cmd false _ _ (hi.congr (by simp))]; rfl
  · rfl

/-! ### formatting a variable reads only its `data_size` bytes -/

theorem printHexBytes_nofault (D : Desc) (f : Fsm) (wo : Bool) (bs : List Byte) : ∀ s : St, s.pos f ≤ D.capOf f →
    (printHexBytes D f wo s bs).1.oob = s.oob := by
  induction bs with
  | nil => intro s _; rfl
  | cons b r ih =>
    intro s hp
    simp only [printHexBytes]
    generalize hexFixed 2 (if wo = true then 0 else b) = txt
    have h1 := printFmt_nofault D s f txt hp
    split
    · rw [ih _ h1.2]; exact h1.1.1
    · exact h1.1.1

theorem chk_true (s : St) : s.chk true = s := rfl

theorem formatVar_oob (D : Desc) (s : St) (f : Fsm) (v : VarD) (hp : s.pos f ≤ D.capOf f)
    (hm : v.dataSize ≤ (s.slotGet v.slot).length) : (formatVar D s f v).1.oob = s.oob := by
  have c1 : decide (v.dataSize ≤ (s.slotGet v.slot).length) = true := by simpa using hm
  unfold formatVar
  split
  · unfold formatIntDecimal; split
    · simp only [loadUInt, c1, chk_true]; exact (printFmt_nofault D s f _ hp).1.1
    · rfl
  · unfold formatUIntDecimal; split
    · simp only [loadUInt, c1, chk_true]; exact (printFmt_nofault D s f _ hp).1.1
    · rfl
  · unfold formatNumHexadecimal; split
    · simp only [loadUInt, c1, chk_true]; exact (printFmt_nofault D s f _ hp).1.1
    · rfl
  · unfold formatBufferHexadecimal
    simp only [c1, chk_true]
    exact printHexBytes_nofault D f _ _ s hp
  · unfold formatBufferString
    have c2 : (strlenOf ((s.slotGet v.slot).take (if v.access = .wo then 0 else v.dataSize)) <
          ((s.slotGet v.slot).take (if v.access = .wo then 0 else v.dataSize)).length ||
        decide ((if v.access = .wo then 0 else v.dataSize) ≤ (s.slotGet v.slot).length)) = true := by
      have : (if v.access = .wo then 0 else v.dataSize) ≤ (s.slotGet v.slot).length := by split <;> omega
      simp [this]
    simp only [beq_iff_eq] at c2 ⊢
    simp only [c2, chk_true]
    exact (printAll_nofault D f _ s hp).1.1

/-! ### starting and continuing a formatted response (both machines) -/

theorem setStateRL_ph (s : St) (f : Fsm) : (setStateRL s f).ph f = .loop := by cases f <;> rfl
theorem setStateTL_ph (s : St) (f : Fsm) : (setStateTL s f).ph f = .loop := by cases f <;> rfl

theorem NulAt.congr {D : Desc} {s s' : St} {f : Fsm} (hb : SameBuf s s') (hp : s'.pos f = s.pos f) (h : NulAt D s f) : NulAt D s' f := by
  unfold NulAt at *
  rw [hp, getB_congr D f _ hb]; exact h

theorem setStateRL_oob {D : Desc} (s : St) (f : Fsm) (h : NulAt D s f) : OobStep D f s (setStateRL s f) :=
  ⟨by cases f <;> rfl, .ofLoop (setStateRL_ph s f) (h.hasNul.congr (setStateRL_buf s f))⟩
theorem setStateTL_oob {D : Desc} (s : St) (f : Fsm) (h : NulAt D s f) : OobStep D f s (setStateTL s f) :=
  ⟨by cases f <;> rfl, .ofLoop (setStateTL_ph s f) (h.hasNul.congr (setStateTL_buf s f))⟩

theorem chkUb_oob (s : St) (c : Bool) : (s.chkUb c).oob = s.oob := by unfold St.chkUb; split <;> rfl
theorem chkUb_pos (s : St) (c : Bool) (f : Fsm) : (s.chkUb c).pos f = s.pos f := by unfold St.chkUb; split <;> cases f <;> rfl

theorem startFormatRead_oob {D : Desc} (hd : DescOk D) (s : St) (f : Fsm) : OobStep D f s (startFormatRead D s f) := by
  unfold startFormatRead
  simp only
  generalize hs0 : (s.setPos f 0).chkUb _ = s0
  have o0 : s0.oob = s.oob := by rw [← hs0, chkUb_oob]; exact (setPos_frame s f 0).2.2.2.2.1
  have p0 : s0.pos f ≤ D.capOf f := by rw [← hs0, chkUb_pos, setPos_pos]; omega
  generalize D.cmdD (s0.cmdOf f) = c
  have pa := printAll_nofault D f [c.name, [61]] s0 p0
  have pn := printAll_nul D f [c.name, [61]] s0 p0 (Or.inr (by simp))
  generalize printAll D s0 f [c.name, [61]] = r at pa pn
  obtain ⟨s1, ok⟩ := r
  simp only at pa pn
  have o1 : s1.oob = s.oob := pa.1.1.trans o0
  cases ok
  · exact (endError_oobStep hd s1 f).of_eq o1
  · simp only [Bool.not_true, Bool.false_eq_true, if_false]
    split
    · cases f
      · exact ⟨o1, .other (by simp [St.ph, CState.ph])⟩
      · exact ⟨o1, .other (by simp [St.ph, UState.ph])⟩
    · split
      · exact (endError_oobStep hd s1 f).of_eq o1
      · exact (setStateRL_oob s1 f (pn rfl)).of_eq o1

theorem printResponseTest_oob {D : Desc} (s : St) (f : Fsm) (hp : s.pos f ≤ D.capOf f) (hn : NulAt D s f) :
    (printResponseTest D s f).1.oob = s.oob ∧ ((printResponseTest D s f).2 = true → OobF D (printResponseTest D s f).1 f) := by
  unfold printResponseTest
  simp only
  generalize hs0 : s.chkUb _ = s0
  have o0 : s0.oob = s.oob := by rw [← hs0, chkUb_oob]
  have p0 : s0.pos f ≤ D.capOf f := by rw [← hs0, chkUb_pos]; exact hp
  have n0 : NulAt D s0 f := hn.congr (by rw [← hs0]; exact (chkUb_ctl s _).2.2.1) (by rw [← hs0, chkUb_pos])
  generalize D.cmdD (s0.cmdOf f) = c
  cases hdesc : c.desc with
  | none =>
    simp only [Bool.not_true, Bool.false_eq_true, if_false]
    split
    · exact ⟨((setStateTL_oob s0 f n0).1).trans o0, fun _ => (setStateTL_oob s0 f n0).2⟩
    · exact ⟨((startFlush_oobF D s0 f .ok n0.hasNul).1).trans o0, fun _ => (startFlush_oobF D s0 f .ok n0.hasNul).2⟩
  | some d =>
    simp only
    have pa := printAll_nofault D f [nlStr s0, d] s0 p0
    have pn := printAll_nul D f [nlStr s0, d] s0 p0 (Or.inr (by simp))
    generalize printAll D s0 f [nlStr s0, d] = r at pa pn
    obtain ⟨s1, ok⟩ := r
    simp only at pa pn
    have o1 : s1.oob = s.oob := pa.1.1.trans o0
    cases ok
    · simp; exact o1
    · simp only [Bool.not_true, Bool.false_eq_true, if_false]
      split
      · exact ⟨((setStateTL_oob s1 f (pn rfl)).1).trans o1, fun _ => (setStateTL_oob s1 f (pn rfl)).2⟩
      · exact ⟨((startFlush_oobF D s1 f .ok (pn rfl).hasNul).1).trans o1, fun _ => (startFlush_oobF D s1 f .ok (pn rfl).hasNul).2⟩

theorem startFormatTest_oob {D : Desc} (hd : DescOk D) (s : St) (f : Fsm) : OobStep D f s (startFormatTest D s f) := by
  unfold startFormatTest
  simp only
  generalize hs0 : (s.setPos f 0).chkUb _ = s0
  have o0 : s0.oob = s.oob := by rw [← hs0, chkUb_oob]; exact (setPos_frame s f 0).2.2.2.2.1
  have p0 : s0.pos f ≤ D.capOf f := by rw [← hs0, chkUb_pos, setPos_pos]; omega
  generalize D.cmdD (s0.cmdOf f) = c
  have pa := printAll_nofault D f [c.name, [61]] s0 p0
  have pn := printAll_nul D f [c.name, [61]] s0 p0 (Or.inr (by simp))
  generalize printAll D s0 f [c.name, [61]] = r at pa pn
  obtain ⟨s1, ok⟩ := r
  simp only at pa pn
  have o1 : s1.oob = s.oob := pa.1.1.trans o0
  cases ok
  · exact (endError_oobStep hd s1 f).of_eq o1
  · simp only [Bool.not_true, Bool.false_eq_true, if_false]
    split
    · cases f
      · exact ⟨o1, .other (by simp [St.ph, CState.ph])⟩
      · exact ⟨o1, .other (by simp [St.ph, UState.ph])⟩
    · have pr := printResponseTest_oob s1 f pa.2 (pn rfl)
      generalize printResponseTest D s1 f = r2 at pr
      obtain ⟨s2, ok2⟩ := r2
      simp only at pr
      cases ok2
      · exact (endError_oobStep hd s2 f).of_eq (pr.1.trans o1)
      · exact ⟨pr.1.trans o1, pr.2 rfl⟩

/-! ### steps that leave both machines' control fields, cursors and buffers alone -/

structure Calm (s s' : St) : Prop where
  c : SameC' s s'
  u : SameU' s s'
  p : SamePos s s'
  b : SameBuf s s'

theorem Calm.refl (s : St) : Calm s s := ⟨by simp, by simp, by simp, by simp⟩
theorem Calm.trans {a b c : St} (h1 : Calm a b) (h2 : Calm b c) : Calm a c := by
  obtain ⟨a1, a2, a3, a4⟩ := h1
  obtain ⟨b1, b2, b3, b4⟩ := h2
  constructor <;> simp_all
theorem Calm.ph {s s' : St} (h : Calm s s') (f : Fsm) : s'.ph f = s.ph f := by
  cases f
  · simp only [St.ph]; rw [h.c.2.2.2.2.2.2.2.1]
  · simp only [St.ph]; rw [h.u.1]
theorem Calm.pos {s s' : St} (h : Calm s s') (f : Fsm) : s'.pos f = s.pos f := by
  cases f
  · exact h.p.1
  · exact h.p.2
theorem Calm.idx {s s' : St} (h : Calm s s') (f : Fsm) : s'.idx f = s.idx f := by
  cases f
  · exact h.c.1
  · exact h.u.2.1
theorem Calm.cmdOf {s s' : St} (h : Calm s s') (f : Fsm) : s'.cmdOf f = s.cmdOf f := by
  cases f
  · exact h.c.2.2.2.2.1
  · exact h.u.2.2.1
theorem Calm.nulAt {D : Desc} {s s' : St} {f : Fsm} (h : Calm s s') (hn : NulAt D s f) : NulAt D s' f := hn.congr h.b (h.pos f)
theorem Calm.emit (s : St) (e : Ev) : Calm s (s.emit e) := ⟨by simp, by simp, by simp, by simp⟩
theorem Calm.chkUb (s : St) (c : Bool) : Calm s (s.chkUb c) := by
  have := chkUb_ctl s c
  exact ⟨this.1.1, this.1.2.1, this.1.2.2.2.2, this.2.2.1⟩
theorem Calm.chk (s : St) (c : Bool) : Calm s (s.chk c) := by
  have := chk_ctl s c
  exact ⟨this.1.1, this.1.2.1, this.1.2.2.2.2, this.2.2.1⟩

/-- slot lengths unchanged -/
def LenMem (s s' : St) : Prop := ∀ k, (s'.slotGet k).length = (s.slotGet k).length
theorem LenMem.refl (s : St) : LenMem s s := fun _ => rfl
theorem LenMem.trans {a b c : St} (h1 : LenMem a b) (h2 : LenMem b c) : LenMem a c := fun k => (h2 k).trans (h1 k)
theorem LenMem.of_same {s s' : St} (h : s'.mem = s.mem) : LenMem s s' := fun k => by simp [St.slotGet, h]
theorem MemOk.len {D : Desc} {s s' : St} (h : MemOk D s) (hl : LenMem s s') : MemOk D s' :=
  fun id v hv => by rw [hl]; exact h id v hv

theorem poke_len (s : St) (slot off : Nat) (bs : List Byte) (h : off + bs.length ≤ (s.slotGet slot).length) :
    LenMem s { s with mem := s.mem.set slot ((s.slotGet slot).take off ++ bs ++ (s.slotGet slot).drop (off + bs.length)) } := by
  intro k
  by_cases hk : k = slot
  · subst hk
    by_cases hl : k < s.mem.length
    · simp only [St.slotGet, List.getD, List.getElem?_set, hl]
      simp
      simp only [St.slotGet, List.getD] at h
      omega
    · simp [St.slotGet, List.getD, List.getElem?_eq_none (show (s.mem.set k _).length ≤ k by simp; omega),
        List.getElem?_eq_none (show s.mem.length ≤ k by omega)]
  · simp [St.slotGet, List.getD, Ne.symm hk]

theorem applyNested_calm_len (D : Desc) (f : Fsm) (acts : List Nested) : ∀ s : St,
    Calm s (applyNested D f false s acts) ∧ LenMem s (applyNested D f false s acts) := by
  induction acts with
  | nil => intro s; exact ⟨.refl s, .refl s⟩
  | cons a r ih =>
    intro s
    have fr := applyNested_frame D f false (a :: r) s
    have ps := applyNested_noedit_pos D f (a :: r) s
    have bf := applyNested_noedit_buf D f (a :: r) s
    refine ⟨⟨fr.1, fr.2.1, ps, ⟨bf.1, bf.2.1⟩⟩, ?_⟩
    cases a with
    | trigger c t =>
      simp only [applyNested, withMutex]
      split <;> exact LenMem.trans (LenMem.of_same (by simp)) (ih _).2
    | holdExit st =>
      simp only [applyNested, withMutex]
      split <;> exact LenMem.trans (LenMem.of_same (by simp)) (ih _).2
    | poke slot off bs =>
      simp only [applyNested]
      split
      · rename_i h
        exact LenMem.trans (poke_len s slot off bs h) (ih _).2
      · exact (ih _).2
    | edit bs => simpa [applyNested] using (ih s).2
    | report n => simpa [applyNested] using (ih s).2

theorem varReadCb_calm (D : Desc) (s : St) (f : Fsm) (v : VarD) (i : SvcIn) :
    Calm s (varReadCb D s f v i).1 ∧ LenMem s (varReadCb D s f v i).1 := by
  unfold varReadCb
  simp only
  split
  · have := applyNested_calm_len D f (match f with | .cmd => i.vc | .uns => i.vu).acts
      (s.emit (.varcb f ((s.cmdOf f).getD 0) (s.idx f) false 0 (match f with | .cmd => i.vc | .uns => i.vu).ret))
    exact ⟨(Calm.emit s _).trans this.1, LenMem.trans (LenMem.of_same rfl) this.2⟩
  · exact ⟨.refl s, .refl s⟩

theorem setIdx_calmish (s : St) (f : Fsm) (n : Nat) :
    (s.setIdx f n).ph f = s.ph f ∧ (s.setIdx f n).pos f = s.pos f ∧ SameBuf s (s.setIdx f n) ∧ (s.setIdx f n).oob = s.oob ∧
    (s.setIdx f n).cmdOf f = s.cmdOf f ∧ (s.setIdx f n).idx f = n := by
  cases f <;> simp [St.setIdx, St.ph, St.pos, St.cmdOf, St.idx]

theorem setB_ph (D : Desc) (s : St) (f g : Fsm) (i v : Nat) : (setB D s f i v).ph g = s.ph g := by
  have := (setB_ctl D s f i v).1
  cases g
  · simp only [St.ph]; rw [this.1.2.2.2.2.2.2.2.1]
  · simp only [St.ph]; rw [this.2.1.1]

theorem setPos_ph (s : St) (f g : Fsm) (n : Nat) : (s.setPos f n).ph g = s.ph g := by
  cases f <;> cases g <;> rfl

/-- `next_format_var`: more variables (separator stored inside the region, or the line is refused),
or none (only the variable cursor moved) -/
theorem nextFormatVar_oob {D : Desc} (hd : DescOk D) (s : St) (f : Fsm) (hph : s.ph f = .other) :
    (nextFormatVar D s f).1.oob = s.oob ∧
    ((nextFormatVar D s f).2 = true → OobF D (nextFormatVar D s f).1 f) ∧
    ((nextFormatVar D s f).2 = false → (nextFormatVar D s f).1 = s.setIdx f (s.idx f + 1)) := by
  unfold nextFormatVar
  simp only
  have si := setIdx_calmish s f (s.idx f + 1)
  generalize s.setIdx f (s.idx f + 1) = t at si
  generalize D.cmdD (s.cmdOf f) = c
  split
  · split
    · have := endError_oobStep hd t f
      exact ⟨this.1.trans si.2.2.2.1, fun _ => this.2, fun h => Bool.noConfusion h⟩
    · rename_i hlt
      have hlt' : t.pos f < D.capOf f := by omega
      have sb := (setB_fault D t f (t.pos f) 44).1 hlt'
      refine ⟨?_, fun _ => .other ?_, fun h => Bool.noConfusion h⟩
      · simp only [setPos_frame]; exact sb.1.trans si.2.2.2.1
      · rw [setPos_ph, setB_ph, si.1]; exact hph
  · exact ⟨si.2.2.2.1, fun h => Bool.noConfusion h, fun _ => rfl⟩

theorem formatVar_calmish (D : Desc) (s : St) (f : Fsm) (v : VarD) :
    (formatVar D s f v).1.ph f = s.ph f ∧ (formatVar D s f v).1.idx f = s.idx f ∧ (formatVar D s f v).1.cmdOf f = s.cmdOf f ∧
    SameMem s (formatVar D s f v).1 ∧ SameR s (formatVar D s f v).1 := by
  have h : SameCtlNP s (formatVar D s f v).1 ∧ SameMem s (formatVar D s f v).1 := by
    unfold formatVar; split <;> simp
  obtain ⟨⟨c, u, _, r⟩, m⟩ := h
  refine ⟨?_, ?_, ?_, m, r⟩
  · cases f
    · simp only [St.ph]; rw [c.2.2.2.2.2.2.2.1]
    · simp only [St.ph]; rw [u.1]
  · cases f
    · exact c.1
    · exact u.2.1
  · cases f
    · exact c.2.2.2.2.1
    · exact u.2.2.1

theorem formatReadArgs_oob {D : Desc} (hd : DescOk D) (s : St) (f : Fsm) (i : SvcIn) (hph : s.ph f = .other)
    (hp : s.pos f ≤ D.capOf f) (hv : s.idx f < (D.cmdD (s.cmdOf f)).varNum) (hr : RingInv D s) (hm : MemOk D s) :
    OobStep D f s (formatReadArgs D s f i).1 := by
  unfold formatReadArgs
  simp only
  generalize hs0 : (s.chkUb (s.cmdOf f).isSome).chkUb _ = s0
  have c0 : Calm s s0 := by rw [← hs0]; exact (Calm.chkUb s _).trans (Calm.chkUb _ _)
  have o0 : s0.oob = s.oob := by rw [← hs0, chkUb_oob, chkUb_oob]
  have m0 : s0.mem = s.mem := by rw [← hs0]; simp
  have r0 : RingInv D s0 := hr.congr (by rw [← hs0]; simp)
  have e1 : (s.chkUb (s.cmdOf f).isSome).cmdOf f = s.cmdOf f := (Calm.chkUb s _).cmdOf f
  rw [e1, c0.idx f]
  generalize hc : D.cmdD (s.cmdOf f) = c at hv
  have hmem := varAt_mem c (s.idx f) hv
  generalize c.varAt (s.idx f) = v at hmem
  have hvok : VarOk v := hd.vars (s.cmdOf f) v (by rw [hc]; exact hmem)
  have hsz : v.dataSize ≤ (s.slotGet v.slot).length := hm (s.cmdOf f) v (by rw [hc]; exact hmem)
  have cb := varReadCb_calm D s0 f v i
  have cbo := varReadCb_oob D s0 f v i r0
  generalize varReadCb D s0 f v i = r1 at cb cbo
  obtain ⟨s1, fail⟩ := r1
  simp only at cb cbo
  have o1 : s1.oob = s.oob := cbo.trans o0
  cases fail
  · simp only [Bool.false_eq_true, if_false]
    have c1 : Calm s s1 := c0.trans cb.1
    have p1 : s1.pos f ≤ D.capOf f := by rw [c1.pos f]; exact hp
    have sz1 : v.dataSize ≤ (s1.slotGet v.slot).length := by
      rw [cb.2, show (s0.slotGet v.slot) = s.slotGet v.slot by simp [St.slotGet, m0]]; exact hsz
    have fo := formatVar_oob D s1 f v p1 sz1
    have fn := formatVar_nul D s1 f v p1 hvok
    have fp := (formatVar_posUb D s1 f v p1).2
    have fc := formatVar_calmish D s1 f v
    generalize formatVar D s1 f v = r2 at fo fn fp fc
    obtain ⟨s2, ok⟩ := r2
    simp only at fo fn fp fc
    have o2 : s2.oob = s.oob := fo.trans o1
    cases ok
    · exact (endError_oobStep hd s2 f).of_eq o2
    · simp only [Bool.not_true, Bool.false_eq_true, if_false]
      have ph2 : s2.ph f = .other := by rw [fc.1, c1.ph f]; exact hph
      have nx := nextFormatVar_oob hd s2 f ph2
      generalize nextFormatVar D s2 f = r3 at nx
      obtain ⟨s3, more⟩ := r3
      simp only at nx
      cases more
      · simp only [Bool.false_eq_true, if_false]
        have e3 := nx.2.2 rfl
        have si := setIdx_calmish s2 f (s2.idx f + 1)
        rw [← e3] at si
        have n3 : NulAt D s3 f := (fn rfl).congr si.2.2.1 si.2.1
        split
        · exact (setStateRL_oob s3 f n3).of_eq (nx.1.trans o2)
        · exact (startFlush_oobF D s3 f .ok n3.hasNul).of_eq (nx.1.trans o2)
      · exact ⟨nx.1.trans o2, nx.2.1 rfl⟩
  · exact (endError_oobStep hd s1 f).of_eq o1

theorem formatInfoType_calmish (D : Desc) (s : St) (f : Fsm) (v : VarD) (hp : s.pos f ≤ D.capOf f) :
    (formatInfoType D s f v).1.ph f = s.ph f ∧ (formatInfoType D s f v).1.oob = s.oob ∧
    (formatInfoType D s f v).1.pos f ≤ D.capOf f := by
  have h := (formatInfoType_frame D s f v).1
  obtain ⟨c, u, _, _⟩ := h
  refine ⟨?_, ?_, (formatInfoType_posUb D s f v hp).2⟩
  · cases f
    · simp only [St.ph]; rw [c.2.2.2.2.2.2.2.1]
    · simp only [St.ph]; rw [u.1]
  · unfold formatInfoType
    split
    · rfl
    · exact (printAll_nofault D f _ s hp).1.1

theorem formatTestArgs_oob {D : Desc} (hd : DescOk D) (s : St) (f : Fsm) (hph : s.ph f = .other)
    (hp : s.pos f ≤ D.capOf f) : OobStep D f s (formatTestArgs D s f).1 := by
  unfold formatTestArgs
  simp only
  generalize hs0 : (s.chkUb (s.cmdOf f).isSome).chkUb _ = s0
  have c0 : Calm s s0 := by rw [← hs0]; exact (Calm.chkUb s _).trans (Calm.chkUb _ _)
  have o0 : s0.oob = s.oob := by rw [← hs0, chkUb_oob, chkUb_oob]
  have p0 : s0.pos f ≤ D.capOf f := by rw [c0.pos f]; exact hp
  generalize (D.cmdD _).varAt _ = v
  have fi := formatInfoType_calmish D s0 f v p0
  have fn := formatInfoType_nul D s0 f v p0
  generalize formatInfoType D s0 f v = r1 at fi fn
  obtain ⟨s1, ok⟩ := r1
  simp only at fi fn
  have o1 : s1.oob = s.oob := fi.2.1.trans o0
  cases ok
  · exact (endError_oobStep hd s1 f).of_eq o1
  · simp only [Bool.not_true, Bool.false_eq_true, if_false]
    have ph1 : s1.ph f = .other := by rw [fi.1, c0.ph f]; exact hph
    have nx := nextFormatVar_oob hd s1 f ph1
    generalize nextFormatVar D s1 f = r2 at nx
    obtain ⟨s2, more⟩ := r2
    simp only at nx
    cases more
    · simp only [Bool.false_eq_true, if_false]
      have e2 := nx.2.2 rfl
      have si := setIdx_calmish s1 f (s1.idx f + 1)
      rw [← e2] at si
      have n2 : NulAt D s2 f := (fn rfl).congr si.2.2.1 si.2.1
      have p2 : s2.pos f ≤ D.capOf f := by rw [si.2.1]; exact fi.2.2
      have pr := printResponseTest_oob s2 f p2 n2
      generalize printResponseTest D s2 f = r3 at pr
      obtain ⟨s3, ok3⟩ := r3
      simp only at pr
      cases ok3
      · exact (endError_oobStep hd s3 f).of_eq (pr.1.trans (nx.1.trans o1))
      · exact ⟨pr.1.trans (nx.1.trans o1), pr.2 rfl⟩
    · exact ⟨nx.1.trans o1, nx.2.1 rfl⟩

/-! ### handler loops -/

theorem Calm.wsrc {s s' : St} (h : Calm s s') (f : Fsm) : s'.wsrc f = s.wsrc f ∧ s'.wst f = s.wst f := by
  cases f
  · exact ⟨h.c.2.2.2.2.2.2.2.2.2.1, h.c.2.2.2.2.2.2.2.2.2.2.1⟩
  · exact ⟨h.u.2.2.2.2.1, h.u.2.2.2.2.2.1⟩

theorem Calm.oobF {D : Desc} {s s' : St} {f : Fsm} (h : Calm s s') (o : OobF D s f) : OobF D s' f := by
  have e1 := h.ph f
  have e2 := h.pos f
  have e3 := h.wsrc f
  refine ⟨?_, ?_, ?_, ?_, ?_, fun a => by rw [e3.2]; exact o.wsle (e1 ▸ a)⟩
  · intro a b; rw [e2]; exact (o.main (e1 ▸ a) (e3.1 ▸ b)).congr h.b
  · intro a off b; rw [e2]; exact o.nl (e1 ▸ a) off (e3.1 ▸ b)
  · intro a b; exact (o.first (e1 ▸ a) (e3.2 ▸ b)).congr h.b
  · intro a; exact (o.loop (e1 ▸ a)).congr h.b
  · intro a
    have w : s.waiting f := by
      cases f
      · simp only [St.waiting] at a ⊢; rw [← h.c.2.2.2.2.2.2.2.1]; exact a
      · simp only [St.waiting] at a ⊢; rw [← h.u.1]; exact a
    have := o.wait w
    exact ⟨by rw [e2]; exact this.pos, by rw [e3.1, e3.2]; exact this.src⟩

theorem applyNested_ph (D : Desc) (f : Fsm) (e : Bool) (acts : List Nested) (s : St) (g : Fsm) :
    (applyNested D f e s acts).ph g = s.ph g := by
  have := applyNested_frame D f e acts s
  cases g
  · simp only [St.ph]; rw [this.1.2.2.2.2.2.2.2.1]
  · simp only [St.ph]; rw [this.2.1.1]

theorem applyNested_hasNul (D : Desc) (f : Fsm) (e : Bool) (acts : List Nested) : ∀ s : St, HasNul D s f 0 →
    HasNul D (applyNested D f e s acts) f 0 := by
  induction acts with
  | nil => intro s h; exact h
  | cons a r ih =>
    intro s h
    cases a with
    | trigger c t =>
      simp only [applyNested, withMutex]
      split <;> (apply ih; exact h.congr (by simp))
    | holdExit st =>
      simp only [applyNested, withMutex]
      split <;> (apply ih; exact h.congr (by simp [holdExit]; split <;> simp))
    | poke slot off bs =>
      simp only [applyNested]
      split
      · apply ih; exact h.congr (by simp)
      · exact ih _ h
    | edit bs =>
      simp only [applyNested]
      split
      · rename_i hc
        simp only [Bool.and_eq_true, decide_eq_true_eq] at hc
        apply ih
        refine ⟨bs.length, Nat.zero_le _, hc.2, ?_⟩
        rw [getB_congr D f _ (setPos_frame _ f _).2.2.1]
        have := getB_writeB_zero D f (bs ++ [0]) s 0 bs.length (by simp) (by simp; omega)
        simpa using this
      · exact ih _ h
    | report n =>
      simp only [applyNested]
      split
      · apply ih; exact h.congr (setPos_frame _ f _).2.2.1
      · exact ih _ h

/-- calls that occur in the return-code tables of machine `f` -/
def LoopCall : Fsm → Call → Prop
  | .cmd, c => c ≠ .startFlush .reset ∧ c ≠ .startFlush .printCmd
  | .uns, c => UnsCallQ c

theorem holdExit_calm (s : St) (st : Int) : Calm s (holdExit s st).1 := by
  unfold holdExit; split
  · exact .refl s
  · exact ⟨by simp, by simp, by simp, by simp⟩

theorem enableHoldState_oob {D : Desc} (t : St) (f : Fsm) (hn : HasNul D t f 0) (hph : t.ph f = .loop) :
    OobStep D f t (enableHoldState t) := by
  cases f
  · exact ⟨rfl, .other (by simp [enableHoldState, St.ph, CState.ph])⟩
  · exact ⟨rfl, .ofLoop (by simpa [enableHoldState, St.ph] using hph) (hn.congr (by simp))⟩

theorem doCall_oob {D : Desc} (hd : DescOk D) (t : St) (f : Fsm) (c : Call) (hn : HasNul D t f 0) (hph : t.ph f = .loop)
    (hq : LoopCall f c) : OobStep D f t (doCall D f t c) := by
  cases c with
  | ackOk =>
    cases f
    · exact ackOk_oobStep hd t
    · exact absurd hq (by simp [LoopCall, UnsCallQ])
  | ackError =>
    cases f
    · exact ackError_oobStep hd t
    · exact absurd hq (by simp [LoopCall, UnsCallQ])
  | enableHold => exact enableHoldState_oob t f hn hph
  | startPrintCmdList =>
    cases f
    · simp only [doCall, startPrintCmdList]
      split
      · exact ackOk_oobStep hd t
      · exact ⟨rfl, .other (by simp [St.ph, CState.ph])⟩
    · exact absurd hq (by simp [LoopCall, UnsCallQ])
  | endOk => exact endOk_oobStep hd t f
  | endError => exact endError_oobStep hd t f
  | startFlush a => exact startFlush_oobF D t f a hn
  | startFormatRead => exact startFormatRead_oob hd t f
  | startFormatTest => exact startFormatTest_oob hd t f
  | holdExit ok =>
    simp only [doCall]
    have c := holdExit_calm t (if ok then Gen.CAT_STATUS_OK else Gen.CAT_STATUS_ERROR)
    exact ⟨holdExit_oob t _, c.oobF (.ofLoop hph hn)⟩

theorem doCalls_arm_oob {D : Desc} (hd : DescOk D) (t : St) (f : Fsm) (hn : HasNul D t f 0) (hph : t.ph f = .loop) :
    OobStep D f t (doCalls D f t []) ∧
    (∀ c, LoopCall f c → OobStep D f t (doCalls D f t [c])) ∧
    (∀ ok c, LoopCall f c → OobStep D f t (doCalls D f t [.holdExit ok, c])) := by
  refine ⟨⟨rfl, .ofLoop hph hn⟩, fun c hc => doCall_oob hd t f c hn hph hc, fun ok c hc => ?_⟩
  simp only [doCalls, doCall]
  have cm := holdExit_calm t (if ok then Gen.CAT_STATUS_OK else Gen.CAT_STATUS_ERROR)
  have := doCall_oob hd (holdExit t (if ok then Gen.CAT_STATUS_OK else Gen.CAT_STATUS_ERROR)).1 f c (hn.congr cm.b) (by rw [cm.ph f]; exact hph) hc
  exact this.of_eq (holdExit_oob t _)

theorem tables_oob {D : Desc} (hd : DescOk D) (t : St) (f : Fsm) (ret : Int) (hn : HasNul D t f 0) (hph : t.ph f = .loop) :
    OobStep D f t (doCalls D f t (Gen.process_read_loop ret f)) ∧ OobStep D f t (doCalls D f t (Gen.process_test_loop ret f)) := by
  obtain ⟨h0, h1, h2⟩ := doCalls_arm_oob hd t f hn hph
  constructor
  · unfold Gen.process_read_loop
    cases f <;> (repeat' split) <;> first | (exfalso; rename_i hq; exact Fsm.noConfusion hq) | exact h0 | exact h2 _ _ (by simp [LoopCall, UnsCallQ]) | exact h1 _ (by simp [LoopCall, UnsCallQ])
  · unfold Gen.process_test_loop
    cases f <;> (repeat' split) <;> first | (exfalso; rename_i hq; exact Fsm.noConfusion hq) | exact h0 | exact h2 _ _ (by simp [LoopCall, UnsCallQ]) | exact h1 _ (by simp [LoopCall, UnsCallQ])

theorem loop_core_oob {D : Desc} (hd : DescOk D) (s : St) (f : Fsm) (ans : HAnswer) (ev : Ev) (hph : s.ph f = .loop)
    (hn : HasNul D s f 0) (hr : RingInv D s) :
    OobStep D f s (doCalls D f (applyNested D f true (s.emit ev) ans.acts) (Gen.process_read_loop ans.ret f)) ∧
    OobStep D f s (doCalls D f (applyNested D f true (s.emit ev) ans.acts) (Gen.process_test_loop ans.ret f)) := by
  have c1 : Calm s (s.emit ev) := Calm.emit s ev
  have r1 : RingInv D (s.emit ev) := hr.congr (by simp)
  have n2 := applyNested_hasNul D f true ans.acts (s.emit ev) (hn.congr c1.b)
  have p2 : (applyNested D f true (s.emit ev) ans.acts).ph f = .loop := by rw [applyNested_ph, c1.ph f]; exact hph
  have o2 := applyNested_oob D f true ans.acts (s.emit ev) r1
  have t := tables_oob hd _ f ans.ret n2 p2
  exact ⟨t.1.of_eq o2, t.2.of_eq o2⟩

theorem processReadLoop_oob {D : Desc} (hd : DescOk D) (s : St) (f : Fsm) (i : SvcIn) (hph : s.ph f = .loop)
    (hn : HasNul D s f 0) (hr : RingInv D s) : OobStep D f s (processReadLoop D s f i).1 := by
  have c0 : Calm s (s.chkUb (s.cmdOf f).isSome) := Calm.chkUb s _
  have o0 : (s.chkUb (s.cmdOf f).isSome).oob = s.oob := chkUb_oob s _
  have r0 : RingInv D (s.chkUb (s.cmdOf f).isSome) := hr.congr (by simp)
  unfold processReadLoop
  cases f
  · exact (loop_core_oob hd _ .cmd i.hc _ (by rw [c0.ph]; exact hph) (hn.congr c0.b) r0).1.of_eq o0
  · exact (loop_core_oob hd _ .uns i.hu _ (by rw [c0.ph]; exact hph) (hn.congr c0.b) r0).1.of_eq o0

theorem processTestLoop_oob {D : Desc} (hd : DescOk D) (s : St) (f : Fsm) (i : SvcIn) (hph : s.ph f = .loop)
    (hn : HasNul D s f 0) (hr : RingInv D s) : OobStep D f s (processTestLoop D s f i).1 := by
  have c0 : Calm s (s.chkUb (s.cmdOf f).isSome) := Calm.chkUb s _
  have o0 : (s.chkUb (s.cmdOf f).isSome).oob = s.oob := chkUb_oob s _
  have r0 : RingInv D (s.chkUb (s.cmdOf f).isSome) := hr.congr (by simp)
  unfold processTestLoop
  cases f
  · exact (loop_core_oob hd _ .cmd i.hc _ (by rw [c0.ph]; exact hph) (hn.congr c0.b) r0).2.of_eq o0
  · exact (loop_core_oob hd _ .uns i.hu _ (by rw [c0.ph]; exact hph) (hn.congr c0.b) r0).2.of_eq o0

/-! ### emitting a unit: the output cursor stays inside the text -/

theorem nl_get_ne (off p : Nat) (h : ([13, 10, 0] : List Byte).getD (off + p) 0 ≠ 0) : off + p ≤ 1 := by
  by_cases h2 : off + p ≤ 1
  · exact h2
  · exfalso; apply h
    by_cases h3 : off + p = 2
    · rw [h3]; rfl
    · simp [List.getD, List.getElem?_eq_none (show ([13, 10, 0] : List Byte).length ≤ off + p by simp; omega)]

theorem HasNul.succ {D : Desc} {s : St} {f : Fsm} {p : Nat} (h : HasNul D s f p) (hne : getB D s f p ≠ 0) : HasNul D s f (p + 1) := by
  obtain ⟨n, a, b, c⟩ := h
  refine ⟨n, ?_, b, c⟩
  by_cases e : n = p
  · subst e; exact absurd c hne
  · omega

theorem HasNul.lt {D : Desc} {s : St} {f : Fsm} {p : Nat} (h : HasNul D s f p) : p < D.capOf f := by
  obtain ⟨n, a, b, _⟩ := h; omega

theorem processIoWrite_oob {D : Desc} (s : St) (i : SvcIn) (hs : s.state = .flushWrite) (o : OobF D s .cmd) :
    OobStep D .cmd s (processIoWrite D s i).1 := by
  have hph : s.ph .cmd = .flush := by simp [St.ph, hs, CState.ph]
  have omain := o.main hph
  have onl := o.nl hph
  have ofirst := o.first hph
  have owsle := o.wsle hph
  simp only [St.wsrc, St.pos, St.wst] at omain onl ofirst owsle
  unfold processIoWrite writeByte
  simp only
  cases hsrc : s.writeSrc with
  | nl off =>
    have hb := onl off hsrc
    simp only [hb, decide_true, chk_true]
    split
    · split
      · rename_i h0
        have h0' : s.writeState = 0 := by simpa using h0
        refine ⟨rfl, ⟨fun _ _ => ?_, fun _ off h => by simp [St.wsrc] at h, fun _ h => by simp [St.wst] at h, fun h => by simp [St.ph, hs, CState.ph] at h, fun h => by simp [St.waiting, hs] at h, fun _ => by simp only [St.wst, St.emit]; omega⟩⟩
        exact (ofirst h0').congr (by simp)
      · split
        · refine ⟨rfl, ⟨fun _ h => by simp [St.wsrc] at h, fun _ off h => ?_, fun _ h => by simp [St.wst] at h, fun h => by simp [St.ph, hs, CState.ph] at h, fun h => by simp [St.waiting, hs] at h, fun _ => by simp only [St.wst, St.emit]; omega⟩⟩
          simp only [St.wsrc, WSrc.nl.injEq] at h
          subst h; simp only [St.pos, nlOff]; split <;> omega
        · split
          · refine ⟨rfl, .other ?_⟩
            simp only [St.ph, St.emit]
            cases s.writeStateAfter <;> rfl
          · exact ⟨rfl, o⟩
    · rename_i hne
      have hne' : ([13, 10, 0] : List Byte).getD (off + s.position) 0 ≠ 0 := by simpa using hne
      have h1 := nl_get_ne off s.position hne'
      split
      · exact ⟨rfl, (Calm.emit s _).oobF o⟩
      · refine ⟨rfl, ⟨fun _ h => by simp [St.wsrc, St.emit, hsrc] at h, fun _ off' h => ?_, fun _ h => ?_, fun h => by simp [St.ph, St.emit, hs, CState.ph] at h, fun h => by simp [St.waiting, St.emit, hs] at h, fun _ => by simp only [St.wst, St.emit]; omega⟩⟩
        · simp only [St.wsrc, St.emit, hsrc, WSrc.nl.injEq] at h
          subst h; simp only [St.pos, St.emit]; omega
        · simp only [St.wst, St.emit] at h
          exact (ofirst h).congr (by simp)
  | main =>
    have hn := omain hsrc
    have hlt : s.position < D.capOf .cmd := hn.lt
    simp only [hlt, decide_true, chk_true]
    split
    · split
      · rename_i h0
        have h0' : s.writeState = 0 := by simpa using h0
        refine ⟨rfl, ⟨fun _ _ => ?_, fun _ off h => by simp [St.wsrc] at h, fun _ h => by simp [St.wst] at h, fun h => by simp [St.ph, hs, CState.ph] at h, fun h => by simp [St.waiting, hs] at h, fun _ => by simp only [St.wst, St.emit]; omega⟩⟩
        exact (ofirst h0').congr (by simp)
      · split
        · refine ⟨rfl, ⟨fun _ h => by simp [St.wsrc] at h, fun _ off h => ?_, fun _ h => by simp [St.wst] at h, fun h => by simp [St.ph, hs, CState.ph] at h, fun h => by simp [St.waiting, hs] at h, fun _ => by simp only [St.wst, St.emit]; omega⟩⟩
          simp only [St.wsrc, WSrc.nl.injEq] at h
          subst h; simp only [St.pos, nlOff]; split <;> omega
        · split
          · refine ⟨rfl, .other ?_⟩
            simp only [St.ph, St.emit]
            cases s.writeStateAfter <;> rfl
          · exact ⟨rfl, o⟩
    · rename_i hne
      have hne' : getB D s .cmd s.position ≠ 0 := by simpa using hne
      split
      · exact ⟨rfl, (Calm.emit s _).oobF o⟩
      · refine ⟨rfl, ⟨fun _ _ => ?_, fun _ off' h => by simp [St.wsrc, St.emit, hsrc] at h, fun _ h => ?_, fun h => by simp [St.ph, St.emit, hs, CState.ph] at h, fun h => by simp [St.waiting, St.emit, hs] at h, fun _ => by simp only [St.wst, St.emit]; omega⟩⟩
        · simp only [St.pos, St.emit]
          exact (hn.succ hne').congr (by simp [St.emit])
        · simp only [St.wst, St.emit] at h
          exact (ofirst h).congr (by simp)

theorem unsolicitedProcessIoWrite_oob {D : Desc} (s : St) (i : SvcIn) (hs : s.ustate = .flushWrite) (o : OobF D s .uns) :
    OobStep D .uns s (unsolicitedProcessIoWrite D s i).1 := by
  have hph : s.ph .uns = .flush := by simp [St.ph, hs, UState.ph]
  have omain := o.main hph
  have onl := o.nl hph
  have ofirst := o.first hph
  have owsle := o.wsle hph
  simp only [St.wsrc, St.pos, St.wst] at omain onl ofirst owsle
  unfold unsolicitedProcessIoWrite writeByte
  simp only
  cases hsrc : s.uwriteSrc with
  | nl off =>
    have hb := onl off hsrc
    simp only [hb, decide_true, chk_true]
    split
    · split
      · rename_i h0
        have h0' : s.uwriteState = 0 := by simpa using h0
        refine ⟨rfl, ⟨fun _ _ => ?_, fun _ off h => by simp [St.wsrc] at h, fun _ h => by simp [St.wst] at h, fun h => by simp [St.ph, hs, UState.ph] at h, fun h => by simp [St.waiting, hs] at h, fun _ => by simp only [St.wst, St.emit]; omega⟩⟩
        exact (ofirst h0').congr (by simp)
      · split
        · refine ⟨rfl, ⟨fun _ h => by simp [St.wsrc] at h, fun _ off h => ?_, fun _ h => by simp [St.wst] at h, fun h => by simp [St.ph, hs, UState.ph] at h, fun h => by simp [St.waiting, hs] at h, fun _ => by simp only [St.wst, St.emit]; omega⟩⟩
          simp only [St.wsrc, WSrc.nl.injEq] at h
          subst h; simp only [St.pos, nlOff]; split <;> omega
        · split
          · refine ⟨rfl, .other ?_⟩
            simp only [St.ph, St.emit]
            cases s.uwriteStateAfter <;> rfl
          · exact ⟨rfl, o⟩
    · rename_i hne
      have hne' : ([13, 10, 0] : List Byte).getD (off + s.uposition) 0 ≠ 0 := by simpa using hne
      have h1 := nl_get_ne off s.uposition hne'
      split
      · exact ⟨rfl, (Calm.emit s _).oobF o⟩
      · refine ⟨rfl, ⟨fun _ h => by simp [St.wsrc, St.emit, hsrc] at h, fun _ off' h => ?_, fun _ h => ?_, fun h => by simp [St.ph, St.emit, hs, UState.ph] at h, fun h => by simp [St.waiting, St.emit, hs] at h, fun _ => by simp only [St.wst, St.emit]; omega⟩⟩
        · simp only [St.wsrc, St.emit, hsrc, WSrc.nl.injEq] at h
          subst h; simp only [St.pos, St.emit]; omega
        · simp only [St.wst, St.emit] at h
          exact (ofirst h).congr (by simp)
  | main =>
    have hn := omain hsrc
    have hlt : s.uposition < D.capOf .uns := hn.lt
    simp only [hlt, decide_true, chk_true]
    split
    · split
      · rename_i h0
        have h0' : s.uwriteState = 0 := by simpa using h0
        refine ⟨rfl, ⟨fun _ _ => ?_, fun _ off h => by simp [St.wsrc] at h, fun _ h => by simp [St.wst] at h, fun h => by simp [St.ph, hs, UState.ph] at h, fun h => by simp [St.waiting, hs] at h, fun _ => by simp only [St.wst, St.emit]; omega⟩⟩
        exact (ofirst h0').congr (by simp)
      · split
        · refine ⟨rfl, ⟨fun _ h => by simp [St.wsrc] at h, fun _ off h => ?_, fun _ h => by simp [St.wst] at h, fun h => by simp [St.ph, hs, UState.ph] at h, fun h => by simp [St.waiting, hs] at h, fun _ => by simp only [St.wst, St.emit]; omega⟩⟩
          simp only [St.wsrc, WSrc.nl.injEq] at h
          subst h; simp only [St.pos, nlOff]; split <;> omega
        · split
          · refine ⟨rfl, .other ?_⟩
            simp only [St.ph, St.emit]
            cases s.uwriteStateAfter <;> rfl
          · exact ⟨rfl, o⟩
    · rename_i hne
      have hne' : getB D s .uns s.uposition ≠ 0 := by simpa using hne
      split
      · exact ⟨rfl, (Calm.emit s _).oobF o⟩
      · refine ⟨rfl, ⟨fun _ _ => ?_, fun _ off' h => by simp [St.wsrc, St.emit, hsrc] at h, fun _ h => ?_, fun h => by simp [St.ph, St.emit, hs, UState.ph] at h, fun h => by simp [St.waiting, St.emit, hs] at h, fun _ => by simp only [St.wst, St.emit]; omega⟩⟩
        · simp only [St.pos, St.emit]
          exact (hn.succ hne').congr (by simp [St.emit])
        · simp only [St.wst, St.emit] at h
          exact (ofirst h).congr (by simp)

/-! ### the command machine, state by state -/

theorem OobF.congr {D : Desc} {s s' : St} {f : Fsm} (hph : s'.ph f = s.ph f) (hsrc : s'.wsrc f = s.wsrc f) (hwst : s'.wst f = s.wst f)
    (hpos : s'.pos f = s.pos f) (hb : SameBuf s s') (hw : s'.waiting f → s.waiting f) (o : OobF D s f) : OobF D s' f := by
  refine ⟨?_, ?_, ?_, ?_, fun a => ⟨by rw [hpos]; exact (o.wait (hw a)).pos, by rw [hsrc, hwst]; exact (o.wait (hw a)).src⟩, fun a => by rw [hwst]; exact o.wsle (hph ▸ a)⟩
  · intro a b; rw [hpos]; exact (o.main (hph ▸ a) (hsrc ▸ b)).congr hb
  · intro a off b; rw [hpos]; exact o.nl (hph ▸ a) off (hsrc ▸ b)
  · intro a b; exact (o.first (hph ▸ a) (hwst ▸ b)).congr hb
  · intro a; exact (o.loop (hph ▸ a)).congr hb

/-- `OobStep` for a result that is in a phase without obligations -/
theorem OobStep.plain {D : Desc} {s s' : St} (ho : s'.oob = s.oob) (h : s'.state.ph = .other) : OobStep D .cmd s s' :=
  ⟨ho, .other (by simpa [St.ph] using h)⟩

macro "rdstep" hd:term "," hs:term : tactic =>
  `(tactic| ((repeat' split) <;> first
      | exact (ackError_oobStep $hd _).of_eq rfl
      | exact (ackOk_oobStep $hd _).of_eq rfl
      | exact OobStep.plain rfl (by simp [St.emit, $hs:term, CState.ph, prepareSearchCommand])))

theorem errorState_oob {D : Desc} (hd : DescOk D) (s : St) (i : SvcIn) (hs : s.state = .error) : OobStep D .cmd s (errorState D s i).1 := by
  unfold errorState readCmdChar
  cases hr : i.rd with
  | none => exact OobStep.plain rfl (by simp [St.emit, hs, CState.ph])
  | some b => simp only; rdstep hd, hs

theorem processIdleState_oob {D : Desc} (hd : DescOk D) (s : St) (i : SvcIn) (hs : s.state = .idle) : OobStep D .cmd s (processIdleState s i).1 := by
  unfold processIdleState readCmdChar
  cases hr : i.rd with
  | none => exact OobStep.plain rfl (by simp [St.emit, hs, CState.ph])
  | some b => simp only; rdstep hd, hs

theorem prepareParseCommand_oob (D : Desc) (s : St) : (prepareParseCommand D s).oob = s.oob := by
  unfold prepareParseCommand
  exact (writeB_nofault D .cmd _ s 0 (by simp [Desc.capOf])).1

theorem parsePrefix_oob {D : Desc} (hd : DescOk D) (s : St) (i : SvcIn) (hs : s.state = .parsePrefix) : OobStep D .cmd s (parsePrefix D s i).1 := by
  unfold parsePrefix readCmdChar
  cases hr : i.rd with
  | none => exact OobStep.plain rfl (by simp [St.emit, hs, CState.ph])
  | some b =>
    simp only
    (repeat' split) <;> first
      | exact (ackError_oobStep hd _).of_eq rfl
      | exact OobStep.plain rfl (by simp [St.emit, hs, CState.ph])
      | exact OobStep.plain (by simp only []; exact prepareParseCommand_oob D _) (by simp [CState.ph])

theorem parseCommand_oob {D : Desc} (hd : DescOk D) (s : St) (i : SvcIn) (hs : s.state = .parseCommandChar) : OobStep D .cmd s (parseCommand D s i).1 := by
  unfold parseCommand readCmdChar
  cases hr : i.rd with
  | none => exact OobStep.plain rfl (by simp [St.emit, hs, CState.ph])
  | some b => simp only; rdstep hd, hs

theorem waitReadAcknowledge_oob {D : Desc} (hd : DescOk D) (s : St) (i : SvcIn) (hs : s.state = .waitReadAck) : OobStep D .cmd s (waitReadAcknowledge s i).1 := by
  unfold waitReadAcknowledge readCmdChar
  cases hr : i.rd with
  | none => exact OobStep.plain rfl (by simp [St.emit, hs, CState.ph])
  | some b => simp only; rdstep hd, hs

theorem waitTestAcknowledge_oob {D : Desc} (hd : DescOk D) (s : St) (i : SvcIn) (hs : s.state = .waitTestAck) : OobStep D .cmd s (waitTestAcknowledge D s i).1 := by
  unfold waitTestAcknowledge readCmdChar
  cases hr : i.rd with
  | none => exact OobStep.plain rfl (by simp [St.emit, hs, CState.ph])
  | some b =>
    simp only
    (repeat' split) <;> first
      | exact (startFormatTest_oob hd _ .cmd).of_eq rfl
      | exact OobStep.plain rfl (by simp [St.emit, hs, CState.ph])

theorem setB_oob_lt (D : Desc) (s : St) (f : Fsm) (i v : Nat) (h : i < D.capOf f) : (setB D s f i v).oob = s.oob :=
  ((setB_fault D s f i v).1 h).1

theorem lane_lt {D : Desc} (hd : DescOk D) {i : Nat} (h : i < D.commandsNum) : i / 4 < D.cmdCap := by
  have := hd.lanes; omega

theorem getCmdState_oob {D : Desc} (hd : DescOk D) (s : St) (i : Nat) (h : i < D.commandsNum) : (getCmdState D s i).1 = s := by
  unfold getCmdState
  split
  · rfl
  · simp [lane_lt hd h, St.chk]

theorem setCmdState_oob {D : Desc} (hd : DescOk D) (s : St) (i v : Nat) (h : i < D.commandsNum) : (setCmdState D s i v).oob = s.oob := by
  unfold setCmdState
  exact setB_oob_lt D s .cmd _ _ (lane_lt hd h)

theorem ph_of_mem3 {st a b c : CState} (h : st ∈ [a, b, c]) (ha : a.ph = .other) (hb : b.ph = .other) (hc : c.ph = .other) : st.ph = .other := by
  simp at h; rcases h with h | h | h <;> simp [h, ha, hb, hc]

theorem updateCommand_oob {D : Desc} (hd : DescOk D) (s : St) (hs : s.state = .updateCommandState) (hi : s.index < D.commandsNum) :
    OobStep D .cmd s (updateCommand D s).1 := by
  refine OobStep.plain ?_ (ph_of_mem3 (graph_update D s) (by simp [hs, CState.ph]) (by simp [CState.ph]) (by simp [CState.ph]))
  have hl : (updateLane D s).oob = s.oob := by
    unfold updateLane
    simp only [getCmdState_oob hd s s.index hi]
    (repeat' split) <;> first | rfl | exact setCmdState_oob hd s _ _ hi | (simp only []; exact setCmdState_oob hd s _ _ hi)
  simp only [updateCommand, hi, decide_true, chkUb_true, updateAdvance, prepareSearchCommand]
  (repeat' split) <;> exact hl

theorem searchCommand_oob {D : Desc} (hd : DescOk D) (s : St) (hs : s.state = .searchCommand) (hi : s.index < D.commandsNum) :
    OobStep D .cmd s (searchCommand D s).1 := by
  have g := graph_search D s
  refine OobStep.plain ?_ ?_
  · simp only [searchCommand, hi, decide_true, chkUb_true, getCmdState_oob hd s s.index hi, notFoundOrError]
    (repeat' split) <;> rfl
  · simp at g; rcases g with g | g | g | g <;> simp [g, hs, CState.ph]

theorem commandNotFound_oob {D : Desc} (hd : DescOk D) (s : St) : OobStep D .cmd s (commandNotFound D s).1 := ackError_oobStep hd s

theorem processHoldState_oob {D : Desc} (hd : DescOk D) (s : St) (hs : s.state = .hold) : OobStep D .cmd s (processHoldState D s).1 := by
  unfold processHoldState
  simp only []
  (repeat' split) <;> first
    | exact OobStep.plain rfl (by simp [hs, CState.ph])
    | exact (ackError_oobStep hd _).of_eq rfl
    | exact (ackOk_oobStep hd _).of_eq rfl

theorem processIoWriteWait_oob {D : Desc} (s : St) (hs : s.state = .flushWait) (o : OobF D s .cmd) : OobStep D .cmd s (processIoWriteWait s).1 := by
  unfold processIoWriteWait
  split
  · exact ⟨rfl, OobF.congr (s := s) (by simp [St.ph, hs, CState.ph]) rfl rfl rfl (by simp) (fun h => by simp [St.waiting] at h) o⟩
  · exact ⟨rfl, o⟩

theorem unsolicitedProcessIoWriteWait_oob {D : Desc} (s : St) (hs : s.ustate = .flushWait) (o : OobF D s .uns) : OobStep D .uns s (unsolicitedProcessIoWriteWait s).1 := by
  unfold unsolicitedProcessIoWriteWait
  split
  · exact ⟨rfl, OobF.congr (s := s) (by simp [St.ph, hs, UState.ph]) rfl rfl rfl (by simp) (fun h => by simp [St.waiting] at h) o⟩
  · exact ⟨rfl, o⟩

theorem resetState_oob {D : Desc} (s : St) : OobStep D .cmd s ((resetState s).emit .ackDone) := by
  refine OobStep.plain (by unfold resetState; split <;> rfl) ?_
  unfold resetState; split <;> simp [St.emit, CState.ph]

/-- write and run handlers own no response text: every arm of their tables starts from scratch -/
theorem doCall_plain_oob {D : Desc} (hd : DescOk D) (t : St) (c : Call)
    (hc : c = .ackOk ∨ c = .ackError ∨ c = .enableHold ∨ c = .startPrintCmdList) : OobStep D .cmd t (doCall D .cmd t c) := by
  rcases hc with h | h | h | h <;> subst h
  · exact ackOk_oobStep hd t
  · exact ackError_oobStep hd t
  · exact OobStep.plain rfl (by simp [doCall, enableHoldState, CState.ph])
  · simp only [doCall, startPrintCmdList]
    split
    · exact ackOk_oobStep hd t
    · exact OobStep.plain rfl (by simp [CState.ph])

theorem wr_tables_oob {D : Desc} (hd : DescOk D) (t : St) (ret : Int) (hph : t.state.ph = .other) :
    OobStep D .cmd t (doCalls D .cmd t (Gen.process_write_loop ret)) ∧ OobStep D .cmd t (doCalls D .cmd t (Gen.process_run_loop ret)) := by
  have h0 : OobStep D .cmd t (doCalls D .cmd t []) := OobStep.plain rfl hph
  have h1 : ∀ c, (c = .ackOk ∨ c = .ackError ∨ c = .enableHold ∨ c = .startPrintCmdList) → OobStep D .cmd t (doCalls D .cmd t [c]) :=
    fun c hc => doCall_plain_oob hd t c hc
  constructor
  · unfold Gen.process_write_loop
    (repeat' split) <;> first | exact h0 | exact h1 _ (by simp)
  · unfold Gen.process_run_loop
    (repeat' split) <;> first | exact h0 | exact h1 _ (by simp)

theorem applyNested_state (D : Desc) (f : Fsm) (e : Bool) (acts : List Nested) (s : St) :
    (applyNested D f e s acts).state = s.state := (applyNested_frame D f e acts s).1.2.2.2.2.2.2.2.1

theorem processWriteLoop_oob {D : Desc} (hd : DescOk D) (s : St) (i : SvcIn) (hs : s.state = .writeLoop) (hr : RingInv D s) :
    OobStep D .cmd s (processWriteLoop D s i).1 := by
  unfold processWriteLoop
  simp only
  generalize hs0 : s.chkUb s.cmd.isSome = s0
  have c0 : Calm s s0 := by rw [← hs0]; exact Calm.chkUb s _
  have o0 : s0.oob = s.oob := by rw [← hs0, chkUb_oob]
  generalize Ev.handler .cmd .write _ _ _ _ _ _ = ev
  have r1 : RingInv D (s0.emit ev) := hr.congr (by rw [← hs0]; simp)
  have o2 := applyNested_oob D .cmd false i.hc.acts (s0.emit ev) r1
  have st2 : (applyNested D .cmd false (s0.emit ev) i.hc.acts).state.ph = .other := by
    rw [applyNested_state]; simp only [St.emit]; rw [c0.c.2.2.2.2.2.2.2.1, hs]; rfl
  exact (wr_tables_oob hd _ i.hc.ret st2).1.of_eq (o2.trans o0)

theorem processRunLoop_oob {D : Desc} (hd : DescOk D) (s : St) (i : SvcIn) (hs : s.state = .runLoop) (hr : RingInv D s) :
    OobStep D .cmd s (processRunLoop D s i).1 := by
  unfold processRunLoop
  simp only
  generalize hs0 : s.chkUb s.cmd.isSome = s0
  have c0 : Calm s s0 := by rw [← hs0]; exact Calm.chkUb s _
  have o0 : s0.oob = s.oob := by rw [← hs0, chkUb_oob]
  generalize Ev.handler .cmd .run _ _ _ _ _ _ = ev
  have r1 : RingInv D (s0.emit ev) := hr.congr (by rw [← hs0]; simp)
  have o2 := applyNested_oob D .cmd false i.hc.acts (s0.emit ev) r1
  have st2 : (applyNested D .cmd false (s0.emit ev) i.hc.acts).state.ph = .other := by
    rw [applyNested_state]; simp only [St.emit]; rw [c0.c.2.2.2.2.2.2.2.1, hs]; rfl
  exact (wr_tables_oob hd _ i.hc.ret st2).2.of_eq (o2.trans o0)

/-! ### parsing arguments into variables: the read cursor and the stores -/

theorem slotWrite_ok (s : St) (slot : Nat) (bs : List Byte) (h : bs.length ≤ (s.slotGet slot).length) :
    (slotWrite s slot 0 bs).oob = s.oob ∧ LenMem s (slotWrite s slot 0 bs) := by
  have sp := slotWrite_spec slot bs s 0 (by omega)
  refine ⟨sp.2.1, fun k => ?_⟩
  by_cases hk : k = slot
  · subst hk; rw [sp.1]; simp; omega
  · rw [sp.2.2.2.1 k hk]

theorem storeInt_ok (s : St) (v : VarD) (val : Nat) (hsz : v.dataSize ≤ (s.slotGet v.slot).length) :
    (storeInt s v val).oob = s.oob ∧ LenMem s (storeInt s v val) := by
  unfold storeInt
  have c1 : decide (v.dataSize ≤ (s.slotGet v.slot).length) = true := by simpa using hsz
  simp only [c1, chk_true]
  have := slotWrite_ok s v.slot (leBytes v.dataSize val) (by rw [leBytes_length]; exact hsz)
  exact ⟨this.1, fun k => by simpa [St.slotGet] using this.2 k⟩

theorem validateIntRange_ok (s : St) (v : VarD) (neg : Bool) (mag : Nat) (hsz : v.dataSize ≤ (s.slotGet v.slot).length) :
    (validateIntRange s v neg mag).1.oob = s.oob ∧ LenMem s (validateIntRange s v neg mag).1 := by
  unfold validateIntRange
  simp only
  (repeat' split) <;> first | exact ⟨rfl, .refl s⟩ | exact ⟨rfl, LenMem.of_same rfl⟩ | exact storeInt_ok s v _ hsz

theorem validateUIntRange_ok (s : St) (v : VarD) (val : Nat) (hsz : v.dataSize ≤ (s.slotGet v.slot).length) :
    (validateUIntRange s v val).1.oob = s.oob ∧ LenMem s (validateUIntRange s v val).1 := by
  unfold validateUIntRange
  simp only
  (repeat' split) <;> first | exact ⟨rfl, .refl s⟩ | exact ⟨rfl, LenMem.of_same rfl⟩ | exact storeInt_ok s v _ hsz

theorem validate_frames (s : St) (v : VarD) :
    (∀ neg mag, SameBuf s (validateIntRange s v neg mag).1 ∧ (validateIntRange s v neg mag).1.position = s.position) ∧
    (∀ val, SameBuf s (validateUIntRange s v val).1 ∧ (validateUIntRange s v val).1.position = s.position) := by
  constructor
  · intro neg mag
    have := validateIntRange_frame s v neg mag
    simp_all
  · intro val
    have := validateUIntRange_frame s v val
    simp_all

theorem region_cmd_congr (D : Desc) {s s' : St} (h : s'.buf = s.buf) (p : Nat) : region D s' .cmd p = region D s .cmd p := by
  simp [region, h]

/-- the argument parser never reads past the NUL that ends the argument text, stores only inside
the variable, and when more arguments follow the NUL is still ahead of the cursor -/
theorem parseVarValue_oob (D : Desc) (s : St) (v : VarD) (hn : 0 ∈ region D s .cmd s.position)
    (hsz : v.dataSize ≤ (s.slotGet v.slot).length) :
    (parseVarValue D s v).1.oob = s.oob ∧ LenMem s (parseVarValue D s v).1 ∧
    (0 < (parseVarValue D s v).2.1 → 0 ∈ region D (parseVarValue D s v).1 .cmd (parseVarValue D s v).1.position) := by
  have reg : ∀ (t : St) (u : Nat), t.buf = s.buf → t.position = s.position + u →
      region D t .cmd t.position = (region D s .cmd s.position).drop (u - 0) := by
    intro t u h1 h2; simp [region, h1, h2, Nat.add_comm]
  have vf := validate_frames
  unfold parseVarValue
  simp only
  generalize htxt : region D s .cmd s.position = txt at hn reg
  split
  · have st := parseIntDec_stops txt 0 0 false 0 hn
    generalize parseIntDec txt 0 0 false 0 = r at st
    simp only [st.off, Bool.not_false, chk_true]
    have fin0 : ∀ t : St, t.buf = s.buf → t.position = s.position + r.used → (0 < r.ret → 0 ∈ region D t .cmd t.position) :=
      fun t h1 h2 h => by rw [reg t r.used h1 h2]; exact st.more h
    split
    · exact ⟨rfl, LenMem.of_same rfl, fin0 _ rfl rfl⟩
    · generalize hs1 : ({ s with position := s.position + r.used } : St) = s1
      have hsz1 : v.dataSize ≤ (s1.slotGet v.slot).length := by rw [← hs1]; exact hsz
      have a := validateIntRange_ok s1 v r.neg r.val hsz1
      have b := (vf s1 v).1 r.neg r.val
      refine ⟨a.1.trans (by rw [← hs1]), LenMem.trans (LenMem.of_same (by rw [← hs1])) a.2, fun h => ?_⟩
      exact fin0 _ (by rw [b.1.1, ← hs1]) (by rw [b.2, ← hs1]) h
  · have st := parseUIntDec_stops txt 0 false 0 hn
    generalize parseUIntDec txt 0 false 0 = r at st
    simp only [st.off, Bool.not_false, chk_true]
    have fin0 : ∀ t : St, t.buf = s.buf → t.position = s.position + r.used → (0 < r.ret → 0 ∈ region D t .cmd t.position) :=
      fun t h1 h2 h => by rw [reg t r.used h1 h2]; exact st.more h
    split
    · exact ⟨rfl, LenMem.of_same rfl, fin0 _ rfl rfl⟩
    · generalize hs1 : ({ s with position := s.position + r.used } : St) = s1
      have hsz1 : v.dataSize ≤ (s1.slotGet v.slot).length := by rw [← hs1]; exact hsz
      have a := validateUIntRange_ok s1 v r.val hsz1
      have b := (vf s1 v).2 r.val
      refine ⟨a.1.trans (by rw [← hs1]), LenMem.trans (LenMem.of_same (by rw [← hs1])) a.2, fun h => ?_⟩
      exact fin0 _ (by rw [b.1.1, ← hs1]) (by rw [b.2, ← hs1]) h
  · have st := parseNumHex_stops txt 0 0 0 hn
    generalize parseNumHex txt 0 0 0 = r at st
    simp only [st.off, Bool.not_false, chk_true]
    have fin0 : ∀ t : St, t.buf = s.buf → t.position = s.position + r.used → (0 < r.ret → 0 ∈ region D t .cmd t.position) :=
      fun t h1 h2 h => by rw [reg t r.used h1 h2]; exact st.more h
    split
    · exact ⟨rfl, LenMem.of_same rfl, fin0 _ rfl rfl⟩
    · generalize hs1 : ({ s with position := s.position + r.used } : St) = s1
      have hsz1 : v.dataSize ≤ (s1.slotGet v.slot).length := by rw [← hs1]; exact hsz
      have a := validateUIntRange_ok s1 v r.val hsz1
      have b := (vf s1 v).2 r.val
      refine ⟨a.1.trans (by rw [← hs1]), LenMem.trans (LenMem.of_same (by rw [← hs1])) a.2, fun h => ?_⟩
      exact fin0 _ (by rw [b.1.1, ← hs1]) (by rw [b.2, ← hs1]) h
  · have st := parseBufHex_stops v.dataSize txt 0 false [] 0 hn
    have bd := (parseBufHex_bound v.dataSize txt 0 false [] 0 (by simp)).1
    generalize parseBufHex v.dataSize txt 0 false [] 0 = r at st bd
    simp only [st.off, Bool.not_false, chk_true]
    generalize hs1 : ({ s with position := s.position + r.used } : St) = s1
    have hsz1 : r.stored.length ≤ (s1.slotGet v.slot).length := by rw [← hs1]; exact Nat.le_trans bd hsz
    have sw := slotWrite_ok s1 v.slot r.stored hsz1
    have sc := slotWrite_ctl v.slot r.stored s1 0
    have key : ∀ t : St, t = s1 ∨ t = slotWrite s1 v.slot 0 r.stored →
        t.oob = s.oob ∧ LenMem s t ∧ t.buf = s.buf ∧ t.position = s.position + r.used := by
      intro t ht
      rcases ht with ht | ht <;> subst ht
      · exact ⟨by rw [← hs1], LenMem.of_same (by rw [← hs1]), by rw [← hs1], by rw [← hs1]⟩
      · exact ⟨sw.1.trans (by rw [← hs1]), LenMem.trans (LenMem.of_same (by rw [← hs1])) sw.2, by rw [sc.2.1, ← hs1], by rw [sc.1.2.2.2.2.1, ← hs1]⟩
    have fin : ∀ (t : St) (ws : Nat), (t = s1 ∨ t = slotWrite s1 v.slot 0 r.stored) →
        ({ t with writeSize := ws } : St).oob = s.oob ∧ LenMem s ({ t with writeSize := ws } : St) ∧
        (0 < r.ret → 0 ∈ region D ({ t with writeSize := ws } : St) .cmd ({ t with writeSize := ws } : St).position) := by
      intro t ws ht
      have k := key t ht
      exact ⟨k.1, fun q => k.2.1 q, fun h => by rw [reg ({ t with writeSize := ws } : St) r.used k.2.2.1 k.2.2.2]; exact st.more h⟩
    have fin0 : ∀ (t : St), (t = s1 ∨ t = slotWrite s1 v.slot 0 r.stored) →
        t.oob = s.oob ∧ LenMem s t ∧ (0 < r.ret → 0 ∈ region D t .cmd t.position) := by
      intro t ht
      have k := key t ht
      exact ⟨k.1, k.2.1, fun h => by rw [reg t r.used k.2.2.1 k.2.2.2]; exact st.more h⟩
    (repeat' split) <;> first
      | exact fin0 _ (Or.inl rfl)
      | exact fin0 _ (Or.inr rfl)
      | exact fin _ _ (Or.inl rfl)
      | exact fin _ _ (Or.inr rfl)
  · have st := parseBufString_stops v.dataSize txt 0 [] 0 hn
    have bd := parseBufString_bound v.dataSize txt 0 [] 0 (by simp)
    generalize parseBufString v.dataSize txt 0 [] 0 = r at st bd
    simp only [st.off, Bool.not_false, chk_true]
    generalize hs1 : ({ s with position := s.position + r.used } : St) = s1
    have hsz1 : r.stored.length ≤ (s1.slotGet v.slot).length := by rw [← hs1]; exact Nat.le_trans bd hsz
    have sw := slotWrite_ok s1 v.slot r.stored hsz1
    have sc := slotWrite_ctl v.slot r.stored s1 0
    have key : ∀ t : St, t = s1 ∨ t = slotWrite s1 v.slot 0 r.stored →
        t.oob = s.oob ∧ LenMem s t ∧ t.buf = s.buf ∧ t.position = s.position + r.used := by
      intro t ht
      rcases ht with ht | ht <;> subst ht
      · exact ⟨by rw [← hs1], LenMem.of_same (by rw [← hs1]), by rw [← hs1], by rw [← hs1]⟩
      · exact ⟨sw.1.trans (by rw [← hs1]), LenMem.trans (LenMem.of_same (by rw [← hs1])) sw.2, by rw [sc.2.1, ← hs1], by rw [sc.1.2.2.2.2.1, ← hs1]⟩
    have fin : ∀ (t : St) (ws : Nat), (t = s1 ∨ t = slotWrite s1 v.slot 0 r.stored) →
        ({ t with writeSize := ws } : St).oob = s.oob ∧ LenMem s ({ t with writeSize := ws } : St) ∧
        (0 < r.ret → 0 ∈ region D ({ t with writeSize := ws } : St) .cmd ({ t with writeSize := ws } : St).position) := by
      intro t ws ht
      have k := key t ht
      exact ⟨k.1, fun q => k.2.1 q, fun h => by rw [reg ({ t with writeSize := ws } : St) r.used k.2.2.1 k.2.2.2]; exact st.more h⟩
    have fin0 : ∀ (t : St), (t = s1 ∨ t = slotWrite s1 v.slot 0 r.stored) →
        t.oob = s.oob ∧ LenMem s t ∧ (0 < r.ret → 0 ∈ region D t .cmd t.position) := by
      intro t ht
      have k := key t ht
      exact ⟨k.1, k.2.1, fun h => by rw [reg t r.used k.2.2.1 k.2.2.2]; exact st.more h⟩
    (repeat' split) <;> first
      | exact fin0 _ (Or.inl rfl)
      | exact fin0 _ (Or.inr rfl)
      | exact fin _ _ (Or.inl rfl)
      | exact fin _ _ (Or.inr rfl)

/-! ### collecting the argument text -/

/-- `oob` unchanged and both invariants of the command machine hold afterwards -/
def OobStepA (D : Desc) (s s' : St) : Prop := s'.oob = s.oob ∧ OobF D s' .cmd ∧ OobA D s'

theorem OobA.other {D : Desc} {s : St} (h1 : s.state ≠ .parseCommandArgs) (h2 : s.state ≠ .parseWriteArgs) : OobA D s :=
  ⟨fun h => absurd h h1, fun h => absurd h h2⟩

theorem OobStep.toA {D : Desc} {s s' : St} (h : OobStep D .cmd s s') (h1 : s'.state ≠ .parseCommandArgs) (h2 : s'.state ≠ .parseWriteArgs) :
    OobStepA D s s' := ⟨h.1, h.2, .other h1 h2⟩

theorem ack_toA {D : Desc} (hd : DescOk D) (s t : St) (ho : t.oob = s.oob) :
    OobStepA D s (ackError D t) ∧ OobStepA D s (ackOk D t) :=
  ⟨((ackError_oobStep hd t).of_eq ho).toA (by simp) (by simp), ((ackOk_oobStep hd t).of_eq ho).toA (by simp) (by simp)⟩

theorem commandFound_oob {D : Desc} (hd : DescOk D) (s : St) : OobStepA D s (commandFound D s).1 := by
  unfold commandFound
  simp only
  generalize hs0 : s.chkUb s.cmd.isSome = s0
  have o0 : s0.oob = s.oob := by rw [← hs0, chkUb_oob]
  generalize D.cmdD s0.cmd = c
  split
  · (repeat' split)
    · exact (ack_toA hd s s0 o0).1
    · exact (ack_toA hd s s0 o0).1
    · exact ⟨o0, .other (by simp [St.ph, CState.ph]), .other (by simp) (by simp)⟩
  · split
    · exact (ack_toA hd s s0 o0).1
    · have g := startFormatRead_cmd_state D s0
      have := (startFormatRead_oob hd s0 .cmd).of_eq o0
      refine this.toA ?_ ?_ <;> (simp at g; rcases g with g | g | g <;> simp [g])
  · have h0 : 0 < D.capOf .cmd := by have := hd.ack; simp [Desc.capOf]; omega
    refine ⟨?_, .other (by simp [St.ph, CState.ph]), ⟨fun _ => ?_, fun h => by simp at h⟩⟩
    · simp only []
      rw [setB_oob_lt D _ .cmd 0 0 h0]; exact o0
    · simp only []
      have e : (setB D { s0 with length := 0 } .cmd 0 0).length = 0 := by simp [(setB_ctl D _ .cmd 0 0).1.1.2.2.1]
      refine ⟨by rw [e]; exact h0, ?_⟩
      rw [e]
      have := getB_setB_zero D { s0 with length := 0 } .cmd 0 h0
      simpa [getB] using this
  · exact (ack_toA hd s s0 o0).1

theorem parseCommandArgs_oob {D : Desc} (hd : DescOk D) (s : St) (i : SvcIn) (hs : s.state = .parseCommandArgs)
    (ha : s.length < D.cmdCap ∧ getB D s .cmd s.length = 0) : OobStepA D s (parseCommandArgs D s i).1 := by
  unfold parseCommandArgs readCmdChar
  cases hr : i.rd with
  | none =>
    exact ⟨rfl, .other (by simp [St.ph, St.emit, hs, CState.ph]), ⟨fun _ => by simpa [St.emit, getB] using ha, fun h => by simp [St.emit, hs] at h⟩⟩
  | some b =>
    simp only [St.emit, hs, bne_self_eq_false, Bool.false_eq_true, if_false, Bool.not_true]
    generalize hs0 : St.chkUb _ _ = s0
    have c0 : s0.oob = s.oob ∧ s0.state = .parseCommandArgs ∧ s0.length = s.length ∧ SameBuf s s0 := by
      rw [← hs0]; refine ⟨by rw [chkUb_oob], ?_, ?_, ?_⟩ <;> simp [hs]
    have ha0 : s0.length < D.cmdCap ∧ getB D s0 .cmd s0.length = 0 := by
      rw [c0.2.2.1, getB_congr D .cmd _ c0.2.2.2]; exact ha
    generalize D.cmdD s0.cmd = c
    clear hs0
    split
    · split
      · exact (ack_toA hd s s0 c0.1).1
      · split
        · split
          · exact (ack_toA hd s s0 c0.1).1
          · refine ⟨c0.1, .other (by simp [St.ph, CState.ph]), ⟨fun h => by simp at h, fun _ => ?_⟩⟩
            exact ⟨s0.length, Nat.zero_le _, ha0.1, by simpa [getB] using ha0.2⟩
        · split
          · exact (ack_toA hd s s0 c0.1).1
          · exact ⟨c0.1, .other (by simp [St.ph, CState.ph]), .other (by simp) (by simp)⟩
    · split
      · exact ⟨c0.1, .other (by simp [St.ph, CState.ph, c0.2.1]), ⟨fun _ => by simpa [getB] using ha0, fun h => by simp [c0.2.1] at h⟩⟩
      · split
        · exact ⟨c0.1, .other (by simp [St.ph, CState.ph]), .other (by simp) (by simp)⟩
        · split
          · exact ⟨c0.1, .other (by simp [St.ph, CState.ph]), .other (by simp) (by simp)⟩
          · rename_i hge
            have hlt : s0.length < D.capOf .cmd := ha0.1
            have e1 := (setB_ctl D s0 .cmd s0.length s0.currentChar).1
            have o1 := setB_oob_lt D s0 .cmd s0.length s0.currentChar hlt
            generalize setB D s0 .cmd s0.length s0.currentChar = s1 at e1 o1
            have l1 : s1.length = s0.length := e1.1.2.2.1
            have st1 : s1.state = .parseCommandArgs := by rw [e1.1.2.2.2.2.2.2.2.1]; exact c0.2.1
            split
            · rename_i hlt2
              have hlt2' : s1.length + 1 < D.capOf .cmd := hlt2
              generalize hs2 : ({ s1 with length := s1.length + 1 } : St) = s2
              have l2 : s2.length = s1.length + 1 := by rw [← hs2]
              have o2 : s2.oob = s1.oob := by rw [← hs2]
              have st2 : s2.state = .parseCommandArgs := by rw [← hs2]; exact st1
              have e3 := (setB_ctl D s2 .cmd (s1.length + 1) 0).1
              refine ⟨?_, .other ?_, ⟨fun _ => ⟨?_, ?_⟩, fun h => ?_⟩⟩
              · rw [setB_oob_lt D _ .cmd _ _ hlt2', o2, o1]; exact c0.1
              · rw [setB_ph]; simp [St.ph, st2, CState.ph]
              · rw [e3.1.2.2.1, l2]; exact hlt2'
              · rw [e3.1.2.2.1, l2]
                exact getB_setB_zero D _ .cmd _ hlt2'
              · rw [e3.1.2.2.2.2.2.2.2.1, st2] at h
                simp at h
            · exact ⟨o1.trans c0.1, .other (by simp [St.ph, CState.ph]), .other (by simp) (by simp)⟩

/-- the backing store is at least as long as the command region -/
def BufOk (D : Desc) (s : St) : Prop := D.cmdCap ≤ s.buf.length

theorem hasNul_region {D : Desc} {s : St} {p : Nat} (hb : BufOk D s) : HasNul D s .cmd p ↔ 0 ∈ region D s .cmd p := by
  unfold HasNul BufOk at *
  simp only [region, getB, Desc.capOf]
  constructor
  · rintro ⟨n, h1, h2, h3⟩
    rw [List.mem_iff_getElem]
    refine ⟨n - p, by simp; omega, ?_⟩
    simp only [List.getElem_drop, List.getElem_take]
    have e : p + (n - p) = n := by omega
    simp only [e]
    have hn : n < s.buf.length := by omega
    simpa [List.getD, List.getElem?_eq_getElem hn] using h3
  · intro h
    rw [List.mem_iff_getElem] at h
    obtain ⟨k, hk, e⟩ := h
    simp only [List.length_drop, List.length_take] at hk
    refine ⟨p + k, by omega, by omega, ?_⟩
    simp only [List.getElem_drop, List.getElem_take] at e
    have hn : p + k < s.buf.length := by omega
    simpa [List.getD, List.getElem?_eq_getElem hn] using e

theorem varWriteCb_calm (D : Desc) (s : St) (v : VarD) (i : SvcIn) :
    Calm s (varWriteCb D s v i).1 ∧ LenMem s (varWriteCb D s v i).1 := by
  unfold varWriteCb
  split
  · have := applyNested_calm_len D .cmd i.vc.acts (s.emit (.varcb .cmd (s.cmd.getD 0) s.index true s.writeSize i.vc.ret))
    exact ⟨(Calm.emit s _).trans this.1, LenMem.trans (LenMem.of_same rfl) this.2⟩
  · exact ⟨.refl s, .refl s⟩

theorem parseVarValue_keep (D : Desc) (s : St) (v : VarD) :
    (parseVarValue D s v).1.state = s.state ∧ SameR s (parseVarValue D s v).1 ∧ (parseVarValue D s v).1.buf = s.buf := by
  refine ⟨?_, ?_, (parseVarValue_buf D s v).1⟩
  · have := parseVarValue_U D s v; unfold parseVarValue; simp only; (repeat' split) <;> simp_all
  · unfold parseVarValue; simp only; (repeat' split) <;> simp

theorem parseWriteArgs_oob {D : Desc} (hd : DescOk D) (s : St) (i : SvcIn) (hs : s.state = .parseWriteArgs)
    (hw : HasNul D s .cmd s.position) (hb : BufOk D s) (hv : s.index < (D.cmdD s.cmd).varNum) (hm : MemOk D s) (hr : RingInv D s) :
    OobStepA D s (parseWriteArgs D s i).1 := by
  unfold parseWriteArgs
  simp only
  generalize hs0 : (s.chkUb s.cmd.isSome).chkUb _ = s0
  have c0 : Calm s s0 := by rw [← hs0]; exact (Calm.chkUb s _).trans (Calm.chkUb _ _)
  have o0 : s0.oob = s.oob := by rw [← hs0, chkUb_oob, chkUb_oob]
  have m0 : s0.mem = s.mem := by rw [← hs0]; simp
  have r0 : RingInv D s0 := hr.congr (by rw [← hs0]; simp)
  have e1 : (s.chkUb s.cmd.isSome).cmd = s.cmd := (Calm.chkUb s _).c.2.2.2.2.1
  have e2 : s0.index = s.index := c0.c.1
  have st0 : s0.state = .parseWriteArgs := by rw [c0.c.2.2.2.2.2.2.2.1]; exact hs
  have b0 : BufOk D s0 := by unfold BufOk; rw [c0.b.1]; exact hb
  have w0 : HasNul D s0 .cmd s0.position := by rw [c0.p.1]; exact hw.congr c0.b
  rw [e1, e2]
  generalize hc : D.cmdD s.cmd = c at hv
  have hmem := varAt_mem c s.index hv
  generalize c.varAt s.index = v at hmem
  have hsz : v.dataSize ≤ (s0.slotGet v.slot).length := by
    rw [show s0.slotGet v.slot = s.slotGet v.slot by simp [St.slotGet, m0]]
    exact hm s.cmd v (by rw [hc]; exact hmem)
  have pv := parseVarValue_oob D s0 v ((hasNul_region b0).1 w0) hsz
  have pk := parseVarValue_keep D s0 v
  generalize parseVarValue D s0 v = r1 at pv pk
  obtain ⟨s1, stat, ok⟩ := r1
  simp only at pv pk
  have o1 : s1.oob = s.oob := pv.1.trans o0
  cases ok
  · exact (ack_toA hd s s1 o1).1
  · simp only [Bool.not_true, Bool.false_eq_true, if_false]
    have r1 : RingInv D s1 := r0.congr pk.2.1
    have cb := varWriteCb_calm D s1 v i
    have cbo := varWriteCb_oob D s1 v i r1
    generalize varWriteCb D s1 v i = r2 at cb cbo
    obtain ⟨s2, fail⟩ := r2
    simp only at cb cbo
    have o2 : s2.oob = s.oob := cbo.trans o1
    cases fail
    · simp only [Bool.false_eq_true, if_false]
      have st2 : s2.state = .parseWriteArgs := by rw [cb.1.c.2.2.2.2.2.2.2.1, pk.1]; exact st0
      (repeat' split)
      · rename_i hm2
        simp only [Bool.and_eq_true, decide_eq_true_eq] at hm2
        refine ⟨o2, .other (by simp [St.ph, st2, CState.ph]), ⟨fun h => by simp [st2] at h, fun _ => ?_⟩⟩
        have b1 : BufOk D s1 := by unfold BufOk; rw [pk.2.2]; exact b0
        have h1 : HasNul D s1 .cmd s1.position := (hasNul_region b1).2 (pv.2.2 hm2.2)
        have h2 : HasNul D s2 .cmd s2.position := by rw [cb.1.p.1]; exact h1.congr cb.1.b
        exact h2.congr (by simp)
      · exact (ack_toA hd s { s2 with index := s2.index + 1 } o2).1
      · exact (ack_toA hd s { s2 with index := s2.index + 1 } o2).1
      · exact (ack_toA hd s { s2 with index := s2.index + 1 } o2).2
      · exact ⟨o2, .other (by simp [St.ph, CState.ph]), .other (by simp) (by simp)⟩
    · exact (ack_toA hd s s2 o2).1

/-! ### the command list -/

theorem printCurrentCmdFullName_oob (D : Desc) (s : St) (x : List Byte) (hp : s.pos .cmd ≤ D.capOf .cmd) :
    (printCurrentCmdFullName D s x).1.oob = s.oob ∧
    ((printCurrentCmdFullName D s x).2 = true → NulAt D (printCurrentCmdFullName D s x).1 .cmd) := by
  unfold printCurrentCmdFullName
  simp only
  generalize D.cmdD s.cmd = c
  split
  · have pa := printN_nofault D s .cmd (nlStr s) hp
    generalize printN D s .cmd (nlStr s) = r at pa
    obtain ⟨s1, ok⟩ := r
    simp only at pa
    cases ok
    · simp; exact pa.1.1
    · simp only [if_true, Bool.not_true, Bool.false_eq_true, if_false]
      generalize hs2 : ({ s1 with length := 1 } : St) = s2
      have p2 : s2.pos .cmd ≤ D.capOf .cmd := by rw [← hs2]; exact pa.2
      have o2 : s2.oob = s.oob := by rw [← hs2]; exact pa.1.1
      have a := printAll_nofault D .cmd [[65, 84], c.name, x, nlStr s2] s2 p2
      have b := printAll_nul D .cmd [[65, 84], c.name, x, nlStr s2] s2 p2 (Or.inr (by simp))
      exact ⟨a.1.1.trans o2, b⟩
  · simp only [Bool.not_true, Bool.false_eq_true, if_false]
    have a := printAll_nofault D .cmd [[65, 84], c.name, x, nlStr s] s hp
    have b := printAll_nul D .cmd [[65, 84], c.name, x, nlStr s] s hp (Or.inr (by simp))
    exact ⟨a.1.1, b⟩

theorem startFlushRaw_oob {D : Desc} (s : St) (a : After) (next : CmdType) (h : HasNul D s .cmd 0) :
    OobStepA D s { startFlushRaw s a with cmdType := next } := by
  refine ⟨rfl, ⟨?_, ?_, ?_, ?_, ?_, fun _ => by simp [St.wst, startFlushRaw, St.emit]⟩, .other (by simp [startFlushRaw, St.emit]) (by simp [startFlushRaw, St.emit])⟩
  · intro _ _; simp only [St.pos, startFlushRaw, St.emit]; exact h.congr (by simp [startFlushRaw, St.emit])
  · intro _ off h2; simp [St.wsrc, startFlushRaw, St.emit] at h2
  · intro _ h2; simp [St.wst, startFlushRaw, St.emit] at h2
  · intro h2; simp [St.ph, startFlushRaw, St.emit, CState.ph] at h2
  · intro _; exact ⟨by simp [St.pos, startFlushRaw, St.emit], Or.inr ⟨by simp [St.wst, startFlushRaw, St.emit], by simp [St.wsrc, startFlushRaw, St.emit]⟩⟩

theorem printCmdForm_oob {D : Desc} (hd : DescOk D) (t : St) (avail : Bool) (x : List Byte) (next : CmdType)
    (hs : t.state = .printCmd) : OobStepA D t (printCmdForm D t avail x next) := by
  unfold printCmdForm
  split
  · simp only
    have pc := printCurrentCmdFullName_oob D { t with position := 0 } x (by simp [St.pos])
    generalize printCurrentCmdFullName D { t with position := 0 } x = r at pc
    obtain ⟨s1, ok⟩ := r
    simp only at pc
    cases ok
    · exact (ack_toA hd t s1 pc.1).1
    · simp only [Bool.not_true, Bool.false_eq_true, if_false]
      have := startFlushRaw_oob s1 .printCmd next (pc.2 rfl).hasNul
      exact ⟨this.1.trans pc.1, this.2.1, this.2.2⟩
  · exact ⟨rfl, .other (by simp [St.ph, hs, CState.ph]), .other (by simp [hs]) (by simp [hs])⟩

theorem cmdListNext_oob {D : Desc} (hd : DescOk D) (s0 : St) :
    OobStepA D s0 (if (cmdListNextCmd D s0).2 = true then (cmdListNextCmd D s0).1 else ackOk D (cmdListNextCmd D s0).1) := by
  unfold cmdListNextCmd
  simp only
  split
  · simp only [Bool.false_eq_true, if_false]
    exact (ack_toA hd s0 { s0 with index := s0.index + 1 } rfl).2
  · simp only [if_true]
    exact ⟨rfl, .other (by simp [St.ph, CState.ph]), .other (by simp) (by simp)⟩

theorem printCmdList_oob {D : Desc} (hd : DescOk D) (s : St) (hs : s.state = .printCmd) : OobStepA D s (printCmdList D s) := by
  unfold printCmdList
  simp only
  generalize hsc : s.chkUb _ = sc
  have oc : sc.oob = s.oob := by rw [← hsc, chkUb_oob]
  have stc : sc.state = .printCmd := by rw [← hsc, (Calm.chkUb s _).c.2.2.2.2.2.2.2.1]; exact hs
  have nx := cmdListNext_oob hd ({ sc with cmd := some sc.index } : St)
  have fm : ∀ avail x next, OobStepA D s (printCmdForm D ({ sc with cmd := some sc.index } : St) avail x next) := by
    intro avail x next
    have := printCmdForm_oob hd ({ sc with cmd := some sc.index } : St) avail x next stc
    exact ⟨this.1.trans oc, this.2⟩
  split
  · split
    · exact ⟨nx.1.trans oc, nx.2⟩
    · exact ⟨oc, .other (by simp [St.ph, stc, CState.ph]), .other (by simp [stc]) (by simp [stc])⟩
  · exact fm _ _ _
  · exact fm _ _ _
  · exact fm _ _ _
  · exact fm _ _ _
  · exact ⟨nx.1.trans oc, nx.2⟩

/-! ### one step of the command machine -/

theorem toA_of_graph {D : Desc} {s s' : St} {l : List CState} (h : OobStep D .cmd s s') (g : s'.state ∈ l)
    (hl : ∀ st ∈ l, st ≠ .parseCommandArgs ∧ st ≠ .parseWriteArgs) : OobStepA D s s' :=
  h.toA (hl _ g).1 (hl _ g).2

/-- everything the step lemmas need about the surroundings -/
structure Wf (D : Desc) (s : St) : Prop where
  desc : DescOk D
  mem : MemOk D s
  ring : RingInv D s
  buf : BufOk D s

theorem commandService_oob {D : Desc} (s : St) (i : SvcIn) (w : Wf D s) (u : UbInv D s) (o : OobF D s .cmd) (a : OobA D s) :
    OobStepA D s (commandService D s i).1 := by
  have hd := w.desc
  unfold commandService
  split
  · rename_i hs
    exact toA_of_graph (errorState_oob hd s i hs) (graph_error D s i) (by simp [hs])
  · rename_i hs
    exact toA_of_graph (processIdleState_oob hd s i hs) (graph_idle s i) (by simp [hs])
  · rename_i hs
    exact toA_of_graph (parsePrefix_oob hd s i hs) (graph_prefix D s i) (by simp [hs])
  · rename_i hs
    exact toA_of_graph (parseCommand_oob hd s i hs) (graph_parseCommand D s i) (by simp [hs])
  · rename_i hs
    exact toA_of_graph (updateCommand_oob hd s hs (u.idx (Or.inl hs))) (graph_update D s) (by simp [hs])
  · rename_i hs
    exact toA_of_graph (waitReadAcknowledge_oob hd s i hs) (graph_waitRead s i) (by simp [hs])
  · rename_i hs
    exact toA_of_graph (searchCommand_oob hd s hs (u.idx (Or.inr (Or.inl hs)))) (graph_search D s) (by simp [hs])
  · exact commandFound_oob hd s
  · exact (commandNotFound_oob hd s).toA (by simp [commandNotFound]) (by simp [commandNotFound])
  · rename_i hs
    exact parseCommandArgs_oob hd s i hs (a.args hs)
  · rename_i hs
    exact parseWriteArgs_oob hd s i hs (a.wargs hs) w.buf (u.var (Or.inl hs)) w.mem w.ring
  · rename_i hs
    have hph : s.ph .cmd = .other := by simp [St.ph, hs, CState.ph]
    exact toA_of_graph (formatReadArgs_oob hd s .cmd i hph (u.pos (Or.inl hs)) (u.var (Or.inr (Or.inl hs))) w.ring w.mem)
      (graph_formatRead D s i) (by simp [hs])
  · rename_i hs
    exact toA_of_graph (waitTestAcknowledge_oob hd s i hs) (graph_waitTest D s i) (by simp [hs])
  · rename_i hs
    have hph : s.ph .cmd = .other := by simp [St.ph, hs, CState.ph]
    exact toA_of_graph (formatTestArgs_oob hd s .cmd hph (u.pos (Or.inr hs))) (graph_formatTest D s) (by simp [hs])
  · rename_i hs
    exact toA_of_graph (processWriteLoop_oob hd s i hs w.ring) (graph_writeLoop D s i) (by simp [hs])
  · rename_i hs
    have hph : s.ph .cmd = .loop := by simp [St.ph, hs, CState.ph]
    have g := graph_readLoop D s i
    refine (processReadLoop_oob hd s .cmd i hph (o.loop hph) w.ring).toA ?_ ?_ <;>
      (rcases g with g | g <;> first | (rw [g, hs]; simp) | (simp [loopSucc] at g; rcases g with g | g | g | g | g | g | g <;> simp [g]))
  · rename_i hs
    have hph : s.ph .cmd = .loop := by simp [St.ph, hs, CState.ph]
    have g := graph_testLoop D s i
    refine (processTestLoop_oob hd s .cmd i hph (o.loop hph) w.ring).toA ?_ ?_ <;>
      (rcases g with g | g <;> first | (rw [g, hs]; simp) | (simp [loopSucc] at g; rcases g with g | g | g | g | g | g | g <;> simp [g]))
  · rename_i hs
    exact toA_of_graph (processRunLoop_oob hd s i hs w.ring) (graph_runLoop D s i) (by simp [hs])
  · rename_i hs
    exact toA_of_graph (processHoldState_oob hd s hs) (graph_hold D s) (by simp [hs])
  · rename_i hs
    refine (processIoWriteWait_oob s hs o).toA ?_ ?_ <;> (rw [graph_wait]; split <;> simp [hs])
  · rename_i hs
    have g := graph_write D s i
    refine (processIoWrite_oob s i hs o).toA ?_ ?_ <;>
      (simp at g; rcases g with g | g <;> rw [g] <;> first | (rw [hs]; simp) | (cases s.writeStateAfter <;> simp [After.toC]))
  · exact (resetState_oob s).toA (by unfold resetState; split <;> simp [St.emit]) (by unfold resetState; split <;> simp [St.emit])
  · exact (ack_toA hd s s rfl).2
  · have g := startFormatRead_cmd_state D s
    exact toA_of_graph (startFormatRead_oob hd s .cmd) g (by simp)
  · have g := startFormatTest_cmd_state D s
    exact toA_of_graph (startFormatTest_oob hd s .cmd) g (by simp)
  · rename_i hs
    exact printCmdList_oob hd s hs

/-! ### one step of the unsolicited machine -/

theorem checkUnsolicitedBuffers_oob {D : Desc} (hd : DescOk D) (s : St) (hs : s.ustate = .idle) (hr : RingInv D s) :
    OobStep D .uns s (checkUnsolicitedBuffers D s) := by
  unfold checkUnsolicitedBuffers
  split
  · exact ⟨rfl, .other (by simp [St.ph, hs, UState.ph])⟩
  · rename_i hne
    have hpos : 0 < s.rcount := by
      simp [Gen.is_unsolicited_buffer_empty] at hne; omega
    have po := (pop_ok D s hr hpos).2.2.1
    simp only
    generalize hs1 : (({ ringPop D s with ucmd := some (ringFront s).1, ucmdType := (ringFront s).2 } : St).emit (.pop (ringFront s).1 (ringFront s).2)) = s1
    have o1 : s1.oob = s.oob := by rw [← hs1]; simpa [St.emit] using po
    have st1 : s1.ustate = .idle := by
      rw [← hs1]; simp only [St.emit, ringPop]; rw [(chk_ctl s _).1.2.1.1]; exact hs
    split
    · exact (startFormatRead_oob hd s1 .uns).of_eq o1
    · split
      · exact (startFormatTest_oob hd s1 .uns).of_eq o1
      · exact ⟨o1, .other (by simp [St.ph, st1, UState.ph])⟩

theorem unsolicitedEventsService_oob {D : Desc} (s : St) (i : SvcIn) (w : Wf D s) (u : UbInvU D s) (o : OobF D s .uns) :
    OobStep D .uns s (unsolicitedEventsService D s i).1 := by
  have hd := w.desc
  unfold unsolicitedEventsService
  split
  · rename_i hs
    exact checkUnsolicitedBuffers_oob hd s hs w.ring
  · rename_i hs
    have hph : s.ph .uns = .other := by simp [St.ph, hs, UState.ph]
    exact formatReadArgs_oob hd s .uns i hph (u.pos (Or.inl hs)) (u.var (Or.inl hs)) w.ring w.mem
  · rename_i hs
    have hph : s.ph .uns = .other := by simp [St.ph, hs, UState.ph]
    exact formatTestArgs_oob hd s .uns hph (u.pos (Or.inr hs))
  · rename_i hs
    have hph : s.ph .uns = .loop := by simp [St.ph, hs, UState.ph]
    exact processReadLoop_oob hd s .uns i hph (o.loop hph) w.ring
  · rename_i hs
    have hph : s.ph .uns = .loop := by simp [St.ph, hs, UState.ph]
    exact processTestLoop_oob hd s .uns i hph (o.loop hph) w.ring
  · rename_i hs
    exact unsolicitedProcessIoWriteWait_oob s hs o
  · rename_i hs
    exact unsolicitedProcessIoWrite_oob s i hs o
  · exact ⟨rfl, .other (by simp [unsolicitedResetState, St.ph, UState.ph])⟩
  · exact endOk_oobStep hd s .uns
  · exact startFormatRead_oob hd s .uns
  · exact startFormatTest_oob hd s .uns

end Cat
