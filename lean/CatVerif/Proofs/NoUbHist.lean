/-
  No undefined operation along any history of API calls (C03).
-/
import CatVerif.Proofs.NoUb
import CatVerif.Proofs.Hold
namespace Cat
open St

/-! ### flag changes keep the shape of the descriptor -/

/-- two descriptors with the same table shape: sizes, capacities and every command's variables -/
structure DescSame (D D' : Desc) : Prop where
  num : D'.commandsNum = D.commandsNum
  ccap : D'.cmdCap = D.cmdCap
  ucap : D'.unsCap = D.unsCap
  vars : ∀ id, (D'.cmdD id).varNum = (D.cmdD id).varNum

theorem DescSame.refl (D : Desc) : DescSame D D := ⟨rfl, rfl, rfl, fun _ => rfl⟩

theorem modifyCmdInGroups_lengths (fn : CmdD → CmdD) : ∀ (gs : List GroupD) (i : Nat),
    (modifyCmdInGroups fn gs i).map (·.cmds.length) = gs.map (·.cmds.length) := by
  intro gs
  induction gs with
  | nil => intro i; rfl
  | cons g r ih =>
    intro i
    simp only [modifyCmdInGroups]
    split
    · simp [ih]
    · simp

theorem cmdByIndex_modify (fn : CmdD → CmdD) (hv : ∀ c, (fn c).vars = c.vars) : ∀ (gs : List GroupD) (i j : Nat),
    ((cmdByIndex (modifyCmdInGroups fn gs i) j).getD default).vars = ((cmdByIndex gs j).getD default).vars := by
  intro gs
  induction gs with
  | nil => intro i j; rfl
  | cons g r ih =>
    intro i j
    simp only [modifyCmdInGroups]
    split
    · simp only [cmdByIndex]
      split
      · exact ih _ _
      · rfl
    · simp only [cmdByIndex, List.length_modify]
      split
      · rfl
      · rename_i hj
        simp only [List.getElem?_modify]
        split
        · rename_i e
          subst e
          cases hg : g.cmds[i]? with
          | none => simp
          | some c => simp [hv]
        · simp

theorem modifyCmd_same (D : Desc) (id : Nat) (fn : CmdD → CmdD) (hv : ∀ c, (fn c).vars = c.vars) :
    DescSame D (D.modifyCmd id fn) := by
  have hn : (D.modifyCmd id fn).commandsNum = D.commandsNum := by
    unfold Desc.modifyCmd Desc.commandsNum
    split
    · simp [modifyCmdInGroups_lengths]
    · rfl
  refine ⟨hn, ?_, ?_, ?_⟩
  · unfold Desc.modifyCmd Desc.cmdCap; split <;> rfl
  · unfold Desc.modifyCmd Desc.unsCap; split <;> rfl
  · intro oid
    cases oid with
    | none => rfl
    | some k =>
      simp only [Desc.cmdD, Desc.cmd?, hn, CmdD.varNum]
      unfold Desc.modifyCmd
      split
      · split
        · simp only []
          rw [cmdByIndex_modify fn hv]
        · rfl
      · split
        · rfl
        · simp only [List.getElem?_modify]
          split
          · rename_i e
            cases hg : D.extras[id - D.commandsNum]? with
            | none => simp [← e, hg]
            | some c => simp [← e, hg, hv]
          · simp

theorem groupsModify_shape (f : GroupD → GroupD) (hf : ∀ x, (f x).cmds = x.cmds) : ∀ (gs : List GroupD) (g : Nat),
    (∀ j, cmdByIndex (gs.modify g f) j = cmdByIndex gs j) ∧
    (gs.modify g f).map (·.cmds.length) = gs.map (·.cmds.length) := by
  intro gs
  induction gs with
  | nil => intro g; simp
  | cons x r ih =>
    intro g
    cases g with
    | zero =>
      simp only [List.modify_zero_cons]
      exact ⟨fun j => by simp [cmdByIndex, hf], by simp [hf]⟩
    | succ k =>
      simp only [List.modify_succ_cons]
      exact ⟨fun j => by simp [cmdByIndex, (ih k).1], by simp [(ih k).2]⟩

theorem groupDisable_same (D : Desc) (g : Nat) (v : Bool) :
    DescSame D { D with groups := D.groups.modify g (fun x => { x with disable := v }) } := by
  have sh := groupsModify_shape (fun x => { x with disable := v }) (fun _ => rfl) D.groups g
  have hn : ({ D with groups := D.groups.modify g (fun x => { x with disable := v }) } : Desc).commandsNum = D.commandsNum := by
    simp [Desc.commandsNum, sh.2]
  refine ⟨hn, rfl, rfl, ?_⟩
  intro oid
  cases oid with
  | none => rfl
  | some k =>
    simp only [Desc.cmdD, Desc.cmd?, hn, sh.1]

/-! ### the invariants depend only on the table shape -/

theorem UbInv.desc {D D' : Desc} {s : St} (h : DescSame D D') (u : UbInv D s) : UbInv D' s :=
  ⟨fun x => by rw [h.num]; exact u.idx x, u.name, u.cmd, fun x => by rw [h.vars]; exact u.var x, fun x => by rw [h.ccap]; exact u.pos x⟩

theorem UbInvU.desc {D D' : Desc} {s : St} (h : DescSame D D') (u : UbInvU D s) : UbInvU D' s :=
  ⟨u.cmd, fun x => by rw [h.vars]; exact u.var x, fun x => by rw [h.ucap]; exact u.pos x⟩

/-- the fields the two invariants read -/
def UbSame (s s' : St) : Prop :=
  s'.state = s.state ∧ s'.index = s.index ∧ s'.cmd = s.cmd ∧ s'.writeStateAfter = s.writeStateAfter ∧ s'.position = s.position ∧
  s'.ustate = s.ustate ∧ s'.uindex = s.uindex ∧ s'.ucmd = s.ucmd ∧ s'.uwriteStateAfter = s.uwriteStateAfter ∧ s'.uposition = s.uposition ∧
  s'.ub = s.ub

theorem UbSame.refl (s : St) : UbSame s s := ⟨rfl, rfl, rfl, rfl, rfl, rfl, rfl, rfl, rfl, rfl, rfl⟩
theorem UbSame.trans {a b c : St} (h1 : UbSame a b) (h2 : UbSame b c) : UbSame a c := by
  obtain ⟨a1, a2, a3, a4, a5, a6, a7, a8, a9, a10, a11⟩ := h1
  obtain ⟨b1, b2, b3, b4, b5, b6, b7, b8, b9, b10, b11⟩ := h2
  exact ⟨b1.trans a1, b2.trans a2, b3.trans a3, b4.trans a4, b5.trans a5, b6.trans a6, b7.trans a7, b8.trans a8, b9.trans a9, b10.trans a10, b11.trans a11⟩

theorem UbSame.inv {D : Desc} {s s' : St} (h : UbSame s s') (u : UbInv D s) (v : UbInvU D s) : UbInv D s' ∧ UbInvU D s' := by
  obtain ⟨a1, a2, a3, a4, a5, a6, a7, a8, a9, a10, _⟩ := h
  constructor
  · exact ⟨fun x => by rw [a2]; exact u.idx (by rw [← a1, ← a4]; exact x), fun x => by rw [a2]; exact u.name (by rw [← a1]; exact x),
      fun x => by rw [a3]; exact u.cmd (by simp only [NeedsCmd] at x ⊢; rw [← a1, ← a4]; exact x),
      fun x => by rw [a2, a3]; exact u.var (by rw [← a1]; exact x), fun x => by rw [a5]; exact u.pos (by rw [← a1]; exact x)⟩
  · exact ⟨fun x => by rw [a8]; exact v.cmd (by simp only [NeedsUCmd] at x ⊢; rw [← a6, ← a9]; exact x),
      fun x => by rw [a7, a8]; exact v.var (by rw [← a6]; exact x), fun x => by rw [a10]; exact v.pos (by rw [← a6]; exact x)⟩

theorem UbSame.emit (s : St) (e : Ev) : UbSame s (s.emit e) := ⟨rfl, rfl, rfl, rfl, rfl, rfl, rfl, rfl, rfl, rfl, rfl⟩

/-! ### one `cat_service`, one API call, a history -/

/-- both invariants -/
def UbAll (D : Desc) (s : St) : Prop := UbInv D s ∧ UbInvU D s

theorem serviceBody_noUb (D : Desc) (s : St) (i : SvcIn) (hu : i.hu.ret ≠ 4) (hn : 0 < D.commandsNum) (h : UbAll D s) :
    (serviceBody D s i).1.ub = s.ub ∧ UbAll D (serviceBody D s i).1 := by
  have us := unsolicitedEventsService_ubStepU D s i h.2
  have kc := unsolicitedEventsService_keepsC D s i hu
  simp only [KeepsCH, SameC'] at kc
  -- the command machine's discipline survives the unsolicited step
  have ui : UbInv D (unsolicitedEventsService D s i).1 := by
    have a1 := kc.1.2.2.2.2.2.2.2.1
    have a2 := kc.1.1
    have a3 := kc.1.2.2.2.2.1
    have a4 := kc.1.2.2.2.2.2.2.2.2.2.2.2.1
    have a5 := kc.2.1
    exact ⟨fun x => by rw [a2]; exact h.1.idx (by rw [← a1, ← a4]; exact x), fun x => by rw [a2]; exact h.1.name (by rw [← a1]; exact x),
      fun x => by rw [a3]; exact h.1.cmd (by simp only [NeedsCmd] at x ⊢; rw [← a1, ← a4]; exact x),
      fun x => by rw [a2, a3]; exact h.1.var (by rw [← a1]; exact x), fun x => by rw [a5]; exact h.1.pos (by rw [← a1]; exact x)⟩
  have cs := commandService_ubStep D (unsolicitedEventsService D s i).1 i hn ui
  have ku := commandService_keepsU D (unsolicitedEventsService D s i).1 i
  simp only [KeepsU, SameU'] at ku
  unfold serviceBody
  simp only
  refine ⟨cs.1.trans us.1, cs.2, ?_⟩
  have b6 := ku.1.1
  have b7 := ku.1.2.1
  have b8 := ku.1.2.2.1
  have b9 := ku.1.2.2.2.2.2.2
  have b10 := ku.2
  exact ⟨fun x => by rw [b8]; exact us.2.cmd (by simp only [NeedsUCmd] at x ⊢; rw [← b6, ← b9]; exact x),
    fun x => by rw [b7, b8]; exact us.2.var (by rw [← b6]; exact x), fun x => by rw [b10]; exact us.2.pos (by rw [← b6]; exact x)⟩

theorem withMutex_noUb (D : Desc) (s : St) (lk ul : Int) (body : St → St × Int)
    (hbody : ∀ a, UbAll D a → (body a).1.ub = a.ub ∧ UbAll D (body a).1) (h : UbAll D s) :
    (withMutex D s lk ul body).1.ub = s.ub ∧ UbAll D (withMutex D s lk ul body).1 := by
  have em : ∀ (a : St) (e : Ev), UbAll D a → UbAll D (a.emit e) := fun a e ha => (UbSame.emit a e).inv ha.1 ha.2
  unfold withMutex
  split
  · split
    · exact ⟨rfl, em _ _ h⟩
    · have b := hbody _ (em s (.lock lk) h)
      simp only
      split <;> exact ⟨b.1, em _ _ b.2⟩
  · exact hbody _ h

theorem same_noUb {D : Desc} {a b : St} (h : UbSame a b) (u : UbAll D a) : b.ub = a.ub ∧ UbAll D b :=
  ⟨h.2.2.2.2.2.2.2.2.2.2, h.inv u.1 u.2⟩

/-- **One API call performs no undefined operation** (the `ub` flag it leaves is the one it found)
and keeps both index disciplines. -/
theorem apply_noUb (w : World) (op : Op) (hop : OpOk op) (hn : 0 < w.D.commandsNum) (h : UbAll w.D w.s) :
    (apply w op).1.s.ub = w.s.ub ∧ UbAll (apply w op).1.D (apply w op).1.s ∧ (apply w op).1.D.commandsNum = w.D.commandsNum := by
  have h0 : UbAll w.D ({ w.s with log := [] } : St) := (show UbSame w.s { w.s with log := [] } from ⟨rfl, rfl, rfl, rfl, rfl, rfl, rfl, rfl, rfl, rfl, rfl⟩).inv h.1 h.2
  cases op with
  | service i =>
    have := withMutex_noUb w.D _ i.lock i.unlock (fun s => serviceBody w.D s i) (fun a ha => serviceBody_noUb w.D a i hop hn ha) h0
    exact ⟨this.1, this.2, rfl⟩
  | isBusy lk ul =>
    have := withMutex_noUb w.D _ lk ul isBusyBody (fun a ha => ⟨rfl, ha⟩) h0
    exact ⟨this.1, this.2, rfl⟩
  | isHold lk ul =>
    have := withMutex_noUb w.D _ lk ul isHoldBody (fun a ha => ⟨rfl, ha⟩) h0
    exact ⟨this.1, this.2, rfl⟩
  | isFull lk ul =>
    have := withMutex_noUb w.D _ lk ul (isFullBody w.D) (fun a ha => ⟨rfl, ha⟩) h0
    exact ⟨this.1, this.2, rfl⟩
  | trigger c t lk ul =>
    have := withMutex_noUb w.D _ lk ul (fun s => pushUnsolicited w.D s c (cmdTypeOfInt t))
      (fun a ha => same_noUb (by have := pushUnsolicited_frame w.D a c (cmdTypeOfInt t); simp_all [UbSame]) ha) h0
    exact ⟨this.1, this.2, rfl⟩
  | holdExit st lk ul =>
    have := withMutex_noUb w.D _ lk ul (fun s => holdExit s st)
      (fun a ha => same_noUb (by have := holdExit_frame a st; simp_all [UbSame]) ha) h0
    exact ⟨this.1, this.2, rfl⟩
  | buffered c t => exact ⟨rfl, h0, rfl⟩
  | setCmdDisable c v =>
    have sm := modifyCmd_same w.D c (fun x => { x with disable := v }) (fun _ => rfl)
    exact ⟨rfl, ⟨h0.1.desc sm, h0.2.desc sm⟩, sm.num⟩
  | setCmdOnlyTest c v =>
    have sm := modifyCmd_same w.D c (fun x => { x with onlyTest := v }) (fun _ => rfl)
    exact ⟨rfl, ⟨h0.1.desc sm, h0.2.desc sm⟩, sm.num⟩
  | setGroupDisable g v =>
    have sm := groupDisable_same w.D g v
    exact ⟨rfl, ⟨h0.1.desc sm, h0.2.desc sm⟩, sm.num⟩
  | poke slot off bs =>
    have e : UbSame ({ w.s with log := [] } : St) (apply w (.poke slot off bs)).1.s := by
      simp only [apply]
      split <;> exact ⟨rfl, rfl, rfl, rfl, rfl, rfl, rfl, rfl, rfl, rfl, rfl⟩
    have := same_noUb e h0
    exact ⟨this.1, this.2, rfl⟩

/-- **Along every history no undefined operation is performed**: the table cursor stays inside the
table, a command is selected wherever one is dereferenced, the variable cursors stay inside the
variable lists and the print cursors inside the capacities — for both machines. -/
theorem runOps_noUb : ∀ (ops : List Op) (w : World), (∀ op ∈ ops, OpOk op) → 0 < w.D.commandsNum → UbAll w.D w.s →
    (runOps w ops).1.s.ub = w.s.ub ∧ UbAll (runOps w ops).1.D (runOps w ops).1.s := by
  intro ops
  induction ops with
  | nil => intro w _ _ h; exact ⟨rfl, h⟩
  | cons op r ih =>
    intro w hok hn h
    have a := apply_noUb w op (hok op (by simp)) hn h
    have b := ih (apply w op).1 (fun o ho => hok o (by simp [ho])) (by rw [a.2.2]; exact hn) a.2.1
    simp only [runOps]
    exact ⟨b.1.trans a.1, b.2⟩

end Cat
