/-
  The ring invariant holds along every history: only `push_unsolicited_cmd` and
  `pop_unsolicited_cmd` touch the ring fields.
-/
import CatVerif.Proofs.Ring
import CatVerif.Proofs.Inv
namespace Cat
open St

theorem RingInv.congr {D : Desc} {s s' : St} (h : SameR s s') (hi : RingInv D s) : RingInv D s' := by
  obtain ⟨a, b, c, d⟩ := h
  exact ⟨hi.cap_pos, by rw [a]; exact hi.len, by rw [c]; exact hi.head_lt, by rw [d]; exact hi.count_le, by rw [b, c, d]; exact hi.tail_eq⟩

macro "rr" : tactic => `(tactic| (try simp) <;> (try ((repeat' split) <;> simp_all)))

@[simp] theorem ackError_R (D : Desc) (s : St) : SameR s (ackError D s) := by simp [ackError, startFlush]
@[simp] theorem ackOk_R (D : Desc) (s : St) : SameR s (ackOk D s) := by simp [ackOk, startFlush]
@[simp] theorem startFlush_R (s : St) (f : Fsm) (a : After) : SameR s (startFlush s f a) := by cases f <;> simp [startFlush]
@[simp] theorem startFlushRaw_R (s : St) (a : After) : SameR s (startFlushRaw s a) := by simp [startFlushRaw]
@[simp] theorem endError_R (D : Desc) (s : St) (f : Fsm) : SameR s (endError D s f) := by cases f <;> simp [endError, unsolicitedResetState]
@[simp] theorem endOk_R (D : Desc) (s : St) (f : Fsm) : SameR s (endOk D s f) := by cases f <;> simp [endOk, unsolicitedResetState]
@[simp] theorem setStateRL_R (s : St) (f : Fsm) : SameR s (setStateRL s f) := by cases f <;> simp [setStateRL]
@[simp] theorem setStateTL_R (s : St) (f : Fsm) : SameR s (setStateTL s f) := by cases f <;> simp [setStateTL]
@[simp] theorem setIdx_R (s : St) (f : Fsm) (n : Nat) : SameR s (s.setIdx f n) := by cases f <;> simp [St.setIdx]
@[simp] theorem readCmdChar_R (s : St) (i : SvcIn) : SameR s (readCmdChar s i).1 := by simp
@[simp] theorem printResponseTest_R (D : Desc) (s : St) (f : Fsm) : SameR s (printResponseTest D s f).1 := by simp [printResponseTest]; rr
@[simp] theorem nextFormatVar_R (D : Desc) (s : St) (f : Fsm) : SameR s (nextFormatVar D s f).1 := by simp [nextFormatVar]; rr
@[simp] theorem startFormatTest_R (D : Desc) (s : St) (f : Fsm) : SameR s (startFormatTest D s f) := by
  cases f <;> (simp [startFormatTest]; rr)
@[simp] theorem startFormatRead_R (D : Desc) (s : St) (f : Fsm) : SameR s (startFormatRead D s f) := by
  cases f <;> (simp [startFormatRead]; rr)
@[simp] theorem parseVarValue_R (D : Desc) (s : St) (v : VarD) : SameR s (parseVarValue D s v).1 := by unfold parseVarValue; rr
@[simp] theorem formatVar_R (D : Desc) (s : St) (f : Fsm) (v : VarD) : SameR s (formatVar D s f v).1 := by unfold formatVar; rr
@[simp] theorem cmdListNextCmd_R (D : Desc) (s : St) : SameR s (cmdListNextCmd D s).1 := by simp [cmdListNextCmd]; rr
@[simp] theorem printCurrentCmdFullName_R (D : Desc) (s : St) (x : List Byte) : SameR s (printCurrentCmdFullName D s x).1 := by
  simp [printCurrentCmdFullName]; rr
@[simp] theorem startPrintCmdList_R (D : Desc) (s : St) : SameR s (startPrintCmdList D s) := by simp [startPrintCmdList]; rr

/-- `P` is preserved (used with `P := RingInv D`) -/
abbrev Keeps (P : St → Prop) (s s' : St) : Prop := P s → P s'

theorem keeps_of_sameR {D : Desc} {s s' : St} (h : SameR s s') : Keeps (RingInv D) s s' := fun hi => hi.congr h

/-- a push, accepted or not, preserves the invariant -/
theorem pushUnsolicited_ring (D : Desc) (s : St) (c : Nat) (t : CmdType) : Keeps (RingInv D) s (pushUnsolicited D s c t).1 := by
  intro hi
  by_cases h : s.rcount = D.cap
  · rw [push_full D s c t h]; exact hi
  · exact (push_ok D s c t hi (by have := hi.count_le; omega)).2.1

theorem applyNested_ring (D : Desc) (f : Fsm) (e : Bool) (acts : List Nested) : ∀ s : St, Keeps (RingInv D) s (applyNested D f e s acts) := by
  induction acts with
  | nil => intro s h; simpa [applyNested] using h
  | cons a r ih =>
    intro s hi
    cases a with
    | trigger c t =>
      simp only [applyNested, withMutex]
      split
      · apply ih
        have := pushUnsolicited_ring D (s.emit (.lock 0)) c (cmdTypeOfInt t) (hi.congr (by simp))
        exact this.congr (by simp)
      · apply ih
        exact (pushUnsolicited_ring D s c (cmdTypeOfInt t) hi).congr (by simp)
    | holdExit st =>
      simp only [applyNested, withMutex]
      split <;> (apply ih; exact hi.congr (by simp))
    | poke slot off bs =>
      simp only [applyNested]
      split <;> (apply ih; exact hi.congr (by simp))
    | edit bs =>
      simp only [applyNested]
      split <;> (apply ih; exact hi.congr (by simp))
    | report n =>
      simp only [applyNested]
      split <;> (apply ih; exact hi.congr (by simp))

theorem varWriteCb_ring (D : Desc) (s : St) (v : VarD) (i : SvcIn) : Keeps (RingInv D) s (varWriteCb D s v i).1 := by
  intro hi; unfold varWriteCb; split
  · exact applyNested_ring D _ _ _ _ (hi.congr (by simp))
  · exact hi
theorem varReadCb_ring (D : Desc) (s : St) (f : Fsm) (v : VarD) (i : SvcIn) : Keeps (RingInv D) s (varReadCb D s f v i).1 := by
  intro hi; unfold varReadCb; simp only; split
  · exact applyNested_ring D _ _ _ _ (hi.congr (by simp))
  · exact hi

theorem doCall_R (D : Desc) (f : Fsm) (s : St) (c : Call) : SameR s (doCall D f s c) := by
  cases c <;> simp [doCall, enableHoldState]
theorem doCalls_R (D : Desc) (f : Fsm) (cs : List Call) : ∀ s : St, SameR s (doCalls D f s cs) := by
  induction cs with
  | nil => intro s; simp [doCalls]
  | cons c r ih =>
    intro s
    have a := doCall_R D f s c
    have b := ih (doCall D f s c)
    simp only [doCalls]
    simp_all

/-- **One step of the command machine preserves the ring invariant** (its callbacks may push). -/
theorem commandService_ring (D : Desc) (s : St) (i : SvcIn) : Keeps (RingInv D) s (commandService D s i).1 := by
  intro hi
  unfold commandService
  split
  · exact hi.congr (by simp [errorState]; rr)
  · exact hi.congr (by simp [processIdleState]; rr)
  · exact hi.congr (by simp [parsePrefix, prepareParseCommand]; rr)
  · exact hi.congr (by simp [parseCommand, prepareSearchCommand]; rr)
  · exact hi.congr (by simp [updateCommand, updateAdvance, updateLane, prepareSearchCommand]; rr)
  · exact hi.congr (by simp [waitReadAcknowledge, prepareSearchCommand]; rr)
  · exact hi.congr (by simp [searchCommand, notFoundOrError]; rr)
  · exact hi.congr (by simp [commandFound]; rr)
  · exact hi.congr (by simp [commandNotFound])
  · exact hi.congr (by simp [parseCommandArgs]; rr)
  · -- parse_write_args: the variable callback may trigger events
    simp only [parseWriteArgs]
    generalize hs0 : (s.chkUb s.cmd.isSome).chkUb _ = s0
    have h0 : RingInv D s0 := hi.congr (by subst hs0; simp)
    generalize hv : (D.cmdD (s.chkUb s.cmd.isSome).cmd).varAt _ = v
    have h1 : RingInv D (parseVarValue D s0 v).1 := h0.congr (by simp)
    split
    · exact h1.congr (by simp)
    · have h2 := varWriteCb_ring D (parseVarValue D s0 v).1 v i h1
      split
      · exact h2.congr (by simp)
      · (repeat' split) <;> exact h2.congr (by simp)
  · simp only [formatReadArgs]
    generalize hs0 : (s.chkUb (s.cmdOf .cmd).isSome).chkUb _ = s0
    have h0 : RingInv D s0 := hi.congr (by subst hs0; simp)
    generalize hv : (D.cmdD ((s.chkUb (s.cmdOf Fsm.cmd).isSome).cmdOf Fsm.cmd)).varAt _ = v
    have h1 := varReadCb_ring D s0 .cmd v i h0
    split
    · exact h1.congr (by simp)
    · have h2 : RingInv D (formatVar D (varReadCb D s0 .cmd v i).1 .cmd v).1 := h1.congr (by simp)
      split
      · exact h2.congr (by simp)
      · have h3 : RingInv D (nextFormatVar D (formatVar D (varReadCb D s0 .cmd v i).1 .cmd v).1 .cmd).1 := h2.congr (by simp)
        (repeat' split) <;> first | exact h3 | exact h3.congr (by simp)
  · exact hi.congr (by simp [waitTestAcknowledge]; rr)
  · exact hi.congr (by simp [formatTestArgs]; rr)
  · simp only [processWriteLoop]
    exact (applyNested_ring D _ _ _ _ (hi.congr (by simp))).congr (doCalls_R D _ _ _)
  · simp only [processReadLoop]
    exact (applyNested_ring D _ _ _ _ (hi.congr (by simp))).congr (doCalls_R D _ _ _)
  · simp only [processTestLoop]
    exact (applyNested_ring D _ _ _ _ (hi.congr (by simp))).congr (doCalls_R D _ _ _)
  · simp only [processRunLoop]
    exact (applyNested_ring D _ _ _ _ (hi.congr (by simp))).congr (doCalls_R D _ _ _)
  · exact hi.congr (by simp [processHoldState]; rr)
  · exact hi.congr (by simp [processIoWriteWait]; rr)
  · exact hi.congr (by simp [processIoWrite]; rr)
  · exact hi.congr (by simp [resetState]; rr)
  · exact hi.congr (by simp)
  · exact hi.congr (by simp)
  · exact hi.congr (by simp)
  · exact hi.congr (by simp [printCmdList, printCmdForm]; rr)


theorem checkUnsolicitedBuffers_ring (D : Desc) (s : St) : Keeps (RingInv D) s (checkUnsolicitedBuffers D s) := by
  intro hi
  unfold checkUnsolicitedBuffers
  split
  · exact hi
  · rename_i hne
    have hpos : 0 < s.rcount := by
      simp [Gen.is_unsolicited_buffer_empty] at hne; omega
    have hp := (pop_ok D s hi hpos).2.1
    simp only
    (repeat' split) <;> exact hp.congr (by simp)

/-- **One step of the unsolicited machine preserves the ring invariant.** -/
theorem unsolicitedEventsService_ring (D : Desc) (s : St) (i : SvcIn) : Keeps (RingInv D) s (unsolicitedEventsService D s i).1 := by
  intro hi
  unfold unsolicitedEventsService
  split
  · exact checkUnsolicitedBuffers_ring D s hi
  · simp only [formatReadArgs]
    generalize hs0 : (s.chkUb (s.cmdOf .uns).isSome).chkUb _ = s0
    have h0 : RingInv D s0 := hi.congr (by subst hs0; simp)
    generalize hv : (D.cmdD ((s.chkUb (s.cmdOf Fsm.uns).isSome).cmdOf Fsm.uns)).varAt _ = v
    have h1 := varReadCb_ring D s0 .uns v i h0
    split
    · exact h1.congr (by simp)
    · have h2 : RingInv D (formatVar D (varReadCb D s0 .uns v i).1 .uns v).1 := h1.congr (by simp)
      split
      · exact h2.congr (by simp)
      · have h3 : RingInv D (nextFormatVar D (formatVar D (varReadCb D s0 .uns v i).1 .uns v).1 .uns).1 := h2.congr (by simp)
        (repeat' split) <;> first | exact h3 | exact h3.congr (by simp)
  · exact hi.congr (by simp [formatTestArgs]; rr)
  · simp only [processReadLoop]
    exact (applyNested_ring D _ _ _ _ (hi.congr (by simp))).congr (doCalls_R D _ _ _)
  · simp only [processTestLoop]
    exact (applyNested_ring D _ _ _ _ (hi.congr (by simp))).congr (doCalls_R D _ _ _)
  · exact hi.congr (by simp [unsolicitedProcessIoWriteWait]; rr)
  · exact hi.congr (by simp [unsolicitedProcessIoWrite]; rr)
  · exact hi.congr (by simp [unsolicitedResetState])
  · exact hi.congr (by simp)
  · exact hi.congr (by simp)
  · exact hi.congr (by simp)

theorem service_ring (D : Desc) (s : St) (i : SvcIn) : Keeps (RingInv D) s (service D s i).1 := by
  unfold service
  exact withMutex_fst_frame D s i.lock i.unlock _ (Keeps (RingInv D)) (fun _ h => h)
    (fun _ _ _ h1 h2 h => h2 (h1 h)) (fun a e h => h.congr (by simp))
    (fun a h => commandService_ring D _ i (unsolicitedEventsService_ring D a i h))

/-- flag changes do not touch the capacity -/
theorem modifyCmd_cap (D : Desc) (id : Nat) (fn : CmdD → CmdD) : (D.modifyCmd id fn).cap = D.cap := by
  unfold Desc.modifyCmd; split <;> rfl

theorem apply_ring (w : World) (op : Op) (h : RingInv w.D w.s) : RingInv (apply w op).1.D (apply w op).1.s := by
  have clr : RingInv w.D { w.s with log := [] } := h.congr (by simp)
  cases op with
  | service i => exact service_ring w.D _ i clr
  | isBusy lk ul =>
    exact withMutex_fst_frame w.D _ lk ul isBusyBody (Keeps (RingInv w.D)) (fun _ h => h)
      (fun _ _ _ h1 h2 h => h2 (h1 h)) (fun a e h => h.congr (by simp)) (fun a h => h) clr
  | isHold lk ul =>
    exact withMutex_fst_frame w.D _ lk ul isHoldBody (Keeps (RingInv w.D)) (fun _ h => h)
      (fun _ _ _ h1 h2 h => h2 (h1 h)) (fun a e h => h.congr (by simp)) (fun a h => h) clr
  | isFull lk ul =>
    simp only [apply, catIsFull]
    exact withMutex_fst_frame w.D _ lk ul (isFullBody w.D) (Keeps (RingInv w.D)) (fun _ h => h)
      (fun _ _ _ h1 h2 h => h2 (h1 h)) (fun a e h => h.congr (by simp)) (fun a h => h) clr
  | trigger c t lk ul =>
    simp only [apply, catTrigger]
    exact withMutex_fst_frame w.D _ lk ul (fun s => pushUnsolicited w.D s c (cmdTypeOfInt t)) (Keeps (RingInv w.D)) (fun _ h => h)
      (fun _ _ _ h1 h2 h => h2 (h1 h)) (fun a e h => h.congr (by simp)) (fun a h => pushUnsolicited_ring w.D a c _ h) clr
  | holdExit st lk ul =>
    simp only [apply, catHoldExit]
    exact withMutex_fst_frame w.D _ lk ul (fun s => holdExit s st) (Keeps (RingInv w.D)) (fun _ h => h)
      (fun _ _ _ h1 h2 h => h2 (h1 h)) (fun a e h => h.congr (by simp)) (fun a h => h.congr (by simp)) clr
  | buffered c t => exact clr
  | setCmdDisable c v =>
    simp only [apply]
    exact ⟨by rw [modifyCmd_cap]; exact clr.cap_pos, by rw [modifyCmd_cap]; exact clr.len, by rw [modifyCmd_cap]; exact clr.head_lt,
      by rw [modifyCmd_cap]; exact clr.count_le, by rw [modifyCmd_cap]; exact clr.tail_eq⟩
  | setCmdOnlyTest c v =>
    simp only [apply]
    exact ⟨by rw [modifyCmd_cap]; exact clr.cap_pos, by rw [modifyCmd_cap]; exact clr.len, by rw [modifyCmd_cap]; exact clr.head_lt,
      by rw [modifyCmd_cap]; exact clr.count_le, by rw [modifyCmd_cap]; exact clr.tail_eq⟩
  | setGroupDisable g v => exact ⟨clr.cap_pos, clr.len, clr.head_lt, clr.count_le, clr.tail_eq⟩
  | poke slot off bs =>
    simp only [apply]
    split <;> exact clr.congr (by simp)

end Cat
