/-
  What the printing primitive leaves in the command region (C06: read and test handlers are handed the automatically
  formatted text, its length and the capacity).  `printN_txt`: a successful `print_nstring_to_buf` appends — the text so far,
  the printed bytes, a NUL, the cursor on the NUL; `TxtC.cstr_eq`: when the text holds no NUL, the C string the handler sees
  is exactly that text and `position` is its `strlen`; `startFormatRead_text`: for a command that answers READ through its
  read handler alone the first text is the name and `=`.
-/
import CatVerif.Proofs.NoOob
import CatVerif.Proofs.Resolve
namespace Cat
open St

/-- the command region starts with the text `t`, NUL-terminated, and the cursor stands on that NUL -/
def TxtC (D : Desc) (s : St) (t : List Byte) : Prop :=
  s.position = t.length ∧ t.length < D.cmdCap ∧ (∀ i, i < t.length → s.buf.getD i 0 = t.getD i 0) ∧ s.buf.getD t.length 0 = 0

theorem strlenOf_append_nul (t r : List Byte) (h : ∀ b ∈ t, b ≠ 0) : strlenOf (t ++ 0 :: r) = t.length := by
  induction t with
  | nil => simp [strlenOf]
  | cons b t ih =>
    have hb : b ≠ 0 := h b (by simp)
    simp only [List.cons_append, strlenOf, List.length_cons]
    have : (b == 0) = false := by simpa using hb
    rw [this]
    simp only [Bool.false_eq_true, if_false]
    rw [ih (fun x hx => h x (by simp [hx]))]; omega

/-- a NUL-free text under the cursor is what `strlen` sees: the handler's C string is exactly the text, its length the position -/
theorem TxtC.cstr_eq {D : Desc} {s : St} {t : List Byte} (hb : D.cmdCap ≤ s.buf.length) (h : TxtC D s t) (hn : ∀ b ∈ t, b ≠ 0) :
    cstr D s .cmd = (t, true) ∧ s.position = t.length := by
  obtain ⟨hp, hc, hpre, hz⟩ := h
  have hreg : region D s .cmd 0 = t ++ 0 :: ((s.buf.take D.cmdCap).drop (t.length + 1)) := by
    simp only [region, List.drop_zero]
    apply List.ext_getElem?
    intro i
    by_cases h1 : i < t.length
    · have := hpre i h1
      simp only [List.getD] at this
      rw [List.getElem?_append_left h1, List.getElem?_take]
      simp only [show i < D.cmdCap by omega, if_true]
      have hi : i < s.buf.length := by omega
      rw [List.getElem?_eq_getElem hi, List.getElem?_eq_getElem h1] at *
      simp at this ⊢; exact this
    · by_cases h2 : i = t.length
      · subst h2
        rw [List.getElem?_append_right (Nat.le_refl _)]
        simp only [Nat.sub_self, List.getElem?_cons_zero, List.getElem?_take, hc, if_true]
        have hi : t.length < s.buf.length := by omega
        simp only [List.getD, List.getElem?_eq_getElem hi, Option.getD_some] at hz
        rw [List.getElem?_eq_getElem hi, hz]
      · rw [List.getElem?_append_right (by omega)]
        have : i - t.length = (i - t.length - 1) + 1 := by omega
        rw [this, List.getElem?_cons_succ, List.getElem?_drop]
        congr 1; omega
  unfold cstr
  simp only [hreg]
  rw [strlenOf_append_nul t _ hn]
  refine ⟨?_, hp⟩
  simp


/-- the command region starts with the text `t` and the cursor stands behind it -/
def PreC (D : Desc) (s : St) (t : List Byte) : Prop :=
  s.position = t.length ∧ t.length ≤ D.cmdCap ∧ (∀ i, i < t.length → s.buf.getD i 0 = t.getD i 0)

theorem TxtC.pre {D : Desc} {s : St} {t : List Byte} (h : TxtC D s t) : PreC D s t := ⟨h.1, Nat.le_of_lt h.2.1, h.2.2.1⟩

/-- **the printing primitive appends**: a successful print leaves the old text, the printed bytes and a NUL, cursor on the NUL -/
theorem printN_txt {D : Desc} {s : St} {t : List Byte} (x : List Byte) (hb : D.cmdCap ≤ s.buf.length) (h : PreC D s t)
    (ok : (printN D s .cmd x).2 = true) :
    TxtC D (printN D s .cmd x).1 (t ++ x) ∧ D.cmdCap ≤ (printN D s .cmd x).1.buf.length := by
  obtain ⟨hp, hc, hpre⟩ := h
  unfold printN at ok ⊢
  simp only [St.pos, Desc.capOf] at ok ⊢
  have hle : s.position ≤ D.cmdCap := by omega
  simp only [hle, decide_true, St.chkUb, if_true] at ok ⊢
  by_cases hfit : x.length ≥ D.cmdCap - s.position
  · simp [hfit] at ok
  · simp only [hfit, if_false] at ok ⊢
    have hw := writeB_cmd_getD D x s.position s (by omega) hb
    have hl : (writeB D s .cmd s.position x).buf.length = s.buf.length := (writeB_cmd_UR D x s s.position).2.2
    have hlt : s.position + x.length < D.capOf .cmd := by show _ < D.cmdCap; omega
    refine ⟨⟨?_, ?_, ?_, ?_⟩, ?_⟩
    · simp only [setB, St.setPos, hp] at hlt ⊢; simp [hlt]
    · simp only [List.length_append]; omega
    · intro i hi
      simp only [List.length_append] at hi
      simp only [setB, hlt, if_true, St.setPos]
      have hne : i ≠ s.position + x.length := by omega
      simp only [List.getD]
      rw [List.getElem?_set_ne (Ne.symm hne)]
      have := hw i
      simp only [List.getD] at this
      rw [this]
      by_cases h1 : i < t.length
      · rw [if_neg (by omega), List.getElem?_append_left h1]
        have := hpre i h1
        simpa [List.getD] using this
      · rw [if_pos (by omega), List.getElem?_append_right (by omega), hp]
    · simp only [setB, hlt, if_true, St.setPos, List.length_append, List.getD]
      rw [hp]
      have : t.length + x.length < ((writeB D s .cmd t.length x).buf).length := by rw [← hp, hl]; omega
      exact set_get_zero _ _
    · have e : (setB D ((writeB D s .cmd s.position x).setPos .cmd (s.position + x.length)) .cmd (s.position + x.length) 0).buf.length
          = (writeB D s .cmd s.position x).buf.length := by
        simp [setB, hlt, St.setPos]
      rw [e, hl]; exact hb


theorem printAll_txt {D : Desc} : ∀ (xs : List (List Byte)) (s : St) (t : List Byte), D.cmdCap ≤ s.buf.length → PreC D s t →
    (printAll D s .cmd xs).2 = true → xs ≠ [] →
    TxtC D (printAll D s .cmd xs).1 (t ++ xs.flatten) ∧ D.cmdCap ≤ (printAll D s .cmd xs).1.buf.length := by
  intro xs
  induction xs with
  | nil => intro s t _ _ _ h; exact absurd rfl h
  | cons x r ih =>
    intro s t hb hp ok _
    simp only [printAll] at ok ⊢
    rcases hr : printN D s .cmd x with ⟨s1, o1⟩
    rw [hr] at ok
    cases o1
    · simp at ok
    · simp only [if_true] at ok ⊢
      have p1 := printN_txt x hb hp (by rw [hr])
      rw [hr] at p1
      cases r with
      | nil => simpa [printAll] using p1
      | cons y r' =>
        have := ih s1 (t ++ x) p1.2 p1.1.pre ok (by simp)
        simpa [List.append_assoc] using this


theorem printN_ok_iff (D : Desc) (s : St) (x : List Byte) (hp : s.position ≤ D.cmdCap) :
    (printN D s .cmd x).2 = decide (x.length < D.cmdCap - s.position) := by
  unfold printN
  simp only [St.pos, Desc.capOf, hp, decide_true, St.chkUb, if_true]
  by_cases h : x.length ≥ D.cmdCap - s.position
  · simp [h]
  · simp [h]; omega

/-- READ of a command that answers through its read handler alone: the text the handler is first called with is built
here — the name and `=`, NUL-terminated, cursor on the NUL -/
theorem startFormatRead_text (D : Desc) (s : St) (hb : D.cmdCap ≤ s.buf.length) (hc : s.cmd.isSome = true)
    (hv : varsAccessible (D.cmdD s.cmd) .ro = false) (hr : (D.cmdD s.cmd).hasRead = true)
    (hfit : (D.cmdD s.cmd).name.length + 1 < D.cmdCap) :
    (startFormatRead D s .cmd).state = .readLoop ∧ TxtC D (startFormatRead D s .cmd) ((D.cmdD s.cmd).name ++ [61]) ∧
    (startFormatRead D s .cmd).cmd = s.cmd ∧ D.cmdCap ≤ (startFormatRead D s .cmd).buf.length := by
  unfold startFormatRead
  simp only [St.setPos, St.cmdOf, hc, St.chkUb, if_true]
  generalize hs0 : ({ s with position := 0 } : St) = s0
  have hb0 : D.cmdCap ≤ s0.buf.length := by rw [← hs0]; exact hb
  have hc0 : s0.cmd = s.cmd := by rw [← hs0]
  have hp0 : PreC D s0 [] := ⟨by rw [← hs0]; rfl, Nat.zero_le _, fun i hi => by simp at hi⟩
  -- both prints succeed
  have ok1 : (printN D s0 .cmd (D.cmdD s.cmd).name).2 = true := by
    rw [printN_ok_iff D s0 _ (by rw [hp0.1]; exact Nat.zero_le _), hp0.1]; simp; omega
  have t1 := printN_txt (D.cmdD s.cmd).name hb0 hp0 ok1
  rcases hr1 : printN D s0 .cmd (D.cmdD s.cmd).name with ⟨s1, o1⟩
  rw [hr1] at ok1 t1
  simp only at ok1 t1
  subst ok1
  have ok2 : (printN D s1 .cmd [61]).2 = true := by
    rw [printN_ok_iff D s1 _ (by rw [t1.1.1]; simp; omega), t1.1.1]; simp; omega
  have t2 := printN_txt [61] t1.2 t1.1.pre ok2
  rcases hr2 : printN D s1 .cmd [61] with ⟨s2, o2⟩
  rw [hr2] at ok2 t2
  simp only at ok2 t2
  subst ok2
  have k1 := printN_frame D s0 .cmd (D.cmdD s.cmd).name
  have k2 := printN_frame D s1 .cmd [61]
  rw [hr1] at k1; rw [hr2] at k2
  simp only [SameCtlNP, SameC', SameU', SameH, SameR] at k1 k2
  have hcmd : s2.cmd = s.cmd := by rw [k2.1.1.2.2.2.2.1, k1.1.1.2.2.2.2.1, hc0]
  simp only [printAll, hr1, hr2, if_true, Bool.not_true, Bool.false_eq_true, if_false, hv, hr, setStateRL]
  refine ⟨trivial, ?_, hcmd, t2.2⟩
  have := t2.1
  simpa [TxtC, List.append_assoc] using this

theorem printAll_fits {D : Desc} : ∀ (xs : List (List Byte)) (s : St) (t : List Byte), D.cmdCap ≤ s.buf.length → PreC D s t →
    t.length + xs.flatten.length < D.cmdCap → (printAll D s .cmd xs).2 = true := by
  intro xs
  induction xs with
  | nil => intro s t _ _ _; rfl
  | cons x r ih =>
    intro s t hb hp hfit
    simp only [List.flatten_cons, List.length_append] at hfit
    have ok1 : (printN D s .cmd x).2 = true := by
      rw [printN_ok_iff D s x (by rw [hp.1]; exact hp.2.1), hp.1]; simp; omega
    have t1 := printN_txt x hb hp ok1
    simp only [printAll]
    rcases hr : printN D s .cmd x with ⟨s1, o1⟩
    rw [hr] at ok1 t1
    simp only at ok1 t1
    subst ok1
    simp only [if_true]
    exact ih s1 (t ++ x) t1.2 t1.1.pre (by simp only [List.length_append]; omega)

theorem printAll_keep (D : Desc) : ∀ (xs : List (List Byte)) (s : St),
    (printAll D s .cmd xs).1.cmd = s.cmd ∧ (printAll D s .cmd xs).1.crFlag = s.crFlag ∧ (printAll D s .cmd xs).1.state = s.state := by
  intro xs
  induction xs with
  | nil => intro s; exact ⟨rfl, rfl, rfl⟩
  | cons x r ih =>
    intro s
    simp only [printAll]
    have k := printN_frame D s .cmd x
    simp only [SameCtlNP, SameC', SameU', SameH, SameR] at k
    rcases hr : printN D s .cmd x with ⟨s1, o1⟩
    rw [hr] at k
    cases o1
    · exact ⟨k.1.1.2.2.2.2.1, k.1.1.2.2.2.2.2.2.2.2.1, k.1.1.2.2.2.2.2.2.2.1⟩
    · simp only [if_true]
      have := ih s1
      exact ⟨this.1.trans k.1.1.2.2.2.2.1, this.2.1.trans k.1.1.2.2.2.2.2.2.2.2.1, this.2.2.trans k.1.1.2.2.2.2.2.2.2.1⟩

theorem printResponseTest_eq (D : Desc) (s : St) (hc : s.cmd.isSome = true) :
    printResponseTest D s .cmd =
      (let r := match (D.cmdD s.cmd).desc with
         | some d => printAll D s .cmd [nlStr s, d]
         | none => (s, true)
       if !r.2 then (r.1, false)
       else if (D.cmdD s.cmd).hasTest then (setStateTL r.1 .cmd, true)
       else (startFlush r.1 .cmd .ok, true)) := by
  unfold printResponseTest
  simp only [St.cmdOf, St.chkUb, hc, if_true]
  cases (D.cmdD s.cmd).desc <;> rfl

/-- the text of the TEST response a test handler is first called with, for a command without variables: the name, `=`
and — when the command has a description — a line break and the description -/
def testText (c : CmdD) (nl : List Byte) : List Byte :=
  c.name ++ [61] ++ (match c.desc with | some d => nl ++ d | none => [])

theorem startFormatTest_text (D : Desc) (s : St) (hb : D.cmdCap ≤ s.buf.length) (hc : s.cmd.isSome = true)
    (hv : ((D.cmdD s.cmd).vars.isSome && decide ((D.cmdD s.cmd).varNum > 0)) = false) (ht : (D.cmdD s.cmd).hasTest = true)
    (hfit : (testText (D.cmdD s.cmd) (nlStr s)).length < D.cmdCap) :
    (startFormatTest D s .cmd).state = .testLoop ∧ TxtC D (startFormatTest D s .cmd) (testText (D.cmdD s.cmd) (nlStr s)) ∧
    (startFormatTest D s .cmd).cmd = s.cmd ∧ D.cmdCap ≤ (startFormatTest D s .cmd).buf.length := by
  unfold startFormatTest
  simp only [St.setPos, St.cmdOf, hc, St.chkUb, if_true]
  generalize hs0 : ({ s with position := 0 } : St) = s0
  have hb0 : D.cmdCap ≤ s0.buf.length := by rw [← hs0]; exact hb
  have hc0 : s0.cmd = s.cmd := by rw [← hs0]
  have hcr0 : s0.crFlag = s.crFlag := by rw [← hs0]
  have hp0 : PreC D s0 [] := ⟨by rw [← hs0]; rfl, Nat.zero_le _, fun i hi => by simp at hi⟩
  generalize hcd : D.cmdD s.cmd = c at *
  have hlen : (c.name ++ [61]).length ≤ (testText c (nlStr s)).length := by
    unfold testText; simp only [List.length_append]; omega
  have ok1 : (printAll D s0 .cmd [c.name, [61]]).2 = true :=
    printAll_fits _ s0 [] hb0 hp0 (by simp at hlen ⊢; omega)
  have t1 := printAll_txt [c.name, [61]] s0 [] hb0 hp0 ok1 (by simp)
  have k1 := printAll_keep D [c.name, [61]] s0
  rcases hr1 : printAll D s0 .cmd [c.name, [61]] with ⟨s1, o1⟩
  rw [hr1] at ok1 t1 k1
  simp only at ok1 t1 k1
  subst ok1
  simp only [Bool.not_true, Bool.false_eq_true, if_false, hv]
  have hc1 : s1.cmd.isSome = true := by rw [k1.1, hc0]; exact hc
  have hcd1 : D.cmdD s1.cmd = c := by rw [k1.1, hc0]; exact hcd
  rw [printResponseTest_eq D s1 hc1]
  simp only [hcd1]
  cases hd : c.desc with
  | none =>
    simp only [Bool.not_true, Bool.false_eq_true, if_false, ht, if_true, setStateTL]
    refine ⟨trivial, ?_, by rw [k1.1, hc0], t1.2⟩
    have := t1.1
    simpa [TxtC, testText, hd] using this
  | some d =>
    have hnl : nlStr s1 = nlStr s := by simp only [nlStr, k1.2.1, hcr0]
    have hfit2 : (testText c (nlStr s)).length = (c.name ++ [61]).length + ([nlStr s1, d] : List (List Byte)).flatten.length := by
      simp [testText, hd, hnl]; omega
    have ok2 : (printAll D s1 .cmd [nlStr s1, d]).2 = true :=
      printAll_fits _ s1 _ t1.2 (by simpa using t1.1.pre) (by rw [← hfit2]; exact hfit)
    have t2 := printAll_txt [nlStr s1, d] s1 _ t1.2 (by simpa using t1.1.pre) ok2 (by simp)
    have k2 := printAll_keep D [nlStr s1, d] s1
    rcases hr2 : printAll D s1 .cmd [nlStr s1, d] with ⟨s2, o2⟩
    rw [hr2] at ok2 t2 k2
    simp only at ok2 t2 k2
    subst ok2
    simp only [hr2, Bool.not_true, Bool.false_eq_true, if_false, ht, if_true, setStateTL]
    refine ⟨trivial, ?_, by rw [k2.1, k1.1, hc0], t2.2⟩
    have := t2.1
    simpa [TxtC, testText, hd, hnl, List.append_assoc] using this


end Cat
