/-
  Liveness and the line accounting composed (C01 + C15): when the input consumed so far ends with a
  complete line and no command is on hold, a run of `cat_service` calls without further input, with
  an accepting output and handlers that answer finally ends — after more than `mu` calls, however
  many — with both machines at rest, the command machine in IDLE, and exactly as many result codes
  started as lines were begun: every line has been answered, once.
-/
import CatVerif.Proofs.Live
import CatVerif.Proofs.MidLine
import CatVerif.Proofs.Stutter
namespace Cat
open St

/-- without a byte read, a step of the command machine leaves the last consumed byte alone -/
theorem commandService_cc_noread (D : Desc) (s : St) (i : SvcIn) (hi : i.rd = none) :
    (commandService D s i).1.currentChar = s.currentChar := by
  by_cases hr : Reading s.state
  · rw [read_refused D s i hr hi]; rfl
  · unfold Reading at hr
    unfold commandService
    split <;> rename_i hs <;> (try (simp [hs] at hr))
    · exact updateCommand_cc D s
    · exact searchCommand_cc D s
    · exact commandFound_cc D s
    · simp [commandNotFound]
    · exact parseWriteArgs_cc D s i
    · exact formatReadArgs_cc D s .cmd i
    · exact formatTestArgs_cc D s .cmd
    · exact processWriteLoop_cc D s i
    · exact processReadLoop_cc D s .cmd i
    · exact processTestLoop_cc D s .cmd i
    · exact processRunLoop_cc D s i
    · exact processHoldState_cc D s
    · exact processIoWriteWait_cc s
    · exact processIoWrite_cc D s i
    · simp [resetState]; split <;> rfl
    · simp
    · simp
    · simp
    · exact printCmdList_cc D s

theorem serviceBody_cc_noread (D : Desc) (s : St) (i : SvcIn) (hi : i.rd = none) (hu : i.hu.ret ≠ 4) :
    (serviceBody D s i).1.currentChar = s.currentChar := by
  have k := unsolicitedEventsService_keepsC D s i hu
  simp only [KeepsCH, SameC'] at k
  unfold serviceBody
  simp only
  rw [commandService_cc_noread D _ i hi]
  exact k.1.2.2.2.2.2.2.1

theorem service_cc_noread (D : Desc) (s : St) (i : SvcIn) (hi : i.rd = none) (hu : i.hu.ret ≠ 4) :
    (service D s i).1.currentChar = s.currentChar := by
  unfold service withMutex
  split
  · split
    · rfl
    · simp only
      split <;> simp only [St.emit] <;> exact serviceBody_cc_noread D _ i hi hu
  · exact serviceBody_cc_noread D s i hi hu

/-- the state after a call that reports OK, and after any call made at rest -/
theorem service_ok_quiescent (D : Desc) (s : St) (i : SvcIn) (h : (service D s i).2 = Gen.CAT_STATUS_OK) :
    Quiescent (service D s i).1 := by
  unfold service withMutex at *
  split at h
  · split at h
    · simp [Gen.CAT_STATUS_ERROR_MUTEX_LOCK, Gen.CAT_STATUS_OK] at h
    · simp only at h ⊢
      split at h
      · simp [Gen.CAT_STATUS_ERROR_MUTEX_UNLOCK, Gen.CAT_STATUS_OK] at h
      · rename_i h1 h2 h3
        simp only [h1, h2, h3, if_true, if_false, ite_false]
        have q := serviceBody_ok_quiescent D _ i h
        simpa [Quiescent, St.emit] using q
  · rename_i h1
    simp only [h1, if_false]
    exact serviceBody_ok_quiescent D s i h

theorem service_rest_stays (D : Desc) (s : St) (i : SvcIn) (q : Quiescent s) (t : TermIn i) :
    Quiescent (service D s i).1 ∧ (service D s i).2 = Gen.CAT_STATUS_OK := by
  unfold service withMutex
  split
  · simp only [t.lk, ne_eq, not_true_eq_false, if_false, t.ul]
    have q' : Quiescent (s.emit (.lock 0)) := by simpa [Quiescent, St.emit] using q
    rw [serviceBody_quiescent_repeat D _ i q' t.rd]
    exact ⟨by simpa [Quiescent, St.emit] using q, rfl⟩
  · simp only []
    rw [serviceBody_quiescent_repeat D s i q t.rd]
    exact ⟨by simpa [Quiescent, St.emit] using q, rfl⟩

theorem runSvc_rest_stays (D : Desc) : ∀ (is : List SvcIn) (s : St), (∀ i ∈ is, TermIn i) → Quiescent s →
    Quiescent (runSvc D s is).1 := by
  intro is
  induction is with
  | nil => intro s _ q; exact q
  | cons i r ih =>
    intro s ht q
    simp only [runSvc]
    have q0 : Quiescent ({ s with log := [] } : St) := by simpa [Quiescent] using q
    exact ih _ (fun j hj => ht j (by simp [hj])) (service_rest_stays D _ i q0 (ht i (by simp))).1

theorem runSvc_cc (D : Desc) : ∀ (is : List SvcIn) (s : St), (∀ i ∈ is, TermIn i) →
    (runSvc D s is).1.currentChar = s.currentChar := by
  intro is
  induction is with
  | nil => intro s _; rfl
  | cons i r ih =>
    intro s ht
    simp only [runSvc]
    rw [ih _ (fun j hj => ht j (by simp [hj]))]
    exact service_cc_noread D _ i (ht i (by simp)).rd (ht i (by simp)).hu.2.2

/-- **Rest is reached and kept**: after more than `mu D s` such calls both machines are at rest -/
theorem runSvc_rest (D : Desc) : ∀ (is : List SvcIn) (s : St), (∀ i ∈ is, TermIn i) → Live D s → mu D s < is.length →
    Quiescent (runSvc D s is).1 := by
  intro is
  induction is with
  | nil => intro s _ _ h; simp at h
  | cons i r ih =>
    intro s ht l hlen
    have sv := service_live D { s with log := [] } i (ht i (by simp)) l.clear
    rw [mu_clear] at sv
    have hq := service_ok_quiescent D { s with log := [] } i
    simp only [runSvc]
    generalize service D { s with log := [] } i = r1 at sv hq
    obtain ⟨s1, ret⟩ := r1
    simp only at sv hq ⊢
    rcases sv.2 with h | h
    · exact runSvc_rest_stays D r s1 (fun j hj => ht j (by simp [hj])) (hq h)
    · exact ih s1 (fun j hj => ht j (by simp [hj])) sv.1 (by simp only [List.length_cons] at hlen; omega)

/-- a run of service calls as a history -/
theorem runOps_services (D : Desc) : ∀ (is : List SvcIn) (s : St),
    (runOps ⟨D, s⟩ (is.map .service)).1 = ⟨D, (runSvc D s is).1⟩ := by
  intro is
  induction is with
  | nil => intro s; simp [runOps, runSvc]
  | cons i r ih =>
    intro s
    simp only [List.map_cons, runOps, runSvc, apply]
    exact ih _

/-- **Every line is answered, once.**  From any world satisfying the line invariants and owing no
answer: after a history `ops` whose last consumed byte is the LF of a line and which does not end
in a hold, any run of more than `mu` calls without input, with accepting output and final handler
answers ends in IDLE with both machines at rest, and over the whole history the result codes
started equal the lines begun. -/
theorem lines_answered (w : World) (ops : List Op) (hok : ∀ op ∈ ops, OpOk op)
    (hinv : LineInv w.s) (hmid : MidLine w.s) (howe : owes w.s = 0)
    (hlive : Live (runOps w ops).1.D (runOps w ops).1.s) (hlf : (runOps w ops).1.s.currentChar = 10)
    (is : List SvcIn) (ht : ∀ i ∈ is, TermIn i) (hlen : mu (runOps w ops).1.D (runOps w ops).1.s < is.length) :
    let r := runOps w (ops ++ is.map .service)
    r.1.s.state = .idle ∧ r.1.s.ustate = .idle ∧ r.1.s.rcount = 0 ∧
    acksIn r.2 = linesBegun w (ops ++ is.map .service) := by
  have hok' : ∀ op ∈ ops ++ is.map .service, OpOk op := by
    intro op hop
    rcases List.mem_append.1 hop with h | h
    · exact hok op h
    · obtain ⟨i, hi, rfl⟩ := List.mem_map.1 h
      exact (ht i hi).hu.2.2
  have e : (runOps w (ops ++ is.map .service)).1 =
      ⟨(runOps w ops).1.D, (runSvc (runOps w ops).1.D (runOps w ops).1.s is).1⟩ := by
    rw [runOps_append]
    exact runOps_services _ is _
  have q := runSvc_rest _ is _ ht hlive hlen
  have cc := runSvc_cc (runOps w ops).1.D is (runOps w ops).1.s ht
  have m := runOps_mid _ w hok' hinv hmid
  have acc := runOps_line _ w hok' hinv
  simp only
  rw [e] at m acc ⊢
  simp only at m acc ⊢
  have hid := idle_of_rest m q.2.2 (by rw [cc]; exact hlf)
  refine ⟨hid, q.1, q.2.1, ?_⟩
  have o1 : owes (runSvc (runOps w ops).1.D (runOps w ops).1.s is).1 = 0 := by simp [owes, hid]
  have := acc.2
  rw [o1, howe] at this
  have e2 : (runOps w (ops ++ is.map .service)).2 = (runOps w (ops ++ is.map .service)).2 := rfl
  omega

end Cat
