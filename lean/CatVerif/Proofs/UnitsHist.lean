/-
  Output units of the command machine along whole histories (C11): everything the command machine
  ever gets accepted by `io->write` is a concatenation of whole units — line break, text without
  NUL, line break; or the raw text of a command-list line — followed by the part already sent of
  the unit in progress.  Uses the text-termination invariants of `Proofs/NoOob.lean` to discharge
  the hypothesis `FlushInv` of `Proofs/Units.lean` at every unit start.
-/
import CatVerif.Proofs.Units
import CatVerif.Proofs.NoOobHist
namespace Cat
open St

/-! ### shape of a unit -/

def IsNl (x : List Byte) : Prop := x = [10] ∨ x = [13, 10]

/-- line break ++ text ++ line break, or the bare text (command-list line); the text holds no NUL -/
def UnitShape (u : List Byte) : Prop :=
  ∃ a b p, IsNl a ∧ IsNl b ∧ (∀ x ∈ p, x ≠ 0) ∧ (u = a ++ p ++ b ∨ u = p)

theorem nlBytes_isNl (off : Nat) (h : off ≤ 1) : IsNl (nlBytes off) := by
  have : off = 0 ∨ off = 1 := by omega
  rcases this with e | e <;> subst e
  · right; rfl
  · left; rfl

theorem nlStr_isNl (s : St) : IsNl (nlStr s) := by
  unfold nlStr; split
  · right; rfl
  · left; rfl

theorem takeWhile_all (p : Byte → Bool) : ∀ l : List Byte, ∀ x ∈ l.takeWhile p, p x = true := by
  intro l
  induction l with
  | nil => intro x hx; simp at hx
  | cons a t ih =>
    intro x hx
    rw [List.takeWhile_cons] at hx
    split at hx
    · rename_i ha
      rcases List.mem_cons.1 hx with e | e
      · rw [e]; exact ha
      · exact ih x e
    · simp at hx

theorem takeWhile_ne (l : List Byte) : ∀ x ∈ l.takeWhile (· ≠ 0), x ≠ 0 := by
  intro x hx
  have := takeWhile_all (fun x => decide (x ≠ 0)) l x hx
  simpa using this

theorem takeWhile_short (p : Byte → Bool) : ∀ l : List Byte, (∃ x ∈ l, p x = false) → (l.takeWhile p).length < l.length := by
  intro l
  induction l with
  | nil => intro h; obtain ⟨x, hx, _⟩ := h; simp at hx
  | cons a t ih =>
    intro h
    rw [List.takeWhile_cons]
    split
    · rename_i ha
      obtain ⟨x, hx, hp⟩ := h
      rcases List.mem_cons.1 hx with e | e
      · rw [e, ha] at hp; exact absurd hp (by simp)
      · have := ih ⟨x, e, hp⟩
        simp only [List.length_cons]; omega
    · simp

theorem takeWhile_lt_of_mem (l : List Byte) (h : 0 ∈ l) : (l.takeWhile (· ≠ 0)).length < l.length :=
  takeWhile_short (fun x => decide (x ≠ 0)) l ⟨0, h, by simp⟩

theorem hasNul_term {D : Desc} {s : St} (hb : BufOk D s) (h : HasNul D s .cmd 0) :
    (payloadC D s).length < (region D s .cmd 0).length :=
  takeWhile_lt_of_mem _ ((hasNul_region hb).1 h)

/-- a unit that has just been started: its bookkeeping is consistent and what remains to be sent
is the whole unit, of the right shape -/
theorem entry_unit {D : Desc} {s : St} (hb : BufOk D s) (o : OobF D s .cmd) (hw : s.state = .flushWait) :
    FlushInv D s ∧ UnitShape (remC D s) := by
  have e := o.wait hw
  have hph : s.ph .cmd = .flush := by simp [St.ph, hw, CState.ph]
  have hpos : s.position = 0 := e.pos
  rcases e.src with ⟨h0, off, hle, hsrc⟩ | ⟨h2, hsrc⟩
  · simp only [St.wst, St.wsrc] at h0 hsrc
    have hn := o.first hph h0
    refine ⟨⟨hasNul_term hb hn, fun h => by rw [hsrc] at h; exact WSrc.noConfusion h, Or.inl ⟨h0, off, hsrc⟩⟩, ?_⟩
    refine ⟨nlBytes off, nlStr s, payloadC D s, nlBytes_isNl off hle, nlStr_isNl s, takeWhile_ne _, Or.inl ?_⟩
    simp [remC, hw, h0, hsrc, hpos]
  · simp only [St.wst, St.wsrc] at h2 hsrc
    have hn := o.main hph hsrc
    simp only [St.pos] at hn
    rw [hpos] at hn
    refine ⟨⟨hasNul_term hb hn, fun _ => by rw [hpos]; exact Nat.zero_le _, Or.inr (Or.inr h2)⟩, ?_⟩
    refine ⟨[10], [10], payloadC D s, Or.inl rfl, Or.inl rfl, takeWhile_ne _, Or.inr ?_⟩
    simp [remC, hw, h2, hsrc, hpos]

/-! ### accounting over one `cat_service` -/

theorem outC_tr (l : List Ev) : outC l = outC (tr .wrC l) := by
  induction l with
  | nil => rfl
  | cons x t ih =>
    have : x :: t = [x] ++ t := rfl
    rw [this, outC_append, tr_append, outC_append, ih]
    congr 1
    cases x <;> simp [outC, tr, cls] <;> (rename_i f _ _ _; cases f <;> simp [cls])

/-- while a unit is being sent its bookkeeping is consistent -/
def FlushOk (D : Desc) (s : St) : Prop := (s.state = .flushWait ∨ s.state = .flushWrite) → FlushInv D s

theorem remC_idle (D : Desc) (s : St) (h : ¬ (s.state = .flushWait ∨ s.state = .flushWrite)) : remC D s = [] := by
  simp [remC, h]

/-- **One `cat_service` body**: the bytes accepted from the command machine plus what remains of its
unit grow by at most one new whole unit (started in this call), and by nothing else. -/
theorem serviceBody_units {D : Desc} (s : St) (i : SvcIn) (hu : i.hu.ret ≠ 4) (hn : 0 < D.commandsNum)
    (w : Wf D s) (ub : UbAll D s) (o : OobAll D s) (fo : FlushOk D s) :
    ∃ new : List (List Byte), (∀ u ∈ new, UnitShape u) ∧
      outC (serviceBody D s i).1.log ++ remC D (serviceBody D s i).1 = outC s.log ++ remC D s ++ new.flatten ∧
      FlushOk D (serviceBody D s i).1 := by
  have so := serviceBody_oob s i hu hn w ub o
  obtain ⟨us, uo⟩ := unsolicitedEventsService_unitSame D s i hu
  by_cases hf : s.state = .flushWait ∨ s.state = .flushWrite
  · -- a unit is in progress
    refine ⟨[], by simp, by simpa using serviceBody_unit D s i hu (hf.symm) (fo hf), ?_⟩
    intro hf'
    unfold serviceBody at hf' ⊢
    simp only at hf' ⊢
    generalize unsolicitedEventsService D s i = r at us uo hf'
    obtain ⟨u, ur⟩ := r
    simp only at us uo hf' ⊢
    have hv' := us.inv (fo hf)
    unfold commandService at hf' ⊢
    rcases hf with hs | hs
    · have hs' : u.state = .flushWait := by rw [us.1, hs]
      simp only [hs'] at hf' ⊢
      exact (processIoWriteWait_unit D u hs').2.2.1 hv'
    · have hs' : u.state = .flushWrite := by rw [us.1, hs]
      simp only [hs'] at hf' ⊢
      have pw := processIoWrite_unit D u i hs' hv'
      rcases hf' with h | h
      · have := pw.2.2.2 (by rw [h]; decide)
        rw [this.2] at h
        cases hx : u.writeStateAfter <;> simp [hx, After.toC] at h
      · exact pw.2.2.1 h
  · -- no unit in progress: at most one starts
    have r0 : remC D s = [] := remC_idle D s hf
    unfold serviceBody at so ⊢
    simp only at so ⊢
    generalize hr : unsolicitedEventsService D s i = r at us uo so
    obtain ⟨u, ur⟩ := r
    simp only at us uo so ⊢
    have hfu : ¬ (u.state = .flushWait ∨ u.state = .flushWrite) := by rw [us.1]; exact hf
    have nw := commandService_no_write D u i (fun h => hfu (Or.inr h))
    simp only [Quiet] at nw
    have oc : outC (commandService D u i).1.log = outC s.log := by rw [outC_tr, nw, ← outC_tr, uo]
    by_cases hw : (commandService D u i).1.state = .flushWait
    · have en := entry_unit so.2.1.buf so.2.2.c hw
      exact ⟨[remC D (commandService D u i).1], by simpa using en.2, by simp [oc, r0], fun _ => en.1⟩
    · have hnw : (commandService D u i).1.state ≠ .flushWrite := by
        intro h
        rcases cmd_flushWrite D u i h with g | g
        · exact hfu (Or.inr g)
        · exact hfu (Or.inl g.1)
      have r1 : remC D (commandService D u i).1 = [] := remC_idle D _ (by intro h; rcases h with h | h; exact hw h; exact hnw h)
      exact ⟨[], by simp, by simp [oc, r0, r1], fun h => by rcases h with h | h; exact absurd h hw; exact absurd h hnw⟩

/-! ### one API call, a history -/

/-- fields `remC`, `FlushInv` read: unchanged -/
theorem Still.unit {D : Desc} {s s' : St} (h : Still s s') : remC D s' = remC D s ∧ (FlushOk D s → FlushOk D s') := by
  have us : UnitSame D s s' :=
    ⟨h.1.c.2.2.2.2.2.2.2.1, h.1.c.2.2.2.2.2.2.2.2.2.2.1, h.1.c.2.2.2.2.2.2.2.2.2.1, h.1.p.1, h.1.c.2.2.2.2.2.2.2.2.1, by rw [h.1.b.1]⟩
  exact ⟨us.rem, fun fo hf => us.inv (fo (by rw [← us.1]; exact hf))⟩

theorem outC_emit_lock (a : St) (r : Int) : outC (a.emit (.lock r)).log = outC a.log ∧ outC (a.emit (.unlock r)).log = outC a.log := by
  have e1 : outC [Ev.lock r] = [] := rfl
  have e2 : outC [Ev.unlock r] = [] := rfl
  constructor
  · rw [emit_log, outC_append, e1, List.append_nil]
  · rw [emit_log, outC_append, e2, List.append_nil]

theorem DescEq.unit {D D' : Desc} (de : DescEq D D') (s : St) :
    remC D' s = remC D s ∧ (FlushOk D s → FlushOk D' s) := by
  have hc : D'.cmdCap = D.cmdCap := de.capOf .cmd
  have e : payloadC D' s = payloadC D s ∧ region D' s .cmd 0 = region D s .cmd 0 := by simp [payloadC, region, hc]
  refine ⟨by simp [remC, e.1], fun fo hf => ?_⟩
  have h := fo hf
  exact ⟨by rw [e.1, e.2]; exact h.term, by rw [e.1]; exact h.cursor, h.phase⟩

theorem withMutex_units (D : Desc) (s : St) (lk ul : Int) (body : St → St × Int)
    (P : St → Prop) (hemit : ∀ a e, P a → P (a.emit e) ∧ remC D (a.emit e) = remC D a)
    (hbody : ∀ a, P a → ∃ new : List (List Byte), (∀ u ∈ new, UnitShape u) ∧
        outC (body a).1.log ++ remC D (body a).1 = outC a.log ++ remC D a ++ new.flatten ∧ P (body a).1) (h : P s) :
    ∃ new : List (List Byte), (∀ u ∈ new, UnitShape u) ∧
      outC (withMutex D s lk ul body).1.log ++ remC D (withMutex D s lk ul body).1 = outC s.log ++ remC D s ++ new.flatten ∧
      P (withMutex D s lk ul body).1 := by
  unfold withMutex
  split
  · split
    · exact ⟨[], by simp, by rw [(outC_emit_lock s lk).1, (hemit s (.lock lk) h).2]; simp, (hemit _ _ h).1⟩
    · have h1 := hemit s (.lock lk) h
      obtain ⟨new, hs, he, hp⟩ := hbody _ h1.1
      have h2 := hemit (body (s.emit (.lock lk))).1 (.unlock ul) hp
      refine ⟨new, hs, ?_, by split <;> exact h2.1⟩
      have e1 := (outC_emit_lock s lk).1
      have e2 := (outC_emit_lock (body (s.emit (.lock lk))).1 ul).2
      simp only
      split <;> (rw [e2, h2.2, he, e1, h1.2])
  · exact hbody _ h

/-- the invariants of this file and of the out-of-bounds proof together -/
structure GoodU (w : World) : Prop where
  good : Good w
  fo : FlushOk w.D w.s

theorem apply_units (w : World) (op : Op) (hop : OpOk op) (g : GoodU w) :
    ∃ new : List (List Byte), (∀ u ∈ new, UnitShape u) ∧
      outC (apply w op).1.s.log ++ remC (apply w op).1.D (apply w op).1.s = remC w.D w.s ++ new.flatten ∧
      GoodU (apply w op).1 := by
  have ag := apply_good w op hop g.good
  have clr : Still w.s ({ w.s with log := [] } : St) := ⟨⟨by simp, by simp, by simp, by simp⟩, rfl, rfl⟩
  have still : ∀ s' : St, (apply w op).1.D = w.D → (apply w op).1.s = s' → Still ({ w.s with log := [] } : St) s' → outC s'.log = [] →
      ∃ new : List (List Byte), (∀ u ∈ new, UnitShape u) ∧
        outC (apply w op).1.s.log ++ remC (apply w op).1.D (apply w op).1.s = remC w.D w.s ++ new.flatten ∧ GoodU (apply w op).1 := by
    intro s' hD hs hst ho
    have u := (clr.trans hst).unit (D := w.D)
    refine ⟨[], by simp, ?_, ⟨ag.2, ?_⟩⟩
    · rw [hD, hs, ho, u.1]; simp
    · rw [hD, hs]; exact u.2 g.fo
  have noOut : ∀ (D : Desc) (s : St) (lk ul : Int) (body : St → St × Int), outC s.log = [] → (∀ a, outC a.log = [] → outC (body a).1.log = []) →
      outC (withMutex D s lk ul body).1.log = [] := by
    intro D s lk ul body h0 hb
    unfold withMutex
    split
    · split
      · rw [(outC_emit_lock s lk).1]; exact h0
      · have := hb (s.emit (.lock lk)) (by rw [(outC_emit_lock s lk).1]; exact h0)
        simp only
        split <;> (rw [(outC_emit_lock _ ul).2]; exact this)
    · exact hb _ h0
  cases op with
  | service i =>
    have key := withMutex_units w.D ({ w.s with log := [] } : St) i.lock i.unlock (fun s => serviceBody w.D s i)
      (fun a => Wf w.D a ∧ UbAll w.D a ∧ OobAll w.D a ∧ FlushOk w.D a)
      (fun a e h => by
        have st := Still.emit a e
        have k := st.keep (h.1.ring.congr (by simp)) h.1 h.2.2.1
        have u := st.unit (D := w.D)
        exact ⟨⟨k.1, (UbSame.emit a e).inv h.2.1.1 h.2.1.2, k.2, u.2 h.2.2.2⟩, u.1⟩)
      (fun a h => by
        obtain ⟨new, hs, he, hf⟩ := serviceBody_units a i hop g.good.num h.1 h.2.1 h.2.2.1 h.2.2.2
        have so := serviceBody_oob a i hop g.good.num h.1 h.2.1 h.2.2.1
        exact ⟨new, hs, he, so.2.1, (serviceBody_noUb w.D a i hop g.good.num h.2.1).2, so.2.2, hf⟩)
      (by
        have k := clr.keep (g.good.wf.ring.congr (by simp)) g.good.wf g.good.oob
        exact ⟨k.1, (show UbSame w.s { w.s with log := [] } from ⟨rfl, rfl, rfl, rfl, rfl, rfl, rfl, rfl, rfl, rfl, rfl⟩).inv g.good.ub.1 g.good.ub.2, k.2,
          (clr.unit (D := w.D)).2 g.fo⟩)
    obtain ⟨new, hs, he, hp⟩ := key
    refine ⟨new, hs, ?_, ⟨ag.2, hp.2.2.2⟩⟩
    have : remC w.D ({ w.s with log := [] } : St) = remC w.D w.s := (clr.unit (D := w.D)).1
    simp only [apply, service] at he ⊢
    rw [he, this]; simp [outC]
  | isBusy lk ul =>
    have st := withMutex_still w.D ({ w.s with log := [] } : St) lk ul isBusyBody (fun a ha => ⟨.refl a, ha⟩) (g.good.wf.ring.congr (by simp))
    exact still _ rfl rfl st.1 (noOut _ _ _ _ _ rfl (fun a h => h))
  | isHold lk ul =>
    have st := withMutex_still w.D ({ w.s with log := [] } : St) lk ul isHoldBody (fun a ha => ⟨.refl a, ha⟩) (g.good.wf.ring.congr (by simp))
    exact still _ rfl rfl st.1 (noOut _ _ _ _ _ rfl (fun a h => h))
  | isFull lk ul =>
    have st := withMutex_still w.D ({ w.s with log := [] } : St) lk ul (isFullBody w.D) (fun a ha => ⟨.refl a, ha⟩) (g.good.wf.ring.congr (by simp))
    exact still _ rfl rfl st.1 (noOut _ _ _ _ _ rfl (fun a h => h))
  | trigger c t lk ul =>
    have st := withMutex_still w.D ({ w.s with log := [] } : St) lk ul (fun s => pushUnsolicited w.D s c (cmdTypeOfInt t))
      (fun a ha => by
        have f := pushUnsolicited_frame w.D a c (cmdTypeOfInt t)
        exact ⟨⟨⟨f.1, f.2.1, f.2.2.2.1, f.2.2.2.2.2.1⟩, by simp [f.2.2.2.2.1], pushUnsolicited_oob w.D a c _ ha⟩, pushUnsolicited_ring w.D a c _ ha⟩)
      (g.good.wf.ring.congr (by simp))
    exact still _ rfl rfl st.1 (noOut w.D ({ w.s with log := [] } : St) lk ul (fun s => pushUnsolicited w.D s c (cmdTypeOfInt t)) rfl (fun a h => by
      have f := pushUnsolicited_frame w.D a c (cmdTypeOfInt t); rw [f.2.2.2.2.2.2]; exact h))
  | holdExit st lk ul =>
    have stl := withMutex_still w.D ({ w.s with log := [] } : St) lk ul (fun s => holdExit s st)
      (fun a ha => ⟨⟨holdExit_calm a st, by simp, holdExit_oob a st⟩, ha.congr (by simp)⟩) (g.good.wf.ring.congr (by simp))
    exact still _ rfl rfl stl.1 (noOut w.D ({ w.s with log := [] } : St) lk ul (fun s => holdExit s st) rfl (fun a h => by
      have f := holdExit_frame a st; rw [f.2.2.2.2.2.2.2]; exact h))
  | buffered c t => exact still _ rfl rfl (.refl _) rfl
  | setCmdDisable c v =>
    have de := modifyCmd_eq w.D c (fun x => { x with disable := v }) (fun _ => rfl)
    have u := de.unit ({ w.s with log := [] } : St)
    have c := (clr.unit (D := w.D))
    exact ⟨[], by simp, by simp only [apply]; rw [u.1, c.1]; simp [outC], ⟨ag.2, u.2 (c.2 g.fo)⟩⟩
  | setCmdOnlyTest c v =>
    have de := modifyCmd_eq w.D c (fun x => { x with onlyTest := v }) (fun _ => rfl)
    have u := de.unit ({ w.s with log := [] } : St)
    have c := (clr.unit (D := w.D))
    exact ⟨[], by simp, by simp only [apply]; rw [u.1, c.1]; simp [outC], ⟨ag.2, u.2 (c.2 g.fo)⟩⟩
  | setGroupDisable gi v =>
    have de := groupDisable_eq w.D gi v
    have u := de.unit ({ w.s with log := [] } : St)
    have c := (clr.unit (D := w.D))
    exact ⟨[], by simp, by simp only [apply]; rw [u.1, c.1]; simp [outC], ⟨ag.2, u.2 (c.2 g.fo)⟩⟩
  | poke slot off bs =>
    have st : Still ({ w.s with log := [] } : St) (apply w (.poke slot off bs)).1.s := by
      simp only [apply]
      split
      · rename_i h
        exact ⟨⟨by simp, by simp, by simp, by simp⟩, poke_lenE _ slot off bs h, rfl⟩
      · exact .refl _
    exact still _ rfl rfl st (by simp only [apply]; split <;> rfl)

/-- all bytes of the command machine accepted by `io->write` during a history -/
def outAllC (tr : List (Int × List Ev)) : List Byte := (tr.map (fun x => outC x.2)).flatten

/-- **The command machine's output is a sequence of whole units**: over any history, the bytes
accepted so far followed by what remains of the unit in progress are exactly what remained at the
start followed by a concatenation of whole units. -/
theorem runOps_units : ∀ (ops : List Op) (w : World), (∀ op ∈ ops, OpOk op) → GoodU w →
    ∃ us : List (List Byte), (∀ u ∈ us, UnitShape u) ∧
      outAllC (runOps w ops).2 ++ remC (runOps w ops).1.D (runOps w ops).1.s = remC w.D w.s ++ us.flatten := by
  intro ops
  induction ops with
  | nil => intro w _ _; exact ⟨[], by simp, by simp [runOps, outAllC]⟩
  | cons op r ih =>
    intro w hok g
    obtain ⟨new, hs, he, hg⟩ := apply_units w op (hok op (by simp)) g
    obtain ⟨us, hus, hu⟩ := ih (apply w op).1 (fun o ho => hok o (by simp [ho])) hg
    refine ⟨new ++ us, fun u hu => by rcases List.mem_append.1 hu with h | h; exact hs u h; exact hus u h, ?_⟩
    simp only [runOps, outAllC, List.map_cons, List.flatten_cons, List.append_assoc] at hu ⊢
    rw [hu, ← List.append_assoc, he]
    simp

end Cat
