/-
  Invariants over arbitrary operation histories.
-/
import CatVerif.Proofs.GraphU
namespace Cat
open St

/-! ### generic induction over histories -/

/-- side conditions on an operation (DESIGN.md 2.3): handlers run by the unsolicited machine
do not answer HOLD -/
def OpOk : Op → Prop
  | .service i => i.hu.ret ≠ 4
  | _ => True

theorem runOps_induct (P : World → Prop) (hstep : ∀ w op, OpOk op → P w → P (apply w op).1) :
    ∀ (ops : List Op) (w : World), (∀ op ∈ ops, OpOk op) → P w → P (runOps w ops).1 := by
  intro ops
  induction ops with
  | nil => intro w _ h; simpa [runOps] using h
  | cons op r ih =>
    intro w hok h
    simp only [runOps]
    exact ih (apply w op).1 (fun o ho => hok o (by simp [ho])) (hstep w op (hok op (by simp)) h)

theorem runOps_induct' (P : World → Prop) (hstep : ∀ w op, P w → P (apply w op).1) :
    ∀ (ops : List Op) (w : World), P w → P (runOps w ops).1 := by
  intro ops
  induction ops with
  | nil => intro w h; simpa [runOps] using h
  | cons op r ih =>
    intro w h
    simp only [runOps]
    exact ih (apply w op).1 (hstep w op h)

/-! ### operations other than `cat_service` never change a machine's state -/

theorem withMutex_fst_frame (D : Desc) (s : St) (lk ul : Int) (body : St → St × Int)
    (P : St → St → Prop) (_hrefl : ∀ a, P a a) (htrans : ∀ a b c, P a b → P b c → P a c)
    (hemit : ∀ a e, P a (a.emit e)) (hbody : ∀ a, P a (body a).1) : P s (withMutex D s lk ul body).1 := by
  unfold withMutex
  split
  · split
    · exact hemit _ _
    · exact htrans _ _ _ (hemit _ _) (htrans _ _ _ (hbody _) (by split <;> exact hemit _ _))
  · exact hbody _

/-- both machines' states and the hold flag -/
def SameStates (a b : St) : Prop := b.state = a.state ∧ b.ustate = a.ustate ∧ b.holdFlag = a.holdFlag

theorem SameStates.refl (a : St) : SameStates a a := ⟨rfl, rfl, rfl⟩
theorem SameStates.trans (a b c : St) (h1 : SameStates a b) (h2 : SameStates b c) : SameStates a c :=
  ⟨h2.1.trans h1.1, h2.2.1.trans h1.2.1, h2.2.2.trans h1.2.2⟩
theorem SameStates.emit (a : St) (e : Ev) : SameStates a (a.emit e) := by simp [SameStates]

theorem apply_nonservice_states (w : World) (op : Op) (h : ∀ i, op ≠ .service i) :
    SameStates w.s (apply w op).1.s := by
  have clr : SameStates w.s { w.s with log := [] } := ⟨rfl, rfl, rfl⟩
  cases op with
  | service i => exact absurd rfl (h i)
  | isBusy lk ul =>
    refine SameStates.trans _ _ _ clr ?_
    exact withMutex_fst_frame w.D _ lk ul isBusyBody SameStates .refl .trans .emit (fun a => .refl a)
  | isHold lk ul =>
    refine SameStates.trans _ _ _ clr ?_
    exact withMutex_fst_frame w.D _ lk ul isHoldBody SameStates .refl .trans .emit (fun a => .refl a)
  | isFull lk ul =>
    refine SameStates.trans _ _ _ clr ?_
    simp only [apply, catIsFull]
    exact withMutex_fst_frame w.D _ lk ul (isFullBody w.D) SameStates .refl .trans .emit (fun a => .refl a)
  | trigger c t lk ul =>
    refine SameStates.trans _ _ _ clr ?_
    simp only [apply, catTrigger]
    exact withMutex_fst_frame w.D _ lk ul (fun s => pushUnsolicited w.D s c (cmdTypeOfInt t)) SameStates .refl .trans .emit
      (fun a => by simp [SameStates])
  | holdExit st lk ul =>
    refine SameStates.trans _ _ _ clr ?_
    simp only [apply, catHoldExit]
    exact withMutex_fst_frame w.D _ lk ul (fun s => holdExit s st) SameStates .refl .trans .emit
      (fun a => by simp [SameStates])
  | buffered c t => exact clr
  | setCmdDisable c v => exact clr
  | setCmdOnlyTest c v => exact clr
  | setGroupDisable g v => exact clr
  | poke slot off bs =>
    simp only [apply]
    split <;> exact ⟨rfl, rfl, rfl⟩

/-! ### C11: the two machines are never both in FLUSH_IO_WRITE -/

def FlushExcl (s : St) : Prop := ¬ (s.state = .flushWrite ∧ s.ustate = .flushWrite)

theorem cmd_flushWrite (D : Desc) (s : St) (i : SvcIn) (h : (commandService D s i).1.state = .flushWrite) :
    s.state = .flushWrite ∨ (s.state = .flushWait ∧ s.ustate ≠ .flushWrite) := by
  unfold commandService at h
  split at h <;> rename_i hs
  · have := graph_error D s i; simp [h, hs] at this
  · have := graph_idle s i; simp [h, hs] at this
  · have := graph_prefix D s i; simp [h, hs] at this
  · have := graph_parseCommand D s i; simp [h, hs] at this
  · have := graph_update D s; simp [h, hs] at this
  · have := graph_waitRead s i; simp [h, hs] at this
  · have := graph_search D s; simp [h, hs] at this
  · have := graph_found D s; simp [h] at this
  · simp [commandNotFound] at h
  · have := graph_args D s i; simp [h, hs] at this
  · have := graph_writeArgs D s i; simp [h, hs] at this
  · have := graph_formatRead D s i; simp [h, hs] at this
  · have := graph_waitTest D s i; simp [h, hs] at this
  · have := graph_formatTest D s; simp [h, hs] at this
  · have := graph_writeLoop D s i; simp [h, hs] at this
  · have := graph_readLoop D s i; simp [h, hs, loopSucc] at this
  · have := graph_testLoop D s i; simp [h, hs, loopSucc] at this
  · have := graph_runLoop D s i; simp [h, hs] at this
  · have := graph_hold D s; simp [h, hs] at this
  · right
    refine ⟨hs, ?_⟩
    intro hu
    have := graph_wait s
    simp [hu, hs] at this
    simp [this] at h
  · exact Or.inl hs
  · simp [resetState] at h; split at h <;> simp at h
  · simp at h
  · have := startFormatRead_cmd_state D s; simp at h; simp [h] at this
  · have := startFormatTest_cmd_state D s; simp at h; simp [h] at this
  · have := graph_printCmd D s; simp at h; simp [h, hs] at this

theorem serviceBody_flushExcl (D : Desc) (s : St) (i : SvcIn) (h : FlushExcl s) : FlushExcl (serviceBody D s i).1 := by
  unfold serviceBody
  simp only
  generalize hs1 : (unsolicitedEventsService D s i).1 = s1
  have hU := commandService_keepsU D s1 i
  -- the intermediate state satisfies the invariant
  have h1 : FlushExcl s1 := by
    intro ⟨hc, hu⟩
    have := uns_flushWrite D s i (by rw [hs1]; exact hu)
    rcases this with g | ⟨g1, g2⟩
    · have e := uns_flush_keeps_state D s i (Or.inr g)
      rw [hs1] at e
      exact h ⟨e ▸ hc, g⟩
    · have e := uns_flush_keeps_state D s i (Or.inl g1)
      rw [hs1] at e
      exact g2 (e ▸ hc)
  intro ⟨hc, hu⟩
  have hu1 : s1.ustate = .flushWrite := by
    have := hU.1.1
    rw [← this]; exact hu
  rcases cmd_flushWrite D s1 i hc with g | ⟨_, g2⟩
  · exact h1 ⟨g, hu1⟩
  · exact g2 hu1

theorem service_flushExcl (D : Desc) (s : St) (i : SvcIn) (h : FlushExcl s) : FlushExcl (service D s i).1 := by
  unfold service
  refine withMutex_fst_frame D s i.lock i.unlock _ (fun a b => FlushExcl a → FlushExcl b) (fun _ h => h)
    (fun _ _ _ h1 h2 h => h2 (h1 h)) (fun a e h => by simpa [FlushExcl] using h)
    (fun a h => serviceBody_flushExcl D a i h) h

theorem apply_flushExcl (w : World) (op : Op) (h : FlushExcl w.s) : FlushExcl (apply w op).1.s := by
  by_cases hop : ∃ i, op = .service i
  · obtain ⟨i, rfl⟩ := hop
    simp only [apply]
    exact service_flushExcl w.D _ i (by simpa [FlushExcl] using h)
  · have := apply_nonservice_states w op (fun i hi => hop ⟨i, hi⟩)
    unfold FlushExcl at *
    rw [this.1, this.2.1]; exact h

end Cat
