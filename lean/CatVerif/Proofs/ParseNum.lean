/-
  The numeric argument parsers against the grammar/value specification (C04), for texts of any
  length, by induction over the digit list.
-/
import CatVerif.Spec.Num
namespace Cat
open Spec

/-! ### the generated character classes, over all byte values -/

theorem isDecChar_table : ∀ b, b < 256 → isDecChar b = isDigit b := by decide +kernel

theorem isDecChar_iff (b : Byte) (h : b < 256) : isDecChar b = isDigit b := isDecChar_table b h

theorem decFrom_ge (ds : List Byte) : ∀ v, v ≤ decFrom v ds := by
  induction ds with
  | nil => intro v; simp [decFrom]
  | cons d r ih =>
    intro v
    have := ih (v * 10 + (d - 48))
    simp only [decFrom, List.foldl_cons] at *
    omega

theorem decFrom_cons (v : Nat) (d : Byte) (r : List Byte) : decFrom v (d :: r) = decFrom (v * 10 + (d - 48)) r := by
  simp [decFrom]

/-- accepted: all digits, value within 64 bits, proper terminator -/
theorem parseUIntDec_accept (ds rest : List Byte) (t : Byte) (ht : IsTerm t) :
    ∀ (v : Nat) (ok : Bool) (n : Nat), (∀ b ∈ ds, b < 256 ∧ isDigit b = true) → (ok = true ∨ ds ≠ []) →
      decFrom v ds ≤ U64MAX →
      parseUIntDec (ds ++ t :: rest) v ok n =
        { ret := if t = 44 then 1 else 0, val := decFrom v ds, used := n + ds.length + 1 } := by
  induction ds with
  | nil =>
    intro v ok n _ hok _
    have hok' : ok = true := by rcases hok with h | h; exact h; exact absurd rfl h
    rcases ht with rfl | rfl <;> simp [parseUIntDec, hok', decFrom]
  | cons d r ih =>
    intro v ok n hd _ hv
    have hd0 := hd d (by simp)
    have hdig : isDecChar d = true := by rw [isDecChar_iff d hd0.1]; exact hd0.2
    have hnt : ¬ (d = 0 ∨ d = 44) := by
      have := hd0.2; simp [isDigit] at this; omega
    have hge := decFrom_ge r (v * 10 + (d - 48))
    rw [decFrom_cons] at hv
    have hguard : ¬ v > (U64MAX - (d - 48)) / 10 := by
      have := hd0.2; simp [isDigit] at this
      unfold U64MAX at *; omega
    simp only [List.cons_append, parseUIntDec]
    have e1 : (ok && (d == 0 || d == 44)) = false := by
      simp; intro _; omega
    simp only [e1, hdig, hguard]
    simp only [Bool.false_eq_true, if_false, if_true]
    rw [ih (v * 10 + (d - 48)) true (n + 1) (fun b hb => hd b (by simp [hb])) (Or.inl rfl) hv]
    simp [decFrom_cons]; omega

/-- rejected: the digits encode a value beyond 64 bits -/
theorem parseUIntDec_overflow (ds rest : List Byte) :
    ∀ (v : Nat) (ok : Bool) (n : Nat), (∀ b ∈ ds, b < 256 ∧ isDigit b = true) → v ≤ U64MAX →
      decFrom v ds > U64MAX → (parseUIntDec (ds ++ rest) v ok n).ret = -1 := by
  induction ds with
  | nil => intro v ok n _ hv h; simp [decFrom] at h; unfold U64MAX at *; omega
  | cons d r ih =>
    intro v ok n hd hv h
    have hd0 := hd d (by simp)
    have hdig : isDecChar d = true := by rw [isDecChar_iff d hd0.1]; exact hd0.2
    have hnt : ¬ (d = 0 ∨ d = 44) := by
      have := hd0.2; simp [isDigit] at this; omega
    simp only [List.cons_append, parseUIntDec]
    have e1 : (ok && (d == 0 || d == 44)) = false := by
      simp; intro _; omega
    simp only [e1, hdig, Bool.false_eq_true, if_false, if_true]
    by_cases hg : v > (U64MAX - (d - 48)) / 10
    · simp [hg]
    · simp only [hg, if_false]
      rw [decFrom_cons] at h
      apply ih _ _ _ (fun b hb => hd b (by simp [hb])) _ h
      have := hd0.2; simp [isDigit] at this
      unfold U64MAX at *; omega

/-- rejected: a byte that is neither a digit nor a terminator ends the digits -/
theorem parseUIntDec_badchar (ds rest : List Byte) (c : Byte) (hc : c < 256) (hnd : isDigit c = false) (hnt : ¬ IsTerm c) :
    ∀ (v : Nat) (ok : Bool) (n : Nat), (∀ b ∈ ds, b < 256 ∧ isDigit b = true) →
      (parseUIntDec (ds ++ c :: rest) v ok n).ret = -1 := by
  induction ds with
  | nil =>
    intro v ok n _
    have : isDecChar c = false := by rw [isDecChar_iff c hc]; exact hnd
    have e1 : (ok && (c == 0 || c == 44)) = false := by
      unfold IsTerm at hnt; simp; intro _; omega
    simp [parseUIntDec, e1, this]
  | cons d r ih =>
    intro v ok n hd
    have hd0 := hd d (by simp)
    have hdig : isDecChar d = true := by rw [isDecChar_iff d hd0.1]; exact hd0.2
    have hnt' : ¬ (d = 0 ∨ d = 44) := by
      have := hd0.2; simp [isDigit] at this; omega
    simp only [List.cons_append, parseUIntDec]
    have e1 : (ok && (d == 0 || d == 44)) = false := by
      simp; intro _; omega
    simp only [e1, hdig, Bool.false_eq_true, if_false, if_true]
    split
    · rfl
    · exact ih _ _ _ (fun b hb => hd b (by simp [hb]))

/-- rejected: an empty field -/
theorem parseUIntDec_empty (rest : List Byte) (t : Byte) (ht : IsTerm t) (v n : Nat) :
    (parseUIntDec (t :: rest) v false n).ret = -1 := by
  rcases ht with rfl | rfl <;> simp [parseUIntDec, isDecChar, Gen.is_valid_dec_char, Gen.b2i, sc]


/-- a byte list is all digits, or splits at its first non-digit -/
theorem digits_split : ∀ l : List Byte, (∀ b ∈ l, isDigit b = true) ∨
    ∃ ds c r, l = ds ++ c :: r ∧ (∀ b ∈ ds, isDigit b = true) ∧ isDigit c = false := by
  intro l
  induction l with
  | nil => left; simp
  | cons x xs ih =>
    cases hx : isDigit x
    · right; exact ⟨[], x, xs, rfl, by simp, hx⟩
    · rcases ih with h | ⟨ds, c, r, e, h1, h2⟩
      · left; intro b hb; simp at hb; rcases hb with rfl | hb; exact hx; exact h b hb
      · right
        refine ⟨x :: ds, c, r, by simp [e], ?_, h2⟩
        intro b hb; simp at hb; rcases hb with rfl | hb; exact hx; exact h1 b hb

/-- **`parse_uint_decimal` = grammar and value.**  For a field (bytes without NUL or comma, any
length) followed by a terminator: the parser accepts iff the field is one or more decimal digits
whose mathematical value does not exceed 2^64-1, and then returns exactly that value, consumes
exactly the field and its terminator, and reports whether a comma follows. -/
theorem parseUIntDec_spec (field rest : List Byte) (t : Byte) (ht : IsTerm t)
    (hb : ∀ b ∈ field, b < 256 ∧ ¬ IsTerm b) :
    (IsUIntText field ∧ decValue field ≤ U64MAX →
      parseUIntDec (field ++ t :: rest) 0 false 0 =
        { ret := if t = 44 then 1 else 0, val := decValue field, used := field.length + 1 }) ∧
    (¬ (IsUIntText field ∧ decValue field ≤ U64MAX) → (parseUIntDec (field ++ t :: rest) 0 false 0).ret = -1) := by
  constructor
  · intro ⟨⟨hne, hd⟩, hv⟩
    have := parseUIntDec_accept field rest t ht 0 false 0 (fun b h => ⟨(hb b h).1, hd b h⟩) (Or.inr hne) hv
    simpa [decValue] using this
  · intro hn
    rcases digits_split field with hd | ⟨ds, c, r, e, h1, h2⟩
    · by_cases hne : field = []
      · subst hne; exact parseUIntDec_empty rest t ht 0 0
      · have hv : decValue field > U64MAX := by
          have : ¬ decValue field ≤ U64MAX := fun h => hn ⟨⟨hne, hd⟩, h⟩
          omega
        have := parseUIntDec_overflow field (t :: rest) 0 false 0 (fun b h => ⟨(hb b h).1, hd b h⟩) (by unfold U64MAX; omega) hv
        exact this
    · subst e
      have hc := hb c (by simp)
      have := parseUIntDec_badchar ds (r ++ t :: rest) c hc.1 h2 hc.2 0 false 0
        (fun b h => ⟨(hb b (by simp [h])).1, h1 b h⟩)
      simpa using this


/-! ### `parse_int_decimal` -/

/-- the digit loop after the sign (or first digit) has been seen -/
theorem parseIntDec_loop_accept (ds rest : List Byte) (t : Byte) (ht : IsTerm t) (sg : Nat) (hsg : sg = 1 ∨ sg = 2) :
    ∀ (v : Nat) (ok : Bool) (n : Nat), (∀ b ∈ ds, b < 256 ∧ isDigit b = true) → (ok = true ∨ ds ≠ []) →
      decFrom v ds ≤ I64MAX →
      parseIntDec (ds ++ t :: rest) v sg ok n =
        { ret := if t = 44 then 1 else 0, val := decFrom v ds, neg := sg == 2, used := n + ds.length + 1 } := by
  have hs0 : (sg == 0) = false := by rcases hsg with rfl | rfl <;> rfl
  induction ds with
  | nil =>
    intro v ok n _ hok _
    have hok' : ok = true := by rcases hok with h | h; exact h; exact absurd rfl h
    rcases ht with rfl | rfl <;> simp [parseIntDec, hok', decFrom]
  | cons d r ih =>
    intro v ok n hd _ hv
    have hd0 := hd d (by simp)
    have hdig : isDecChar d = true := by rw [isDecChar_iff d hd0.1]; exact hd0.2
    have hge := decFrom_ge r (v * 10 + (d - 48))
    rw [decFrom_cons] at hv
    have hdr := hd0.2; simp [isDigit] at hdr
    have hguard : ¬ v > (I64MAX - (d - 48)) / 10 := by unfold I64MAX at *; omega
    simp only [List.cons_append, parseIntDec]
    have e1 : (ok && (d == 0 || d == 44)) = false := by simp; intro _; omega
    simp only [e1, hs0, hdig, hguard]
    simp only [Bool.false_eq_true, if_false, if_true]
    rw [ih (v * 10 + (d - 48)) true (n + 1) (fun b hb => hd b (by simp [hb])) (Or.inl rfl) hv]
    simp [decFrom_cons]; omega

theorem parseIntDec_loop_overflow (ds rest : List Byte) (sg : Nat) (hsg : sg = 1 ∨ sg = 2) :
    ∀ (v : Nat) (ok : Bool) (n : Nat), (∀ b ∈ ds, b < 256 ∧ isDigit b = true) → v ≤ I64MAX →
      decFrom v ds > I64MAX → (parseIntDec (ds ++ rest) v sg ok n).ret = -1 := by
  have hs0 : (sg == 0) = false := by rcases hsg with rfl | rfl <;> rfl
  induction ds with
  | nil => intro v ok n _ hv h; simp [decFrom] at h; unfold I64MAX at *; omega
  | cons d r ih =>
    intro v ok n hd hv h
    have hd0 := hd d (by simp)
    have hdig : isDecChar d = true := by rw [isDecChar_iff d hd0.1]; exact hd0.2
    have hdr := hd0.2; simp [isDigit] at hdr
    simp only [List.cons_append, parseIntDec]
    have e1 : (ok && (d == 0 || d == 44)) = false := by simp; intro _; omega
    simp only [e1, hs0, hdig, Bool.false_eq_true, if_false, if_true]
    by_cases hg : v > (I64MAX - (d - 48)) / 10
    · simp [hg]
    · simp only [hg, if_false]
      rw [decFrom_cons] at h
      apply ih _ _ _ (fun b hb => hd b (by simp [hb])) _ h
      unfold I64MAX at *; omega

theorem parseIntDec_loop_badchar (ds rest : List Byte) (c : Byte) (hc : c < 256) (hnd : isDigit c = false) (hnt : ¬ IsTerm c)
    (sg : Nat) (hsg : sg = 1 ∨ sg = 2) :
    ∀ (v : Nat) (ok : Bool) (n : Nat), (∀ b ∈ ds, b < 256 ∧ isDigit b = true) →
      (parseIntDec (ds ++ c :: rest) v sg ok n).ret = -1 := by
  have hs0 : (sg == 0) = false := by rcases hsg with rfl | rfl <;> rfl
  induction ds with
  | nil =>
    intro v ok n _
    have : isDecChar c = false := by rw [isDecChar_iff c hc]; exact hnd
    have e1 : (ok && (c == 0 || c == 44)) = false := by unfold IsTerm at hnt; simp; intro _; omega
    simp [parseIntDec, e1, this, hs0]
  | cons d r ih =>
    intro v ok n hd
    have hd0 := hd d (by simp)
    have hdig : isDecChar d = true := by rw [isDecChar_iff d hd0.1]; exact hd0.2
    have hdr := hd0.2; simp [isDigit] at hdr
    simp only [List.cons_append, parseIntDec]
    have e1 : (ok && (d == 0 || d == 44)) = false := by simp; intro _; omega
    simp only [e1, hs0, hdig, Bool.false_eq_true, if_false, if_true]
    split
    · rfl
    · exact ih _ _ _ (fun b hb => hd b (by simp [hb]))

/-- the loop with no digit at all after a sign: rejected -/
theorem parseIntDec_loop_empty (rest : List Byte) (t : Byte) (ht : IsTerm t) (sg : Nat) (hsg : sg = 1 ∨ sg = 2) (v n : Nat) :
    (parseIntDec (t :: rest) v sg false n).ret = -1 := by
  rcases hsg with rfl | rfl <;> rcases ht with rfl | rfl <;>
    simp [parseIntDec, isDecChar, Gen.is_valid_dec_char, Gen.b2i, sc]

/-- magnitude and sign of a signed decimal text -/
def intMag : List Byte → List Byte
  | 43 :: ds => ds
  | 45 :: ds => ds
  | ds => ds
def intNeg : List Byte → Bool
  | 45 :: _ => true
  | _ => false
/-- the mathematical value of a signed decimal text -/
def intValue (t : List Byte) : Int := if intNeg t then -(decValue (intMag t) : Int) else decValue (intMag t)

/-- **`parse_int_decimal` = grammar and value** (magnitude up to 2^63-1 accepted by the parser; the
width check follows in `validate_int_range`). -/
theorem parseIntDec_spec (field rest : List Byte) (t : Byte) (ht : IsTerm t)
    (hb : ∀ b ∈ field, b < 256 ∧ ¬ IsTerm b) :
    (IsIntText field ∧ decValue (intMag field) ≤ I64MAX →
      parseIntDec (field ++ t :: rest) 0 0 false 0 =
        { ret := if t = 44 then 1 else 0, val := decValue (intMag field), neg := intNeg field, used := field.length + 1 }) ∧
    (¬ (IsIntText field ∧ decValue (intMag field) ≤ I64MAX) → (parseIntDec (field ++ t :: rest) 0 0 false 0).ret = -1) := by
  -- the tail after an explicit sign
  have tail : ∀ (sg : Nat) (hsg : sg = 1 ∨ sg = 2) (ds : List Byte), (∀ b ∈ ds, b < 256 ∧ ¬ IsTerm b) →
      (IsUIntText ds ∧ decValue ds ≤ I64MAX →
        parseIntDec (ds ++ t :: rest) 0 sg false 1 =
          { ret := if t = 44 then 1 else 0, val := decValue ds, neg := sg == 2, used := 1 + ds.length + 1 }) ∧
      (¬ (IsUIntText ds ∧ decValue ds ≤ I64MAX) → (parseIntDec (ds ++ t :: rest) 0 sg false 1).ret = -1) := by
    intro sg hsg ds hds
    constructor
    · intro ⟨⟨hne, hd⟩, hv⟩
      exact parseIntDec_loop_accept ds rest t ht sg hsg 0 false 1 (fun b h => ⟨(hds b h).1, hd b h⟩) (Or.inr hne) hv
    · intro hn
      rcases digits_split ds with hd | ⟨ds', c, r, e, h1, h2⟩
      · by_cases hne : ds = []
        · subst hne; exact parseIntDec_loop_empty rest t ht sg hsg 0 1
        · have hv : decValue ds > I64MAX := by
            have : ¬ decValue ds ≤ I64MAX := fun h => hn ⟨⟨hne, hd⟩, h⟩
            omega
          exact parseIntDec_loop_overflow ds (t :: rest) sg hsg 0 false 1 (fun b h => ⟨(hds b h).1, hd b h⟩) (by unfold I64MAX; omega) hv
      · subst e
        have hc := hds c (by simp)
        have := parseIntDec_loop_badchar ds' (r ++ t :: rest) c hc.1 h2 hc.2 sg hsg 0 false 1
          (fun b h => ⟨(hds b (by simp [h])).1, h1 b h⟩)
        simpa using this
  match field, hb with
  | [], _ =>
    constructor
    · intro ⟨h, _⟩; simp [IsIntText, IsUIntText] at h
    · intro _; rcases ht with rfl | rfl <;> simp [parseIntDec, isDecChar, Gen.is_valid_dec_char, Gen.b2i, sc]
  | c :: ds, hb =>
    have hc := hb c (by simp)
    have hds : ∀ b ∈ ds, b < 256 ∧ ¬ IsTerm b := fun b h => hb b (by simp [h])
    by_cases h45 : c = 45
    · subst h45
      have := tail 2 (Or.inr rfl) ds hds
      simp only [List.cons_append, parseIntDec, IsIntText, intMag, intNeg]
      simp only [show ((false && ((45:Nat) == 0 || (45:Nat) == 44)) = false) from rfl, show ((0:Nat) == 0) = true from rfl,
        show ((45:Nat) == 45) = true from rfl, Bool.false_eq_true, if_false, if_true]
      constructor
      · intro h; rw [this.1 h]; simp; omega
      · intro h; exact this.2 h
    · by_cases h43 : c = 43
      · subst h43
        have := tail 1 (Or.inl rfl) ds hds
        simp only [List.cons_append, parseIntDec, IsIntText, intMag, intNeg]
        simp only [show ((false && ((43:Nat) == 0 || (43:Nat) == 44)) = false) from rfl, show ((0:Nat) == 0) = true from rfl,
          show ((43:Nat) == 45) = false from rfl, show ((43:Nat) == 43) = true from rfl, Bool.false_eq_true, if_false, if_true]
        constructor
        · intro h; rw [this.1 h]; simp; omega
        · intro h; exact this.2 h
      · -- no sign: the whole field is the magnitude
        have hI : IsIntText (c :: ds) = IsUIntText (c :: ds) := by
          unfold IsIntText; split <;> simp_all
        have hM : intMag (c :: ds) = c :: ds := by unfold intMag; split <;> simp_all
        have hN : intNeg (c :: ds) = false := by unfold intNeg; split <;> simp_all
        rw [hI, hM, hN]
        have e45 : (c == 45) = false := by simpa using h45
        have e43 : (c == 43) = false := by simpa using h43
        simp only [List.cons_append, parseIntDec, Bool.false_and, Bool.false_eq_true, if_false,
          show ((0:Nat) == 0) = true from rfl, if_true, e45, e43]
        by_cases hdg : isDigit c = true
        · have hdig : isDecChar c = true := by rw [isDecChar_iff c hc.1]; exact hdg
          simp only [hdig, if_true]
          have hdr := hdg; simp [isDigit] at hdr
          constructor
          · intro ⟨⟨_, hd⟩, hv⟩
            have hv' : decFrom (c - 48) ds ≤ I64MAX := by simpa [decValue, decFrom_cons] using hv
            rw [parseIntDec_loop_accept ds rest t ht 1 (Or.inl rfl) (c - 48) true 1
              (fun b h => ⟨(hds b h).1, hd b (by simp [h])⟩) (Or.inl rfl) hv']
            simp [decValue, decFrom_cons]; omega
          · intro hn
            rcases digits_split ds with hd | ⟨ds', c', r, e, h1, h2⟩
            · have hall : ∀ b ∈ c :: ds, isDigit b = true := by
                intro b hb'; simp at hb'; rcases hb' with rfl | hb'; exact hdg; exact hd b hb'
              have hv : decFrom (c - 48) ds > I64MAX := by
                have : ¬ decValue (c :: ds) ≤ I64MAX := fun h => hn ⟨⟨by simp, hall⟩, h⟩
                simp [decValue, decFrom_cons] at this; omega
              exact parseIntDec_loop_overflow ds (t :: rest) 1 (Or.inl rfl) (c - 48) true 1
                (fun b h => ⟨(hds b h).1, hd b h⟩) (by unfold I64MAX; omega) hv
            · subst e
              have hc' := hds c' (by simp)
              have := parseIntDec_loop_badchar ds' (r ++ t :: rest) c' hc'.1 h2 hc'.2 1 (Or.inl rfl) (c - 48) true 1
                (fun b h => ⟨(hds b (by simp [h])).1, h1 b h⟩)
              simpa using this
        · have hdig : isDecChar c = false := by rw [isDecChar_iff c hc.1]; simpa using hdg
          simp only [hdig, Bool.false_eq_true, if_false]
          constructor
          · intro ⟨⟨_, hd⟩, _⟩; exact absurd (hd c (by simp)) hdg
          · intro _; trivial


/-! ### `parse_num_hexadecimal` -/

theorem toUpper_table : ∀ b, b < 256 → toUpper b = (if 97 ≤ b ∧ b ≤ 122 then b - 32 else b) := by decide +kernel
theorem isHexChar_upper_table : ∀ b, b < 256 → isHexChar (toUpper b) = isHexDigit b := by decide +kernel
theorem hexVal_upper_table : ∀ b, b < 256 → isHexDigit b = true → hexVal (toUpper b) = hexDigitValue b := by decide +kernel
theorem hexDigitValue_lt : ∀ b, b < 256 → isHexDigit b = true → hexDigitValue b < 16 := by decide +kernel

theorem toUpper_ne48_table : ∀ b, b < 256 → (toUpper b != 48) = (b != 48) := by decide +kernel
theorem toUpper_ne88_table : ∀ b, b < 256 → (toUpper b != 88) = !(b == 88 || b == 120) := by decide +kernel
theorem toUpper_zero : toUpper 0 = 0 := by decide
theorem toUpper_comma : toUpper 44 = 44 := by decide
theorem isHexChar_zero : isHexChar 0 = false := by decide
theorem isHexChar_comma : isHexChar 44 = false := by decide
theorem two60 : (2 : Nat) ^ 60 = 1152921504606846976 := by decide

theorem hexdigits_split : ∀ l : List Byte, (∀ b ∈ l, isHexDigit b = true) ∨
    ∃ ds c r, l = ds ++ c :: r ∧ (∀ b ∈ ds, isHexDigit b = true) ∧ isHexDigit c = false := by
  intro l
  induction l with
  | nil => left; simp
  | cons x xs ih =>
    cases hx : isHexDigit x
    · right; exact ⟨[], x, xs, rfl, by simp, hx⟩
    · rcases ih with h | ⟨ds, c, r, e, h1, h2⟩
      · left; intro b hb; simp at hb; rcases hb with rfl | hb; exact hx; exact h b hb
      · right
        refine ⟨x :: ds, c, r, by simp [e], ?_, h2⟩
        intro b hb; simp at hb; rcases hb with rfl | hb; exact hx; exact h1 b hb

theorem hexFrom_ge (ds : List Byte) : ∀ v, v ≤ hexFrom v ds := by
  induction ds with
  | nil => intro v; simp [hexFrom]
  | cons d r ih =>
    intro v
    have := ih (v * 16 + hexDigitValue d)
    simp only [hexFrom, List.foldl_cons] at *
    omega

theorem hexFrom_cons (v : Nat) (d : Byte) (r : List Byte) : hexFrom v (d :: r) = hexFrom (v * 16 + hexDigitValue d) r := by
  simp [hexFrom]

theorem hexdigit_not_term (d : Byte) (h : isHexDigit d = true) : ¬ (toUpper d = 0 ∨ toUpper d = 44) ∧ d < 256 := by
  have hd : d < 256 := by simp [isHexDigit] at h; omega
  refine ⟨?_, hd⟩
  rw [toUpper_table d hd]
  simp [isHexDigit] at h
  split <;> omega

theorem parseNumHex_loop_accept (ds rest : List Byte) (t : Byte) (ht : IsTerm t) :
    ∀ (v st n : Nat), (st = 2 ∨ st = 3) → (∀ b ∈ ds, isHexDigit b = true) → (st = 3 ∨ ds ≠ []) →
      hexFrom v ds ≤ U64MAX →
      parseNumHex (ds ++ t :: rest) v st n =
        { ret := if t = 44 then 1 else 0, val := hexFrom v ds, used := n + ds.length + 1 } := by
  have tu : toUpper t = t := by rcases ht with rfl | rfl <;> decide
  induction ds with
  | nil =>
    intro v st n hst _ hok _
    have h3 : st = 3 := by rcases hok with h | h; exact h; exact absurd rfl h
    subst h3
    rcases ht with rfl | rfl <;> simp [parseNumHex, hexFrom, toUpper_zero, toUpper_comma]
  | cons d r ih =>
    intro v st n hst hd _ hv
    have hd0 := hd d (by simp)
    have ⟨hnt, hlt⟩ := hexdigit_not_term d hd0
    have hdig : isHexChar (toUpper d) = true := by rw [isHexChar_upper_table d hlt]; exact hd0
    have hval := hexVal_upper_table d hlt hd0
    have hge := hexFrom_ge r (v * 16 + hexDigitValue d)
    rw [hexFrom_cons] at hv
    have hdv := hexDigitValue_lt d hlt hd0
    have hguard : v / 2 ^ 60 = 0 := by
      rw [two60]; unfold U64MAX at *; omega
    simp only [List.cons_append, parseNumHex]
    have e1 : (decide (st ≥ 3) && (toUpper d == 0 || toUpper d == 44)) = false := by
      simp; intro _; omega
    have e2 : (st == 0) = false ∧ (st == 1) = false := by rcases hst with rfl | rfl <;> decide
    simp only [e1, e2.1, e2.2, hdig, hguard, hval]
    simp only [Bool.false_eq_true, if_false, if_true, bne_self_eq_false]
    rw [ih (v * 16 + hexDigitValue d) 3 (n + 1) (Or.inr rfl) (fun b hb => hd b (by simp [hb])) (Or.inl rfl) hv]
    simp [hexFrom_cons]; omega

theorem parseNumHex_loop_overflow (ds rest : List Byte) :
    ∀ (v st n : Nat), (st = 2 ∨ st = 3) → (∀ b ∈ ds, isHexDigit b = true) → v ≤ U64MAX →
      hexFrom v ds > U64MAX → (parseNumHex (ds ++ rest) v st n).ret = -1 := by
  induction ds with
  | nil => intro v st n _ _ hv h; simp [hexFrom] at h; unfold U64MAX at *; omega
  | cons d r ih =>
    intro v st n hst hd hv h
    have hd0 := hd d (by simp)
    have ⟨hnt, hlt⟩ := hexdigit_not_term d hd0
    have hdig : isHexChar (toUpper d) = true := by rw [isHexChar_upper_table d hlt]; exact hd0
    have hval := hexVal_upper_table d hlt hd0
    have hdv := hexDigitValue_lt d hlt hd0
    simp only [List.cons_append, parseNumHex]
    have e1 : (decide (st ≥ 3) && (toUpper d == 0 || toUpper d == 44)) = false := by
      simp; intro _; omega
    have e2 : (st == 0) = false ∧ (st == 1) = false := by rcases hst with rfl | rfl <;> decide
    simp only [e1, e2.1, e2.2, hdig, hval, Bool.false_eq_true, if_false, if_true]
    by_cases hg : v / 2 ^ 60 = 0
    · simp only [hg, bne_self_eq_false, Bool.false_eq_true, if_false]
      rw [hexFrom_cons] at h
      have hvlt : v < 1152921504606846976 := by rw [two60] at hg; omega
      apply ih _ 3 _ (Or.inr rfl) (fun b hb => hd b (by simp [hb])) _ h
      unfold U64MAX; omega
    · have : (v / 2 ^ 60 != 0) = true := by simpa using hg
      simp only [this, if_true]

theorem parseNumHex_loop_badchar (ds rest : List Byte) (c : Byte) (hc : c < 256) (hnd : isHexDigit c = false) (hnt : ¬ IsTerm c) :
    ∀ (v st n : Nat), (st = 2 ∨ st = 3) → (∀ b ∈ ds, isHexDigit b = true) →
      (parseNumHex (ds ++ c :: rest) v st n).ret = -1 := by
  have hcu : ¬ (toUpper c = 0 ∨ toUpper c = 44) := by
    rw [toUpper_table c hc]; unfold IsTerm at hnt; split <;> omega
  induction ds with
  | nil =>
    intro v st n hst _
    have : isHexChar (toUpper c) = false := by rw [isHexChar_upper_table c hc]; exact hnd
    have e1 : (decide (st ≥ 3) && (toUpper c == 0 || toUpper c == 44)) = false := by simp; intro _; omega
    have e2 : (st == 0) = false ∧ (st == 1) = false := by rcases hst with rfl | rfl <;> decide
    simp [parseNumHex, e1, e2.1, e2.2, this]
  | cons d r ih =>
    intro v st n hst hd
    have hd0 := hd d (by simp)
    have ⟨hnt', hlt⟩ := hexdigit_not_term d hd0
    have hdig : isHexChar (toUpper d) = true := by rw [isHexChar_upper_table d hlt]; exact hd0
    simp only [List.cons_append, parseNumHex]
    have e1 : (decide (st ≥ 3) && (toUpper d == 0 || toUpper d == 44)) = false := by simp; intro _; omega
    have e2 : (st == 0) = false ∧ (st == 1) = false := by rcases hst with rfl | rfl <;> decide
    simp only [e1, e2.1, e2.2, hdig, Bool.false_eq_true, if_false, if_true]
    split
    · rfl
    · exact ih _ 3 _ (Or.inr rfl) (fun b hb => hd b (by simp [hb]))

/-- the hex digits of a `0x…` text -/
def hexBody : List Byte → List Byte
  | _ :: _ :: ds => ds
  | _ => []

/-- **`parse_num_hexadecimal` = grammar and value**: accepted iff the field is `0x`/`0X` followed
by one or more hex digits (either case) whose value is below 2^64; the result is that value. -/
theorem parseNumHex_spec (field rest : List Byte) (t : Byte) (ht : IsTerm t)
    (hb : ∀ b ∈ field, b < 256 ∧ ¬ IsTerm b) :
    (IsHexText field ∧ hexValue (hexBody field) ≤ U64MAX →
      parseNumHex (field ++ t :: rest) 0 0 0 =
        { ret := if t = 44 then 1 else 0, val := hexValue (hexBody field), used := field.length + 1 }) ∧
    (¬ (IsHexText field ∧ hexValue (hexBody field) ≤ U64MAX) → (parseNumHex (field ++ t :: rest) 0 0 0).ret = -1) := by
  have tu : toUpper t = t := by rcases ht with rfl | rfl <;> decide
  have tne : t ≠ 48 ∧ t ≠ 88 := by rcases ht with rfl | rfl <;> decide
  match field, hb with
  | [], _ =>
    constructor
    · intro ⟨⟨x, ds, e, _⟩, _⟩; simp at e
    · intro _; rcases ht with rfl | rfl <;> simp [parseNumHex, toUpper_zero, toUpper_comma]
  | [a], hb =>
    have ha := hb a (by simp)
    constructor
    · intro ⟨⟨x, ds, e, _⟩, _⟩; simp at e
    · intro _
      simp only [List.cons_append, List.nil_append, parseNumHex]
      simp only [show (decide ((0:Nat) ≥ 3)) = false from rfl, Bool.false_and, Bool.false_eq_true, if_false, show ((0:Nat) == 0) = true from rfl, if_true]
      split
      · rfl
      · rcases ht with rfl | rfl <;> simp [parseNumHex, toUpper_zero, toUpper_comma]
  | a :: x :: ds, hb =>
    have ha := hb a (by simp)
    have hx := hb x (by simp)
    have hds : ∀ b ∈ ds, b < 256 ∧ ¬ IsTerm b := fun b h => hb b (by simp [h])
    have hbody : hexBody (a :: x :: ds) = ds := rfl
    rw [hbody]
    have ua := toUpper_ne48_table a ha.1
    have ux := toUpper_ne88_table x hx.1
    simp only [List.cons_append, parseNumHex]
    simp only [show (decide ((0:Nat) ≥ 3)) = false from rfl, show (decide ((1:Nat) ≥ 3)) = false from rfl, Bool.false_and,
      Bool.false_eq_true, if_false, show ((0:Nat) == 0) = true from rfl, show ((1:Nat) == 0) = false from rfl,
      show ((1:Nat) == 1) = true from rfl, if_true, ua, ux]
    by_cases h0 : a = 48
    · by_cases hX : x = 88 ∨ x = 120
      · have e1 : (a != 48) = false := by simp [h0]
        have e2 : (!(x == 88 || x == 120)) = false := by rcases hX with h | h <;> simp [h]
        simp only [e1, e2, Bool.false_eq_true, if_false]
        have hIs : IsHexText (a :: x :: ds) ↔ (ds ≠ [] ∧ ∀ b ∈ ds, isHexDigit b = true) := by
          constructor
          · intro ⟨x', ds', e, _, hne, hall⟩
            simp at e; obtain ⟨_, rfl, rfl⟩ := e; exact ⟨hne, hall⟩
          · intro ⟨hne, hall⟩
            exact ⟨x, ds, by simp [h0], by omega, hne, hall⟩
        rw [hIs]
        constructor
        · intro ⟨⟨hne, hall⟩, hv⟩
          rw [parseNumHex_loop_accept ds rest t ht 0 2 2 (Or.inl rfl) hall (Or.inr hne) hv]
          simp [hexValue]; omega
        · intro hn
          rcases hexdigits_split ds with hall | ⟨ds', c, r, e, h1, h2⟩
          · by_cases hne : ds = []
            · subst hne
              rcases ht with rfl | rfl <;> simp [parseNumHex, toUpper_zero, toUpper_comma, isHexChar_zero, isHexChar_comma]
            · have hv : hexFrom 0 ds > U64MAX := by
                have : ¬ hexValue ds ≤ U64MAX := fun h => hn ⟨⟨hne, hall⟩, h⟩
                simp [hexValue] at this; omega
              exact parseNumHex_loop_overflow ds (t :: rest) 0 2 2 (Or.inl rfl) hall (by unfold U64MAX; omega) hv
          · subst e
            have hc := hds c (by simp)
            have := parseNumHex_loop_badchar ds' (r ++ t :: rest) c hc.1 h2 hc.2 0 2 2 (Or.inl rfl) h1
            simpa using this
      · have e2 : (!(x == 88 || x == 120)) = true := by simp; omega
        have e1 : (a != 48) = false := by simp [h0]
        simp only [e1, e2, Bool.false_eq_true, if_false, if_true]
        constructor
        · intro ⟨⟨x', ds', e, hxx, _⟩, _⟩
          simp at e; obtain ⟨_, rfl, _⟩ := e; omega
        · intro _; trivial
    · have e1 : (a != 48) = true := by simp [h0]
      simp only [e1, if_true]
      constructor
      · intro ⟨⟨x', ds', e, _⟩, _⟩
        simp at e; exact absurd e.1 h0
      · intro _; trivial

end Cat
