/-
  C04 at the level of one variable: the parser, the range validation and the store together.
-/
import CatVerif.Proofs.ParseNum
import CatVerif.Proofs.Mem
import CatVerif.Proofs.Ctl
namespace Cat
open St Spec

/-- `validate_uint_range` on a writable variable: accepted iff the value fits the width; then the
value is stored little-endian in the first `data_size` bytes and nothing else changes -/
theorem validateUIntRange_spec (s : St) (v : VarD) (val : Nat) (hacc : v.access ≠ .ro)
    (hslot : v.dataSize ≤ (s.slotGet v.slot).length) :
    (fitsU v.dataSize val →
      (validateUIntRange s v val).2 = true ∧
      (validateUIntRange s v val).1.slotGet v.slot = leBytes v.dataSize val ++ (s.slotGet v.slot).drop v.dataSize ∧
      (validateUIntRange s v val).1.writeSize = v.dataSize ∧ (validateUIntRange s v val).1.oob = s.oob ∧
      (∀ k, k ≠ v.slot → (validateUIntRange s v val).1.slotGet k = s.slotGet k)) ∧
    (¬ fitsU v.dataSize val → validateUIntRange s v val = (s, false)) := by
  have hro : (v.access == Access.ro) = false := by cases h : v.access <;> simp_all
  have store : ∀ (hv : True), (storeInt s v val).slotGet v.slot = leBytes v.dataSize val ++ (s.slotGet v.slot).drop v.dataSize ∧
      (storeInt s v val).writeSize = v.dataSize ∧ (storeInt s v val).oob = s.oob ∧
      (∀ k, k ≠ v.slot → (storeInt s v val).slotGet k = s.slotGet k) := by
    intro _
    unfold storeInt
    have hc : (s.chk (decide (v.dataSize ≤ (s.slotGet v.slot).length))) = s := by simp [St.chk, hslot]
    rw [hc]
    have := slotWrite_spec v.slot (leBytes v.dataSize val) s 0 (by simp [leBytes_length]; exact hslot)
    simp only [leBytes_length, List.take_zero, List.nil_append, Nat.zero_add] at this
    exact ⟨by simpa [St.slotGet] using this.1, rfl, by simpa using this.2.1, fun k hk => by simpa [St.slotGet] using this.2.2.2.1 k hk⟩
  constructor
  · intro ⟨hsz, hv⟩
    unfold validateUIntRange
    simp only [hro]
    have st := store trivial
    rcases hsz with h | h | h <;> simp [h] at hv ⊢ st
    · have : ¬ 255 < val := by omega
      simp [this]; exact st
    · have : ¬ 65535 < val := by omega
      simp [this]; exact st
    · have : ¬ 4294967295 < val := by omega
      simp [this]; exact st
  · intro hn
    unfold validateUIntRange fitsU at *
    simp only [hro]
    by_cases h1 : v.dataSize = 1
    · simp [h1] at hn ⊢; omega
    · by_cases h2 : v.dataSize = 2
      · simp [h2] at hn ⊢; omega
      · by_cases h4 : v.dataSize = 4
        · simp [h4] at hn ⊢; omega
        · simp [h1, h2, h4]


theorem fitsU_le_u64 (size v : Nat) (h : fitsU size v) : v ≤ U64MAX := by
  obtain ⟨hs, hv⟩ := h
  unfold U64MAX
  rcases hs with rfl | rfl | rfl <;> simp at hv <;> omega

/-- **C04 for an unsigned decimal variable**: the WRITE of one argument field into a writable
variable.  With the argument text at `position` being `field ++ terminator :: rest`:
* if the field is one or more digits whose mathematical value fits the variable's width, the
  value is stored exactly (little-endian, `data_size` bytes), the rest of the slot and every
  other slot are untouched, the text is consumed up to and including the terminator, and the C
  status is 1 (comma) or 0 (end);
* otherwise the step fails and variable storage is exactly what it was. -/
theorem parseVarValue_uint (D : Desc) (s : St) (v : VarD) (field rest : List Byte) (t : Byte)
    (hty : v.type = .uintDec) (hacc : v.access ≠ .ro) (hslot : v.dataSize ≤ (s.slotGet v.slot).length)
    (htxt : region D s .cmd s.position = field ++ t :: rest) (ht : IsTerm t)
    (hb : ∀ b ∈ field, b < 256 ∧ ¬ IsTerm b) :
    (IsUIntText field ∧ fitsU v.dataSize (decValue field) →
      (parseVarValue D s v).2.2 = true ∧ (parseVarValue D s v).2.1 = (if t = 44 then 1 else 0) ∧
      (parseVarValue D s v).1.slotGet v.slot = leBytes v.dataSize (decValue field) ++ (s.slotGet v.slot).drop v.dataSize ∧
      (∀ k, k ≠ v.slot → (parseVarValue D s v).1.slotGet k = s.slotGet k) ∧
      (parseVarValue D s v).1.position = s.position + field.length + 1 ∧
      (parseVarValue D s v).1.writeSize = v.dataSize ∧ (parseVarValue D s v).1.oob = s.oob) ∧
    (¬ (IsUIntText field ∧ fitsU v.dataSize (decValue field)) →
      (parseVarValue D s v).2.2 = false ∧ (parseVarValue D s v).1.mem = s.mem) := by
  have spec := parseUIntDec_spec field rest t ht hb
  constructor
  · intro ⟨hg, hf⟩
    have hp := spec.1 ⟨hg, fitsU_le_u64 _ _ hf⟩
    unfold parseVarValue
    simp only [hty, htxt, hp]
    have hret : ¬ ((if t = 44 then (1 : Int) else 0) < 0) := by split <;> omega
    simp only [hret, if_false]
    generalize hs1 : ({ (s.chk (!false)) with position := s.position + (field.length + 1) } : St) = s1
    have e1 : s1.slotGet v.slot = s.slotGet v.slot := by subst hs1; simp [St.slotGet]
    have e2 : ∀ k, s1.slotGet k = s.slotGet k := by intro k; subst hs1; simp [St.slotGet]
    have e3 : s1.oob = s.oob ∧ s1.position = s.position + field.length + 1 := by subst hs1; simp [St.chk]; omega
    have := (validateUIntRange_spec s1 v (decValue field) hacc (by rw [e1]; exact hslot)).1 hf
    obtain ⟨a1, a2, a3, a4, a5⟩ := this
    have hpos : (validateUIntRange s1 v (decValue field)).1.position = s1.position := by simp
    refine ⟨a1, trivial, by rw [a2, e1], fun k hk => by rw [a5 k hk, e2], by rw [hpos, e3.2], a3, by rw [a4, e3.1]⟩
  · intro hn
    unfold parseVarValue
    simp only [hty, htxt]
    by_cases hg : IsUIntText field ∧ decValue field ≤ U64MAX
    · have hp := spec.1 hg
      simp only [hp]
      have hret : ¬ ((if t = 44 then (1 : Int) else 0) < 0) := by split <;> omega
      simp only [hret, if_false]
      have hnf : ¬ fitsU v.dataSize (decValue field) := fun h => hn ⟨hg.1, h⟩
      generalize hs1 : ({ (s.chk (!false)) with position := s.position + (field.length + 1) } : St) = s1
      have e1 : s1.slotGet v.slot = s.slotGet v.slot := by subst hs1; simp [St.slotGet]
      have := (validateUIntRange_spec s1 v (decValue field) hacc (by rw [e1]; exact hslot)).2 hnf
      rw [this]; subst hs1; simp
    · have hp := spec.2 hg
      have : (parseUIntDec (field ++ t :: rest) 0 false 0).ret < 0 := by rw [hp]; omega
      simp [this]


/-- the same for a `0x…` hexadecimal variable -/
theorem parseVarValue_hex (D : Desc) (s : St) (v : VarD) (field rest : List Byte) (t : Byte)
    (hty : v.type = .numHex) (hacc : v.access ≠ .ro) (hslot : v.dataSize ≤ (s.slotGet v.slot).length)
    (htxt : region D s .cmd s.position = field ++ t :: rest) (ht : IsTerm t)
    (hb : ∀ b ∈ field, b < 256 ∧ ¬ IsTerm b) :
    (IsHexText field ∧ fitsU v.dataSize (hexValue (hexBody field)) →
      (parseVarValue D s v).2.2 = true ∧ (parseVarValue D s v).2.1 = (if t = 44 then 1 else 0) ∧
      (parseVarValue D s v).1.slotGet v.slot = leBytes v.dataSize (hexValue (hexBody field)) ++ (s.slotGet v.slot).drop v.dataSize ∧
      (∀ k, k ≠ v.slot → (parseVarValue D s v).1.slotGet k = s.slotGet k) ∧
      (parseVarValue D s v).1.position = s.position + field.length + 1 ∧
      (parseVarValue D s v).1.writeSize = v.dataSize ∧ (parseVarValue D s v).1.oob = s.oob) ∧
    (¬ (IsHexText field ∧ fitsU v.dataSize (hexValue (hexBody field))) →
      (parseVarValue D s v).2.2 = false ∧ (parseVarValue D s v).1.mem = s.mem) := by
  have spec := parseNumHex_spec field rest t ht hb
  constructor
  · intro ⟨hg, hf⟩
    have hp := spec.1 ⟨hg, fitsU_le_u64 _ _ hf⟩
    unfold parseVarValue
    simp only [hty, htxt, hp]
    have hret : ¬ ((if t = 44 then (1 : Int) else 0) < 0) := by split <;> omega
    simp only [hret, if_false]
    generalize hs1 : ({ (s.chk (!false)) with position := s.position + (field.length + 1) } : St) = s1
    have e1 : s1.slotGet v.slot = s.slotGet v.slot := by subst hs1; simp [St.slotGet]
    have e2 : ∀ k, s1.slotGet k = s.slotGet k := by intro k; subst hs1; simp [St.slotGet]
    have e3 : s1.oob = s.oob ∧ s1.position = s.position + field.length + 1 := by subst hs1; simp [St.chk]; omega
    have := (validateUIntRange_spec s1 v (hexValue (hexBody field)) hacc (by rw [e1]; exact hslot)).1 hf
    obtain ⟨a1, a2, a3, a4, a5⟩ := this
    have hpos : (validateUIntRange s1 v (hexValue (hexBody field))).1.position = s1.position := by simp
    refine ⟨a1, trivial, by rw [a2, e1], fun k hk => by rw [a5 k hk, e2], by rw [hpos, e3.2], a3, by rw [a4, e3.1]⟩
  · intro hn
    unfold parseVarValue
    simp only [hty, htxt]
    by_cases hg : IsHexText field ∧ hexValue (hexBody field) ≤ U64MAX
    · have hp := spec.1 hg
      simp only [hp]
      have hret : ¬ ((if t = 44 then (1 : Int) else 0) < 0) := by split <;> omega
      simp only [hret, if_false]
      have hnf : ¬ fitsU v.dataSize (hexValue (hexBody field)) := fun h => hn ⟨hg.1, h⟩
      generalize hs1 : ({ (s.chk (!false)) with position := s.position + (field.length + 1) } : St) = s1
      have e1 : s1.slotGet v.slot = s.slotGet v.slot := by subst hs1; simp [St.slotGet]
      have := (validateUIntRange_spec s1 v (hexValue (hexBody field)) hacc (by rw [e1]; exact hslot)).2 hnf
      rw [this]; subst hs1; simp
    · have hp := spec.2 hg
      have : (parseNumHex (field ++ t :: rest) 0 0 0).ret < 0 := by rw [hp]; omega
      simp [this]

/-- `validate_int_range` on a writable variable: accepted iff the signed value fits the width; then
its two's complement encoding is stored -/
theorem validateIntRange_spec (s : St) (v : VarD) (neg : Bool) (mag : Nat) (hacc : v.access ≠ .ro)
    (hslot : v.dataSize ≤ (s.slotGet v.slot).length) :
    let val : Int := if neg then -(mag : Int) else mag
    (fitsI v.dataSize val →
      (validateIntRange s v neg mag).2 = true ∧
      (validateIntRange s v neg mag).1.slotGet v.slot =
        leBytes v.dataSize (ofSigned (8 * v.dataSize) val) ++ (s.slotGet v.slot).drop v.dataSize ∧
      (validateIntRange s v neg mag).1.writeSize = v.dataSize ∧ (validateIntRange s v neg mag).1.oob = s.oob ∧
      (∀ k, k ≠ v.slot → (validateIntRange s v neg mag).1.slotGet k = s.slotGet k)) ∧
    (¬ fitsI v.dataSize val → validateIntRange s v neg mag = (s, false)) := by
  intro val
  have hro : (v.access == Access.ro) = false := by cases h : v.access <;> simp_all
  have store : ∀ x : Nat, (storeInt s v x).slotGet v.slot = leBytes v.dataSize x ++ (s.slotGet v.slot).drop v.dataSize ∧
      (storeInt s v x).writeSize = v.dataSize ∧ (storeInt s v x).oob = s.oob ∧
      (∀ k, k ≠ v.slot → (storeInt s v x).slotGet k = s.slotGet k) := by
    intro x
    unfold storeInt
    have hc : (s.chk (decide (v.dataSize ≤ (s.slotGet v.slot).length))) = s := by simp [St.chk, hslot]
    rw [hc]
    have := slotWrite_spec v.slot (leBytes v.dataSize x) s 0 (by simp [leBytes_length]; exact hslot)
    simp only [leBytes_length, List.take_zero, List.nil_append, Nat.zero_add] at this
    exact ⟨by simpa [St.slotGet] using this.1, rfl, by simpa using this.2.1, fun k hk => by simpa [St.slotGet] using this.2.2.2.1 k hk⟩
  constructor
  · intro ⟨hsz, hlo, hhi⟩
    unfold validateIntRange
    simp only [hro]
    rcases hsz with h | h | h <;> simp [h] at hlo hhi ⊢
    · have e : ¬ (val < -128 ∨ 127 < val) := by omega
      simp only [show (if neg = true then -(mag : Int) else (mag : Int)) = val from rfl, e, if_false]
      have := store (ofSigned 8 val); simp [h] at this; exact ⟨trivial, this⟩
    · have e : ¬ (val < -32768 ∨ 32767 < val) := by omega
      simp only [show (if neg = true then -(mag : Int) else (mag : Int)) = val from rfl, e, if_false]
      have := store (ofSigned 16 val); simp [h] at this; exact ⟨trivial, this⟩
    · have e : ¬ (val < -2147483648 ∨ 2147483647 < val) := by omega
      simp only [show (if neg = true then -(mag : Int) else (mag : Int)) = val from rfl, e, if_false]
      have := store (ofSigned 32 val); simp [h] at this; exact ⟨trivial, this⟩
  · intro hn
    unfold validateIntRange fitsI at *
    simp only [hro]
    by_cases h1 : v.dataSize = 1
    · simp [h1] at hn ⊢; simp only [show (if neg = true then -(mag : Int) else (mag : Int)) = val from rfl]; omega
    · by_cases h2 : v.dataSize = 2
      · simp [h2] at hn ⊢; simp only [show (if neg = true then -(mag : Int) else (mag : Int)) = val from rfl]; omega
      · by_cases h4 : v.dataSize = 4
        · simp [h4] at hn ⊢; simp only [show (if neg = true then -(mag : Int) else (mag : Int)) = val from rfl]; omega
        · simp [h1, h2, h4]

end Cat
