/-
  While a line is being received its last consumed byte is not the LF (C01): the states between
  the first byte of a line and its LF are left, on the LF, for states behind the LF.  Hence a
  parser that rests in a state waiting for input, with an LF as the last consumed byte, rests in
  IDLE: nothing is owed.
-/
import CatVerif.Proofs.LineHist
import CatVerif.Proofs.Quiesce
namespace Cat
open St

/-- states in which a line is partially received (the sweep and the search for a WRITE request
run before the LF) -/
def MidSet (s : St) : Prop :=
  s.state = .parsePrefix ∨ s.state = .parseCommandChar ∨ s.state = .updateCommandState ∨ s.state = .waitReadAck ∨
  s.state = .waitTestAck ∨ s.state = .parseCommandArgs ∨ s.state = .error ∨
  ((s.state = .searchCommand ∨ s.state = .commandFound) ∧ s.cmdType = .write)

/-- in those states the last consumed byte is not the LF -/
def MidLine (s : St) : Prop := MidSet s → s.currentChar ≠ 10

theorem MidLine.of_not {s : St} (h : ¬ MidSet s) : MidLine s := fun m => absurd m h

macro "midcase" : tactic =>
  `(tactic| ((repeat' split) <;> simp_all [MidLine, MidSet, ackError, ackOk, startFlush, St.emit, prepareSearchCommand, prepareParseCommand]))

theorem errorState_mid (D : Desc) (s : St) (i : SvcIn) (hs : s.state = .error) (h : MidLine s) : MidLine (errorState D s i).1 := by
  cases hr : i.rd with
  | none => simpa [errorState, readCmdChar, hr, St.emit, MidLine, MidSet, hs] using h
  | some b => simp [errorState, readCmdChar, hr, St.emit, hs, MidLine, MidSet]; midcase

theorem processIdleState_mid (s : St) (i : SvcIn) (hs : s.state = .idle) : MidLine (processIdleState s i).1 := by
  cases hr : i.rd with
  | none => simp [processIdleState, readCmdChar, hr, St.emit, MidLine, MidSet, hs]
  | some b => simp [processIdleState, readCmdChar, hr, St.emit, hs, MidLine, MidSet]; midcase

theorem parsePrefix_mid (D : Desc) (s : St) (i : SvcIn) (hs : s.state = .parsePrefix) (h : MidLine s) : MidLine (parsePrefix D s i).1 := by
  cases hr : i.rd with
  | none => simpa [parsePrefix, readCmdChar, hr, St.emit, MidLine, MidSet, hs] using h
  | some b => simp [parsePrefix, readCmdChar, hr, St.emit, hs, MidLine, MidSet]; midcase

theorem parseCommand_mid (D : Desc) (s : St) (i : SvcIn) (hs : s.state = .parseCommandChar) (h : MidLine s) (hl : LineCpl s) :
    MidLine (parseCommand D s i).1 := by
  have hn := hl.name (Or.inl hs)
  cases hr : i.rd with
  | none => simpa [parseCommand, readCmdChar, hr, St.emit, MidLine, MidSet, hs] using h
  | some b => simp [parseCommand, readCmdChar, hr, St.emit, hs, MidLine, MidSet]; midcase

theorem waitReadAcknowledge_mid (s : St) (i : SvcIn) (hs : s.state = .waitReadAck) (h : MidLine s) (hl : LineCpl s) :
    MidLine (waitReadAcknowledge s i).1 := by
  have ht := hl.rdack hs
  cases hr : i.rd with
  | none => simpa [waitReadAcknowledge, readCmdChar, hr, St.emit, MidLine, MidSet, hs] using h
  | some b => simp [waitReadAcknowledge, readCmdChar, hr, St.emit, hs, MidLine, MidSet]; midcase

theorem parseCommandArgs_mid (D : Desc) (s : St) (i : SvcIn) (hs : s.state = .parseCommandArgs) (h : MidLine s) :
    MidLine (parseCommandArgs D s i).1 := by
  cases hr : i.rd with
  | none => simpa [parseCommandArgs, readCmdChar, hr, St.emit, MidLine, MidSet, hs] using h
  | some b =>
    simp [parseCommandArgs, readCmdChar, hr, St.emit, hs, MidLine, MidSet]
    (repeat' split) <;> simp_all [MidLine, MidSet, ackError, ackOk, startFlush, St.emit, setB] <;> (repeat' split) <;> simp_all

theorem waitTestAcknowledge_mid (D : Desc) (s : St) (i : SvcIn) (hs : s.state = .waitTestAck) (h : MidLine s) :
    MidLine (waitTestAcknowledge D s i).1 := by
  cases hr : i.rd with
  | none => simpa [waitTestAcknowledge, readCmdChar, hr, St.emit, MidLine, MidSet, hs] using h
  | some b =>
    by_cases h10 : toUpper b = 10
    · have e : (waitTestAcknowledge D s i).1 = startFormatTest D ({ s.emit (.rd (some b)) with currentChar := toUpper b }) .cmd := by
        simp [waitTestAcknowledge, readCmdChar, hr, St.emit, hs, h10]
      rw [e]
      apply MidLine.of_not
      have g := startFormatTest_cmd_state D ({ s.emit (.rd (some b)) with currentChar := toUpper b })
      simp at g
      rcases g with g | g | g <;> simp [MidSet, g]
    · simp [waitTestAcknowledge, readCmdChar, hr, St.emit, hs, h10, MidLine, MidSet]; midcase

theorem updateCommand_mid (D : Desc) (s : St) (hs : s.state = .updateCommandState) (h : MidLine s) : MidLine (updateCommand D s).1 := by
  have hc := h (by simp [MidSet, hs])
  have cc := updateCommand_cc D s
  intro _
  rw [cc]; exact hc

theorem searchCommand_mid (D : Desc) (s : St) (hs : s.state = .searchCommand) (h : MidLine s) : MidLine (searchCommand D s).1 := by
  have cc := searchCommand_cc D s
  have t := (searchCommand_buf D s).2.1
  intro m
  rw [cc]
  by_cases hw : s.cmdType = .write
  · exact h (by simp [MidSet, hs, hw])
  · -- not a WRITE request: the only way into the set is the error exit, taken when the byte is not the LF
    rcases searchCommand_out D s with ⟨x, e, hx⟩ | e | e
    · rw [← hx]
      intro h10
      have : (notFoundOrError x).state = .commandNotFound := by simp [notFoundOrError, h10]
      rw [e] at m
      simp [MidSet, this] at m
    · simp [MidSet, e, t, hw] at m
    · simp [MidSet, e, hs, t, hw] at m

theorem commandFound_mid (D : Desc) (s : St) (hs : s.state = .commandFound) (h : MidLine s) : MidLine (commandFound D s).1 := by
  have cc := commandFound_cc D s
  intro m
  rw [cc]
  by_cases hw : s.cmdType = .write
  · exact h (by simp [MidSet, hs, hw])
  · exfalso
    revert m
    simp [commandFound]
    cases hc : s.cmdType <;> simp [hc] at hw ⊢
    all_goals first
      | (have g := startFormatRead_cmd_state D (s.chkUb s.cmd.isSome); simp at g
         (repeat' split) <;> simp [MidSet] <;> (try (rcases g with g | g | g <;> simp [g])))
      | ((repeat' split) <;> simp [MidSet])

/-- **One step of the command machine preserves `MidLine`.** -/
theorem commandService_mid (D : Desc) (s : St) (i : SvcIn) (h : MidLine s) (hl : LineCpl s) : MidLine (commandService D s i).1 := by
  have nm : ∀ (l : List CState) (t : St), t.state ∈ l →
      (∀ st ∈ l, st ≠ .parsePrefix ∧ st ≠ .parseCommandChar ∧ st ≠ .updateCommandState ∧ st ≠ .waitReadAck ∧ st ≠ .waitTestAck ∧
        st ≠ .parseCommandArgs ∧ st ≠ .error ∧ st ≠ .searchCommand ∧ st ≠ .commandFound) → MidLine t := by
    intro l t ht hl
    apply MidLine.of_not
    have := hl _ ht
    simp [MidSet, this]
  unfold commandService
  split <;> rename_i hs
  · exact errorState_mid D s i hs h
  · exact processIdleState_mid s i hs
  · exact parsePrefix_mid D s i hs h
  · exact parseCommand_mid D s i hs h hl
  · exact updateCommand_mid D s hs h
  · exact waitReadAcknowledge_mid s i hs h hl
  · exact searchCommand_mid D s hs h
  · exact commandFound_mid D s hs h
  · exact nm [.flushWait] _ (by simp [commandNotFound]) (by decide)
  · exact parseCommandArgs_mid D s i hs h
  · have g := graph_writeArgs D s i; rw [hs] at g; exact nm _ _ g (by decide)
  · have g := graph_formatRead D s i; rw [hs] at g; exact nm _ _ g (by decide)
  · exact waitTestAcknowledge_mid D s i hs h
  · have g := graph_formatTest D s; rw [hs] at g; exact nm _ _ g (by decide)
  · have g := graph_writeLoop D s i; rw [hs] at g; exact nm _ _ g (by decide)
  · rcases graph_readLoop D s i with g | g
    · exact nm [.readLoop] _ (by simp [g, hs]) (by decide)
    · exact nm _ _ g (by decide)
  · rcases graph_testLoop D s i with g | g
    · exact nm [.testLoop] _ (by simp [g, hs]) (by decide)
    · exact nm _ _ g (by decide)
  · have g := graph_runLoop D s i; rw [hs] at g; exact nm _ _ g (by decide)
  · have g := graph_hold D s; rw [hs] at g; exact nm _ _ g (by decide)
  · exact nm [.flushWait, .flushWrite] _ (by rw [graph_wait]; split <;> simp [hs]) (by decide)
  · have g := graph_write D s i
    rw [hs] at g
    exact nm [.flushWrite, .afterFlushReset, .afterFlushOk, .afterFlushFormatRead, .afterFlushFormatTest, .printCmd] _
      (by simp at g; rcases g with g | g <;> rw [g] <;> (try simp) <;> cases s.writeStateAfter <;> simp [After.toC]) (by decide)
  · exact nm [.idle, .hold] _ (by simp [resetState, St.emit]; split <;> simp) (by decide)
  · exact nm [.flushWait] _ (by simp) (by decide)
  · exact nm _ _ (startFormatRead_cmd_state D s) (by decide)
  · exact nm _ _ (startFormatTest_cmd_state D s) (by decide)
  · have g := graph_printCmd D s; rw [hs] at g; exact nm _ _ g (by decide)

/-! ### histories -/

theorem LineSame.mid {a b : St} (h : LineSame a b) (m : MidLine a) : MidLine b := by
  intro ms
  rw [h.2.2.1]
  apply m
  simpa [MidSet, h.1, h.2.2.2.1] using ms

theorem serviceBody_mid (D : Desc) (s : St) (i : SvcIn) (hu : i.hu.ret ≠ 4) (hl : LineCpl s) (m : MidLine s) :
    MidLine (serviceBody D s i).1 := by
  have u := unsolicitedEventsService_lineSame D s i hu
  unfold serviceBody
  simp only
  exact commandService_mid D _ i (u.mid m) (u.lineCpl hl)

theorem service_mid (D : Desc) (s : St) (i : SvcIn) (hu : i.hu.ret ≠ 4) (hl : LineCpl s) (m : MidLine s) :
    MidLine (service D s i).1 := by
  unfold service withMutex
  split
  · split
    · exact (LineSame.emit _ _ (by simp [cls])).mid m
    · have e1 : LineSame s (s.emit (.lock i.lock)) := .emit _ _ (by simp [cls])
      have st := serviceBody_mid D _ i hu (e1.lineCpl hl) (e1.mid m)
      have e2 : LineSame (serviceBody D (s.emit (.lock i.lock)) i).1 ((serviceBody D (s.emit (.lock i.lock)) i).1.emit (.unlock i.unlock)) :=
        .emit _ _ (by simp [cls])
      simp only
      split <;> exact e2.mid st
  · exact serviceBody_mid D s i hu hl m

theorem apply_mid (w : World) (op : Op) (hop : OpOk op) (h : LineInv w.s) (m : MidLine w.s) : MidLine (apply w op).1.s := by
  have hl0 : LineCpl ({ w.s with log := [] } : St) := ⟨h.2.post, h.2.search, h.2.name, h.2.rdack⟩
  have m0 : MidLine ({ w.s with log := [] } : St) := m
  by_cases hs : ∃ i, op = .service i
  · obtain ⟨i, rfl⟩ := hs
    simp only [apply]
    exact service_mid w.D _ i hop hl0 m0
  · exact (apply_nonservice_lineSame w op (fun i hi => hs ⟨i, hi⟩)).mid m0

theorem runOps_mid : ∀ (ops : List Op) (w : World), (∀ op ∈ ops, OpOk op) → LineInv w.s → MidLine w.s →
    MidLine (runOps w ops).1.s := by
  intro ops
  induction ops with
  | nil => intro w _ _ m; exact m
  | cons op r ih =>
    intro w hok h m
    simp only [runOps]
    exact ih _ (fun o ho => hok o (by simp [ho])) (apply_line w op (hok op (by simp)) h).1 (apply_mid w op (hok op (by simp)) h m)

/-- **At rest behind an LF nothing is owed**: if the command machine is in a state that waits for
input and the last byte it consumed was an LF, it is in IDLE. -/
theorem idle_of_rest {s : St} (m : MidLine s) (hr : Reading s.state) (hc : s.currentChar = 10) : s.state = .idle := by
  unfold Reading at hr
  rcases hr with h | h | h | h | h | h | h
  · exact h
  all_goals exact absurd hc (m (by simp [MidSet, h]))

end Cat
