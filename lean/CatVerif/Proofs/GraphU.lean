/-
  Transition facts of the unsolicited machine.
-/
import CatVerif.Proofs.StepU
import CatVerif.Proofs.Graph
namespace Cat
open St

@[simp] theorem endError_uns_ustate (D : Desc) (s : St) : (endError D s .uns).ustate = .idle := by simp [endError, unsolicitedResetState]
@[simp] theorem endOk_uns_ustate (D : Desc) (s : St) : (endOk D s .uns).ustate = .idle := by simp [endOk, unsolicitedResetState]
@[simp] theorem startFlush_uns_ustate (s : St) (a : After) : (startFlush s .uns a).ustate = .flushWait ∧ (startFlush s .uns a).uwriteStateAfter = a := by
  simp [startFlush]

/-- states other than FLUSH_IO_WRITE that the unsolicited machine's helpers can produce -/
def uOther : List UState := [.idle, .flushWait, .formatReadArgs, .readLoop, .formatTestArgs, .testLoop]

theorem printResponseTest_uns_ustate (D : Desc) (s : St) :
    (printResponseTest D s .uns).1.ustate = s.ustate ∨ (printResponseTest D s .uns).1.ustate ∈ uOther := by
  simp [printResponseTest, setStateTL, uOther]; crunch

theorem startFormatTest_uns_ustate (D : Desc) (s : St) : (startFormatTest D s .uns).ustate ∈ uOther := by
  simp [startFormatTest, St.cmdOf, printResponseTest, setStateTL, uOther]; crunch

theorem startFormatRead_uns_ustate (D : Desc) (s : St) : (startFormatRead D s .uns).ustate ∈ uOther := by
  simp [startFormatRead, St.cmdOf, setStateRL, uOther]; crunch

theorem nextFormatVar_uns_ustate (D : Desc) (s : St) :
    (nextFormatVar D s .uns).1.ustate = s.ustate ∨ (nextFormatVar D s .uns).1.ustate = .idle := by
  simp [nextFormatVar, St.setIdx, St.idx, St.pos]; crunch

theorem doCall_uns_ustate (D : Desc) (s : St) (c : Call) :
    (doCall D .uns s c).ustate = s.ustate ∨ (doCall D .uns s c).ustate ∈ uOther := by
  cases c with
  | ackOk => left; simp [doCall, ackOk, startFlush]
  | ackError => left; simp [doCall, ackError, startFlush]
  | enableHold => left; simp [doCall, enableHoldState]
  | startPrintCmdList => left; simp [doCall, startPrintCmdList]; split <;> simp [ackOk, startFlush]
  | endOk => right; simp [doCall, uOther]
  | endError => right; simp [doCall, uOther]
  | startFlush a => right; simp [doCall, uOther]
  | startFormatRead => right; exact startFormatRead_uns_ustate D s
  | startFormatTest => right; exact startFormatTest_uns_ustate D s
  | holdExit ok => left; simp [doCall]

theorem doCalls_uns_ustate (D : Desc) (cs : List Call) : ∀ s : St,
    (doCalls D .uns s cs).ustate = s.ustate ∨ (doCalls D .uns s cs).ustate ∈ uOther := by
  induction cs with
  | nil => intro s; simp [doCalls]
  | cons c r ih =>
    intro s
    simp only [doCalls]
    rcases ih (doCall D .uns s c) with h | h
    · rcases doCall_uns_ustate D s c with g | g
      · left; rw [h, g]
      · right; rw [h]; exact g
    · right; exact h

/-- the unsolicited machine's state is kept or moves to a state other than FLUSH_IO_WRITE -/
def UStep (s s' : St) : Prop := s'.ustate = s.ustate ∨ s'.ustate ∈ uOther

theorem UStep.of_eq {s s' : St} (h : s'.ustate = s.ustate) : UStep s s' := Or.inl h
theorem UStep.trans {a b c : St} (h1 : UStep a b) (h2 : UStep b c) : UStep a c := by
  unfold UStep at *
  rcases h2 with h | h
  · rw [h]; exact h1
  · exact Or.inr h

theorem checkUnsolicitedBuffers_ustep (D : Desc) (s : St) : UStep s (checkUnsolicitedBuffers D s) := by
  unfold checkUnsolicitedBuffers
  split
  · exact .of_eq rfl
  · simp only
    split
    · exact Or.inr (startFormatRead_uns_ustate D _)
    · split
      · exact Or.inr (startFormatTest_uns_ustate D _)
      · exact .of_eq (by simp [ringPop])

theorem formatReadArgs_uns_ustep (D : Desc) (s : St) (i : SvcIn) : UStep s (formatReadArgs D s .uns i).1 := by
  simp only [formatReadArgs]
  generalize hs0 : (s.chkUb (s.cmdOf .uns).isSome).chkUb _ = s0
  have e0 : s0.ustate = s.ustate := by subst hs0; simp
  generalize hv : (D.cmdD ((s.chkUb (s.cmdOf Fsm.uns).isSome).cmdOf Fsm.uns)).varAt _ = v
  have h1 := (varReadCb_state D s0 .uns v i).2
  split
  · exact Or.inr (by simp [uOther])
  · have h2 := (formatVar_state D (varReadCb D s0 .uns v i).1 .uns v).2
    split
    · exact Or.inr (by simp [uOther])
    · have h3 := nextFormatVar_uns_ustate D (formatVar D (varReadCb D s0 .uns v i).1 .uns v).1
      split
      · rcases h3 with h | h
        · exact .of_eq (by simp_all)
        · exact Or.inr (by simp [uOther, h])
      · split
        · exact Or.inr (by simp [setStateRL, uOther])
        · exact Or.inr (by simp [uOther])

theorem formatTestArgs_uns_ustep (D : Desc) (s : St) : UStep s (formatTestArgs D s .uns).1 := by
  simp only [formatTestArgs]
  generalize hs0 : (s.chkUb (s.cmdOf .uns).isSome).chkUb _ = s0
  have e0 : s0.ustate = s.ustate := by subst hs0; simp
  generalize hv : (D.cmdD ((s.chkUb (s.cmdOf Fsm.uns).isSome).cmdOf Fsm.uns)).varAt _ = v
  have h1 : (formatInfoType D s0 .uns v).1.ustate = s0.ustate := by simp
  split
  · exact Or.inr (by simp [uOther])
  · have h3 := nextFormatVar_uns_ustate D (formatInfoType D s0 .uns v).1
    split
    · rcases h3 with h | h
      · exact .of_eq (by simp_all)
      · exact Or.inr (by simp [uOther, h])
    · have h4 := printResponseTest_uns_ustate D (nextFormatVar D (formatInfoType D s0 .uns v).1 .uns).1
      split
      · rcases h4 with g | g
        · rcases h3 with h | h
          · exact .of_eq (by simp_all)
          · exact Or.inr (by simp [uOther, g, h])
        · exact Or.inr g
      · exact Or.inr (by simp [uOther])

theorem processReadLoop_uns_ustep (D : Desc) (s : St) (i : SvcIn) : UStep s (processReadLoop D s .uns i).1 := by
  simp only [processReadLoop]
  generalize hx : applyNested D Fsm.uns true _ _ = x
  have hxs : x.ustate = s.ustate := by subst hx; simp
  rcases doCalls_uns_ustate D (Gen.process_read_loop i.hu.ret .uns) x with h | h
  · exact .of_eq (by rw [h, hxs])
  · exact Or.inr h

theorem processTestLoop_uns_ustep (D : Desc) (s : St) (i : SvcIn) : UStep s (processTestLoop D s .uns i).1 := by
  simp only [processTestLoop]
  generalize hx : applyNested D Fsm.uns true _ _ = x
  have hxs : x.ustate = s.ustate := by subst hx; simp
  rcases doCalls_uns_ustate D (Gen.process_test_loop i.hu.ret .uns) x with h | h
  · exact .of_eq (by rw [h, hxs])
  · exact Or.inr h

theorem ustep_not_fw {s s' : St} (h : UStep s s') (h' : s'.ustate = .flushWrite) : s.ustate = .flushWrite := by
  rcases h with h | h
  · rw [← h]; exact h'
  · simp [uOther, h'] at h

/-- one step of the unsolicited machine reaches FLUSH_IO_WRITE only from its wait state (when the
command machine is not writing) or by staying there -/
theorem uns_flushWrite (D : Desc) (s : St) (i : SvcIn)
    (h : (unsolicitedEventsService D s i).1.ustate = .flushWrite) :
    s.ustate = .flushWrite ∨ (s.ustate = .flushWait ∧ s.state ≠ .flushWrite) := by
  unfold unsolicitedEventsService at h
  split at h
  · exact Or.inl (ustep_not_fw (checkUnsolicitedBuffers_ustep D s) h)
  · exact Or.inl (ustep_not_fw (formatReadArgs_uns_ustep D s i) h)
  · exact Or.inl (ustep_not_fw (formatTestArgs_uns_ustep D s) h)
  · exact Or.inl (ustep_not_fw (processReadLoop_uns_ustep D s i) h)
  · exact Or.inl (ustep_not_fw (processTestLoop_uns_ustep D s i) h)
  · rename_i hs
    right
    refine ⟨hs, ?_⟩
    intro hc
    simp [unsolicitedProcessIoWriteWait, hc, hs] at h
  · rename_i hs; exact Or.inl hs
  · simp [unsolicitedResetState] at h
  · simp at h
  · have := startFormatRead_uns_ustate D s; simp at h; simp [uOther, h] at this
  · have := startFormatTest_uns_ustate D s; simp at h; simp [uOther, h] at this

/-- the unsolicited machine's wait and write steps leave the command machine's state alone -/
theorem uns_flush_keeps_state (D : Desc) (s : St) (i : SvcIn) (h : s.ustate = .flushWait ∨ s.ustate = .flushWrite) :
    (unsolicitedEventsService D s i).1.state = s.state := by
  unfold unsolicitedEventsService
  rcases h with h | h <;> simp [h]

end Cat
