/-
  No out-of-bounds access along any history of API calls (C03): from `cat_init` with a well-formed
  descriptor (`DescOk`), storage blocks at least `data_size` long (`MemOk`) and a working buffer
  of the declared size, the `oob` flag stays false whatever arrives on the input, whatever the
  handlers answer and whatever API calls are made in between.
-/
import CatVerif.Proofs.NoOob
import CatVerif.Proofs.LenMem
namespace Cat
open St

/-! ### transfer of the invariants across the other machine's step -/

theorem LenE.slot {s s' : St} (h : LenE s s') (k : Nat) : (s'.slotGet k).length = (s.slotGet k).length := by
  simp only [LenE] at h
  have e : ∀ t : St, (t.slotGet k).length = (t.mem.map List.length).getD k 0 := by
    intro t
    simp only [St.slotGet, List.getD, List.getElem?_map]
    cases t.mem[k]? <;> simp
  rw [e, e, h]

theorem MemOk.lenE {D : Desc} {s s' : St} (h : MemOk D s) (hl : LenE s s') : MemOk D s' :=
  fun id v hv => by rw [hl.slot]; exact h id v hv

/-- machine `f` sees the same bytes inside its region -/
def SameReg (D : Desc) (f : Fsm) (s s' : St) : Prop := ∀ n, n < D.capOf f → getB D s' f n = getB D s f n

theorem HasNul.reg {D : Desc} {s s' : St} {f : Fsm} {p : Nat} (h : SameReg D f s s') (hn : HasNul D s f p) : HasNul D s' f p := by
  obtain ⟨n, a, b, c⟩ := hn
  exact ⟨n, a, b, by rw [h n b]; exact c⟩

theorem OobF.reg {D : Desc} {s s' : St} {f : Fsm} (hph : s'.ph f = s.ph f) (hsrc : s'.wsrc f = s.wsrc f) (hwst : s'.wst f = s.wst f)
    (hpos : s'.pos f = s.pos f) (hb : SameReg D f s s') (hw : s'.waiting f → s.waiting f) (o : OobF D s f) : OobF D s' f := by
  refine ⟨?_, ?_, ?_, ?_, fun a => ⟨by rw [hpos]; exact (o.wait (hw a)).pos, by rw [hsrc, hwst]; exact (o.wait (hw a)).src⟩, fun a => by rw [hwst]; exact o.wsle (hph ▸ a)⟩
  · intro a b; rw [hpos]; exact (o.main (hph ▸ a) (hsrc ▸ b)).reg hb
  · intro a off b; rw [hpos]; exact o.nl (hph ▸ a) off (hsrc ▸ b)
  · intro a b; exact (o.first (hph ▸ a) (hwst ▸ b)).reg hb
  · intro a; exact (o.loop (hph ▸ a)).reg hb

theorem sameReg_cmd_of_take {D : Desc} {s s' : St} (h : s'.buf.take D.cmdCap = s.buf.take D.cmdCap) : SameReg D .cmd s s' := by
  intro n hn
  have hn' : n < D.cmdCap := hn
  simp only [getB, List.getD]
  have e : ∀ t : St, t.buf[n]? = (t.buf.take D.cmdCap)[n]? := by
    intro t; rw [List.getElem?_take]; simp [hn']
  rw [e, e, h]

theorem sameReg_uns_of_drop {D : Desc} {s s' : St} (h1 : s'.ubuf = s.ubuf) (h2 : s'.buf.drop D.cmdCap = s.buf.drop D.cmdCap) :
    SameReg D .uns s s' := by
  intro n _
  simp only [getB]
  cases hu : D.unsBuf.isSome
  · simp only [Bool.false_eq_true, if_false, List.getD]
    have e : ∀ t : St, t.buf[D.unsBase + n]? = (t.buf.drop D.cmdCap)[n]? := by
      intro t; rw [List.getElem?_drop, unsBase_eq_cmdCap D hu]
    rw [e, e, h2]
  · simp [h1]

/-- the three text-termination invariants -/
structure OobAll (D : Desc) (s : St) : Prop where
  c : OobF D s .cmd
  a : OobA D s
  u : OobF D s .uns

theorem Wf.step {D : Desc} {s s' : St} (w : Wf D s) (hl : LenE s s') (hr : RingInv D s') (hb : s'.buf.length = s.buf.length) : Wf D s' :=
  ⟨w.desc, w.mem.lenE hl, hr, by have := w.buf; unfold BufOk at *; omega⟩

/-! ### `cat_service` -/

theorem serviceBody_oob {D : Desc} (s : St) (i : SvcIn) (hu : i.hu.ret ≠ 4) (hn : 0 < D.commandsNum)
    (w : Wf D s) (ub : UbAll D s) (o : OobAll D s) :
    (serviceBody D s i).1.oob = s.oob ∧ Wf D (serviceBody D s i).1 ∧ OobAll D (serviceBody D s i).1 := by
  -- the unsolicited machine's step
  have us := unsolicitedEventsService_oob s i w ub.2 o.u
  have kc := unsolicitedEventsService_keepsC D s i hu
  have kr := unsolicitedEventsService_keepsCR D s i
  have kl := unsolicitedEventsService_lenEu D s i
  have krg := unsolicitedEventsService_ring D s i w.ring
  have ubu := unsolicitedEventsService_ubStepU D s i ub.2
  simp only [KeepsCH, SameC'] at kc
  generalize hs1 : (unsolicitedEventsService D s i).1 = s1 at us kc kr kl krg ubu
  have w1 : Wf D s1 := w.step kl krg kr.2.1
  have reg1 : SameReg D .cmd s s1 := sameReg_cmd_of_take kr.1
  have ph1 : s1.ph .cmd = s.ph .cmd := by simp only [St.ph]; rw [kc.1.2.2.2.2.2.2.2.1]
  have oc1 : OobF D s1 .cmd := OobF.reg ph1 kc.1.2.2.2.2.2.2.2.2.2.1 kc.1.2.2.2.2.2.2.2.2.2.2.1 kc.2.1 reg1 (fun h => by simp only [St.waiting] at h ⊢; rw [← kc.1.2.2.2.2.2.2.2.1]; exact h) o.c
  have oa1 : OobA D s1 := by
    refine ⟨fun h => ?_, fun h => ?_⟩
    · have := o.a.args (by rw [← kc.1.2.2.2.2.2.2.2.1]; exact h)
      rw [kc.1.2.2.1]
      exact ⟨this.1, by rw [reg1 _ this.1]; exact this.2⟩
    · have := o.a.wargs (by rw [← kc.1.2.2.2.2.2.2.2.1]; exact h)
      rw [kc.2.1]
      exact this.reg reg1
  have ui1 : UbInv D s1 := by
    have a1 := kc.1.2.2.2.2.2.2.2.1
    have a2 := kc.1.1
    have a3 := kc.1.2.2.2.2.1
    have a4 := kc.1.2.2.2.2.2.2.2.2.2.2.2.1
    have a5 := kc.2.1
    exact ⟨fun x => by rw [a2]; exact ub.1.idx (by rw [← a1, ← a4]; exact x), fun x => by rw [a2]; exact ub.1.name (by rw [← a1]; exact x),
      fun x => by rw [a3]; exact ub.1.cmd (by simp only [NeedsCmd] at x ⊢; rw [← a1, ← a4]; exact x),
      fun x => by rw [a2, a3]; exact ub.1.var (by rw [← a1]; exact x), fun x => by rw [a5]; exact ub.1.pos (by rw [← a1]; exact x)⟩
  -- the command machine's step
  have cs := commandService_oob s1 i w1 ui1 oc1 oa1
  have ku := commandService_keepsU D s1 i
  have kur := commandService_keepsUR D s1 i
  have cl := commandService_lenE D s1 i
  have crg := commandService_ring D s1 i w1.ring
  simp only [KeepsU, SameU'] at ku
  unfold serviceBody
  simp only [hs1]
  generalize (commandService D s1 i).1 = s2 at cs ku kur cl crg
  have w2 : Wf D s2 := w1.step cl crg kur.2.2
  have reg2 : SameReg D .uns s1 s2 := sameReg_uns_of_drop kur.1 kur.2.1
  have ph2 : s2.ph .uns = s1.ph .uns := by simp only [St.ph]; rw [ku.1.1]
  have ou2 : OobF D s2 .uns := OobF.reg ph2 ku.1.2.2.2.2.1 ku.1.2.2.2.2.2.1 ku.2 reg2 (fun h => by simp only [St.waiting] at h ⊢; rw [← ku.1.1]; exact h) us.2
  exact ⟨cs.1.trans us.1, w2, ⟨cs.2.1, cs.2.2, ou2⟩⟩

/-! ### steps that change nothing the invariants read -/

/-- control fields, cursors, buffers, slot lengths and the fault flag unchanged -/
def Still (s s' : St) : Prop := Calm s s' ∧ LenE s s' ∧ s'.oob = s.oob

theorem Still.refl (s : St) : Still s s := ⟨.refl s, rfl, rfl⟩
theorem Still.trans {a b c : St} (h1 : Still a b) (h2 : Still b c) : Still a c :=
  ⟨h1.1.trans h2.1, by have := h1.2.1; have := h2.2.1; simp only [LenE] at *; simp_all, h2.2.2.trans h1.2.2⟩
theorem Still.emit (s : St) (e : Ev) : Still s (s.emit e) := ⟨Calm.emit s e, rfl, rfl⟩

theorem OobA.calm {D : Desc} {s s' : St} (h : Calm s s') (a : OobA D s) : OobA D s' := by
  refine ⟨fun x => ?_, fun x => ?_⟩
  · have := a.args (by rw [← h.c.2.2.2.2.2.2.2.1]; exact x)
    rw [h.c.2.2.1, getB_congr D .cmd _ h.b]; exact this
  · have := a.wargs (by rw [← h.c.2.2.2.2.2.2.2.1]; exact x)
    rw [h.p.1]; exact this.congr h.b

theorem Still.keep {D : Desc} {s s' : St} (h : Still s s') (hr : RingInv D s') (w : Wf D s) (o : OobAll D s) :
    Wf D s' ∧ OobAll D s' :=
  ⟨w.step h.2.1 hr (by rw [h.1.b.1]), ⟨h.1.oobF o.c, o.a.calm h.1, h.1.oobF o.u⟩⟩

/-! ### descriptors with the same geometry and variables -/

structure DescEq (D D' : Desc) : Prop where
  bufSize : D'.bufSize = D.bufSize
  unsBuf : D'.unsBuf = D.unsBuf
  cap : D'.cap = D.cap
  num : D'.commandsNum = D.commandsNum
  vars : ∀ id, (D'.cmdD id).vars = (D.cmdD id).vars

theorem DescEq.capOf {D D' : Desc} (h : DescEq D D') (f : Fsm) : D'.capOf f = D.capOf f := by
  cases f <;> simp [Desc.capOf, Desc.cmdCap, Desc.unsCap, h.bufSize, h.unsBuf]

theorem DescEq.getB {D D' : Desc} (h : DescEq D D') (s : St) (f : Fsm) (n : Nat) : getB D' s f n = getB D s f n := by
  cases f <;> simp [St.getB, Desc.unsBase, h.bufSize, h.unsBuf]

theorem DescEq.hasNul {D D' : Desc} (h : DescEq D D') {s : St} {f : Fsm} {p : Nat} (hn : HasNul D s f p) : HasNul D' s f p := by
  obtain ⟨n, a, b, c⟩ := hn
  exact ⟨n, a, by rw [h.capOf]; exact b, by rw [h.getB]; exact c⟩

theorem DescEq.oobF {D D' : Desc} (h : DescEq D D') {s : St} {f : Fsm} (o : OobF D s f) : OobF D' s f :=
  ⟨fun a b => h.hasNul (o.main a b), o.nl, fun a b => h.hasNul (o.first a b),
   fun a => h.hasNul (o.loop a), o.wait, o.wsle⟩

theorem DescEq.keep {D D' : Desc} (h : DescEq D D') {s : St} (w : Wf D s) (o : OobAll D s) : Wf D' s ∧ OobAll D' s := by
  have hc : D'.cmdCap = D.cmdCap := h.capOf .cmd
  refine ⟨⟨⟨by rw [h.num, hc]; exact w.desc.lanes, by rw [hc]; exact w.desc.ack, fun id v hv => w.desc.vars id v (by rw [← h.vars]; exact hv)⟩,
    fun id v hv => w.mem id v (by rw [← h.vars]; exact hv),
    ⟨by rw [h.cap]; exact w.ring.cap_pos, by rw [h.cap]; exact w.ring.len, by rw [h.cap]; exact w.ring.head_lt,
     by rw [h.cap]; exact w.ring.count_le, by rw [h.cap]; exact w.ring.tail_eq⟩,
    by have := w.buf; unfold BufOk at *; rw [hc]; exact this⟩, ⟨h.oobF o.c, ?_, h.oobF o.u⟩⟩
  refine ⟨fun x => ?_, fun x => h.hasNul (o.a.wargs x)⟩
  have := o.a.args x
  exact ⟨by rw [hc]; exact this.1, by rw [h.getB]; exact this.2⟩

theorem modifyCmd_eq (D : Desc) (id : Nat) (fn : CmdD → CmdD) (hv : ∀ c, (fn c).vars = c.vars) : DescEq D (D.modifyCmd id fn) := by
  have sm := modifyCmd_same D id fn hv
  have hn := sm.num
  refine ⟨?_, ?_, modifyCmd_cap D id fn, hn, ?_⟩
  · unfold Desc.modifyCmd; split <;> rfl
  · unfold Desc.modifyCmd; split <;> rfl
  · intro oid
    cases oid with
    | none => rfl
    | some k =>
      simp only [Desc.cmdD, Desc.cmd?, hn]
      unfold Desc.modifyCmd
      split
      · split
        · simp only []
          rw [cmdByIndex_modify fn hv]
        · rfl
      · split
        · rfl
        · simp only [List.getElem?_modify]
          split
          · rename_i e
            cases hg : D.extras[id - D.commandsNum]? with
            | none => simp [← e, hg]
            | some c => simp [← e, hg, hv]
          · simp

theorem groupDisable_eq (D : Desc) (g : Nat) (v : Bool) :
    DescEq D { D with groups := D.groups.modify g (fun x => { x with disable := v }) } := by
  have sh := groupsModify_shape (fun x => { x with disable := v }) (fun _ => rfl) D.groups g
  have hn : ({ D with groups := D.groups.modify g (fun x => { x with disable := v }) } : Desc).commandsNum = D.commandsNum := by
    simp [Desc.commandsNum, sh.2]
  refine ⟨rfl, rfl, rfl, hn, ?_⟩
  intro oid
  cases oid with
  | none => rfl
  | some k => simp only [Desc.cmdD, Desc.cmd?, hn, sh.1]

/-! ### one API call, a history -/

/-- everything that holds in every reachable state -/
structure Good (w : World) : Prop where
  num : 0 < w.D.commandsNum
  wf : Wf w.D w.s
  ub : UbAll w.D w.s
  oob : OobAll w.D w.s

theorem withMutex_still (D : Desc) (s : St) (lk ul : Int) (body : St → St × Int)
    (hbody : ∀ a, RingInv D a → Still a (body a).1 ∧ RingInv D (body a).1) (hr : RingInv D s) :
    Still s (withMutex D s lk ul body).1 ∧ RingInv D (withMutex D s lk ul body).1 := by
  have em : ∀ (a : St) (e : Ev), RingInv D a → RingInv D (a.emit e) := fun a e ha => ha.congr (by simp)
  unfold withMutex
  split
  · split
    · exact ⟨.emit _ _, em _ _ hr⟩
    · have b := hbody _ (em s (.lock lk) hr)
      simp only
      split <;> exact ⟨(Still.emit s _).trans (b.1.trans (.emit _ _)), em _ _ b.2⟩
  · exact hbody _ hr

theorem withMutex_oob (D : Desc) (s : St) (lk ul : Int) (body : St → St × Int)
    (P : St → Prop) (hemit : ∀ a e, P a → P (a.emit e))
    (hbody : ∀ a, P a → (body a).1.oob = a.oob ∧ P (body a).1) (h : P s) :
    (withMutex D s lk ul body).1.oob = s.oob ∧ P (withMutex D s lk ul body).1 := by
  unfold withMutex
  split
  · split
    · exact ⟨rfl, hemit _ _ h⟩
    · have b := hbody _ (hemit s (.lock lk) h)
      simp only
      split <;> exact ⟨b.1, hemit _ _ b.2⟩
  · exact hbody _ h

theorem apply_good (w : World) (op : Op) (hop : OpOk op) (g : Good w) :
    (apply w op).1.s.oob = w.s.oob ∧ Good (apply w op).1 := by
  have nu := apply_noUb w op hop g.num g.ub
  have clr : Still w.s ({ w.s with log := [] } : St) := ⟨⟨by simp, by simp, by simp, by simp⟩, rfl, rfl⟩
  have r0 : RingInv w.D ({ w.s with log := [] } : St) := g.wf.ring.congr (by simp)
  have k0 := clr.keep r0 g.wf g.oob
  have fin : ∀ s' : St, (apply w op).1.D = w.D → (apply w op).1.s = s' → Still ({ w.s with log := [] } : St) s' → RingInv w.D s' →
      (apply w op).1.s.oob = w.s.oob ∧ Good (apply w op).1 := by
    intro s' hD hs hst hr
    have k := hst.keep hr k0.1 k0.2
    refine ⟨by rw [hs]; exact hst.2.2, ⟨by rw [nu.2.2]; exact g.num, ?_, nu.2.1, ?_⟩⟩
    · rw [hD, hs]; exact k.1
    · rw [hD, hs]; exact k.2
  cases op with
  | service i =>
    have key := withMutex_oob w.D ({ w.s with log := [] } : St) i.lock i.unlock (fun s => serviceBody w.D s i)
      (fun a => Wf w.D a ∧ UbAll w.D a ∧ OobAll w.D a)
      (fun a e h => ⟨((Still.emit a e).keep (h.1.ring.congr (by simp)) h.1 h.2.2).1, (UbSame.emit a e).inv h.2.1.1 h.2.1.2,
        ((Still.emit a e).keep (h.1.ring.congr (by simp)) h.1 h.2.2).2⟩)
      (fun a h => by
        have := serviceBody_oob a i hop g.num h.1 h.2.1 h.2.2
        exact ⟨this.1, this.2.1, (serviceBody_noUb w.D a i hop g.num h.2.1).2, this.2.2⟩)
      ⟨k0.1, (show UbSame w.s { w.s with log := [] } from ⟨rfl, rfl, rfl, rfl, rfl, rfl, rfl, rfl, rfl, rfl, rfl⟩).inv g.ub.1 g.ub.2, k0.2⟩
    exact ⟨key.1, ⟨g.num, key.2.1, key.2.2.1, key.2.2.2⟩⟩
  | isBusy lk ul =>
    have := withMutex_still w.D _ lk ul isBusyBody (fun a ha => ⟨.refl a, ha⟩) r0
    exact fin _ rfl rfl this.1 this.2
  | isHold lk ul =>
    have := withMutex_still w.D _ lk ul isHoldBody (fun a ha => ⟨.refl a, ha⟩) r0
    exact fin _ rfl rfl this.1 this.2
  | isFull lk ul =>
    have := withMutex_still w.D _ lk ul (isFullBody w.D) (fun a ha => ⟨.refl a, ha⟩) r0
    exact fin _ rfl rfl this.1 this.2
  | trigger c t lk ul =>
    have := withMutex_still w.D _ lk ul (fun s => pushUnsolicited w.D s c (cmdTypeOfInt t))
      (fun a ha => by
        have f := pushUnsolicited_frame w.D a c (cmdTypeOfInt t)
        exact ⟨⟨⟨f.1, f.2.1, f.2.2.2.1, f.2.2.2.2.2.1⟩, by simp [f.2.2.2.2.1], pushUnsolicited_oob w.D a c _ ha⟩, pushUnsolicited_ring w.D a c _ ha⟩) r0
    exact fin _ rfl rfl this.1 this.2
  | holdExit st lk ul =>
    have := withMutex_still w.D _ lk ul (fun s => holdExit s st)
      (fun a ha => ⟨⟨holdExit_calm a st, by simp, holdExit_oob a st⟩, ha.congr (by simp)⟩) r0
    exact fin _ rfl rfl this.1 this.2
  | buffered c t => exact fin _ rfl rfl (.refl _) r0
  | setCmdDisable c v =>
    have de := modifyCmd_eq w.D c (fun x => { x with disable := v }) (fun _ => rfl)
    have k := de.keep k0.1 k0.2
    exact ⟨rfl, ⟨by rw [nu.2.2]; exact g.num, k.1, nu.2.1, k.2⟩⟩
  | setCmdOnlyTest c v =>
    have de := modifyCmd_eq w.D c (fun x => { x with onlyTest := v }) (fun _ => rfl)
    have k := de.keep k0.1 k0.2
    exact ⟨rfl, ⟨by rw [nu.2.2]; exact g.num, k.1, nu.2.1, k.2⟩⟩
  | setGroupDisable gi v =>
    have de := groupDisable_eq w.D gi v
    have k := de.keep k0.1 k0.2
    exact ⟨rfl, ⟨by rw [nu.2.2]; exact g.num, k.1, nu.2.1, k.2⟩⟩
  | poke slot off bs =>
    have st : Still ({ w.s with log := [] } : St) (apply w (.poke slot off bs)).1.s := by
      simp only [apply]
      split
      · rename_i h
        exact ⟨⟨by simp, by simp, by simp, by simp⟩, poke_lenE _ slot off bs h, rfl⟩
      · exact .refl _
    have hr : RingInv w.D (apply w (.poke slot off bs)).1.s := r0.congr (by simp only [apply]; split <;> simp)
    exact fin _ rfl rfl st hr

/-- **Along every history no access outside its object is performed.** -/
theorem runOps_noOob : ∀ (ops : List Op) (w : World), (∀ op ∈ ops, OpOk op) → Good w →
    (runOps w ops).1.s.oob = w.s.oob ∧ Good (runOps w ops).1 := by
  intro ops
  induction ops with
  | nil => intro w _ h; exact ⟨rfl, h⟩
  | cons op r ih =>
    intro w hok h
    have a := apply_good w op (hok op (by simp)) h
    have b := ih (apply w op).1 (fun o ho => hok o (by simp [ho])) a.2
    simp only [runOps]
    exact ⟨b.1.trans a.1, b.2⟩

end Cat
