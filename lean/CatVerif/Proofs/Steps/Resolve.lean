/-
  Generated step functions proved equal to the model's (`Gen/Steps/Resolve.lean`, regenerated from `src/cat.c` on every run):
  the sweep and the search of name resolution (`update_command`, `search_command`; T11): C02/C09.
-/
import CatVerif.Gen.Steps.Resolve
import CatVerif.Proofs.NoOob
import CatVerif.Proofs.Line
namespace Cat
open St

/-- the advance at the end of `update_command`, as the generated text has it -/
theorem adv_eq (D : Desc) (x : St) :
    updateAdvance D x =
      (let s : St := { x with index := x.index + 1 }
       let s : St := (if decide (s.index ≥ D.commandsNum) then (let s : St := { s with index := 0 }
          (let s : St := (if !s.implicitWriteFlag then (let s : St := { s with state := .parseCommandChar }
            s)
            else (let s : St := { s with cmdType := .write }
            (let s : St := prepareSearchCommand s
            (let s : St := { s with state := .searchCommand }
            (let s : St := { s with implicitWriteFlag := false }
            s)))))
          s))
          else s)
       s) := by
  unfold updateAdvance
  simp only [prepareSearchCommand]
  by_cases h : x.index + 1 ≥ D.commandsNum
  · cases hf : x.implicitWriteFlag <;> simp [h]
  · simp [h]

theorem updateCommand_generated (D : Desc) (s : St) :
    updateCommand D s = Gen.update_command D (s.chkUb (decide (s.index < D.commandsNum))) := by
  unfold updateCommand
  generalize s.chkUb (decide (s.index < D.commandsNum)) = s0
  unfold Gen.update_command updateLane
  conv => lhs; simp only []
  generalize hr : getCmdState D s0 s0.index = r
  obtain ⟨s1, st⟩ := r
  generalize hc : (cmdByIndex D.groups s0.index).getD default = c
  by_cases h0 : st = 0
  · subst h0
    simp only [bne_self_eq_false, Bool.false_eq_true, if_false, ne_eq, not_true_eq_false, decide_false, adv_eq]
  · have e1 : (st != 0) = true := by simpa using h0
    have d1 : decide (st ≠ 0) = true := by simpa using h0
    by_cases h1 : s1.length > c.name.length
    · simp only [e1, d1, if_true, h1, decide_true, adv_eq]
    · by_cases h2 : toUpper (c.name.getD (s1.length - 1) 0) = s1.currentChar
      · have e2 : (toUpper (c.name.getD (s1.length - 1) 0) != s1.currentChar) = false := by simpa using h2
        have d2 : decide (toUpper (c.name.getD (s1.length - 1) 0) ≠ s1.currentChar) = false := by simpa using h2
        by_cases h3 : s1.length = c.name.length
        · have e3 : (s1.length == c.name.length) = true := by simpa using h3
          have d3 : decide (s1.length = c.name.length) = true := by simpa using h3
          cases hi : c.implicitWrite <;>
            simp only [e1, d1, if_true, h1, if_false, decide_false, Bool.false_eq_true, e2, d2, e3, d3, hi, adv_eq]
        · have e3 : (s1.length == c.name.length) = false := by simpa using h3
          have d3 : decide (s1.length = c.name.length) = false := by simpa using h3
          simp only [e1, d1, if_true, h1, if_false, decide_false, Bool.false_eq_true, e2, d2, e3, d3, adv_eq]
      · have e2 : (toUpper (c.name.getD (s1.length - 1) 0) != s1.currentChar) = true := by simpa using h2
        have d2 : decide (toUpper (c.name.getD (s1.length - 1) 0) ≠ s1.currentChar) = true := by simpa using h2
        simp only [e1, d1, if_true, h1, if_false, decide_false, Bool.false_eq_true, e2, d2, adv_eq]

theorem searchCommand_generated (D : Desc) (s : St) :
    searchCommand D s = Gen.search_command D (s.chkUb (decide (s.index < D.commandsNum))) := by
  unfold searchCommand
  generalize s.chkUb (decide (s.index < D.commandsNum)) = s0
  unfold Gen.search_command
  conv => lhs; simp only []
  generalize hr : getCmdState D s0 s0.index = r
  obtain ⟨s1, st⟩ := r
  by_cases h1 : st = 1
  · subst h1
    by_cases hc : s1.cmd.isSome = true
    · by_cases hi : s1.index + 1 = D.commandsNum
      · simp [hc, hi, notFoundOrError]
      · simp [hc, hi, notFoundOrError]
    · simp [hc, notFoundOrError]
  · by_cases h2 : st = 2
    · subst h2; simp
    · by_cases h0 : st = 0
      · subst h0; simp [notFoundOrError]
      · simp [h0, h1, h2, notFoundOrError]

end Cat
