/-
  Generated step functions proved equal to the model's (`Gen/Steps/Lanes.lean`, regenerated from `src/cat.c` on every run):
  the 2-bit lanes of `get_cmd_state` / `set_cmd_state` (T15): C02.
-/
import CatVerif.Gen.Steps.Lanes
import CatVerif.Proofs.NoOob
import CatVerif.Proofs.Line
namespace Cat
open St

theorem lane_index_generated (i : Nat) : i / 4 = Gen.get_cmd_state_index i ∧ i / 4 = Gen.set_cmd_state_index i := by
  unfold Gen.get_cmd_state_index Gen.set_cmd_state_index
  simp [Nat.shiftRight_eq_div_pow]

theorem laneGet_tab : ∀ b : Nat, b < 256 → ∀ r : Nat, r < 4 → b / 4 ^ r % 4 = ((b >>> (r <<< 1)) % 256 &&& 3) % 256 := by
  decide +kernel

theorem laneGet_generated (b i : Nat) (hb : b < 256) : laneGet b i = Gen.get_cmd_state_bits b i := by
  unfold laneGet Gen.get_cmd_state_bits
  exact laneGet_tab b hb (i % 4) (Nat.mod_lt _ (by decide))

theorem laneSet_tab : ∀ b : Nat, b < 256 → ∀ r : Nat, r < 4 → ∀ v : Nat, v < 4 →
    (b - (b / 4 ^ r % 4) * 4 ^ r + v * 4 ^ r) % 256 =
      ((b &&& (255 - (3 <<< ((r <<< 1) % 256)))) % 256 ||| (v <<< ((r <<< 1) % 256))) % 256 := by
  decide +kernel

theorem laneSet_generated (b i v : Nat) (hb : b < 256) : laneSet b i v = Gen.set_cmd_state_bits b i v := by
  unfold laneSet Gen.set_cmd_state_bits
  have hv : v &&& 3 = v % 4 := by
    have := Nat.and_two_pow_sub_one_eq_mod v 2
    simpa using this
  rw [hv]
  exact laneSet_tab b hb (i % 4) (Nat.mod_lt _ (by decide)) (v % 4) (Nat.mod_lt _ (by decide))

end Cat
