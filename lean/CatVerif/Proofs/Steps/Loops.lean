/-
  Generated step functions proved equal to the model's (`Gen/Steps/Loops.lean`, regenerated from `src/cat.c` on every run):
  the four handler loops around the return-code tables (T19): C06/C10/C14.
-/
import CatVerif.Gen.Steps.Loops
import CatVerif.Proofs.NoOob
import CatVerif.Proofs.Line
namespace Cat
open St

theorem processWriteLoop_generated (D : Desc) (s : St) (i : SvcIn) :
    processWriteLoop D s i = Gen.process_write_loop_fn D s i := rfl

theorem processRunLoop_generated (D : Desc) (s : St) (i : SvcIn) :
    processRunLoop D s i = Gen.process_run_loop_fn D s i := rfl

theorem processReadLoop_generated (D : Desc) (s : St) (f : Fsm) (i : SvcIn) :
    processReadLoop D s f i = Gen.process_read_loop_fn D s f i := rfl

theorem processTestLoop_generated (D : Desc) (s : St) (f : Fsm) (i : SvcIn) :
    processTestLoop D s f i = Gen.process_test_loop_fn D s f i := rfl

end Cat
