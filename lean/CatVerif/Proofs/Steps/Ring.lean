/-
  Generated step functions proved equal to the model's (`Gen/Steps/Ring.lean`, regenerated from `src/cat.c` on every run):
  the ring of unsolicited events (T13): C13.
-/
import CatVerif.Gen.Steps.Ring
import CatVerif.Proofs.NoOob
import CatVerif.Proofs.Line
namespace Cat
open St

theorem pushUnsolicited_generated (D : Desc) (s : St) (c : Nat) (t : CmdType) :
    pushUnsolicited D s c t = Gen.push_unsolicited_cmd D s c t := by
  unfold pushUnsolicited Gen.push_unsolicited_cmd
  split
  · rfl
  · simp only []
    generalize s.chk (decide (s.rtail < D.cap)) = s1
    by_cases h : s1.rtail + 1 ≥ D.cap <;> simp [h]

theorem checkUnsolicitedBuffers_generated (D : Desc) (s : St) :
    checkUnsolicitedBuffers D s = Gen.check_unsolicited_buffers D s := by
  unfold checkUnsolicitedBuffers Gen.check_unsolicited_buffers Gen.pop_unsolicited_cmd ringPop ringFront
  by_cases he : Gen.is_unsolicited_buffer_empty s.rcount = true
  · simp [he, Gen.CAT_STATUS_ERROR_BUFFER_EMPTY, Gen.CAT_STATUS_OK]
  · simp only [he, Bool.false_eq_true, if_false]
    cases hc : decide (s.rhead < D.cap) <;> simp only [St.chk, Bool.false_eq_true, if_false, if_true] <;>
      (generalize hi : s.ring.getD s.rhead (0, CmdType.none) = item
       obtain ⟨ic, it⟩ := item
       by_cases h : s.rhead + 1 ≥ D.cap <;> cases it <;> simp [h, Gen.CAT_STATUS_OK])

end Cat
