/-
  Generated step functions proved equal to the model's (`Gen/Steps/CmdList.lean`, regenerated from `src/cat.c` on every run):
  the command list: `start_print_cmd_list` (T14), `cmd_list_next_cmd`, `print_current_cmd_full_name`, `print_cmd_list` (T20): C10/C19.
-/
import CatVerif.Gen.Steps.CmdList
import CatVerif.Proofs.NoOob
import CatVerif.Proofs.Line
namespace Cat
open St

theorem startPrintCmdList_generated (D : Desc) (s : St) : startPrintCmdList D s = Gen.start_print_cmd_list D s := by
  unfold startPrintCmdList Gen.start_print_cmd_list
  by_cases h : D.commandsNum = 0 <;> simp [h]

theorem printN_keep (D : Desc) (s : St) (f : Fsm) (x : List Byte) :
    (printN D s f x).1.cmd = s.cmd ∧ (printN D s f x).1.crFlag = s.crFlag ∧ (printN D s f x).1.length = s.length := by
  have h := printN_frame D s f x
  simp only [SameCtlNP, SameC', SameU', SameH, SameR] at h
  exact ⟨h.1.1.2.2.2.2.1, h.1.1.2.2.2.2.2.2.2.2.1, h.1.1.2.2.1⟩

theorem printN_keep' (D : Desc) (s s' : St) (f : Fsm) (x : List Byte) (ok : Bool) (h : printN D s f x = (s', ok)) :
    s'.cmd = s.cmd ∧ nlStr s' = nlStr s ∧ s'.length = s.length := by
  have k := printN_keep D s f x
  rw [h] at k
  simp only at k
  exact ⟨k.1, by simp only [nlStr, k.2.1], k.2.2⟩

theorem cmdListNextCmd_generated (D : Desc) (s : St) : cmdListNextCmd D s = Gen.cmd_list_next_cmd D s := by
  unfold cmdListNextCmd Gen.cmd_list_next_cmd
  by_cases h : s.index + 1 ≥ D.commandsNum <;> simp [h]

theorem printCurrentCmdFullName_generated (D : Desc) (s : St) (x : List Byte) :
    printCurrentCmdFullName D s x = Gen.print_current_cmd_full_name D s x := by
  have tail : ∀ s0 : St, printAll D s0 .cmd [[65, 84], (D.cmdD s0.cmd).name, x, nlStr s0] =
      (let (s, t1) := printN D s0 .cmd [65, 84];
        if !t1 then (s, false)
        else (let (s, t1) := printN D s .cmd (D.cmdD s.cmd).name;
          if !t1 then (s, false)
          else (let (s, t1) := printN D s .cmd x;
            if !t1 then (s, false)
            else (let (s, t1) := printN D s .cmd (nlStr s);
              if !t1 then (s, false)
              else (s, true))))) := by
    intro s0
    simp only [printAll]
    rcases h1 : printN D s0 .cmd [65, 84] with ⟨s1, o1⟩
    have k1 := printN_keep' D s0 s1 .cmd _ o1 h1
    cases o1
    · simp
    · simp only [if_true, Bool.not_true, Bool.false_eq_true, if_false, k1.1]
      rcases h2 : printN D s1 .cmd (D.cmdD s0.cmd).name with ⟨s2, o2⟩
      have k2 := printN_keep' D s1 s2 .cmd _ o2 h2
      cases o2
      · simp
      · simp only [if_true, Bool.not_true, Bool.false_eq_true, if_false]
        rcases h3 : printN D s2 .cmd x with ⟨s3, o3⟩
        have k3 := printN_keep' D s2 s3 .cmd _ o3 h3
        cases o3
        · simp
        · simp only [if_true, Bool.not_true, Bool.false_eq_true, if_false, k3.2.1, k2.2.1, k1.2.1]
          rcases h4 : printN D s3 .cmd (nlStr s0) with ⟨s4, o4⟩
          cases o4 <;> simp
  unfold printCurrentCmdFullName Gen.print_current_cmd_full_name
  by_cases hl : s.length = 0
  · simp only [hl, beq_self_eq_true, if_true, decide_true]
    rcases h0 : printN D s .cmd (nlStr s) with ⟨s1, o1⟩
    have k0 := printN_keep' D s s1 .cmd _ o1 h0
    cases o1
    · simp
    · simp only [if_true, Bool.not_true, Bool.false_eq_true, if_false]
      have t := tail { s1 with length := 1 }
      simp only [nlStr] at t k0 ⊢
      simp only [k0.1, k0.2.1] at t ⊢
      exact t
  · have hl' : (s.length == 0) = false := by simp [hl]
    simp only [hl', hl, decide_false, Bool.false_eq_true, if_false, Bool.not_true]
    exact tail s

theorem printCmdList_generated (D : Desc) (s : St) : printCmdList D s = Gen.print_cmd_list D s := by
  unfold printCmdList Gen.print_cmd_list
  extract_lets +onlyGivenNames s0 s1 c frm
  clear_value s1
  have form : ∀ (av : Bool) (x : List Byte) (nx : CmdType), printCmdForm D s1 av x nx =
      (if av then (let s : St := { s1 with position := 0 };
          (let (s, t1) := printCurrentCmdFullName D s x;
          if !t1 then ackError D s
          else { startFlushRaw s .printCmd with cmdType := nx }))
        else { s1 with cmdType := nx }) := by
    intro av x nx
    unfold printCmdForm
    cases av
    · simp
    · simp only [if_true]
  cases hct : s1.cmdType <;> simp only [frm, c]
  case none =>
    by_cases hd : disabledByIndex D.groups s1.index = true
    · simp only [hd, if_true]
      rcases hn : cmdListNextCmd D s1 with ⟨s2, more⟩
      cases more <;> simp
    · simp [hd]
  case total =>
    rcases hn : cmdListNextCmd D s1 with ⟨s2, more⟩
    cases more <;> simp
  all_goals (rw [form]; simp only [hct])

end Cat
