/-
  Generated step functions proved equal to the model's (`Gen/Steps/ReadChar.lean`, regenerated from `src/cat.c` on every run):
  `read_cmd_char` (T14): C01/C12.
-/
import CatVerif.Gen.Steps.ReadChar
import CatVerif.Proofs.NoOob
import CatVerif.Proofs.Line
namespace Cat
open St

theorem readCmdChar_generated : readCmdChar = Gen.read_cmd_char := by
  funext s i
  unfold readCmdChar Gen.read_cmd_char
  cases i.rd with
  | none => rfl
  | some b =>
    simp only [St.emit]
    by_cases h : s.state = .parseCommandArgs <;> simp [h]

end Cat
