/-
  Generated step functions proved equal to the model's (`Gen/Steps/Output.lean`, regenerated from `src/cat.c` on every run):
  the two output steps `process_io_write` / `unsolicited_process_io_write` (T10): C11/C12.
-/
import CatVerif.Gen.Steps.Output
import CatVerif.Proofs.NoOob
import CatVerif.Proofs.Line
namespace Cat
open St

/-- T10: the output step of the command machine -/
theorem processIoWrite_generated : processIoWrite = Gen.process_io_write := by
  funext D s i
  unfold processIoWrite Gen.process_io_write
  simp only
  generalize s.chk (writeByte D s .cmd).2 = s0
  split
  · (repeat' split) <;> rfl
  · split <;> rfl

/-- T10: the output step of the unsolicited machine -/
theorem unsolicitedProcessIoWrite_generated : unsolicitedProcessIoWrite = Gen.unsolicited_process_io_write := by
  funext D s i
  unfold unsolicitedProcessIoWrite Gen.unsolicited_process_io_write
  simp only
  generalize s.chk (writeByte D s .uns).2 = s0
  split
  · (repeat' split) <;> rfl
  · split <;> rfl

end Cat
