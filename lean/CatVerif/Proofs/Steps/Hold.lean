/-
  Generated step functions proved equal to the model's (`Gen/Steps/Hold.lean`, regenerated from `src/cat.c` on every run):
  the release from HOLD (`process_hold_state`, T9) and `hold_exit` (T14): C14.
-/
import CatVerif.Gen.Steps.Hold
import CatVerif.Proofs.NoOob
import CatVerif.Proofs.Line
namespace Cat
open St

theorem processHoldState_generated (D : Desc) (s : St) : processHoldState D s = Gen.process_hold_state D s := by
  unfold processHoldState Gen.process_hold_state
  split <;> simp_all

theorem holdExit_generated : holdExit = Gen.hold_exit := by
  funext s st; unfold holdExit Gen.hold_exit; rfl

end Cat
