/-
  Generated step functions proved equal to the model's (`Gen/Steps/Collect.lean`, regenerated from `src/cat.c` on every run):
  argument collection (`parse_command_args` after its guarded read; T11): C06.
-/
import CatVerif.Gen.Steps.Collect
import CatVerif.Proofs.NoOob
import CatVerif.Proofs.Line
namespace Cat
open St

theorem setB_argsLen (D : Desc) (s : St) (f : Fsm) (i : Nat) (v : Byte) : (setB D s f i v).length = s.length := by
  unfold St.setB; (repeat' split) <;> rfl

theorem parseCommandArgs_generated (D : Desc) (s : St) (i : SvcIn) :
    parseCommandArgs D s i =
      (let r := readCmdChar s i
       if !r.2 then (r.1, Gen.CAT_STATUS_OK)
       else (Gen.parse_command_args_body D (r.1.chkUb r.1.cmd.isSome), Gen.CAT_STATUS_BUSY)) := by
  unfold parseCommandArgs Gen.parse_command_args_body
  simp only
  generalize readCmdChar s i = r
  obtain ⟨s0, got⟩ := r
  cases got
  · rfl
  · simp only [Bool.not_true, Bool.false_eq_true, if_false]
    generalize s0.chkUb s0.cmd.isSome = s1
    congr 1
    by_cases h10 : s1.currentChar = 10
    · simp only [h10, beq_self_eq_true, if_true]
      (repeat' split) <;> simp_all
    · by_cases h13 : s1.currentChar = 13
      · simp [h13]
      · have e10 : (s1.currentChar == 10) = false := by simpa using h10
        have e13 : (s1.currentChar == 13) = false := by simpa using h13
        simp only [e10, e13, Bool.false_eq_true, if_false, setB_argsLen]
        (repeat' split) <;> simp_all <;> omega

end Cat
