/-
  Translator item T22: the leaves with a direct transliteration (`Gen/Steps/Leaves.lean`, emitted when the bodies of the C
  functions still have the recorded canonical form): the two walks over the command groups (`get_command_by_index`,
  `is_command_disable`: an accumulator `j` in C, a subtraction in the model), `is_variables_access_possible`, the printing
  primitive `print_nstring_to_buf` with its by-machine helpers, the line-break choice `get_new_line_chars`,
  `get_command_by_fsm`.  The model's functions are proved equal to them.
-/
import CatVerif.Gen.Steps.Leaves
import CatVerif.Proofs.NoOob
namespace Cat
open St

theorem getCommandByIndex_loop : ∀ (gs : List GroupD) (j i : Nat), j ≤ i →
    Gen.get_command_by_index_loop gs j i = cmdByIndex gs (i - j) := by
  intro gs
  induction gs with
  | nil => intro j i _; rfl
  | cons g gs ih =>
    intro j i h
    simp only [Gen.get_command_by_index_loop, cmdByIndex]
    by_cases c : i ≥ j + g.cmds.length
    · have c' : i - j ≥ g.cmds.length := by omega
      simp only [c, c', if_true]
      rw [ih _ _ c, Nat.sub_add_eq]
    · have c' : ¬ (i - j ≥ g.cmds.length) := by omega
      simp only [c, c', if_false]

theorem cmdByIndex_generated (D : Desc) (i : Nat) : cmdByIndex D.groups i = Gen.get_command_by_index D i := by
  unfold Gen.get_command_by_index
  rw [getCommandByIndex_loop _ 0 i (Nat.zero_le _)]; rfl

theorem isCommandDisable_loop : ∀ (gs : List GroupD) (j i : Nat), j ≤ i →
    Gen.is_command_disable_loop gs j i = disabledByIndex gs (i - j) := by
  intro gs
  induction gs with
  | nil => intro j i _; rfl
  | cons g gs ih =>
    intro j i h
    simp only [Gen.is_command_disable_loop, disabledByIndex]
    by_cases c : i ≥ j + g.cmds.length
    · have c' : i - j ≥ g.cmds.length := by omega
      simp only [c, c', if_true]
      rw [ih _ _ c, Nat.sub_add_eq]
    · have c' : ¬ (i - j ≥ g.cmds.length) := by omega
      simp only [c, c', if_false]
      cases g.disable <;> simp
      cases g.cmds[i - j]? <;> simp

theorem disabledByIndex_generated (D : Desc) (i : Nat) : disabledByIndex D.groups i = Gen.is_command_disable D i := by
  unfold Gen.is_command_disable
  rw [isCommandDisable_loop _ 0 i (Nat.zero_le _)]; rfl

theorem varsAccessible_generated (c : CmdD) (a : Access) : varsAccessible c a = Gen.is_variables_access_possible c a := rfl

theorem nlOff_generated (s : St) : nlOff s = Gen.get_new_line_chars s := by
  unfold nlOff Gen.get_new_line_chars; cases s.crFlag <;> rfl

theorem cmdOf_generated (s : St) (f : Fsm) : s.cmdOf f = Gen.get_command_by_fsm s f := by cases f <;> rfl

theorem printN_generated (D : Desc) (s : St) (f : Fsm) (x : List Byte) : printN D s f x = Gen.print_nstring_to_buf D s f x := by
  unfold printN Gen.print_nstring_to_buf Gen.get_left_buffer_space_by_fsm Gen.move_position_by_fsm
  cases f <;> simp [St.pos, St.setPos, Desc.capOf]

end Cat
