/-
  Generated step functions proved equal to the model's (`Gen/Steps/ParseArgs.lean`, regenerated from `src/cat.c` on every run):
  `parse_write_args` (T18): C04/C05/C08.
-/
import CatVerif.Gen.Steps.ParseArgs
import CatVerif.Proofs.NoOob
import CatVerif.Proofs.Line
namespace Cat
open St

theorem chkUb_cmd (s : St) (c : Bool) : (s.chkUb c).cmd = s.cmd := by cases c <;> rfl

theorem chkUb_index (s : St) (c : Bool) : (s.chkUb c).index = s.index := by cases c <;> rfl

theorem parseVarValue_cmd (D : Desc) (s : St) (v : VarD) : (parseVarValue D s v).1.cmd = s.cmd := by
  unfold parseVarValue
  simp only [validateIntRange, validateUIntRange, storeInt]
  (repeat' split) <;> simp [St.chk] <;> (repeat' split) <;> simp

theorem parseWriteArgs_generated (D : Desc) (s : St) (i : SvcIn) : parseWriteArgs D s i = Gen.parse_write_args D s i := by
  unfold parseWriteArgs Gen.parse_write_args
  simp only [chkUb_cmd, chkUb_index]
  generalize hs1 : (s.chkUb s.cmd.isSome).chkUb (decide (s.index < (D.cmdD s.cmd).varNum)) = s1
  rcases hp : parseVarValue D s1 ((D.cmdD s.cmd).varAt s.index) with ⟨s2, stat, ok⟩
  cases ok
  · simp
  · simp only [Bool.not_true, Bool.false_eq_true, if_false]
    rcases hc : varWriteCb D s2 ((D.cmdD s.cmd).varAt s.index) i with ⟨s3, cb⟩
    cases cb
    · simp only [Bool.false_eq_true, if_false]
      have e1 : s1.cmd = s.cmd := by rw [← hs1, chkUb_cmd, chkUb_cmd]
      have e2 : s2.cmd = s.cmd := by
        have := parseVarValue_cmd D s1 ((D.cmdD s.cmd).varAt s.index)
        rw [hp] at this; rw [this, e1]
      have e3 : s3.cmd = s.cmd := by
        have := (varWriteCb_calm D s2 ((D.cmdD s.cmd).varAt s.index) i).1.c.2.2.2.2.1
        rw [hc] at this; rw [this, e2]
      simp only [e3]
      (repeat' split) <;> simp_all
    · simp

end Cat
