/-
  Generated step functions proved equal to the model's (`Gen/Steps/Found.lean`, regenerated from `src/cat.c` on every run):
  the dispatch on the request type (`command_found`, `command_not_found`; T9): C02/C09. The model's ghost check "a command is selected where it is dereferenced" appears explicitly.
-/
import CatVerif.Gen.Steps.Found
import CatVerif.Proofs.NoOob
import CatVerif.Proofs.Line
namespace Cat
open St

theorem commandNotFound_generated (D : Desc) (s : St) : commandNotFound D s = Gen.command_not_found D s := by
  simp only [commandNotFound, Gen.command_not_found]

theorem commandFound_generated (D : Desc) (s : St) :
    commandFound D s = Gen.command_found D (s.chkUb s.cmd.isSome) := by
  unfold commandFound Gen.command_found
  simp only
  generalize s.chkUb s.cmd.isSome = s0
  cases h : s0.cmdType <;> simp only [h] <;> (repeat' split) <;> first | rfl | simp_all

end Cat
