/-
  Generated step functions proved equal to the model's (`Gen/Steps/Format.lean`, regenerated from `src/cat.c` on every run):
  `print_response_test`, `next_format_var_by_fsm` (T16), `format_read_args`, `format_test_args` (T17): C07/C08/C19.
-/
import CatVerif.Gen.Steps.Format
import CatVerif.Proofs.NoOob
import CatVerif.Proofs.Line
namespace Cat
open St

theorem printResponseTest_generated (D : Desc) (s : St) (f : Fsm) :
    printResponseTest D s f = Gen.print_response_test D s f := by
  unfold printResponseTest Gen.print_response_test
  simp only []
  generalize s.chkUb (s.cmdOf f).isSome = s1
  generalize D.cmdD (s1.cmdOf f) = c
  cases hd : c.desc with
  | none => cases f <;> simp [setStateTL] <;> (repeat' split) <;> simp_all
  | some d =>
    simp only [Option.isSome_some, if_true, Option.getD_some]
    rcases hr1 : printN D s1 f (nlStr s1) with ⟨s2, ok1⟩
    cases ok1
    · simp [printAll, hr1]
    · rcases hr2 : printN D s2 f d with ⟨s3, ok2⟩
      have hpa : printAll D s1 f [nlStr s1, d] = (s3, ok2) := by
        cases ok2 <;> simp [printAll, hr1, hr2]
      cases ok2
      · simp [hpa]
      · cases f <;> simp [hpa, setStateTL] <;> (repeat' split) <;> simp_all

theorem nextFormatVar_generated (D : Desc) (s : St) (f : Fsm) (h : (s.cmdOf f).isSome = true) :
    nextFormatVar D s f = Gen.next_format_var_by_fsm D s f := by
  unfold nextFormatVar Gen.next_format_var_by_fsm
  simp only [St.chkUb, h, if_true]
  cases f
  · simp only [St.setIdx, St.idx, St.pos, St.setPos, Desc.capOf, St.cmdOf]
    by_cases h1 : s.index + 1 < (D.cmdD s.cmd).varNum
    · by_cases h2 : s.position ≥ D.cmdCap <;> simp [h1, h2]
    · simp [h1]
  · simp only [St.setIdx, St.idx, St.pos, St.setPos, Desc.capOf, St.cmdOf]
    by_cases h1 : s.uindex + 1 < (D.cmdD s.ucmd).varNum
    · by_cases h2 : s.uposition ≥ D.unsCap <;> simp [h1, h2]
    · simp [h1]

theorem chkUb_cmdOf (s : St) (c : Bool) (f : Fsm) : (s.chkUb c).cmdOf f = s.cmdOf f := by cases c <;> cases f <;> rfl

theorem chkUb_idx (s : St) (c : Bool) (f : Fsm) : (s.chkUb c).idx f = s.idx f := by cases c <;> cases f <;> rfl

theorem varReadCb_cmdOf (D : Desc) (s : St) (f : Fsm) (v : VarD) (i : SvcIn) : (varReadCb D s f v i).1.cmdOf f = s.cmdOf f := by
  have h := (varReadCb_calm D s f v i).1
  cases f
  · exact h.c.2.2.2.2.1
  · exact h.u.2.2.1

theorem nextFormatVar_cmdOf (D : Desc) (s : St) (f : Fsm) (h : (nextFormatVar D s f).2 = false) :
    (nextFormatVar D s f).1.cmdOf f = s.cmdOf f := by
  unfold nextFormatVar at h ⊢
  cases f <;> simp only [St.cmdOf] at h ⊢ <;> (repeat' split) <;> simp_all [St.setIdx]

theorem formatTestArgs_generated (D : Desc) (s : St) (f : Fsm) : formatTestArgs D s f = Gen.format_test_args D s f := by
  unfold formatTestArgs Gen.format_test_args
  simp only [chkUb_cmdOf, chkUb_idx]

theorem formatReadArgs_generated (D : Desc) (s : St) (f : Fsm) (i : SvcIn) : formatReadArgs D s f i = Gen.format_read_args D s f i := by
  unfold formatReadArgs Gen.format_read_args
  simp only [chkUb_cmdOf, chkUb_idx]
  generalize hs1 : (s.chkUb (s.cmdOf f).isSome).chkUb (decide (s.idx f < (D.cmdD (s.cmdOf f)).varNum)) = s1
  have e1 : s1.cmdOf f = s.cmdOf f := by rw [← hs1, chkUb_cmdOf, chkUb_cmdOf]
  rcases hcb : varReadCb D s1 f ((D.cmdD (s.cmdOf f)).varAt (s.idx f)) i with ⟨s2, cb⟩
  have e2 : s2.cmdOf f = s.cmdOf f := by
    have := varReadCb_cmdOf D s1 f ((D.cmdD (s.cmdOf f)).varAt (s.idx f)) i
    rw [hcb] at this; rw [this, e1]
  cases cb
  · simp only [Bool.false_eq_true, if_false]
    rcases hfv : formatVar D s2 f ((D.cmdD (s.cmdOf f)).varAt (s.idx f)) with ⟨s3, ok⟩
    have e3 : s3.cmdOf f = s.cmdOf f := by
      have := (formatVar_calmish D s2 f ((D.cmdD (s.cmdOf f)).varAt (s.idx f))).2.2.1
      rw [hfv] at this; rw [this, e2]
    cases ok
    · simp
    · simp only [Bool.not_true, Bool.false_eq_true, if_false]
      rcases hn : nextFormatVar D s3 f with ⟨s4, more⟩
      cases more
      · have e4 : s4.cmdOf f = s.cmdOf f := by
          have := nextFormatVar_cmdOf D s3 f (by rw [hn])
          rw [hn] at this; rw [this, e3]
        simp only [Bool.false_eq_true, if_false, e4]
        cases f <;> simp [setStateRL] <;> (repeat' split) <;> simp_all
      · simp
  · simp

end Cat
