/-
  Generated step functions proved equal to the model's (`Gen/Steps/ByFsm.lean`, regenerated from `src/cat.c` on every run):
  the void helpers parameterised by the machine (T12): C07/C10/C19.
-/
import CatVerif.Gen.Steps.ByFsm
import CatVerif.Proofs.NoOob
import CatVerif.Proofs.Line
namespace Cat
open St

theorem endOk_generated (D : Desc) (s : St) (f : Fsm) : endOk D s f = Gen.end_processing_with_ok D s f := by
  cases f <;> simp only [endOk, Gen.end_processing_with_ok]

theorem endError_generated (D : Desc) (s : St) (f : Fsm) : endError D s f = Gen.end_processing_with_error D s f := by
  cases f <;> simp only [endError, Gen.end_processing_with_error]

theorem setPos_generated (D : Desc) (s : St) (f : Fsm) : s.setPos f 0 = Gen.reset_position D s f := by
  cases f <;> rfl

theorem startFormatRead_generated (D : Desc) (s : St) (f : Fsm) :
    startFormatRead D s f = Gen.start_processing_format_read_args D s f := by
  unfold startFormatRead Gen.start_processing_format_read_args
  simp only []
  generalize (s.setPos f 0).chkUb ((s.setPos f 0).cmdOf f).isSome = s1
  generalize D.cmdD (s1.cmdOf f) = c
  rcases hr1 : printN D s1 f c.name with ⟨s2, ok1⟩
  cases ok1
  · simp [printAll, hr1]
  · rcases hr2 : printN D s2 f [61] with ⟨s3, ok2⟩
    have hpa : printAll D s1 f [c.name, [61]] = (s3, ok2) := by
      cases ok2 <;> simp [printAll, hr1, hr2]
    cases ok2
    · simp [hpa]
    · simp only [hpa, Bool.not_true, Bool.false_eq_true, if_false, setStateRL]
      cases f <;> simp <;> (repeat' split) <;> simp_all

theorem startFormatTest_generated (D : Desc) (s : St) (f : Fsm) :
    startFormatTest D s f = Gen.start_processing_format_test_args D s f := by
  unfold startFormatTest Gen.start_processing_format_test_args
  simp only []
  generalize (s.setPos f 0).chkUb ((s.setPos f 0).cmdOf f).isSome = s1
  generalize D.cmdD (s1.cmdOf f) = c
  rcases hr1 : printN D s1 f c.name with ⟨s2, ok1⟩
  cases ok1
  · simp [printAll, hr1]
  · rcases hr2 : printN D s2 f [61] with ⟨s3, ok2⟩
    have hpa : printAll D s1 f [c.name, [61]] = (s3, ok2) := by
      cases ok2 <;> simp [printAll, hr1, hr2]
    cases ok2
    · simp [hpa]
    · simp only [hpa, Bool.not_true, Bool.false_eq_true, if_false]
      rcases hr3 : printResponseTest D s3 f with ⟨s4, ok3⟩
      cases f <;> cases ok3 <;> simp <;> (repeat' split) <;> simp_all

end Cat
