/-
  Generated step functions proved equal to the model's (`Gen/Steps/Wait.lean`, regenerated from `src/cat.c` on every run):
  the two output-arbitration steps (`process_io_write_wait`, `unsolicited_process_io_write_wait`: a machine starts writing only while the other one is not — the exclusion of C11); translator item T9.
-/
import CatVerif.Gen.Steps.Wait
import CatVerif.Proofs.NoOob
import CatVerif.Proofs.Line
namespace Cat
open St

theorem processIoWriteWait_generated (D : Desc) (s : St) : processIoWriteWait s = Gen.process_io_write_wait D s := by
  unfold processIoWriteWait Gen.process_io_write_wait; rfl

theorem unsolicitedProcessIoWriteWait_generated (D : Desc) (s : St) :
    unsolicitedProcessIoWriteWait s = Gen.unsolicited_process_io_write_wait D s := by
  unfold unsolicitedProcessIoWriteWait Gen.unsolicited_process_io_write_wait; rfl

end Cat
