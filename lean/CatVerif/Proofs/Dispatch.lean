/-
  The model's two dispatchers are the ones generated from the `switch` statements of
  `cat_service` and `unsolicited_events_service` (translator item T4): a change of which function
  handles which state in the source changes `Gen/Dispatch.lean` and breaks these equalities.
-/
import CatVerif.Gen.Dispatch
namespace Cat

theorem commandService_generated : commandService = Gen.commandDispatch := by
  funext D s i
  unfold commandService Gen.commandDispatch
  cases s.state <;> rfl

theorem unsolicitedEventsService_generated : unsolicitedEventsService = Gen.unsolicitedDispatch := by
  funext D s i
  unfold unsolicitedEventsService Gen.unsolicitedDispatch
  cases s.ustate <;> rfl

end Cat
