/-
  The byte-buffer and string argument decoders (C05): exact decoding, and the universal bound on
  what they store — for texts of any length, accepted or rejected.
-/
import CatVerif.Spec.Codec
import CatVerif.Proofs.ParseNum
namespace Cat
open Spec

/-! ### `parse_buffer_hexadecimal` -/

/-- **Never beyond `data_size`**: whatever the text, the decoder stores at most `data_size` bytes
(starting at index 0), on every path, accepting or rejecting. -/
theorem parseBufHex_bound (ds : Nat) : ∀ (txt : List Byte) (byte : Nat) (st : Bool) (acc : List Byte) (n : Nat),
    acc.length ≤ ds → (parseBufHex ds txt byte st acc n).stored.length ≤ ds ∧
      (parseBufHex ds txt byte st acc n).size ≤ ds := by
  intro txt
  induction txt with
  | nil => intro byte st acc n h; simp [parseBufHex, h]
  | cons c r ih =>
    intro byte st acc n h
    simp only [parseBufHex]
    split
    · simp [h]
    · split
      · simp [h]
      · split
        · split
          · simp [h]
          · apply ih; simp; omega
        · exact ih _ _ _ _ h

/-- the decoder in state (`byte`, `st`) with a pending nibble `hi` -/
theorem parseBufHex_aux (ds : Nat) (rest : List Byte) (t : Byte) (ht : IsTerm t) :
    ∀ (field : List Byte) (hi : Option Nat) (decoded acc : List Byte) (n : Nat),
      hexPairsAux hi field = some decoded → (∀ h, hi = some h → h < 16) →
      (acc.length > 0 ∨ decoded ≠ []) → acc.length + decoded.length ≤ ds →
      parseBufHex ds (field ++ t :: rest) (hi.getD 0) hi.isSome acc n =
        { ret := if t = 44 then 1 else 0, stored := acc.reverse ++ decoded, size := acc.length + decoded.length,
          used := n + field.length + 1 } := by
  intro field
  induction field with
  | nil =>
    intro hi decoded acc n hd hh hne hlen
    cases hi with
    | some h => simp [hexPairsAux] at hd
    | none =>
      simp [hexPairsAux] at hd; subst hd
      have hacc : acc.length > 0 := by rcases hne with h | h; exact h; exact absurd rfl h
      rcases ht with rfl | rfl <;> simp [parseBufHex, toUpper_zero, toUpper_comma, hacc] <;> omega
  | cons c r ih =>
    intro hi decoded acc n hd hh hne hlen
    cases hi with
    | none =>
      simp only [hexPairsAux] at hd
      by_cases hc : isHexDigit c = true
      · simp only [hc, if_true] at hd
        have ⟨hnc, hlc⟩ := hexdigit_not_term c hc
        have hc1 : isHexChar (toUpper c) = true := by rw [isHexChar_upper_table c hlc]; exact hc
        have vc := hexVal_upper_table c hlc hc
        have lc := hexDigitValue_lt c hlc hc
        have h0 : ¬ toUpper c = 0 := fun h => hnc (Or.inl h)
        have h44 : ¬ toUpper c = 44 := fun h => hnc (Or.inr h)
        have hb : hexDigitValue c % 256 = hexDigitValue c := Nat.mod_eq_of_lt (by omega)
        have := ih (some (hexDigitValue c)) decoded acc (n + 1) hd (by intro h hh'; simp at hh'; omega) hne hlen
        simp only [Option.getD_some, Option.isSome_some] at this
        simp only [List.cons_append, parseBufHex, Option.getD_none, Option.isSome_none]
        simp [h0, h44, hc1, vc, hb, this]; omega
      · simp [hc] at hd
    | some h =>
      simp only [hexPairsAux] at hd
      by_cases hc : isHexDigit c = true
      · simp only [hc, if_true] at hd
        cases hr : hexPairsAux none r with
        | none => simp [hr] at hd
        | some d' =>
          simp [hr] at hd; subst hd
          have ⟨hnc, hlc⟩ := hexdigit_not_term c hc
          have hc1 : isHexChar (toUpper c) = true := by rw [isHexChar_upper_table c hlc]; exact hc
          have vc := hexVal_upper_table c hlc hc
          have lc := hexDigitValue_lt c hlc hc
          have hh16 := hh h rfl
          simp only [List.length_cons] at hlen
          have hfit : ¬ ds ≤ acc.length := by omega
          have hb : (h * 16 + hexDigitValue c) % 256 = h * 16 + hexDigitValue c := by omega
          have := ih none d' ((h * 16 + hexDigitValue c) :: acc) (n + 1) hr (by intro x hx; simp at hx) (Or.inl (by simp)) (by simp; omega)
          simp only [Option.getD_none, Option.isSome_none] at this
          simp only [List.cons_append, parseBufHex, Option.getD_some, Option.isSome_some]
          simp [hc1, vc, hfit, hb, this]; omega
      · simp [hc] at hd

/-- **accepted hex buffer**: an even, non-zero number of hex digits encoding at most `data_size`
bytes is stored exactly; the reported size is the byte count -/
theorem parseBufHex_accept (ds : Nat) (field rest decoded : List Byte) (t : Byte) (ht : IsTerm t)
    (hd : hexPairs field = some decoded) (hne : decoded ≠ []) (hlen : decoded.length ≤ ds) :
    parseBufHex ds (field ++ t :: rest) 0 false [] 0 =
      { ret := if t = 44 then 1 else 0, stored := decoded, size := decoded.length, used := field.length + 1 } := by
  have := parseBufHex_aux ds rest t ht field none decoded [] 0 hd (by intro h hh; simp at hh) (Or.inr hne) (by simpa using hlen)
  simpa using this

/-- an odd number of digits, or none at all, is rejected -/
theorem parseBufHex_empty (ds : Nat) (rest : List Byte) (t : Byte) (ht : IsTerm t) (n : Nat) :
    (parseBufHex ds (t :: rest) 0 false [] n).ret = -1 := by
  rcases ht with rfl | rfl <;> simp [parseBufHex, toUpper_zero, toUpper_comma, isHexChar_zero, isHexChar_comma]

/-! ### `parse_buffer_string` -/

/-- **Never beyond `data_size`** for strings, closing NUL included. -/
theorem parseBufString_bound (ds : Nat) : ∀ (txt : List Byte) (st : Nat) (acc : List Byte) (n : Nat),
    acc.length ≤ ds → (parseBufString ds txt st acc n).stored.length ≤ ds := by
  intro txt
  induction txt with
  | nil => intro st acc n h; simp [parseBufString, h]
  | cons c r ih =>
    intro st acc n h
    simp only [parseBufString]
    (repeat' split) <;> first
      | (simp; omega)
      | (simp [h])
      | (apply ih; simp; omega)
      | exact ih _ _ _ h

/-- the decoder inside the quotes (state 1, or 2 after a backslash) -/
theorem parseBufString_body (ds : Nat) (rest : List Byte) (t : Byte) (ht : IsTerm t) :
    ∀ (body : List Byte) (esc : Bool) (decoded acc : List Byte) (n : Nat), unescapeAux esc body = some decoded →
      acc.length + decoded.length < ds →
      parseBufString ds (body ++ 34 :: t :: rest) (if esc then 2 else 1) acc n =
        { ret := if t = 44 then 1 else 0, stored := acc.reverse ++ decoded ++ [0], size := acc.length + decoded.length,
          used := n + body.length + 2 } := by
  intro body
  induction body with
  | nil =>
    intro esc decoded acc n hd hlen
    cases esc with
    | true => simp [unescapeAux] at hd
    | false =>
      simp [unescapeAux] at hd; subst hd
      have : ¬ acc.length ≥ ds := by simp at hlen; omega
      rcases ht with rfl | rfl <;> simp [parseBufString, this]
  | cons c r ih =>
    intro esc decoded acc n hd hlen
    cases esc with
    | false =>
      simp only [unescapeAux] at hd
      by_cases h92 : c = 92
      · subst h92
        simp only [if_true] at hd
        simp only [List.cons_append, parseBufString]
        simp
        have := ih true decoded acc (n + 1) hd hlen
        simp only [if_true] at this
        rw [this]; simp; omega
      · simp only [h92, if_false] at hd
        by_cases hbad : c = 34 ∨ c = 0
        · simp [hbad] at hd
        · simp only [hbad, if_false] at hd
          cases hr : unescapeAux false r with
          | none => simp [hr] at hd
          | some d' =>
            simp [hr] at hd; subst hd
            simp only [List.length_cons] at hlen
            have h0 : ¬ c = 0 := fun h => hbad (Or.inr h)
            have h34 : ¬ c = 34 := fun h => hbad (Or.inl h)
            have hfit : ¬ acc.length ≥ ds := by omega
            simp only [List.cons_append, parseBufString]
            simp [h0, h34, h92, hfit]
            have := ih false d' (c :: acc) (n + 1) hr (by simp; omega)
            simp only [Bool.false_eq_true, if_false] at this
            rw [this]; simp; omega
    | true =>
      simp only [unescapeAux] at hd
      have key : ∀ (x : Byte) (d' : List Byte), (c = 92 ∨ c = 34 ∨ c = 110) → x = (if c = 110 then 10 else c) →
          unescapeAux false r = some d' → decoded = x :: d' →
          parseBufString ds ((c :: r) ++ 34 :: t :: rest) 2 acc n =
            { ret := if t = 44 then 1 else 0, stored := acc.reverse ++ decoded ++ [0], size := acc.length + decoded.length,
              used := n + (c :: r).length + 2 } := by
        intro x d' hc hx hr hdec
        subst hdec
        simp only [List.length_cons] at hlen
        have hfit : ¬ acc.length ≥ ds := by omega
        simp only [List.cons_append, parseBufString]
        have hcc : (c == 92 || c == 34 || c == 110) = true := by rcases hc with h | h | h <;> simp [h]
        simp [hcc, hfit]
        have := ih false d' (x :: acc) (n + 1) hr (by simp; omega)
        simp only [Bool.false_eq_true, if_false] at this
        rw [← hx, this]; simp; omega
      simp only [if_true]
      by_cases h92 : c = 92
      · simp only [h92, if_true] at hd
        cases hr : unescapeAux false r with
        | none => simp [hr] at hd
        | some d' => simp [hr] at hd; exact key 92 d' (Or.inl h92) (by simp [h92]) hr hd.symm
      · simp only [h92, if_false] at hd
        by_cases h34 : c = 34
        · simp only [h34, if_true] at hd
          cases hr : unescapeAux false r with
          | none => simp [hr] at hd
          | some d' => simp [hr] at hd; exact key 34 d' (Or.inr (Or.inl h34)) (by simp [h34]) hr hd.symm
        · simp only [h34, if_false] at hd
          by_cases h110 : c = 110
          · simp only [h110, if_true] at hd
            cases hr : unescapeAux false r with
            | none => simp [hr] at hd
            | some d' => simp [hr] at hd; exact key 10 d' (Or.inr (Or.inr h110)) (by simp [h110]) hr hd.symm
          · simp [h110] at hd

/-- **accepted string**: `"` body `"` with a well-formed body whose decoded length is at most
`data_size − 1` stores exactly the decoded bytes followed by NUL and reports the decoded length -/
theorem parseBufString_accept (ds : Nat) (rest body decoded : List Byte) (t : Byte) (ht : IsTerm t)
    (hd : unescape body = some decoded) (hlen : decoded.length < ds) :
    parseBufString ds (34 :: body ++ 34 :: t :: rest) 0 [] 0 =
      { ret := if t = 44 then 1 else 0, stored := decoded ++ [0], size := decoded.length, used := body.length + 3 } := by
  simp only [List.cons_append, parseBufString]
  simp
  have := parseBufString_body ds rest t ht body false decoded [] 1 hd (by simpa using hlen)
  simp only [Bool.false_eq_true, if_false] at this
  rw [this]; simp; omega

/-- a text that does not begin with a quote is rejected at once, nothing stored -/
theorem parseBufString_no_quote (ds : Nat) (c : Byte) (r : List Byte) (h : c ≠ 34) :
    parseBufString ds (c :: r) 0 [] 0 = { ret := -1, stored := [], size := 0, used := 1 } := by
  simp [parseBufString, h]

end Cat
