/-
  Which kinds of events each function can append to the log.  `tr c l` is the sub-list of `l`
  of events of class `c`; a function that appends no event of class `c` leaves `tr c` unchanged.
-/
import CatVerif.Proofs.StepU
namespace Cat
open St

inductive Cls | mutex | rd | wrC | wrU | cbC | cbU | nested | ack | flC | flU | mem | pop
  deriving DecidableEq, Repr

def cls : Ev → Cls
  | .lock _ | .unlock _ => .mutex
  | .rd _ => .rd
  | .wr .cmd _ _ _ => .wrC
  | .wr .uns _ _ _ => .wrU
  | .handler .cmd .. | .varcb .cmd .. => .cbC
  | .handler .uns .. | .varcb .uns .. => .cbU
  | .nestedTrig .. | .nestedExit .. => .nested
  | .ack _ | .ackDone => .ack
  | .flushStart .cmd _ | .flushEnd .cmd => .flC
  | .flushStart .uns _ | .flushEnd .uns => .flU
  | .memWrite .. => .mem
  | .pop .. => .pop

def tr (c : Cls) (l : List Ev) : List Ev := l.filter (fun e => cls e == c)

@[simp] theorem tr_nil (c : Cls) : tr c [] = [] := rfl
@[simp] theorem tr_append (c : Cls) (a b : List Ev) : tr c (a ++ b) = tr c a ++ tr c b := by simp [tr]
@[simp] theorem tr_cons (c : Cls) (e : Ev) (l : List Ev) : tr c (e :: l) = (if cls e = c then [e] else []) ++ tr c l := by
  simp [tr, List.filter_cons]; split <;> simp

/-- the step from `s` to `s'` appended no event of class `c` -/
@[simp] abbrev Quiet (c : Cls) (s s' : St) : Prop := tr c s'.log = tr c s.log

/-! leaves -/

@[simp] theorem slotWrite_quiet (c : Cls) (hm : c ≠ .mem) (slot : Nat) (bs : List Byte) : ∀ (s : St) (off : Nat),
    Quiet c s (slotWrite s slot off bs) := by
  induction bs with
  | nil => intro s off; simp [slotWrite]
  | cons b r ih =>
    intro s off
    simp only [slotWrite, Quiet] at *
    split
    · rw [ih]; simp [cls, Ne.symm hm]
    · rw [ih]

@[simp] theorem storeInt_quiet (c : Cls) (hm : c ≠ .mem) (s : St) (v : VarD) (val : Nat) : Quiet c s (storeInt s v val) := by
  simp [storeInt, hm]

@[simp] theorem validateIntRange_quiet (c : Cls) (hm : c ≠ .mem) (s : St) (v : VarD) (n : Bool) (m : Nat) :
    Quiet c s (validateIntRange s v n m).1 := by
  unfold validateIntRange; simp only; (repeat' split) <;> simp [hm]

@[simp] theorem validateUIntRange_quiet (c : Cls) (hm : c ≠ .mem) (s : St) (v : VarD) (m : Nat) :
    Quiet c s (validateUIntRange s v m).1 := by
  unfold validateUIntRange; simp only; (repeat' split) <;> simp [hm]

@[simp] theorem parseVarValue_quiet (c : Cls) (hm : c ≠ .mem) (D : Desc) (s : St) (v : VarD) :
    Quiet c s (parseVarValue D s v).1 := by
  unfold parseVarValue; simp only; (repeat' split) <;> simp [hm]

@[simp] theorem pushUnsolicited_quiet (c : Cls) (D : Desc) (s : St) (k : Nat) (t : CmdType) : Quiet c s (pushUnsolicited D s k t).1 := by
  simp

@[simp] theorem holdExit_quiet (c : Cls) (s : St) (st : Int) : Quiet c s (holdExit s st).1 := by simp

/-- nested API calls log only lock/unlock and their own result -/
@[simp] theorem applyNested_quiet (c : Cls) (h1 : c ≠ .mutex) (h2 : c ≠ .nested) (D : Desc) (f : Fsm) (e : Bool) (acts : List Nested) :
    ∀ s : St, Quiet c s (applyNested D f e s acts) := by
  induction acts with
  | nil => intro s; simp [applyNested]
  | cons a r ih =>
    intro s
    simp only [Quiet] at *
    cases a <;> simp only [applyNested, withMutex] <;> (repeat' split) <;> rw [ih] <;> simp [cls, Ne.symm h1, Ne.symm h2]

/-- without nested API calls a callback's actions log nothing at all -/
def noApi : List Nested → Bool
  | [] => true
  | .trigger .. :: _ => false
  | .holdExit .. :: _ => false
  | _ :: r => noApi r

theorem applyNested_quiet_noApi (c : Cls) (D : Desc) (f : Fsm) (e : Bool) (acts : List Nested) (h : noApi acts = true) :
    ∀ s : St, Quiet c s (applyNested D f e s acts) := by
  induction acts with
  | nil => intro s; simp [applyNested]
  | cons a r ih =>
    intro s
    simp only [Quiet] at *
    cases a <;> simp [noApi] at h <;> simp only [applyNested] <;> (repeat' split) <;> rw [ih h] <;> simp


/-- either the class is not one that nested API calls log, or the callback makes no API calls -/
def ApiFree (c : Cls) (acts : List Nested) : Prop := (c ≠ .mutex ∧ c ≠ .nested) ∨ noApi acts = true

theorem applyNested_quiet' (c : Cls) (D : Desc) (f : Fsm) (e : Bool) (acts : List Nested) (h : ApiFree c acts) (s : St) :
    tr c (applyNested D f e s acts).log = tr c s.log := by
  rcases h with ⟨h1, h2⟩ | h
  · exact applyNested_quiet c h1 h2 D f e acts s
  · exact applyNested_quiet_noApi c D f e acts h s

theorem ApiFree.of_ne {c : Cls} {acts : List Nested} (h1 : c ≠ .mutex) (h2 : c ≠ .nested) : ApiFree c acts := Or.inl ⟨h1, h2⟩

/-! ### level 1 -/

@[simp] theorem readCmdChar_quiet (c : Cls) (h : c ≠ .rd) (s : St) (i : SvcIn) : Quiet c s (readCmdChar s i).1 := by
  unfold readCmdChar; split <;> simp [cls, Ne.symm h]

@[simp] theorem startFlush_cmd_quiet (c : Cls) (h : c ≠ .flC) (s : St) (a : After) : Quiet c s (startFlush s .cmd a) := by
  simp [startFlush, cls, Ne.symm h]
@[simp] theorem startFlush_uns_quiet (c : Cls) (h : c ≠ .flU) (s : St) (a : After) : Quiet c s (startFlush s .uns a) := by
  simp [startFlush, cls, Ne.symm h]
@[simp] theorem startFlushRaw_quiet (c : Cls) (h : c ≠ .flC) (s : St) (a : After) : Quiet c s (startFlushRaw s a) := by
  simp [startFlushRaw, cls, Ne.symm h]
@[simp] theorem ackError_quiet (c : Cls) (h1 : c ≠ .ack) (h2 : c ≠ .flC) (D : Desc) (s : St) : Quiet c s (ackError D s) := by
  simp [ackError, startFlush, cls, Ne.symm h1, Ne.symm h2]
@[simp] theorem ackOk_quiet (c : Cls) (h1 : c ≠ .ack) (h2 : c ≠ .flC) (D : Desc) (s : St) : Quiet c s (ackOk D s) := by
  simp [ackOk, startFlush, cls, Ne.symm h1, Ne.symm h2]
@[simp] theorem endError_cmd_quiet (c : Cls) (h1 : c ≠ .ack) (h2 : c ≠ .flC) (D : Desc) (s : St) : Quiet c s (endError D s .cmd) := by
  simp [endError, h1, h2]
@[simp] theorem endOk_cmd_quiet (c : Cls) (h1 : c ≠ .ack) (h2 : c ≠ .flC) (D : Desc) (s : St) : Quiet c s (endOk D s .cmd) := by
  simp [endOk, h1, h2]
@[simp] theorem endError_uns_quiet (c : Cls) (D : Desc) (s : St) : Quiet c s (endError D s .uns) := by
  simp [endError, unsolicitedResetState]
@[simp] theorem endOk_uns_quiet (c : Cls) (D : Desc) (s : St) : Quiet c s (endOk D s .uns) := by
  simp [endOk, unsolicitedResetState]
@[simp] theorem setStateRL_quiet (c : Cls) (s : St) (f : Fsm) : Quiet c s (setStateRL s f) := by cases f <;> simp [setStateRL]
@[simp] theorem setStateTL_quiet (c : Cls) (s : St) (f : Fsm) : Quiet c s (setStateTL s f) := by cases f <;> simp [setStateTL]
@[simp] theorem setIdx_log (s : St) (f : Fsm) (n : Nat) : (s.setIdx f n).log = s.log := by cases f <;> simp [St.setIdx]

/-! ### level 2 -/

@[simp] theorem printResponseTest_cmd_quiet (c : Cls) (h : c ≠ .flC) (D : Desc) (s : St) : Quiet c s (printResponseTest D s .cmd).1 := by
  simp [printResponseTest]; crunch
@[simp] theorem printResponseTest_uns_quiet (c : Cls) (h : c ≠ .flU) (D : Desc) (s : St) : Quiet c s (printResponseTest D s .uns).1 := by
  simp [printResponseTest]; crunch
@[simp] theorem nextFormatVar_cmd_quiet (c : Cls) (h1 : c ≠ .ack) (h2 : c ≠ .flC) (D : Desc) (s : St) : Quiet c s (nextFormatVar D s .cmd).1 := by
  simp [nextFormatVar, St.idx, St.pos]; crunch
@[simp] theorem nextFormatVar_uns_quiet (c : Cls) (D : Desc) (s : St) : Quiet c s (nextFormatVar D s .uns).1 := by
  simp [nextFormatVar, St.idx, St.pos]; crunch
@[simp] theorem startFormatTest_cmd_quiet (c : Cls) (h1 : c ≠ .ack) (h2 : c ≠ .flC) (D : Desc) (s : St) : Quiet c s (startFormatTest D s .cmd) := by
  simp [startFormatTest, St.cmdOf]; crunch
@[simp] theorem startFormatTest_uns_quiet (c : Cls) (h : c ≠ .flU) (D : Desc) (s : St) : Quiet c s (startFormatTest D s .uns) := by
  simp [startFormatTest, St.cmdOf]; crunch
@[simp] theorem startFormatRead_cmd_quiet (c : Cls) (h1 : c ≠ .ack) (h2 : c ≠ .flC) (D : Desc) (s : St) : Quiet c s (startFormatRead D s .cmd) := by
  simp [startFormatRead, St.cmdOf]; crunch
@[simp] theorem startFormatRead_uns_quiet (c : Cls) (D : Desc) (s : St) : Quiet c s (startFormatRead D s .uns) := by
  simp [startFormatRead, St.cmdOf]; crunch
@[simp] theorem varWriteCb_quiet (c : Cls) (h1 : c ≠ .cbC) (D : Desc) (s : St) (v : VarD) (i : SvcIn) (h2 : ApiFree c i.vc.acts) :
    Quiet c s (varWriteCb D s v i).1 := by
  unfold varWriteCb; split <;> simp [cls, applyNested_quiet' c D _ _ _ h2, Ne.symm h1]
@[simp] theorem varReadCb_cmd_quiet (c : Cls) (h1 : c ≠ .cbC) (D : Desc) (s : St) (v : VarD) (i : SvcIn) (h2 : ApiFree c i.vc.acts) :
    Quiet c s (varReadCb D s .cmd v i).1 := by
  simp only [varReadCb]; split <;> simp [cls, applyNested_quiet' c D _ _ _ h2, Ne.symm h1]
@[simp] theorem varReadCb_uns_quiet (c : Cls) (h1 : c ≠ .cbU) (D : Desc) (s : St) (v : VarD) (i : SvcIn) (h2 : ApiFree c i.vu.acts) :
    Quiet c s (varReadCb D s .uns v i).1 := by
  simp only [varReadCb]; split <;> simp [cls, applyNested_quiet' c D _ _ _ h2, Ne.symm h1]
@[simp] theorem formatVar_quiet (c : Cls) (D : Desc) (s : St) (f : Fsm) (v : VarD) : Quiet c s (formatVar D s f v).1 := by
  unfold formatVar; split <;> simp
@[simp] theorem cmdListNextCmd_quiet (c : Cls) (D : Desc) (s : St) : Quiet c s (cmdListNextCmd D s).1 := by
  simp [cmdListNextCmd]; crunch
@[simp] theorem printCurrentCmdFullName_quiet (c : Cls) (D : Desc) (s : St) (x : List Byte) : Quiet c s (printCurrentCmdFullName D s x).1 := by
  simp [printCurrentCmdFullName]; crunch
@[simp] theorem startPrintCmdList_quiet (c : Cls) (h1 : c ≠ .ack) (h2 : c ≠ .flC) (D : Desc) (s : St) : Quiet c s (startPrintCmdList D s) := by
  simp [startPrintCmdList]; crunch


/-! ### level 3: handler loops -/

theorem doCall_cmd_quiet (c : Cls) (h1 : c ≠ .ack) (h2 : c ≠ .flC) (D : Desc) (s : St) (k : Call) : Quiet c s (doCall D .cmd s k) := by
  cases k <;> simp [doCall, enableHoldState, h1, h2]

theorem doCalls_cmd_quiet (c : Cls) (h1 : c ≠ .ack) (h2 : c ≠ .flC) (D : Desc) (ks : List Call) : ∀ s : St, Quiet c s (doCalls D .cmd s ks) := by
  induction ks with
  | nil => intro s; simp [doCalls]
  | cons k r ih =>
    intro s
    have a := doCall_cmd_quiet c h1 h2 D s k
    have b := ih (doCall D .cmd s k)
    simp only [doCalls, Quiet] at *
    rw [b, a]

/-- calls that occur in the unsolicited machine's return-code tables -/
def UnsCallQ : Call → Prop
  | .endOk | .endError | .startFlush _ | .startFormatRead | .startFormatTest | .holdExit _ | .enableHold => True
  | _ => False

theorem doCall_uns_quiet (c : Cls) (h : c ≠ .flU) (D : Desc) (s : St) (k : Call) (hk : UnsCallQ k) : Quiet c s (doCall D .uns s k) := by
  cases k <;> simp [UnsCallQ] at hk <;> simp [doCall, enableHoldState, h]

theorem doCalls_uns_quiet (c : Cls) (h : c ≠ .flU) (D : Desc) (ks : List Call) : ∀ s : St, (∀ k ∈ ks, UnsCallQ k) → Quiet c s (doCalls D .uns s ks) := by
  induction ks with
  | nil => intro s _; simp [doCalls]
  | cons k r ih =>
    intro s hk
    have a := doCall_uns_quiet c h D s k (hk k (by simp))
    have b := ih (doCall D .uns s k) (fun k' h' => hk k' (by simp [h']))
    simp only [doCalls, Quiet] at *
    rw [b, a]

theorem readTable_uns_q (ret : Int) : ∀ k ∈ Gen.process_read_loop ret .uns, UnsCallQ k := by
  unfold Gen.process_read_loop
  (repeat' split) <;> simp_all [UnsCallQ]

theorem testTable_uns_q (ret : Int) : ∀ k ∈ Gen.process_test_loop ret .uns, UnsCallQ k := by
  unfold Gen.process_test_loop
  (repeat' split) <;> simp_all [UnsCallQ]

/-! ### level 4: the command machine's dispatch targets -/

theorem errorState_quiet (c : Cls) (h0 : c ≠ .rd) (h1 : c ≠ .ack) (h2 : c ≠ .flC) (D : Desc) (s : St) (i : SvcIn) : Quiet c s (errorState D s i).1 := by
  simp [errorState]; crunch
theorem processIdleState_quiet (c : Cls) (h0 : c ≠ .rd) (s : St) (i : SvcIn) : Quiet c s (processIdleState s i).1 := by
  simp [processIdleState]; crunch
theorem parsePrefix_quiet (c : Cls) (h0 : c ≠ .rd) (h1 : c ≠ .ack) (h2 : c ≠ .flC) (D : Desc) (s : St) (i : SvcIn) : Quiet c s (parsePrefix D s i).1 := by
  simp [parsePrefix, prepareParseCommand]; crunch
theorem parseCommand_quiet (c : Cls) (h0 : c ≠ .rd) (h1 : c ≠ .ack) (h2 : c ≠ .flC) (D : Desc) (s : St) (i : SvcIn) : Quiet c s (parseCommand D s i).1 := by
  simp [parseCommand, prepareSearchCommand]; crunch
theorem updateCommand_quiet (c : Cls) (D : Desc) (s : St) : Quiet c s (updateCommand D s).1 := by
  simp [updateCommand, updateAdvance, updateLane, prepareSearchCommand]; crunch
theorem waitReadAcknowledge_quiet (c : Cls) (h0 : c ≠ .rd) (s : St) (i : SvcIn) : Quiet c s (waitReadAcknowledge s i).1 := by
  simp [waitReadAcknowledge, prepareSearchCommand]; crunch
theorem waitTestAcknowledge_quiet (c : Cls) (h0 : c ≠ .rd) (h1 : c ≠ .ack) (h2 : c ≠ .flC) (D : Desc) (s : St) (i : SvcIn) : Quiet c s (waitTestAcknowledge D s i).1 := by
  simp [waitTestAcknowledge]; crunch
theorem searchCommand_quiet (c : Cls) (D : Desc) (s : St) : Quiet c s (searchCommand D s).1 := by
  simp [searchCommand, notFoundOrError]; crunch
theorem commandFound_quiet (c : Cls) (h1 : c ≠ .ack) (h2 : c ≠ .flC) (D : Desc) (s : St) : Quiet c s (commandFound D s).1 := by
  simp [commandFound]; crunch
theorem commandNotFound_quiet (c : Cls) (h1 : c ≠ .ack) (h2 : c ≠ .flC) (D : Desc) (s : St) : Quiet c s (commandNotFound D s).1 := by
  simp [commandNotFound, h1, h2]
theorem parseCommandArgs_quiet (c : Cls) (h0 : c ≠ .rd) (h1 : c ≠ .ack) (h2 : c ≠ .flC) (D : Desc) (s : St) (i : SvcIn) : Quiet c s (parseCommandArgs D s i).1 := by
  simp [parseCommandArgs]; crunch
theorem parseWriteArgs_quiet (c : Cls) (h1 : c ≠ .ack) (h2 : c ≠ .flC) (h3 : c ≠ .mem) (h4 : c ≠ .cbC)
    (D : Desc) (s : St) (i : SvcIn) (hv : ApiFree c i.vc.acts) : Quiet c s (parseWriteArgs D s i).1 := by
  simp [parseWriteArgs]; crunch
theorem formatReadArgs_cmd_quiet (c : Cls) (h1 : c ≠ .ack) (h2 : c ≠ .flC) (h4 : c ≠ .cbC)
    (D : Desc) (s : St) (i : SvcIn) (hv : ApiFree c i.vc.acts) : Quiet c s (formatReadArgs D s .cmd i).1 := by
  simp [formatReadArgs, St.cmdOf, St.idx]; crunch
theorem formatTestArgs_cmd_quiet (c : Cls) (h1 : c ≠ .ack) (h2 : c ≠ .flC) (D : Desc) (s : St) : Quiet c s (formatTestArgs D s .cmd).1 := by
  simp [formatTestArgs, St.cmdOf, St.idx]; crunch

theorem processWriteLoop_quiet (c : Cls) (h1 : c ≠ .ack) (h2 : c ≠ .flC) (h4 : c ≠ .cbC)
    (D : Desc) (s : St) (i : SvcIn) (hh : ApiFree c i.hc.acts) : Quiet c s (processWriteLoop D s i).1 := by
  simp only [processWriteLoop]
  have := doCalls_cmd_quiet c h1 h2 D (Gen.process_write_loop i.hc.ret)
  simp only [Quiet] at *
  rw [this, applyNested_quiet' c D _ _ _ hh]; simp [cls, Ne.symm h4]
theorem processRunLoop_quiet (c : Cls) (h1 : c ≠ .ack) (h2 : c ≠ .flC) (h4 : c ≠ .cbC)
    (D : Desc) (s : St) (i : SvcIn) (hh : ApiFree c i.hc.acts) : Quiet c s (processRunLoop D s i).1 := by
  simp only [processRunLoop]
  have := doCalls_cmd_quiet c h1 h2 D (Gen.process_run_loop i.hc.ret)
  simp only [Quiet] at *
  rw [this, applyNested_quiet' c D _ _ _ hh]; simp [cls, Ne.symm h4]
theorem processReadLoop_cmd_quiet (c : Cls) (h1 : c ≠ .ack) (h2 : c ≠ .flC) (h4 : c ≠ .cbC)
    (D : Desc) (s : St) (i : SvcIn) (hh : ApiFree c i.hc.acts) : Quiet c s (processReadLoop D s .cmd i).1 := by
  simp only [processReadLoop]
  have := doCalls_cmd_quiet c h1 h2 D (Gen.process_read_loop i.hc.ret .cmd)
  simp only [Quiet] at *
  rw [this, applyNested_quiet' c D _ _ _ hh]; simp [cls, Ne.symm h4]
theorem processTestLoop_cmd_quiet (c : Cls) (h1 : c ≠ .ack) (h2 : c ≠ .flC) (h4 : c ≠ .cbC)
    (D : Desc) (s : St) (i : SvcIn) (hh : ApiFree c i.hc.acts) : Quiet c s (processTestLoop D s .cmd i).1 := by
  simp only [processTestLoop]
  have := doCalls_cmd_quiet c h1 h2 D (Gen.process_test_loop i.hc.ret .cmd)
  simp only [Quiet] at *
  rw [this, applyNested_quiet' c D _ _ _ hh]; simp [cls, Ne.symm h4]
theorem processHoldState_quiet (c : Cls) (h1 : c ≠ .ack) (h2 : c ≠ .flC) (D : Desc) (s : St) : Quiet c s (processHoldState D s).1 := by
  simp [processHoldState]; crunch
theorem processIoWriteWait_quiet (c : Cls) (s : St) : Quiet c s (processIoWriteWait s).1 := by
  simp [processIoWriteWait]; crunch
theorem processIoWrite_quiet (c : Cls) (h1 : c ≠ .wrC) (h2 : c ≠ .flC) (D : Desc) (s : St) (i : SvcIn) : Quiet c s (processIoWrite D s i).1 := by
  simp [processIoWrite]; (repeat' split) <;> simp_all [cls, Ne.symm h1, Ne.symm h2]
theorem printCmdList_quiet (c : Cls) (h1 : c ≠ .ack) (h2 : c ≠ .flC) (D : Desc) (s : St) : Quiet c s (printCmdList D s) := by
  simp [printCmdList, printCmdForm]; crunch


/-! ### the unsolicited machine's dispatch targets -/

theorem checkUnsolicitedBuffers_quiet (c : Cls) (h1 : c ≠ .pop) (h2 : c ≠ .flU) (D : Desc) (s : St) : Quiet c s (checkUnsolicitedBuffers D s) := by
  simp [checkUnsolicitedBuffers, ringPop]; (repeat' split) <;> simp_all [cls, Ne.symm h1]
theorem formatReadArgs_uns_quiet (c : Cls) (h2 : c ≠ .flU) (h4 : c ≠ .cbU)
    (D : Desc) (s : St) (i : SvcIn) (hv : ApiFree c i.vu.acts) : Quiet c s (formatReadArgs D s .uns i).1 := by
  simp [formatReadArgs, St.cmdOf, St.idx]; crunch
theorem formatTestArgs_uns_quiet (c : Cls) (h2 : c ≠ .flU) (D : Desc) (s : St) : Quiet c s (formatTestArgs D s .uns).1 := by
  simp [formatTestArgs, St.cmdOf, St.idx]; crunch
theorem processReadLoop_uns_quiet (c : Cls) (h2 : c ≠ .flU) (h4 : c ≠ .cbU)
    (D : Desc) (s : St) (i : SvcIn) (hh : ApiFree c i.hu.acts) : Quiet c s (processReadLoop D s .uns i).1 := by
  simp only [processReadLoop]
  have := doCalls_uns_quiet c h2 D (Gen.process_read_loop i.hu.ret .uns)
  simp only [Quiet] at *
  rw [this _ (readTable_uns_q _), applyNested_quiet' c D _ _ _ hh]; simp [cls, Ne.symm h4]
theorem processTestLoop_uns_quiet (c : Cls) (h2 : c ≠ .flU) (h4 : c ≠ .cbU)
    (D : Desc) (s : St) (i : SvcIn) (hh : ApiFree c i.hu.acts) : Quiet c s (processTestLoop D s .uns i).1 := by
  simp only [processTestLoop]
  have := doCalls_uns_quiet c h2 D (Gen.process_test_loop i.hu.ret .uns)
  simp only [Quiet] at *
  rw [this _ (testTable_uns_q _), applyNested_quiet' c D _ _ _ hh]; simp [cls, Ne.symm h4]
theorem unsolicitedProcessIoWriteWait_quiet (c : Cls) (s : St) : Quiet c s (unsolicitedProcessIoWriteWait s).1 := by
  simp [unsolicitedProcessIoWriteWait]; crunch
theorem unsolicitedProcessIoWrite_quiet (c : Cls) (h1 : c ≠ .wrU) (h2 : c ≠ .flU) (D : Desc) (s : St) (i : SvcIn) : Quiet c s (unsolicitedProcessIoWrite D s i).1 := by
  simp [unsolicitedProcessIoWrite]; (repeat' split) <;> simp_all [cls, Ne.symm h1, Ne.symm h2]

/-! ### whole steps -/

/-- classes of events the command machine may log (lock/unlock and nested results only through
API calls made by its callbacks) -/
def CmdK : List Cls := [.rd, .wrC, .cbC, .ack, .flC, .mem]
/-- classes of events the unsolicited machine may log -/
def UnsK : List Cls := [.wrU, .cbU, .flU, .pop]

/-- **The command machine logs only events of its own classes.** -/
theorem commandService_quiet (c : Cls) (h : c ∉ CmdK) (D : Desc) (s : St) (i : SvcIn)
    (hv : ApiFree c i.vc.acts) (hh : ApiFree c i.hc.acts) : Quiet c s (commandService D s i).1 := by
  simp [CmdK] at h
  obtain ⟨h0, h1, h2, h5, h6, h7⟩ := h
  unfold commandService
  split
  · exact errorState_quiet c h0 h5 h6 D s i
  · exact processIdleState_quiet c h0 s i
  · exact parsePrefix_quiet c h0 h5 h6 D s i
  · exact parseCommand_quiet c h0 h5 h6 D s i
  · exact updateCommand_quiet c D s
  · exact waitReadAcknowledge_quiet c h0 s i
  · exact searchCommand_quiet c D s
  · exact commandFound_quiet c h5 h6 D s
  · exact commandNotFound_quiet c h5 h6 D s
  · exact parseCommandArgs_quiet c h0 h5 h6 D s i
  · exact parseWriteArgs_quiet c h5 h6 h7 h2 D s i hv
  · exact formatReadArgs_cmd_quiet c h5 h6 h2 D s i hv
  · exact waitTestAcknowledge_quiet c h0 h5 h6 D s i
  · exact formatTestArgs_cmd_quiet c h5 h6 D s
  · exact processWriteLoop_quiet c h5 h6 h2 D s i hh
  · exact processReadLoop_cmd_quiet c h5 h6 h2 D s i hh
  · exact processTestLoop_cmd_quiet c h5 h6 h2 D s i hh
  · exact processRunLoop_quiet c h5 h6 h2 D s i hh
  · exact processHoldState_quiet c h5 h6 D s
  · exact processIoWriteWait_quiet c s
  · exact processIoWrite_quiet c h1 h6 D s i
  · simp [resetState, cls, Ne.symm h5]; split <;> simp
  · simp [h5, h6]
  · simp [h5, h6]
  · simp [h5, h6]
  · exact printCmdList_quiet c h5 h6 D s

/-- **The unsolicited machine logs only events of its own classes.** -/
theorem unsolicitedEventsService_quiet (c : Cls) (h : c ∉ UnsK) (D : Desc) (s : St) (i : SvcIn)
    (hv : ApiFree c i.vu.acts) (hh : ApiFree c i.hu.acts) : Quiet c s (unsolicitedEventsService D s i).1 := by
  simp [UnsK] at h
  obtain ⟨h0, h1, h4, h5⟩ := h
  unfold unsolicitedEventsService
  split
  · exact checkUnsolicitedBuffers_quiet c h5 h4 D s
  · exact formatReadArgs_uns_quiet c h4 h1 D s i hv
  · exact formatTestArgs_uns_quiet c h4 D s
  · exact processReadLoop_uns_quiet c h4 h1 D s i hh
  · exact processTestLoop_uns_quiet c h4 h1 D s i hh
  · exact unsolicitedProcessIoWriteWait_quiet c s
  · exact unsolicitedProcessIoWrite_quiet c h0 h4 D s i
  · simp [unsolicitedResetState]
  · simp
  · simp
  · simp [h4]

/-- outside FLUSH_IO_WRITE the command machine offers no byte to `io->write` -/
theorem commandService_no_write (D : Desc) (s : St) (i : SvcIn) (h : s.state ≠ .flushWrite) :
    Quiet .wrC s (commandService D s i).1 := by
  have f : ∀ acts, ApiFree .wrC acts := fun _ => .of_ne (by decide) (by decide)
  unfold commandService
  split
  · exact errorState_quiet _ (by decide) (by decide) (by decide) D s i
  · exact processIdleState_quiet _ (by decide) s i
  · exact parsePrefix_quiet _ (by decide) (by decide) (by decide) D s i
  · exact parseCommand_quiet _ (by decide) (by decide) (by decide) D s i
  · exact updateCommand_quiet _ D s
  · exact waitReadAcknowledge_quiet _ (by decide) s i
  · exact searchCommand_quiet _ D s
  · exact commandFound_quiet _ (by decide) (by decide) D s
  · exact commandNotFound_quiet _ (by decide) (by decide) D s
  · exact parseCommandArgs_quiet _ (by decide) (by decide) (by decide) D s i
  · exact parseWriteArgs_quiet _ (by decide) (by decide) (by decide) (by decide) D s i (f _)
  · exact formatReadArgs_cmd_quiet _ (by decide) (by decide) (by decide) D s i (f _)
  · exact waitTestAcknowledge_quiet _ (by decide) (by decide) (by decide) D s i
  · exact formatTestArgs_cmd_quiet _ (by decide) (by decide) D s
  · exact processWriteLoop_quiet _ (by decide) (by decide) (by decide) D s i (f _)
  · exact processReadLoop_cmd_quiet _ (by decide) (by decide) (by decide) D s i (f _)
  · exact processTestLoop_cmd_quiet _ (by decide) (by decide) (by decide) D s i (f _)
  · exact processRunLoop_quiet _ (by decide) (by decide) (by decide) D s i (f _)
  · exact processHoldState_quiet _ (by decide) (by decide) D s
  · exact processIoWriteWait_quiet _ s
  · rename_i hs; exact absurd hs h
  · simp [resetState, cls]; split <;> simp
  · simp
  · simp
  · simp
  · exact printCmdList_quiet _ (by decide) (by decide) D s

/-- outside FLUSH_IO_WRITE the unsolicited machine offers no byte to `io->write` -/
theorem unsolicitedEventsService_no_write (D : Desc) (s : St) (i : SvcIn) (h : s.ustate ≠ .flushWrite) :
    Quiet .wrU s (unsolicitedEventsService D s i).1 := by
  have f : ∀ acts, ApiFree .wrU acts := fun _ => .of_ne (by decide) (by decide)
  unfold unsolicitedEventsService
  split
  · exact checkUnsolicitedBuffers_quiet _ (by decide) (by decide) D s
  · exact formatReadArgs_uns_quiet _ (by decide) (by decide) D s i (f _)
  · exact formatTestArgs_uns_quiet _ (by decide) D s
  · exact processReadLoop_uns_quiet _ (by decide) (by decide) D s i (f _)
  · exact processTestLoop_uns_quiet _ (by decide) (by decide) D s i (f _)
  · exact unsolicitedProcessIoWriteWait_quiet _ s
  · rename_i hs; exact absurd hs h
  · simp [unsolicitedResetState]
  · simp
  · simp
  · simp

end Cat
