/-
  The ring of unsolicited events refines a bounded FIFO queue (C13), for any capacity ≥ 1 and any
  number of laps around the ring.
-/
import CatVerif.Proofs.Frame
namespace Cat
open St

/-- `x % c` for `x < 2c`, in a form linear arithmetic can use -/
theorem mod_small (x c : Nat) (h : x < 2 * c) : x % c = if x < c then x else x - c := by
  split
  · exact Nat.mod_eq_of_lt ‹_›
  · rw [Nat.mod_eq_sub_mod (by omega)]
    exact Nat.mod_eq_of_lt (by omega)

/-- representation invariant of the ring -/
structure RingInv (D : Desc) (s : St) : Prop where
  cap_pos : 0 < D.cap
  len : s.ring.length = D.cap
  head_lt : s.rhead < D.cap
  count_le : s.rcount ≤ D.cap
  tail_eq : s.rtail = (s.rhead + s.rcount) % D.cap

theorem ringItems_length (D : Desc) (s : St) : (ringItems D s).length = s.rcount := by simp [ringItems]

theorem ringItems_get (D : Desc) (s : St) (k : Nat) (h : k < s.rcount) :
    (ringItems D s)[k]? = some (s.ring.getD ((s.rhead + k) % D.cap) (0, .none)) := by
  simp [ringItems, h]

theorem ringItems_get_none (D : Desc) (s : St) (k : Nat) (h : ¬ k < s.rcount) : (ringItems D s)[k]? = none := by
  simp [ringItems]; omega

theorem init_ringInv (D : Desc) (b u : List Byte) (m : List (List Byte)) (h : 0 < D.cap) : RingInv D (init D b u m) :=
  ⟨h, by simp [init], by simpa [init] using h, by simp [init], by simp [init]⟩

/-- a rejected push: the queue is full and nothing at all changes -/
theorem push_full (D : Desc) (s : St) (c : Nat) (t : CmdType) (h : s.rcount = D.cap) :
    pushUnsolicited D s c t = (s, Gen.CAT_STATUS_ERROR_BUFFER_FULL) := by
  simp [pushUnsolicited, Gen.is_unsolicited_buffer_full, h]

/-- an accepted push appends at the end of the abstract queue, wherever the indices stand -/
theorem push_ok (D : Desc) (s : St) (c : Nat) (t : CmdType) (hi : RingInv D s) (h : s.rcount < D.cap) :
    (pushUnsolicited D s c t).2 = Gen.CAT_STATUS_OK ∧
    RingInv D (pushUnsolicited D s c t).1 ∧
    ringItems D (pushUnsolicited D s c t).1 = ringItems D s ++ [(c, t)] ∧
    (pushUnsolicited D s c t).1.oob = s.oob := by
  obtain ⟨hc, hl, hh, hcl, ht⟩ := hi
  have hne : ¬ (s.rcount : Int) = (D.cap : Int) := by omega
  have htw := mod_small (s.rhead + s.rcount) D.cap (by omega)
  rw [← ht] at htw
  have htl : s.rtail < D.cap := by split at htw <;> omega
  have e : pushUnsolicited D s c t =
      ({ s with ring := s.ring.set s.rtail (c, t), rtail := (if s.rtail + 1 ≥ D.cap then 0 else s.rtail + 1),
                rcount := s.rcount + 1 }, Gen.CAT_STATUS_OK) := by
    simp [pushUnsolicited, Gen.is_unsolicited_buffer_full, hne, St.chk, htl]
  rw [e]
  refine ⟨rfl, ⟨hc, by simpa using hl, hh, by simp; omega, ?_⟩, ?_, rfl⟩
  · simp only
    rw [mod_small (s.rhead + (s.rcount + 1)) D.cap (by omega)]
    split at htw <;> split <;> split <;> omega
  · apply List.ext_getElem?
    intro k
    by_cases hk : k < s.rcount
    · rw [ringItems_get _ _ _ (by simp; omega), List.getElem?_append_left (by simp [ringItems_length]; exact hk),
        ringItems_get _ _ _ hk]
      simp only
      have hkw := mod_small (s.rhead + k) D.cap (by omega)
      have hneq : (s.rhead + k) % D.cap ≠ s.rtail := by
        rw [hkw]; split at htw <;> split <;> omega
      simp [List.getD, List.getElem?_set, Ne.symm hneq]
    · by_cases hk2 : k = s.rcount
      · subst hk2
        rw [ringItems_get _ _ _ (by simp), List.getElem?_append_right (by simp [ringItems_length])]
        simp only [ringItems_length, Nat.sub_self, List.getElem?_cons_zero]
        rw [← ht]
        simp [List.getD, List.getElem?_set, hl, htl]
      · rw [ringItems_get_none _ _ _ (by simp; omega), List.getElem?_append_right (by simp [ringItems_length]; omega)]
        simp [ringItems_length]
        omega

/-- on a non-empty queue, the head cell holds the oldest event and popping removes exactly it -/
theorem pop_ok (D : Desc) (s : St) (hi : RingInv D s) (h : 0 < s.rcount) :
    ringItems D s = ringFront s :: ringItems D (ringPop D s) ∧ RingInv D (ringPop D s) ∧
    (ringPop D s).oob = s.oob ∧ (ringPop D s).ring = s.ring := by
  obtain ⟨hc, hl, hh, hcl, ht⟩ := hi
  have e : ringPop D s = { s with rhead := (if s.rhead + 1 ≥ D.cap then 0 else s.rhead + 1), rcount := s.rcount - 1 } := by
    simp [ringPop, St.chk, hh]
  rw [e]
  refine ⟨?_, ⟨hc, hl, by simp only; split <;> omega, by simp; omega, ?_⟩, rfl, rfl⟩
  · apply List.ext_getElem?
    intro k
    cases k with
    | zero =>
      rw [ringItems_get _ _ _ h]
      simp [ringFront, Nat.mod_eq_of_lt hh]
    | succ j =>
      simp only [List.getElem?_cons_succ]
      by_cases hj : j + 1 < s.rcount
      · rw [ringItems_get _ _ _ hj, ringItems_get _ _ _ (by simp; omega)]
        simp only
        congr 2
        by_cases hw : s.rhead + 1 ≥ D.cap
        · simp only [hw, if_true]
          have : s.rhead + (j + 1) = D.cap + j := by omega
          rw [this, Nat.add_mod_left, Nat.zero_add]
        · simp only [hw, if_false]
          congr 1; omega
      · rw [ringItems_get_none _ _ _ hj, ringItems_get_none _ _ _ (by simp; omega)]
  · simp only
    rw [ht]
    by_cases hw : s.rhead + 1 ≥ D.cap
    · simp only [hw, if_true]
      have : s.rhead + s.rcount = D.cap + (s.rcount - 1) := by omega
      rw [this, Nat.add_mod_left, Nat.zero_add]
    · simp only [hw, if_false]
      congr 1; omega

/-- `cat_is_unsolicited_buffer_full` predicts the outcome of a trigger -/
theorem full_predicts (D : Desc) (s : St) (c : Nat) (t : CmdType) (hi : RingInv D s) :
    (Gen.is_unsolicited_buffer_full s.rcount D.cap = true ↔ (pushUnsolicited D s c t).2 = Gen.CAT_STATUS_ERROR_BUFFER_FULL) ∧
    (Gen.is_unsolicited_buffer_full s.rcount D.cap = false ↔ (pushUnsolicited D s c t).2 = Gen.CAT_STATUS_OK) := by
  have hcl := hi.count_le
  by_cases h : s.rcount = D.cap
  · rw [push_full D s c t h]
    simp [Gen.is_unsolicited_buffer_full, h, Gen.CAT_STATUS_ERROR_BUFFER_FULL, Gen.CAT_STATUS_OK]
  · have := (push_ok D s c t hi (by omega)).1
    rw [this]
    have hne : ¬ (s.rcount : Int) = (D.cap : Int) := by omega
    simp [Gen.is_unsolicited_buffer_full, hne, Gen.CAT_STATUS_ERROR_BUFFER_FULL, Gen.CAT_STATUS_OK]

end Cat
