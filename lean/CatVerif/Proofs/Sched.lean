/-
  Schedule independence of the command machine (C12, event-free traffic).

  A schedule decides, call by call, whether the next input byte is offered and whether the output
  accepts.  Every call under a schedule is either a pure refusal — the machine wanted input and
  none was offered, or it offered an output byte and the byte was refused: nothing changes but the
  log of that call, which records the refusal — or it is exactly the call the eager schedule
  (always offer, always accept) makes in the same state: input readiness is irrelevant outside
  the reading states, output readiness outside FLUSH_IO_WRITE and at a terminator.  Hence a run
  under any schedule reaches the state of an eager run with as many calls as the schedule has
  effective ones, with the same input left over and the same sequence of events other than
  refusals (bytes consumed, bytes accepted by the output, handler and callback invocations with
  their arguments).  Handler answers are constant (`tmpl`), as in the twin oracle.
-/
import CatVerif.Proofs.Quiesce
import CatVerif.Proofs.Stutter
namespace Cat
open St

/-! ### readiness is irrelevant where it is not looked at -/

theorem commandService_rd_irrelevant (D : Desc) (s : St) (i : SvcIn) (x y : Option Byte) (hr : ¬ Reading s.state) :
    commandService D s { i with rd := x } = commandService D s { i with rd := y } := by
  unfold Reading at hr
  unfold commandService
  split <;> rename_i hs <;> (try (simp [hs] at hr)) <;> rfl

theorem commandService_wr_irrelevant (D : Desc) (s : St) (i : SvcIn) (a b : Bool) (hw : s.state ≠ .flushWrite) :
    commandService D s { i with wr := a } = commandService D s { i with wr := b } := by
  unfold commandService
  split <;> rename_i hs <;> (try (exact absurd hs hw)) <;> rfl

/-- at a terminator the output step does not call `io->write` -/
theorem commandService_wr_irrelevant_nul (D : Desc) (s : St) (i : SvcIn) (a b : Bool) (hs : s.state = .flushWrite)
    (hz : (writeByte D s .cmd).1 = 0) :
    commandService D s { i with wr := a } = commandService D s { i with wr := b } := by
  simp [commandService, hs, processIoWrite, hz]

theorem unsolicitedEventsService_rd_irrelevant (D : Desc) (s : St) (i : SvcIn) (x y : Option Byte) :
    unsolicitedEventsService D s { i with rd := x } = unsolicitedEventsService D s { i with rd := y } := by
  unfold unsolicitedEventsService
  split <;> rfl

theorem unsolicitedEventsService_wr_irrelevant (D : Desc) (s : St) (i : SvcIn) (a b : Bool) (hw : s.ustate ≠ .flushWrite) :
    unsolicitedEventsService D s { i with wr := a } = unsolicitedEventsService D s { i with wr := b } := by
  unfold unsolicitedEventsService
  split <;> rename_i hs <;> (try (exact absurd hs hw)) <;> rfl

/-! ### runs under a schedule -/

/-- one entry of a schedule -/
structure Slot where
  offer : Bool
  accept : Bool

def eager : Slot := ⟨true, true⟩

/-- the inputs of a call: constant handler answers, readiness from the schedule -/
def slotIn (tmpl : SvcIn) (q : List Byte) (sl : Slot) : SvcIn :=
  { tmpl with rd := if sl.offer then q.head? else none, wr := sl.accept }

/-- a refused output byte whose fetch lies outside its object would raise the fault flag (C03 shows
it never happens from `cat_init`; here it is a side condition of the run) -/
def fetchOk (D : Desc) (s : St) (sl : Slot) : Bool :=
  !(s.state == .flushWrite && !sl.accept && (writeByte D s .cmd).1 != 0 && !(writeByte D s .cmd).2)

/-- the command machine under a schedule: final state, input left over, the log of every call, and
whether every refused fetch was in bounds -/
def runS (D : Desc) (tmpl : SvcIn) : St → List Byte → List Slot → St × List Byte × List (List Ev) × Bool
  | s, q, [] => (s, q, [], true)
  | s, q, sl :: r =>
    let s0 : St := { s with log := [] }
    let i := slotIn tmpl q sl
    let s1 := (commandService D s0 i).1
    let q1 := if Reading s.state ∧ i.rd.isSome then q.tail else q
    let rest := runS D tmpl s1 q1 r
    (rest.1, rest.2.1, s1.log :: rest.2.2.1, fetchOk D s sl && rest.2.2.2)

/-- events that record a refusal -/
def isRefusal : Ev → Bool
  | .rd none => true
  | .wr _ _ false _ => true
  | _ => false

/-- the events of a run other than refusals -/
def realEvents (ls : List (List Ev)) : List Ev := ls.flatten.filter (fun e => !isRefusal e)

/-- **One call under a schedule**: a pure refusal, or the eager schedule's call. -/
theorem slot_step (D : Desc) (tmpl : SvcIn) (s : St) (q : List Byte) (sl : Slot) (hs0 : s.log = []) (hf : fetchOk D s sl = true) :
    ((∃ e, isRefusal e = true ∧ (commandService D s (slotIn tmpl q sl)).1 = { s with log := [e] }) ∧
      ¬ (Reading s.state ∧ (slotIn tmpl q sl).rd.isSome)) ∨
    (commandService D s (slotIn tmpl q sl) = commandService D s (slotIn tmpl q eager) ∧
      ((Reading s.state ∧ (slotIn tmpl q sl).rd.isSome) ↔ (Reading s.state ∧ (slotIn tmpl q eager).rd.isSome))) := by
  by_cases hr : Reading s.state
  · have hw : s.state ≠ .flushWrite := by
      intro h; unfold Reading at hr; simp [h] at hr
    cases ho : sl.offer
    · -- nothing offered although the machine reads: refused
      left
      have hi : (slotIn tmpl q sl).rd = none := by simp [slotIn, ho]
      refine ⟨⟨.rd none, rfl, ?_⟩, fun h => by rw [hi] at h; exact absurd h.2 (by simp)⟩
      rw [read_refused D s _ hr hi]
      simp [St.emit, hs0]
    · right
      have e : slotIn tmpl q sl = { slotIn tmpl q eager with wr := sl.accept } := by simp [slotIn, ho, eager]
      refine ⟨?_, by rw [e]⟩
      rw [e]
      exact commandService_wr_irrelevant D s _ _ _ hw
  · -- not reading: what is offered does not matter
    have e1 : slotIn tmpl q sl = { ({ slotIn tmpl q eager with wr := sl.accept } : SvcIn) with rd := (slotIn tmpl q sl).rd } := by
      simp [slotIn, eager]
    by_cases hw : s.state = .flushWrite
    · cases ha : sl.accept
      · by_cases hz : (writeByte D s .cmd).1 = 0
        · right
          refine ⟨?_, by simp [hr]⟩
          rw [e1, commandService_rd_irrelevant D s _ _ (slotIn tmpl q eager).rd hr]
          have : ({ ({ slotIn tmpl q eager with wr := sl.accept } : SvcIn) with rd := (slotIn tmpl q eager).rd } : SvcIn) =
              { slotIn tmpl q eager with wr := sl.accept } := rfl
          rw [this]
          exact commandService_wr_irrelevant_nul D s _ _ _ hw hz
        · left
          have hin : (writeByte D s .cmd).2 = true := by
            simp only [fetchOk, hw, ha, beq_self_eq_true, Bool.not_false, Bool.true_and] at hf
            cases h2 : (writeByte D s .cmd).2
            · simp [h2, hz] at hf
            · rfl
          refine ⟨⟨.wr .cmd (writeByte D s .cmd).1 false (unitPart s.writeState s.writeSrc), rfl, ?_⟩, fun h => hr h.1⟩
          rw [write_refused D s _ hw (by simp [slotIn, ha]) hz]
          simp [St.chk, hin, St.emit, hs0]
      · right
        refine ⟨?_, by simp [hr]⟩
        have e2 : slotIn tmpl q sl = { slotIn tmpl q eager with rd := (slotIn tmpl q sl).rd } := by simp [slotIn, eager, ha]
        rw [e2]
        exact commandService_rd_irrelevant D s _ _ _ hr
    · right
      refine ⟨?_, by simp [hr]⟩
      rw [e1, commandService_rd_irrelevant D s _ _ (slotIn tmpl q eager).rd hr]
      have : ({ ({ slotIn tmpl q eager with wr := sl.accept } : SvcIn) with rd := (slotIn tmpl q eager).rd } : SvcIn) =
          { slotIn tmpl q eager with wr := sl.accept } := rfl
      rw [this]
      exact commandService_wr_irrelevant D s _ _ _ hw

/-- a run does not depend on the log it starts with: every call clears it -/
theorem runS_log (D : Desc) (tmpl : SvcIn) (s : St) (l : List Ev) (q : List Byte) (sl : Slot) (r : List Slot) :
    runS D tmpl { s with log := l } q (sl :: r) = runS D tmpl s q (sl :: r) := by
  simp [runS, fetchOk, writeByte, getB]

/-- **Schedule independence**: a run under any schedule in which no refused fetch is out of bounds
reaches, up to the log of the last call, the state of an eager run of at most as many calls, leaves
the same input unconsumed, and produces the same events other than refusals. -/
theorem runS_eager (D : Desc) (tmpl : SvcIn) : ∀ (σ : List Slot) (s : St) (q : List Byte),
    (runS D tmpl s q σ).2.2.2 = true →
    ∃ n, n ≤ σ.length ∧
      SameButLog (runS D tmpl s q (List.replicate n eager)).1 (runS D tmpl s q σ).1 ∧
      (runS D tmpl s q (List.replicate n eager)).2.1 = (runS D tmpl s q σ).2.1 ∧
      realEvents (runS D tmpl s q (List.replicate n eager)).2.2.1 = realEvents (runS D tmpl s q σ).2.2.1 := by
  intro σ
  induction σ with
  | nil => intro s q _; exact ⟨0, Nat.le_refl _, .refl _, rfl, rfl⟩
  | cons sl r ih =>
    intro s q hin
    simp only [runS, Bool.and_eq_true] at hin
    have hf0 : fetchOk D ({ s with log := [] } : St) sl = true := by
      have := hin.1
      simpa [fetchOk, writeByte, getB] using this
    rcases slot_step D tmpl ({ s with log := [] } : St) q sl rfl hf0 with ⟨⟨e, he, hs1⟩, hnr⟩ | ⟨heq, hq⟩
    · -- a refusal: the rest of the run is the run from the same state
      have hq1 : (if Reading s.state ∧ (slotIn tmpl q sl).rd.isSome then q.tail else q) = q := by
        rw [if_neg (by simpa using hnr)]
      have hin2 := hin.2
      rw [hq1, hs1] at hin2
      cases r with
      | nil =>
        refine ⟨0, by simp, ?_, ?_, ?_⟩
        · simp only [runS, List.replicate]
          rw [hs1]
          exact ⟨[e], by simp⟩
        · simp only [runS, List.replicate]; rw [hq1]
        · simp only [runS, List.replicate, realEvents]
          rw [hs1]
          simp [he]
      | cons sl2 r2 =>
        have hrest : runS D tmpl ({ s with log := [e] } : St) q (sl2 :: r2) = runS D tmpl s q (sl2 :: r2) :=
          runS_log D tmpl s [e] q sl2 r2
        have e0 : ({ ({ s with log := [] } : St) with log := [e] } : St) = { s with log := [e] } := rfl
        rw [e0, hrest] at hin2
        obtain ⟨n, hn, h1, h2, h3⟩ := ih s q hin2
        refine ⟨n, by simp only [List.length_cons] at hn ⊢; omega, ?_, ?_, ?_⟩
        · rw [show runS D tmpl s q (sl :: sl2 :: r2) =
              ((runS D tmpl s q (sl2 :: r2)).1, (runS D tmpl s q (sl2 :: r2)).2.1, [e] :: (runS D tmpl s q (sl2 :: r2)).2.2.1,
                fetchOk D s sl && (runS D tmpl s q (sl2 :: r2)).2.2.2) from by
            conv => lhs; unfold runS
            simp only []
            rw [hq1, hs1, e0, hrest]]
          exact h1
        · rw [show (runS D tmpl s q (sl :: sl2 :: r2)).2.1 = (runS D tmpl s q (sl2 :: r2)).2.1 from by
            conv => lhs; unfold runS
            simp only []
            rw [hq1, hs1, e0, hrest]]
          exact h2
        · rw [show (runS D tmpl s q (sl :: sl2 :: r2)).2.2.1 = [e] :: (runS D tmpl s q (sl2 :: r2)).2.2.1 from by
            conv => lhs; unfold runS
            simp only []
            rw [hq1, hs1, e0, hrest]]
          rw [h3]
          simp [realEvents, he]
    · -- the eager call
      have hq1 : (if Reading s.state ∧ (slotIn tmpl q sl).rd.isSome then q.tail else q) =
          (if Reading s.state ∧ (slotIn tmpl q eager).rd.isSome then q.tail else q) := by
        have : (Reading s.state ∧ (slotIn tmpl q sl).rd.isSome) ↔ (Reading s.state ∧ (slotIn tmpl q eager).rd.isSome) := by
          simpa using hq
        by_cases h : Reading s.state ∧ (slotIn tmpl q sl).rd.isSome
        · rw [if_pos h, if_pos (this.1 h)]
        · rw [if_neg h, if_neg (fun x => h (this.2 x))]
      have hin2 := hin.2
      rw [heq, hq1] at hin2
      obtain ⟨n, hn, h1, h2, h3⟩ := ih _ _ hin2
      refine ⟨n + 1, by simp only [List.length_cons]; omega, ?_, ?_, ?_⟩
      · simp only [runS, List.replicate]; rw [heq, hq1]; exact h1
      · simp only [runS, List.replicate]; rw [heq, hq1]; exact h2
      · simp only [runS, List.replicate]; rw [heq, hq1]
        simp only [realEvents, List.flatten_cons, List.filter_append] at h3 ⊢
        rw [h3]

/-- while the unsolicited machine is idle with an empty queue, a `cat_service` body is the command
machine's step -/
theorem serviceBody_alone (D : Desc) (s : St) (i : SvcIn) (hu : s.ustate = .idle) (hc : s.rcount = 0) :
    (serviceBody D s i).1 = (commandService D s i).1 := by
  have e1 : unsolicitedEventsService D s i = (s, Gen.CAT_STATUS_OK) := by
    simp [unsolicitedEventsService, hu, checkUnsolicitedBuffers, Gen.is_unsolicited_buffer_empty, hc]
  unfold serviceBody
  simp [e1]

end Cat
