/-
  Variable storage: what `slotWrite` stores, and little-endian encoding.
-/
import CatVerif.Proofs.Frame
namespace Cat
open St

theorem slotGet_set_same (s : St) (slot : Nat) (x : List Byte) (h : slot < s.mem.length) :
    ({ s with mem := s.mem.set slot x } : St).slotGet slot = x := by
  simp [St.slotGet, h]

theorem slotGet_set_other (s : St) (slot k : Nat) (x : List Byte) (h : k ≠ slot) :
    ({ s with mem := s.mem.set slot x } : St).slotGet k = s.slotGet k := by
  simp [St.slotGet, List.getD, Ne.symm h]

theorem take_set_succ (l : List Nat) (off b : Nat) (hlt : off < l.length) : (l.set off b).take (off + 1) = l.take off ++ [b] := by
  apply List.ext_getElem?
  intro j
  simp only [List.getElem?_take, List.getElem?_set, List.getElem?_append, List.length_take]
  by_cases h1 : j < off
  · have : ¬ off = j := by omega
    simp [h1, this, show j < off + 1 by omega, show j < min off l.length by omega]
  · by_cases h2 : j = off
    · subst h2
      have : j - min j l.length = 0 := by omega
      simp [hlt, show ¬ j < min j l.length by omega, this]
    · have : ¬ j < off + 1 := by omega
      simp [this, show ¬ j < min off l.length by omega]
      omega

theorem drop_set_succ (l : List Nat) (off b n : Nat) : (l.set off b).drop (off + 1 + n) = l.drop (off + (n + 1)) := by
  rw [List.drop_set]
  have : off < off + 1 + n := by omega
  rw [if_pos this]
  congr 1; omega

theorem slotGet_nonempty_lt (s : St) (slot : Nat) (h : 0 < (s.slotGet slot).length) : slot < s.mem.length := by
  unfold St.slotGet at h
  by_cases hl : slot < s.mem.length
  · exact hl
  · simp [List.getD, List.getElem?_eq_none (by omega : s.mem.length ≤ slot)] at h

/-- `slotWrite` inside the slot: the bytes land at `off…`, everything else is unchanged and no
fault is raised -/
theorem slotWrite_spec (slot : Nat) (bs : List Byte) : ∀ (s : St) (off : Nat),
    off + bs.length ≤ (s.slotGet slot).length →
    (slotWrite s slot off bs).slotGet slot = (s.slotGet slot).take off ++ bs ++ (s.slotGet slot).drop (off + bs.length) ∧
    (slotWrite s slot off bs).oob = s.oob ∧ (slotWrite s slot off bs).ub = s.ub ∧
    (∀ k, k ≠ slot → (slotWrite s slot off bs).slotGet k = s.slotGet k) ∧
    (slotWrite s slot off bs).mem.length = s.mem.length := by
  induction bs with
  | nil => intro s off _; simp [slotWrite]
  | cons b r ih =>
    intro s off h
    simp only [List.length_cons] at h
    have hlt : off < (s.slotGet slot).length := by omega
    have hslot := slotGet_nonempty_lt s slot (by omega)
    simp only [slotWrite, hlt, if_true]
    generalize hs1 : (({ s with mem := s.mem.set slot ((s.slotGet slot).set off b) } : St).emit (.memWrite slot off)) = s1
    have g1 : s1.slotGet slot = (s.slotGet slot).set off b := by
      subst hs1; simp [St.emit]; exact slotGet_set_same s slot _ hslot
    have g2 : ∀ k, k ≠ slot → s1.slotGet k = s.slotGet k := by
      intro k hk; subst hs1; simp [St.emit]; exact slotGet_set_other s slot k _ hk
    have g3 : s1.oob = s.oob ∧ s1.ub = s.ub ∧ s1.mem.length = s.mem.length := by subst hs1; simp [St.emit]
    have := ih s1 (off + 1) (by rw [g1]; simp; omega)
    obtain ⟨a1, a2, a3, a4, a5⟩ := this
    refine ⟨?_, by rw [a2, g3.1], by rw [a3, g3.2.1], fun k hk => by rw [a4 k hk, g2 k hk], by rw [a5, g3.2.2]⟩
    rw [a1, g1]
    rw [take_set_succ _ _ _ hlt, drop_set_succ]; simp

/-! ### little-endian encoding -/

theorem leBytes_length (n v : Nat) : (leBytes n v).length = n := by
  induction n generalizing v with
  | zero => rfl
  | succ k ih => simp [leBytes, ih]

theorem leValue_leBytes (n v : Nat) : leValue (leBytes n v) = v % 256 ^ n := by
  induction n generalizing v with
  | zero => simp [leBytes, leValue, Nat.mod_one]
  | succ k ih =>
    simp only [leBytes, leValue, ih]
    rw [Nat.pow_succ, Nat.mul_comm (256 ^ k) 256, Nat.mod_mul]

theorem leBytes_lt (n v : Nat) : ∀ b ∈ leBytes n v, b < 256 := by
  induction n generalizing v with
  | zero => simp [leBytes]
  | succ k ih =>
    intro b hb
    simp [leBytes] at hb
    rcases hb with rfl | hb
    · omega
    · exact ih _ b hb

end Cat
