/-
  Name resolution (C02): a whole sweep of `update_command` over the table computes the match state
  of every command against the typed name, and the `search_command` loop selects the first full
  match, otherwise the unique partial match.
-/
import CatVerif.Proofs.Lanes
import CatVerif.Spec.Resolve
namespace Cat
open St

/-! ### lanes for arbitrary stored values -/

theorem pow4 (i : Nat) : 4 ^ (i % 4) = 1 ∨ 4 ^ (i % 4) = 4 ∨ 4 ^ (i % 4) = 16 ∨ 4 ^ (i % 4) = 64 := by
  have : i % 4 = 0 ∨ i % 4 = 1 ∨ i % 4 = 2 ∨ i % 4 = 3 := by omega
  rcases this with h | h | h | h <;> simp [h]
theorem laneGet_mod256 (b i : Nat) : laneGet b i = laneGet (b % 256) i := by
  unfold laneGet
  rcases pow4 i with h | h | h | h <;> rw [h] <;> omega
theorem laneSet_mod256 (b i v : Nat) : laneSet b i v = laneSet (b % 256) i v := by
  unfold laneSet
  rcases pow4 i with h | h | h | h <;> rw [h] <;> omega

theorem lane_same' (b i v : Nat) (hv : v < 4) : laneGet (laneSet b i v) i = v := by
  rw [laneSet_mod256]; exact lane_same _ i v (Nat.mod_lt _ (by decide)) hv
theorem lane_independent' (b i j v : Nat) (hv : v < 4) (hij : i ≠ j) (hsame : i / 4 = j / 4) :
    laneGet (laneSet b i v) j = laneGet b j := by
  rw [laneSet_mod256, laneGet_mod256 b j]; exact lane_independent _ i j v (Nat.mod_lt _ (by decide)) hv hij hsame

/-- writing command `i`'s lane changes that lane and no other command's (any stored byte) -/
theorem laneOf_setCmdState' (D : Desc) (s : St) (i j v : Nat) (hv : v < 4) (hi : i / 4 < D.cmdCap) (hl : i / 4 < s.buf.length)
    (hj : disabledByIndex D.groups j = false) :
    laneOf D (setCmdState D s i v) j = if i = j then v else laneOf D s j := by
  rw [laneOf_enabled D _ j hj, laneOf_enabled D s j hj]
  unfold setCmdState
  rw [getB_setB_cmd D s (i / 4) (j / 4) _ hi hl]
  by_cases hij : i = j
  · subst hij; simp [lane_same' _ _ _ hv]
  · simp only [hij, if_false]
    by_cases hq : i / 4 = j / 4
    · simp only [hq, if_true]
      rw [← hq]
      exact lane_independent' _ i j v hv hij hq
    · simp [hq]

theorem laneOf_disabled (D : Desc) (s : St) (j : Nat) (h : disabledByIndex D.groups j = true) : laneOf D s j = 0 := by
  simp [laneOf, getCmdState, h]

/-! ### the specification -/

/-- the name of table entry `j` -/
def nameOf (D : Desc) (j : Nat) : List Byte := ((cmdByIndex D.groups j).getD default).name

namespace Spec
/-- the match state the parser must hold for entry `j` once `typed` has been read: disabled
entries never match; before the first character every enabled entry is a candidate -/
def lane (D : Desc) (typed : List Byte) (j : Nat) : Nat :=
  if disabledByIndex D.groups j then 0 else if typed = [] then 1 else matchName (nameOf D j) typed
end Spec

/-- during a sweep for character `ch`, entries below the cursor already reflect `typed ++ [ch]` -/
def Sweep (D : Desc) (s : St) (typed : List Byte) (ch : Byte) (k : Nat) : Prop :=
  ∀ j, j < D.commandsNum → laneOf D s j = if j < k then Spec.lane D (typed ++ [ch]) j else Spec.lane D typed j

/-- the whole table reflects `typed` -/
def Lanes (D : Desc) (s : St) (typed : List Byte) : Prop :=
  ∀ j, j < D.commandsNum → laneOf D s j = Spec.lane D typed j

theorem updateLane_disabled (D : Desc) (s : St) (h : disabledByIndex D.groups s.index = true) :
    (updateLane D s).buf = s.buf ∧ (updateLane D s).implicitWriteFlag = s.implicitWriteFlag := by
  unfold updateLane
  simp [getCmdState, h]

theorem setCmdState_len (D : Desc) (s : St) (i v : Nat) : (setCmdState D s i v).buf.length = s.buf.length := by
  unfold setCmdState setB
  split <;> simp

theorem updateLane_len (D : Desc) (s : St) : (updateLane D s).buf.length = s.buf.length := by
  cases hd : disabledByIndex D.groups s.index
  · have ⟨c0, c1, c2, c3, c4⟩ := updateLane_buf D s hd _ _ rfl rfl
    by_cases h0 : laneOf D s s.index = 0
    · rw [c0 h0]
    · by_cases hlen : s.length > ((cmdByIndex D.groups s.index).getD default).name.length
      · rw [c1 h0 hlen, setCmdState_len]
      · by_cases hch : toUpper (((cmdByIndex D.groups s.index).getD default).name.getD (s.length - 1) 0) = s.currentChar
        · by_cases hfull : s.length = ((cmdByIndex D.groups s.index).getD default).name.length
          · rw [c3 h0 hlen hch hfull, setCmdState_len]
          · rw [c4 h0 hlen hch hfull]
        · rw [c2 h0 hlen hch, setCmdState_len]
  · rw [(updateLane_disabled D s hd).1]

/-- one lane update, for every table entry `j`, enabled or not -/
theorem updateLane_lanes' (D : Desc) (s : St) (j : Nat)
    (hi : s.index / 4 < D.cmdCap) (hl : s.index / 4 < s.buf.length) :
    laneOf D (updateLane D s) j =
      if j = s.index then stepMatch (laneOf D s s.index) (nameOf D s.index) s.length s.currentChar
      else laneOf D s j := by
  cases hj : disabledByIndex D.groups j
  · cases hd : disabledByIndex D.groups s.index
    · -- both enabled: as in `updateLane_lanes`, without the byte bound
      have ⟨c0, c1, c2, c3, c4⟩ := updateLane_buf D s hd _ _ rfl rfl
      have set : ∀ v, v < 4 → ∀ x : St, x.buf = (setCmdState D s s.index v).buf →
          laneOf D x j = if j = s.index then v else laneOf D s j := by
        intro v hv x hx
        rw [laneOf_congr D x _ j hx, laneOf_setCmdState' D s s.index j v hv hi hl hj]
        by_cases hjs : j = s.index
        · simp [hjs]
        · have : ¬ s.index = j := fun h => hjs h.symm
          simp [hjs, this]
      have same : ∀ x : St, x.buf = s.buf → laneOf D x j = laneOf D s j := fun x hx => laneOf_congr D x s j hx
      unfold stepMatch nameOf
      by_cases h0 : laneOf D s s.index = 0
      · rw [same _ (c0 h0)]
        simp only [h0, if_true]
        split
        · rename_i hjs; rw [hjs]; exact h0
        · rfl
      · simp only [h0, if_false]
        by_cases hlen : s.length > ((cmdByIndex D.groups s.index).getD default).name.length
        · simp only [hlen, if_true]; exact set 0 (by decide) _ (c1 h0 hlen)
        · simp only [hlen, if_false]
          by_cases hch : toUpper (((cmdByIndex D.groups s.index).getD default).name.getD (s.length - 1) 0) = s.currentChar
          · simp only [hch, ne_eq, not_true_eq_false, if_false]
            by_cases hfull : s.length = ((cmdByIndex D.groups s.index).getD default).name.length
            · simp only [hfull, if_true]
              exact set 2 (by decide) _ (c3 h0 hlen hch hfull)
            · simp only [hfull, if_false]
              rw [same _ (c4 h0 hlen hch hfull)]
              split
              · rename_i hjs; rw [hjs]
              · rfl
          · simp only [ne_eq, hch, not_false_eq_true, if_true]
            exact set 0 (by decide) _ (c2 h0 hlen hch)
    · -- the entry under the cursor is disabled: nothing changes
      rw [laneOf_congr D _ s j (updateLane_disabled D s hd).1]
      split
      · rename_i hjs; rw [hjs, laneOf_disabled D s _ hd]; simp [stepMatch]
      · rfl
  · rw [laneOf_disabled D _ j hj, laneOf_disabled D s j hj]
    split
    · rename_i hjs; rw [← hjs, laneOf_disabled D s j hj]; simp [stepMatch]
    · rfl

theorem stepMatch_lane (D : Desc) (typed : List Byte) (ch : Byte) (k : Nat) :
    stepMatch (Spec.lane D typed k) (nameOf D k) (typed.length + 1) ch = Spec.lane D (typed ++ [ch]) k := by
  unfold Spec.lane
  cases disabledByIndex D.groups k
  · simp only [Bool.false_eq_true, if_false, List.append_eq_nil_iff, List.cons_ne_nil, and_false]
    by_cases ht : typed = []
    · subst ht
      simp only [if_true, List.length_nil, Nat.zero_add, List.nil_append]
      by_cases hn : nameOf D k = []
      · rw [hn]; simp [stepMatch, Spec.matchName]
      · have := stepMatch_spec (nameOf D k) [] ch
        rw [matchName_nil, if_neg hn] at this
        simpa using this
    · rw [if_neg ht]; exact stepMatch_spec _ typed ch
  · simp [stepMatch]

/-- the lane update at the cursor moves the sweep forward by one entry -/
theorem updateLane_sweep (D : Desc) (s : St) (typed : List Byte) (ch : Byte)
    (hcap : D.commandsNum ≤ 4 * D.cmdCap) (hbuf : D.cmdCap ≤ s.buf.length)
    (hidx : s.index < D.commandsNum) (hlen : s.length = typed.length + 1) (hch : s.currentChar = ch)
    (h : Sweep D s typed ch s.index) : Sweep D (updateLane D s) typed ch (s.index + 1) := by
  intro j hj
  rw [updateLane_lanes' D s j (by omega) (by omega)]
  by_cases hjs : j = s.index
  · subst hjs
    simp only [if_true, show s.index < s.index + 1 by omega]
    rw [h s.index hj, if_neg (by omega), hlen, hch]
    exact stepMatch_lane D typed ch s.index
  · rw [if_neg hjs, h j hj]
    by_cases hlt : j < s.index
    · simp [hlt, show j < s.index + 1 by omega]
    · simp [hlt, show ¬ j < s.index + 1 by omega]

theorem updateAdvance_fields (D : Desc) (s : St) :
    (updateAdvance D s).buf = s.buf ∧ (updateAdvance D s).length = s.length ∧
    (updateAdvance D s).currentChar = s.currentChar := by
  unfold updateAdvance; simp only [prepareSearchCommand]; (repeat' split) <;> simp

theorem updateLane_fields (D : Desc) (s : St) :
    (updateLane D s).index = s.index ∧ (updateLane D s).length = s.length ∧
    (updateLane D s).currentChar = s.currentChar ∧ (updateLane D s).state = s.state ∧
    (updateLane D s).cmdType = s.cmdType := by
  unfold updateLane; simp only [getCmdState]; (repeat' split) <;> simp_all [setCmdState]

/-- the next entry, while the sweep is inside the table -/
theorem updateCommand_inner (D : Desc) (s : St) (h : s.index + 1 < D.commandsNum) :
    (updateCommand D s).1.index = s.index + 1 ∧ (updateCommand D s).1.state = s.state := by
  have ⟨a, _, _, d, _⟩ := updateLane_fields D (s.chkUb (decide (s.index < D.commandsNum)))
  simp only [chkUb_ctl] at a d
  unfold updateCommand updateAdvance
  simp only [a, d]
  have : ¬ s.index + 1 ≥ D.commandsNum := by omega
  simp [this]

/-- the last entry: the cursor returns to 0; the parser goes back to reading the name, or — when an
implicit-write command has just been matched in full — to the search, as a WRITE request -/
theorem updateCommand_last (D : Desc) (s : St) (h : s.index + 1 = D.commandsNum) :
    (updateCommand D s).1.index = 0 ∧
    (((updateCommand D s).1.state = .parseCommandChar ∧ (updateCommand D s).1.cmdType = s.cmdType) ∨
     ((updateCommand D s).1.state = .searchCommand ∧ (updateCommand D s).1.cmdType = .write ∧
      (updateCommand D s).1.partialCntr = 0 ∧ (updateCommand D s).1.cmd = none)) := by
  have ⟨a, _, _, d, e⟩ := updateLane_fields D (s.chkUb (decide (s.index < D.commandsNum)))
  simp only [chkUb_ctl] at a d e
  unfold updateCommand updateAdvance
  simp only [a, d]
  have : s.index + 1 ≥ D.commandsNum := by omega
  simp only [this, if_true, prepareSearchCommand]
  split <;> simp [e]

/-- **One step of the sweep** -/
theorem updateCommand_sweep (D : Desc) (s : St) (typed : List Byte) (ch : Byte)
    (hcap : D.commandsNum ≤ 4 * D.cmdCap) (hbuf : D.cmdCap ≤ s.buf.length)
    (hidx : s.index < D.commandsNum) (hlen : s.length = typed.length + 1) (hch : s.currentChar = ch)
    (h : Sweep D s typed ch s.index) :
    Sweep D (updateCommand D s).1 typed ch (s.index + 1) ∧
    (updateCommand D s).1.length = s.length ∧ (updateCommand D s).1.currentChar = s.currentChar ∧
    (updateCommand D s).1.buf.length = s.buf.length := by
  unfold updateCommand
  simp only
  generalize hs0 : s.chkUb (decide (s.index < D.commandsNum)) = s0
  have e : s0.buf = s.buf ∧ s0.index = s.index ∧ s0.length = s.length ∧ s0.currentChar = s.currentChar := by
    subst hs0; simp
  have h0 : Sweep D s0 typed ch s0.index := by
    intro j hj; rw [laneOf_congr D s0 s j e.1, e.2.1]; exact h j hj
  have h1 := updateLane_sweep D s0 typed ch hcap (by rw [e.1]; exact hbuf) (by rw [e.2.1]; exact hidx)
    (by rw [e.2.2.1]; exact hlen) (by rw [e.2.2.2]; exact hch) h0
  have ⟨f1, f2, f3⟩ := updateAdvance_fields D (updateLane D s0)
  have ⟨g1, g2, g3, _, _⟩ := updateLane_fields D s0
  refine ⟨?_, by rw [f2, g2, e.2.2.1], by rw [f3, g3, e.2.2.2], by rw [f1, updateLane_len, e.1]⟩
  intro j hj
  rw [laneOf_congr D _ _ j f1, h1 j hj, e.2.1]

/-! ### the whole sweep -/

/-- `n` consecutive `update_command` steps (the parser stays in `UPDATE_COMMAND_STATE` meanwhile) -/
def updateIter (D : Desc) : Nat → St → St
  | 0, s => s
  | n + 1, s => (updateCommand D (updateIter D n s)).1

theorem updateIter_partial (D : Desc) (typed : List Byte) (ch : Byte) (s : St)
    (hcap : D.commandsNum ≤ 4 * D.cmdCap) (hbuf : D.cmdCap ≤ s.buf.length)
    (hlen : s.length = typed.length + 1) (hch : s.currentChar = ch) (hi0 : s.index = 0)
    (h : Lanes D s typed) : ∀ n, n < D.commandsNum →
    (updateIter D n s).index = n ∧ Sweep D (updateIter D n s) typed ch n ∧
    (updateIter D n s).length = s.length ∧ (updateIter D n s).currentChar = s.currentChar ∧
    (updateIter D n s).buf.length = s.buf.length ∧ (updateIter D n s).state = s.state := by
  intro n
  induction n with
  | zero =>
    intro _
    refine ⟨hi0, ?_, rfl, rfl, rfl, rfl⟩
    intro j hj; simp only [Nat.not_lt_zero, if_false]; exact h j hj
  | succ n ih =>
    intro hn
    have ⟨a, b, c, d, e, f⟩ := ih (by omega)
    have hs := updateCommand_sweep D (updateIter D n s) typed ch hcap (by omega) (by omega) (by omega) (by rw [d, hch]) (by rw [a]; exact b)
    have hi := updateCommand_inner D (updateIter D n s) (by omega)
    simp only [updateIter]
    rw [a] at hs hi
    exact ⟨hi.1, hs.1, by rw [hs.2.1, c], by rw [hs.2.2.1, d], by rw [hs.2.2.2, e], by rw [hi.2, f]⟩

/-- **A whole sweep of `update_command` computes the match states for one more character.**
Starting with the table reflecting `typed` and the cursor at 0, after `commandsNum` steps the
table reflects `typed ++ [ch]`, the cursor is back at 0 and the parser is either reading the name
again or (an implicit-write command was matched in full) starts the search as a WRITE request. -/
theorem sweep_total (D : Desc) (typed : List Byte) (ch : Byte) (s : St)
    (hcap : D.commandsNum ≤ 4 * D.cmdCap) (hbuf : D.cmdCap ≤ s.buf.length) (hnum : 0 < D.commandsNum)
    (hlen : s.length = typed.length + 1) (hch : s.currentChar = ch) (hi0 : s.index = 0)
    (h : Lanes D s typed) :
    let s' := updateIter D D.commandsNum s
    Lanes D s' (typed ++ [ch]) ∧ s'.index = 0 ∧ s'.length = s.length ∧
    ((s'.state = .parseCommandChar ∧ s'.cmdType = (updateIter D (D.commandsNum - 1) s).cmdType) ∨
     (s'.state = .searchCommand ∧ s'.cmdType = .write ∧ s'.partialCntr = 0 ∧ s'.cmd = none)) := by
  obtain ⟨m, hm⟩ : ∃ m, D.commandsNum = m + 1 := ⟨D.commandsNum - 1, by omega⟩
  have ⟨a, b, c, d, e, _⟩ := updateIter_partial D typed ch s hcap hbuf hlen hch hi0 h m (by omega)
  have hs := updateCommand_sweep D (updateIter D m s) typed ch hcap (by omega) (by omega) (by omega) (by rw [d, hch]) (by rw [a]; exact b)
  have hl := updateCommand_last D (updateIter D m s) (by omega)
  rw [a] at hs
  simp only [hm, updateIter, Nat.add_sub_cancel]
  refine ⟨?_, hl.1, by rw [hs.2.1, c], hl.2⟩
  intro j hj
  rw [hs.1 j hj, if_pos (by omega)]

/-! ### the search loop -/

/-- `search_command` repeated while the parser stays in `SEARCH_COMMAND` -/
def searchIter (D : Desc) : Nat → St → St
  | 0, s => s
  | f + 1, s => if s.state = .searchCommand then searchIter D f (searchCommand D s).1 else s

theorem searchCommand_buf (D : Desc) (s : St) :
    (searchCommand D s).1.buf = s.buf ∧ (searchCommand D s).1.cmdType = s.cmdType ∧
    (searchCommand D s).1.currentChar = s.currentChar ∧ (searchCommand D s).1.length = s.length := by
  unfold searchCommand
  simp only [getCmdState, notFoundOrError]
  (repeat' split) <;> simp_all

theorem getCmdState_fst (D : Desc) (s : St) (i : Nat) : ∃ c, (getCmdState D s i).1 = s.chk c := by
  unfold getCmdState
  split
  · exact ⟨true, rfl⟩
  · exact ⟨_, rfl⟩

/-- the states in which the search gives up -/
def NotFound (s : St) : Prop := s.state = .commandNotFound ∨ s.state = .error

/-- one search step, case by case on the entry under the cursor -/
theorem searchCommand_step (D : Desc) (s s' : St) (st : Nat) (hst0 : st = laneOf D s s.index)
    (hs' : s' = (searchCommand D s).1) :
    (st = 2 → s'.state = .commandFound ∧ s'.cmd = some s.index) ∧
    (st = 1 → s.cmd.isSome → s.index + 1 = D.commandsNum → NotFound s') ∧
    (st = 1 → ¬ (s.cmd.isSome ∧ s.index + 1 = D.commandsNum) →
        s'.cmd = some s.index ∧ s'.partialCntr = s.partialCntr + 1 ∧ s'.index = s.index + 1 ∧
        (s.index + 1 < D.commandsNum → s'.state = s.state) ∧
        (s.index + 1 ≥ D.commandsNum → (s.partialCntr = 0 → s'.state = .commandFound) ∧ (s.partialCntr ≠ 0 → NotFound s'))) ∧
    (st ≠ 1 → st ≠ 2 →
        s'.cmd = s.cmd ∧ s'.partialCntr = s.partialCntr ∧ s'.index = s.index + 1 ∧
        (s.index + 1 < D.commandsNum → s'.state = s.state) ∧
        (s.index + 1 ≥ D.commandsNum →
          (s.cmd.isSome → s.partialCntr = 1 → s'.state = .commandFound) ∧
          (¬ (s.cmd.isSome ∧ s.partialCntr = 1) → NotFound s'))) := by
  obtain ⟨c, hc⟩ := getCmdState_fst D (s.chkUb (decide (s.index < D.commandsNum))) s.index
  have hst : (getCmdState D (s.chkUb (decide (s.index < D.commandsNum))) s.index).2 = st := by
    rw [hst0]; exact laneOf_congr D _ s s.index (by simp)
  unfold searchCommand at hs'
  simp only [chkUb_ctl] at hs'
  have hg : getCmdState D (s.chkUb (decide (s.index < D.commandsNum))) s.index =
      ((s.chkUb (decide (s.index < D.commandsNum))).chk c, st) := by rw [← hc, ← hst]
  rw [hg] at hs'
  simp only [chk_ctl, chkUb_ctl, notFoundOrError] at hs'
  unfold NotFound
  refine ⟨?_, ?_, ?_, ?_⟩
  · intro h2
    subst hs'
    simp [h2]
  · intro h1 hc1 hn
    subst hs'
    simp [h1, hc1, hn]
    by_cases h10 : s.currentChar = 10 <;> simp [h10]
  · intro h1 hn
    subst hs'
    subst h1
    have hn' : (s.cmd.isSome && s.index + 1 == D.commandsNum) = false := by
      cases hh : s.cmd.isSome <;> simp_all
    simp [hn']
    refine ⟨?_, ?_, ?_, ?_, ?_⟩
    · (repeat' split) <;> simp
    · (repeat' split) <;> simp
    · (repeat' split) <;> simp
    · intro hlt
      have : ¬ D.commandsNum ≤ s.index + 1 := by omega
      simp [this]
    · intro hge
      simp [hge]
      refine ⟨?_, ?_⟩
      · intro h0; simp [h0]
      · intro h0; simp [h0]; by_cases h10 : s.currentChar = 10 <;> simp [h10]
  · intro h1 h2
    subst hs'
    have e1 : (st == 1) = false := by simpa using h1
    have e2 : (st == 2) = false := by simpa using h2
    simp [e1, e2]
    refine ⟨?_, ?_, ?_, ?_, ?_⟩
    · (repeat' split) <;> simp
    · (repeat' split) <;> simp
    · (repeat' split) <;> simp
    · intro hlt
      have : ¬ D.commandsNum ≤ s.index + 1 := by omega
      simp [this]
    · intro hge
      simp [hge]
      refine ⟨?_, ?_⟩
      · intro hs h1c
        cases hcm : s.cmd <;> simp_all
      · intro hnn
        cases hcm : s.cmd
        · simp; by_cases h10 : s.currentChar = 10 <;> simp [h10]
        · simp [hcm] at hnn
          simp [hnn]; by_cases h10 : s.currentChar = 10 <;> simp [h10]

theorem searchIter_stop (D : Desc) (f : Nat) (s : St) (h : s.state ≠ .searchCommand) : searchIter D f s = s := by
  cases f <;> simp [searchIter, h]

theorem NotFound.stop {s : St} (h : NotFound s) : s.state ≠ .searchCommand := by
  rcases h with h | h <;> rw [h] <;> decide

/-- **The search loop computes `resolveFrom`.** -/
theorem searchIter_spec (D : Desc) (L : Nat → Nat) : ∀ (f : Nat) (s : St),
    s.state = .searchCommand → s.index + f = D.commandsNum → 0 < f →
    (∀ j, laneOf D s j = L j) → (s.cmd.isSome ↔ s.partialCntr ≥ 1) →
    (searchIter D f s).buf = s.buf ∧ (searchIter D f s).cmdType = s.cmdType ∧
    (∀ j, Spec.resolveFrom L f s.index s.partialCntr s.cmd = some j →
        (searchIter D f s).state = .commandFound ∧ (searchIter D f s).cmd = some j) ∧
    (Spec.resolveFrom L f s.index s.partialCntr s.cmd = none → NotFound (searchIter D f s)) := by
  intro f
  induction f with
  | zero => intro s _ _ h; omega
  | succ f ih =>
    intro s hst hidx _ hL hinv
    have ⟨c2, c1a, c1b, c0⟩ := searchCommand_step D s _ _ rfl rfl
    have ⟨b1, b2, _, _⟩ := searchCommand_buf D s
    rw [hL s.index] at c2 c1a c1b c0
    simp only [searchIter, hst, if_true, Spec.resolveFrom]
    have hL' : ∀ j, laneOf D (searchCommand D s).1 j = L j := fun j => by rw [laneOf_congr D _ s j b1]; exact hL j
    by_cases h2 : L s.index = 2
    · have ⟨x1, x2⟩ := c2 h2
      rw [searchIter_stop D f _ (by rw [x1]; decide), if_pos h2]
      refine ⟨b1, b2, ?_, by intro h; cases h⟩
      intro j hj; cases hj; exact ⟨x1, x2⟩
    · rw [if_neg h2]
      by_cases h1 : L s.index = 1
      · rw [if_pos h1]
        by_cases hlast : s.cmd.isSome ∧ s.index + 1 = D.commandsNum
        · have nf := c1a h1 hlast.1 hlast.2
          rw [searchIter_stop D f _ nf.stop]
          have hf : f = 0 := by omega
          subst hf
          have : ¬ s.partialCntr + 1 = 1 := by have := hinv.1 hlast.1; omega
          simp only [Spec.resolveFrom, this, if_false]
          exact ⟨b1, b2, (by intro j h; cases h), fun _ => nf⟩
        · have ⟨x1, x2, x3, x4, x5⟩ := c1b h1 hlast
          by_cases hf : f = 0
          · subst hf
            have hn : s.cmd.isSome = false := by
              cases hh : s.cmd.isSome
              · rfl
              · exact absurd ⟨hh, by omega⟩ hlast
            have hc0 : s.partialCntr = 0 := by
              cases hz : s.partialCntr with
              | zero => rfl
              | succ m => have := hinv.2 (by omega); rw [hn] at this; cases this
            have y := (x5 (by omega)).1 hc0
            simp only [searchIter, Spec.resolveFrom, hc0, Nat.zero_add, if_true]
            refine ⟨b1, b2, ?_, by intro h; cases h⟩
            intro j hj; cases hj; exact ⟨y, x1⟩
          · have y := x4 (by omega)
            have := ih (searchCommand D s).1 (by rw [y, hst]) (by rw [x3]; omega) (by omega) hL' (by rw [x1, x2]; simp)
            rw [x1, x2, x3, b1, b2] at this
            exact this
      · rw [if_neg h1]
        have ⟨x1, x2, x3, x4, x5⟩ := c0 h1 h2
        by_cases hf : f = 0
        · subst hf
          simp only [searchIter, Spec.resolveFrom]
          have z := x5 (by omega)
          by_cases hc1 : s.partialCntr = 1
          · have hs : s.cmd.isSome = true := hinv.2 (by omega)
            rw [if_pos hc1]
            refine ⟨b1, b2, ?_, ?_⟩
            · intro j hj; exact ⟨z.1 hs hc1, by rw [x1, hj]⟩
            · intro hnone; rw [hnone] at hs; cases hs
          · rw [if_neg hc1]
            exact ⟨b1, b2, (by intro j h; cases h), fun _ => z.2 (fun h => hc1 h.2)⟩
        · have y := x4 (by omega)
          have := ih (searchCommand D s).1 (by rw [y, hst]) (by rw [x3]; omega) (by omega) hL' (by rw [x1, x2]; exact hinv)
          rw [x1, x2, x3, b1, b2] at this
          exact this

theorem resolveFrom_congr (L L' : Nat → Nat) : ∀ (f k cnt : Nat) (last : Option Nat),
    (∀ j, k ≤ j → j < k + f → L j = L' j) → Spec.resolveFrom L f k cnt last = Spec.resolveFrom L' f k cnt last := by
  intro f
  induction f with
  | zero => intro k cnt last _; rfl
  | succ f ih =>
    intro k cnt last h
    simp only [Spec.resolveFrom]
    rw [h k (by omega) (by omega), ih (k + 1) (cnt + 1) (some k) (fun j a b => h j (by omega) (by omega)),
      ih (k + 1) cnt last (fun j a b => h j (by omega) (by omega))]

/-- **The whole search**: entered with the cursor at 0, no candidate and the table reflecting
`typed`, the loop ends in `COMMAND_FOUND` with exactly the entry `Spec.resolve` selects, or gives
up when `Spec.resolve` selects nothing; the request type is untouched. -/
theorem search_total (D : Desc) (typed : List Byte) (s : St) (hnum : 0 < D.commandsNum)
    (hst : s.state = .searchCommand) (hi0 : s.index = 0) (hc0 : s.partialCntr = 0) (hcmd : s.cmd = none)
    (h : Lanes D s typed) :
    let s' := searchIter D D.commandsNum s
    s'.cmdType = s.cmdType ∧ s'.buf = s.buf ∧
    (∀ j, Spec.resolve (Spec.lane D typed) D.commandsNum = some j → s'.state = .commandFound ∧ s'.cmd = some j) ∧
    (Spec.resolve (Spec.lane D typed) D.commandsNum = none → NotFound s') := by
  have := searchIter_spec D (laneOf D s) D.commandsNum s hst (by omega) hnum (fun _ => rfl) (by rw [hcmd, hc0]; simp)
  rw [hi0, hc0, hcmd, resolveFrom_congr (laneOf D s) (Spec.lane D typed) D.commandsNum 0 0 none
    (fun j _ hj => h j (by omega))] at this
  exact ⟨this.2.1, this.1, this.2.2⟩

/-! ### reading the match states -/

theorem matchName_two (name typed : List Byte) : Spec.matchName name typed = 2 ↔ name.map toUpper = typed := by
  unfold Spec.matchName
  constructor
  · intro h
    split at h
    · rename_i hp
      split at h
      · rename_i hl
        have := hp.2
        rw [hl, ← List.length_map (f := toUpper), List.take_length] at this
        exact this
      · omega
    · omega
  · intro h
    subst h
    have : List.take name.length (List.map toUpper name) = List.map toUpper name := by
      rw [← List.length_map (f := toUpper), List.take_length]
    simp [this]

theorem matchName_one (name typed : List Byte) :
    Spec.matchName name typed = 1 ↔ typed.length < name.length ∧ (name.map toUpper).take typed.length = typed := by
  unfold Spec.matchName
  constructor
  · intro h
    split at h
    · rename_i hp
      split at h
      · omega
      · exact ⟨by omega, hp.2⟩
    · omega
  · intro ⟨h1, h2⟩
    rw [if_pos ⟨by omega, h2⟩, if_neg (by omega)]

/-! ### the initial table -/

theorem writeB_cmd_getD (D : Desc) : ∀ (bs : List Byte) (i0 : Nat) (s : St),
    i0 + bs.length ≤ D.cmdCap → D.cmdCap ≤ s.buf.length → ∀ i,
    (writeB D s .cmd i0 bs).buf.getD i 0 =
      if i0 ≤ i ∧ i < i0 + bs.length then bs.getD (i - i0) 0 else s.buf.getD i 0 := by
  intro bs
  induction bs with
  | nil => intro i0 s _ _ i; simp [writeB]; omega
  | cons b r ih =>
    intro i0 s h1 h2 i
    simp only [List.length_cons] at h1
    have hc : i0 < D.capOf .cmd := by show i0 < D.cmdCap; omega
    simp only [writeB]
    have hs : (setB D s .cmd i0 b).buf = s.buf.set i0 b := by simp [setB, hc]
    rw [ih (i0 + 1) _ (by omega) (by rw [hs]; simpa using h2) i, hs]
    by_cases e : i = i0
    · subst e
      have : ¬ (i + 1 ≤ i ∧ i < i + 1 + r.length) := by omega
      rw [if_neg this, if_pos (by simp only [List.length_cons]; omega)]
      simp [List.getD, show i < s.buf.length by omega]
    · by_cases hin : i0 + 1 ≤ i ∧ i < i0 + 1 + r.length
      · rw [if_pos hin, if_pos (by simp only [List.length_cons]; omega)]
        have : i - i0 = (i - (i0 + 1)) + 1 := by omega
        rw [this]; simp [List.getD]
      · rw [if_neg hin, if_neg (by simp only [List.length_cons]; omega)]
        simp [List.getD, Ne.symm e]

/-- after `prepare_parse_command` every enabled entry is a candidate -/
theorem prepareParseCommand_lanes (D : Desc) (s : St)
    (hcap : D.commandsNum ≤ 4 * D.cmdCap) (hbuf : D.cmdCap ≤ s.buf.length) :
    Lanes D (prepareParseCommand D s) [] := by
  intro j hj
  unfold Spec.lane
  cases hd : disabledByIndex D.groups j
  · simp only [Bool.false_eq_true, if_false, if_true]
    rw [laneOf_enabled D _ j hd]
    unfold prepareParseCommand getB
    simp only
    rw [writeB_cmd_getD D _ 0 s (by simp) hbuf (j / 4)]
    rw [if_pos (by simp; omega)]
    simp only [Nat.sub_zero, List.getD, List.getElem?_replicate, show j / 4 < D.cmdCap by omega, if_true, Option.getD_some]
    rw [laneGet_mod]
    exact lanesInit_all_partial (j % 4) (Nat.mod_lt _ (by decide))
  · simp [laneOf_disabled D _ j hd]

end Cat
