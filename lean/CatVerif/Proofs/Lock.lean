/-
  Abstract semantics of threads calling a lock-protected API (C17).  A thread runs a list of
  operations; an operation is `acquire; step₁; …; stepₙ; release` where the steps are the
  individual (non-atomic) accesses of the operation's body to the shared state.  The lock is a
  single non-recursive mutex.  The scheduler picks any thread at any time.
-/
namespace Cat.Lock

variable {σ ω : Type}

/-- the body of one API call as a sequence of accesses to the shared state -/
abbrev Body (σ : Type) := List (σ → σ)

def runBody (b : Body σ) (s : σ) : σ := b.foldl (fun acc f => f acc) s

structure Thread (σ ω : Type) where
  todo : List ω                     -- API calls not yet started
  cur : Option (ω × Body σ)         -- the call in progress (lock held) and its remaining steps

structure Cfg (σ ω : Type) where
  sh : σ                            -- the shared object
  threads : List (Thread σ ω)
  done : List ω                     -- ghost: completed calls, in order of acquisition
  part : Body σ                     -- ghost: steps of the call in progress already executed

/-- one scheduling decision: thread `i` takes its next step if it can (otherwise nothing happens:
a thread blocked on the lock just waits) -/
def step (sem : ω → Body σ) (c : Cfg σ ω) (i : Nat) : Cfg σ ω :=
  match c.threads[i]? with
  | none => c
  | some t =>
    match t.cur with
    | none =>
      -- wants to acquire: possible only if nobody holds the lock
      if c.threads.all (fun u => u.cur.isNone) then
        match t.todo with
        | [] => c
        | o :: rest => { c with threads := c.threads.set i { todo := rest, cur := some (o, sem o) }, part := [] }
      else c
    | some (o, []) =>
      -- release
      { c with threads := c.threads.set i { t with cur := none }, done := c.done ++ [o], part := [] }
    | some (o, f :: fs) =>
      { c with sh := f c.sh, threads := c.threads.set i { t with cur := some (o, fs) }, part := c.part ++ [f] }

def run (sem : ω → Body σ) (c : Cfg σ ω) (sched : List Nat) : Cfg σ ω := sched.foldl (step sem) c

/-- at most one thread is inside an operation -/
def Excl (c : Cfg σ ω) : Prop :=
  ∀ (i j : Nat) (ti tj : Thread σ ω), c.threads[i]? = some ti → c.threads[j]? = some tj → ti.cur.isSome → tj.cur.isSome → i = j

/-- the shared state is what the completed operations, run one after the other in acquisition
order, followed by the executed part of the operation in progress, produce -/
def Lin (sem : ω → Body σ) (s0 : σ) (c : Cfg σ ω) : Prop :=
  c.sh = runBody c.part (c.done.foldl (fun s o => runBody (sem o) s) s0) ∧
  ((∀ t ∈ c.threads, t.cur.isNone) → c.part = []) ∧
  (∀ t ∈ c.threads, ∀ o rem, t.cur = some (o, rem) → c.part ++ rem = sem o)

theorem all_none_iff (ts : List (Thread σ ω)) :
    ts.all (fun u => u.cur.isNone) = true ↔ ∀ t ∈ ts, t.cur.isNone := by
  simp [List.all_eq_true]

theorem step_excl (sem : ω → Body σ) (c : Cfg σ ω) (i : Nat) (h : Excl c) : Excl (step sem c i) := by
  unfold step
  cases hti : c.threads[i]? with
  | none => simpa [hti] using h
  | some t =>
    simp only [hti]
    cases hc : t.cur with
    | none =>
      simp only
      split
      · rename_i hall
        rw [all_none_iff] at hall
        cases htd : t.todo with
        | nil => simpa using h
        | cons b rest =>
          simp only
          unfold Excl
          intro a b' ta tb ha hb hca hcb
          simp only [List.getElem?_set] at ha hb
          -- every thread other than i has cur = none
          have other : ∀ k tk, k ≠ i → c.threads[k]? = some tk → tk.cur.isSome → False := by
            intro k tk _ hk hs
            have := hall tk (List.mem_of_getElem? hk)
            simp [Option.isNone_iff_eq_none] at this
            simp [this] at hs
          by_cases hai : i = a
          · by_cases hbi : i = b'
            · omega
            · simp [hbi] at hb
              exact absurd hcb (fun hs => other b' tb (Ne.symm hbi) hb hs)
          · simp [hai] at ha
            exact absurd hca (fun hs => other a ta (Ne.symm hai) ha hs)
      · simpa using h
    | some ob =>
      obtain ⟨o, body⟩ := ob
      cases body with
      | nil =>
        simp only
        unfold Excl
        intro a b ta tb ha hb hca hcb
        simp only [List.getElem?_set] at ha hb
        by_cases hai : i = a
        · subst hai
          have hlt : i < c.threads.length := by
            have := List.getElem?_eq_some_iff.mp hti; exact this.1
          simp [hlt] at ha; subst ha; simp at hca
        · by_cases hbi : i = b
          · subst hbi
            have hlt : i < c.threads.length := (List.getElem?_eq_some_iff.mp hti).1
            simp [hlt] at hb; subst hb; simp at hcb
          · simp [hai] at ha; simp [hbi] at hb
            exact h a b ta tb ha hb hca hcb
      | cons f fs =>
        simp only
        unfold Excl
        intro a b ta tb ha hb hca hcb
        simp only [List.getElem?_set] at ha hb
        have hlt : i < c.threads.length := (List.getElem?_eq_some_iff.mp hti).1
        have hcur : t.cur.isSome := by simp [hc]
        by_cases hai : i = a
        · by_cases hbi : i = b
          · omega
          · simp [hbi] at hb
            exact (h i b t tb hti hb hcur hcb).symm ▸ (by omega)
        · simp [hai] at ha
          by_cases hbi : i = b
          · exact h a i ta t ha hti hca hcur ▸ (by omega)
          · simp [hbi] at hb
            exact h a b ta tb ha hb hca hcb

theorem runBody_append (a b : Body σ) (s : σ) : runBody (a ++ b) s = runBody b (runBody a s) := by
  simp [runBody, List.foldl_append]

/-- membership in an updated list, by index -/
theorem mem_set_index {α : Type} (l : List α) (i : Nat) (x y : α) (h : y ∈ l.set i x) :
    (y = x ∧ i < l.length) ∨ ∃ k, k ≠ i ∧ l[k]? = some y := by
  obtain ⟨k, hk⟩ := List.mem_iff_getElem?.mp h
  rw [List.getElem?_set] at hk
  by_cases hik : i = k
  · subst hik
    by_cases hl : i < l.length
    · simp [hl] at hk; exact Or.inl ⟨hk.symm, hl⟩
    · simp [hl] at hk
  · simp [hik] at hk; exact Or.inr ⟨k, fun h => hik h.symm, hk⟩

theorem step_lin (sem : ω → Body σ) (s0 : σ) (c : Cfg σ ω) (i : Nat) (hx : Excl c) (h : Lin sem s0 c) : Lin sem s0 (step sem c i) := by
  obtain ⟨h1, h2, h3⟩ := h
  unfold step
  cases hti : c.threads[i]? with
  | none => exact ⟨h1, h2, h3⟩
  | some t =>
    simp only
    have hlt : i < c.threads.length := (List.getElem?_eq_some_iff.mp hti).1
    have hmem : t ∈ c.threads := List.mem_of_getElem? hti
    -- while thread `i` is inside a call, no thread at another index is
    have others : t.cur.isSome → ∀ k u, k ≠ i → c.threads[k]? = some u → u.cur = none := by
      intro ht k u hk hu
      cases hcu : u.cur with
      | none => rfl
      | some x => exact absurd (hx k i u t hu hti (by simp [hcu]) ht) hk
    cases hc : t.cur with
    | none =>
      simp only
      split
      · rename_i hall
        rw [all_none_iff] at hall
        cases htd : t.todo with
        | nil => exact ⟨h1, h2, h3⟩
        | cons o rest =>
          simp only
          have hp := h2 hall
          refine ⟨by rw [h1, hp], fun _ => rfl, ?_⟩
          intro u hu o' rem hcu
          rcases mem_set_index _ _ _ _ hu with ⟨rfl, _⟩ | ⟨k, _, hk⟩
          · simp at hcu; obtain ⟨rfl, rfl⟩ := hcu; simp
          · have := hall u (List.mem_of_getElem? hk); simp [hcu] at this
      · exact ⟨h1, h2, h3⟩
    | some ob =>
      obtain ⟨o, body⟩ := ob
      have htsome : t.cur.isSome := by simp [hc]
      cases body with
      | nil =>
        simp only
        have hpo := h3 t hmem o [] hc
        simp at hpo
        refine ⟨?_, fun _ => rfl, ?_⟩
        · rw [h1, hpo]; simp [runBody, List.foldl_append]
        · intro u hu o' rem hcu
          rcases mem_set_index _ _ _ _ hu with ⟨rfl, _⟩ | ⟨k, hki, hk⟩
          · simp at hcu
          · have := others htsome k u hki hk; rw [this] at hcu; simp at hcu
      | cons f fs =>
        simp only
        have hpo := h3 t hmem o (f :: fs) hc
        refine ⟨by rw [h1, runBody_append]; simp [runBody], ?_, ?_⟩
        · intro hall
          have := hall { t with cur := some (o, fs) } (by
            apply List.mem_iff_getElem?.mpr
            exact ⟨i, by simp [hlt]⟩)
          simp at this
        · intro u hu o' rem hcu
          rcases mem_set_index _ _ _ _ hu with ⟨rfl, _⟩ | ⟨k, hki, hk⟩
          · simp at hcu; obtain ⟨rfl, rfl⟩ := hcu
            rw [← hpo]; simp
          · have := others htsome k u hki hk; rw [this] at hcu; simp at hcu

/-- **Mutual exclusion** along every schedule -/
theorem mutual_exclusion (sem : ω → Body σ) (c : Cfg σ ω) (sched : List Nat) (h : Excl c) : Excl (run sem c sched) := by
  unfold run
  induction sched generalizing c with
  | nil => simpa using h
  | cons i r ih => simp only [List.foldl_cons]; exact ih (step sem c i) (step_excl sem c i h)

/-- **Linearizability**: along every schedule the shared object is in the state that the operations
completed so far, executed one at a time in the order in which they acquired the lock (followed by
the executed prefix of the one in progress), produce from the initial state. -/
theorem linearizable (sem : ω → Body σ) (s0 : σ) (c : Cfg σ ω) (sched : List Nat) (hx : Excl c) (h : Lin sem s0 c) : Lin sem s0 (run sem c sched) := by
  unfold run
  induction sched generalizing c with
  | nil => simpa using h
  | cons i r ih =>
    simp only [List.foldl_cons]
    exact ih (step sem c i) (step_excl sem c i hx) (step_lin sem s0 c i hx h)

/-- initial configuration: nobody inside, nothing done -/
def start (s0 : σ) (progs : List (List ω)) : Cfg σ ω :=
  { sh := s0, threads := progs.map (fun p => { todo := p, cur := none }), done := [], part := [] }

theorem start_ok (sem : ω → Body σ) (s0 : σ) (progs : List (List ω)) : Excl (start s0 progs : Cfg σ ω) ∧ Lin sem s0 (start s0 progs) := by
  constructor
  · unfold Excl
    intro i j ti tj hi _ hci _
    simp [start, List.getElem?_map] at hi
    obtain ⟨p, _, rfl⟩ := hi
    simp at hci
  · refine ⟨by simp [start, runBody], fun _ => rfl, ?_⟩
    intro t ht o rem hc
    simp [start] at ht
    obtain ⟨p, _, rfl⟩ := ht
    simp at hc

/-- **Invariants of the sequential API carry over to threads**: if a predicate on the shared object
holds initially and is preserved by every complete operation body, then at every point of every
interleaving at which no thread is inside an operation, it holds. -/
theorem sequential_invariant_transfers (sem : ω → Body σ) (P : σ → Prop) (s0 : σ) (progs : List (List ω)) (sched : List Nat)
    (h0 : P s0) (hop : ∀ o s, P s → P (runBody (sem o) s))
    (hq : ∀ t ∈ (run sem (start s0 progs) sched).threads, t.cur.isNone) :
    P (run sem (start s0 progs) sched).sh := by
  have ⟨hx, hl⟩ := start_ok sem s0 progs
  have := linearizable sem s0 (start s0 progs) sched hx hl
  obtain ⟨h1, h2, _⟩ := this
  rw [h1, h2 hq]
  simp only [runBody, List.foldl_nil]
  generalize (run sem (start s0 progs) sched).done = d
  have gen : ∀ (d : List ω) (s : σ), P s → P (d.foldl (fun s o => runBody (sem o) s) s) := by
    intro d
    induction d with
    | nil => intro s hs; simpa using hs
    | cons b r ih => intro s hs; simp only [List.foldl_cons]; exact ih _ (hop b s hs)
  exact gen d s0 h0

end Cat.Lock
