/-
  Frame facts for whole steps: the command machine never touches the unsolicited machine's
  control fields, and vice versa (except that a handler run by the unsolicited machine may
  request HOLD, which is excluded by hypothesis where it matters; DESIGN.md 2.3).
-/
import CatVerif.Proofs.Ctl
namespace Cat
open St

/-- the unsolicited machine's control fields and position -/
@[simp] abbrev KeepsU (s s' : St) : Prop := SameU' s s' ∧ s'.uposition = s.uposition
/-- the command machine's control fields and position -/
@[simp] abbrev KeepsC (s s' : St) : Prop := SameC' s s' ∧ s'.position = s.position

macro "crunch" : tactic => `(tactic| (try simp) <;> (try ((repeat' split) <;> simp_all)))

/-! ### nested calls keep the other machine's position -/

@[simp] theorem applyNested_pos_other (D : Desc) (canEdit : Bool) (acts : List Nested) : ∀ s : St,
    (applyNested D .cmd canEdit s acts).uposition = s.uposition ∧
    (applyNested D .uns canEdit s acts).position = s.position := by
  induction acts with
  | nil => intro s; simp [applyNested]
  | cons a r ih =>
    intro s
    cases a <;> simp only [applyNested, withMutex] <;> (repeat' split) <;> simp_all

/-! ### level 1 -/

@[simp] theorem readCmdChar_frame (s : St) (i : SvcIn) :
    KeepsU s (readCmdChar s i).1 ∧ SameH s (readCmdChar s i).1 ∧ SameR s (readCmdChar s i).1 ∧
    SameMem s (readCmdChar s i).1 ∧ SameBuf s (readCmdChar s i).1 ∧
    (readCmdChar s i).1.state = s.state ∧ (readCmdChar s i).1.position = s.position ∧
    (readCmdChar s i).1.index = s.index ∧ (readCmdChar s i).1.length = s.length ∧
    (readCmdChar s i).1.cmd = s.cmd ∧ (readCmdChar s i).1.cmdType = s.cmdType ∧
    (readCmdChar s i).1.crFlag = s.crFlag ∧ (readCmdChar s i).1.writeStateAfter = s.writeStateAfter ∧
    (readCmdChar s i).1.implicitWriteFlag = s.implicitWriteFlag ∧ (readCmdChar s i).1.partialCntr = s.partialCntr := by
  unfold readCmdChar; split <;> simp

@[simp] theorem ackError_U (D : Desc) (s : St) : KeepsU s (ackError D s) := by simp [ackError, startFlush]
@[simp] theorem ackOk_U (D : Desc) (s : St) : KeepsU s (ackOk D s) := by simp [ackOk, startFlush]
@[simp] theorem startFlush_cmd_U (s : St) (a : After) : KeepsU s (startFlush s .cmd a) := by simp [startFlush]
@[simp] theorem startFlushRaw_U (s : St) (a : After) : KeepsU s (startFlushRaw s a) := by simp [startFlushRaw]
@[simp] theorem endError_cmd_U (D : Desc) (s : St) : KeepsU s (endError D s .cmd) := by simp [endError]
@[simp] theorem endOk_cmd_U (D : Desc) (s : St) : KeepsU s (endOk D s .cmd) := by simp [endOk]
@[simp] theorem resetState_U (s : St) : KeepsU s (resetState s) := by unfold resetState; crunch
@[simp] theorem enableHoldState_U (s : St) : KeepsU s (enableHoldState s) := by simp [enableHoldState]
@[simp] theorem prepareParseCommand_U (D : Desc) (s : St) : KeepsU s (prepareParseCommand D s) := by simp [prepareParseCommand]
@[simp] theorem prepareSearchCommand_U (s : St) : KeepsU s (prepareSearchCommand s) := by simp [prepareSearchCommand]
@[simp] theorem notFoundOrError_U (s : St) : KeepsU s (notFoundOrError s) := by simp [notFoundOrError]
@[simp] theorem setStateRL_cmd_U (s : St) : KeepsU s (setStateRL s .cmd) := by simp [setStateRL]
@[simp] theorem setStateTL_cmd_U (s : St) : KeepsU s (setStateTL s .cmd) := by simp [setStateTL]

/-! ### level 2 -/

@[simp] theorem printResponseTest_cmd_U (D : Desc) (s : St) : KeepsU s (printResponseTest D s .cmd).1 := by
  simp [printResponseTest]; crunch
@[simp] theorem nextFormatVar_cmd_U (D : Desc) (s : St) : KeepsU s (nextFormatVar D s .cmd).1 := by
  simp [nextFormatVar, St.setIdx, St.idx, St.pos]; crunch
@[simp] theorem cmdListNextCmd_U (D : Desc) (s : St) : KeepsU s (cmdListNextCmd D s).1 := by
  simp [cmdListNextCmd]; crunch
@[simp] theorem printCurrentCmdFullName_U (D : Desc) (s : St) (x : List Byte) : KeepsU s (printCurrentCmdFullName D s x).1 := by
  simp [printCurrentCmdFullName]; crunch
@[simp] theorem startPrintCmdList_U (D : Desc) (s : St) : KeepsU s (startPrintCmdList D s) := by
  simp [startPrintCmdList]; crunch
@[simp] theorem parseVarValue_U (D : Desc) (s : St) (v : VarD) : KeepsU s (parseVarValue D s v).1 := by
  unfold parseVarValue; crunch
@[simp] theorem varWriteCb_U (D : Desc) (s : St) (v : VarD) (i : SvcIn) : KeepsU s (varWriteCb D s v i).1 := by
  unfold varWriteCb; crunch
@[simp] theorem varReadCb_cmd_U (D : Desc) (s : St) (v : VarD) (i : SvcIn) : KeepsU s (varReadCb D s .cmd v i).1 := by
  unfold varReadCb; crunch
@[simp] theorem formatVar_cmd_U (D : Desc) (s : St) (v : VarD) : KeepsU s (formatVar D s .cmd v).1 := by
  unfold formatVar; crunch

/-! ### level 3 -/

@[simp] theorem startFormatTest_cmd_U (D : Desc) (s : St) : KeepsU s (startFormatTest D s .cmd) := by
  simp [startFormatTest, St.cmdOf]; crunch
@[simp] theorem startFormatRead_cmd_U (D : Desc) (s : St) : KeepsU s (startFormatRead D s .cmd) := by
  simp [startFormatRead, St.cmdOf]; crunch

@[simp] theorem doCall_cmd_U (D : Desc) (s : St) (c : Call) : KeepsU s (doCall D .cmd s c) := by
  cases c <;> simp [doCall]
@[simp] theorem doCalls_cmd_U (D : Desc) (cs : List Call) : ∀ s : St, KeepsU s (doCalls D .cmd s cs) := by
  induction cs with
  | nil => intro s; simp [doCalls]
  | cons c r ih =>
    intro s
    have h1 := doCall_cmd_U D s c
    have h2 := ih (doCall D .cmd s c)
    simp only [doCalls]
    simp_all

/-! ### level 4: the functions dispatched by `cat_service` -/

@[simp] theorem errorState_U (D : Desc) (s : St) (i : SvcIn) : KeepsU s (errorState D s i).1 := by
  simp [errorState]; crunch
@[simp] theorem processIdleState_U (s : St) (i : SvcIn) : KeepsU s (processIdleState s i).1 := by
  simp [processIdleState]; crunch
@[simp] theorem parsePrefix_U (D : Desc) (s : St) (i : SvcIn) : KeepsU s (parsePrefix D s i).1 := by
  simp [parsePrefix]; crunch
@[simp] theorem parseCommand_U (D : Desc) (s : St) (i : SvcIn) : KeepsU s (parseCommand D s i).1 := by
  simp [parseCommand]; crunch
@[simp] theorem updateCommand_U (D : Desc) (s : St) : KeepsU s (updateCommand D s).1 := by
  simp [updateCommand, updateAdvance, updateLane]; crunch
@[simp] theorem waitReadAcknowledge_U (s : St) (i : SvcIn) : KeepsU s (waitReadAcknowledge s i).1 := by
  simp [waitReadAcknowledge]; crunch
@[simp] theorem waitTestAcknowledge_U (D : Desc) (s : St) (i : SvcIn) : KeepsU s (waitTestAcknowledge D s i).1 := by
  simp [waitTestAcknowledge]; crunch
@[simp] theorem searchCommand_U (D : Desc) (s : St) : KeepsU s (searchCommand D s).1 := by
  simp [searchCommand]; crunch
@[simp] theorem commandFound_U (D : Desc) (s : St) : KeepsU s (commandFound D s).1 := by
  simp [commandFound]; crunch
@[simp] theorem commandNotFound_U (D : Desc) (s : St) : KeepsU s (commandNotFound D s).1 := by
  simp [commandNotFound]
@[simp] theorem parseCommandArgs_U (D : Desc) (s : St) (i : SvcIn) : KeepsU s (parseCommandArgs D s i).1 := by
  simp [parseCommandArgs]; crunch
@[simp] theorem parseWriteArgs_U (D : Desc) (s : St) (i : SvcIn) : KeepsU s (parseWriteArgs D s i).1 := by
  simp [parseWriteArgs]; crunch
@[simp] theorem formatReadArgs_cmd_U (D : Desc) (s : St) (i : SvcIn) : KeepsU s (formatReadArgs D s .cmd i).1 := by
  simp [formatReadArgs, St.cmdOf, St.idx]; crunch
@[simp] theorem formatTestArgs_cmd_U (D : Desc) (s : St) : KeepsU s (formatTestArgs D s .cmd).1 := by
  simp [formatTestArgs, St.cmdOf, St.idx]; crunch
@[simp] theorem processWriteLoop_U (D : Desc) (s : St) (i : SvcIn) : KeepsU s (processWriteLoop D s i).1 := by
  simp [processWriteLoop]
@[simp] theorem processRunLoop_U (D : Desc) (s : St) (i : SvcIn) : KeepsU s (processRunLoop D s i).1 := by
  simp [processRunLoop]
@[simp] theorem processReadLoop_cmd_U (D : Desc) (s : St) (i : SvcIn) : KeepsU s (processReadLoop D s .cmd i).1 := by
  simp [processReadLoop, St.cmdOf, St.pos]
@[simp] theorem processTestLoop_cmd_U (D : Desc) (s : St) (i : SvcIn) : KeepsU s (processTestLoop D s .cmd i).1 := by
  simp [processTestLoop, St.cmdOf, St.pos]
@[simp] theorem processHoldState_U (D : Desc) (s : St) : KeepsU s (processHoldState D s).1 := by
  simp [processHoldState]; crunch
@[simp] theorem processIoWriteWait_U (s : St) : KeepsU s (processIoWriteWait s).1 := by
  simp [processIoWriteWait]; crunch
@[simp] theorem processIoWrite_U (D : Desc) (s : St) (i : SvcIn) : KeepsU s (processIoWrite D s i).1 := by
  simp [processIoWrite]; crunch
@[simp] theorem printCmdList_U (D : Desc) (s : St) : KeepsU s (printCmdList D s) := by
  simp [printCmdList, printCmdForm]; crunch

/-- **The command machine never touches the unsolicited machine's control fields.** -/
theorem commandService_keepsU (D : Desc) (s : St) (i : SvcIn) : KeepsU s (commandService D s i).1 := by
  unfold commandService
  split <;> simp

end Cat
