/-
  Frame facts for the unsolicited machine's step: it never touches the command machine's control
  fields, provided its handlers do not answer HOLD (DESIGN.md 2.3).
-/
import CatVerif.Proofs.Step
namespace Cat
open St

/-- command machine control, position and the hold flag -/
@[simp] abbrev KeepsCH (s s' : St) : Prop := SameC' s s' ∧ s'.position = s.position ∧ s'.holdFlag = s.holdFlag

@[simp] theorem unsolicitedResetState_C (s : St) : KeepsCH s (unsolicitedResetState s) ∧ SameR s (unsolicitedResetState s) ∧ (unsolicitedResetState s).holdExitStatus = s.holdExitStatus := by
  simp [unsolicitedResetState]
@[simp] theorem startFlush_uns_C (s : St) (a : After) : KeepsCH s (startFlush s .uns a) ∧ SameR s (startFlush s .uns a) ∧ (startFlush s .uns a).holdExitStatus = s.holdExitStatus := by
  simp [startFlush]
@[simp] theorem endError_uns_C (D : Desc) (s : St) : KeepsCH s (endError D s .uns) ∧ SameR s (endError D s .uns) ∧ (endError D s .uns).holdExitStatus = s.holdExitStatus := by
  simp [endError]
@[simp] theorem endOk_uns_C (D : Desc) (s : St) : KeepsCH s (endOk D s .uns) ∧ SameR s (endOk D s .uns) ∧ (endOk D s .uns).holdExitStatus = s.holdExitStatus := by
  simp [endOk]
@[simp] theorem setStateRL_uns_C (s : St) : KeepsCH s (setStateRL s .uns) ∧ SameR s (setStateRL s .uns) ∧ (setStateRL s .uns).holdExitStatus = s.holdExitStatus := by
  simp [setStateRL]
@[simp] theorem setStateTL_uns_C (s : St) : KeepsCH s (setStateTL s .uns) ∧ SameR s (setStateTL s .uns) ∧ (setStateTL s .uns).holdExitStatus = s.holdExitStatus := by
  simp [setStateTL]

@[simp] theorem printResponseTest_uns_C (D : Desc) (s : St) :
    KeepsCH s (printResponseTest D s .uns).1 ∧ SameR s (printResponseTest D s .uns).1 ∧ (printResponseTest D s .uns).1.holdExitStatus = s.holdExitStatus := by
  simp [printResponseTest]; crunch
@[simp] theorem nextFormatVar_uns_C (D : Desc) (s : St) :
    KeepsCH s (nextFormatVar D s .uns).1 ∧ SameR s (nextFormatVar D s .uns).1 ∧ (nextFormatVar D s .uns).1.holdExitStatus = s.holdExitStatus := by
  simp [nextFormatVar, St.setIdx, St.idx, St.pos]; crunch
@[simp] theorem startFormatTest_uns_C (D : Desc) (s : St) :
    KeepsCH s (startFormatTest D s .uns) ∧ SameR s (startFormatTest D s .uns) ∧ (startFormatTest D s .uns).holdExitStatus = s.holdExitStatus := by
  simp [startFormatTest, St.cmdOf]; crunch
@[simp] theorem startFormatRead_uns_C (D : Desc) (s : St) :
    KeepsCH s (startFormatRead D s .uns) ∧ SameR s (startFormatRead D s .uns) ∧ (startFormatRead D s .uns).holdExitStatus = s.holdExitStatus := by
  simp [startFormatRead, St.cmdOf]; crunch
@[simp] theorem varReadCb_uns_C (D : Desc) (s : St) (v : VarD) (i : SvcIn) : KeepsCH s (varReadCb D s .uns v i).1 := by
  unfold varReadCb; crunch
@[simp] theorem formatVar_uns_C (D : Desc) (s : St) (v : VarD) :
    KeepsCH s (formatVar D s .uns v).1 ∧ SameR s (formatVar D s .uns v).1 ∧ (formatVar D s .uns v).1.holdExitStatus = s.holdExitStatus := by
  unfold formatVar; crunch

/-- the calls an unsolicited handler loop may make when the handler does not answer HOLD -/
def UnsCallOk : Call → Prop
  | .endOk | .endError | .startFlush _ | .startFormatRead | .startFormatTest | .holdExit _ => True
  | _ => False

theorem doCall_uns_C (D : Desc) (s : St) (c : Call) (h : UnsCallOk c) : KeepsCH s (doCall D .uns s c) := by
  cases c <;> simp [UnsCallOk] at h <;> simp [doCall]

theorem doCalls_uns_C (D : Desc) (cs : List Call) : ∀ s : St, (∀ c ∈ cs, UnsCallOk c) → KeepsCH s (doCalls D .uns s cs) := by
  induction cs with
  | nil => intro s _; simp [doCalls]
  | cons c r ih =>
    intro s h
    have h1 := doCall_uns_C D s c (h c (by simp))
    have h2 := ih (doCall D .uns s c) (fun c' hc' => h c' (by simp [hc']))
    simp only [doCalls]
    simp_all

theorem readTable_uns_ok (ret : Int) (h : ret ≠ 4) : ∀ c ∈ Gen.process_read_loop ret .uns, UnsCallOk c := by
  unfold Gen.process_read_loop
  (repeat' split) <;> simp_all [UnsCallOk]

theorem testTable_uns_ok (ret : Int) (h : ret ≠ 4) : ∀ c ∈ Gen.process_test_loop ret .uns, UnsCallOk c := by
  unfold Gen.process_test_loop
  (repeat' split) <;> simp_all [UnsCallOk]

theorem processReadLoop_uns_C (D : Desc) (s : St) (i : SvcIn) (h : i.hu.ret ≠ 4) : KeepsCH s (processReadLoop D s .uns i).1 := by
  simp only [processReadLoop]
  generalize hx : applyNested D Fsm.uns true _ _ = x
  have hxs : KeepsCH s x := by subst hx; simp
  have := doCalls_uns_C D (Gen.process_read_loop i.hu.ret .uns) x (readTable_uns_ok _ h)
  simp_all

theorem processTestLoop_uns_C (D : Desc) (s : St) (i : SvcIn) (h : i.hu.ret ≠ 4) : KeepsCH s (processTestLoop D s .uns i).1 := by
  simp only [processTestLoop]
  generalize hx : applyNested D Fsm.uns true _ _ = x
  have hxs : KeepsCH s x := by subst hx; simp
  have := doCalls_uns_C D (Gen.process_test_loop i.hu.ret .uns) x (testTable_uns_ok _ h)
  simp_all

@[simp] theorem formatReadArgs_uns_C (D : Desc) (s : St) (i : SvcIn) : KeepsCH s (formatReadArgs D s .uns i).1 := by
  simp [formatReadArgs, St.cmdOf, St.idx]; crunch
@[simp] theorem formatTestArgs_uns_C (D : Desc) (s : St) : KeepsCH s (formatTestArgs D s .uns).1 := by
  simp [formatTestArgs, St.cmdOf, St.idx]; crunch
@[simp] theorem checkUnsolicitedBuffers_C (D : Desc) (s : St) : KeepsCH s (checkUnsolicitedBuffers D s) := by
  simp [checkUnsolicitedBuffers, ringPop]; crunch
@[simp] theorem unsolicitedProcessIoWriteWait_C (s : St) : KeepsCH s (unsolicitedProcessIoWriteWait s).1 := by
  simp [unsolicitedProcessIoWriteWait]; crunch
@[simp] theorem unsolicitedProcessIoWrite_C (D : Desc) (s : St) (i : SvcIn) : KeepsCH s (unsolicitedProcessIoWrite D s i).1 := by
  simp [unsolicitedProcessIoWrite]; crunch

/-- **The unsolicited machine never touches the command machine's control fields or the hold
flag**, as long as its handlers do not answer HOLD. -/
theorem unsolicitedEventsService_keepsC (D : Desc) (s : St) (i : SvcIn) (h : i.hu.ret ≠ 4) :
    KeepsCH s (unsolicitedEventsService D s i).1 := by
  unfold unsolicitedEventsService
  split <;> (try simp)
  · exact processReadLoop_uns_C D s i h
  · exact processTestLoop_uns_C D s i h

end Cat
