/-
  The transition graph of the command machine: which states one `cat_service` step can lead to.
-/
import CatVerif.Proofs.Step
import CatVerif.Proofs.Dispatch
namespace Cat
open St

/-! exact results of the acknowledging helpers -/
@[simp] theorem ackError_state (D : Desc) (s : St) : (ackError D s).state = .flushWait ∧ (ackError D s).writeStateAfter = .reset := by
  simp [ackError, startFlush, After.toC]
@[simp] theorem ackOk_state (D : Desc) (s : St) : (ackOk D s).state = .flushWait ∧ (ackOk D s).writeStateAfter = .reset := by
  simp [ackOk, startFlush, After.toC]
@[simp] theorem startFlush_cmd_state (s : St) (a : After) : (startFlush s .cmd a).state = .flushWait ∧ (startFlush s .cmd a).writeStateAfter = a := by
  simp [startFlush]
@[simp] theorem startFlushRaw_state (s : St) (a : After) : (startFlushRaw s a).state = .flushWait ∧ (startFlushRaw s a).writeStateAfter = a := by
  simp [startFlushRaw]
@[simp] theorem endError_cmd_state (D : Desc) (s : St) : (endError D s .cmd).state = .flushWait := by simp [endError]
@[simp] theorem endOk_cmd_state (D : Desc) (s : St) : (endOk D s .cmd).state = .flushWait := by simp [endOk]

theorem printResponseTest_cmd_state (D : Desc) (s : St) :
    (printResponseTest D s .cmd).1.state = s.state ∨ (printResponseTest D s .cmd).1.state = .testLoop ∨
    (printResponseTest D s .cmd).1.state = .flushWait := by
  simp [printResponseTest, setStateTL]; crunch

theorem startFormatTest_cmd_state (D : Desc) (s : St) :
    (startFormatTest D s .cmd).state ∈ [.flushWait, .formatTestArgs, .testLoop] := by
  have h := printResponseTest_cmd_state D
  simp [startFormatTest, St.cmdOf, printResponseTest, setStateTL]; crunch

theorem startFormatRead_cmd_state (D : Desc) (s : St) :
    (startFormatRead D s .cmd).state ∈ [.flushWait, .formatReadArgs, .readLoop] := by
  simp [startFormatRead, St.cmdOf, setStateRL]; crunch


theorem nextFormatVar_cmd_state (D : Desc) (s : St) :
    (nextFormatVar D s .cmd).1.state = s.state ∨ (nextFormatVar D s .cmd).1.state = .flushWait := by
  simp [nextFormatVar, St.setIdx, St.idx, St.pos]; crunch

theorem doCall_cmd_state (D : Desc) (s : St) (c : Call) :
    (doCall D .cmd s c).state = s.state ∨
    (doCall D .cmd s c).state ∈ [.flushWait, .hold, .printCmd, .formatReadArgs, .readLoop, .formatTestArgs, .testLoop] := by
  cases c <;> simp [doCall, enableHoldState, startPrintCmdList, holdExit]
  · split <;> simp
  · have := startFormatRead_cmd_state D s; simp at this; rcases this with h | h | h <;> simp [h]
  · have := startFormatTest_cmd_state D s; simp at this; rcases this with h | h | h <;> simp [h]
  · split <;> simp

/-- successors of a state under one step of the command machine -/
def cmdSucc (s : St) : List CState :=
  match s.state with
  | .error => [.error, .flushWait]
  | .idle => [.idle, .parsePrefix, .error]
  | .parsePrefix => [.parsePrefix, .parseCommandChar, .flushWait, .error]
  | .parseCommandChar => [.parseCommandChar, .searchCommand, .flushWait, .error, .waitReadAck, .updateCommandState]
  | .updateCommandState => [.updateCommandState, .parseCommandChar, .searchCommand]
  | .waitReadAck => [.waitReadAck, .searchCommand, .error]
  | .searchCommand => [.searchCommand, .commandFound, .commandNotFound, .error]
  | .commandFound => [.flushWait, .runLoop, .formatReadArgs, .readLoop, .parseCommandArgs]
  | .commandNotFound => [.flushWait]
  | .parseCommandArgs => [.parseCommandArgs, .flushWait, .parseWriteArgs, .writeLoop, .waitTestAck, .error]
  | .parseWriteArgs => [.parseWriteArgs, .flushWait, .writeLoop]
  | .formatReadArgs => [.formatReadArgs, .flushWait, .readLoop]
  | .waitTestAck => [.waitTestAck, .error, .flushWait, .formatTestArgs, .testLoop]
  | .formatTestArgs => [.formatTestArgs, .flushWait, .testLoop]
  | .writeLoop => [.writeLoop, .flushWait, .hold]
  | .readLoop => [.flushWait, .formatReadArgs, .readLoop, .hold]
  | .testLoop => [.flushWait, .formatTestArgs, .testLoop, .hold, .printCmd]
  | .runLoop => [.runLoop, .flushWait, .hold, .printCmd]
  | .hold => [.hold, .flushWait]
  | .flushWait => if s.ustate = .flushWrite then [.flushWait] else [.flushWrite]
  | .flushWrite => [.flushWrite, s.writeStateAfter.toC]
  | .afterFlushReset => [.idle, .hold]
  | .afterFlushOk => [.flushWait]
  | .afterFlushFormatRead => [.flushWait, .formatReadArgs, .readLoop]
  | .afterFlushFormatTest => [.flushWait, .formatTestArgs, .testLoop]
  | .printCmd => [.printCmd, .flushWait]


macro "mem3" h:term : tactic => `(tactic| (have hh := $h; simp at hh; rcases hh with hh | hh | hh <;> simp [hh]))

theorem graph_error (D : Desc) (s : St) (i : SvcIn) : (errorState D s i).1.state ∈ [s.state, .flushWait] := by
  simp [errorState]; crunch
theorem graph_idle (s : St) (i : SvcIn) : (processIdleState s i).1.state ∈ [s.state, .parsePrefix, .error] := by
  simp [processIdleState]; crunch
theorem graph_prefix (D : Desc) (s : St) (i : SvcIn) : (parsePrefix D s i).1.state ∈ [s.state, .parseCommandChar, .flushWait, .error] := by
  simp [parsePrefix, prepareParseCommand]; crunch
theorem graph_parseCommand (D : Desc) (s : St) (i : SvcIn) :
    (parseCommand D s i).1.state ∈ [s.state, .searchCommand, .flushWait, .error, .waitReadAck, .updateCommandState] := by
  simp [parseCommand, prepareSearchCommand]; crunch
theorem graph_update (D : Desc) (s : St) : (updateCommand D s).1.state ∈ [s.state, .parseCommandChar, .searchCommand] := by
  simp [updateCommand, updateAdvance, updateLane, prepareSearchCommand]; crunch
theorem graph_waitRead (s : St) (i : SvcIn) : (waitReadAcknowledge s i).1.state ∈ [s.state, .searchCommand, .error] := by
  simp [waitReadAcknowledge, prepareSearchCommand]; crunch
theorem graph_search (D : Desc) (s : St) : (searchCommand D s).1.state ∈ [s.state, .commandFound, .commandNotFound, .error] := by
  simp [searchCommand, notFoundOrError]; crunch
theorem graph_found (D : Desc) (s : St) :
    (commandFound D s).1.state ∈ [.flushWait, .runLoop, .formatReadArgs, .readLoop, .parseCommandArgs] := by
  simp [commandFound]
  split
  · crunch
  · split
    · simp
    · mem3 (startFormatRead_cmd_state D (s.chkUb s.cmd.isSome))
  · simp
  · simp
theorem graph_args (D : Desc) (s : St) (i : SvcIn) :
    (parseCommandArgs D s i).1.state ∈ [s.state, .flushWait, .parseWriteArgs, .writeLoop, .waitTestAck, .error] := by
  simp [parseCommandArgs]; crunch
theorem graph_writeArgs (D : Desc) (s : St) (i : SvcIn) :
    (parseWriteArgs D s i).1.state ∈ [s.state, .flushWait, .writeLoop] := by
  have h1 : ∀ (s : St) v, (parseVarValue D s v).1.state = s.state := by intro s v; unfold parseVarValue; crunch
  have h2 : ∀ (s : St) v, (varWriteCb D s v i).1.state = s.state := by intro s v; unfold varWriteCb; crunch
  simp [parseWriteArgs]; crunch


theorem varReadCb_state (D : Desc) (s : St) (f : Fsm) (v : VarD) (i : SvcIn) :
    (varReadCb D s f v i).1.state = s.state ∧ (varReadCb D s f v i).1.ustate = s.ustate := by
  unfold varReadCb; crunch
theorem formatVar_state (D : Desc) (s : St) (f : Fsm) (v : VarD) :
    (formatVar D s f v).1.state = s.state ∧ (formatVar D s f v).1.ustate = s.ustate := by
  unfold formatVar; crunch

theorem graph_formatRead (D : Desc) (s : St) (i : SvcIn) :
    (formatReadArgs D s .cmd i).1.state ∈ [s.state, .flushWait, .readLoop] := by
  simp only [formatReadArgs]
  generalize hs0 : (s.chkUb (s.cmdOf .cmd).isSome).chkUb _ = s0
  have e0 : s0.state = s.state := by subst hs0; simp
  generalize hv : (D.cmdD ((s.chkUb (s.cmdOf Fsm.cmd).isSome).cmdOf Fsm.cmd)).varAt _ = v
  have h1 := (varReadCb_state D s0 .cmd v i).1
  split
  · simp
  · have h2 := (formatVar_state D (varReadCb D s0 .cmd v i).1 .cmd v).1
    split
    · simp
    · have h3 := nextFormatVar_cmd_state D (formatVar D (varReadCb D s0 .cmd v i).1 .cmd v).1
      split
      · rcases h3 with h | h <;> simp_all
      · split <;> simp [setStateRL]

theorem graph_waitTest (D : Desc) (s : St) (i : SvcIn) :
    (waitTestAcknowledge D s i).1.state ∈ [s.state, .error, .flushWait, .formatTestArgs, .testLoop] := by
  simp [waitTestAcknowledge]
  split
  · simp
  · split
    · mem3 (startFormatTest_cmd_state D (readCmdChar s i).1)
    · crunch

theorem graph_formatTest (D : Desc) (s : St) :
    (formatTestArgs D s .cmd).1.state ∈ [s.state, .flushWait, .testLoop] := by
  simp only [formatTestArgs]
  generalize hs0 : (s.chkUb (s.cmdOf .cmd).isSome).chkUb _ = s0
  have e0 : s0.state = s.state := by subst hs0; simp
  generalize hv : (D.cmdD ((s.chkUb (s.cmdOf Fsm.cmd).isSome).cmdOf Fsm.cmd)).varAt _ = v
  have h1 : (formatInfoType D s0 .cmd v).1.state = s0.state := by simp
  split
  · simp
  · have h3 := nextFormatVar_cmd_state D (formatInfoType D s0 .cmd v).1
    split
    · rcases h3 with h | h <;> simp_all
    · have h4 := printResponseTest_cmd_state D (nextFormatVar D (formatInfoType D s0 .cmd v).1 .cmd).1
      split
      · rcases h3 with h | h <;> rcases h4 with g | g | g <;> simp_all
      · simp


theorem graph_writeLoop (D : Desc) (s : St) (i : SvcIn) :
    (processWriteLoop D s i).1.state ∈ [s.state, .flushWait, .hold] := by
  simp [processWriteLoop, Gen.process_write_loop]
  (repeat' split) <;> simp [doCalls, doCall, enableHoldState]

theorem graph_runLoop (D : Desc) (s : St) (i : SvcIn) :
    (processRunLoop D s i).1.state ∈ [s.state, .flushWait, .hold, .printCmd] := by
  simp [processRunLoop, Gen.process_run_loop]
  (repeat' split) <;> simp [doCalls, doCall, enableHoldState, startPrintCmdList] <;> (try split) <;> simp

/-- states a handler loop step can lead to (over-approximation shared by the four loops) -/
def loopSucc : List CState := [.flushWait, .hold, .printCmd, .formatReadArgs, .readLoop, .formatTestArgs, .testLoop]

theorem doCalls_cmd_state (D : Desc) (cs : List Call) : ∀ s : St,
    (doCalls D .cmd s cs).state = s.state ∨ (doCalls D .cmd s cs).state ∈ loopSucc := by
  induction cs with
  | nil => intro s; simp [doCalls]
  | cons c r ih =>
    intro s
    simp only [doCalls]
    rcases ih (doCall D .cmd s c) with h | h
    · rcases doCall_cmd_state D s c with g | g
      · left; rw [h, g]
      · right; rw [h]; exact g
    · right; exact h

theorem graph_readLoop (D : Desc) (s : St) (i : SvcIn) :
    (processReadLoop D s .cmd i).1.state = s.state ∨ (processReadLoop D s .cmd i).1.state ∈ loopSucc := by
  simp only [processReadLoop]
  generalize hx : applyNested D Fsm.cmd true _ _ = x
  have hxs : x.state = s.state := by subst hx; simp
  rcases doCalls_cmd_state D (Gen.process_read_loop i.hc.ret .cmd) x with h | h
  · left; rw [h, hxs]
  · right; exact h

theorem graph_testLoop (D : Desc) (s : St) (i : SvcIn) :
    (processTestLoop D s .cmd i).1.state = s.state ∨ (processTestLoop D s .cmd i).1.state ∈ loopSucc := by
  simp only [processTestLoop]
  generalize hx : applyNested D Fsm.cmd true _ _ = x
  have hxs : x.state = s.state := by subst hx; simp
  rcases doCalls_cmd_state D (Gen.process_test_loop i.hc.ret .cmd) x with h | h
  · left; rw [h, hxs]
  · right; exact h

theorem graph_hold (D : Desc) (s : St) : (processHoldState D s).1.state ∈ [s.state, .flushWait] := by
  simp [processHoldState]; crunch

theorem graph_wait (s : St) : (processIoWriteWait s).1.state = (if s.ustate = .flushWrite then s.state else .flushWrite) := by
  simp [processIoWriteWait]; crunch

theorem graph_write (D : Desc) (s : St) (i : SvcIn) : (processIoWrite D s i).1.state ∈ [s.state, s.writeStateAfter.toC] := by
  simp [processIoWrite]; crunch

theorem graph_printCmd (D : Desc) (s : St) : (printCmdList D s).state ∈ [s.state, .printCmd, .flushWait] := by
  simp [printCmdList, printCmdForm, cmdListNextCmd]; crunch

end Cat
