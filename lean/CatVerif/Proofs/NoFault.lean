/-
  Fault flags (C03): `oob` is raised by an access outside its object, `ub` by an operation the C
  standard leaves undefined.  The print layer and the variable stores never raise them under
  their guards.
-/
import CatVerif.Proofs.Region
import CatVerif.Proofs.Mem
namespace Cat
open St

/-- both fault flags unchanged -/
@[simp] abbrev SameFault (s s' : St) : Prop := s'.oob = s.oob ∧ s'.ub = s.ub

/-- `setB` faults exactly when the index is outside the machine's region, and then stores nothing -/
theorem setB_fault (D : Desc) (s : St) (f : Fsm) (i : Nat) (v : Byte) :
    (i < D.capOf f → SameFault s (setB D s f i v)) ∧
    (¬ i < D.capOf f → (setB D s f i v).oob = true ∧ (setB D s f i v).buf = s.buf ∧ (setB D s f i v).ubuf = s.ubuf) := by
  unfold setB
  constructor <;> intro h <;> simp [h] <;> cases f <;> simp <;> split <;> simp

theorem setB_pos (D : Desc) (s : St) (f : Fsm) (i : Nat) (v : Byte) : (setB D s f i v).pos f = s.pos f := by
  unfold setB; cases f <;> simp [St.pos] <;> (repeat' split) <;> simp

theorem writeB_nofault (D : Desc) (f : Fsm) (bs : List Byte) : ∀ (s : St) (i : Nat),
    i + bs.length ≤ D.capOf f → SameFault s (writeB D s f i bs) := by
  induction bs with
  | nil => intro s i _; simp [writeB]
  | cons b r ih =>
    intro s i h
    simp only [List.length_cons] at h
    simp only [writeB]
    have h1 := (setB_fault D s f i b).1 (by omega)
    have h2 := ih (setB D s f i b) (i + 1) (by omega)
    simp_all

/-- `print_nstring_to_buf` never faults when the cursor is inside the region; on success the
cursor stays strictly inside -/
theorem printN_nofault (D : Desc) (s : St) (f : Fsm) (x : List Byte) (hp : s.pos f ≤ D.capOf f) :
    SameFault s (printN D s f x).1 ∧ (printN D s f x).1.pos f ≤ D.capOf f := by
  unfold printN
  simp only [hp, decide_true, St.chkUb, if_true]
  split
  · exact ⟨⟨rfl, rfl⟩, hp⟩
  · rename_i hlt
    have w := writeB_nofault D f x s (s.pos f) (by omega)
    have sb := (setB_fault D ((writeB D s f (s.pos f) x).setPos f (s.pos f + x.length)) f (s.pos f + x.length) 0).1 (by omega)
    refine ⟨?_, ?_⟩
    · simp_all
    · rw [setB_pos]; simp; omega

/-- `print_format_num` (snprintf into the rest of the region) never faults either -/
theorem printFmt_nofault (D : Desc) (s : St) (f : Fsm) (x : List Byte) (hp : s.pos f ≤ D.capOf f) :
    SameFault s (printFmt D s f x).1 ∧ (printFmt D s f x).1.pos f ≤ D.capOf f := by
  unfold printFmt
  simp only [hp, decide_true, St.chkUb, if_true]
  split
  · exact ⟨⟨rfl, rfl⟩, hp⟩
  · rename_i hl
    have hl' : D.capOf f - s.pos f ≠ 0 := by simpa using hl
    have w := writeB_nofault D f (x.take (D.capOf f - s.pos f - 1) ++ [0]) s (s.pos f) (by
      simp only [List.length_append, List.length_take, List.length_singleton]; omega)
    have wp : ∀ bs i (t : St), (writeB D t f i bs).pos f = t.pos f := by
      intro bs
      induction bs with
      | nil => intro i t; rfl
      | cons b r ih => intro i t; simp only [writeB]; rw [ih, setB_pos]
    split
    · exact ⟨w, by rw [wp]; exact hp⟩
    · refine ⟨by simpa using w, ?_⟩
      simp; omega

theorem printAll_nofault (D : Desc) (f : Fsm) (xs : List (List Byte)) : ∀ s : St, s.pos f ≤ D.capOf f →
    SameFault s (printAll D s f xs).1 ∧ (printAll D s f xs).1.pos f ≤ D.capOf f := by
  induction xs with
  | nil => intro s hp; exact ⟨⟨rfl, rfl⟩, hp⟩
  | cons x r ih =>
    intro s hp
    have h1 := printN_nofault D s f x hp
    simp only [printAll]
    split
    · have h2 := ih (printN D s f x).1 h1.2
      exact ⟨⟨h2.1.1.trans h1.1.1, h2.1.2.trans h1.1.2⟩, h2.2⟩
    · exact h1

end Cat
