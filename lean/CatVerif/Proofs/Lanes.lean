/-
  Name matching (C02): character classes, the 2-bit match-state lanes, and the per-command update
  step against the specification `matchState`.
-/
import CatVerif.Proofs.Ctl
namespace Cat
open St

/-! ### character classes (generated from the source), over all 256 byte values -/

/-- `to_upper` folds exactly a–z -/
theorem toUpper_spec : ∀ b, b < 256 → toUpper b = (if 97 ≤ b ∧ b ≤ 122 then b - 32 else b) := by decide +kernel

/-- `is_valid_cmd_name_char` accepts exactly A–Z 0–9 + # $ @ _ % & -/
theorem isNameChar_spec : ∀ b, b < 256 →
    isNameChar b = decide ((65 ≤ b ∧ b ≤ 90) ∨ (48 ≤ b ∧ b ≤ 57) ∨ b = 43 ∨ b = 35 ∨ b = 36 ∨ b = 64 ∨ b = 95 ∨ b = 37 ∨ b = 38) := by
  decide +kernel

theorem toUpper_idem : ∀ b, b < 256 → toUpper (toUpper b) = toUpper b := by decide +kernel
theorem toUpper_lt : ∀ b, b < 256 → toUpper b < 256 := by decide +kernel

/-! ### 2-bit lanes -/

theorem lane_get_set_same : ∀ b, b < 256 → ∀ i, i < 4 → ∀ v, v < 4 → laneGet (laneSet b i v) i = v := by decide +kernel
theorem lane_get_set_other : ∀ b, b < 256 → ∀ i, i < 4 → ∀ j, j < 4 → i ≠ j → ∀ v, v < 4 →
    laneGet (laneSet b i v) j = laneGet b j := by decide +kernel
theorem lane_set_lt : ∀ b, b < 256 → ∀ i, i < 4 → ∀ v, v < 4 → laneSet b i v < 256 := by decide +kernel
theorem lane_get_lt (b i : Nat) : laneGet b i < 4 := by unfold laneGet; exact Nat.mod_lt _ (by decide)

theorem laneGet_mod (b i : Nat) : laneGet b i = laneGet b (i % 4) := by simp [laneGet]
theorem laneSet_mod (b i v : Nat) : laneSet b i v = laneSet b (i % 4) v := by simp [laneSet]

/-- the initial pattern of `prepare_parse_command`: every lane is PARTIAL_MATCH -/
theorem lanesInit_all_partial : ∀ i, i < 4 → laneGet lanesInit i = 1 := by decide

/-- lanes of two different commands never interfere, whatever their positions -/
theorem lane_independent (b i j v : Nat) (hb : b < 256) (hv : v < 4) (hij : i ≠ j) (hsame : i / 4 = j / 4) :
    laneGet (laneSet b i v) j = laneGet b j := by
  rw [laneGet_mod, laneSet_mod, laneGet_mod b j]
  exact lane_get_set_other b hb (i % 4) (Nat.mod_lt _ (by decide)) (j % 4) (Nat.mod_lt _ (by decide)) (by omega) v hv

theorem lane_same (b i v : Nat) (hb : b < 256) (hv : v < 4) : laneGet (laneSet b i v) i = v := by
  rw [laneGet_mod, laneSet_mod]
  exact lane_get_set_same b hb (i % 4) (Nat.mod_lt _ (by decide)) v hv

/-! ### the specification of matching -/

namespace Spec
/-- match state of a command name against the typed (already upper-cased) name:
0 = no match, 1 = the typed name is a proper prefix, 2 = equal -/
def matchName (name typed : List Byte) : Nat :=
  if typed.length ≤ name.length ∧ (name.map toUpper).take typed.length = typed then
    (if typed.length = name.length then 2 else 1)
  else 0
end Spec

/-- one update of one lane, as `update_command` computes it from the lane's old value -/
def stepMatch (old : Nat) (name : List Byte) (len : Nat) (ch : Byte) : Nat :=
  if old = 0 then 0
  else if len > name.length then 0
  else if toUpper (name.getD (len - 1) 0) ≠ ch then 0
  else if len = name.length then 2
  else old

theorem take_succ_map (name : List Byte) (k : Nat) (hlt : k < name.length) :
    (name.map toUpper).take (k + 1) = (name.map toUpper).take k ++ [toUpper (name.getD k 0)] := by
  rw [List.take_add_one]
  simp [List.getD, List.getElem?_eq_getElem hlt]

/-- **The update step computes the specification**: if the lane holds the match state of the name
against `typed`, after the step for the next character `ch` it holds the match state against
`typed ++ [ch]`. -/
theorem stepMatch_spec (name typed : List Byte) (ch : Byte) :
    stepMatch (Spec.matchName name typed) name (typed.length + 1) ch = Spec.matchName name (typed ++ [ch]) := by
  unfold stepMatch Spec.matchName
  simp only [List.length_append, List.length_singleton, Nat.add_sub_cancel]
  by_cases hpre : typed.length ≤ name.length ∧ (name.map toUpper).take typed.length = typed
  · rw [if_pos hpre]
    by_cases hfull : typed.length = name.length
    · -- was a full match: one more character cannot match
      rw [if_pos hfull]
      have h2 : (2 : Nat) ≠ 0 := by decide
      rw [if_neg h2, if_pos (by omega : typed.length + 1 > name.length)]
      have : ¬ (typed.length + 1 ≤ name.length ∧ (name.map toUpper).take (typed.length + 1) = typed ++ [ch]) := by
        intro ⟨h, _⟩; omega
      rw [if_neg this]
    · rw [if_neg hfull]
      have hlt : typed.length < name.length := by omega
      have h1 : (1 : Nat) ≠ 0 := by decide
      rw [if_neg h1, if_neg (by omega : ¬ typed.length + 1 > name.length)]
      have htake := take_succ_map name typed.length hlt
      rw [hpre.2] at htake
      by_cases hch : toUpper (name.getD typed.length 0) = ch
      · rw [if_neg (by simpa using hch)]
        have : typed.length + 1 ≤ name.length ∧ (name.map toUpper).take (typed.length + 1) = typed ++ [ch] :=
          ⟨by omega, by rw [htake, hch]⟩
        rw [if_pos this]
      · rw [if_pos (by simpa using hch)]
        have : ¬ (typed.length + 1 ≤ name.length ∧ (name.map toUpper).take (typed.length + 1) = typed ++ [ch]) := by
          intro ⟨_, h⟩
          rw [htake] at h
          exact hch (by simpa using h)
        rw [if_neg this]
  · rw [if_neg hpre]
    simp only [if_true]
    -- no match before: no match after
    have : ¬ (typed.length + 1 ≤ name.length ∧ (name.map toUpper).take (typed.length + 1) = typed ++ [ch]) := by
      intro ⟨h1, h2⟩
      apply hpre
      have hlt : typed.length < name.length := by omega
      refine ⟨by omega, ?_⟩
      rw [take_succ_map name typed.length hlt] at h2
      have := List.append_inj_left' h2 (by simp)
      exact this
    rw [if_neg this]

/-- the empty typed name matches every command partially (or fully, for an empty command name) -/
theorem matchName_nil (name : List Byte) : Spec.matchName name [] = if name = [] then 2 else 1 := by
  unfold Spec.matchName
  cases name <;> simp


/-! ### the lanes in the command buffer -/

theorem getB_setB_cmd (D : Desc) (s : St) (i j v : Nat) (hi : i < D.cmdCap) (hl : i < s.buf.length) :
    getB D (setB D s .cmd i v) .cmd j = if i = j then v else getB D s .cmd j := by
  have : i < D.capOf .cmd := hi
  simp only [setB, this, if_true, getB]
  by_cases hij : i = j
  · subst hij; simp [List.getD, hl]
  · simp [List.getD, List.getElem?_set, hij]

/-- the match state the parser reads for command `i` (0 for disabled commands) -/
def laneOf (D : Desc) (s : St) (i : Nat) : Nat := (getCmdState D s i).2

theorem laneOf_enabled (D : Desc) (s : St) (i : Nat) (h : disabledByIndex D.groups i = false) :
    laneOf D s i = laneGet (getB D s .cmd (i / 4)) i := by
  simp [laneOf, getCmdState, h, getB]

/-- writing command `i`'s lane changes that lane and no other command's -/
theorem laneOf_setCmdState (D : Desc) (s : St) (i j v : Nat) (hv : v < 4) (hi : i / 4 < D.cmdCap) (hl : i / 4 < s.buf.length)
    (hb : getB D s .cmd (i / 4) < 256) (hj : disabledByIndex D.groups j = false) :
    laneOf D (setCmdState D s i v) j = if i = j then v else laneOf D s j := by
  rw [laneOf_enabled D _ j hj, laneOf_enabled D s j hj]
  unfold setCmdState
  rw [getB_setB_cmd D s (i / 4) (j / 4) _ hi hl]
  by_cases hij : i = j
  · subst hij; simp [lane_same _ _ _ hb hv]
  · simp only [hij, if_false]
    by_cases hq : i / 4 = j / 4
    · simp only [hq, if_true]
      rw [← hq]
      exact lane_independent _ i j v hb hv hij hq
    · simp [hq]

theorem laneOf_congr (D : Desc) (a b : St) (j : Nat) (h : a.buf = b.buf) : laneOf D a j = laneOf D b j := by
  unfold laneOf getCmdState
  split <;> simp [getB, h]

/-- the buffer after `updateLane`, case by case -/
theorem updateLane_buf (D : Desc) (s : St) (hen : disabledByIndex D.groups s.index = false)
    (name : List Byte) (old : Nat) (hname : name = ((cmdByIndex D.groups s.index).getD default).name)
    (hold : old = laneOf D s s.index) :
    (old = 0 → (updateLane D s).buf = s.buf) ∧
    (old ≠ 0 → s.length > name.length → (updateLane D s).buf = (setCmdState D s s.index 0).buf) ∧
    (old ≠ 0 → ¬ s.length > name.length → toUpper (name.getD (s.length - 1) 0) ≠ s.currentChar →
      (updateLane D s).buf = (setCmdState D s s.index 0).buf) ∧
    (old ≠ 0 → ¬ s.length > name.length → toUpper (name.getD (s.length - 1) 0) = s.currentChar → s.length = name.length →
      (updateLane D s).buf = (setCmdState D s s.index 2).buf) ∧
    (old ≠ 0 → ¬ s.length > name.length → toUpper (name.getD (s.length - 1) 0) = s.currentChar → s.length ≠ name.length →
      (updateLane D s).buf = s.buf) := by
  have hg : getCmdState D s s.index = (s.chk (decide (s.index / 4 < D.cmdCap)), old) := by
    simp [hold, laneOf, getCmdState, hen]
  have hset : ∀ v, (setCmdState D (s.chk (decide (s.index / 4 < D.cmdCap))) s.index v).buf = (setCmdState D s s.index v).buf := by
    intro v
    unfold setCmdState setB
    by_cases h : s.index / 4 < D.capOf .cmd
    · have : s.index / 4 < D.cmdCap := h
      simp [h, St.chk, this, getB]
    · have : ¬ s.index / 4 < D.cmdCap := h
      simp [h]
  refine ⟨?_, ?_, ?_, ?_, ?_⟩
  · intro h0
    unfold updateLane; simp only [hg, h0]; simp
  · intro h0 hlen
    have : (old != 0) = true := by simpa using h0
    unfold updateLane; simp only [hg, this, if_true, ← hname]
    simp only [chk_ctl, hlen, if_true]
    exact hset 0
  · intro h0 hlen hch
    have : (old != 0) = true := by simpa using h0
    have hc : (toUpper (name.getD (s.length - 1) 0) != s.currentChar) = true := by simpa using hch
    unfold updateLane; simp only [hg, this, if_true, ← hname]
    simp only [chk_ctl, hlen, if_false, hc, if_true]
    exact hset 0
  · intro h0 hlen hch hfull
    have : (old != 0) = true := by simpa using h0
    have hc : (toUpper (name.getD (s.length - 1) 0) != s.currentChar) = false := by simpa using hch
    have hf : (s.length == name.length) = true := by simpa using hfull
    unfold updateLane; simp only [hg, this, if_true, ← hname]
    simp only [chk_ctl, hlen, if_false, hc, hf, Bool.false_eq_true, if_true]
    split <;> simp [hset]
  · intro h0 hlen hch hfull
    have : (old != 0) = true := by simpa using h0
    have hc : (toUpper (name.getD (s.length - 1) 0) != s.currentChar) = false := by simpa using hch
    have hf : (s.length == name.length) = false := by simpa using hfull
    unfold updateLane; simp only [hg, this, if_true, ← hname]
    simp only [chk_ctl, hlen, if_false, hc, hf, Bool.false_eq_true]

/-- **One `update_command` step refines `stepMatch`** for the command under the cursor, and leaves
every other command's match state alone. -/
theorem updateLane_lanes (D : Desc) (s : St) (j : Nat)
    (hen : disabledByIndex D.groups s.index = false) (hj : disabledByIndex D.groups j = false)
    (hi : s.index / 4 < D.cmdCap) (hl : s.index / 4 < s.buf.length) (hb : getB D s .cmd (s.index / 4) < 256) :
    laneOf D (updateLane D s) j =
      if j = s.index then
        stepMatch (laneOf D s s.index) ((cmdByIndex D.groups s.index).getD default).name s.length s.currentChar
      else laneOf D s j := by
  have ⟨c0, c1, c2, c3, c4⟩ := updateLane_buf D s hen _ _ rfl rfl
  have set : ∀ v, v < 4 → ∀ x : St, x.buf = (setCmdState D s s.index v).buf →
      laneOf D x j = if j = s.index then v else laneOf D s j := by
    intro v hv x hx
    rw [laneOf_congr D x _ j hx, laneOf_setCmdState D s s.index j v hv hi hl hb hj]
    by_cases hjs : j = s.index
    · simp [hjs]
    · have : ¬ s.index = j := fun h => hjs h.symm
      simp [hjs, this]
  have same : ∀ x : St, x.buf = s.buf → laneOf D x j = laneOf D s j := fun x hx => laneOf_congr D x s j hx
  unfold stepMatch
  by_cases h0 : laneOf D s s.index = 0
  · rw [same _ (c0 h0)]
    simp only [h0, if_true]
    split
    · rename_i hjs; rw [hjs]; exact h0
    · rfl
  · simp only [h0, if_false]
    by_cases hlen : s.length > ((cmdByIndex D.groups s.index).getD default).name.length
    · simp only [hlen, if_true]; exact set 0 (by decide) _ (c1 h0 hlen)
    · simp only [hlen, if_false]
      by_cases hch : toUpper (((cmdByIndex D.groups s.index).getD default).name.getD (s.length - 1) 0) = s.currentChar
      · simp only [hch, ne_eq, not_true_eq_false, if_false]
        by_cases hfull : s.length = ((cmdByIndex D.groups s.index).getD default).name.length
        · simp only [hfull, if_true]
          exact set 2 (by decide) _ (c3 h0 hlen hch hfull)
        · simp only [hfull, if_false]
          rw [same _ (c4 h0 hlen hch hfull)]
          split
          · rename_i hjs; rw [hjs]
          · rfl
      · simp only [ne_eq, hch, not_false_eq_true, if_true]
        exact set 0 (by decide) _ (c2 h0 hlen hch)

/-- the cursor advance leaves all match states alone -/
theorem updateAdvance_lanes (D : Desc) (s : St) (j : Nat) : laneOf D (updateAdvance D s) j = laneOf D s j := by
  apply laneOf_congr
  unfold updateAdvance
  simp only
  (repeat' split) <;> simp [prepareSearchCommand]

end Cat
