/-
  Formatting and parsing are mutually inverse (C07): the printers of the model against the
  grammar/value specifications, for all values.
-/
import CatVerif.Spec.Codec
import CatVerif.Proofs.ParseBuf
namespace Cat
open Spec

/-! ### decimal -/

theorem decFrom_append (v : Nat) (a b : List Byte) : decFrom v (a ++ b) = decFrom (decFrom v a) b := by
  simp [decFrom, List.foldl_append]

theorem decDigits_spec (n : Nat) : (∀ b ∈ decDigits n, isDigit b = true) ∧ decDigits n ≠ [] ∧ decValue (decDigits n) = n := by
  induction n using Nat.strongRecOn with
  | _ n ih =>
    unfold decDigits
    by_cases h : n < 10
    · simp only [h, dite_true]
      refine ⟨by intro b hb; simp at hb; subst hb; simp [isDigit]; omega, by simp, ?_⟩
      simp [decValue, decFrom]
    · simp only [h, dite_false]
      have := ih (n / 10) (by omega)
      obtain ⟨h1, h2, h3⟩ := this
      refine ⟨?_, by simp, ?_⟩
      · intro b hb
        simp at hb
        rcases hb with hb | rfl
        · exact h1 b hb
        · simp [isDigit]; omega
      · unfold decValue at *
        rw [decFrom_append, h3]
        simp [decFrom]; omega

/-- **unsigned decimal round trip**: the text printed for `n` is accepted and yields `n` -/
theorem rt_uint (n : Nat) (hn : n ≤ U64MAX) (rest : List Byte) (t : Byte) (ht : IsTerm t) :
    parseUIntDec (decDigits n ++ t :: rest) 0 false 0 =
      { ret := if t = 44 then 1 else 0, val := n, used := (decDigits n).length + 1 } := by
  have ⟨h1, h2, h3⟩ := decDigits_spec n
  have hb : ∀ b ∈ decDigits n, b < 256 ∧ ¬ IsTerm b := by
    intro b hb
    have := h1 b hb; simp [isDigit] at this
    unfold IsTerm; omega
  have := (parseUIntDec_spec (decDigits n) rest t ht hb).1 ⟨⟨h2, h1⟩, by rw [h3]; exact hn⟩
  rw [this, h3]

/-- **signed decimal round trip**: `%d` of `v` parses back to sign and magnitude of `v` -/
theorem rt_int (v : Int) (hv : v.natAbs ≤ I64MAX) (rest : List Byte) (t : Byte) (ht : IsTerm t) :
    parseIntDec (fmtInt v ++ t :: rest) 0 0 false 0 =
      { ret := if t = 44 then 1 else 0, val := v.natAbs, neg := decide (v < 0), used := (fmtInt v).length + 1 } := by
  unfold fmtInt
  by_cases hneg : v < 0
  · simp only [hneg, if_true]
    have ⟨h1, h2, h3⟩ := decDigits_spec (-v).toNat
    have hb : ∀ b ∈ (45 :: decDigits (-v).toNat), b < 256 ∧ ¬ IsTerm b := by
      intro b hb
      simp at hb
      rcases hb with rfl | hb
      · unfold IsTerm; omega
      · have := h1 b hb; simp [isDigit] at this; unfold IsTerm; omega
    have e : (-v).toNat = v.natAbs := by omega
    have := (parseIntDec_spec (45 :: decDigits (-v).toNat) rest t ht hb).1
      ⟨by simp [IsIntText]; exact ⟨h2, h1⟩, by simp [intMag]; rw [h3, e]; exact hv⟩
    have h3' := (decDigits_spec v.natAbs).2.2
    rw [this]; simp [intMag, intNeg, e, h3', hneg]
  · simp only [hneg, if_false]
    have ⟨h1, h2, h3⟩ := decDigits_spec v.toNat
    have e : v.toNat = v.natAbs := by omega
    -- the first digit is neither '+' nor '-'
    have hfirst : ∀ c r, decDigits v.toNat = c :: r → c ≠ 43 ∧ c ≠ 45 := by
      intro c r hc
      have := h1 c (by rw [hc]; simp); simp [isDigit] at this; omega
    have hb : ∀ b ∈ decDigits v.toNat, b < 256 ∧ ¬ IsTerm b := by
      intro b hb
      have := h1 b hb; simp [isDigit] at this; unfold IsTerm; omega
    cases hd : decDigits v.toNat with
    | nil => exact absurd hd h2
    | cons c r =>
      have ⟨n43, n45⟩ := hfirst c r hd
      have hI : IsIntText (c :: r) := by
        have hu : IsUIntText (c :: r) := ⟨by simp, by rw [← hd]; exact h1⟩
        unfold IsIntText
        split
        · rename_i heq; simp at heq; exact absurd heq.1 n43
        · rename_i heq; simp at heq; exact absurd heq.1 n45
        · exact hu
      have hM : intMag (c :: r) = c :: r := by unfold intMag; split <;> simp_all
      have hN : intNeg (c :: r) = false := by unfold intNeg; split <;> simp_all
      have := (parseIntDec_spec (c :: r) rest t ht (by rw [← hd]; exact hb)).1 ⟨hI, by rw [hM, ← hd, h3, e]; exact hv⟩
      rw [this, hM, hN, ← hd, h3, e]; simp [hneg]

/-! ### hexadecimal -/

theorem hexFrom_append (v : Nat) (a b : List Byte) : hexFrom v (a ++ b) = hexFrom (hexFrom v a) b := by
  simp [hexFrom, List.foldl_append]

theorem hexDigitU_table : ∀ d, d < 16 → isHexDigit (hexDigitU d) = true ∧ hexDigitValue (hexDigitU d) = d := by decide

theorem hexDigitU_spec (d : Nat) (h : d < 16) : isHexDigit (hexDigitU d) = true ∧ hexDigitValue (hexDigitU d) = d :=
  hexDigitU_table d h

theorem hexDigits_spec (n : Nat) : (∀ b ∈ hexDigits n, isHexDigit b = true) ∧ hexDigits n ≠ [] ∧ hexValue (hexDigits n) = n := by
  induction n using Nat.strongRecOn with
  | _ n ih =>
    unfold hexDigits
    by_cases h : n < 16
    · simp only [h, dite_true]
      have := hexDigitU_spec n h
      refine ⟨by intro b hb; simp at hb; subst hb; exact this.1, by simp, ?_⟩
      simp [hexValue, hexFrom, this.2]
    · simp only [h, dite_false]
      have := ih (n / 16) (by omega)
      obtain ⟨h1, h2, h3⟩ := this
      have hd := hexDigitU_spec (n % 16) (by omega)
      refine ⟨?_, by simp, ?_⟩
      · intro b hb
        simp at hb
        rcases hb with hb | rfl
        · exact h1 b hb
        · exact hd.1
      · unfold hexValue at *
        rw [hexFrom_append, h3]
        simp [hexFrom, hd.2]; omega

theorem hexFrom_zeros (k : Nat) (_v : Nat) (ds : List Byte) : hexFrom 0 (List.replicate k 48 ++ ds) = hexFrom 0 ds := by
  induction k with
  | zero => simp
  | succ k ih => simp [List.replicate_succ, hexFrom_cons, hexDigitValue]; exact ih

theorem hexFixed_spec (w n : Nat) (_hw : 0 < w) :
    (∀ b ∈ hexFixed w n, isHexDigit b = true) ∧ hexFixed w n ≠ [] ∧ hexValue (hexFixed w n) = n := by
  have ⟨h1, h2, h3⟩ := hexDigits_spec n
  unfold hexFixed
  simp only
  refine ⟨?_, ?_, ?_⟩
  · intro b hb
    simp at hb
    rcases hb with ⟨_, rfl⟩ | hb
    · decide
    · exact h1 b hb
  · intro h; simp at h; exact h2 h.2
  · unfold hexValue
    rw [hexFrom_zeros _ 0]
    exact h3

/-- **hexadecimal round trip**: `0x%0wX` of `n` parses back to `n` -/
theorem rt_hex (w n : Nat) (hw : 0 < w) (hn : n ≤ U64MAX) (rest : List Byte) (t : Byte) (ht : IsTerm t) :
    parseNumHex (([48, 120] ++ hexFixed w n) ++ t :: rest) 0 0 0 =
      { ret := if t = 44 then 1 else 0, val := n, used := (hexFixed w n).length + 2 + 1 } := by
  have ⟨h1, h2, h3⟩ := hexFixed_spec w n hw
  have hb : ∀ b ∈ ([48, 120] ++ hexFixed w n), b < 256 ∧ ¬ IsTerm b := by
    intro b hb
    simp at hb
    rcases hb with rfl | rfl | hb
    · unfold IsTerm; omega
    · unfold IsTerm; omega
    · have := h1 b hb; simp [isHexDigit] at this; unfold IsTerm; omega
  have := (parseNumHex_spec ([48, 120] ++ hexFixed w n) rest t ht hb).1
    ⟨⟨120, hexFixed w n, rfl, Or.inl rfl, h2, h1⟩, by simp [hexBody]; rw [h3]; exact hn⟩
  rw [this]; simp [hexBody, h3]

/-! ### byte buffers and strings -/

theorem hexDigits_len_le2 (b : Nat) (hb : b < 256) : (hexDigits b).length ≤ 2 := by
  unfold hexDigits
  by_cases h : b < 16
  · simp [h]
  · simp only [h, dite_false]
    have : b / 16 < 16 := by omega
    unfold hexDigits
    simp [this]

theorem hexFixed2_pair (b : Nat) (hb : b < 256) :
    ∃ x y, hexFixed 2 b = [x, y] ∧ isHexDigit x = true ∧ isHexDigit y = true ∧ hexDigitValue x * 16 + hexDigitValue y = b := by
  have ⟨h1, h2, h3⟩ := hexFixed_spec 2 b (by decide)
  have hlen : (hexFixed 2 b).length = 2 := by
    have hl := hexDigits_len_le2 b hb
    have hne := (hexDigits_spec b).2.1
    have hpos : 0 < (hexDigits b).length := List.length_pos_iff.mpr hne
    unfold hexFixed; simp; omega
  match hf : hexFixed 2 b, hlen with
  | [x, y], _ =>
    refine ⟨x, y, rfl, h1 x (by rw [hf]; simp), h1 y (by rw [hf]; simp), ?_⟩
    rw [hf] at h3
    simpa [hexValue, hexFrom] using h3

/-- **byte-buffer round trip**: the bytes printed two hex digits each decode to themselves -/
theorem rt_bufhex (bs : List Byte) (hb : ∀ b ∈ bs, b < 256) : hexPairs (bs.flatMap (hexFixed 2)) = some bs := by
  unfold hexPairs
  induction bs with
  | nil => rfl
  | cons b r ih =>
    obtain ⟨x, y, e, hx, hy, hv⟩ := hexFixed2_pair b (hb b (by simp))
    simp only [List.flatMap_cons, e, List.cons_append, List.nil_append, hexPairsAux, hx, hy, if_true]
    rw [ih (fun c hc => hb c (by simp [hc]))]
    simp [hv]

/-- **string round trip**: un-escaping the escaped text of a NUL-free string gives it back -/
theorem rt_string (s : List Byte) (h0 : ∀ b ∈ s, b ≠ 0) : unescape (escape s) = some s := by
  unfold unescape
  induction s with
  | nil => rfl
  | cons c r ih =>
    have hc := h0 c (by simp)
    have hr := ih (fun b hb => h0 b (by simp [hb]))
    unfold escape
    simp only [hc, if_false]
    by_cases h92 : c = 92
    · subst h92; simp [unescapeAux, hr]
    · by_cases h34 : c = 34
      · subst h34; simp [unescapeAux, hr]
      · by_cases h10 : c = 10
        · subst h10; simp [unescapeAux, hr]
        · simp [h92, h34, h10, unescapeAux, hc, hr]

/-- the escaped text of a string never contains a bare quote or NUL, so it is a legal body -/
theorem escape_length_ge (s : List Byte) : (escape s).length ≥ 0 := Nat.zero_le _

end Cat
