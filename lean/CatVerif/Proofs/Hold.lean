/-
  The hold flag: which functions can change it, and the coupling `hold_state_flag <-> state = HOLD`.
-/
import CatVerif.Proofs.Inv
namespace Cat
open St

macro "hf" : tactic => `(tactic| (try simp) <;> (try ((repeat' split) <;> simp_all)))

@[simp] theorem readCmdChar_hf (s : St) (i : SvcIn) : (readCmdChar s i).1.holdFlag = s.holdFlag := by simp
@[simp] theorem ackError_hf (D : Desc) (s : St) : (ackError D s).holdFlag = s.holdFlag ∧ (ackError D s).holdExitStatus = s.holdExitStatus := by
  simp [ackError, startFlush]
@[simp] theorem ackOk_hf (D : Desc) (s : St) : (ackOk D s).holdFlag = s.holdFlag ∧ (ackOk D s).holdExitStatus = s.holdExitStatus := by
  simp [ackOk, startFlush]
@[simp] theorem startFlush_hf (s : St) (f : Fsm) (a : After) : (startFlush s f a).holdFlag = s.holdFlag := by
  cases f <;> simp [startFlush]
@[simp] theorem startFlushRaw_hf (s : St) (a : After) : (startFlushRaw s a).holdFlag = s.holdFlag := by simp [startFlushRaw]
@[simp] theorem endError_hf (D : Desc) (s : St) (f : Fsm) : (endError D s f).holdFlag = s.holdFlag := by
  cases f <;> simp [endError, unsolicitedResetState]
@[simp] theorem endOk_hf (D : Desc) (s : St) (f : Fsm) : (endOk D s f).holdFlag = s.holdFlag := by
  cases f <;> simp [endOk, unsolicitedResetState]
@[simp] theorem setStateRL_hf (s : St) (f : Fsm) : (setStateRL s f).holdFlag = s.holdFlag := by cases f <;> simp [setStateRL]
@[simp] theorem setStateTL_hf (s : St) (f : Fsm) : (setStateTL s f).holdFlag = s.holdFlag := by cases f <;> simp [setStateTL]
@[simp] theorem setIdx_hf (s : St) (f : Fsm) (n : Nat) : (s.setIdx f n).holdFlag = s.holdFlag := by cases f <;> simp [St.setIdx]
@[simp] theorem printResponseTest_hf (D : Desc) (s : St) (f : Fsm) : (printResponseTest D s f).1.holdFlag = s.holdFlag := by
  simp [printResponseTest]; hf
@[simp] theorem nextFormatVar_hf (D : Desc) (s : St) (f : Fsm) : (nextFormatVar D s f).1.holdFlag = s.holdFlag := by
  simp [nextFormatVar]; hf
@[simp] theorem startFormatTest_hf (D : Desc) (s : St) (f : Fsm) : (startFormatTest D s f).holdFlag = s.holdFlag := by
  cases f <;> (simp [startFormatTest]; hf)
@[simp] theorem startFormatRead_hf (D : Desc) (s : St) (f : Fsm) : (startFormatRead D s f).holdFlag = s.holdFlag := by
  cases f <;> (simp [startFormatRead]; hf)
@[simp] theorem parseVarValue_hf (D : Desc) (s : St) (v : VarD) : (parseVarValue D s v).1.holdFlag = s.holdFlag := by
  unfold parseVarValue; hf
@[simp] theorem varWriteCb_hf (D : Desc) (s : St) (v : VarD) (i : SvcIn) : (varWriteCb D s v i).1.holdFlag = s.holdFlag := by
  unfold varWriteCb; hf
@[simp] theorem varReadCb_hf (D : Desc) (s : St) (f : Fsm) (v : VarD) (i : SvcIn) : (varReadCb D s f v i).1.holdFlag = s.holdFlag := by
  unfold varReadCb; hf
@[simp] theorem formatVar_hf (D : Desc) (s : St) (f : Fsm) (v : VarD) : (formatVar D s f v).1.holdFlag = s.holdFlag := by
  unfold formatVar; hf
@[simp] theorem cmdListNextCmd_hf (D : Desc) (s : St) : (cmdListNextCmd D s).1.holdFlag = s.holdFlag := by
  simp [cmdListNextCmd]; hf
@[simp] theorem printCurrentCmdFullName_hf (D : Desc) (s : St) (x : List Byte) : (printCurrentCmdFullName D s x).1.holdFlag = s.holdFlag := by
  simp [printCurrentCmdFullName]; hf
@[simp] theorem startPrintCmdList_hf (D : Desc) (s : St) : (startPrintCmdList D s).holdFlag = s.holdFlag := by
  simp [startPrintCmdList]; hf

theorem errorState_hf (D : Desc) (s : St) (i : SvcIn) : (errorState D s i).1.holdFlag = s.holdFlag := by simp [errorState]; hf
theorem processIdleState_hf (s : St) (i : SvcIn) : (processIdleState s i).1.holdFlag = s.holdFlag := by simp [processIdleState]; hf
theorem parsePrefix_hf (D : Desc) (s : St) (i : SvcIn) : (parsePrefix D s i).1.holdFlag = s.holdFlag := by simp [parsePrefix, prepareParseCommand]; hf
theorem parseCommand_hf (D : Desc) (s : St) (i : SvcIn) : (parseCommand D s i).1.holdFlag = s.holdFlag := by simp [parseCommand, prepareSearchCommand]; hf
theorem updateCommand_hf (D : Desc) (s : St) : (updateCommand D s).1.holdFlag = s.holdFlag := by simp [updateCommand, updateAdvance, updateLane, prepareSearchCommand]; hf
theorem waitReadAcknowledge_hf (s : St) (i : SvcIn) : (waitReadAcknowledge s i).1.holdFlag = s.holdFlag := by simp [waitReadAcknowledge, prepareSearchCommand]; hf
theorem waitTestAcknowledge_hf (D : Desc) (s : St) (i : SvcIn) : (waitTestAcknowledge D s i).1.holdFlag = s.holdFlag := by simp [waitTestAcknowledge]; hf
theorem searchCommand_hf (D : Desc) (s : St) : (searchCommand D s).1.holdFlag = s.holdFlag := by simp [searchCommand, notFoundOrError]; hf
theorem commandFound_hf (D : Desc) (s : St) : (commandFound D s).1.holdFlag = s.holdFlag := by simp [commandFound]; hf
theorem parseCommandArgs_hf (D : Desc) (s : St) (i : SvcIn) : (parseCommandArgs D s i).1.holdFlag = s.holdFlag := by simp [parseCommandArgs]; hf
theorem parseWriteArgs_hf (D : Desc) (s : St) (i : SvcIn) : (parseWriteArgs D s i).1.holdFlag = s.holdFlag := by simp [parseWriteArgs]; hf
theorem formatReadArgs_hf (D : Desc) (s : St) (f : Fsm) (i : SvcIn) : (formatReadArgs D s f i).1.holdFlag = s.holdFlag := by simp [formatReadArgs]; hf
theorem formatTestArgs_hf (D : Desc) (s : St) (f : Fsm) : (formatTestArgs D s f).1.holdFlag = s.holdFlag := by simp [formatTestArgs]; hf
theorem processIoWriteWait_hf (s : St) : (processIoWriteWait s).1.holdFlag = s.holdFlag := by simp [processIoWriteWait]; hf
theorem processIoWrite_hf (D : Desc) (s : St) (i : SvcIn) : (processIoWrite D s i).1.holdFlag = s.holdFlag := by simp [processIoWrite]; hf
theorem printCmdList_hf (D : Desc) (s : St) : (printCmdList D s).holdFlag = s.holdFlag := by simp [printCmdList, printCmdForm]; hf

/-- the coupling between the hold flag and the HOLD state (Appendix B.3) -/
def HoldCpl (s : St) : Prop := s.holdFlag = true ↔ s.state = .hold

/-- a helper call made by a handler loop of the command machine keeps the coupling -/
theorem doCall_cmd_holdCpl (D : Desc) (s : St) (c : Call) (h : HoldCpl s) (hs : s.state ≠ .hold) : HoldCpl (doCall D .cmd s c) := by
  have hf : s.holdFlag = false := by
    cases hh : s.holdFlag
    · rfl
    · exact absurd (h.1 hh) hs
  unfold HoldCpl
  cases c with
  | ackOk => simp [doCall, hf]
  | ackError => simp [doCall, hf]
  | enableHold => simp [doCall, enableHoldState]
  | startPrintCmdList => simp [doCall, startPrintCmdList]; split <;> simp [hf]
  | endOk => simp [doCall, hf]
  | endError => simp [doCall, hf]
  | startFlush a => simp [doCall, hf]
  | startFormatRead =>
    have := startFormatRead_cmd_state D s
    simp [doCall, hf]; simp at this; rcases this with g | g | g <;> simp [g]
  | startFormatTest =>
    have := startFormatTest_cmd_state D s
    simp [doCall, hf]; simp at this; rcases this with g | g | g <;> simp [g]
  | holdExit ok => simp [doCall, hf, holdExit]; exact hs


theorem doCall_cmd_nohold (D : Desc) (s : St) (c : Call) (hc : c ≠ .enableHold) (hs : s.state ≠ .hold) :
    (doCall D .cmd s c).state ≠ .hold ∧ (doCall D .cmd s c).holdFlag = s.holdFlag := by
  cases c with
  | ackOk => simp [doCall]
  | ackError => simp [doCall]
  | enableHold => exact absurd rfl hc
  | startPrintCmdList => simp [doCall, startPrintCmdList]; split <;> simp
  | endOk => simp [doCall]
  | endError => simp [doCall]
  | startFlush a => simp [doCall]
  | startFormatRead =>
    have := startFormatRead_cmd_state D s
    simp [doCall]; simp at this; rcases this with g | g | g <;> simp [g]
  | startFormatTest =>
    have := startFormatTest_cmd_state D s
    simp [doCall]; simp at this; rcases this with g | g | g <;> simp [g]
  | holdExit ok => simp [doCall, holdExit]; split <;> simp [hs]

theorem doCalls_cmd_nohold (D : Desc) (cs : List Call) : ∀ s : St, .enableHold ∉ cs → s.state ≠ .hold →
    (doCalls D .cmd s cs).state ≠ .hold ∧ (doCalls D .cmd s cs).holdFlag = s.holdFlag := by
  induction cs with
  | nil => intro s _ hs; simpa [doCalls] using hs
  | cons c r ih =>
    intro s hc hs
    have a := doCall_cmd_nohold D s c (fun h => hc (by simp [h])) hs
    have b := ih (doCall D .cmd s c) (fun h => hc (by simp [h])) a.1
    simp only [doCalls]
    exact ⟨b.1, b.2.trans a.2⟩

/-- in each of the four tables HOLD is requested by a lone `enable_hold_state` call or not at all -/
theorem tables_holdSafe (ret : Int) :
    (Gen.process_write_loop ret = [.enableHold] ∨ .enableHold ∉ Gen.process_write_loop ret) ∧
    (Gen.process_run_loop ret = [.enableHold] ∨ .enableHold ∉ Gen.process_run_loop ret) ∧
    (Gen.process_read_loop ret .cmd = [.enableHold] ∨ .enableHold ∉ Gen.process_read_loop ret .cmd) ∧
    (Gen.process_test_loop ret .cmd = [.enableHold] ∨ .enableHold ∉ Gen.process_test_loop ret .cmd) := by
  refine ⟨?_, ?_, ?_, ?_⟩
  · unfold Gen.process_write_loop; (repeat' split) <;> simp
  · unfold Gen.process_run_loop; (repeat' split) <;> simp
  · unfold Gen.process_read_loop; (repeat' split) <;> simp
  · unfold Gen.process_test_loop; (repeat' split) <;> simp

theorem doCalls_table_holdCpl (D : Desc) (s : St) (cs : List Call) (hc : cs = [.enableHold] ∨ .enableHold ∉ cs)
    (h : HoldCpl s) (hs : s.state ≠ .hold) : HoldCpl (doCalls D .cmd s cs) := by
  have hf : s.holdFlag = false := by
    cases hh : s.holdFlag
    · rfl
    · exact absurd (h.1 hh) hs
  rcases hc with hc | hc
  · subst hc; simp [doCalls, doCall, enableHoldState, HoldCpl]
  · have := doCalls_cmd_nohold D cs s hc hs
    unfold HoldCpl
    rw [this.2, hf]; simp [this.1]

/-- **One step of the command machine preserves `hold_state_flag <-> state = HOLD`.** -/
theorem commandService_holdCpl (D : Desc) (s : St) (i : SvcIn) (h : HoldCpl s) : HoldCpl (commandService D s i).1 := by
  have hf : s.state ≠ .hold → s.holdFlag = false := by
    intro hs
    cases hh : s.holdFlag
    · rfl
    · exact absurd (h.1 hh) hs
  unfold commandService
  split <;> rename_i hs
  · have g := graph_error D s i; unfold HoldCpl; rw [errorState_hf, hf (by simp [hs])]; simp at g; rcases g with g | g <;> simp [g, hs]
  · have g := graph_idle s i; unfold HoldCpl; rw [processIdleState_hf, hf (by simp [hs])]; simp at g; rcases g with g | g | g <;> simp [g, hs]
  · have g := graph_prefix D s i; unfold HoldCpl; rw [parsePrefix_hf, hf (by simp [hs])]; simp at g; rcases g with g | g | g | g <;> simp [g, hs]
  · have g := graph_parseCommand D s i; unfold HoldCpl; rw [parseCommand_hf, hf (by simp [hs])]; simp at g; rcases g with g | g | g | g | g | g <;> simp [g, hs]
  · have g := graph_update D s; unfold HoldCpl; rw [updateCommand_hf, hf (by simp [hs])]; simp at g; rcases g with g | g | g <;> simp [g, hs]
  · have g := graph_waitRead s i; unfold HoldCpl; rw [waitReadAcknowledge_hf, hf (by simp [hs])]; simp at g; rcases g with g | g | g <;> simp [g, hs]
  · have g := graph_search D s; unfold HoldCpl; rw [searchCommand_hf, hf (by simp [hs])]; simp at g; rcases g with g | g | g | g <;> simp [g, hs]
  · have g := graph_found D s; unfold HoldCpl; rw [commandFound_hf, hf (by simp [hs])]; simp at g; rcases g with g | g | g | g | g <;> simp [g]
  · unfold HoldCpl; simp [commandNotFound, hf (by simp [hs])]
  · have g := graph_args D s i; unfold HoldCpl; rw [parseCommandArgs_hf, hf (by simp [hs])]; simp at g; rcases g with g | g | g | g | g | g <;> simp [g, hs]
  · have g := graph_writeArgs D s i; unfold HoldCpl; rw [parseWriteArgs_hf, hf (by simp [hs])]; simp at g; rcases g with g | g | g <;> simp [g, hs]
  · have g := graph_formatRead D s i; unfold HoldCpl; rw [formatReadArgs_hf, hf (by simp [hs])]; simp at g; rcases g with g | g | g <;> simp [g, hs]
  · have g := graph_waitTest D s i; unfold HoldCpl; rw [waitTestAcknowledge_hf, hf (by simp [hs])]; simp at g; rcases g with g | g | g | g | g <;> simp [g, hs]
  · have g := graph_formatTest D s; unfold HoldCpl; rw [formatTestArgs_hf, hf (by simp [hs])]; simp at g; rcases g with g | g | g <;> simp [g, hs]
  · simp only [processWriteLoop]
    refine doCalls_table_holdCpl D _ _ (tables_holdSafe _).1 ?_ (by simp [hs])
    unfold HoldCpl; simp [hf (by simp [hs]), hs]
  · simp only [processReadLoop]
    refine doCalls_table_holdCpl D _ _ (tables_holdSafe _).2.2.1 ?_ (by simp [hs])
    unfold HoldCpl; simp [hf (by simp [hs]), hs]
  · simp only [processTestLoop]
    refine doCalls_table_holdCpl D _ _ (tables_holdSafe _).2.2.2 ?_ (by simp [hs])
    unfold HoldCpl; simp [hf (by simp [hs]), hs]
  · simp only [processRunLoop]
    refine doCalls_table_holdCpl D _ _ (tables_holdSafe _).2.1 ?_ (by simp [hs])
    unfold HoldCpl; simp [hf (by simp [hs]), hs]
  · -- HOLD
    unfold HoldCpl processHoldState
    split
    · simpa [HoldCpl] using h
    · simp only; split <;> simp
  · unfold HoldCpl; rw [processIoWriteWait_hf, hf (by simp [hs])]; simp [processIoWriteWait]; split <;> simp [hs]
  · have g := graph_write D s i
    unfold HoldCpl; rw [processIoWrite_hf, hf (by simp [hs])]
    simp at g
    rcases g with g | g
    · simp [g, hs]
    · rw [g]; cases s.writeStateAfter <;> simp [After.toC]
  · unfold HoldCpl; simp [resetState, hf (by simp [hs])]
  · unfold HoldCpl; simp [hf (by simp [hs])]
  · have g := startFormatRead_cmd_state D s; unfold HoldCpl; simp [hf (by simp [hs])]; simp at g; rcases g with g | g | g <;> simp [g]
  · have g := startFormatTest_cmd_state D s; unfold HoldCpl; simp [hf (by simp [hs])]; simp at g; rcases g with g | g | g <;> simp [g]
  · have g := graph_printCmd D s; unfold HoldCpl; rw [printCmdList_hf, hf (by simp [hs])]; simp at g; rcases g with g | g | g <;> simp [g, hs]


theorem serviceBody_holdCpl (D : Desc) (s : St) (i : SvcIn) (hu : i.hu.ret ≠ 4) (h : HoldCpl s) : HoldCpl (serviceBody D s i).1 := by
  unfold serviceBody
  simp only
  apply commandService_holdCpl
  have k := unsolicitedEventsService_keepsC D s i hu
  unfold HoldCpl at *
  rw [k.2.2, k.1.2.2.2.2.2.2.2.1]; exact h

theorem service_holdCpl (D : Desc) (s : St) (i : SvcIn) (hu : i.hu.ret ≠ 4) (h : HoldCpl s) : HoldCpl (service D s i).1 := by
  unfold service
  exact withMutex_fst_frame D s i.lock i.unlock _ (fun a b => HoldCpl a → HoldCpl b) (fun _ h => h)
    (fun _ _ _ h1 h2 h => h2 (h1 h)) (fun a e h => by simpa [HoldCpl] using h)
    (fun a h => serviceBody_holdCpl D a i hu h) h

theorem apply_holdCpl (w : World) (op : Op) (hop : OpOk op) (h : HoldCpl w.s) : HoldCpl (apply w op).1.s := by
  by_cases hs : ∃ i, op = .service i
  · obtain ⟨i, rfl⟩ := hs
    simp only [apply]
    exact service_holdCpl w.D _ i hop (by simpa [HoldCpl] using h)
  · have := apply_nonservice_states w op (fun i hi => hs ⟨i, hi⟩)
    unfold HoldCpl at *
    rw [this.1, this.2.2]; exact h

end Cat
