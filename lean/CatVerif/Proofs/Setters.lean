/-
  Translator item T7: the model's field-assignment helpers are the ones generated from the
  assignment statements of `src/cat.c` (`Gen/Setters.lean`, regenerated on every run).  These are
  the functions through which every per-line field is (re)written before its first read (C20:
  `reset_state` clears `cr_flag` on every return to IDLE, `prepare_parse_command` rewrites the
  match-state lanes and the request type, `prepare_search_command` the search cursor,
  `start_flush_io_buffer*` the output cursor, `enable_hold_state` the hold bookkeeping); C01, C11,
  C14 and C15 rest on them too.  A source change to which field gets which value changes the
  generated text and breaks the equality.  The model's ghost events (`flushStart`) are not part of
  the C code and appear explicitly.
-/
import CatVerif.Gen.Setters
namespace Cat

theorem resetState_generated (D : Desc) (s : St) : resetState s = Gen.reset_state D s := by
  unfold resetState Gen.reset_state
  cases h : s.holdFlag <;> simp [h]

theorem unsolicitedResetState_generated (D : Desc) (s : St) : unsolicitedResetState s = Gen.unsolicited_reset_state D s := rfl

theorem prepareSearchCommand_generated (D : Desc) (s : St) : prepareSearchCommand s = Gen.prepare_search_command D s := rfl

theorem enableHoldState_generated (D : Desc) (s : St) : enableHoldState s = Gen.enable_hold_state D s := rfl

theorem startFlush_cmd_generated (D : Desc) (s : St) (a : After) :
    startFlush s .cmd a = (Gen.start_flush_io_buffer D s a).emit (.flushStart .cmd false) := rfl

theorem startFlush_uns_generated (D : Desc) (s : St) (a : After) :
    startFlush s .uns a = (Gen.unsolicited_start_flush_io_buffer D s a).emit (.flushStart .uns false) := rfl

theorem startFlushRaw_generated (D : Desc) (s : St) (a : After) :
    startFlushRaw s a = (Gen.start_flush_io_buffer_raw D s a).emit (.flushStart .cmd true) := rfl

theorem prepareParseCommand_generated (D : Desc) (s : St) : prepareParseCommand D s = Gen.prepare_parse_command D s := by
  unfold prepareParseCommand Gen.prepare_parse_command
  have : lanesInit = 85 := by decide
  simp [this]

end Cat
