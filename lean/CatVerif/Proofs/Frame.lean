/-
  Frame lemmas for the leaf helpers of the model: which fields of `St` a helper can change.
  Stated as conjunctions of field equations behind reducible abbreviations, so that `simp`
  splits them into rewrite rules.
-/
import CatVerif.Model.Api
import CatVerif.Proofs.Attr
namespace Cat
open St

/-- control fields of the command machine other than `position` -/
@[simp] abbrev SameC' (s s' : St) : Prop :=
  s'.index = s.index ∧ s'.partialCntr = s.partialCntr ∧ s'.length = s.length ∧
  s'.writeSize = s.writeSize ∧ s'.cmd = s.cmd ∧ s'.cmdType = s.cmdType ∧
  s'.currentChar = s.currentChar ∧ s'.state = s.state ∧ s'.crFlag = s.crFlag ∧
  s'.writeSrc = s.writeSrc ∧ s'.writeState = s.writeState ∧
  s'.writeStateAfter = s.writeStateAfter ∧ s'.implicitWriteFlag = s.implicitWriteFlag

/-- control fields of the unsolicited machine other than `uposition` -/
@[simp] abbrev SameU' (s s' : St) : Prop :=
  s'.ustate = s.ustate ∧ s'.uindex = s.uindex ∧ s'.ucmd = s.ucmd ∧
  s'.ucmdType = s.ucmdType ∧ s'.uwriteSrc = s.uwriteSrc ∧ s'.uwriteState = s.uwriteState ∧
  s'.uwriteStateAfter = s.uwriteStateAfter

@[simp] abbrev SameH (s s' : St) : Prop := s'.holdFlag = s.holdFlag ∧ s'.holdExitStatus = s.holdExitStatus

@[simp] abbrev SameR (s s' : St) : Prop :=
  s'.ring = s.ring ∧ s'.rtail = s.rtail ∧ s'.rhead = s.rhead ∧ s'.rcount = s.rcount

@[simp] abbrev SamePos (s s' : St) : Prop := s'.position = s.position ∧ s'.uposition = s.uposition

/-- every control field unchanged (buffers, variable storage, log and fault flags may differ) -/
@[simp] abbrev SameCtl (s s' : St) : Prop :=
  SameC' s s' ∧ SameU' s s' ∧ SameH s s' ∧ SameR s s' ∧ SamePos s s'

/-- every control field except the two positions -/
@[simp] abbrev SameCtlNP (s s' : St) : Prop := SameC' s s' ∧ SameU' s s' ∧ SameH s s' ∧ SameR s s'

@[simp] abbrev SameMem (s s' : St) : Prop := s'.mem = s.mem
@[simp] abbrev SameBuf (s s' : St) : Prop := s'.buf = s.buf ∧ s'.ubuf = s.ubuf
@[simp] abbrev SameLog (s s' : St) : Prop := s'.log = s.log

/-! ### leaves -/

@[simp] theorem emit_ctl (s : St) (e : Ev) : SameCtl s (s.emit e) ∧ SameMem s (s.emit e) ∧ SameBuf s (s.emit e) := by
  simp [St.emit]
@[simp] theorem emit_log (s : St) (e : Ev) : (s.emit e).log = s.log ++ [e] := rfl
@[simp] theorem emit_faults (s : St) (e : Ev) : (s.emit e).oob = s.oob ∧ (s.emit e).ub = s.ub := by simp [St.emit]

@[simp] theorem chk_ctl (s : St) (c : Bool) : SameCtl s (s.chk c) ∧ SameMem s (s.chk c) ∧ SameBuf s (s.chk c) ∧ SameLog s (s.chk c) := by
  unfold St.chk; split <;> simp
@[simp] theorem chkUb_ctl (s : St) (c : Bool) : SameCtl s (s.chkUb c) ∧ SameMem s (s.chkUb c) ∧ SameBuf s (s.chkUb c) ∧ SameLog s (s.chkUb c) := by
  unfold St.chkUb; split <;> simp

@[simp] theorem setB_ctl (D : Desc) (s : St) (f : Fsm) (i v : Nat) :
    SameCtl s (setB D s f i v) ∧ SameMem s (setB D s f i v) ∧ SameLog s (setB D s f i v) := by
  unfold setB; split
  · cases f <;> simp <;> split <;> simp
  · simp

@[simp] theorem writeB_ctl (D : Desc) (f : Fsm) (bs : List Byte) : ∀ (s : St) (i : Nat),
    SameCtl s (writeB D s f i bs) ∧ SameMem s (writeB D s f i bs) ∧ SameLog s (writeB D s f i bs) := by
  induction bs with
  | nil => intro s i; simp [writeB]
  | cons b r ih =>
    intro s i
    have h := ih (setB D s f i b) (i + 1)
    simp only [writeB]
    simp_all

@[simp] theorem strncpyC_ctl (D : Desc) (s : St) (str : List Byte) :
    SameCtl s (strncpyC D s str) ∧ SameMem s (strncpyC D s str) ∧ SameLog s (strncpyC D s str) := by
  unfold strncpyC; simp

@[simp] theorem setPos_frame (s : St) (f : Fsm) (n : Nat) :
    SameCtlNP s (s.setPos f n) ∧ SameMem s (s.setPos f n) ∧ SameBuf s (s.setPos f n) ∧ SameLog s (s.setPos f n)
    ∧ (s.setPos f n).oob = s.oob ∧ (s.setPos f n).ub = s.ub := by
  cases f <;> simp [St.setPos]

@[simp] theorem setPos_pos (s : St) (f : Fsm) (n : Nat) : (s.setPos f n).pos f = n := by
  cases f <;> simp [St.setPos, St.pos]

@[simp] theorem setPos_cmd (s : St) (n : Nat) : (s.setPos .cmd n).position = n ∧ (s.setPos .cmd n).uposition = s.uposition := by
  simp [St.setPos]
@[simp] theorem setPos_uns (s : St) (n : Nat) : (s.setPos .uns n).uposition = n ∧ (s.setPos .uns n).position = s.position := by
  simp [St.setPos]

/-- `slotWrite` only touches variable storage, the log and the fault flag -/
@[simp] theorem slotWrite_ctl (slot : Nat) (bs : List Byte) : ∀ (s : St) (off : Nat),
    SameCtl s (slotWrite s slot off bs) ∧ SameBuf s (slotWrite s slot off bs) := by
  induction bs with
  | nil => intro s off; simp [slotWrite]
  | cons b r ih =>
    intro s off
    simp only [slotWrite]
    split
    · have h := ih (({ s with mem := s.mem.set slot ((s.slotGet slot).set off b) } : St).emit (.memWrite slot off)) (off + 1)
      simp_all
    · have h := ih ({ s with oob := true }) (off + 1)
      simp_all

/-! ### printing into a machine's buffer: only that machine's position moves -/

@[simp] theorem printN_frame (D : Desc) (s : St) (f : Fsm) (str : List Byte) :
    SameCtlNP s (printN D s f str).1 ∧ SameMem s (printN D s f str).1 ∧ SameLog s (printN D s f str).1 := by
  unfold printN
  simp only
  split <;> simp

@[simp] theorem printN_pos_other (D : Desc) (s : St) (str : List Byte) :
    (printN D s .cmd str).1.uposition = s.uposition ∧ (printN D s .uns str).1.position = s.position := by
  unfold printN
  simp only
  constructor <;> split <;> simp [St.setPos]

@[simp] theorem printFmt_frame (D : Desc) (s : St) (f : Fsm) (txt : List Byte) :
    SameCtlNP s (printFmt D s f txt).1 ∧ SameMem s (printFmt D s f txt).1 ∧ SameLog s (printFmt D s f txt).1 := by
  unfold printFmt
  simp only
  split
  · simp
  · split <;> simp

@[simp] theorem printAll_frame (D : Desc) (f : Fsm) (xs : List (List Byte)) : ∀ s : St,
    SameCtlNP s (printAll D s f xs).1 ∧ SameMem s (printAll D s f xs).1 ∧ SameLog s (printAll D s f xs).1 := by
  induction xs with
  | nil => intro s; simp [printAll]
  | cons x r ih =>
    intro s
    simp only [printAll]
    have h1 := printN_frame D s f x
    split
    · have h2 := ih (printN D s f x).1
      simp_all
    · simp_all

@[simp] theorem printHexBytes_frame (D : Desc) (f : Fsm) (wo : Bool) (bs : List Byte) : ∀ s : St,
    SameCtlNP s (printHexBytes D f wo s bs).1 ∧ SameMem s (printHexBytes D f wo s bs).1 ∧ SameLog s (printHexBytes D f wo s bs).1 := by
  induction bs with
  | nil => intro s; simp [printHexBytes]
  | cons b r ih =>
    intro s
    simp only [printHexBytes]
    generalize hexFixed 2 (if wo = true then 0 else b) = txt
    have h1 := printFmt_frame D s f txt
    split
    · have h2 := ih (printFmt D s f txt).1
      simp_all
    · simp_all

@[simp] theorem printFmt_pos_other (D : Desc) (s : St) (txt : List Byte) :
    (printFmt D s .cmd txt).1.uposition = s.uposition ∧ (printFmt D s .uns txt).1.position = s.position := by
  unfold printFmt
  simp only
  constructor <;> (repeat' split) <;> simp

@[simp] theorem printAll_pos_other (D : Desc) (xs : List (List Byte)) : ∀ s : St,
    (printAll D s .cmd xs).1.uposition = s.uposition ∧ (printAll D s .uns xs).1.position = s.position := by
  induction xs with
  | nil => intro s; simp [printAll]
  | cons x r ih =>
    intro s
    simp only [printAll]
    constructor <;> split <;> simp_all

@[simp] theorem printHexBytes_pos_other (D : Desc) (wo : Bool) (bs : List Byte) : ∀ s : St,
    (printHexBytes D .cmd wo s bs).1.uposition = s.uposition ∧ (printHexBytes D .uns wo s bs).1.position = s.position := by
  induction bs with
  | nil => intro s; simp [printHexBytes]
  | cons b r ih =>
    intro s
    simp only [printHexBytes]
    generalize hexFixed 2 (if wo = true then 0 else b) = txt
    have h1 := printFmt_pos_other D s txt
    constructor
    · split
      · rw [(ih _).1]; exact h1.1
      · exact h1.1
    · split
      · rw [(ih _).2]; exact h1.2
      · exact h1.2

end Cat
