/-
  The line discipline of the command machine (C01): the last consumed byte, which states lie
  behind a line's LF, and where result codes are produced.
-/
import CatVerif.Proofs.Hold
import CatVerif.Proofs.Log
import CatVerif.Proofs.Resolve
namespace Cat
open St

macro "cc" : tactic => `(tactic| (try simp) <;> (try ((repeat' split) <;> simp_all)))

@[simp] theorem ackError_cc (D : Desc) (s : St) : (ackError D s).currentChar = s.currentChar := by
  simp [ackError, startFlush]
@[simp] theorem ackOk_cc (D : Desc) (s : St) : (ackOk D s).currentChar = s.currentChar := by
  simp [ackOk, startFlush]
@[simp] theorem startFlush_cc (s : St) (f : Fsm) (a : After) : (startFlush s f a).currentChar = s.currentChar := by
  cases f <;> simp [startFlush]
@[simp] theorem startFlushRaw_cc (s : St) (a : After) : (startFlushRaw s a).currentChar = s.currentChar := by simp [startFlushRaw]
@[simp] theorem endError_cc (D : Desc) (s : St) (f : Fsm) : (endError D s f).currentChar = s.currentChar := by
  cases f <;> simp [endError, unsolicitedResetState]
@[simp] theorem endOk_cc (D : Desc) (s : St) (f : Fsm) : (endOk D s f).currentChar = s.currentChar := by
  cases f <;> simp [endOk, unsolicitedResetState]
@[simp] theorem setStateRL_cc (s : St) (f : Fsm) : (setStateRL s f).currentChar = s.currentChar := by cases f <;> simp [setStateRL]
@[simp] theorem setStateTL_cc (s : St) (f : Fsm) : (setStateTL s f).currentChar = s.currentChar := by cases f <;> simp [setStateTL]
@[simp] theorem setIdx_cc (s : St) (f : Fsm) (n : Nat) : (s.setIdx f n).currentChar = s.currentChar := by cases f <;> simp [St.setIdx]
@[simp] theorem printResponseTest_cc (D : Desc) (s : St) (f : Fsm) : (printResponseTest D s f).1.currentChar = s.currentChar := by
  simp [printResponseTest]; cc
@[simp] theorem nextFormatVar_cc (D : Desc) (s : St) (f : Fsm) : (nextFormatVar D s f).1.currentChar = s.currentChar := by
  simp [nextFormatVar]; cc
@[simp] theorem startFormatTest_cc (D : Desc) (s : St) (f : Fsm) : (startFormatTest D s f).currentChar = s.currentChar := by
  cases f <;> (simp [startFormatTest]; cc)
@[simp] theorem startFormatRead_cc (D : Desc) (s : St) (f : Fsm) : (startFormatRead D s f).currentChar = s.currentChar := by
  cases f <;> (simp [startFormatRead]; cc)
@[simp] theorem parseVarValue_cc (D : Desc) (s : St) (v : VarD) : (parseVarValue D s v).1.currentChar = s.currentChar := by
  unfold parseVarValue; cc
@[simp] theorem varWriteCb_cc (D : Desc) (s : St) (v : VarD) (i : SvcIn) : (varWriteCb D s v i).1.currentChar = s.currentChar := by
  unfold varWriteCb; cc
@[simp] theorem varReadCb_cc (D : Desc) (s : St) (f : Fsm) (v : VarD) (i : SvcIn) : (varReadCb D s f v i).1.currentChar = s.currentChar := by
  unfold varReadCb; cc
@[simp] theorem formatVar_cc (D : Desc) (s : St) (f : Fsm) (v : VarD) : (formatVar D s f v).1.currentChar = s.currentChar := by
  unfold formatVar; cc
@[simp] theorem cmdListNextCmd_cc (D : Desc) (s : St) : (cmdListNextCmd D s).1.currentChar = s.currentChar := by
  simp [cmdListNextCmd]; cc
@[simp] theorem printCurrentCmdFullName_cc (D : Desc) (s : St) (x : List Byte) : (printCurrentCmdFullName D s x).1.currentChar = s.currentChar := by
  simp [printCurrentCmdFullName]; cc
@[simp] theorem startPrintCmdList_cc (D : Desc) (s : St) : (startPrintCmdList D s).currentChar = s.currentChar := by
  simp [startPrintCmdList]; cc

theorem updateCommand_cc (D : Desc) (s : St) : (updateCommand D s).1.currentChar = s.currentChar := by simp [updateCommand, updateAdvance, updateLane, prepareSearchCommand]; cc
theorem searchCommand_cc (D : Desc) (s : St) : (searchCommand D s).1.currentChar = s.currentChar := by simp [searchCommand, notFoundOrError]; cc
theorem commandFound_cc (D : Desc) (s : St) : (commandFound D s).1.currentChar = s.currentChar := by simp [commandFound]; cc
theorem parseWriteArgs_cc (D : Desc) (s : St) (i : SvcIn) : (parseWriteArgs D s i).1.currentChar = s.currentChar := by simp [parseWriteArgs]; cc
theorem formatReadArgs_cc (D : Desc) (s : St) (f : Fsm) (i : SvcIn) : (formatReadArgs D s f i).1.currentChar = s.currentChar := by simp [formatReadArgs]; cc
theorem formatTestArgs_cc (D : Desc) (s : St) (f : Fsm) : (formatTestArgs D s f).1.currentChar = s.currentChar := by simp [formatTestArgs]; cc
theorem processIoWriteWait_cc (s : St) : (processIoWriteWait s).1.currentChar = s.currentChar := by simp [processIoWriteWait]; cc
theorem processIoWrite_cc (D : Desc) (s : St) (i : SvcIn) : (processIoWrite D s i).1.currentChar = s.currentChar := by simp [processIoWrite]; cc
theorem printCmdList_cc (D : Desc) (s : St) : (printCmdList D s).currentChar = s.currentChar := by simp [printCmdList, printCmdForm]; cc

@[simp] theorem applyNested_cc (D : Desc) (f : Fsm) (e : Bool) (acts : List Nested) : ∀ s : St,
    (applyNested D f e s acts).currentChar = s.currentChar := by
  intro s; have := (applyNested_frame D f e acts s); simp_all
@[simp] theorem doCall_cc (D : Desc) (f : Fsm) (s : St) (c : Call) : (doCall D f s c).currentChar = s.currentChar := by
  cases c <;> simp [doCall, enableHoldState, holdExit] <;> cc
@[simp] theorem doCalls_cc (D : Desc) (f : Fsm) (cs : List Call) : ∀ s : St, (doCalls D f s cs).currentChar = s.currentChar := by
  induction cs with
  | nil => intro s; rfl
  | cons c r ih => intro s; simp only [doCalls]; rw [ih, doCall_cc]
theorem processWriteLoop_cc (D : Desc) (s : St) (i : SvcIn) : (processWriteLoop D s i).1.currentChar = s.currentChar := by
  simp [processWriteLoop]
theorem processRunLoop_cc (D : Desc) (s : St) (i : SvcIn) : (processRunLoop D s i).1.currentChar = s.currentChar := by
  simp [processRunLoop]
theorem processReadLoop_cc (D : Desc) (s : St) (f : Fsm) (i : SvcIn) : (processReadLoop D s f i).1.currentChar = s.currentChar := by
  simp [processReadLoop]
theorem processTestLoop_cc (D : Desc) (s : St) (f : Fsm) (i : SvcIn) : (processTestLoop D s f i).1.currentChar = s.currentChar := by
  simp [processTestLoop]
theorem processHoldState_cc (D : Desc) (s : St) : (processHoldState D s).1.currentChar = s.currentChar := by
  simp [processHoldState]; cc

/-! ### states behind the line's LF -/

/-- states the machine can only be in after the LF of the current line has been consumed -/
def PostLF (st : CState) : Prop :=
  st = .commandNotFound ∨ st = .parseWriteArgs ∨ st = .formatReadArgs ∨ st = .formatTestArgs ∨ st = .writeLoop ∨
  st = .readLoop ∨ st = .testLoop ∨ st = .runLoop ∨ st = .hold ∨ st = .flushWait ∨ st = .flushWrite ∨
  st = .afterFlushReset ∨ st = .afterFlushOk ∨ st = .afterFlushFormatRead ∨ st = .afterFlushFormatTest ∨ st = .printCmd

instance (st : CState) : Decidable (PostLF st) := by unfold PostLF; exact inferInstance

/-- the coupling between the state, the request type and the last consumed byte:
* behind the LF the last consumed byte *is* that LF — nothing has been read since;
* the search runs either before the arguments (WRITE) or after the LF (RUN, READ);
* while the name is typed the type is RUN; after `?` it is READ. -/
structure LineCpl (s : St) : Prop where
  post : PostLF s.state → s.currentChar = 10
  search : (s.state = .searchCommand ∨ s.state = .commandFound) →
    (s.cmdType = .write ∨ ((s.cmdType = .run ∨ s.cmdType = .read) ∧ s.currentChar = 10))
  name : (s.state = .parseCommandChar ∨ s.state = .updateCommandState) → s.cmdType = .run
  rdack : s.state = .waitReadAck → s.cmdType = .read

/-- in a state behind the LF (or a reading state without side conditions) it is enough that the
last consumed byte is the LF -/
theorem LineCpl.of_lf (s : St) (hc : s.currentChar = 10)
    (h1 : s.state ≠ .searchCommand) (h2 : s.state ≠ .commandFound) (h3 : s.state ≠ .parseCommandChar)
    (h4 : s.state ≠ .updateCommandState) (h5 : s.state ≠ .waitReadAck) : LineCpl s :=
  ⟨fun _ => hc, fun h => by rcases h with h | h <;> contradiction,
   fun h => by rcases h with h | h <;> contradiction, fun h => by contradiction⟩

/-- a state in `l`, none of which carries a side condition other than the LF one -/
theorem LineCpl.of_mem (s : St) (l : List CState) (hm : s.state ∈ l) (hc : s.currentChar = 10)
    (hl : ∀ st ∈ l, st ≠ .searchCommand ∧ st ≠ .commandFound ∧ st ≠ .parseCommandChar ∧ st ≠ .updateCommandState ∧ st ≠ .waitReadAck) :
    LineCpl s :=
  have := hl _ hm
  LineCpl.of_lf s hc this.1 this.2.1 this.2.2.1 this.2.2.2.1 this.2.2.2.2

macro "rdcase" : tactic => `(tactic| ((repeat' split) <;> simp_all [PostLF, ackError, ackOk, startFlush, St.emit, prepareSearchCommand, prepareParseCommand]))

theorem errorState_lineCpl (D : Desc) (s : St) (i : SvcIn) (hs : s.state = .error) : LineCpl (errorState D s i).1 := by
  cases hr : i.rd with
  | none => refine ⟨?_, ?_, ?_, ?_⟩ <;> simp [errorState, readCmdChar, hr, St.emit, hs, PostLF]
  | some b =>
    refine ⟨?_, ?_, ?_, ?_⟩ <;> simp [errorState, readCmdChar, hr, St.emit, hs] <;> rdcase

theorem processIdleState_lineCpl (s : St) (i : SvcIn) (hs : s.state = .idle) : LineCpl (processIdleState s i).1 := by
  cases hr : i.rd with
  | none => refine ⟨?_, ?_, ?_, ?_⟩ <;> simp [processIdleState, readCmdChar, hr, St.emit, hs, PostLF]
  | some b =>
    refine ⟨?_, ?_, ?_, ?_⟩ <;> simp [processIdleState, readCmdChar, hr, St.emit, hs] <;> rdcase

theorem parsePrefix_lineCpl (D : Desc) (s : St) (i : SvcIn) (hs : s.state = .parsePrefix) : LineCpl (parsePrefix D s i).1 := by
  cases hr : i.rd with
  | none => refine ⟨?_, ?_, ?_, ?_⟩ <;> simp [parsePrefix, readCmdChar, hr, St.emit, hs, PostLF]
  | some b =>
    refine ⟨?_, ?_, ?_, ?_⟩ <;> simp [parsePrefix, readCmdChar, hr, St.emit, hs] <;> rdcase

theorem parseCommand_lineCpl (D : Desc) (s : St) (i : SvcIn) (hs : s.state = .parseCommandChar) (h : LineCpl s) :
    LineCpl (parseCommand D s i).1 := by
  have hn := h.name (Or.inl hs)
  cases hr : i.rd with
  | none => refine ⟨?_, ?_, ?_, ?_⟩ <;> simp [parseCommand, readCmdChar, hr, St.emit, hs, PostLF, hn]
  | some b =>
    refine ⟨?_, ?_, ?_, ?_⟩ <;> simp [parseCommand, readCmdChar, hr, St.emit, hs] <;> rdcase

theorem waitReadAcknowledge_lineCpl (s : St) (i : SvcIn) (hs : s.state = .waitReadAck) (h : LineCpl s) :
    LineCpl (waitReadAcknowledge s i).1 := by
  have hn := h.rdack hs
  cases hr : i.rd with
  | none => refine ⟨?_, ?_, ?_, ?_⟩ <;> simp [waitReadAcknowledge, readCmdChar, hr, St.emit, hs, PostLF, hn]
  | some b =>
    refine ⟨?_, ?_, ?_, ?_⟩ <;> simp [waitReadAcknowledge, readCmdChar, hr, St.emit, hs] <;> rdcase

theorem waitTestAcknowledge_lineCpl (D : Desc) (s : St) (i : SvcIn) (hs : s.state = .waitTestAck) :
    LineCpl (waitTestAcknowledge D s i).1 := by
  cases hr : i.rd with
  | none => refine ⟨?_, ?_, ?_, ?_⟩ <;> simp [waitTestAcknowledge, readCmdChar, hr, St.emit, hs, PostLF]
  | some b =>
    by_cases h10 : toUpper b = 10
    · have e : (waitTestAcknowledge D s i).1 = startFormatTest D ({ s.emit (.rd (some b)) with currentChar := toUpper b }) .cmd := by
        simp [waitTestAcknowledge, readCmdChar, hr, St.emit, hs, h10]
      rw [e]
      exact LineCpl.of_mem _ _ (startFormatTest_cmd_state D _) (by rw [startFormatTest_cc]; exact h10) (by decide)
    · refine ⟨?_, ?_, ?_, ?_⟩ <;> simp [waitTestAcknowledge, readCmdChar, hr, St.emit, hs, h10] <;> rdcase

theorem parseCommandArgs_lineCpl (D : Desc) (s : St) (i : SvcIn) (hs : s.state = .parseCommandArgs) :
    LineCpl (parseCommandArgs D s i).1 := by
  cases hr : i.rd with
  | none => refine ⟨?_, ?_, ?_, ?_⟩ <;> simp [parseCommandArgs, readCmdChar, hr, St.emit, hs, PostLF]
  | some b =>
    refine ⟨?_, ?_, ?_, ?_⟩ <;> simp [parseCommandArgs, readCmdChar, hr, St.emit, hs] <;> rdcase

/-- post-LF step: successors among states without side condition, last byte untouched -/
macro "postlf" g:term "," cc:term "," h:term "," hs:term : tactic =>
  `(tactic| (have g := $g; rw [$hs:term] at g;
             exact LineCpl.of_mem _ _ g (by rw [$cc:term]; exact ($h).post (by simp [PostLF, $hs:term])) (by decide)))

theorem updateCommand_lineCpl (D : Desc) (s : St) (hs : s.state = .updateCommandState) (h : LineCpl s) :
    LineCpl (updateCommand D s).1 := by
  have hn := h.name (Or.inr hs)
  have ⟨_, _, _, d, e⟩ := updateLane_fields D (s.chkUb (decide (s.index < D.commandsNum)))
  simp only [chkUb_ctl] at d e
  refine ⟨?_, ?_, ?_, ?_⟩ <;> simp only [updateCommand, updateAdvance, prepareSearchCommand] <;>
    (repeat' split) <;> simp_all [PostLF]

theorem notFoundOrError_state (s : St) :
    ((notFoundOrError s).state = .commandNotFound ∧ s.currentChar = 10) ∨ (notFoundOrError s).state = .error := by
  unfold notFoundOrError; by_cases h : s.currentChar = 10 <;> simp [h]

def SearchOut (s s' : St) : Prop :=
  (∃ x : St, s' = notFoundOrError x ∧ x.currentChar = s.currentChar) ∨ s'.state = .commandFound ∨ s'.state = s.state

theorem searchCommand_out (D : Desc) (s : St) : SearchOut s (searchCommand D s).1 := by
  unfold searchCommand
  simp only [getCmdState]
  (repeat' split) <;>
    first
    | exact Or.inl ⟨_, rfl, by simp⟩
    | exact Or.inr (Or.inl rfl)
    | exact Or.inr (Or.inr (by simp))

theorem searchCommand_nf (D : Desc) (s : St) (hs : s.state = .searchCommand)
    (h : (searchCommand D s).1.state = .commandNotFound) : s.currentChar = 10 := by
  rcases searchCommand_out D s with ⟨x, e, hx⟩ | e | e
  · rw [e] at h
    rcases notFoundOrError_state x with ⟨_, c⟩ | c
    · rw [← hx]; exact c
    · rw [c] at h; cases h
  · rw [e] at h; cases h
  · rw [e, hs] at h; cases h

theorem searchCommand_lineCpl (D : Desc) (s : St) (hs : s.state = .searchCommand) (h : LineCpl s) :
    LineCpl (searchCommand D s).1 := by
  have hn := h.search (Or.inl hs)
  have g := graph_search D s
  have c := searchCommand_cc D s
  have t := (searchCommand_buf D s).2.1
  rw [hs] at g
  simp at g
  rcases g with g | g | g | g
  · exact ⟨by simp [g, PostLF], fun _ => by rw [t, c]; exact hn, by simp [g], by simp [g]⟩
  · exact ⟨by simp [g, PostLF], fun _ => by rw [t, c]; exact hn, by simp [g], by simp [g]⟩
  · exact LineCpl.of_lf _ (by rw [c]; exact searchCommand_nf D s hs g) (by simp [g]) (by simp [g]) (by simp [g]) (by simp [g]) (by simp [g])
  · exact ⟨by simp [g, PostLF], by simp [g], by simp [g], by simp [g]⟩

theorem commandFound_lineCpl (D : Desc) (s : St) (hs : s.state = .commandFound) (h : LineCpl s) :
    LineCpl (commandFound D s).1 := by
  have hn := h.search (Or.inr hs)
  rcases hn with hw | ⟨hr, hc⟩
  · refine ⟨?_, ?_, ?_, ?_⟩ <;> simp [commandFound, hw, setB] <;> (repeat' split) <;> simp_all [PostLF]
  · exact LineCpl.of_mem _ _ (graph_found D s) (by rw [commandFound_cc]; exact hc) (by
      decide)

theorem loopSucc_ok : ∀ st ∈ loopSucc, st ≠ .searchCommand ∧ st ≠ .commandFound ∧ st ≠ .parseCommandChar ∧
    st ≠ .updateCommandState ∧ st ≠ .waitReadAck := by decide

/-- **One step of the command machine preserves the line coupling.**  Needs the hold coupling
(`HoldCpl`): the only way back to reading is `reset_state` behind a final result code. -/
theorem commandService_lineCpl (D : Desc) (s : St) (i : SvcIn) (h : LineCpl s) : LineCpl (commandService D s i).1 := by
  unfold commandService
  split <;> rename_i hs
  · exact errorState_lineCpl D s i hs
  · exact processIdleState_lineCpl s i hs
  · exact parsePrefix_lineCpl D s i hs
  · exact parseCommand_lineCpl D s i hs h
  · exact updateCommand_lineCpl D s hs h
  · exact waitReadAcknowledge_lineCpl s i hs h
  · exact searchCommand_lineCpl D s hs h
  · exact commandFound_lineCpl D s hs h
  · exact LineCpl.of_lf _ (by simp [commandNotFound]; exact h.post (by simp [PostLF, hs])) (by simp [commandNotFound, ackError, startFlush, St.emit])
      (by simp [commandNotFound, ackError, startFlush, St.emit]) (by simp [commandNotFound, ackError, startFlush, St.emit])
      (by simp [commandNotFound, ackError, startFlush, St.emit]) (by simp [commandNotFound, ackError, startFlush, St.emit])
  · exact parseCommandArgs_lineCpl D s i hs
  · postlf graph_writeArgs D s i, parseWriteArgs_cc, h, hs
  · postlf graph_formatRead D s i, formatReadArgs_cc, h, hs
  · exact waitTestAcknowledge_lineCpl D s i hs
  · postlf graph_formatTest D s, formatTestArgs_cc, h, hs
  · postlf graph_writeLoop D s i, processWriteLoop_cc, h, hs
  · have hc : (processReadLoop D s .cmd i).1.currentChar = 10 := by rw [processReadLoop_cc]; exact h.post (by simp [PostLF, hs])
    rcases graph_readLoop D s i with g | g
    · exact LineCpl.of_lf _ hc (by simp [g, hs]) (by simp [g, hs]) (by simp [g, hs]) (by simp [g, hs]) (by simp [g, hs])
    · exact LineCpl.of_mem _ _ g hc loopSucc_ok
  · have hc : (processTestLoop D s .cmd i).1.currentChar = 10 := by rw [processTestLoop_cc]; exact h.post (by simp [PostLF, hs])
    rcases graph_testLoop D s i with g | g
    · exact LineCpl.of_lf _ hc (by simp [g, hs]) (by simp [g, hs]) (by simp [g, hs]) (by simp [g, hs]) (by simp [g, hs])
    · exact LineCpl.of_mem _ _ g hc loopSucc_ok
  · postlf graph_runLoop D s i, processRunLoop_cc, h, hs
  · postlf graph_hold D s, processHoldState_cc, h, hs
  · have hc : (processIoWriteWait s).1.currentChar = 10 := by rw [processIoWriteWait_cc]; exact h.post (by simp [PostLF, hs])
    have g := graph_wait s
    refine LineCpl.of_lf _ hc ?_ ?_ ?_ ?_ ?_ <;> (rw [g]; split <;> simp [hs])
  · have hc : (processIoWrite D s i).1.currentChar = 10 := by rw [processIoWrite_cc]; exact h.post (by simp [PostLF, hs])
    have g := graph_write D s i
    rw [hs] at g
    simp at g
    rcases g with g | g
    · exact LineCpl.of_lf _ hc (by simp [g]) (by simp [g]) (by simp [g]) (by simp [g]) (by simp [g])
    · refine LineCpl.of_lf _ hc ?_ ?_ ?_ ?_ ?_ <;> (rw [g]; cases s.writeStateAfter <;> simp [After.toC])
  · -- AFTER_FLUSH_RESET: back to IDLE (or HOLD)
    have hc := h.post (by simp [PostLF, hs])
    refine LineCpl.of_lf _ (by simp [resetState, St.emit]; split <;> simp [hc]) ?_ ?_ ?_ ?_ ?_ <;>
      (simp [resetState, St.emit]; split <;> simp)
  · exact LineCpl.of_lf _ (by simp; exact h.post (by simp [PostLF, hs])) (by simp [ackOk, startFlush, St.emit])
      (by simp [ackOk, startFlush, St.emit]) (by simp [ackOk, startFlush, St.emit]) (by simp [ackOk, startFlush, St.emit])
      (by simp [ackOk, startFlush, St.emit])
  · exact LineCpl.of_mem _ _ (startFormatRead_cmd_state D s) (by rw [startFormatRead_cc]; exact h.post (by simp [PostLF, hs])) (by decide)
  · exact LineCpl.of_mem _ _ (startFormatTest_cmd_state D s) (by rw [startFormatTest_cc]; exact h.post (by simp [PostLF, hs])) (by decide)
  · postlf graph_printCmd D s, printCmdList_cc, h, hs

end Cat
