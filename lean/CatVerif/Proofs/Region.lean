/-
  Region separation (C03): the command machine never stores outside the command region of the
  working buffer, the unsolicited machine never stores inside it.
-/
import CatVerif.Proofs.StepU
import CatVerif.Proofs.Log
namespace Cat
open St

/-- everything outside the command region is unchanged -/
@[simp] abbrev KeepsUR (D : Desc) (s s' : St) : Prop :=
  s'.ubuf = s.ubuf ∧ s'.buf.drop D.cmdCap = s.buf.drop D.cmdCap ∧ s'.buf.length = s.buf.length

/-- the command region is unchanged -/
@[simp] abbrev KeepsCR (D : Desc) (s s' : St) : Prop :=
  s'.buf.take D.cmdCap = s.buf.take D.cmdCap ∧ s'.buf.length = s.buf.length ∧ s'.ubuf.length = s.ubuf.length

/-- with a shared buffer the unsolicited half starts where the command half ends -/
theorem unsBase_eq_cmdCap (D : Desc) (h : D.unsBuf.isSome = false) : D.unsBase = D.cmdCap := by
  simp [Desc.unsBase, Desc.cmdCap, Gen.get_unsolicited_buf_offset, Gen.get_atcmd_buf_size, h]

@[simp] theorem setB_cmd_UR (D : Desc) (s : St) (i : Nat) (v : Byte) : KeepsUR D s (setB D s .cmd i v) := by
  unfold setB
  split
  · rename_i h
    have h' : i < D.cmdCap := h
    simp [List.drop_set, h']
  · simp

@[simp] theorem setB_uns_CR (D : Desc) (s : St) (i : Nat) (v : Byte) : KeepsCR D s (setB D s .uns i v) := by
  unfold setB
  split
  · cases hu : D.unsBuf.isSome
    · have e := unsBase_eq_cmdCap D hu
      simp [hu, List.take_set, e]
      exact List.set_eq_of_length_le (by simp; omega)
    · simp [hu]
  · simp

@[simp] theorem writeB_cmd_UR (D : Desc) (bs : List Byte) : ∀ (s : St) (i : Nat), KeepsUR D s (writeB D s .cmd i bs) := by
  induction bs with
  | nil => intro s i; simp [writeB]
  | cons b r ih =>
    intro s i
    have h := ih (setB D s .cmd i b) (i + 1)
    have g := setB_cmd_UR D s i b
    simp only [writeB]
    simp_all

@[simp] theorem writeB_uns_CR (D : Desc) (bs : List Byte) : ∀ (s : St) (i : Nat), KeepsCR D s (writeB D s .uns i bs) := by
  induction bs with
  | nil => intro s i; simp [writeB]
  | cons b r ih =>
    intro s i
    have h := ih (setB D s .uns i b) (i + 1)
    have g := setB_uns_CR D s i b
    simp only [writeB]
    simp_all

/-! ### helpers that do not touch any buffer -/

@[simp] theorem setStateRL_buf (s : St) (f : Fsm) : SameBuf s (setStateRL s f) := by cases f <;> simp [setStateRL]
@[simp] theorem setStateTL_buf (s : St) (f : Fsm) : SameBuf s (setStateTL s f) := by cases f <;> simp [setStateTL]
@[simp] theorem setIdx_buf (s : St) (f : Fsm) (n : Nat) : SameBuf s (s.setIdx f n) := by cases f <;> simp [St.setIdx]
@[simp] theorem enableHoldState_buf (s : St) : SameBuf s (enableHoldState s) := by simp [enableHoldState]
@[simp] theorem startFlush_buf (s : St) (f : Fsm) (a : After) : SameBuf s (startFlush s f a) := by cases f <;> simp [startFlush]
@[simp] theorem startFlushRaw_buf (s : St) (a : After) : SameBuf s (startFlushRaw s a) := by simp [startFlushRaw]
@[simp] theorem prepareSearchCommand_buf (s : St) : SameBuf s (prepareSearchCommand s) := by simp [prepareSearchCommand]
@[simp] theorem notFoundOrError_buf (s : St) : SameBuf s (notFoundOrError s) := by simp [notFoundOrError]
@[simp] theorem resetState_buf (s : St) : SameBuf s (resetState s) := by unfold resetState; crunch
@[simp] theorem unsolicitedResetState_buf (s : St) : SameBuf s (unsolicitedResetState s) := by simp [unsolicitedResetState]
@[simp] theorem processIdleState_buf (s : St) (i : SvcIn) : SameBuf s (processIdleState s i).1 := by
  simp [processIdleState]; crunch
@[simp] theorem waitReadAcknowledge_buf (s : St) (i : SvcIn) : SameBuf s (waitReadAcknowledge s i).1 := by
  simp [waitReadAcknowledge]; crunch
@[simp] theorem processIoWriteWait_buf (s : St) : SameBuf s (processIoWriteWait s).1 := by
  simp [processIoWriteWait]; crunch
@[simp] theorem unsolicitedProcessIoWriteWait_buf (s : St) : SameBuf s (unsolicitedProcessIoWriteWait s).1 := by
  simp [unsolicitedProcessIoWriteWait]; crunch

/-! ### printing and formatting -/

@[simp] theorem printN_reg (D : Desc) (s : St) (str : List Byte) :
    KeepsUR D s (printN D s .cmd str).1 ∧ KeepsCR D s (printN D s .uns str).1 := by
  unfold printN
  simp only
  constructor <;> split <;> simp [St.setPos]

@[simp] theorem printFmt_reg (D : Desc) (s : St) (txt : List Byte) :
    KeepsUR D s (printFmt D s .cmd txt).1 ∧ KeepsCR D s (printFmt D s .uns txt).1 := by
  unfold printFmt
  simp only
  constructor <;> (repeat' split) <;> simp

@[simp] theorem printAll_reg (D : Desc) (xs : List (List Byte)) : ∀ s : St,
    KeepsUR D s (printAll D s .cmd xs).1 ∧ KeepsCR D s (printAll D s .uns xs).1 := by
  induction xs with
  | nil => intro s; simp [printAll]
  | cons x r ih =>
    intro s
    simp only [printAll]
    constructor <;> split <;> simp_all

@[simp] theorem printHexBytes_reg (D : Desc) (wo : Bool) (bs : List Byte) : ∀ s : St,
    KeepsUR D s (printHexBytes D .cmd wo s bs).1 ∧ KeepsCR D s (printHexBytes D .uns wo s bs).1 := by
  induction bs with
  | nil => intro s; simp [printHexBytes]
  | cons b r ih =>
    intro s
    simp only [printHexBytes]
    generalize hexFixed 2 (if wo = true then 0 else b) = txt
    have h1 := printFmt_reg D s txt
    constructor
    · split
      · have h2 := (ih (printFmt D s .cmd txt).1).1; simp_all
      · exact h1.1
    · split
      · have h2 := (ih (printFmt D s .uns txt).1).2; simp_all
      · exact h1.2

@[simp] theorem formatIntDecimal_reg (D : Desc) (s : St) (v : VarD) :
    KeepsUR D s (formatIntDecimal D s .cmd v).1 ∧ KeepsCR D s (formatIntDecimal D s .uns v).1 := by
  unfold formatIntDecimal; constructor <;> split <;> simp

@[simp] theorem formatUIntDecimal_reg (D : Desc) (s : St) (v : VarD) :
    KeepsUR D s (formatUIntDecimal D s .cmd v).1 ∧ KeepsCR D s (formatUIntDecimal D s .uns v).1 := by
  unfold formatUIntDecimal; constructor <;> split <;> simp

@[simp] theorem formatNumHexadecimal_reg (D : Desc) (s : St) (v : VarD) :
    KeepsUR D s (formatNumHexadecimal D s .cmd v).1 ∧ KeepsCR D s (formatNumHexadecimal D s .uns v).1 := by
  unfold formatNumHexadecimal; constructor <;> split <;> simp

@[simp] theorem formatBufferHexadecimal_reg (D : Desc) (s : St) (v : VarD) :
    KeepsUR D s (formatBufferHexadecimal D s .cmd v).1 ∧ KeepsCR D s (formatBufferHexadecimal D s .uns v).1 := by
  unfold formatBufferHexadecimal; simp

@[simp] theorem formatBufferString_reg (D : Desc) (s : St) (v : VarD) :
    KeepsUR D s (formatBufferString D s .cmd v).1 ∧ KeepsCR D s (formatBufferString D s .uns v).1 := by
  unfold formatBufferString; simp

@[simp] theorem formatInfoType_reg (D : Desc) (s : St) (v : VarD) :
    KeepsUR D s (formatInfoType D s .cmd v).1 ∧ KeepsCR D s (formatInfoType D s .uns v).1 := by
  unfold formatInfoType; constructor <;> split <;> simp

/-! ### the command machine (generated from the frame lemmas of `Proofs/Step.lean`) -/

@[simp] theorem setCmdState_UR (D : Desc) (s : St) (i v : Nat) : KeepsUR D s (setCmdState D s i v) := by
  unfold setCmdState; simp

@[simp] theorem strncpyC_UR (D : Desc) (s : St) (str : List Byte) : KeepsUR D s (strncpyC D s str) := by
  unfold strncpyC; simp

/-! ### nested calls keep the other machine's position -/

@[simp] theorem applyNested_reg (D : Desc) (canEdit : Bool) (acts : List Nested) : ∀ s : St,
    KeepsUR D s (applyNested D .cmd canEdit s acts) ∧
    KeepsCR D s (applyNested D .uns canEdit s acts) := by
  induction acts with
  | nil => intro s; simp [applyNested]
  | cons a r ih =>
    intro s
    cases a <;> simp only [applyNested, withMutex] <;> (repeat' split) <;> simp_all

/-! ### level 1 -/


@[simp] theorem ackError_UR (D : Desc) (s : St) : KeepsUR D s (ackError D s) := by simp [ackError, startFlush]
@[simp] theorem ackOk_UR (D : Desc) (s : St) : KeepsUR D s (ackOk D s) := by simp [ackOk, startFlush]
@[simp] theorem startFlush_cmd_UR (s : St) (a : After) : KeepsUR D s (startFlush s .cmd a) := by simp [startFlush]
@[simp] theorem startFlushRaw_UR (s : St) (a : After) : KeepsUR D s (startFlushRaw s a) := by simp [startFlushRaw]
@[simp] theorem endError_cmd_UR (D : Desc) (s : St) : KeepsUR D s (endError D s .cmd) := by simp [endError]
@[simp] theorem endOk_cmd_UR (D : Desc) (s : St) : KeepsUR D s (endOk D s .cmd) := by simp [endOk]
@[simp] theorem resetState_UR (s : St) : KeepsUR D s (resetState s) := by unfold resetState; crunch
@[simp] theorem enableHoldState_UR (s : St) : KeepsUR D s (enableHoldState s) := by simp [enableHoldState]
@[simp] theorem prepareParseCommand_UR (D : Desc) (s : St) : KeepsUR D s (prepareParseCommand D s) := by simp [prepareParseCommand]
@[simp] theorem prepareSearchCommand_UR (s : St) : KeepsUR D s (prepareSearchCommand s) := by simp [prepareSearchCommand]
@[simp] theorem notFoundOrError_UR (s : St) : KeepsUR D s (notFoundOrError s) := by simp [notFoundOrError]
@[simp] theorem setStateRL_cmd_UR (s : St) : KeepsUR D s (setStateRL s .cmd) := by simp [setStateRL]
@[simp] theorem setStateTL_cmd_UR (s : St) : KeepsUR D s (setStateTL s .cmd) := by simp [setStateTL]

/-! ### level 2 -/

@[simp] theorem printResponseTest_cmd_UR (D : Desc) (s : St) : KeepsUR D s (printResponseTest D s .cmd).1 := by
  simp [printResponseTest]; crunch
@[simp] theorem nextFormatVar_cmd_UR (D : Desc) (s : St) : KeepsUR D s (nextFormatVar D s .cmd).1 := by
  simp [nextFormatVar, St.setIdx, St.idx, St.pos]; crunch
@[simp] theorem cmdListNextCmd_UR (D : Desc) (s : St) : KeepsUR D s (cmdListNextCmd D s).1 := by
  simp [cmdListNextCmd]; crunch
@[simp] theorem printCurrentCmdFullName_UR (D : Desc) (s : St) (x : List Byte) : KeepsUR D s (printCurrentCmdFullName D s x).1 := by
  simp [printCurrentCmdFullName]; crunch
@[simp] theorem startPrintCmdList_UR (D : Desc) (s : St) : KeepsUR D s (startPrintCmdList D s) := by
  simp [startPrintCmdList]; crunch
@[simp] theorem parseVarValue_UR (D : Desc) (s : St) (v : VarD) : KeepsUR D s (parseVarValue D s v).1 := by
  unfold parseVarValue; crunch
@[simp] theorem varWriteCb_UR (D : Desc) (s : St) (v : VarD) (i : SvcIn) : KeepsUR D s (varWriteCb D s v i).1 := by
  unfold varWriteCb; crunch
@[simp] theorem varReadCb_cmd_UR (D : Desc) (s : St) (v : VarD) (i : SvcIn) : KeepsUR D s (varReadCb D s .cmd v i).1 := by
  unfold varReadCb; crunch
@[simp] theorem formatVar_cmd_UR (D : Desc) (s : St) (v : VarD) : KeepsUR D s (formatVar D s .cmd v).1 := by
  unfold formatVar; crunch

/-! ### level 3 -/

@[simp] theorem startFormatTest_cmd_UR (D : Desc) (s : St) : KeepsUR D s (startFormatTest D s .cmd) := by
  simp [startFormatTest, St.cmdOf]; crunch
@[simp] theorem startFormatRead_cmd_UR (D : Desc) (s : St) : KeepsUR D s (startFormatRead D s .cmd) := by
  simp [startFormatRead, St.cmdOf]; crunch

@[simp] theorem doCall_cmd_UR (D : Desc) (s : St) (c : Call) : KeepsUR D s (doCall D .cmd s c) := by
  cases c <;> simp [doCall]
@[simp] theorem doCalls_cmd_UR (D : Desc) (cs : List Call) : ∀ s : St, KeepsUR D s (doCalls D .cmd s cs) := by
  induction cs with
  | nil => intro s; simp [doCalls]
  | cons c r ih =>
    intro s
    have h1 := doCall_cmd_UR D s c
    have h2 := ih (doCall D .cmd s c)
    simp only [doCalls]
    simp_all

/-! ### level 4: the functions dispatched by `cat_service` -/

@[simp] theorem errorState_UR (D : Desc) (s : St) (i : SvcIn) : KeepsUR D s (errorState D s i).1 := by
  simp [errorState]; crunch
@[simp] theorem processIdleState_UR (s : St) (i : SvcIn) : KeepsUR D s (processIdleState s i).1 := by
  simp [processIdleState]; crunch
@[simp] theorem parsePrefix_UR (D : Desc) (s : St) (i : SvcIn) : KeepsUR D s (parsePrefix D s i).1 := by
  simp [parsePrefix]; crunch
@[simp] theorem parseCommand_UR (D : Desc) (s : St) (i : SvcIn) : KeepsUR D s (parseCommand D s i).1 := by
  simp [parseCommand]; crunch
@[simp] theorem updateCommand_UR (D : Desc) (s : St) : KeepsUR D s (updateCommand D s).1 := by
  simp [updateCommand, updateAdvance, updateLane]; crunch
@[simp] theorem waitReadAcknowledge_UR (s : St) (i : SvcIn) : KeepsUR D s (waitReadAcknowledge s i).1 := by
  simp [waitReadAcknowledge]; crunch
@[simp] theorem waitTestAcknowledge_UR (D : Desc) (s : St) (i : SvcIn) : KeepsUR D s (waitTestAcknowledge D s i).1 := by
  simp [waitTestAcknowledge]; crunch
@[simp] theorem searchCommand_UR (D : Desc) (s : St) : KeepsUR D s (searchCommand D s).1 := by
  simp [searchCommand]; crunch
@[simp] theorem commandFound_UR (D : Desc) (s : St) : KeepsUR D s (commandFound D s).1 := by
  simp [commandFound]; crunch
@[simp] theorem commandNotFound_UR (D : Desc) (s : St) : KeepsUR D s (commandNotFound D s).1 := by
  simp [commandNotFound]
@[simp] theorem parseCommandArgs_UR (D : Desc) (s : St) (i : SvcIn) : KeepsUR D s (parseCommandArgs D s i).1 := by
  simp [parseCommandArgs]; crunch
@[simp] theorem parseWriteArgs_UR (D : Desc) (s : St) (i : SvcIn) : KeepsUR D s (parseWriteArgs D s i).1 := by
  simp [parseWriteArgs]; crunch
@[simp] theorem formatReadArgs_cmd_UR (D : Desc) (s : St) (i : SvcIn) : KeepsUR D s (formatReadArgs D s .cmd i).1 := by
  simp [formatReadArgs, St.cmdOf, St.idx]; crunch
@[simp] theorem formatTestArgs_cmd_UR (D : Desc) (s : St) : KeepsUR D s (formatTestArgs D s .cmd).1 := by
  simp [formatTestArgs, St.cmdOf, St.idx]; crunch
@[simp] theorem processWriteLoop_UR (D : Desc) (s : St) (i : SvcIn) : KeepsUR D s (processWriteLoop D s i).1 := by
  simp [processWriteLoop]
@[simp] theorem processRunLoop_UR (D : Desc) (s : St) (i : SvcIn) : KeepsUR D s (processRunLoop D s i).1 := by
  simp [processRunLoop]
@[simp] theorem processReadLoop_cmd_UR (D : Desc) (s : St) (i : SvcIn) : KeepsUR D s (processReadLoop D s .cmd i).1 := by
  simp [processReadLoop, St.cmdOf, St.pos]
@[simp] theorem processTestLoop_cmd_UR (D : Desc) (s : St) (i : SvcIn) : KeepsUR D s (processTestLoop D s .cmd i).1 := by
  simp [processTestLoop, St.cmdOf, St.pos]
@[simp] theorem processHoldState_UR (D : Desc) (s : St) : KeepsUR D s (processHoldState D s).1 := by
  simp [processHoldState]; crunch
@[simp] theorem processIoWriteWait_UR (s : St) : KeepsUR D s (processIoWriteWait s).1 := by
  simp [processIoWriteWait]; crunch
@[simp] theorem processIoWrite_UR (D : Desc) (s : St) (i : SvcIn) : KeepsUR D s (processIoWrite D s i).1 := by
  simp [processIoWrite]; crunch
@[simp] theorem printCmdList_UR (D : Desc) (s : St) : KeepsUR D s (printCmdList D s) := by
  simp [printCmdList, printCmdForm]; crunch

/-- **The command machine never touches anything outside the command region.** -/
theorem commandService_keepsUR (D : Desc) (s : St) (i : SvcIn) : KeepsUR D s (commandService D s i).1 := by
  unfold commandService
  split <;> simp

/-! ### the unsolicited machine -/

@[simp] theorem endError_uns_CR (D : Desc) (s : St) : KeepsCR D s (endError D s .uns) := by simp [endError]
@[simp] theorem endOk_uns_CR (D : Desc) (s : St) : KeepsCR D s (endOk D s .uns) := by simp [endOk]
@[simp] theorem printResponseTest_uns_CR (D : Desc) (s : St) : KeepsCR D s (printResponseTest D s .uns).1 := by
  simp [printResponseTest]; crunch
@[simp] theorem nextFormatVar_uns_CR (D : Desc) (s : St) : KeepsCR D s (nextFormatVar D s .uns).1 := by
  simp [nextFormatVar, St.setIdx, St.idx, St.pos]; crunch
@[simp] theorem startFormatTest_uns_CR (D : Desc) (s : St) : KeepsCR D s (startFormatTest D s .uns) := by
  simp [startFormatTest, St.cmdOf]; crunch
@[simp] theorem startFormatRead_uns_CR (D : Desc) (s : St) : KeepsCR D s (startFormatRead D s .uns) := by
  simp [startFormatRead, St.cmdOf]; crunch
@[simp] theorem varReadCb_uns_CR (D : Desc) (s : St) (v : VarD) (i : SvcIn) : KeepsCR D s (varReadCb D s .uns v i).1 := by
  unfold varReadCb; crunch
@[simp] theorem formatVar_uns_CR (D : Desc) (s : St) (v : VarD) : KeepsCR D s (formatVar D s .uns v).1 := by
  unfold formatVar; crunch

theorem doCall_uns_CR (D : Desc) (s : St) (c : Call) (h : UnsCallQ c) : KeepsCR D s (doCall D .uns s c) := by
  cases c <;> simp [UnsCallQ] at h <;> simp [doCall, holdExit] <;> crunch

theorem doCalls_uns_CR (D : Desc) (cs : List Call) : ∀ s : St, (∀ c ∈ cs, UnsCallQ c) → KeepsCR D s (doCalls D .uns s cs) := by
  induction cs with
  | nil => intro s _; simp [doCalls]
  | cons c r ih =>
    intro s h
    have h1 := doCall_uns_CR D s c (h c (by simp))
    have h2 := ih (doCall D .uns s c) (fun c' hc' => h c' (by simp [hc']))
    simp only [doCalls]
    simp_all

theorem processReadLoop_uns_CR (D : Desc) (s : St) (i : SvcIn) : KeepsCR D s (processReadLoop D s .uns i).1 := by
  simp only [processReadLoop]
  generalize hx : applyNested D Fsm.uns true _ _ = x
  have hxs : KeepsCR D s x := by subst hx; simp
  have := doCalls_uns_CR D (Gen.process_read_loop i.hu.ret .uns) x (readTable_uns_q _)
  simp_all

theorem processTestLoop_uns_CR (D : Desc) (s : St) (i : SvcIn) : KeepsCR D s (processTestLoop D s .uns i).1 := by
  simp only [processTestLoop]
  generalize hx : applyNested D Fsm.uns true _ _ = x
  have hxs : KeepsCR D s x := by subst hx; simp
  have := doCalls_uns_CR D (Gen.process_test_loop i.hu.ret .uns) x (testTable_uns_q _)
  simp_all

@[simp] theorem formatReadArgs_uns_CR (D : Desc) (s : St) (i : SvcIn) : KeepsCR D s (formatReadArgs D s .uns i).1 := by
  simp [formatReadArgs, St.cmdOf, St.idx]; crunch
@[simp] theorem formatTestArgs_uns_CR (D : Desc) (s : St) : KeepsCR D s (formatTestArgs D s .uns).1 := by
  simp [formatTestArgs, St.cmdOf, St.idx]; crunch
@[simp] theorem checkUnsolicitedBuffers_CR (D : Desc) (s : St) : KeepsCR D s (checkUnsolicitedBuffers D s) := by
  simp [checkUnsolicitedBuffers, ringPop]; crunch
@[simp] theorem unsolicitedProcessIoWrite_CR (D : Desc) (s : St) (i : SvcIn) : KeepsCR D s (unsolicitedProcessIoWrite D s i).1 := by
  simp [unsolicitedProcessIoWrite]; crunch

/-- **The unsolicited machine never stores into the command region** (whatever its handlers
answer, HOLD included). -/
theorem unsolicitedEventsService_keepsCR (D : Desc) (s : St) (i : SvcIn) :
    KeepsCR D s (unsolicitedEventsService D s i).1 := by
  unfold unsolicitedEventsService
  split <;> (try simp)
  · exact processReadLoop_uns_CR D s i
  · exact processTestLoop_uns_CR D s i

end Cat
