/-
  Liveness of `cat_service` (C15): a measure on states that every call decreases as long as the
  input delivers nothing, the output accepts every byte, the mutex calls succeed and the handlers
  give final answers — until the call reports OK.  The measure is an explicit expression in the
  table size, the buffer capacities, the number of variables and the number of queued events.
-/
import CatVerif.Proofs.NoOobHist
import CatVerif.Proofs.Quiesce
namespace Cat
open St

/-! ### how many variables a command can have -/

def Desc.allCmds (D : Desc) : List CmdD := D.groups.flatMap (·.cmds) ++ D.extras

/-- total number of variables of all commands: an upper bound for any single command -/
def Desc.vars (D : Desc) : Nat := (D.allCmds.map (·.varNum)).sum

theorem le_sum_of_mem (l : List Nat) (x : Nat) (h : x ∈ l) : x ≤ l.sum := by
  induction l with
  | nil => simp at h
  | cons a t ih =>
    simp only [List.mem_cons] at h
    simp only [List.sum_cons]
    rcases h with h | h
    · omega
    · have := ih h; omega

theorem cmdByIndex_mem : ∀ (gs : List GroupD) (i : Nat) (c : CmdD), cmdByIndex gs i = some c → c ∈ gs.flatMap (·.cmds) := by
  intro gs
  induction gs with
  | nil => intro i c h; simp [cmdByIndex] at h
  | cons g r ih =>
    intro i c h
    simp only [cmdByIndex] at h
    simp only [List.flatMap_cons, List.mem_append]
    split at h
    · exact Or.inr (ih _ c h)
    · exact Or.inl (List.mem_of_getElem? h)

theorem varNum_le (D : Desc) (id : Option Nat) : (D.cmdD id).varNum ≤ D.vars := by
  cases id with
  | none => simp [Desc.cmdD, CmdD.varNum]; exact Nat.zero_le _
  | some k =>
    simp only [Desc.cmdD]
    cases h : D.cmd? k with
    | none => simp [CmdD.varNum]; exact Nat.zero_le _
    | some c =>
      simp only [Option.getD_some]
      apply le_sum_of_mem
      apply List.mem_map_of_mem
      unfold Desc.cmd? at h
      unfold Desc.allCmds
      split at h
      · exact List.mem_append_left _ (cmdByIndex_mem _ _ _ h)
      · exact List.mem_append_right _ (List.mem_of_getElem? h)

/-! ### the constants of the measure (command machine) -/

/-- budget of one flush from a region of capacity `K`, the wait included -/
def FL (K : Nat) : Nat := 4 * K + 16

/-- steps left in a flush: phases still to come, and bytes left in the current phase (bounded) -/
def stepsLeft (K ws : Nat) (src : WSrc) (pos : Nat) : Nat :=
  (3 - ws) * (K + 4) + (match src with | .nl off => 3 - (off + pos) | .main => K - pos)

namespace Desc
def ACKF (D : Desc) : Nat := FL D.cmdCap + 1
def FLOK (D : Desc) : Nat := FL D.cmdCap + 2 + D.ACKF
def FLR (D : Desc) : Nat := FL D.cmdCap + 1
def PER (D : Desc) : Nat := 6 * (D.FLR + 1)
def LISTALL (D : Desc) : Nat := D.commandsNum * D.PER + D.ACKF + 2
def RL (D : Desc) : Nat := 1 + D.FLOK + D.ACKF
def TL (D : Desc) : Nat := 1 + D.FLOK + D.ACKF + D.LISTALL
def FMR (D : Desc) : Nat := D.vars + 2 + D.ACKF + D.RL + D.FLOK
def FMT (D : Desc) : Nat := D.vars + 2 + D.ACKF + D.TL + D.FLOK
def WL (D : Desc) : Nat := 1 + D.ACKF
def PW (D : Desc) : Nat := D.vars + 2 + D.ACKF + D.WL
def RUN (D : Desc) : Nat := 1 + D.ACKF + D.LISTALL
def FOUND (D : Desc) : Nat := 1 + D.ACKF + D.RUN + D.FMR
def SEARCH0 (D : Desc) : Nat := D.commandsNum + 2 + D.FOUND + D.ACKF
end Desc

def CmdType.stage : CmdType → Nat
  | .none => 0 | .run => 1 | .read => 2 | .write => 3 | .test => 4 | .total => 5

/-- what is left of the command list from the current command and request form -/
def listLeft (D : Desc) (index : Nat) (t : CmdType) : Nat :=
  (D.commandsNum - index - 1) * D.PER + (6 - t.stage) * (D.FLR + 1) + D.ACKF + 1

/-- measure of the state the command machine continues in after the flush -/
def aftOf (D : Desc) (a : After) (index : Nat) (t : CmdType) : Nat :=
  match a with
  | .reset => 1
  | .ok => 1 + D.ACKF
  | .fmtRead => 1 + D.FMR
  | .fmtTest => 1 + D.FMT
  | .printCmd => listLeft D index t

def aftC (D : Desc) (s : St) : Nat := aftOf D s.writeStateAfter s.index s.cmdType

/-- **the measure of the command machine** -/
def muC (D : Desc) (s : St) : Nat :=
  match s.state with
  | .error | .idle | .parsePrefix | .parseCommandChar | .waitReadAck | .waitTestAck | .parseCommandArgs | .hold => 0
  | .updateCommandState => (D.commandsNum - s.index) + 1 + D.SEARCH0
  | .searchCommand => (D.commandsNum - s.index) + 2 + D.FOUND + D.ACKF
  | .commandFound => D.FOUND
  | .commandNotFound => 1 + D.ACKF
  | .parseWriteArgs => (D.vars - s.index) + 1 + D.ACKF + D.WL
  | .formatReadArgs => (D.vars - s.index) + 1 + D.ACKF + D.RL + D.FLOK
  | .formatTestArgs => (D.vars - s.index) + 1 + D.ACKF + D.TL + D.FLOK
  | .writeLoop => D.WL
  | .readLoop => D.RL
  | .testLoop => D.TL
  | .runLoop => D.RUN
  | .flushWait => 1 + stepsLeft D.cmdCap s.writeState s.writeSrc s.position + aftC D s
  | .flushWrite => stepsLeft D.cmdCap s.writeState s.writeSrc s.position + aftC D s
  | .afterFlushReset => 1
  | .afterFlushOk => 1 + D.ACKF
  | .afterFlushFormatRead => 1 + D.FMR
  | .afterFlushFormatTest => 1 + D.FMT
  | .printCmd => listLeft D s.index s.cmdType

/-! ### leaves -/

theorem nlOff_le (s : St) : nlOff s ≤ 1 := by unfold nlOff; split <;> omega

theorem muC_startFlush (D : Desc) (t : St) (a : After) :
    muC D (startFlush t .cmd a) ≤ FL D.cmdCap + aftOf D a t.index t.cmdType := by
  have := nlOff_le t
  simp only [muC, startFlush, St.emit, aftC, stepsLeft, FL]
  omega

theorem muC_ack (D : Desc) (t : St) : muC D (ackOk D t) ≤ D.ACKF ∧ muC D (ackError D t) ≤ D.ACKF := by
  constructor
  · have := muC_startFlush D ((strncpyC D t [79, 75]).emit (.ack true)) .reset
    simpa [ackOk, Desc.ACKF, aftOf] using this
  · have := muC_startFlush D ((strncpyC D t [69, 82, 82, 79, 82]).emit (.ack false)) .reset
    simpa [ackError, Desc.ACKF, aftOf] using this

theorem muC_startFlushRaw (D : Desc) (t : St) (next : CmdType) :
    muC D ({ startFlushRaw t .printCmd with cmdType := next } : St) ≤ FL D.cmdCap + listLeft D t.index next := by
  simp only [muC, startFlushRaw, St.emit, aftC, aftOf, stepsLeft, FL]
  omega

/-! ### starting a formatted response -/

theorem muC_startFormatRead (D : Desc) (t : St) : muC D (startFormatRead D t .cmd) + 1 ≤ D.FMR := by
  unfold startFormatRead
  simp only
  generalize (t.setPos .cmd 0).chkUb _ = s0
  generalize D.cmdD (s0.cmdOf .cmd) = c
  generalize printAll D s0 .cmd [c.name, [61]] = r
  obtain ⟨s1, ok⟩ := r
  cases ok
  · have := (muC_ack D s1).2
    simp only [Bool.not_false, if_true, endError]
    unfold Desc.FMR; omega
  · simp only [Bool.not_true, Bool.false_eq_true, if_false]
    split
    · simp only [muC]; unfold Desc.FMR; omega
    · split
      · have := (muC_ack D s1).2
        simp only [endError]
        unfold Desc.FMR; omega
      · simp only [setStateRL, muC]; unfold Desc.FMR; omega

theorem muC_printResponseTest (D : Desc) (t : St) (h : (printResponseTest D t .cmd).2 = true) :
    muC D (printResponseTest D t .cmd).1 ≤ D.TL + D.FLOK := by
  unfold printResponseTest at h ⊢
  simp only at h ⊢
  generalize t.chkUb _ = s0 at h ⊢
  generalize D.cmdD (s0.cmdOf .cmd) = c at h ⊢
  have fl : ∀ x : St, muC D (startFlush x .cmd .ok) ≤ D.FLOK := by
    intro x; have := muC_startFlush D x .ok; simp only [aftOf] at this; unfold Desc.FLOK; omega
  cases hd : c.desc with
  | none =>
    simp only [hd, Bool.not_true, Bool.false_eq_true, if_false] at h ⊢
    split
    · simp only [setStateTL, muC]; omega
    · have := fl s0; dsimp only; omega
  | some d =>
    simp only [hd] at h ⊢
    generalize printAll D s0 .cmd [nlStr s0, d] = r at h ⊢
    obtain ⟨s1, ok⟩ := r
    cases ok
    · simp at h
    · simp only [Bool.not_true, Bool.false_eq_true, if_false] at h ⊢
      split
      · simp only [setStateTL, muC]; omega
      · have := fl s1; dsimp only; omega

theorem muC_startFormatTest (D : Desc) (t : St) : muC D (startFormatTest D t .cmd) + 1 ≤ D.FMT := by
  unfold startFormatTest
  simp only
  generalize (t.setPos .cmd 0).chkUb _ = s0
  generalize D.cmdD (s0.cmdOf .cmd) = c
  generalize printAll D s0 .cmd [c.name, [61]] = r
  obtain ⟨s1, ok⟩ := r
  cases ok
  · have := (muC_ack D s1).2
    simp only [Bool.not_false, if_true, endError]
    unfold Desc.FMT; omega
  · simp only [Bool.not_true, Bool.false_eq_true, if_false]
    split
    · simp only [muC]; unfold Desc.FMT; omega
    · have pr := muC_printResponseTest D s1
      generalize printResponseTest D s1 .cmd = r2 at pr
      obtain ⟨s2, ok2⟩ := r2
      cases ok2
      · have := (muC_ack D s2).2
        simp only [Bool.false_eq_true, if_false, endError]
        unfold Desc.FMT; omega
      · have := pr rfl
        simp only [if_true]
        dsimp only at this
        unfold Desc.FMT; omega

/-! ### one step of the command machine decreases the measure -/

theorem updateCommand_dec (D : Desc) (s : St) (hs : s.state = .updateCommandState) (hi : s.index < D.commandsNum) :
    muC D (updateCommand D s).1 < muC D s := by
  have ⟨a, _, _, d, _⟩ := updateLane_fields D (s.chkUb (decide (s.index < D.commandsNum)))
  simp only [chkUb_ctl] at a d
  simp only [updateCommand, updateAdvance, a, d, prepareSearchCommand]
  (repeat' split) <;> simp [muC, hs, d, a, Desc.SEARCH0] <;> omega

theorem searchCommand_index (D : Desc) (s : St) (h : (searchCommand D s).1.state = .searchCommand) :
    (searchCommand D s).1.index = s.index + 1 := by
  revert h
  simp [searchCommand, notFoundOrError]; crunch

theorem searchCommand_dec (D : Desc) (s : St) (hs : s.state = .searchCommand) (hi : s.index < D.commandsNum) :
    muC D (searchCommand D s).1 < muC D s := by
  have g := graph_search D s
  have ix := searchCommand_index D s
  generalize (searchCommand D s).1 = s' at g ix
  simp only [List.mem_cons, List.mem_nil_iff, or_false] at g
  rcases g with g | g | g | g
  · rw [hs] at g
    have := ix g
    simp only [muC, g, hs, this]; omega
  · simp only [muC, g, hs]; omega
  · simp only [muC, g, hs]; omega
  · simp only [muC, g, hs]; omega

theorem muC_after (D : Desc) (t : St) (a : After) (h : t.state = a.toC) : muC D t = aftOf D a t.index t.cmdType := by
  cases a <;> simp [After.toC] at h <;> simp [muC, h, aftOf]

theorem ws_cases {n : Nat} (h : n ≤ 2) : n = 0 ∨ n = 1 ∨ n = 2 := by omega

theorem processIoWrite_dec (D : Desc) (s : St) (i : SvcIn) (hs : s.state = .flushWrite) (hw : i.wr = true)
    (o : OobF D s .cmd) : muC D (processIoWrite D s i).1 < muC D s := by
  have hph : s.ph .cmd = .flush := by simp [St.ph, hs, CState.ph]
  have omain := o.main hph
  have onl := o.nl hph
  have owsle := o.wsle hph
  simp only [St.wsrc, St.pos, St.wst] at omain onl owsle
  have hmu : muC D s = stepsLeft D.cmdCap s.writeState s.writeSrc s.position + aftC D s := by simp [muC, hs]
  rw [hmu]
  unfold processIoWrite writeByte
  simp only [hw, Bool.not_true, Bool.false_eq_true, if_false]
  have nlo := nlOff_le s
  cases hsrc : s.writeSrc with
  | nl off =>
    have hb := onl off hsrc
    simp only [hb, decide_true, chk_true]
    split
    · rcases ws_cases owsle with h | h | h
      · simp [h, muC, hs, stepsLeft, aftC]; omega
      · simp [h, muC, hs, stepsLeft, aftC]; omega
      · simp only [h, beq_self_eq_true, if_true, show (2 : Nat) ≠ 0 by decide, show (2 : Nat) ≠ 1 by decide,
          show ((2 : Nat) == 0) = false by decide, show ((2 : Nat) == 1) = false by decide, Bool.false_eq_true, if_false]
        rw [muC_after D _ s.writeStateAfter (by simp [St.emit])]
        simp [St.emit, stepsLeft, aftC]; omega
    · rename_i hne
      have hne' : ([13, 10, 0] : List Byte).getD (off + s.position) 0 ≠ 0 := by simpa using hne
      have h1 := nl_get_ne off s.position hne'
      simp [muC, hs, St.emit, stepsLeft, hsrc, aftC]; omega
  | main =>
    have hn := omain hsrc
    have hlt : s.position < D.cmdCap := hn.lt
    simp only [show s.position < D.capOf .cmd from hlt, decide_true, chk_true]
    split
    · rcases ws_cases owsle with h | h | h
      · simp [h, muC, hs, stepsLeft, aftC]; omega
      · simp [h, muC, hs, stepsLeft, aftC]; omega
      · simp only [h, show ((2 : Nat) == 0) = false by decide, show ((2 : Nat) == 1) = false by decide, Bool.false_eq_true, if_false,
          beq_self_eq_true, if_true]
        rw [muC_after D _ s.writeStateAfter (by simp [St.emit])]
        simp [St.emit, stepsLeft, aftC]; omega
    · simp [muC, hs, St.emit, stepsLeft, hsrc, aftC]; omega

theorem processIoWriteWait_dec (D : Desc) (s : St) (hs : s.state = .flushWait) (hu : s.ustate ≠ .flushWrite) :
    muC D (processIoWriteWait s).1 < muC D s := by
  simp [processIoWriteWait, hu, muC, hs, aftC]

theorem commandNotFound_dec (D : Desc) (s : St) (hs : s.state = .commandNotFound) :
    muC D (commandNotFound D s).1 < muC D s := by
  have := (muC_ack D s).2
  have hm : muC D s = 1 + D.ACKF := by simp [muC, hs]
  rw [hm]
  simp only [commandNotFound]; omega

theorem commandFound_dec (D : Desc) (s : St) (hs : s.state = .commandFound) :
    muC D (commandFound D s).1 < muC D s := by
  have hm : muC D s = D.FOUND := by simp [muC, hs]
  rw [hm]
  unfold commandFound
  simp only
  generalize s.chkUb s.cmd.isSome = s0
  generalize D.cmdD s0.cmd = c
  have ae := (muC_ack D s0).2
  have fr := muC_startFormatRead D s0
  split
  · (repeat' split) <;> first | (unfold Desc.FOUND; omega) | (simp only [muC]; unfold Desc.FOUND; omega)
  · split
    · unfold Desc.FOUND; omega
    · unfold Desc.FOUND; omega
  · simp only [muC]; unfold Desc.FOUND; omega
  · unfold Desc.FOUND; omega

/-- a handler's final answer: not "call me again" (NEXT, DATA_NEXT) and not HOLD -/
def Final (r : Int) : Prop := r ≠ 1 ∧ r ≠ 2 ∧ r ≠ 4

theorem listLeft_start (D : Desc) (h : D.commandsNum ≠ 0) : listLeft D 0 .none + 1 = D.LISTALL := by
  have e1 : (6 - CmdType.none.stage) * (D.FLR + 1) = D.PER := by simp [CmdType.stage, Desc.PER]
  unfold listLeft Desc.LISTALL
  rw [e1]
  generalize D.PER = P
  obtain ⟨k, hk⟩ : ∃ k, D.commandsNum = k + 1 := ⟨D.commandsNum - 1, by omega⟩
  rw [hk, Nat.succ_mul]
  have : k + 1 - 0 - 1 = k := by omega
  rw [this]

theorem muC_startPrintCmdList (D : Desc) (t : St) : muC D (startPrintCmdList D t) ≤ D.ACKF + D.LISTALL := by
  unfold startPrintCmdList
  split
  · have := (muC_ack D t).1; omega
  · rename_i h
    have := listLeft_start D (by simpa using h)
    simp only [muC]; omega

theorem tables_mu (D : Desc) (t : St) (ret : Int) (hf : Final ret) :
    muC D (doCalls D .cmd t (Gen.process_write_loop ret)) ≤ D.ACKF ∧
    muC D (doCalls D .cmd t (Gen.process_run_loop ret)) ≤ D.ACKF + D.LISTALL ∧
    muC D (doCalls D .cmd t (Gen.process_read_loop ret .cmd)) ≤ D.FLOK ∧
    muC D (doCalls D .cmd t (Gen.process_test_loop ret .cmd)) ≤ D.FLOK + D.ACKF + D.LISTALL := by
  obtain ⟨h1, h2, h4⟩ := hf
  have hfl : D.ACKF ≤ D.FLOK := by unfold Desc.FLOK; omega
  have a1 : muC D (doCalls D .cmd t [.ackOk]) ≤ D.ACKF := (muC_ack D t).1
  have a2 : muC D (doCalls D .cmd t [.ackError]) ≤ D.ACKF := (muC_ack D t).2
  have a3 : muC D (doCalls D .cmd t [.endOk]) ≤ D.ACKF := (muC_ack D t).1
  have a4 : muC D (doCalls D .cmd t [.endError]) ≤ D.ACKF := (muC_ack D t).2
  have a5 : muC D (doCalls D .cmd t [.holdExit true, .endOk]) ≤ D.ACKF := (muC_ack D _).1
  have a6 : muC D (doCalls D .cmd t [.holdExit false, .endError]) ≤ D.ACKF := (muC_ack D _).2
  have a7 : muC D (doCalls D .cmd t [.startFlush .ok]) ≤ D.FLOK := by
    have := muC_startFlush D t .ok; simp only [aftOf] at this
    show muC D (startFlush t .cmd .ok) ≤ D.FLOK
    unfold Desc.FLOK; omega
  have a8 : muC D (doCalls D .cmd t [.startPrintCmdList]) ≤ D.ACKF + D.LISTALL := muC_startPrintCmdList D t
  have hW : ∀ l : List Call, l ∈ [[Call.ackOk], [Call.ackError]] → muC D (doCalls D .cmd t l) ≤ D.ACKF := by
    intro l hl
    simp only [List.mem_cons, List.mem_nil_iff, or_false] at hl
    rcases hl with rfl | rfl
    · exact a1
    · exact a2
  have hX : ∀ l : List Call, l ∈ [[Call.ackOk], [Call.ackError], [Call.startPrintCmdList]] → muC D (doCalls D .cmd t l) ≤ D.ACKF + D.LISTALL := by
    intro l hl
    simp only [List.mem_cons, List.mem_nil_iff, or_false] at hl
    rcases hl with rfl | rfl | rfl
    · exact Nat.le_trans a1 (Nat.le_add_right _ _)
    · exact Nat.le_trans a2 (Nat.le_add_right _ _)
    · exact a8
  have hR : ∀ l : List Call, l ∈ [[Call.startFlush .ok], [Call.endOk], [Call.holdExit true, Call.endOk], [Call.holdExit false, Call.endError], [Call.endError]] →
      muC D (doCalls D .cmd t l) ≤ D.FLOK := by
    intro l hl
    simp only [List.mem_cons, List.mem_nil_iff, or_false] at hl
    rcases hl with rfl | rfl | rfl | rfl | rfl
    · exact a7
    · exact Nat.le_trans a3 hfl
    · exact Nat.le_trans a5 hfl
    · exact Nat.le_trans a6 hfl
    · exact Nat.le_trans a4 hfl
  have hT : ∀ l : List Call, l ∈ [[Call.startFlush .ok], [Call.endOk], [Call.holdExit true, Call.endOk], [Call.holdExit false, Call.endError], [Call.endError], [Call.startPrintCmdList]] →
      muC D (doCalls D .cmd t l) ≤ D.FLOK + D.ACKF + D.LISTALL := by
    intro l hl
    simp only [List.mem_cons, List.mem_nil_iff, or_false] at hl
    rcases hl with rfl | rfl | rfl | rfl | rfl | rfl
    · exact Nat.le_trans a7 (by omega)
    · exact Nat.le_trans a3 (by omega)
    · exact Nat.le_trans a5 (by omega)
    · exact Nat.le_trans a6 (by omega)
    · exact Nat.le_trans a4 (by omega)
    · exact Nat.le_trans a8 (by omega)
  refine ⟨?_, ?_, ?_, ?_⟩
  · unfold Gen.process_write_loop
    (repeat' split) <;> first | (exfalso; omega) | exact hW _ (by decide)
  · unfold Gen.process_run_loop
    (repeat' split) <;> first | (exfalso; omega) | exact hX _ (by decide)
  · unfold Gen.process_read_loop
    (repeat' split) <;> first | (exfalso; omega) | exact hR _ (by decide) | (rename_i hq; exact absurd hq (by decide))
  · unfold Gen.process_test_loop
    (repeat' split) <;> first | (exfalso; omega) | exact hT _ (by decide) | (rename_i hq; exact absurd hq (by decide))

theorem loops_dec (D : Desc) (s : St) (i : SvcIn) (hf : Final i.hc.ret) :
    (s.state = .writeLoop → muC D (processWriteLoop D s i).1 < muC D s) ∧
    (s.state = .runLoop → muC D (processRunLoop D s i).1 < muC D s) ∧
    (s.state = .readLoop → muC D (processReadLoop D s .cmd i).1 < muC D s) ∧
    (s.state = .testLoop → muC D (processTestLoop D s .cmd i).1 < muC D s) := by
  refine ⟨fun hs => ?_, fun hs => ?_, fun hs => ?_, fun hs => ?_⟩
  · have hm : muC D s = D.WL := by simp [muC, hs]
    rw [hm]; unfold processWriteLoop; simp only
    have := (tables_mu D (applyNested D .cmd false ((s.chkUb s.cmd.isSome).emit
      (.handler .cmd .write ((s.chkUb s.cmd.isSome).cmd.getD 0) ((region D (s.chkUb s.cmd.isSome) .cmd 0).take (s.chkUb s.cmd.isSome).length)
        (getB D (s.chkUb s.cmd.isSome) .cmd (s.chkUb s.cmd.isSome).length == 0 && decide ((s.chkUb s.cmd.isSome).length < D.cmdCap))
        (s.chkUb s.cmd.isSome).length (s.chkUb s.cmd.isSome).index i.hc.ret)) i.hc.acts) i.hc.ret hf).1
    unfold Desc.WL; omega
  · have hm : muC D s = D.RUN := by simp [muC, hs]
    rw [hm]; unfold processRunLoop; simp only
    have := (tables_mu D (applyNested D .cmd false ((s.chkUb s.cmd.isSome).emit
      (.handler .cmd .run ((s.chkUb s.cmd.isSome).cmd.getD 0) [] true 0 0 i.hc.ret)) i.hc.acts) i.hc.ret hf).2.1
    unfold Desc.RUN; omega
  · have hm : muC D s = D.RL := by simp [muC, hs]
    rw [hm]; unfold processReadLoop; simp only
    generalize applyNested D .cmd true _ _ = t
    have := (tables_mu D t i.hc.ret hf).2.2.1
    unfold Desc.RL; omega
  · have hm : muC D s = D.TL := by simp [muC, hs]
    rw [hm]; unfold processTestLoop; simp only
    generalize applyNested D .cmd true _ _ = t
    have := (tables_mu D t i.hc.ret hf).2.2.2
    unfold Desc.TL; omega

theorem afterFlush_dec (D : Desc) (s : St) :
    (s.state = .afterFlushReset → s.holdFlag = false → muC D ((resetState s).emit .ackDone) < muC D s) ∧
    (s.state = .afterFlushOk → muC D (ackOk D s) < muC D s) ∧
    (s.state = .afterFlushFormatRead → muC D (startFormatRead D s .cmd) < muC D s) ∧
    (s.state = .afterFlushFormatTest → muC D (startFormatTest D s .cmd) < muC D s) := by
  refine ⟨fun hs hh => ?_, fun hs => ?_, fun hs => ?_, fun hs => ?_⟩
  · simp [resetState, hh, muC, hs, St.emit]
  · have := (muC_ack D s).1
    have hm : muC D s = 1 + D.ACKF := by simp [muC, hs]
    omega
  · have := muC_startFormatRead D s
    have hm : muC D s = 1 + D.FMR := by simp [muC, hs]
    omega
  · have := muC_startFormatTest D s
    have hm : muC D s = 1 + D.FMT := by simp [muC, hs]
    omega

theorem parseWriteArgs_dec (D : Desc) (s : St) (i : SvcIn) (hs : s.state = .parseWriteArgs) :
    muC D (parseWriteArgs D s i).1 < muC D s := by
  have hm : muC D s = (D.vars - s.index) + 1 + D.ACKF + D.WL := by simp [muC, hs]
  rw [hm]
  unfold parseWriteArgs
  simp only
  generalize hs0 : (s.chkUb s.cmd.isSome).chkUb _ = s0
  have c0 : Calm s s0 := by rw [← hs0]; exact (Calm.chkUb s _).trans (Calm.chkUb _ _)
  have e1 : (s.chkUb s.cmd.isSome).cmd = s.cmd := (Calm.chkUb s _).c.2.2.2.2.1
  rw [e1, c0.c.1]
  have hvl := varNum_le D s.cmd
  generalize D.cmdD s.cmd = c at hvl
  generalize c.varAt s.index = v
  have pb := parseVarValue_buf D s0 v
  have pk := parseVarValue_keep D s0 v
  generalize parseVarValue D s0 v = r1 at pb pk
  obtain ⟨s1, stat, ok⟩ := r1
  simp only at pb pk
  cases ok
  · have := (muC_ack D s1).2
    simp only [Bool.not_false, if_true]; omega
  · simp only [Bool.not_true, Bool.false_eq_true, if_false]
    have cb := varWriteCb_calm D s1 v i
    generalize varWriteCb D s1 v i = r2 at cb
    obtain ⟨s2, fail⟩ := r2
    simp only at cb
    cases fail
    · simp only [Bool.false_eq_true, if_false]
      have hidx : s2.index = s.index := by rw [cb.1.c.1, pb.2.2.2, c0.c.1]
      have hst : s2.state = .parseWriteArgs := by rw [cb.1.c.2.2.2.2.2.2.2.1, pk.1, c0.c.2.2.2.2.2.2.2.1]; exact hs
      (repeat' split)
      · rename_i hm2
        simp only [Bool.and_eq_true, decide_eq_true_eq] at hm2
        simp only [muC, hst, hidx]
        rw [hidx] at hm2
        omega
      · exact Nat.lt_of_le_of_lt (muC_ack D _).2 (by omega)
      · exact Nat.lt_of_le_of_lt (muC_ack D _).2 (by omega)
      · exact Nat.lt_of_le_of_lt (muC_ack D _).1 (by omega)
      · simp only [muC]; omega
    · have := (muC_ack D s2).2
      simp only [if_true]; omega

/-- `next_format_var` of the command machine: what it can lead to, in terms of the measure -/
theorem nextFormatVar_mu (D : Desc) (t : St) :
    ((nextFormatVar D t .cmd).2 = true →
      muC D (nextFormatVar D t .cmd).1 ≤ D.ACKF ∨
      ((nextFormatVar D t .cmd).1.state = t.state ∧ (nextFormatVar D t .cmd).1.index = t.index + 1 ∧
        t.index + 1 < (D.cmdD t.cmd).varNum)) ∧
    ((nextFormatVar D t .cmd).2 = false → (nextFormatVar D t .cmd).1 = t.setIdx .cmd (t.index + 1)) := by
  unfold nextFormatVar
  simp only [St.cmdOf, St.idx]
  by_cases hlt : (t.setIdx .cmd (t.index + 1)).index < (D.cmdD t.cmd).varNum
  · simp only [hlt, if_true]
    by_cases hp : (t.setIdx .cmd (t.index + 1)).pos .cmd ≥ D.capOf .cmd
    · simp only [hp, if_true]
      exact ⟨fun _ => Or.inl (muC_ack D _).2, fun h => Bool.noConfusion h⟩
    · simp only [hp, if_false]
      refine ⟨fun _ => Or.inr ⟨?_, ?_, ?_⟩, fun h => Bool.noConfusion h⟩
      · simp [St.setPos, St.setIdx, (setB_ctl D _ .cmd _ _).1.1.2.2.2.2.2.2.2.1]
      · simp [St.setPos, St.setIdx, (setB_ctl D _ .cmd _ _).1.1.1]
      · simpa [St.setIdx] using hlt
  · simp only [hlt, if_false]
    exact ⟨fun h => Bool.noConfusion h, fun _ => trivial⟩

theorem formatReadArgs_dec (D : Desc) (s : St) (i : SvcIn) (hs : s.state = .formatReadArgs) :
    muC D (formatReadArgs D s .cmd i).1 < muC D s := by
  have hm : muC D s = (D.vars - s.index) + 1 + D.ACKF + D.RL + D.FLOK := by simp [muC, hs]
  rw [hm]
  unfold formatReadArgs
  simp only
  generalize hs0 : (s.chkUb (s.cmdOf .cmd).isSome).chkUb _ = s0
  have c0 : Calm s s0 := by rw [← hs0]; exact (Calm.chkUb s _).trans (Calm.chkUb _ _)
  generalize D.cmdD ((s.chkUb (s.cmdOf .cmd).isSome).cmdOf .cmd) = c
  generalize c.varAt (s0.idx .cmd) = v
  have cb := varReadCb_calm D s0 .cmd v i
  generalize varReadCb D s0 .cmd v i = r1 at cb
  obtain ⟨s1, fail⟩ := r1
  simp only at cb
  cases fail
  · simp only [Bool.false_eq_true, if_false]
    have fc := formatVar_cmd_keep D s1 v
    generalize formatVar D s1 .cmd v = r2 at fc
    obtain ⟨s2, ok⟩ := r2
    simp only at fc
    cases ok
    · exact Nat.lt_of_le_of_lt (muC_ack D _).2 (by omega)
    · simp only [Bool.not_true, Bool.false_eq_true, if_false]
      have hst2 : s2.state = .formatReadArgs := by rw [fc.1, cb.1.c.2.2.2.2.2.2.2.1, c0.c.2.2.2.2.2.2.2.1]; exact hs
      have hix2 : s2.index = s.index := by rw [fc.2.2.1, cb.1.c.1, c0.c.1]
      have hvl := varNum_le D s2.cmd
      have nx := nextFormatVar_mu D s2
      generalize nextFormatVar D s2 .cmd = r3 at nx
      obtain ⟨s3, more⟩ := r3
      simp only at nx
      cases more
      · simp only [Bool.false_eq_true, if_false]
        have e3 := nx.2 rfl
        split
        · rw [e3]; simp only [setStateRL, St.setIdx, muC]; omega
        · have := muC_startFlush D s3 .ok
          simp only [aftOf] at this
          dsimp only
          unfold Desc.FLOK; omega
      · simp only [if_true]
        rcases nx.1 rfl with h | ⟨h1, h2, h3⟩
        · omega
        · simp only [muC, h1, hst2, h2, hix2]
          rw [hix2] at h3
          omega
  · exact Nat.lt_of_le_of_lt (muC_ack D _).2 (by omega)

theorem formatTestArgs_dec (D : Desc) (s : St) (hs : s.state = .formatTestArgs) :
    muC D (formatTestArgs D s .cmd).1 < muC D s := by
  have hm : muC D s = (D.vars - s.index) + 1 + D.ACKF + D.TL + D.FLOK := by simp [muC, hs]
  rw [hm]
  unfold formatTestArgs
  simp only
  generalize hs0 : (s.chkUb (s.cmdOf .cmd).isSome).chkUb _ = s0
  have c0 : Calm s s0 := by rw [← hs0]; exact (Calm.chkUb s _).trans (Calm.chkUb _ _)
  generalize D.cmdD ((s.chkUb (s.cmdOf .cmd).isSome).cmdOf .cmd) = c
  generalize c.varAt (s0.idx .cmd) = v
  have fc := formatInfoType_cmd_keep D s0 v
  generalize formatInfoType D s0 .cmd v = r1 at fc
  obtain ⟨s1, ok⟩ := r1
  simp only at fc
  cases ok
  · exact Nat.lt_of_le_of_lt (muC_ack D _).2 (by omega)
  · simp only [Bool.not_true, Bool.false_eq_true, if_false]
    have hst1 : s1.state = .formatTestArgs := by rw [fc.1, c0.c.2.2.2.2.2.2.2.1]; exact hs
    have hix1 : s1.index = s.index := by rw [fc.2.2.1, c0.c.1]
    have hvl := varNum_le D s1.cmd
    have nx := nextFormatVar_mu D s1
    generalize nextFormatVar D s1 .cmd = r2 at nx
    obtain ⟨s2, more⟩ := r2
    simp only at nx
    cases more
    · simp only [Bool.false_eq_true, if_false]
      have pr := muC_printResponseTest D s2
      generalize printResponseTest D s2 .cmd = r3 at pr
      obtain ⟨s3, ok3⟩ := r3
      cases ok3
      · exact Nat.lt_of_le_of_lt (muC_ack D _).2 (by omega)
      · have := pr rfl
        simp only [if_true]
        dsimp only at this
        omega
    · simp only [if_true]
      rcases nx.1 rfl with h | ⟨h1, h2, h3⟩
      · omega
      · simp only [muC, h1, hst1, h2, hix1]
        rw [hix1] at h3
        omega

/-! ### the command list -/

theorem listLeft_next (D : Desc) (i : Nat) (h : i + 1 < D.commandsNum) :
    listLeft D (i + 1) .none = (D.commandsNum - i - 1) * D.PER + D.ACKF + 1 := by
  have e1 : (6 - CmdType.none.stage) * (D.FLR + 1) = D.PER := by simp [CmdType.stage, Desc.PER]
  unfold listLeft
  rw [e1]
  generalize D.PER = P
  obtain ⟨k, hk⟩ : ∃ k, D.commandsNum - i - 1 = k + 1 := ⟨D.commandsNum - i - 2, by omega⟩
  have : D.commandsNum - (i + 1) - 1 = k := by omega
  rw [this, hk, Nat.succ_mul]

theorem cmdListNext_mu (D : Desc) (t : St) (k : Nat) (hk : t.index = k) (ht : k < D.commandsNum) :
    muC D (if (cmdListNextCmd D t).2 = true then (cmdListNextCmd D t).1 else ackOk D (cmdListNextCmd D t).1)
      ≤ (D.commandsNum - k - 1) * D.PER + D.ACKF + 1 := by
  subst hk
  unfold cmdListNextCmd
  simp only
  split
  · simp only [Bool.false_eq_true, if_false]
    have := (muC_ack D { t with index := t.index + 1 }).1
    omega
  · rename_i h
    simp only [if_true, muC]
    rw [listLeft_next D t.index (by omega)]
    omega

theorem printCurrentCmdFullName_index (D : Desc) (t : St) (x : List Byte) :
    (printCurrentCmdFullName D t x).1.index = t.index := by
  simp [printCurrentCmdFullName]; crunch

theorem printCmdForm_mu (D : Desc) (t : St) (avail : Bool) (x : List Byte) (next : CmdType) (k : Nat) (hk : t.index = k) :
    muC D (printCmdForm D t avail x next) ≤ FL D.cmdCap + listLeft D k next ∨
    muC D (printCmdForm D t avail x next) ≤ D.ACKF ∨
    printCmdForm D t avail x next = { t with cmdType := next } := by
  subst hk
  unfold printCmdForm
  split
  · simp only
    have ix := printCurrentCmdFullName_index D { t with position := 0 } x
    generalize printCurrentCmdFullName D { t with position := 0 } x = r at ix
    obtain ⟨s1, ok⟩ := r
    cases ok
    · exact Or.inr (Or.inl (muC_ack D _).2)
    · simp only [Bool.not_true, Bool.false_eq_true, if_false]
      have := muC_startFlushRaw D s1 next
      simp only at ix
      rw [ix] at this
      exact Or.inl this
  · exact Or.inr (Or.inr rfl)

theorem printCmdList_dec (D : Desc) (s : St) (hs : s.state = .printCmd) (hi : s.index < D.commandsNum) :
    muC D (printCmdList D s) < muC D s := by
  have hm : muC D s = listLeft D s.index s.cmdType := by simp [muC, hs]
  rw [hm]
  unfold printCmdList
  simp only
  generalize hsc : s.chkUb _ = sc
  have c0 : Calm s sc := by rw [← hsc]; exact Calm.chkUb s _
  have hix : sc.index = s.index := c0.c.1
  have hty : sc.cmdType = s.cmdType := c0.c.2.2.2.2.2.1
  have hst : sc.state = .printCmd := by rw [c0.c.2.2.2.2.2.2.2.1]; exact hs
  have nx := cmdListNext_mu D ({ sc with cmd := some sc.index } : St) s.index hix hi
  have fm : ∀ avail x next, next.stage = s.cmdType.stage + 1 →
      muC D (printCmdForm D ({ sc with cmd := some sc.index } : St) avail x next) < listLeft D s.index s.cmdType := by
    intro avail x next hn
    have key : FL D.cmdCap + listLeft D s.index next < listLeft D s.index s.cmdType := by
      unfold listLeft Desc.FLR
      rw [hn]
      have hle : s.cmdType.stage ≤ 4 := by
        have : next.stage ≤ 5 := by cases next <;> simp [CmdType.stage]
        omega
      obtain ⟨k, hk⟩ : ∃ k, 6 - s.cmdType.stage = k + 1 := ⟨5 - s.cmdType.stage, by omega⟩
      have : 6 - (s.cmdType.stage + 1) = k := by omega
      rw [this, hk, Nat.succ_mul]
      omega
    have alt : D.ACKF < listLeft D s.index s.cmdType := by unfold listLeft; omega
    rcases printCmdForm_mu D ({ sc with cmd := some sc.index } : St) avail x next s.index hix with h | h | h
    · omega
    · omega
    · rw [h]
      simp only [muC, hst, hix]
      have : listLeft D s.index next ≤ FL D.cmdCap + listLeft D s.index next := Nat.le_add_left _ _
      omega
  split
  · rename_i hc
    have hc' : s.cmdType = .none := by rw [← hty]; exact hc
    split
    · simp only [hc', listLeft, CmdType.stage]
      have := nx
      omega
    · generalize (D.cmdD _).onlyTest = b
      cases b <;> simp [muC, hst, hix, hc', listLeft, CmdType.stage] <;> omega
  · rename_i hc
    have hc' : s.cmdType = .run := by rw [← hty]; exact hc
    exact fm _ _ _ (by simp [hc', CmdType.stage])
  · rename_i hc
    have hc' : s.cmdType = .read := by rw [← hty]; exact hc
    exact fm _ _ _ (by simp [hc', CmdType.stage])
  · rename_i hc
    have hc' : s.cmdType = .write := by rw [← hty]; exact hc
    exact fm _ _ _ (by simp [hc', CmdType.stage])
  · rename_i hc
    have hc' : s.cmdType = .test := by rw [← hty]; exact hc
    exact fm _ _ _ (by simp [hc', CmdType.stage])
  · rename_i hc
    have hc' : s.cmdType = .total := by rw [← hty]; exact hc
    simp only [hc', listLeft, CmdType.stage]
    have := nx
    omega

/-! ### one step of the command machine -/

theorem final_nohold (ret : Int) (hf : Final ret) :
    .enableHold ∉ Gen.process_write_loop ret ∧ .enableHold ∉ Gen.process_run_loop ret ∧
    .enableHold ∉ Gen.process_read_loop ret .cmd ∧ .enableHold ∉ Gen.process_test_loop ret .cmd := by
  obtain ⟨h1, h2, h4⟩ := hf
  refine ⟨?_, ?_, ?_, ?_⟩
  · unfold Gen.process_write_loop; (repeat' split) <;> first | (exfalso; omega) | simp
  · unfold Gen.process_run_loop; (repeat' split) <;> first | (exfalso; omega) | simp
  · unfold Gen.process_read_loop; (repeat' split) <;> first | (exfalso; omega) | simp
  · unfold Gen.process_test_loop; (repeat' split) <;> first | (exfalso; omega) | simp

/-- with final answers the command machine never enters HOLD -/
theorem commandService_nohold (D : Desc) (s : St) (i : SvcIn) (hf : Final i.hc.ret) (h : HoldCpl s) (hs : s.state ≠ .hold) :
    (commandService D s i).1.state ≠ .hold := by
  have hfl : s.holdFlag = false := by
    cases hh : s.holdFlag
    · rfl
    · exact absurd (h.1 hh) hs
  have nh := final_nohold i.hc.ret hf
  have lp : ∀ (t : St) (cs : List Call), .enableHold ∉ cs → t.state ≠ .hold → (doCalls D .cmd t cs).state ≠ .hold :=
    fun t cs a b => (doCalls_cmd_nohold D cs t a b).1
  have an : ∀ (f : Fsm) (e : Bool) (t : St) (acts : List Nested), (applyNested D f e t acts).state = t.state :=
    fun f e t acts => applyNested_state D f e acts t
  unfold commandService
  split <;> rename_i hst
  · have := graph_error D s i; intro e; simp [e, hst] at this
  · have := graph_idle s i; intro e; simp [e, hst] at this
  · have := graph_prefix D s i; intro e; simp [e, hst] at this
  · have := graph_parseCommand D s i; intro e; simp [e, hst] at this
  · have := graph_update D s; intro e; simp [e, hst] at this
  · have := graph_waitRead s i; intro e; simp [e, hst] at this
  · have := graph_search D s; intro e; simp [e, hst] at this
  · have := graph_found D s; intro e; simp [e] at this
  · simp [commandNotFound]
  · have := graph_args D s i; intro e; simp [e, hst] at this
  · have := graph_writeArgs D s i; intro e; simp [e, hst] at this
  · have := graph_formatRead D s i; intro e; simp [e, hst] at this
  · have := graph_waitTest D s i; intro e; simp [e, hst] at this
  · have := graph_formatTest D s; intro e; simp [e, hst] at this
  · unfold processWriteLoop; simp only
    exact lp _ _ nh.1 (by rw [an]; simp [St.emit, hst])
  · unfold processReadLoop; simp only
    exact lp _ _ nh.2.2.1 (by rw [an]; simp [St.emit, hst])
  · unfold processTestLoop; simp only
    exact lp _ _ nh.2.2.2 (by rw [an]; simp [St.emit, hst])
  · unfold processRunLoop; simp only
    exact lp _ _ nh.2.1 (by rw [an]; simp [St.emit, hst])
  · exact absurd hst hs
  · rw [graph_wait]; split <;> simp [hst]
  · have := graph_write D s i; intro e; simp [e, hst] at this; cases hx : s.writeStateAfter <;> simp [hx, After.toC] at this
  · simp [resetState, hfl, St.emit]
  · simp
  · have := startFormatRead_cmd_state D s; intro e; dsimp only at e; simp [e] at this
  · have := startFormatTest_cmd_state D s; intro e; dsimp only at e; simp [e] at this
  · have := graph_printCmd D s; intro e; dsimp only at e; simp [e, hst] at this

/-- **One step of the command machine** without deliverable input, with an accepting output and a
final handler answer: a state waiting for input stays as it is and reports OK; a unit ready to be
sent while the other machine is sending waits; every other step decreases the measure. -/
theorem commandService_dec (D : Desc) (s : St) (i : SvcIn) (hrd : i.rd = none) (hwr : i.wr = true) (hf : Final i.hc.ret)
    (u : UbInv D s) (o : OobF D s .cmd) (h : HoldCpl s) (hs : s.state ≠ .hold) :
    (Reading s.state → commandService D s i = (s.emit (.rd none), Gen.CAT_STATUS_OK)) ∧
    (¬ Reading s.state →
      (s.state = .flushWait ∧ s.ustate = .flushWrite ∧ (commandService D s i).1 = s) ∨
      muC D (commandService D s i).1 < muC D s) := by
  refine ⟨fun hr => read_refused D s i hr hrd, fun hr => ?_⟩
  have hfl : s.holdFlag = false := by
    cases hh : s.holdFlag
    · rfl
    · exact absurd (h.1 hh) hs
  have ld := loops_dec D s i hf
  have af := afterFlush_dec D s
  unfold Reading at hr
  unfold commandService
  split <;> rename_i hst
  · exact absurd (by simp [hst]) hr
  · exact absurd (by simp [hst]) hr
  · exact absurd (by simp [hst]) hr
  · exact absurd (by simp [hst]) hr
  · exact Or.inr (updateCommand_dec D s hst (u.idx (Or.inl hst)))
  · exact absurd (by simp [hst]) hr
  · exact Or.inr (searchCommand_dec D s hst (u.idx (Or.inr (Or.inl hst))))
  · exact Or.inr (commandFound_dec D s hst)
  · exact Or.inr (commandNotFound_dec D s hst)
  · exact absurd (by simp [hst]) hr
  · exact Or.inr (parseWriteArgs_dec D s i hst)
  · exact Or.inr (formatReadArgs_dec D s i hst)
  · exact absurd (by simp [hst]) hr
  · exact Or.inr (formatTestArgs_dec D s hst)
  · exact Or.inr (ld.1 hst)
  · exact Or.inr (ld.2.2.1 hst)
  · exact Or.inr (ld.2.2.2 hst)
  · exact Or.inr (ld.2.1 hst)
  · exact absurd hst hs
  · by_cases hu : s.ustate = .flushWrite
    · exact Or.inl ⟨hst, hu, by simp [processIoWriteWait, hu]⟩
    · exact Or.inr (processIoWriteWait_dec D s hst hu)
  · exact Or.inr (processIoWrite_dec D s i hst hwr o)
  · exact Or.inr (af.1 hst hfl)
  · exact Or.inr (af.2.1 hst)
  · exact Or.inr (af.2.2.1 hst)
  · exact Or.inr (af.2.2.2 hst)
  · exact Or.inr (printCmdList_dec D s hst (u.idx (Or.inr (Or.inr (Or.inl hst)))))

end Cat
